#!/usr/bin/env python3
"""Regenerates MANIFEST.json from the table below (kept as code so that it stays valid)."""
import json, os
ROOT = os.path.dirname(os.path.abspath(__file__))
BASELINE_OFF = "cd /repo && GOFLAGS=-mod=mod go test -json -vet=off -count=1 -timeout 25m ./..."

CLAIMED = {
 "C19": dict(
  technique="property-based testing (rapid): boundary-biased generated inputs against math/big, crypto/sha256 and an independent Merkle-root oracle; shrunk failures become replay files",
  level="exploration",
  text="Generated-input search over each helper's uint64 domain with boundary bias (0, 1, 2^k±2, perfect squares ±2, 2^64-1, representability edges) against big-integer formulas; both directions are checked for helpers with an error result (value iff representable, error iff not). Sampling, not exhaustion: the domain is 2^64 per argument.",
  note="Trusted: math/big, crypto/sha256, the harness's 10-line Merkle fold. NextPowerOfTwo(0) is pinned by the repo's own test and not judged. Absence of a counterexample in ~10^5..10^7 biased cases is not a proof.",
  ref="§3 C19"),
 "C06": dict(
  technique="property-based testing (rapid) plus enumeration of a contiguous size range: every index of generated (seed, rounds, n) lists against a from-spec compute_shuffled_index; inverse and multiset relations",
  level="exploration",
  text="Every index of each generated list is compared with compute_shuffled_index transcribed from the spec; inverses are checked in both compositions and as whole-list operations; sizes 0..400 (quick) / 0..1100 (thorough) are enumerated completely for fixed seeds and round counts, all round counts 0..255 at four sizes, plus random triples with pivot-at-the-edge seeds found by search. Seeds are sampled (2^256), so this is exploration.",
  note="Trusted: crypto/sha256 and the 20-line spec transcription (asserted bijective on every case). Sizes above 20000 and all 2^256 seeds are out of reach.",
  ref="§3 C06"),
 "C01": dict(
  technique="model-based property testing (rapid): generated (config, genesis, chain) recipes; every block is built valid-by-construction by an independent from-spec reference implementation (refspec+refssz) and executed in lock-step on zrnt; full state bytes and roots compared after every block; failures shrink to a replayable recipe",
  level="exploration",
  text="Differential testing of common.StateTransition against a cache-free transliteration of the phase0..deneb spec over generated chains: custom presets (4/8-slot epochs, tiny limits, fast churn/sync/eth1 periods) plus the official minimal and mainnet presets, fork schedules with equal/adjacent/never-activated forks, <=130 validators, blocks mixing attestations (delayed, duplicate, wrong head/target), proposer/attester slashings (double and surround, partial intersections), deposits (new/top-up/bad PoP/invalid key) driven by eth1-vote majorities, exits behind queues, BLS changes, sync aggregates, payloads with withdrawals and blob commitments. SSZ is injective, so byte equality is field-for-field equality. Exploration: chains are sampled.",
  note="Trusted base: refspec/refssz (harness transcription of consensus-specs v1.5.0-beta.2) and the BLS library shared by both sides. Both-wrong-identically is not detected. Fork epochs >= 1, Electra never activated, validator sets <= 130, chains <= ~50 slots (mainnet preset <= ~110).",
  ref="§3 C01"),
 "C02": dict(
  technique="model-based property testing (rapid) with a directed class tour: every ProcessSlots advance of generated chains compared byte-for-byte with refspec.process_slots, plus the reference-free metamorphic relation ProcessSlots(a->c) == ProcessSlots(a->b->c)",
  level="exploration",
  text="History-heavy generated chains (skips up to 3 epochs, participation profiles from full to none, slashing/exit bursts) and four directed templates (mass ejection through a multi-epoch exit queue, exit burst then ejection, activation burst at just-above-2/3 participation, leak until balances clip at zero) whose free details are still drawn; after every slot advance the library state must equal the reference state in bytes and root. Non-trivial advances are classified by the set of sub-transition effects seen in the reference (justification, finality, leak, scores, activation, ejection, queue spill, slashing window, hysteresis, historical append, eth1 reset, sync rotation, each upgrade). Found and repaired three epoch-processing defects; one recorded as known (empty active set).",
  note="Trusted base as C01. Known finding F-C02-05 (ProcessSlots errors when no validator is active) is excluded by construction: a case ends, counted, when the reference state's active set becomes empty. Chains <= ~14 epochs on custom presets.",
  ref="§3 C02"),
 "C20": dict(
  technique="model-based stateful property testing (rapid) with shrinking: generated histories of add/query/prune/reset calls against each pool in eth2/pool, judged after every action by an independent set-based model (checks/c20/poolmodel) derived from the package's doc comments; panics recovered; shrunk failures become replay files",
  level="exploration",
  text="Randomised search over histories of <=60 actions per pool (quick ~53k, thorough ~1.17M histories) over a small universe built to collide: 3 epochs x 2 slots x 2 committees of 3-9 members, 3 competing data per committee, duplicates/subsets/supersets/overlaps/conflicts/length mismatches, every Search filter combination, prunes around the inclusion boundary, sync-pool resets of every kind incl. the uint64 ends and use before the first Reset. The full unfiltered query (for the sync pool: the six buffers) is judged after every action, so a wrong intermediate state cannot hide. 25 seeded mutants are each caught in the quick tier; six genuine defects were found and repaired. Histories are sampled, not exhausted.",
  note="Trusted: the ~500-line poolmodel and the doc readings written in it (where a comment is ambiguous the reading under which the code is right on two-step histories; acceptance is demanded only where no documented refusal reason applies). Signatures are tagged byte strings (pools do not verify or aggregate). The sync-committee pool has no query, so its contents are read from its unexported fields by name via reflect+unsafe (read-only; no file added to /repo; a renamed field is a harness failure, not a verdict). Single-threaded: locking is C17.",
  ref="§3 C20"),
 "C13": dict(
  technique="property-based differential testing (rapid): generated ordered deposit lists with real BLS signatures and proofs from the harness's own incremental deposit tree, GenesisFromEth1 / KickStartState / IsValidGenesisState against the from-spec reference; returned context against NewEpochsContext",
  level="exploration",
  text="Deposit lists of 0..140 entries mixing valid deposits, bad proof-of-possession, undecodable and infinity pubkeys, top-ups with good and junk signatures, repeats of skipped keys and a skipped key that later deposits validly, amounts below/at/above MAX_EFFECTIVE_BALANCE and off-increment, corrupted Merkle proofs, under mainnet, minimal and custom presets; the produced state must equal refspec.initialize_beacon_state_from_eth1 byte for byte (or both must refuse), the validity predicate is probed with MIN_GENESIS_* drawn at distance <=2 of the produced values. Lists are sampled.",
  note="Trusted base: refspec/refssz and the BLS library. Lists yielding fewer than SLOTS_PER_EPOCH validators or no active validator must produce the documented error (not a state, not a panic). KickStartState is judged on decodable keys only (its input is 'minimal validator data'; the library skips undecodable keys even in its no-verification mode and nothing documents otherwise).",
  ref="§3 C13"),
 "C16": dict(
  technique="model-based stateful property testing (rapid): generated histories (<=40 actions) over a forest of PubkeyCache handles compared after every action, by a full sweep of every live handle over all indices and all keys, against a model in which a handle is a sequence of distinct keys; calls panic-recovered and watchdog-bounded with a confirming re-run; directed class tour first",
  level="exploration",
  text="No violation in ~45k (quick) / ~650k (thorough) generated histories per seed after repair, with fork depth up to 8, conflicts in the root, inherited, fork-point and own part of handles, shared handles with a chain behind the tip, and the deposit protocol of phase0/deposit.go driven on top. The check found the unbounded parent lookup (wrong validator credited, non-terminating AddValidator) from scratch and catches 12 textual mutants including depth-2-only ones. Histories are sampled; alphabet of 8 real keys.",
  note="Trusted: the 60-line sequence model (pkmodel.go). Assumed: the callers' precondition (a key at an earlier index of the same history is a top-up and never reaches AddValidator); pointer identity is the meaning of 'same cache'/'new cache' in AddValidator's doc; one goroutine per case (concurrency is C17). Watchdogs: 10 s for microsecond calls, confirmed by re-execution.",
  ref="§3 C16"),
 "C07": dict(
  technique="property-based differential testing (rapid): synthetic registries and generated chains; every committee, proposer and sync-committee member from the epochs context compared with a cache-free per-index transliteration of the spec, plus a reference-free partition predicate; library calls watchdog-bounded",
  level="exploration",
  text="Synthetic states (1..300 validators, sizes straddling the committee-count thresholds, activation/exit epochs within two epochs of now, effective balances from 0 to MAX, random mixes, any slot, every fork's state type, mainnet/minimal/custom presets) are loaded into the library from reference-encoded bytes; NewEpochsContext's committees for previous/current/next epoch, proposers of every slot of the current epoch and ComputeNextSyncCommittee (members, indices, aggregate key) must equal refspec's; committees must partition the active set with sizes differing by at most one. The same comparison runs with the live context at every epoch boundary of generated chains. Registries are sampled.",
  note="Trusted: refspec (compute_shuffled_index per index, no caches) and the BLS library for key aggregation. States with an empty active set are excluded (known finding F-C02-05). Registry invariants the spec maintains are respected by the generator.",
  ref="§3 C07"),
 "C08": dict(
  technique="model-based property testing (rapid): generated chains with deposits, upgrades, sync-period boundaries, fork and reload actions; after every slot and block the live EpochsContext is compared field by field with NewEpochsContext(state); metamorphic continuation from re-read bytes with a fresh context; directed templates for deposit bursts and for chains sharing one pubkey cache with diverging deposit histories",
  level="exploration",
  text="The oracle is the library's own from-scratch constructor, so no reference model is trusted for oracle 1: every exported field of the long-lived context (three shufflings with committees, proposers, effective balances, total stake and its square root, both sync committees) and the pubkey-cache lookups for every index and registered key must equal a freshly built context after every single slot and block of chains of ~6-14 epochs; from drawn reload points a second instance continues from the serialized state with a fresh context and must give identical verdicts and roots for all remaining blocks; siblings created with CopyState+Clone are advanced differently and must not disturb each other, including siblings that add different validators at the same index through the shared pubkey cache, and a sibling that replays the same deposits later. Chains are sampled.",
  note="Steps on which the library already diverges from the reference (C01/C02's subject) end the case without a verdict; blocks are built by refspec (trusted as generator, not as oracle, here). States with an empty active set are excluded (known finding F-C02-05).",
  ref="§3 C08"),
 "C14": dict(
  technique="property-based testing (rapid) of fork lookups against from-spec compute_fork_version/compute_fork_digest/compute_domain over generated fork schedules, envelope round-trip and signature differential with real BLS signatures, chains stepped across every boundary, plus complete enumeration of the built-in constants against a pinned table",
  level="exploration",
  text="Fork schedules are sampled (epochs 0, equal, adjacent, far apart, never activated for altair..fulu; SLOTS_PER_EPOCH in {1,4,8,32}; random versions and genesis validators roots) and queried on both sides of every boundary: Spec.ForkVersion, ForkDecoder.ForkDigest, BlockAllocator, block->Envelope->block identity, VerifySignature must accept the slot's version and refuse each of the six others and another proposer index. Chains are advanced slot by slot across all four upgrades and the state's type and fork record must name the slot's fork. The finite sub-space of built-in constants (mainnet, minimal, spec-level: ~300 values) is enumerated completely against the pinned v1.5.0-beta.2 table. Found and repaired Spec.ForkVersion being shifted by one fork from Capella on.",
  note="Trusted: the pinned constants table (reviewed in the design round; a constant wrong today and misremembered identically is not detected), refspec/refssz, the BLS library. BlockAllocator judged up to electra (no fulu block type exists). Block values use MAX_VALIDATORS_PER_COMMITTEE=17 to stay clear of the ztyp full-bitlist decoding issue (C04's subject).",
  ref="§3 C14"),
 "C18": dict(
  technique="fault enumeration inside property-based chain generation (rapid): every context poll of every ProcessSlots/StateTransition step cancelled once (sticky and site-local modes), every engine-call verdict combination {valid,invalid,error} per payload block, with a scripted engine that records what it is shown",
  level="fault_enumeration",
  text="For each step of generated chains (all five forks, custom presets) the number N of ctx.Err() polls is measured with a counting context and the step is re-run from a fresh copy once per poll k in 1..N, in two modes: cancelled from poll k on, and cancellation visible only to the polling function of poll k (so a swallowed cancellation cannot hide behind a later poll); every run must return an error. For every payload-carrying block the full product of engine verdicts (9 for bellatrix/capella, 27 for deneb) is run: anything but all-valid must give an error and leave latest_execution_payload_header unchanged; all-valid must reproduce the reference post-state, and the recording engine must have been shown the body's payload bytes, the versioned hashes 0x01||sha256(commitment)[1:] in order and the block's parent root. Within each explored step the fault space (single cancellation point; one verdict per engine call) is enumerated completely; steps themselves are sampled.",
  note="Cancellation between two polls is indistinguishable from cancellation at the next poll; work after the last poll cannot be interrupted by construction. The site-local mode relies on every poll having the form `if err := ctx.Err(); err != nil { return err }` or re-reading ctx.Err() within the same function. Steps whose undisturbed run already diverges from the reference end the case without a verdict.",
  ref="§3 C18"),
 "C09": dict(
  technique="model-based stateful property testing (rapid): generated histories of 10-80 fork-choice calls replayed in lock-step on ProtoForkChoice and on fcmodel, a from-scratch recursive LMD-GHOST over an explicit (root,slot) tree; every Head/FindHead result and every vote's ok compared; directed class tour first; shrunk failures become JSON replays",
  level="exploration",
  text="20 000 (quick) / 600 000 (thorough) random histories per seed plus directed templates and regression replays agree with the model (<=40 nodes, <=12 validators, SLOTS_PER_EPOCH=4, hashed small-integer roots, tie-prone balances). About one third are non-trivial: >=2 live forks, >=3 accepted votes, >=1 vote moved. Ties broken by root, votes moved between branches, skipped non-viable heavier branches and gap-slot heads occur at every seed. Six realistic mutants of weight, tie-break, best-descendant and viability bookkeeping are caught in the quick tier; three genuine defects were found and repaired.",
  note="Trusted base: fcmodel (DESIGN Appendix A reading: fork-choice parent = parent root's first node; leads = any viable node in the subtree; epoch 0 matches everything) plus the executor. Histories are bounded and sampled. ProcessSlot keeps its known-parent precondition; pruned roots are never re-inserted; votes are compared at batch-application points.",
  ref="§3 C09, Appendix A"),
 "C10": dict(
  technique="model-based stateful property testing (rapid) with scripted fault injection on the prune sink: histories with ~17% UpdateJustified ops (ahead/equal/behind/unknown/conflicting pairs; block-node and gap-slot anchors; pinned or not), sink accepting all / failing at the k-th report / nil; every call watchdog-bounded and re-confirmed; full query sweep after each prune",
  level="exploration",
  text="10 000 (quick) / 200 000 (thorough) histories per seed plus 7 directed templates and 9 regression replays: the error verdict, the sink reports against the model's prune set (each once, correct canonical flag, nothing after a sink error), the getters and the node set are checked after each update, then every query kind is swept over retained, pruned and never-inserted roots, and later blocks, votes and heads are checked as in C09. ~27% of histories contain a finalization advance removing >=2 nodes followed by >=3 ops. Seven mutants caught in the quick tier; nine genuine defects (self-deadlock, swapped arguments, wrong prune set and flags, stale indices) found and repaired.",
  note="Trusts fcmodel.PlanUpdate/CommitUpdate (refusal rules as written in forkchoice.go; canonical = transition ancestor of the new finalized node; no prune when the checkpoint node is absent). 'Does not block' means returns within 10 s, twice: termination is observed, not proved. One scripted sink failure per history.",
  ref="§3 C10, Appendix A"),
 "C11": dict(
  technique="model-based stateful property testing (rapid): insertion histories with ~45% query ops plus a closing sweep, compared with direct walks of the model tree (CanonicalChain, InSubtree, ClosestToSlot, CanonAtSlot with/without block, GetSlot, Search by heads/parent/slot with the canonical split); node set compared after every insertion, before and after prunes",
  level="exploration",
  text="10 000 (quick) / 200 000 (thorough) histories per seed, each ending in hundreds of swept queries over known, pruned and never-inserted roots and slots from before the anchor to after the head, plus directed templates and regression replays; ~1 850 / 2 800 distinct (query kind, argument-relation class, pre/post-prune, tree shape) keys; 23 mandatory classes hold at every seed. Eight mutants caught in the quick tier (one planned mutant is equivalent on the repaired tree); six genuine defects found and repaired.",
  note="Trusts fcmodel's query functions and the doc readings written next to them (first-node semantics for InSubtree and CanonAtSlot; heads = blocks without a child block; Search compared as sets). Canonical-dependent queries are asked after a head flush because votes are batched. Trees <=40 nodes.",
  ref="§3 C11, Appendix A"),
 "C03": dict(
  technique="mutation-based property testing (rapid): single-fault mutations of valid-by-construction blocks from a catalogue tied to spec assertions, re-rooted and re-signed so that the targeted assertion is reached, plus a byte-level differential (rapid edits in both tiers, native coverage-guided go fuzzing as the last stage of the thorough tier) in which every inner signature is redone so that field edits reach the semantic checks; the from-spec reference decides accept/reject; verdicts compared with and without result validation; panics recovered",
  level="exploration",
  text="On every block of generated chains (free generator plus directed tours: queued activations, withdrawal edges, deposit-carrying blocks) up to 12 of 85 catalogue mutations are applied (one per conjunct of the withdrawal and slashability predicates, header fields, outer signature under another key/domain/fork version/genesis root, randao, attestation data/bits/signature incl. subset and cross-domain signatures, attester and proposer slashing shape/signature/index faults, deposit count/proof/order/amount, exit epoch/key/domain/index/duplicate and the Deneb fixed-domain rule, BLS-change faults, sync-aggregate faults, payload parent hash/randao/timestamp/withdrawals/blob limit, lists over limit, duplicated operations, and four benign edits that must still be accepted with the reference post-state). A mutated block the reference rejects must make the library return an error, never a panic; because a stale declared state root would hide a missing body check, the comparison is repeated with validate_result=false. Byte-level corruptions (bit flips, truncation, splice, 4-byte overwrite) must be undecodable, rejected, or decode to the very block that was signed; on seven fixed snapshots (>=1 per fork) bytes that both decoders accept are judged as-is, with the outer signature redone and with all inner signatures redone: library accepts <=> reference accepts, equal post-states, no panic. A correctly signed block by a slashed proposer must be refused. Sampling.",
  note="Trusted base: refspec/refssz, BLS library. Non-trivial cases are those the reference rejects with a message of the targeted assertion family (measured per (fork, mutation id)). Which error the library returns is irrelevant.",
  ref="§3 C03"),
 "C15": dict(
  technique="data-driven property testing (rapid): an accessor table of 816 method chains over six forks invoked by reflection on states loaded from refssz-encoded random values, each call judged against an independent value model (result, byte-exact re-serialisation with only the named target changed, independent hash-tree-root, getter read-back); stateful copy histories holding 2-4 CopyState/Clone-related states mutated by any accessor or by full simulator blocks/skips on siblings",
  level="exploration",
  text="Every exported accessor of every fork's BeaconStateView (phase0..electra) and of each typed sub-view reachable from it is exercised non-trivially at every seed (one mandatory class per table row): getters against the field path in the independently decoded state, setters against 'that field changed and every other byte unchanged', element accessors with modulo wrap, out-of-range and at-limit indices, compound ops against their written effect. Copy histories check after every action that every untouched state still has its snapshot bytes, root and (for simulator locks) a context equal to a fresh one. Values, indices and interleavings are sampled. Three genuine defects found and repaired.",
  note="Trusted: refssz and the accessor table (spec_tables/state_accessors.txt, harness transcription). The chain simulator stops at deneb, so electra is covered by accessor and raw-copy histories only; electra's pending queues have no typed accessor and are only checked for staying unchanged. Generic ztyp methods promoted onto the views are listed as uncovered in the evidence.",
  ref="§3 C15"),
 "C04": dict(
  technique="property-based differential testing (rapid) with rapid-mutated byte strings and, as the last stage of the thorough tier, native coverage-guided go fuzzing of the same differential decode body: reference-encoded values of every registered SSZ type cross into the library as bytes under mainnet, minimal and three tiny custom presets (one with non-power-of-two vector lengths and pairwise different list limits); decode/encode/ByteLength/FixedLength/JSON/YAML round trips, decoding into a recycled destination (fixed-size types), JSON compared by spec field name; truncation, over-limit and offset-corruption inputs derived from each value and mutated/arbitrary bytes judged against an independent strict SSZ decoder; a go/parser scan measures type coverage",
  level="exploration",
  text="No violation after repair in ~87k (quick) / ~1.7M (thorough) cases per seed over 156 types x 4 presets (every type x family, every list-bearing type at its limits under the custom presets), with ~1M derived malformed inputs per quick run; found 6 defects from scratch (three wrong ByteLength/FixedLength families, full-bitlist refusal at limit%8==0, empty-span list elements accepted) and catches 7 textual mutants incl. a symmetric Serialize+Deserialize field swap (through the by-name JSON comparison). Values are sampled.",
  note="Trusted: refssz and the transcribed schema table (cross-checked three ways in C05). Tolerated decoder leniencies outside the three refusal classes the property names: trailing bytes after a fixed-size top-level object; set padding bits in JustificationBits/SyncnetBits; nil slices marshal as JSON null. MAX_EXTRA_DATA_BYTES/BYTES_PER_LOGS_BLOOM are compile-time constants in the library and not varied. YAML judged by round trip only. uncovered = [common.specObj (unexported)].",
  ref="§3 C04"),
 "C05": dict(
  technique="three-/four-way root comparison (struct form, ztyp TypeDef view, struct.View(), independent merkleizer) over the C04 registry and presets (rapid; plus native coverage-guided go fuzzing of the same body as the last stage of the thorough tier), plus model-based stateful testing (rapid) of beacon state views of all six forks: 43 setter/list/rotation/copy actions, every live copy checked after every action against a rebuild from its own bytes and a plain-value model",
  level="exploration",
  text="No violation after repair in ~30k (quick) / ~440k (thorough) cases per seed: 133 of 156 types have a view TypeDef compared; ~4.8k / 72k histories with up to 40 actions and 3 copies sharing structure under custom and minimal presets (mainnet in thorough); after every action the cached root must equal the root of a view rebuilt from the state's own bytes and the independent root of those bytes. Found 4 defects (electra attester-slashings view limit, ViewSignature scope, Transaction.View cast, FillZeroes(0) panic); catches 11 textual mutants incl. wrong field index, non-propagating setter and wrong view limit. Histories are sampled.",
  note="Trusted: refssz + schema table + the per-action model (field-name semantics; index = argument mod vector length). ztyp ComplexListView/BasicListView.Pop (dependency, unused by zrnt) clears the wrong index and is excluded from the action set. Full state-transition steps on tree-backed states are judged by C01/C02's per-slot root comparison.",
  ref="§3 C05"),
 "C17": dict(
  technique="property-based concurrent programs (rapid: component, 2-8 goroutines, per-goroutine call lists, release mode and Gosched bias) on one shared instance of the fork-choice wrapper, the pubkey cache (incl. the lazily decompressed keys it hands out) and each operation pool, built with -race; oracles: race detector silent (halt_on_error; a report promotes the in-flight program to the replay), every call returns within a confirmed 20 s watchdog, and for small programs the recorded history is linearizable (porcupine) against the component itself replayed single-threaded",
  level="exploration",
  text="Sampled schedules of generated call mixes: quick 2 240 programs (small ones run 3x), thorough 22 400 programs with ~56 000 repeat executions; every small program (<=4 goroutines x <=8 calls) is decided linearizable or not against a sequential specification that is the component itself (state compared by a structural fingerprint), so purely sequential defects stay with C09/C10/C16/C20. Six genuine concurrency defects found and repaired (two lazy-decompression races, three unlocked pool paths, one check-then-act in AddValidator that only linearizability could see); eleven mutants (dropped locks, RLock-only writers, check-then-act, a concurrency-only deadlock) are all caught, the lock mutants in 5/5 runs.",
  note="Schedules are sampled, not enumerated; the race detector widens each executed schedule to its happens-before class, so absence of a report is not absence of a race. Small programs use an atomic stamp counter that orders non-overlapping calls. Callbacks invoked under the fork-choice lock are assumed to touch nothing shared. A schedule-dependent replay is looped up to 200 times. Two C17 runs must not execute at once (shared in-flight files). SyncCommitteeMessages.Select has no shared instance and is not covered.",
  ref="§3 C17"),
 "C12": dict(
  technique="model-based property testing (rapid) of the eight gossip validators against a concrete in-memory chain backend (block trees with forks, a finalized point, a scripted millisecond clock, logged seen-caches); a reference model evaluates the p2p spec's per-topic condition lists on the reference chain view; inputs are honest messages of every topic plus a 103-entry single-condition corruption catalogue incl. clock edges at +-1 ms of each bound; 'refused then honest' and 'honest then duplicate' sequences check the cache side effects",
  level="exploration",
  text="Every row of the phase0/altair gossip rule tables is exercised, corrupted and honest, in every fork from phase0 to capella at every seed (87 mandatory classes): honest messages must be ACCEPTed, a message violating a condition must never be ACCEPTed, timing-class conditions (unknown parent/target, duplicate, clock window incl. the 500 ms disparity edges, finalized subtree) must give IGNORE, Mark* is called iff ACCEPT with the rule's cache key, and the honest message sent after a refused one must be ACCEPTed. Chain views (about 112 per quick run, about 1130 thorough), committees, validators, slots and clock offsets are sampled. Fifteen genuine defects found and repaired (outer aggregate signature over two bytes, marking before the proposer check, missing target-ancestor and block-seen checks, wrong sync committee at a period's last slot, previous-slot sync messages accepted, finalized-checkpoint rule by tree descent only, ...).",
  note="Trusted: gossipmodel (harness transcription of the phase0/altair p2p rules the package quotes) and refspec for signing roots. Outside the modelled rule set: multi-condition corruptions, bellatrix-payload / capella BLS-change / deneb-window / superset-aggregate rules. The block seen-cache is read as 'ACCEPTed blocks' (the property's reading). The backend ignores the validators' 2 s wall-clock catch-up deadline so that verdicts do not depend on machine load. Three redundant validator checks are indistinguishable at verdict level (equivalent mutants).",
  ref="§3 C12, Appendix B"),
}
PENDING_REASON = "check not built yet in this session (designed in DESIGN.md §3; will be claimed when its machinery is committed)"

def main():
    props = [json.loads(l) for l in open(os.path.join(ROOT, "properties.jsonl"))]
    checks, na = [], []
    for p in props:
        i = p["id"]
        if i in CLAIMED:
            c = CLAIMED[i]
            checks.append({
                "property_id": i,
                "quick_cmd": "./check %s --tier quick" % i,
                "thorough_cmd": "./check %s --tier thorough" % i,
                "evidence_file": "/verif/evidence/%s.json" % i,
                "replay_cmd_template": "./check %s --replay {path}" % i,
                "engine": "harness",
                "level_claimed": {"category": c["level"], "text": c["text"], "design_ref": c["ref"]},
                "level_note": c["note"],
                "technique": c["technique"],
            })
        else:
            na.append({"property_id": i, "reason": PENDING_REASON})
    m = {
        "version": 1,
        "setup_cmd": "./setup.sh",
        "hooks": {"guard": "verif", "enable": "-tags verif (no hook files exist in /repo yet; all oracles observe through exported API)",
                  "baseline_off_cmd": BASELINE_OFF, "source_commits": [], "add_only": True},
        "engines": [{"name": "harness", "path": "/verif/harness", "serves_properties": sorted(CLAIMED),
                     "kind_free_text": "Go module: rapid property/stateful tests + native fuzz targets against reference models (refssz, refspec, fcmodel, pkmodel, poolmodel, gossipmodel); driver /verif/check shards, merges evidence, replays"}],
        "checks": checks,
        "not_applicable": na,
        "notes": "Exit codes: 0 held, 1 VIOLATION line, 2 inconclusive/infrastructure. known_findings.json lists fixed and known findings; replays/regress/ holds committed minimal failing cases that every run replays first.",
    }
    json.dump(m, open(os.path.join(ROOT, "MANIFEST.json"), "w"), indent=1)

if __name__ == "__main__":
    main()
