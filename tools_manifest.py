#!/usr/bin/env python3
"""Regenerates MANIFEST.json from the table below (kept as code so that it stays valid)."""
import json, os
ROOT = os.path.dirname(os.path.abspath(__file__))
BASELINE_OFF = "cd /repo && GOFLAGS=-mod=mod go test -json -vet=off -count=1 -timeout 25m ./..."

CLAIMED = {
 "C19": dict(
  technique="property-based testing (rapid): boundary-biased generated inputs against math/big, crypto/sha256 and an independent Merkle-root oracle; shrunk failures become replay files",
  level="exploration",
  text="Generated-input search over each helper's uint64 domain with boundary bias (0, 1, 2^k±2, perfect squares ±2, 2^64-1, representability edges) against big-integer formulas; both directions are checked for helpers with an error result (value iff representable, error iff not). Sampling, not exhaustion: the domain is 2^64 per argument.",
  note="Trusted: math/big, crypto/sha256, the harness's 10-line Merkle fold. NextPowerOfTwo(0) is pinned by the repo's own test and not judged. Absence of a counterexample in ~10^5..10^7 biased cases is not a proof.",
  ref="§3 C19"),
 "C06": dict(
  technique="property-based testing (rapid) plus enumeration of a contiguous size range: every index of generated (seed, rounds, n) lists against a from-spec compute_shuffled_index; inverse and multiset relations",
  level="exploration",
  text="Every index of each generated list is compared with compute_shuffled_index transcribed from the spec; inverses are checked in both compositions and as whole-list operations; sizes 0..400 (quick) / 0..1100 (thorough) are enumerated completely for fixed seeds and round counts, all round counts 0..255 at four sizes, plus random triples with pivot-at-the-edge seeds found by search. Seeds are sampled (2^256), so this is exploration.",
  note="Trusted: crypto/sha256 and the 20-line spec transcription (asserted bijective on every case). Sizes above 20000 and all 2^256 seeds are out of reach.",
  ref="§3 C06"),
}
PENDING_REASON = "check not built yet in this session (designed in DESIGN.md §3; will be claimed when its machinery is committed)"

def main():
    props = [json.loads(l) for l in open(os.path.join(ROOT, "properties.jsonl"))]
    checks, na = [], []
    for p in props:
        i = p["id"]
        if i in CLAIMED:
            c = CLAIMED[i]
            checks.append({
                "property_id": i,
                "quick_cmd": "./check %s --tier quick" % i,
                "thorough_cmd": "./check %s --tier thorough" % i,
                "evidence_file": "/verif/evidence/%s.json" % i,
                "replay_cmd_template": "./check %s --replay {path}" % i,
                "engine": "harness",
                "level_claimed": {"category": c["level"], "text": c["text"], "design_ref": c["ref"]},
                "level_note": c["note"],
                "technique": c["technique"],
            })
        else:
            na.append({"property_id": i, "reason": PENDING_REASON})
    m = {
        "version": 1,
        "setup_cmd": "./setup.sh",
        "hooks": {"guard": "verif", "enable": "-tags verif (no hook files exist in /repo yet; all oracles observe through exported API)",
                  "baseline_off_cmd": BASELINE_OFF, "source_commits": [], "add_only": True},
        "engines": [{"name": "harness", "path": "/verif/harness", "serves_properties": sorted(CLAIMED),
                     "kind_free_text": "Go module: rapid property/stateful tests + native fuzz targets against reference models (refssz, refspec, fcmodel, pkmodel, poolmodel, gossipmodel); driver /verif/check shards, merges evidence, replays"}],
        "checks": checks,
        "not_applicable": na,
        "notes": "Exit codes: 0 held, 1 VIOLATION line, 2 inconclusive/infrastructure. known_findings.json lists fixed and known findings; replays/regress/ holds committed minimal failing cases that every run replays first.",
    }
    json.dump(m, open(os.path.join(ROOT, "MANIFEST.json"), "w"), indent=1)

if __name__ == "__main__":
    main()
