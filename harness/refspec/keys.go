package refspec

import (
	"math/big"
	"sync"

	kbls "github.com/kilic/bls12-381"
	blsu "github.com/protolambda/bls12-381-util"
)

// Deterministic key pool: validator key k has secret scalar k+1.

var (
	keyMu   sync.Mutex
	keyPubs = map[uint64][48]byte{}
)

func secretOf(scalar *big.Int) *blsu.SecretKey {
	var in [32]byte
	scalar.FillBytes(in[:])
	var sk blsu.SecretKey
	if err := sk.Deserialize(&in); err != nil {
		panic(err)
	}
	return &sk
}

// KeyPubkey returns the compressed public key of pool key k.
func KeyPubkey(k uint64) [48]byte {
	keyMu.Lock()
	if p, ok := keyPubs[k]; ok {
		keyMu.Unlock()
		return p
	}
	keyMu.Unlock()
	pk, err := blsu.SkToPk(secretOf(new(big.Int).SetUint64(k + 1)))
	if err != nil {
		panic(err)
	}
	out := pk.Serialize()
	keyMu.Lock()
	keyPubs[k] = out
	keyMu.Unlock()
	return out
}

// KeySecretBytes returns the big-endian secret of pool key k.
func KeySecretBytes(k uint64) (out [32]byte) {
	new(big.Int).SetUint64(k + 1).FillBytes(out[:])
	return
}

// Sign signs msg with pool key k.
func Sign(k uint64, msg Root) [96]byte {
	return blsu.Sign(secretOf(new(big.Int).SetUint64(k+1)), msg[:]).Serialize()
}

var frOrder, _ = new(big.Int).SetString("73eda753299d7d483339d80809a1d80553bda402fffe5bfeffffffff00000001", 16)

// AggregateSign returns the aggregate signature of the given pool keys over one message, computed
// with a single signing operation under the summed secret key (BLS signatures are linear).
// Repeated keys count with multiplicity, as aggregating their individual signatures would.
func AggregateSign(keys []uint64, msg Root) [96]byte {
	if len(keys) == 0 {
		return G2PointAtInfinity
	}
	sum := new(big.Int)
	for _, k := range keys {
		sum.Add(sum, new(big.Int).SetUint64(k+1))
	}
	sum.Mod(sum, frOrder)
	if sum.Sign() == 0 {
		return G2PointAtInfinity
	}
	return blsu.Sign(secretOf(sum), msg[:]).Serialize()
}

var _ = kbls.NewG1
