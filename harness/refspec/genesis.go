package refspec

// InitializeBeaconStateFromEth1 is initialize_beacon_state_from_eth1 (phase0 genesis).
func (sp *Spec) InitializeBeaconStateFromEth1(eth1BlockHash Root, eth1Timestamp uint64, deposits []Deposit) (st *State, err error) {
	defer catch(&err)
	p := sp.P
	s := &State{Fork: Phase0}
	s.GenesisTime = add(eth1Timestamp, p.GENESIS_DELAY)
	s.ForkData = Fork{PreviousVersion: p.ForkVersions[Phase0], CurrentVersion: p.ForkVersions[Phase0], Epoch: 0}
	s.Eth1Data = Eth1Data{BlockHash: eth1BlockHash, DepositCount: uint64(len(deposits))}
	emptyBody := Body{}
	s.LatestBlockHeader = BeaconBlockHeader{BodyRoot: sp.HTR(BodyTypeName(Phase0), emptyBody.V(Phase0))}
	s.BlockRoots = make([]Root, p.SLOTS_PER_HISTORICAL_ROOT)
	s.StateRoots = make([]Root, p.SLOTS_PER_HISTORICAL_ROOT)
	s.RandaoMixes = make([]Root, p.EPOCHS_PER_HISTORICAL_VECTOR)
	for i := range s.RandaoMixes {
		s.RandaoMixes[i] = eth1BlockHash
	}
	s.Slashings = make([]uint64, p.EPOCHS_PER_SLASHINGS_VECTOR)

	// deposit_data_list = List[DepositData, 2**DEPOSIT_CONTRACT_TREE_DEPTH](*leaves[:index + 1])
	var leaves []Root
	for i := range deposits {
		leaves = append(leaves, sp.HTR("DepositData", deposits[i].Data.V()))
		s.Eth1Data.DepositRoot = DepositListRoot(leaves)
		sp.processDeposit(s, &deposits[i])
	}
	for i := range s.Validators {
		v := &s.Validators[i]
		bal := s.Balances[i]
		eb := bal - bal%p.EFFECTIVE_BALANCE_INCREMENT
		if eb > p.MAX_EFFECTIVE_BALANCE {
			eb = p.MAX_EFFECTIVE_BALANCE
		}
		v.EffectiveBalance = eb
		if v.EffectiveBalance == p.MAX_EFFECTIVE_BALANCE {
			v.ActivationEligibilityEpoch = 0
			v.ActivationEpoch = 0
		}
	}
	vals := make([]any, len(s.Validators))
	for i := range vals {
		vals[i] = s.Validators[i].V()
	}
	s.GenesisValidatorsRoot = sp.HTR("ValidatorRegistry", vals)
	return s, nil
}

func (sp *Spec) IsValidGenesisState(s *State) bool {
	if s.GenesisTime < sp.P.MIN_GENESIS_TIME {
		return false
	}
	if uint64(len(sp.ActiveIndices(s, 0))) < sp.P.MIN_GENESIS_ACTIVE_VALIDATOR_COUNT {
		return false
	}
	return true
}

// DepositListRoot is hash_tree_root(List[DepositData, 2**32](leaves...)) given the leaf roots:
// merkleize to depth 32 with zero padding, then mix in the length.
func DepositListRoot(leaves []Root) Root {
	zero := make([]Root, DEPOSIT_CONTRACT_TREE_DEPTH+1)
	for i := 1; i <= DEPOSIT_CONTRACT_TREE_DEPTH; i++ {
		zero[i] = Hash(cat(zero[i-1][:], zero[i-1][:]))
	}
	layer := append([]Root{}, leaves...)
	for d := 0; d < DEPOSIT_CONTRACT_TREE_DEPTH; d++ {
		if len(layer)%2 == 1 {
			layer = append(layer, zero[d])
		}
		next := make([]Root, len(layer)/2)
		for i := range next {
			next[i] = Hash(cat(layer[2*i][:], layer[2*i+1][:]))
		}
		layer = next
	}
	root := zero[DEPOSIT_CONTRACT_TREE_DEPTH]
	if len(layer) > 0 {
		root = layer[0]
	}
	return Hash(cat(root[:], u64le(uint64(len(leaves))), make([]byte, 24)))
}

// DepositProof builds the 33-element proof for leaf `index` in the tree holding leaves[:count]
// (the last element is the length mix-in), as the deposit contract would produce it.
func DepositProof(leaves []Root, count int, index int) (proof [33]Root) {
	zero := make([]Root, DEPOSIT_CONTRACT_TREE_DEPTH+1)
	for i := 1; i <= DEPOSIT_CONTRACT_TREE_DEPTH; i++ {
		zero[i] = Hash(cat(zero[i-1][:], zero[i-1][:]))
	}
	layer := append([]Root{}, leaves[:count]...)
	idx := index
	for d := 0; d < DEPOSIT_CONTRACT_TREE_DEPTH; d++ {
		sib := idx ^ 1
		if sib < len(layer) {
			proof[d] = layer[sib]
		} else {
			proof[d] = zero[d]
		}
		if len(layer)%2 == 1 {
			layer = append(layer, zero[d])
		}
		next := make([]Root, len(layer)/2)
		for i := range next {
			next[i] = Hash(cat(layer[2*i][:], layer[2*i+1][:]))
		}
		layer = next
		idx /= 2
	}
	copy(proof[DEPOSIT_CONTRACT_TREE_DEPTH][:], u64le(uint64(count)))
	return
}
