package refspec

import (
	"fmt"

	"zrntverif/refssz"
)

// Inverse of the V() conversions for signed blocks: generic refssz value (as returned by
// refssz.Deserialize of the fork's SignedBeaconBlock schema) -> reference structs. Used by the
// byte-level fuzz target of C03, where arbitrary decodable bytes must get a reference verdict.

func cpb(dst []byte, v any) { copy(dst, v.([]byte)) }
func vu(v any) uint64      { return v.(uint64) }
func vl(v any) []any       { return v.([]any) }

func checkpointFromV(v any) Checkpoint {
	x := vl(v)
	c := Checkpoint{Epoch: vu(x[0])}
	cpb(c.Root[:], x[1])
	return c
}

func attDataFromV(v any) AttestationData {
	x := vl(v)
	d := AttestationData{Slot: vu(x[0]), Index: vu(x[1]), Source: checkpointFromV(x[3]), Target: checkpointFromV(x[4])}
	cpb(d.BeaconBlockRoot[:], x[2])
	return d
}

func signedHeaderFromV(v any) SignedBeaconBlockHeader {
	x := vl(v)
	h := vl(x[0])
	o := SignedBeaconBlockHeader{Message: BeaconBlockHeader{Slot: vu(h[0]), ProposerIndex: vu(h[1])}}
	cpb(o.Message.ParentRoot[:], h[2])
	cpb(o.Message.StateRoot[:], h[3])
	cpb(o.Message.BodyRoot[:], h[4])
	cpb(o.Signature[:], x[1])
	return o
}

func indexedFromV(v any) IndexedAttestation {
	x := vl(v)
	o := IndexedAttestation{Data: attDataFromV(x[1])}
	for _, i := range vl(x[0]) {
		o.Indices = append(o.Indices, vu(i))
	}
	cpb(o.Signature[:], x[2])
	return o
}

func payloadFromV(fork int, v any) ExecutionPayload {
	x := vl(v)
	var p ExecutionPayload
	cpb(p.ParentHash[:], x[0])
	cpb(p.FeeRecipient[:], x[1])
	cpb(p.StateRoot[:], x[2])
	cpb(p.ReceiptsRoot[:], x[3])
	cpb(p.LogsBloom[:], x[4])
	cpb(p.PrevRandao[:], x[5])
	p.BlockNumber, p.GasLimit, p.GasUsed, p.Timestamp = vu(x[6]), vu(x[7]), vu(x[8]), vu(x[9])
	p.ExtraData = append([]byte{}, x[10].([]byte)...)
	p.BaseFeePerGas = x[11].(refssz.U256)
	cpb(p.BlockHash[:], x[12])
	for _, t := range vl(x[13]) {
		p.Transactions = append(p.Transactions, append([]byte{}, t.([]byte)...))
	}
	k := 14
	if fork >= Capella {
		for _, w := range vl(x[k]) {
			y := vl(w)
			wd := Withdrawal{Index: vu(y[0]), ValidatorIndex: vu(y[1]), Amount: vu(y[3])}
			cpb(wd.Address[:], y[2])
			p.Withdrawals = append(p.Withdrawals, wd)
		}
		k++
	}
	if fork >= Deneb {
		p.BlobGasUsed, p.ExcessBlobGas = vu(x[k]), vu(x[k+1])
	}
	return p
}

// SignedBlockFromV converts; a value of the wrong shape yields an error (never a panic).
func SignedBlockFromV(fork int, v any) (sb *SignedBlock, err error) {
	defer func() {
		if p := recover(); p != nil {
			sb, err = nil, fmt.Errorf("value does not have the shape of a fork-%d signed block: %v", fork, p)
		}
	}()
	top := vl(v)
	m := vl(top[0])
	out := &SignedBlock{Message: Block{Fork: fork, Slot: vu(m[0]), ProposerIndex: vu(m[1])}}
	cpb(out.Message.ParentRoot[:], m[2])
	cpb(out.Message.StateRoot[:], m[3])
	cpb(out.Signature[:], top[1])
	x := vl(m[4])
	bd := &out.Message.Body
	cpb(bd.RandaoReveal[:], x[0])
	e := vl(x[1])
	cpb(bd.Eth1Data.DepositRoot[:], e[0])
	bd.Eth1Data.DepositCount = vu(e[1])
	cpb(bd.Eth1Data.BlockHash[:], e[2])
	cpb(bd.Graffiti[:], x[2])
	for _, p := range vl(x[3]) {
		y := vl(p)
		bd.ProposerSlashings = append(bd.ProposerSlashings, ProposerSlashing{H1: signedHeaderFromV(y[0]), H2: signedHeaderFromV(y[1])})
	}
	for _, a := range vl(x[4]) {
		y := vl(a)
		bd.AttesterSlashings = append(bd.AttesterSlashings, AttesterSlashing{A1: indexedFromV(y[0]), A2: indexedFromV(y[1])})
	}
	for _, a := range vl(x[5]) {
		y := vl(a)
		at := Attestation{Bits: append([]bool{}, y[0].([]bool)...), Data: attDataFromV(y[1])}
		cpb(at.Signature[:], y[2])
		bd.Attestations = append(bd.Attestations, at)
	}
	for _, d := range vl(x[6]) {
		y := vl(d)
		var dep Deposit
		for i, n := range vl(y[0]) {
			cpb(dep.Proof[i][:], n)
		}
		dd := vl(y[1])
		cpb(dep.Data.Pubkey[:], dd[0])
		cpb(dep.Data.WithdrawalCredentials[:], dd[1])
		dep.Data.Amount = vu(dd[2])
		cpb(dep.Data.Signature[:], dd[3])
		bd.Deposits = append(bd.Deposits, dep)
	}
	for _, ex := range vl(x[7]) {
		y := vl(ex)
		mm := vl(y[0])
		se := SignedVoluntaryExit{Message: VoluntaryExit{Epoch: vu(mm[0]), ValidatorIndex: vu(mm[1])}}
		cpb(se.Signature[:], y[1])
		bd.VoluntaryExits = append(bd.VoluntaryExits, se)
	}
	k := 8
	if fork >= Altair {
		y := vl(x[k])
		bd.SyncAggregate.Bits = append([]bool{}, y[0].([]bool)...)
		cpb(bd.SyncAggregate.Signature[:], y[1])
		k++
	}
	if fork >= Bellatrix {
		bd.ExecutionPayload = payloadFromV(fork, x[k])
		k++
	}
	if fork >= Capella {
		for _, c := range vl(x[k]) {
			y := vl(c)
			mm := vl(y[0])
			sc := SignedBLSToExecutionChange{Message: BLSToExecutionChange{ValidatorIndex: vu(mm[0])}}
			cpb(sc.Message.FromBLSPubkey[:], mm[1])
			cpb(sc.Message.ToAddress[:], mm[2])
			cpb(sc.Signature[:], y[1])
			bd.BLSChanges = append(bd.BLSChanges, sc)
		}
		k++
	}
	if fork >= Deneb {
		for _, c := range vl(x[k]) {
			var cm [48]byte
			cpb(cm[:], c)
			bd.BlobCommitments = append(bd.BlobCommitments, cm)
		}
	}
	return out, nil
}
