package refspec

import (
	"encoding/binary"
	"sort"
)

// Validator-guide and p2p helpers used by the gossip rules (phase0/validator.md, altair/validator.md,
// altair/p2p-interface.md), transcribed from /verif/spec_tables/spec_digest_*.md. Additive file: nothing
// in the transition depends on it.

// ---------------------------------------------------------------- containers

type AggregateAndProof struct {
	AggregatorIndex uint64
	Aggregate       Attestation
	SelectionProof  [96]byte
}

type SignedAggregateAndProof struct {
	Message   AggregateAndProof
	Signature [96]byte
}

type SyncCommitteeMessage struct {
	Slot            uint64
	BeaconBlockRoot Root
	ValidatorIndex  uint64
	Signature       [96]byte
}

type SyncCommitteeContribution struct {
	Slot              uint64
	BeaconBlockRoot   Root
	SubcommitteeIndex uint64
	Bits              []bool // SYNC_COMMITTEE_SIZE / SYNC_COMMITTEE_SUBNET_COUNT
	Signature         [96]byte
}

type ContributionAndProof struct {
	AggregatorIndex uint64
	Contribution    SyncCommitteeContribution
	SelectionProof  [96]byte
}

type SignedContributionAndProof struct {
	Message   ContributionAndProof
	Signature [96]byte
}

func (a *AggregateAndProof) V() any {
	return []any{a.AggregatorIndex, a.Aggregate.V(), b(a.SelectionProof[:])}
}
func (c *SyncCommitteeContribution) V() any {
	return []any{c.Slot, b(c.BeaconBlockRoot[:]), c.SubcommitteeIndex, append([]bool{}, c.Bits...), b(c.Signature[:])}
}
func (c *ContributionAndProof) V() any {
	return []any{c.AggregatorIndex, c.Contribution.V(), b(c.SelectionProof[:])}
}

// ---------------------------------------------------------------- phase0 validator guide

func bytesToUint64(x []byte) uint64 { return binary.LittleEndian.Uint64(x) }

// SlotSignatureRoot is the message of get_slot_signature(state, slot, privkey).
func (sp *Spec) SlotSignatureRoot(s *State, slot uint64) Root {
	domain := sp.GetDomain(s, DOMAIN_SELECTION_PROOF, sp.EpochAtSlot(slot))
	return sp.ComputeSigningRoot(sp.HTR("Slot", slot), domain)
}

// GetSlotSignature is get_slot_signature with pool key k.
func (sp *Spec) GetSlotSignature(s *State, slot uint64, k uint64) [96]byte {
	return Sign(k, sp.SlotSignatureRoot(s, slot))
}

// IsAggregator is is_aggregator(state, slot, index, slot_signature).
func (sp *Spec) IsAggregator(s *State, slot, index uint64, slotSignature [96]byte) bool {
	committee := sp.BeaconCommittee(s, slot, index)
	modulo := uint64(len(committee)) / TARGET_AGGREGATORS_PER_COMMITTEE
	if modulo < 1 {
		modulo = 1
	}
	h := Hash(slotSignature[:])
	return bytesToUint64(h[0:8])%modulo == 0
}

// AggregateAndProofRoot is the message of get_aggregate_and_proof_signature.
func (sp *Spec) AggregateAndProofRoot(s *State, aap *AggregateAndProof) Root {
	domain := sp.GetDomain(s, DOMAIN_AGGREGATE_AND_PROOF, sp.EpochAtSlot(aap.Aggregate.Data.Slot))
	return sp.ComputeSigningRoot(sp.HTR("AggregateAndProof", aap.V()), domain)
}

// ComputeSubnetForAttestation is compute_subnet_for_attestation.
func (sp *Spec) ComputeSubnetForAttestation(committeesPerSlot, slot, committeeIndex uint64) uint64 {
	slotsSinceEpochStart := slot % sp.P.SLOTS_PER_EPOCH
	committeesSinceEpochStart := mul(committeesPerSlot, slotsSinceEpochStart)
	return add(committeesSinceEpochStart, committeeIndex) % ATTESTATION_SUBNET_COUNT
}

// AttestationDataRoot is the message an attester signs.
func (sp *Spec) AttestationDataRoot(s *State, d *AttestationData) Root {
	domain := sp.GetDomain(s, DOMAIN_BEACON_ATTESTER, d.Target.Epoch)
	return sp.ComputeSigningRoot(sp.HTR("AttestationData", d.V()), domain)
}

// ---------------------------------------------------------------- altair validator guide / p2p

func (sp *Spec) ComputeSyncCommitteePeriod(epoch uint64) uint64 {
	return epoch / sp.P.EPOCHS_PER_SYNC_COMMITTEE_PERIOD
}

// SyncCommitteeForNextSlot: the committee compute_subnets_for_sync_committee and
// get_sync_subcommittee_pubkeys select: the one that signs at state.slot, whose signatures are
// included (and verified) at state.slot + 1.
func (sp *Spec) SyncCommitteeForNextSlot(s *State) *SyncCommittee {
	nextSlotEpoch := sp.EpochAtSlot(add(s.Slot, 1))
	if sp.ComputeSyncCommitteePeriod(sp.CurrentEpoch(s)) == sp.ComputeSyncCommitteePeriod(nextSlotEpoch) {
		return &s.CurrentSyncCommittee
	}
	return &s.NextSyncCommittee
}

// ComputeSubnetsForSyncCommittee is compute_subnets_for_sync_committee (sorted set).
func (sp *Spec) ComputeSubnetsForSyncCommittee(s *State, validatorIndex uint64) []uint64 {
	sc := sp.SyncCommitteeForNextSlot(s)
	target := s.Validators[validatorIndex].Pubkey // IndexError -> invalid
	set := map[uint64]bool{}
	sub := sp.P.SYNC_COMMITTEE_SIZE / SYNC_COMMITTEE_SUBNET_COUNT
	for i, pk := range sc.Pubkeys {
		if pk == target {
			set[uint64(i)/sub] = true
		}
	}
	out := make([]uint64, 0, len(set))
	for k := range set {
		out = append(out, k)
	}
	sort.Slice(out, func(i, j int) bool { return out[i] < out[j] })
	return out
}

// GetSyncSubcommitteePubkeys is get_sync_subcommittee_pubkeys.
func (sp *Spec) GetSyncSubcommitteePubkeys(s *State, subcommitteeIndex uint64) [][48]byte {
	sc := sp.SyncCommitteeForNextSlot(s)
	size := sp.P.SYNC_COMMITTEE_SIZE / SYNC_COMMITTEE_SUBNET_COUNT
	i := mul(subcommitteeIndex, size)
	return sc.Pubkeys[i : i+size] // out of range -> panic (IndexError)
}

// SyncCommitteeMessageRoot is the message of get_sync_committee_message (epoch of `slot`).
func (sp *Spec) SyncCommitteeMessageRoot(s *State, slot uint64, blockRoot Root) Root {
	domain := sp.GetDomain(s, DOMAIN_SYNC_COMMITTEE, sp.EpochAtSlot(slot))
	return sp.ComputeSigningRoot(blockRoot, domain)
}

// SyncSelectionProofRoot is the message of get_sync_committee_selection_proof.
func (sp *Spec) SyncSelectionProofRoot(s *State, slot, subcommitteeIndex uint64) Root {
	domain := sp.GetDomain(s, DOMAIN_SYNC_COMMITTEE_SELECTION_PROOF, sp.EpochAtSlot(slot))
	return sp.ComputeSigningRoot(sp.HTR("SyncAggregatorSelectionData", []any{slot, subcommitteeIndex}), domain)
}

// IsSyncCommitteeAggregator is is_sync_committee_aggregator.
func (sp *Spec) IsSyncCommitteeAggregator(signature [96]byte) bool {
	modulo := sp.P.SYNC_COMMITTEE_SIZE / SYNC_COMMITTEE_SUBNET_COUNT / TARGET_AGGREGATORS_PER_SYNC_SUBCOMMITTEE
	if modulo < 1 {
		modulo = 1
	}
	h := Hash(signature[:])
	return bytesToUint64(h[0:8])%modulo == 0
}

// ContributionAndProofRoot is the message of get_contribution_and_proof_signature.
func (sp *Spec) ContributionAndProofRoot(s *State, cap *ContributionAndProof) Root {
	domain := sp.GetDomain(s, DOMAIN_CONTRIBUTION_AND_PROOF, sp.EpochAtSlot(cap.Contribution.Slot))
	return sp.ComputeSigningRoot(sp.HTR("ContributionAndProof", cap.V()), domain)
}

// Try runs fn and converts a spec-level invalidity (assert, IndexError, overflow) into ok=false.
func Try(fn func()) (err error) {
	defer catch(&err)
	fn()
	return nil
}
