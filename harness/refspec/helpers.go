package refspec

import (
	"crypto/sha256"
	"encoding/binary"
	"fmt"
	"runtime"
	"sort"
	"strings"
	"sync"

	kbls "github.com/kilic/bls12-381"
	blsu "github.com/protolambda/bls12-381-util"

	"zrntverif/refssz"
)

// Invalid is the panic value for a failed spec `assert` (the transition is invalid).
type Invalid struct{ Msg string }

func (i Invalid) Error() string { return "invalid: " + i.Msg }

func assert(cond bool, format string, args ...any) {
	if !cond {
		panic(Invalid{fmt.Sprintf(format, args...)})
	}
}

// catch converts a spec-level invalidity (assert, IndexError, uint64 overflow) into an error.
func catch(err *error) {
	if p := recover(); p != nil {
		switch x := p.(type) {
		case Invalid:
			*err = x
		case refssz.LimitError:
			*err = Invalid{"not a valid SSZ object: " + x.Error()}
		case runtime.Error:
			if strings.Contains(x.Error(), "index out of range") || strings.Contains(x.Error(), "slice bounds out of range") {
				*err = Invalid{"IndexError: " + x.Error()}
				return
			}
			if strings.Contains(x.Error(), "integer divide by zero") {
				*err = Invalid{"ZeroDivisionError"}
				return
			}
			panic(p)
		default:
			panic(p)
		}
	}
}

// checked uint64 arithmetic (Python's uint64 raises on overflow)
func add(a, b uint64) uint64 {
	c := a + b
	assert(c >= a, "uint64 overflow in add")
	return c
}
func sub(a, b uint64) uint64 {
	assert(a >= b, "uint64 underflow in sub")
	return a - b
}
func mul(a, b uint64) uint64 {
	if a == 0 || b == 0 {
		return 0
	}
	c := a * b
	assert(c/b == a, "uint64 overflow in mul")
	return c
}

// NewPayloadRequest is what the execution engine is shown.
type NewPayloadRequest struct {
	Payload               *ExecutionPayload
	VersionedHashes       []Root
	ParentBeaconBlockRoot Root
	HasParentRoot         bool
}

// Spec bundles a configuration with its resolved SSZ schema and the engine verdict oracle.
type Spec struct {
	C   *Config
	P   *params
	Sch *refssz.Schema
	// Engine is execution_engine.verify_and_notify_new_payload; nil means "always valid".
	Engine func(req *NewPayloadRequest) bool
	// TrustDeposits skips the Merkle proof and the proof-of-possession check of deposits (the
	// semantics of the library's kick-start path: "every deposit treated as valid").
	TrustDeposits bool
	// memo of type lookups
	types map[string]*refssz.Type
}

var (
	tableOnce sync.Once
	table     *refssz.Table
	tableErr  error
)

func SchemaTable() *refssz.Table {
	tableOnce.Do(func() { table, tableErr = refssz.LoadTable(refssz.DefaultTablePath()) })
	if tableErr != nil {
		panic(tableErr)
	}
	return table
}

func NewSpec(c *Config) *Spec {
	return &Spec{C: c, P: c.P(), Sch: SchemaTable().Resolve(c.U), types: map[string]*refssz.Type{}}
}

func (sp *Spec) T(name string) *refssz.Type {
	if t, ok := sp.types[name]; ok {
		return t
	}
	t := sp.Sch.MustGet(name)
	sp.types[name] = t
	return t
}

func (sp *Spec) HTR(typeName string, v any) Root { return refssz.HashTreeRoot(sp.T(typeName), v) }

func StateTypeName(fork int) string         { return ForkNames[fork] + ".BeaconState" }
func BlockTypeName(fork int) string         { return ForkNames[fork] + ".BeaconBlock" }
func SignedBlockTypeName(fork int) string   { return ForkNames[fork] + ".SignedBeaconBlock" }
func BodyTypeName(fork int) string          { return ForkNames[fork] + ".BeaconBlockBody" }
func PayloadTypeName(fork int) string       { return ForkNames[fork] + ".ExecutionPayload" }
func PayloadHeaderTypeName(fork int) string { return ForkNames[fork] + ".ExecutionPayloadHeader" }

func (sp *Spec) StateRoot(s *State) Root { return sp.HTR(StateTypeName(s.Fork), s.V()) }
func (sp *Spec) StateBytes(s *State) []byte {
	return refssz.Serialize(sp.T(StateTypeName(s.Fork)), s.V())
}
func (sp *Spec) BlockRoot(b *Block) Root { return sp.HTR(BlockTypeName(b.Fork), b.V()) }
func (sp *Spec) BodyRoot(b *Block) Root  { return sp.HTR(BodyTypeName(b.Fork), b.Body.V(b.Fork)) }
func (sp *Spec) SignedBlockBytes(sb *SignedBlock) []byte {
	return refssz.Serialize(sp.T(SignedBlockTypeName(sb.Message.Fork)), sb.V())
}
func (sp *Spec) HeaderRoot(h *BeaconBlockHeader) Root { return sp.HTR("BeaconBlockHeader", h.V()) }

// ---------------------------------------------------------------- math / crypto

func Hash(data []byte) Root { return sha256.Sum256(data) }

func IntegerSquareroot(n uint64) uint64 {
	if n == ^uint64(0) {
		return 4294967295
	}
	x := n
	y := (x + 1) / 2
	for y < x {
		x = y
		y = (x + n/x) / 2
	}
	return x
}

func xor(a, b Root) (o Root) {
	for i := range a {
		o[i] = a[i] ^ b[i]
	}
	return
}

func u64le(n uint64) []byte {
	var b [8]byte
	binary.LittleEndian.PutUint64(b[:], n)
	return b[:]
}

func cat(parts ...[]byte) []byte {
	var out []byte
	for _, p := range parts {
		out = append(out, p...)
	}
	return out
}

// ---------------------------------------------------------------- BLS (memoised)

var (
	blsMu      sync.Mutex
	pubMemo    = map[[48]byte]*blsu.Pubkey{}
	pubBad     = map[[48]byte]bool{}
	verifyMemo = map[[32]byte]bool{}
)

func decodePubkey(pk [48]byte) *blsu.Pubkey {
	blsMu.Lock()
	defer blsMu.Unlock()
	if p, ok := pubMemo[pk]; ok {
		return p
	}
	if pubBad[pk] {
		return nil
	}
	var p blsu.Pubkey
	if err := p.Deserialize(&pk); err != nil {
		pubBad[pk] = true
		return nil
	}
	// KeyValidate: the identity is not a valid public key
	if (*kbls.G1)(nil).IsZero((*kbls.PointG1)(&p)) {
		pubBad[pk] = true
		return nil
	}
	pubMemo[pk] = &p
	return &p
}

func memoKey(kind byte, pubs [][48]byte, msg Root, sig [96]byte) [32]byte {
	h := sha256.New()
	h.Write([]byte{kind})
	for i := range pubs {
		h.Write(pubs[i][:])
	}
	h.Write(msg[:])
	h.Write(sig[:])
	var out [32]byte
	copy(out[:], h.Sum(nil))
	return out
}

// BLSVerify is bls.Verify: False (never raise) for undecodable keys/signatures.
func BLSVerify(pk [48]byte, msg Root, sig [96]byte) bool {
	k := memoKey(1, [][48]byte{pk}, msg, sig)
	blsMu.Lock()
	if v, ok := verifyMemo[k]; ok {
		blsMu.Unlock()
		return v
	}
	blsMu.Unlock()
	res := false
	if p := decodePubkey(pk); p != nil {
		var s blsu.Signature
		if err := s.Deserialize(&sig); err == nil {
			res = blsu.Verify(p, msg[:], &s)
		}
	}
	blsMu.Lock()
	verifyMemo[k] = res
	blsMu.Unlock()
	return res
}

// BLSFastAggregateVerify is bls.FastAggregateVerify (False for an empty key list).
func BLSFastAggregateVerify(pks [][48]byte, msg Root, sig [96]byte) bool {
	if len(pks) == 0 {
		return false
	}
	k := memoKey(2, pks, msg, sig)
	blsMu.Lock()
	if v, ok := verifyMemo[k]; ok {
		blsMu.Unlock()
		return v
	}
	blsMu.Unlock()
	res := false
	func() {
		ps := make([]*blsu.Pubkey, len(pks))
		for i := range pks {
			ps[i] = decodePubkey(pks[i])
			if ps[i] == nil {
				return
			}
		}
		var s blsu.Signature
		if err := s.Deserialize(&sig); err != nil {
			return
		}
		res = blsu.FastAggregateVerify(ps, msg[:], &s)
	}()
	blsMu.Lock()
	verifyMemo[k] = res
	blsMu.Unlock()
	return res
}

var G2PointAtInfinity = func() (s [96]byte) { s[0] = 0xc0; return }()

func EthFastAggregateVerify(pks [][48]byte, msg Root, sig [96]byte) bool {
	if len(pks) == 0 && sig == G2PointAtInfinity {
		return true
	}
	return BLSFastAggregateVerify(pks, msg, sig)
}

// EthAggregatePubkeys: all keys must be valid; returns the compressed sum.
func EthAggregatePubkeys(pks [][48]byte) [48]byte {
	assert(len(pks) > 0, "eth_aggregate_pubkeys of nothing")
	ps := make([]*blsu.Pubkey, len(pks))
	for i := range pks {
		ps[i] = decodePubkey(pks[i])
		assert(ps[i] != nil, "eth_aggregate_pubkeys: invalid key")
	}
	agg, err := blsu.AggregatePubkeys(ps)
	assert(err == nil, "eth_aggregate_pubkeys failed")
	return agg.Serialize()
}

// ---------------------------------------------------------------- misc computations

func (sp *Spec) ComputeShuffledIndex(index, indexCount uint64, seed Root) uint64 {
	assert(index < indexCount, "compute_shuffled_index: index out of range")
	for r := uint64(0); r < sp.P.SHUFFLE_ROUND_COUNT; r++ {
		ph := Hash(cat(seed[:], []byte{byte(r)}))
		pivot := binary.LittleEndian.Uint64(ph[:8]) % indexCount
		flip := (pivot + indexCount - index) % indexCount
		position := index
		if flip > position {
			position = flip
		}
		var p4 [4]byte
		binary.LittleEndian.PutUint32(p4[:], uint32(position/256))
		source := Hash(cat(seed[:], []byte{byte(r)}, p4[:]))
		byt := source[(position%256)/8]
		bit := (byt >> (position % 8)) % 2
		if bit == 1 {
			index = flip
		}
	}
	return index
}

func (sp *Spec) ComputeProposerIndex(s *State, indices []uint64, seed Root) uint64 {
	assert(len(indices) > 0, "compute_proposer_index: no active validators")
	total := uint64(len(indices))
	for i := uint64(0); ; i++ {
		candidate := indices[sp.ComputeShuffledIndex(i%total, total, seed)]
		randomByte := Hash(cat(seed[:], u64le(i/32)))[i%32]
		eb := s.Validators[candidate].EffectiveBalance
		if eb*MAX_RANDOM_BYTE >= sp.P.MAX_EFFECTIVE_BALANCE*uint64(randomByte) {
			return candidate
		}
	}
}

func (sp *Spec) ComputeCommittee(indices []uint64, seed Root, index, count uint64) []uint64 {
	n := uint64(len(indices))
	start := n * index / count
	end := n * (index + 1) / count
	out := make([]uint64, 0, end-start)
	for i := start; i < end; i++ {
		out = append(out, indices[sp.ComputeShuffledIndex(i, n, seed)])
	}
	return out
}

func (sp *Spec) EpochAtSlot(slot uint64) uint64       { return slot / sp.P.SLOTS_PER_EPOCH }
func (sp *Spec) StartSlotAtEpoch(epoch uint64) uint64 { return mul(epoch, sp.P.SLOTS_PER_EPOCH) }
func (sp *Spec) ActivationExitEpoch(epoch uint64) uint64 {
	return add(add(epoch, 1), sp.P.MAX_SEED_LOOKAHEAD)
}

func (sp *Spec) ComputeForkDataRoot(version [4]byte, gvr Root) Root {
	return sp.HTR("ForkData", []any{b(version[:]), b(gvr[:])})
}
func (sp *Spec) ComputeForkDigest(version [4]byte, gvr Root) (d [4]byte) {
	r := sp.ComputeForkDataRoot(version, gvr)
	copy(d[:], r[:4])
	return
}
func (sp *Spec) ComputeDomain(domainType [4]byte, version [4]byte, gvr Root) (d Root) {
	fdr := sp.ComputeForkDataRoot(version, gvr)
	copy(d[:4], domainType[:])
	copy(d[4:], fdr[:28])
	return
}
func (sp *Spec) ComputeSigningRoot(objectRoot Root, domain Root) Root {
	return sp.HTR("SigningData", []any{b(objectRoot[:]), b(domain[:])})
}

// ComputeForkVersion is compute_fork_version of the latest fork's fork.md (deneb here).
func (sp *Spec) ComputeForkVersion(epoch uint64) [4]byte {
	for f := Deneb; f >= Altair; f-- {
		if epoch >= sp.P.ForkEpochs[f] {
			return sp.P.ForkVersions[f]
		}
	}
	return sp.P.ForkVersions[Phase0]
}

// ---------------------------------------------------------------- predicates

func IsActive(v *Validator, epoch uint64) bool {
	return v.ActivationEpoch <= epoch && epoch < v.ExitEpoch
}
func (sp *Spec) IsEligibleForActivationQueue(v *Validator) bool {
	return v.ActivationEligibilityEpoch == FarFutureEpoch && v.EffectiveBalance == sp.P.MAX_EFFECTIVE_BALANCE
}
func IsEligibleForActivation(s *State, v *Validator) bool {
	return v.ActivationEligibilityEpoch <= s.FinalizedCheckpoint.Epoch && v.ActivationEpoch == FarFutureEpoch
}
func IsSlashableValidator(v *Validator, epoch uint64) bool {
	return !v.Slashed && v.ActivationEpoch <= epoch && epoch < v.WithdrawableEpoch
}
func IsSlashableAttestationData(d1, d2 *AttestationData) bool {
	return (*d1 != *d2 && d1.Target.Epoch == d2.Target.Epoch) ||
		(d1.Source.Epoch < d2.Source.Epoch && d2.Target.Epoch < d1.Target.Epoch)
}

func (sp *Spec) IsValidIndexedAttestation(s *State, ia *IndexedAttestation) bool {
	idx := ia.Indices
	if len(idx) == 0 {
		return false
	}
	for i := 1; i < len(idx); i++ {
		if idx[i-1] >= idx[i] {
			return false
		}
	}
	pks := make([][48]byte, len(idx))
	for i, x := range idx {
		pks[i] = s.Validators[x].Pubkey // IndexError -> invalid
	}
	domain := sp.GetDomain(s, DOMAIN_BEACON_ATTESTER, ia.Data.Target.Epoch)
	sr := sp.ComputeSigningRoot(sp.HTR("AttestationData", ia.Data.V()), domain)
	return BLSFastAggregateVerify(pks, sr, ia.Signature)
}

func IsValidMerkleBranch(leaf Root, branch []Root, depth uint64, index uint64, root Root) bool {
	value := leaf
	for i := uint64(0); i < depth; i++ {
		if (index>>i)&1 == 1 {
			value = Hash(cat(branch[i][:], value[:]))
		} else {
			value = Hash(cat(value[:], branch[i][:]))
		}
	}
	return value == root
}

// ---------------------------------------------------------------- accessors

func (sp *Spec) CurrentEpoch(s *State) uint64 { return sp.EpochAtSlot(s.Slot) }
func (sp *Spec) PreviousEpoch(s *State) uint64 {
	c := sp.CurrentEpoch(s)
	if c == 0 {
		return 0
	}
	return c - 1
}
func (sp *Spec) GetBlockRootAtSlot(s *State, slot uint64) Root {
	assert(slot < s.Slot && s.Slot <= add(slot, sp.P.SLOTS_PER_HISTORICAL_ROOT), "get_block_root_at_slot: slot %d out of range at %d", slot, s.Slot)
	return s.BlockRoots[slot%sp.P.SLOTS_PER_HISTORICAL_ROOT]
}
func (sp *Spec) GetBlockRoot(s *State, epoch uint64) Root {
	return sp.GetBlockRootAtSlot(s, sp.StartSlotAtEpoch(epoch))
}
func (sp *Spec) GetRandaoMix(s *State, epoch uint64) Root {
	return s.RandaoMixes[epoch%sp.P.EPOCHS_PER_HISTORICAL_VECTOR]
}
func (sp *Spec) ActiveIndices(s *State, epoch uint64) []uint64 {
	var out []uint64
	for i := range s.Validators {
		if IsActive(&s.Validators[i], epoch) {
			out = append(out, uint64(i))
		}
	}
	return out
}
func (sp *Spec) ChurnLimit(s *State) uint64 {
	n := uint64(len(sp.ActiveIndices(s, sp.CurrentEpoch(s)))) / sp.P.CHURN_LIMIT_QUOTIENT
	if n < sp.P.MIN_PER_EPOCH_CHURN_LIMIT {
		n = sp.P.MIN_PER_EPOCH_CHURN_LIMIT
	}
	return n
}
func (sp *Spec) ActivationChurnLimit(s *State) uint64 {
	n := sp.ChurnLimit(s)
	if sp.P.MAX_PER_EPOCH_ACTIVATION_CHURN_LIMIT < n {
		n = sp.P.MAX_PER_EPOCH_ACTIVATION_CHURN_LIMIT
	}
	return n
}
func (sp *Spec) GetSeed(s *State, epoch uint64, domainType [4]byte) Root {
	mix := sp.GetRandaoMix(s, sub(add(epoch, sp.P.EPOCHS_PER_HISTORICAL_VECTOR), sp.P.MIN_SEED_LOOKAHEAD+1))
	return Hash(cat(domainType[:], u64le(epoch), mix[:]))
}
func (sp *Spec) CommitteeCountPerSlot(s *State, epoch uint64) uint64 {
	n := uint64(len(sp.ActiveIndices(s, epoch))) / sp.P.SLOTS_PER_EPOCH / sp.P.TARGET_COMMITTEE_SIZE
	if n > sp.P.MAX_COMMITTEES_PER_SLOT {
		n = sp.P.MAX_COMMITTEES_PER_SLOT
	}
	if n < 1 {
		n = 1
	}
	return n
}
func (sp *Spec) BeaconCommittee(s *State, slot, index uint64) []uint64 {
	epoch := sp.EpochAtSlot(slot)
	cps := sp.CommitteeCountPerSlot(s, epoch)
	return sp.ComputeCommittee(sp.ActiveIndices(s, epoch), sp.GetSeed(s, epoch, DOMAIN_BEACON_ATTESTER),
		(slot%sp.P.SLOTS_PER_EPOCH)*cps+index, cps*sp.P.SLOTS_PER_EPOCH)
}
func (sp *Spec) BeaconProposerIndex(s *State) uint64 {
	epoch := sp.CurrentEpoch(s)
	sd := sp.GetSeed(s, epoch, DOMAIN_BEACON_PROPOSER)
	seed := Hash(cat(sd[:], u64le(s.Slot)))
	return sp.ComputeProposerIndex(s, sp.ActiveIndices(s, epoch), seed)
}

// ProposerIndexAtSlot computes the proposer for any slot of the state's current epoch
// (the spec function evaluated on a state advanced to that slot: the inputs it reads — the seed
// mix, the active set, effective balances — are constant within an epoch).
func (sp *Spec) ProposerIndexAtSlot(s *State, slot uint64) uint64 {
	epoch := sp.EpochAtSlot(slot)
	sd := sp.GetSeed(s, epoch, DOMAIN_BEACON_PROPOSER)
	seed := Hash(cat(sd[:], u64le(slot)))
	return sp.ComputeProposerIndex(s, sp.ActiveIndices(s, epoch), seed)
}

func (sp *Spec) TotalBalance(s *State, indices []uint64) uint64 {
	sum := uint64(0)
	for _, i := range indices {
		sum = add(sum, s.Validators[i].EffectiveBalance)
	}
	if sum < sp.P.EFFECTIVE_BALANCE_INCREMENT {
		sum = sp.P.EFFECTIVE_BALANCE_INCREMENT
	}
	return sum
}
func (sp *Spec) TotalActiveBalance(s *State) uint64 {
	return sp.TotalBalance(s, sp.ActiveIndices(s, sp.CurrentEpoch(s)))
}
func (sp *Spec) GetDomain(s *State, domainType [4]byte, epoch uint64) Root {
	v := s.ForkData.CurrentVersion
	if epoch < s.ForkData.Epoch {
		v = s.ForkData.PreviousVersion
	}
	return sp.ComputeDomain(domainType, v, s.GenesisValidatorsRoot)
}
func (sp *Spec) GetDomainNow(s *State, domainType [4]byte) Root {
	return sp.GetDomain(s, domainType, sp.CurrentEpoch(s))
}

// AttestingIndices returns the set as a sorted slice.
func (sp *Spec) AttestingIndices(s *State, data *AttestationData, bits []bool) []uint64 {
	committee := sp.BeaconCommittee(s, data.Slot, data.Index)
	set := map[uint64]bool{}
	for i, idx := range committee {
		if bits[i] { // IndexError if bits shorter than the committee
			set[idx] = true
		}
	}
	out := make([]uint64, 0, len(set))
	for k := range set {
		out = append(out, k)
	}
	sort.Slice(out, func(i, j int) bool { return out[i] < out[j] })
	return out
}

func (sp *Spec) GetIndexedAttestation(s *State, a *Attestation) *IndexedAttestation {
	return &IndexedAttestation{Indices: sp.AttestingIndices(s, &a.Data, a.Bits), Data: a.Data, Signature: a.Signature}
}

// ---------------------------------------------------------------- mutators

func IncreaseBalance(s *State, index uint64, delta uint64) {
	s.Balances[index] = add(s.Balances[index], delta)
}
func DecreaseBalance(s *State, index uint64, delta uint64) {
	if delta > s.Balances[index] {
		s.Balances[index] = 0
	} else {
		s.Balances[index] -= delta
	}
}

func (sp *Spec) InitiateValidatorExit(s *State, index uint64) {
	v := &s.Validators[index]
	if v.ExitEpoch != FarFutureEpoch {
		return
	}
	q := sp.ActivationExitEpoch(sp.CurrentEpoch(s))
	for i := range s.Validators {
		if e := s.Validators[i].ExitEpoch; e != FarFutureEpoch && e > q {
			q = e
		}
	}
	churn := uint64(0)
	for i := range s.Validators {
		if s.Validators[i].ExitEpoch == q {
			churn++
		}
	}
	if churn >= sp.ChurnLimit(s) {
		q = add(q, 1)
	}
	v.ExitEpoch = q
	v.WithdrawableEpoch = add(q, sp.P.MIN_VALIDATOR_WITHDRAWABILITY_DELAY)
}

func (sp *Spec) SlashValidator(s *State, slashedIndex uint64, whistleblower *uint64) {
	epoch := sp.CurrentEpoch(s)
	sp.InitiateValidatorExit(s, slashedIndex)
	v := &s.Validators[slashedIndex]
	v.Slashed = true
	if w := add(epoch, sp.P.EPOCHS_PER_SLASHINGS_VECTOR); w > v.WithdrawableEpoch {
		v.WithdrawableEpoch = w
	}
	si := epoch % sp.P.EPOCHS_PER_SLASHINGS_VECTOR
	s.Slashings[si] = add(s.Slashings[si], v.EffectiveBalance)
	q := sp.P.MIN_SLASHING_PENALTY_QUOTIENT
	if s.Fork >= Bellatrix {
		q = sp.P.MIN_SLASHING_PENALTY_QUOTIENT_BELLATRIX
	} else if s.Fork == Altair {
		q = sp.P.MIN_SLASHING_PENALTY_QUOTIENT_ALTAIR
	}
	DecreaseBalance(s, slashedIndex, v.EffectiveBalance/q)
	proposer := sp.BeaconProposerIndex(s)
	wb := proposer
	if whistleblower != nil {
		wb = *whistleblower
	}
	wbReward := v.EffectiveBalance / sp.P.WHISTLEBLOWER_REWARD_QUOTIENT
	var proposerReward uint64
	if s.Fork >= Altair {
		proposerReward = wbReward * PROPOSER_WEIGHT / WEIGHT_DENOMINATOR
	} else {
		proposerReward = wbReward / sp.P.PROPOSER_REWARD_QUOTIENT
	}
	IncreaseBalance(s, proposer, proposerReward)
	IncreaseBalance(s, wb, sub(wbReward, proposerReward))
}
