package refspec

import (
	"bytes"
)

func (sp *Spec) processBlock(s *State, b *Block) {
	assert(b.Fork == s.Fork, "block container of fork %d on state of fork %d", b.Fork, s.Fork)
	sp.processBlockHeader(s, b)
	if s.Fork >= Capella {
		sp.processWithdrawals(s, &b.Body.ExecutionPayload)
		sp.processExecutionPayload(s, b)
	} else if s.Fork == Bellatrix {
		if sp.IsExecutionEnabled(s, &b.Body) {
			sp.processExecutionPayload(s, b)
		}
	}
	sp.processRandao(s, &b.Body)
	sp.processEth1Data(s, &b.Body)
	sp.processOperations(s, &b.Body)
	if s.Fork >= Altair {
		sp.processSyncAggregate(s, &b.Body.SyncAggregate)
	}
}

func (sp *Spec) processBlockHeader(s *State, b *Block) {
	assert(b.Slot == s.Slot, "block.slot %d != state.slot %d", b.Slot, s.Slot)
	assert(b.Slot > s.LatestBlockHeader.Slot, "block.slot not after latest header slot")
	assert(b.ProposerIndex == sp.BeaconProposerIndex(s), "wrong proposer index")
	assert(b.ParentRoot == sp.HeaderRoot(&s.LatestBlockHeader), "wrong parent root")
	s.LatestBlockHeader = BeaconBlockHeader{Slot: b.Slot, ProposerIndex: b.ProposerIndex, ParentRoot: b.ParentRoot,
		StateRoot: Root{}, BodyRoot: sp.BodyRoot(b)}
	assert(!s.Validators[b.ProposerIndex].Slashed, "proposer is slashed")
}

func (sp *Spec) processRandao(s *State, body *Body) {
	epoch := sp.CurrentEpoch(s)
	proposer := &s.Validators[sp.BeaconProposerIndex(s)]
	sr := sp.ComputeSigningRoot(sp.HTR("Epoch", epoch), sp.GetDomainNow(s, DOMAIN_RANDAO))
	assert(BLSVerify(proposer.Pubkey, sr, body.RandaoReveal), "invalid randao reveal")
	mix := xor(sp.GetRandaoMix(s, epoch), Hash(body.RandaoReveal[:]))
	s.RandaoMixes[epoch%sp.P.EPOCHS_PER_HISTORICAL_VECTOR] = mix
}

func (sp *Spec) processEth1Data(s *State, body *Body) {
	assert(uint64(len(s.Eth1DataVotes)) < sp.P.EPOCHS_PER_ETH1_VOTING_PERIOD*sp.P.SLOTS_PER_EPOCH, "eth1_data_votes full")
	s.Eth1DataVotes = append(s.Eth1DataVotes, body.Eth1Data)
	count := uint64(0)
	for _, v := range s.Eth1DataVotes {
		if v == body.Eth1Data {
			count++
		}
	}
	if count*2 > sp.P.EPOCHS_PER_ETH1_VOTING_PERIOD*sp.P.SLOTS_PER_EPOCH {
		s.Eth1Data = body.Eth1Data
	}
}

func (sp *Spec) processOperations(s *State, body *Body) {
	expected := sub(s.Eth1Data.DepositCount, s.Eth1DepositIndex)
	if sp.P.MAX_DEPOSITS < expected {
		expected = sp.P.MAX_DEPOSITS
	}
	assert(uint64(len(body.Deposits)) == expected, "deposit count %d != expected %d", len(body.Deposits), expected)
	// SSZ list limits of the block body (a body over its limits is not a valid container)
	assert(uint64(len(body.ProposerSlashings)) <= sp.P.MAX_PROPOSER_SLASHINGS, "too many proposer slashings")
	assert(uint64(len(body.AttesterSlashings)) <= sp.P.MAX_ATTESTER_SLASHINGS, "too many attester slashings")
	assert(uint64(len(body.Attestations)) <= sp.P.MAX_ATTESTATIONS, "too many attestations")
	assert(uint64(len(body.VoluntaryExits)) <= sp.P.MAX_VOLUNTARY_EXITS, "too many exits")
	for i := range body.ProposerSlashings {
		sp.processProposerSlashing(s, &body.ProposerSlashings[i])
	}
	for i := range body.AttesterSlashings {
		sp.processAttesterSlashing(s, &body.AttesterSlashings[i])
	}
	for i := range body.Attestations {
		sp.processAttestation(s, &body.Attestations[i])
	}
	for i := range body.Deposits {
		sp.processDeposit(s, &body.Deposits[i])
	}
	for i := range body.VoluntaryExits {
		sp.processVoluntaryExit(s, &body.VoluntaryExits[i])
	}
	if s.Fork >= Capella {
		assert(uint64(len(body.BLSChanges)) <= sp.P.MAX_BLS_TO_EXECUTION_CHANGES, "too many bls changes")
		for i := range body.BLSChanges {
			sp.processBLSToExecutionChange(s, &body.BLSChanges[i])
		}
	}
}

func (sp *Spec) processProposerSlashing(s *State, ps *ProposerSlashing) {
	h1, h2 := &ps.H1.Message, &ps.H2.Message
	assert(h1.Slot == h2.Slot, "proposer slashing: slots differ")
	assert(h1.ProposerIndex == h2.ProposerIndex, "proposer slashing: proposers differ")
	assert(*h1 != *h2, "proposer slashing: identical headers")
	proposer := &s.Validators[h1.ProposerIndex]
	assert(IsSlashableValidator(proposer, sp.CurrentEpoch(s)), "proposer slashing: not slashable")
	for _, sh := range []*SignedBeaconBlockHeader{&ps.H1, &ps.H2} {
		domain := sp.GetDomain(s, DOMAIN_BEACON_PROPOSER, sp.EpochAtSlot(sh.Message.Slot))
		sr := sp.ComputeSigningRoot(sp.HeaderRoot(&sh.Message), domain)
		assert(BLSVerify(proposer.Pubkey, sr, sh.Signature), "proposer slashing: bad signature")
	}
	sp.SlashValidator(s, h1.ProposerIndex, nil)
}

func (sp *Spec) processAttesterSlashing(s *State, as *AttesterSlashing) {
	a1, a2 := &as.A1, &as.A2
	assert(IsSlashableAttestationData(&a1.Data, &a2.Data), "attester slashing: data not slashable")
	assert(sp.IsValidIndexedAttestation(s, a1), "attester slashing: attestation 1 invalid")
	assert(sp.IsValidIndexedAttestation(s, a2), "attester slashing: attestation 2 invalid")
	slashedAny := false
	in2 := map[uint64]bool{}
	for _, i := range a2.Indices {
		in2[i] = true
	}
	// both index lists are sorted (validated above), so iterating a1 in order is sorted(intersection)
	for _, i := range a1.Indices {
		if in2[i] && IsSlashableValidator(&s.Validators[i], sp.CurrentEpoch(s)) {
			sp.SlashValidator(s, i, nil)
			slashedAny = true
		}
	}
	assert(slashedAny, "attester slashing: nobody slashed")
}

func (sp *Spec) processAttestation(s *State, a *Attestation) {
	d := &a.Data
	assert(d.Target.Epoch == sp.PreviousEpoch(s) || d.Target.Epoch == sp.CurrentEpoch(s), "attestation: target epoch not prev/current")
	assert(d.Target.Epoch == sp.EpochAtSlot(d.Slot), "attestation: target epoch != epoch(slot)")
	if s.Fork >= Deneb {
		assert(add(d.Slot, sp.P.MIN_ATTESTATION_INCLUSION_DELAY) <= s.Slot, "attestation: too new")
	} else {
		assert(add(d.Slot, sp.P.MIN_ATTESTATION_INCLUSION_DELAY) <= s.Slot && s.Slot <= add(d.Slot, sp.P.SLOTS_PER_EPOCH), "attestation: outside inclusion window")
	}
	assert(d.Index < sp.CommitteeCountPerSlot(s, d.Target.Epoch), "attestation: committee index out of range")
	committee := sp.BeaconCommittee(s, d.Slot, d.Index)
	assert(len(a.Bits) == len(committee), "attestation: %d bits for committee of %d", len(a.Bits), len(committee))
	if s.Fork == Phase0 {
		pa := PendingAttestation{Data: *d, Bits: append([]bool{}, a.Bits...), InclusionDelay: s.Slot - d.Slot, ProposerIndex: sp.BeaconProposerIndex(s)}
		limit := sp.P.MAX_ATTESTATIONS * sp.P.SLOTS_PER_EPOCH
		if d.Target.Epoch == sp.CurrentEpoch(s) {
			assert(d.Source == s.CurrentJustifiedCheckpoint, "attestation: source != current justified")
			assert(uint64(len(s.CurrentEpochAttestations)) < limit, "current_epoch_attestations full")
			s.CurrentEpochAttestations = append(s.CurrentEpochAttestations, pa)
		} else {
			assert(d.Source == s.PreviousJustifiedCheckpoint, "attestation: source != previous justified")
			assert(uint64(len(s.PreviousEpochAttestations)) < limit, "previous_epoch_attestations full")
			s.PreviousEpochAttestations = append(s.PreviousEpochAttestations, pa)
		}
		assert(sp.IsValidIndexedAttestation(s, sp.GetIndexedAttestation(s, a)), "attestation: invalid signature/indices")
		return
	}
	flags := sp.participationFlagIndices(s, d, s.Slot-d.Slot)
	assert(sp.IsValidIndexedAttestation(s, sp.GetIndexedAttestation(s, a)), "attestation: invalid signature/indices")
	part := s.PreviousEpochParticipation
	if d.Target.Epoch == sp.CurrentEpoch(s) {
		part = s.CurrentEpochParticipation
	}
	num := uint64(0)
	for _, index := range sp.AttestingIndices(s, d, a.Bits) {
		for f, w := range PARTICIPATION_FLAG_WEIGHTS {
			has := false
			for _, x := range flags {
				if int(x) == f {
					has = true
				}
			}
			if has && part[index]&(1<<uint(f)) == 0 {
				part[index] |= 1 << uint(f)
				num = add(num, mul(sp.baseRewardAltair(s, index), w))
			}
		}
	}
	den := uint64((WEIGHT_DENOMINATOR - PROPOSER_WEIGHT) * WEIGHT_DENOMINATOR / PROPOSER_WEIGHT)
	IncreaseBalance(s, sp.BeaconProposerIndex(s), num/den)
}

func (sp *Spec) validatorFromDeposit(pk [48]byte, wc [32]byte, amount uint64) Validator {
	eb := amount - amount%sp.P.EFFECTIVE_BALANCE_INCREMENT
	if eb > sp.P.MAX_EFFECTIVE_BALANCE {
		eb = sp.P.MAX_EFFECTIVE_BALANCE
	}
	return Validator{Pubkey: pk, WithdrawalCredentials: wc, EffectiveBalance: eb,
		ActivationEligibilityEpoch: FarFutureEpoch, ActivationEpoch: FarFutureEpoch, ExitEpoch: FarFutureEpoch, WithdrawableEpoch: FarFutureEpoch}
}

func (sp *Spec) applyDeposit(s *State, pk [48]byte, wc [32]byte, amount uint64, sig [96]byte) {
	found := -1
	for i := range s.Validators {
		if s.Validators[i].Pubkey == pk {
			found = i
			break
		}
	}
	if found < 0 {
		dm := sp.HTR("DepositMessage", []any{b(pk[:]), b(wc[:]), amount})
		domain := sp.ComputeDomain(DOMAIN_DEPOSIT, sp.P.ForkVersions[Phase0], Root{})
		if sp.TrustDeposits || BLSVerify(pk, sp.ComputeSigningRoot(dm, domain), sig) {
			assert(uint64(len(s.Validators)) < sp.P.VALIDATOR_REGISTRY_LIMIT, "validator registry full")
			s.Validators = append(s.Validators, sp.validatorFromDeposit(pk, wc, amount))
			s.Balances = append(s.Balances, amount)
			if s.Fork >= Altair {
				s.PreviousEpochParticipation = append(s.PreviousEpochParticipation, 0)
				s.CurrentEpochParticipation = append(s.CurrentEpochParticipation, 0)
				s.InactivityScores = append(s.InactivityScores, 0)
			}
		}
	} else {
		IncreaseBalance(s, uint64(found), amount)
	}
}

func (sp *Spec) processDeposit(s *State, d *Deposit) {
	leaf := sp.HTR("DepositData", d.Data.V())
	assert(sp.TrustDeposits || IsValidMerkleBranch(leaf, d.Proof[:], DEPOSIT_CONTRACT_TREE_DEPTH+1, s.Eth1DepositIndex, s.Eth1Data.DepositRoot), "deposit: bad merkle proof")
	s.Eth1DepositIndex = add(s.Eth1DepositIndex, 1)
	sp.applyDeposit(s, d.Data.Pubkey, d.Data.WithdrawalCredentials, d.Data.Amount, d.Data.Signature)
}

func (sp *Spec) processVoluntaryExit(s *State, se *SignedVoluntaryExit) {
	e := &se.Message
	v := &s.Validators[e.ValidatorIndex]
	cur := sp.CurrentEpoch(s)
	assert(IsActive(v, cur), "exit: validator not active")
	assert(v.ExitEpoch == FarFutureEpoch, "exit: already exiting")
	assert(cur >= e.Epoch, "exit: epoch in the future")
	assert(cur >= add(v.ActivationEpoch, sp.P.SHARD_COMMITTEE_PERIOD), "exit: validator too young")
	var domain Root
	if s.Fork >= Deneb {
		domain = sp.ComputeDomain(DOMAIN_VOLUNTARY_EXIT, sp.P.ForkVersions[Capella], s.GenesisValidatorsRoot)
	} else {
		domain = sp.GetDomain(s, DOMAIN_VOLUNTARY_EXIT, e.Epoch)
	}
	sr := sp.ComputeSigningRoot(sp.HTR("VoluntaryExit", e.V()), domain)
	assert(BLSVerify(v.Pubkey, sr, se.Signature), "exit: bad signature")
	sp.InitiateValidatorExit(s, e.ValidatorIndex)
}

// ---------------------------------------------------------------- altair: sync aggregate

func (sp *Spec) processSyncAggregate(s *State, sa *SyncAggregate) {
	assert(uint64(len(sa.Bits)) == sp.P.SYNC_COMMITTEE_SIZE, "sync aggregate: wrong bit count")
	var participants [][48]byte
	for i, pk := range s.CurrentSyncCommittee.Pubkeys {
		if sa.Bits[i] {
			participants = append(participants, pk)
		}
	}
	prevSlot := s.Slot
	if prevSlot < 1 {
		prevSlot = 1
	}
	prevSlot--
	domain := sp.GetDomain(s, DOMAIN_SYNC_COMMITTEE, sp.EpochAtSlot(prevSlot))
	br := sp.GetBlockRootAtSlot(s, prevSlot)
	sr := sp.ComputeSigningRoot(br, domain) // hash_tree_root(Root) is the root itself
	assert(EthFastAggregateVerify(participants, sr, sa.Signature), "sync aggregate: bad signature")

	totalActiveInc := sp.TotalActiveBalance(s) / sp.P.EFFECTIVE_BALANCE_INCREMENT
	totalBase := mul(sp.baseRewardPerIncrement(s), totalActiveInc)
	maxPart := totalBase * SYNC_REWARD_WEIGHT / WEIGHT_DENOMINATOR / sp.P.SLOTS_PER_EPOCH
	partReward := maxPart / sp.P.SYNC_COMMITTEE_SIZE
	propReward := partReward * PROPOSER_WEIGHT / (WEIGHT_DENOMINATOR - PROPOSER_WEIGHT)
	committeeIndices := make([]uint64, len(s.CurrentSyncCommittee.Pubkeys))
	for k, pk := range s.CurrentSyncCommittee.Pubkeys {
		found := -1
		for i := range s.Validators {
			if s.Validators[i].Pubkey == pk {
				found = i
				break
			}
		}
		assert(found >= 0, "sync committee pubkey not in registry")
		committeeIndices[k] = uint64(found)
	}
	for k, idx := range committeeIndices {
		if sa.Bits[k] {
			IncreaseBalance(s, idx, partReward)
			IncreaseBalance(s, sp.BeaconProposerIndex(s), propReward)
		} else {
			DecreaseBalance(s, idx, partReward)
		}
	}
}

// ---------------------------------------------------------------- bellatrix+: execution payload

func (h *ExecutionPayloadHeader) isDefault() bool {
	z := ExecutionPayloadHeader{}
	return h.ParentHash == z.ParentHash && h.FeeRecipient == z.FeeRecipient && h.StateRoot == z.StateRoot &&
		h.ReceiptsRoot == z.ReceiptsRoot && h.LogsBloom == z.LogsBloom && h.PrevRandao == z.PrevRandao &&
		h.BlockNumber == 0 && h.GasLimit == 0 && h.GasUsed == 0 && h.Timestamp == 0 && len(h.ExtraData) == 0 &&
		h.BaseFeePerGas == z.BaseFeePerGas && h.BlockHash == z.BlockHash && h.TransactionsRoot == z.TransactionsRoot &&
		h.WithdrawalsRoot == z.WithdrawalsRoot && h.BlobGasUsed == 0 && h.ExcessBlobGas == 0
}

func (p *ExecutionPayload) isDefault() bool {
	z := ExecutionPayload{}
	return p.ParentHash == z.ParentHash && p.FeeRecipient == z.FeeRecipient && p.StateRoot == z.StateRoot &&
		p.ReceiptsRoot == z.ReceiptsRoot && p.LogsBloom == z.LogsBloom && p.PrevRandao == z.PrevRandao &&
		p.BlockNumber == 0 && p.GasLimit == 0 && p.GasUsed == 0 && p.Timestamp == 0 && len(p.ExtraData) == 0 &&
		p.BaseFeePerGas == z.BaseFeePerGas && p.BlockHash == z.BlockHash && len(p.Transactions) == 0 &&
		len(p.Withdrawals) == 0 && p.BlobGasUsed == 0 && p.ExcessBlobGas == 0
}

func (sp *Spec) IsMergeTransitionComplete(s *State) bool {
	return !s.LatestExecutionPayloadHeader.isDefault()
}
func (sp *Spec) IsExecutionEnabled(s *State, body *Body) bool {
	return (!sp.IsMergeTransitionComplete(s) && !body.ExecutionPayload.isDefault()) || sp.IsMergeTransitionComplete(s)
}
func (sp *Spec) TimestampAtSlot(s *State, slot uint64) uint64 {
	return add(s.GenesisTime, mul(slot, sp.P.SECONDS_PER_SLOT))
}

func VersionedHash(commitment [48]byte) Root {
	h := Hash(commitment[:])
	h[0] = VERSIONED_HASH_VERSION_KZG
	return h
}

func (sp *Spec) processExecutionPayload(s *State, blk *Block) {
	body := &blk.Body
	p := &body.ExecutionPayload
	if s.Fork >= Capella || sp.IsMergeTransitionComplete(s) {
		assert(p.ParentHash == s.LatestExecutionPayloadHeader.BlockHash, "payload: wrong parent hash")
	}
	assert(p.PrevRandao == sp.GetRandaoMix(s, sp.CurrentEpoch(s)), "payload: wrong prev_randao")
	assert(p.Timestamp == sp.TimestampAtSlot(s, s.Slot), "payload: wrong timestamp")
	req := &NewPayloadRequest{Payload: p}
	if s.Fork >= Deneb {
		assert(uint64(len(body.BlobCommitments)) <= sp.P.MAX_BLOBS_PER_BLOCK, "payload: too many blob commitments")
		for _, c := range body.BlobCommitments {
			req.VersionedHashes = append(req.VersionedHashes, VersionedHash(c))
		}
		req.ParentBeaconBlockRoot = s.LatestBlockHeader.ParentRoot
		req.HasParentRoot = true
	}
	if sp.Engine != nil {
		assert(sp.Engine(req), "payload: execution engine says invalid")
	}
	assert(len(p.ExtraData) <= 32, "payload: extra data too long")
	h := ExecutionPayloadHeader{ParentHash: p.ParentHash, FeeRecipient: p.FeeRecipient, StateRoot: p.StateRoot,
		ReceiptsRoot: p.ReceiptsRoot, LogsBloom: p.LogsBloom, PrevRandao: p.PrevRandao, BlockNumber: p.BlockNumber,
		GasLimit: p.GasLimit, GasUsed: p.GasUsed, Timestamp: p.Timestamp, ExtraData: bytes.Clone(p.ExtraData),
		BaseFeePerGas: p.BaseFeePerGas, BlockHash: p.BlockHash,
		TransactionsRoot: sp.HTR("PayloadTransactions", txsV(p.Transactions))}
	if s.Fork >= Capella {
		h.WithdrawalsRoot = sp.HTR("Withdrawals", withdrawalsV(p.Withdrawals))
	}
	if s.Fork >= Deneb {
		h.BlobGasUsed, h.ExcessBlobGas = p.BlobGasUsed, p.ExcessBlobGas
	}
	s.LatestExecutionPayloadHeader = h
}

// ---------------------------------------------------------------- capella: withdrawals, bls changes

func hasEth1Credential(v *Validator) bool {
	return v.WithdrawalCredentials[0] == ETH1_ADDRESS_WITHDRAWAL_PREFIX
}
func isFullyWithdrawable(v *Validator, balance, epoch uint64) bool {
	return hasEth1Credential(v) && v.WithdrawableEpoch <= epoch && balance > 0
}
func (sp *Spec) isPartiallyWithdrawable(v *Validator, balance uint64) bool {
	return hasEth1Credential(v) && v.EffectiveBalance == sp.P.MAX_EFFECTIVE_BALANCE && balance > sp.P.MAX_EFFECTIVE_BALANCE
}

func (sp *Spec) ExpectedWithdrawals(s *State) []Withdrawal {
	epoch := sp.CurrentEpoch(s)
	wi := s.NextWithdrawalIndex
	vi := s.NextWithdrawalValidatorIndex
	var out []Withdrawal
	bound := uint64(len(s.Validators))
	if sp.P.MAX_VALIDATORS_PER_WITHDRAWALS_SWEEP < bound {
		bound = sp.P.MAX_VALIDATORS_PER_WITHDRAWALS_SWEEP
	}
	for k := uint64(0); k < bound; k++ {
		v := &s.Validators[vi]
		bal := s.Balances[vi]
		var addr [20]byte
		copy(addr[:], v.WithdrawalCredentials[12:])
		if isFullyWithdrawable(v, bal, epoch) {
			out = append(out, Withdrawal{Index: wi, ValidatorIndex: vi, Address: addr, Amount: bal})
			wi = add(wi, 1)
		} else if sp.isPartiallyWithdrawable(v, bal) {
			out = append(out, Withdrawal{Index: wi, ValidatorIndex: vi, Address: addr, Amount: bal - sp.P.MAX_EFFECTIVE_BALANCE})
			wi = add(wi, 1)
		}
		if uint64(len(out)) == sp.P.MAX_WITHDRAWALS_PER_PAYLOAD {
			break
		}
		vi = (vi + 1) % uint64(len(s.Validators))
	}
	return out
}

func (sp *Spec) processWithdrawals(s *State, p *ExecutionPayload) {
	exp := sp.ExpectedWithdrawals(s)
	assert(len(p.Withdrawals) == len(exp), "withdrawals: count %d != expected %d", len(p.Withdrawals), len(exp))
	for i := range exp {
		assert(p.Withdrawals[i] == exp[i], "withdrawals: entry %d differs", i)
	}
	for _, w := range exp {
		DecreaseBalance(s, w.ValidatorIndex, w.Amount)
	}
	if len(exp) != 0 {
		s.NextWithdrawalIndex = add(exp[len(exp)-1].Index, 1)
	}
	n := uint64(len(s.Validators))
	if uint64(len(exp)) == sp.P.MAX_WITHDRAWALS_PER_PAYLOAD {
		s.NextWithdrawalValidatorIndex = (exp[len(exp)-1].ValidatorIndex + 1) % n
	} else {
		s.NextWithdrawalValidatorIndex = add(s.NextWithdrawalValidatorIndex, sp.P.MAX_VALIDATORS_PER_WITHDRAWALS_SWEEP) % n
	}
}

func (sp *Spec) processBLSToExecutionChange(s *State, sc *SignedBLSToExecutionChange) {
	c := &sc.Message
	assert(c.ValidatorIndex < uint64(len(s.Validators)), "bls change: validator index out of range")
	v := &s.Validators[c.ValidatorIndex]
	assert(v.WithdrawalCredentials[0] == BLS_WITHDRAWAL_PREFIX, "bls change: not a BLS credential")
	h := Hash(c.FromBLSPubkey[:])
	assert(bytes.Equal(v.WithdrawalCredentials[1:], h[1:]), "bls change: pubkey hash mismatch")
	domain := sp.ComputeDomain(DOMAIN_BLS_TO_EXECUTION_CHANGE, sp.P.ForkVersions[Phase0], s.GenesisValidatorsRoot)
	sr := sp.ComputeSigningRoot(sp.HTR("BLSToExecutionChange", c.V()), domain)
	assert(BLSVerify(c.FromBLSPubkey, sr, sc.Signature), "bls change: bad signature")
	var wc [32]byte
	wc[0] = ETH1_ADDRESS_WITHDRAWAL_PREFIX
	copy(wc[12:], c.ToAddress[:])
	v.WithdrawalCredentials = wc
}
