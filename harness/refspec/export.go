package refspec

// Exported single-step wrappers (each converts a spec-level invalidity into an error) used by the
// block builder and by per-operation checks.

func (sp *Spec) ApplyBlockHeader(s *State, b *Block) (err error) {
	defer catch(&err)
	sp.processBlockHeader(s, b)
	return nil
}
func (sp *Spec) ApplyRandao(s *State, body *Body) (err error) {
	defer catch(&err)
	sp.processRandao(s, body)
	return nil
}
func (sp *Spec) ApplyEth1Data(s *State, body *Body) (err error) {
	defer catch(&err)
	sp.processEth1Data(s, body)
	return nil
}
func (sp *Spec) ApplyProposerSlashing(s *State, op *ProposerSlashing) (err error) {
	defer catch(&err)
	sp.processProposerSlashing(s, op)
	return nil
}
func (sp *Spec) ApplyAttesterSlashing(s *State, op *AttesterSlashing) (err error) {
	defer catch(&err)
	sp.processAttesterSlashing(s, op)
	return nil
}
func (sp *Spec) ApplyAttestation(s *State, op *Attestation) (err error) {
	defer catch(&err)
	sp.processAttestation(s, op)
	return nil
}
func (sp *Spec) ApplyDeposit(s *State, op *Deposit) (err error) {
	defer catch(&err)
	sp.processDeposit(s, op)
	return nil
}
func (sp *Spec) ApplyVoluntaryExit(s *State, op *SignedVoluntaryExit) (err error) {
	defer catch(&err)
	sp.processVoluntaryExit(s, op)
	return nil
}
func (sp *Spec) ApplyBLSChange(s *State, op *SignedBLSToExecutionChange) (err error) {
	defer catch(&err)
	sp.processBLSToExecutionChange(s, op)
	return nil
}
func (sp *Spec) ApplySyncAggregate(s *State, op *SyncAggregate) (err error) {
	defer catch(&err)
	sp.processSyncAggregate(s, op)
	return nil
}
func (sp *Spec) ApplyWithdrawals(s *State, p *ExecutionPayload) (err error) {
	defer catch(&err)
	sp.processWithdrawals(s, p)
	return nil
}
func (sp *Spec) ApplyExecutionPayload(s *State, b *Block) (err error) {
	defer catch(&err)
	sp.processExecutionPayload(s, b)
	return nil
}
func (sp *Spec) ApplyEpoch(s *State) (err error) {
	defer catch(&err)
	sp.processEpoch(s)
	return nil
}
func (sp *Spec) IsInInactivityLeak(s *State) bool { return sp.isInInactivityLeak(s) }
func (sp *Spec) ParticipationFlagIndices(s *State, d *AttestationData, delay uint64) (flags []uint, err error) {
	defer catch(&err)
	return sp.participationFlagIndices(s, d, delay), nil
}
