// Package refspec is a naive, cache-free transliteration of the beacon-chain specification
// (phase0 … deneb) written for this verification task from /verif/spec_tables/spec_digest_*.md.
// It is the oracle for "equals the spec". It shares no code with zrnt: own structs, own SSZ
// (refssz), crypto/sha256; BLS through bls12-381-util (a dependency of zrnt, trusted on both sides).
package refspec

import (
	"encoding/hex"
	"encoding/json"
	"fmt"
	"os"
	"path/filepath"
	"sort"
	"strconv"
	"strings"
)

const FarFutureEpoch = ^uint64(0)

// Fork tags
const (
	Phase0 = iota
	Altair
	Bellatrix
	Capella
	Deneb
)

var ForkNames = []string{"phase0", "altair", "bellatrix", "capella", "deneb"}

// Config holds every preset/config constant by its spec name.
type Config struct {
	Name string            `json:"name"`
	U    map[string]uint64 `json:"u"`
	V    map[string]string `json:"v"` // 4-byte versions, hex without 0x
	p    *params
}

// params: typed copies of the constants the transition reads (filled lazily from U/V).
type params struct {
	MAX_COMMITTEES_PER_SLOT, TARGET_COMMITTEE_SIZE, MAX_VALIDATORS_PER_COMMITTEE, SHUFFLE_ROUND_COUNT                          uint64
	HYSTERESIS_QUOTIENT, HYSTERESIS_DOWNWARD_MULTIPLIER, HYSTERESIS_UPWARD_MULTIPLIER                                          uint64
	MIN_DEPOSIT_AMOUNT, MAX_EFFECTIVE_BALANCE, EFFECTIVE_BALANCE_INCREMENT                                                     uint64
	MIN_ATTESTATION_INCLUSION_DELAY, SLOTS_PER_EPOCH, MIN_SEED_LOOKAHEAD, MAX_SEED_LOOKAHEAD                                   uint64
	EPOCHS_PER_ETH1_VOTING_PERIOD, SLOTS_PER_HISTORICAL_ROOT, MIN_EPOCHS_TO_INACTIVITY_PENALTY                                 uint64
	EPOCHS_PER_HISTORICAL_VECTOR, EPOCHS_PER_SLASHINGS_VECTOR, HISTORICAL_ROOTS_LIMIT, VALIDATOR_REGISTRY_LIMIT                uint64
	BASE_REWARD_FACTOR, WHISTLEBLOWER_REWARD_QUOTIENT, PROPOSER_REWARD_QUOTIENT, INACTIVITY_PENALTY_QUOTIENT                   uint64
	MIN_SLASHING_PENALTY_QUOTIENT, PROPORTIONAL_SLASHING_MULTIPLIER                                                            uint64
	MAX_PROPOSER_SLASHINGS, MAX_ATTESTER_SLASHINGS, MAX_ATTESTATIONS, MAX_DEPOSITS, MAX_VOLUNTARY_EXITS                        uint64
	INACTIVITY_PENALTY_QUOTIENT_ALTAIR, MIN_SLASHING_PENALTY_QUOTIENT_ALTAIR, PROPORTIONAL_SLASHING_MULTIPLIER_ALTAIR          uint64
	SYNC_COMMITTEE_SIZE, EPOCHS_PER_SYNC_COMMITTEE_PERIOD                                                                      uint64
	INACTIVITY_PENALTY_QUOTIENT_BELLATRIX, MIN_SLASHING_PENALTY_QUOTIENT_BELLATRIX, PROPORTIONAL_SLASHING_MULTIPLIER_BELLATRIX uint64
	MAX_BLS_TO_EXECUTION_CHANGES, MAX_WITHDRAWALS_PER_PAYLOAD, MAX_VALIDATORS_PER_WITHDRAWALS_SWEEP                            uint64
	MAX_BLOB_COMMITMENTS_PER_BLOCK, MAX_BLOBS_PER_BLOCK, MAX_PER_EPOCH_ACTIVATION_CHURN_LIMIT                                  uint64
	MIN_GENESIS_ACTIVE_VALIDATOR_COUNT, MIN_GENESIS_TIME, GENESIS_DELAY                                                        uint64
	SECONDS_PER_SLOT, MIN_VALIDATOR_WITHDRAWABILITY_DELAY, SHARD_COMMITTEE_PERIOD                                              uint64
	INACTIVITY_SCORE_BIAS, INACTIVITY_SCORE_RECOVERY_RATE, EJECTION_BALANCE                                                    uint64
	MIN_PER_EPOCH_CHURN_LIMIT, CHURN_LIMIT_QUOTIENT                                                                            uint64
	ALTAIR_FORK_EPOCH, BELLATRIX_FORK_EPOCH, CAPELLA_FORK_EPOCH, DENEB_FORK_EPOCH                                              uint64
	ForkVersions                                                                                                               [5][4]byte
	ForkEpochs                                                                                                                 [5]uint64
}

// spec-level constants (not configurable)
const (
	BASE_REWARDS_PER_EPOCH                   = 4
	DEPOSIT_CONTRACT_TREE_DEPTH              = 32
	JUSTIFICATION_BITS_LENGTH                = 4
	MAX_RANDOM_BYTE                          = 255
	TIMELY_SOURCE_FLAG_INDEX                 = 0
	TIMELY_TARGET_FLAG_INDEX                 = 1
	TIMELY_HEAD_FLAG_INDEX                   = 2
	TIMELY_SOURCE_WEIGHT                     = 14
	TIMELY_TARGET_WEIGHT                     = 26
	TIMELY_HEAD_WEIGHT                       = 14
	SYNC_REWARD_WEIGHT                       = 2
	PROPOSER_WEIGHT                          = 8
	WEIGHT_DENOMINATOR                       = 64
	BLS_WITHDRAWAL_PREFIX                    = 0x00
	ETH1_ADDRESS_WITHDRAWAL_PREFIX           = 0x01
	VERSIONED_HASH_VERSION_KZG               = 0x01
	TARGET_AGGREGATORS_PER_COMMITTEE         = 16
	SYNC_COMMITTEE_SUBNET_COUNT              = 4
	TARGET_AGGREGATORS_PER_SYNC_SUBCOMMITTEE = 16
	ATTESTATION_SUBNET_COUNT                 = 64
)

var PARTICIPATION_FLAG_WEIGHTS = [3]uint64{TIMELY_SOURCE_WEIGHT, TIMELY_TARGET_WEIGHT, TIMELY_HEAD_WEIGHT}

var (
	DOMAIN_BEACON_PROPOSER                = [4]byte{0x00, 0, 0, 0}
	DOMAIN_BEACON_ATTESTER                = [4]byte{0x01, 0, 0, 0}
	DOMAIN_RANDAO                         = [4]byte{0x02, 0, 0, 0}
	DOMAIN_DEPOSIT                        = [4]byte{0x03, 0, 0, 0}
	DOMAIN_VOLUNTARY_EXIT                 = [4]byte{0x04, 0, 0, 0}
	DOMAIN_SELECTION_PROOF                = [4]byte{0x05, 0, 0, 0}
	DOMAIN_AGGREGATE_AND_PROOF            = [4]byte{0x06, 0, 0, 0}
	DOMAIN_SYNC_COMMITTEE                 = [4]byte{0x07, 0, 0, 0}
	DOMAIN_SYNC_COMMITTEE_SELECTION_PROOF = [4]byte{0x08, 0, 0, 0}
	DOMAIN_CONTRIBUTION_AND_PROOF         = [4]byte{0x09, 0, 0, 0}
	DOMAIN_BLS_TO_EXECUTION_CHANGE        = [4]byte{0x0a, 0, 0, 0}
)

func (c *Config) get(name string) uint64 {
	v, ok := c.U[name]
	if !ok {
		panic("refspec: configuration lacks " + name)
	}
	return v
}

func (c *Config) Version(name string) [4]byte {
	s, ok := c.V[name]
	if !ok {
		panic("refspec: configuration lacks " + name)
	}
	b, err := hex.DecodeString(strings.TrimPrefix(s, "0x"))
	if err != nil || len(b) != 4 {
		panic("refspec: bad version " + name)
	}
	var out [4]byte
	copy(out[:], b)
	return out
}

// P returns the typed parameter view (built once; call Invalidate after editing U/V).
func (c *Config) P() *params {
	if c.p != nil {
		return c.p
	}
	g := c.get
	p := &params{}
	p.MAX_COMMITTEES_PER_SLOT, p.TARGET_COMMITTEE_SIZE, p.MAX_VALIDATORS_PER_COMMITTEE, p.SHUFFLE_ROUND_COUNT = g("MAX_COMMITTEES_PER_SLOT"), g("TARGET_COMMITTEE_SIZE"), g("MAX_VALIDATORS_PER_COMMITTEE"), g("SHUFFLE_ROUND_COUNT")
	p.HYSTERESIS_QUOTIENT, p.HYSTERESIS_DOWNWARD_MULTIPLIER, p.HYSTERESIS_UPWARD_MULTIPLIER = g("HYSTERESIS_QUOTIENT"), g("HYSTERESIS_DOWNWARD_MULTIPLIER"), g("HYSTERESIS_UPWARD_MULTIPLIER")
	p.MIN_DEPOSIT_AMOUNT, p.MAX_EFFECTIVE_BALANCE, p.EFFECTIVE_BALANCE_INCREMENT = g("MIN_DEPOSIT_AMOUNT"), g("MAX_EFFECTIVE_BALANCE"), g("EFFECTIVE_BALANCE_INCREMENT")
	p.MIN_ATTESTATION_INCLUSION_DELAY, p.SLOTS_PER_EPOCH, p.MIN_SEED_LOOKAHEAD, p.MAX_SEED_LOOKAHEAD = g("MIN_ATTESTATION_INCLUSION_DELAY"), g("SLOTS_PER_EPOCH"), g("MIN_SEED_LOOKAHEAD"), g("MAX_SEED_LOOKAHEAD")
	p.EPOCHS_PER_ETH1_VOTING_PERIOD, p.SLOTS_PER_HISTORICAL_ROOT, p.MIN_EPOCHS_TO_INACTIVITY_PENALTY = g("EPOCHS_PER_ETH1_VOTING_PERIOD"), g("SLOTS_PER_HISTORICAL_ROOT"), g("MIN_EPOCHS_TO_INACTIVITY_PENALTY")
	p.EPOCHS_PER_HISTORICAL_VECTOR, p.EPOCHS_PER_SLASHINGS_VECTOR, p.HISTORICAL_ROOTS_LIMIT, p.VALIDATOR_REGISTRY_LIMIT = g("EPOCHS_PER_HISTORICAL_VECTOR"), g("EPOCHS_PER_SLASHINGS_VECTOR"), g("HISTORICAL_ROOTS_LIMIT"), g("VALIDATOR_REGISTRY_LIMIT")
	p.BASE_REWARD_FACTOR, p.WHISTLEBLOWER_REWARD_QUOTIENT, p.PROPOSER_REWARD_QUOTIENT, p.INACTIVITY_PENALTY_QUOTIENT = g("BASE_REWARD_FACTOR"), g("WHISTLEBLOWER_REWARD_QUOTIENT"), g("PROPOSER_REWARD_QUOTIENT"), g("INACTIVITY_PENALTY_QUOTIENT")
	p.MIN_SLASHING_PENALTY_QUOTIENT, p.PROPORTIONAL_SLASHING_MULTIPLIER = g("MIN_SLASHING_PENALTY_QUOTIENT"), g("PROPORTIONAL_SLASHING_MULTIPLIER")
	p.MAX_PROPOSER_SLASHINGS, p.MAX_ATTESTER_SLASHINGS, p.MAX_ATTESTATIONS, p.MAX_DEPOSITS, p.MAX_VOLUNTARY_EXITS = g("MAX_PROPOSER_SLASHINGS"), g("MAX_ATTESTER_SLASHINGS"), g("MAX_ATTESTATIONS"), g("MAX_DEPOSITS"), g("MAX_VOLUNTARY_EXITS")
	p.INACTIVITY_PENALTY_QUOTIENT_ALTAIR, p.MIN_SLASHING_PENALTY_QUOTIENT_ALTAIR, p.PROPORTIONAL_SLASHING_MULTIPLIER_ALTAIR = g("INACTIVITY_PENALTY_QUOTIENT_ALTAIR"), g("MIN_SLASHING_PENALTY_QUOTIENT_ALTAIR"), g("PROPORTIONAL_SLASHING_MULTIPLIER_ALTAIR")
	p.SYNC_COMMITTEE_SIZE, p.EPOCHS_PER_SYNC_COMMITTEE_PERIOD = g("SYNC_COMMITTEE_SIZE"), g("EPOCHS_PER_SYNC_COMMITTEE_PERIOD")
	p.INACTIVITY_PENALTY_QUOTIENT_BELLATRIX, p.MIN_SLASHING_PENALTY_QUOTIENT_BELLATRIX, p.PROPORTIONAL_SLASHING_MULTIPLIER_BELLATRIX = g("INACTIVITY_PENALTY_QUOTIENT_BELLATRIX"), g("MIN_SLASHING_PENALTY_QUOTIENT_BELLATRIX"), g("PROPORTIONAL_SLASHING_MULTIPLIER_BELLATRIX")
	p.MAX_BLS_TO_EXECUTION_CHANGES, p.MAX_WITHDRAWALS_PER_PAYLOAD, p.MAX_VALIDATORS_PER_WITHDRAWALS_SWEEP = g("MAX_BLS_TO_EXECUTION_CHANGES"), g("MAX_WITHDRAWALS_PER_PAYLOAD"), g("MAX_VALIDATORS_PER_WITHDRAWALS_SWEEP")
	p.MAX_BLOB_COMMITMENTS_PER_BLOCK, p.MAX_BLOBS_PER_BLOCK, p.MAX_PER_EPOCH_ACTIVATION_CHURN_LIMIT = g("MAX_BLOB_COMMITMENTS_PER_BLOCK"), g("MAX_BLOBS_PER_BLOCK"), g("MAX_PER_EPOCH_ACTIVATION_CHURN_LIMIT")
	p.MIN_GENESIS_ACTIVE_VALIDATOR_COUNT, p.MIN_GENESIS_TIME, p.GENESIS_DELAY = g("MIN_GENESIS_ACTIVE_VALIDATOR_COUNT"), g("MIN_GENESIS_TIME"), g("GENESIS_DELAY")
	p.SECONDS_PER_SLOT, p.MIN_VALIDATOR_WITHDRAWABILITY_DELAY, p.SHARD_COMMITTEE_PERIOD = g("SECONDS_PER_SLOT"), g("MIN_VALIDATOR_WITHDRAWABILITY_DELAY"), g("SHARD_COMMITTEE_PERIOD")
	p.INACTIVITY_SCORE_BIAS, p.INACTIVITY_SCORE_RECOVERY_RATE, p.EJECTION_BALANCE = g("INACTIVITY_SCORE_BIAS"), g("INACTIVITY_SCORE_RECOVERY_RATE"), g("EJECTION_BALANCE")
	p.MIN_PER_EPOCH_CHURN_LIMIT, p.CHURN_LIMIT_QUOTIENT = g("MIN_PER_EPOCH_CHURN_LIMIT"), g("CHURN_LIMIT_QUOTIENT")
	p.ALTAIR_FORK_EPOCH, p.BELLATRIX_FORK_EPOCH, p.CAPELLA_FORK_EPOCH, p.DENEB_FORK_EPOCH = g("ALTAIR_FORK_EPOCH"), g("BELLATRIX_FORK_EPOCH"), g("CAPELLA_FORK_EPOCH"), g("DENEB_FORK_EPOCH")
	p.ForkEpochs = [5]uint64{0, p.ALTAIR_FORK_EPOCH, p.BELLATRIX_FORK_EPOCH, p.CAPELLA_FORK_EPOCH, p.DENEB_FORK_EPOCH}
	p.ForkVersions = [5][4]byte{c.Version("GENESIS_FORK_VERSION"), c.Version("ALTAIR_FORK_VERSION"), c.Version("BELLATRIX_FORK_VERSION"), c.Version("CAPELLA_FORK_VERSION"), c.Version("DENEB_FORK_VERSION")}
	c.p = p
	return p
}

func (c *Config) Invalidate() { c.p = nil }

func (c *Config) Clone() *Config {
	o := &Config{Name: c.Name, U: map[string]uint64{}, V: map[string]string{}}
	for k, v := range c.U {
		o.U[k] = v
	}
	for k, v := range c.V {
		o.V[k] = v
	}
	return o
}

// Keys returns the numeric names sorted (deterministic iteration).
func (c *Config) Keys() []string {
	ks := make([]string, 0, len(c.U))
	for k := range c.U {
		ks = append(ks, k)
	}
	sort.Strings(ks)
	return ks
}

// ---------------------------------------------------------------- pinned official tables

type ConstTable struct {
	SpecConstants map[string]any               `json:"_spec_constants"`
	Mainnet       map[string]map[string]string `json:"mainnet"`
	Minimal       map[string]map[string]string `json:"minimal"`
}

func LoadConstTable() (*ConstTable, error) {
	root := os.Getenv("VERIF_ROOT")
	if root == "" {
		root = "/verif"
	}
	b, err := os.ReadFile(filepath.Join(root, "spec_tables", "constants_v1.5.0-beta.2.json"))
	if err != nil {
		return nil, err
	}
	var t ConstTable
	if err := json.Unmarshal(b, &t); err != nil {
		return nil, err
	}
	return &t, nil
}

var constTable *ConstTable

// Official returns the pinned v1.5.0-beta.2 configuration "mainnet" or "minimal".
func Official(name string) *Config {
	if constTable == nil {
		t, err := LoadConstTable()
		if err != nil {
			panic(fmt.Sprintf("refspec: cannot load constants table: %v", err))
		}
		constTable = t
	}
	src := constTable.Mainnet
	if name == "minimal" {
		src = constTable.Minimal
	} else if name != "mainnet" {
		panic("unknown official config " + name)
	}
	c := &Config{Name: name, U: map[string]uint64{}, V: map[string]string{}}
	for _, group := range src {
		for k, v := range group {
			if strings.HasSuffix(k, "_FORK_VERSION") {
				c.V[k] = strings.TrimPrefix(v, "0x")
				continue
			}
			if n, err := strconv.ParseUint(v, 10, 64); err == nil {
				c.U[k] = n
			}
		}
	}
	return c
}
