package refspec

import (
	"zrntverif/refssz"
)

type Root = [32]byte

type Fork struct {
	PreviousVersion, CurrentVersion [4]byte
	Epoch                           uint64
}

type Checkpoint struct {
	Epoch uint64
	Root  Root
}

type Validator struct {
	Pubkey                     [48]byte
	WithdrawalCredentials      [32]byte
	EffectiveBalance           uint64
	Slashed                    bool
	ActivationEligibilityEpoch uint64
	ActivationEpoch            uint64
	ExitEpoch                  uint64
	WithdrawableEpoch          uint64
}

type AttestationData struct {
	Slot, Index     uint64
	BeaconBlockRoot Root
	Source, Target  Checkpoint
}

type PendingAttestation struct {
	Bits           []bool
	Data           AttestationData
	InclusionDelay uint64
	ProposerIndex  uint64
}

type Eth1Data struct {
	DepositRoot  Root
	DepositCount uint64
	BlockHash    Root
}

type BeaconBlockHeader struct {
	Slot, ProposerIndex             uint64
	ParentRoot, StateRoot, BodyRoot Root
}

type SignedBeaconBlockHeader struct {
	Message   BeaconBlockHeader
	Signature [96]byte
}

type ProposerSlashing struct{ H1, H2 SignedBeaconBlockHeader }

type IndexedAttestation struct {
	Indices   []uint64
	Data      AttestationData
	Signature [96]byte
}

type AttesterSlashing struct{ A1, A2 IndexedAttestation }

type Attestation struct {
	Bits      []bool
	Data      AttestationData
	Signature [96]byte
}

type DepositData struct {
	Pubkey                [48]byte
	WithdrawalCredentials [32]byte
	Amount                uint64
	Signature             [96]byte
}

type Deposit struct {
	Proof [33]Root
	Data  DepositData
}

type VoluntaryExit struct{ Epoch, ValidatorIndex uint64 }

type SignedVoluntaryExit struct {
	Message   VoluntaryExit
	Signature [96]byte
}

type SyncAggregate struct {
	Bits      []bool
	Signature [96]byte
}

type SyncCommittee struct {
	Pubkeys         [][48]byte
	AggregatePubkey [48]byte
}

type Withdrawal struct {
	Index, ValidatorIndex uint64
	Address               [20]byte
	Amount                uint64
}

type ExecutionPayload struct {
	ParentHash    Root
	FeeRecipient  [20]byte
	StateRoot     Root
	ReceiptsRoot  Root
	LogsBloom     [256]byte
	PrevRandao    Root
	BlockNumber   uint64
	GasLimit      uint64
	GasUsed       uint64
	Timestamp     uint64
	ExtraData     []byte
	BaseFeePerGas refssz.U256
	BlockHash     Root
	Transactions  [][]byte
	Withdrawals   []Withdrawal // capella+
	BlobGasUsed   uint64       // deneb+
	ExcessBlobGas uint64       // deneb+
}

type ExecutionPayloadHeader struct {
	ParentHash       Root
	FeeRecipient     [20]byte
	StateRoot        Root
	ReceiptsRoot     Root
	LogsBloom        [256]byte
	PrevRandao       Root
	BlockNumber      uint64
	GasLimit         uint64
	GasUsed          uint64
	Timestamp        uint64
	ExtraData        []byte
	BaseFeePerGas    refssz.U256
	BlockHash        Root
	TransactionsRoot Root
	WithdrawalsRoot  Root   // capella+
	BlobGasUsed      uint64 // deneb+
	ExcessBlobGas    uint64 // deneb+
}

type BLSToExecutionChange struct {
	ValidatorIndex uint64
	FromBLSPubkey  [48]byte
	ToAddress      [20]byte
}

type SignedBLSToExecutionChange struct {
	Message   BLSToExecutionChange
	Signature [96]byte
}

type HistoricalSummary struct{ BlockSummaryRoot, StateSummaryRoot Root }

type Body struct {
	RandaoReveal      [96]byte
	Eth1Data          Eth1Data
	Graffiti          [32]byte
	ProposerSlashings []ProposerSlashing
	AttesterSlashings []AttesterSlashing
	Attestations      []Attestation
	Deposits          []Deposit
	VoluntaryExits    []SignedVoluntaryExit
	SyncAggregate     SyncAggregate                // altair+
	ExecutionPayload  ExecutionPayload             // bellatrix+
	BLSChanges        []SignedBLSToExecutionChange // capella+
	BlobCommitments   [][48]byte                   // deneb+
}

type Block struct {
	Fork          int // which fork's container this is
	Slot          uint64
	ProposerIndex uint64
	ParentRoot    Root
	StateRoot     Root
	Body          Body
}

type SignedBlock struct {
	Message   Block
	Signature [96]byte
}

// State is the superset of the phase0 … deneb BeaconState containers, tagged with its fork.
type State struct {
	Fork                         int
	GenesisTime                  uint64
	GenesisValidatorsRoot        Root
	Slot                         uint64
	ForkData                     Fork
	LatestBlockHeader            BeaconBlockHeader
	BlockRoots                   []Root
	StateRoots                   []Root
	HistoricalRoots              []Root
	Eth1Data                     Eth1Data
	Eth1DataVotes                []Eth1Data
	Eth1DepositIndex             uint64
	Validators                   []Validator
	Balances                     []uint64
	RandaoMixes                  []Root
	Slashings                    []uint64
	PreviousEpochAttestations    []PendingAttestation // phase0
	CurrentEpochAttestations     []PendingAttestation // phase0
	PreviousEpochParticipation   []uint8              // altair+
	CurrentEpochParticipation    []uint8              // altair+
	JustificationBits            [4]bool
	PreviousJustifiedCheckpoint  Checkpoint
	CurrentJustifiedCheckpoint   Checkpoint
	FinalizedCheckpoint          Checkpoint
	InactivityScores             []uint64               // altair+
	CurrentSyncCommittee         SyncCommittee          // altair+
	NextSyncCommittee            SyncCommittee          // altair+
	LatestExecutionPayloadHeader ExecutionPayloadHeader // bellatrix+
	NextWithdrawalIndex          uint64                 // capella+
	NextWithdrawalValidatorIndex uint64                 // capella+
	HistoricalSummaries          []HistoricalSummary    // capella+
}

// Copy deep-copies the state.
func (s *State) Copy() *State {
	o := *s
	o.BlockRoots = append([]Root{}, s.BlockRoots...)
	o.StateRoots = append([]Root{}, s.StateRoots...)
	o.HistoricalRoots = append([]Root{}, s.HistoricalRoots...)
	o.Eth1DataVotes = append([]Eth1Data{}, s.Eth1DataVotes...)
	o.Validators = append([]Validator{}, s.Validators...)
	o.Balances = append([]uint64{}, s.Balances...)
	o.RandaoMixes = append([]Root{}, s.RandaoMixes...)
	o.Slashings = append([]uint64{}, s.Slashings...)
	cpAtt := func(in []PendingAttestation) []PendingAttestation {
		out := make([]PendingAttestation, len(in))
		for i, a := range in {
			out[i] = a
			out[i].Bits = append([]bool{}, a.Bits...)
		}
		return out
	}
	o.PreviousEpochAttestations = cpAtt(s.PreviousEpochAttestations)
	o.CurrentEpochAttestations = cpAtt(s.CurrentEpochAttestations)
	o.PreviousEpochParticipation = append([]uint8{}, s.PreviousEpochParticipation...)
	o.CurrentEpochParticipation = append([]uint8{}, s.CurrentEpochParticipation...)
	o.InactivityScores = append([]uint64{}, s.InactivityScores...)
	o.CurrentSyncCommittee.Pubkeys = append([][48]byte{}, s.CurrentSyncCommittee.Pubkeys...)
	o.NextSyncCommittee.Pubkeys = append([][48]byte{}, s.NextSyncCommittee.Pubkeys...)
	o.LatestExecutionPayloadHeader.ExtraData = append([]byte{}, s.LatestExecutionPayloadHeader.ExtraData...)
	o.HistoricalSummaries = append([]HistoricalSummary{}, s.HistoricalSummaries...)
	return &o
}

// ---------------------------------------------------------------- conversion to refssz values

func b(x []byte) []byte { return append([]byte{}, x...) }

func rootsV(rs []Root) []any {
	out := make([]any, len(rs))
	for i := range rs {
		out[i] = b(rs[i][:])
	}
	return out
}

func u64sV(xs []uint64) []any {
	out := make([]any, len(xs))
	for i, x := range xs {
		out[i] = x
	}
	return out
}

func u8sV(xs []uint8) []any {
	out := make([]any, len(xs))
	for i, x := range xs {
		out[i] = uint64(x)
	}
	return out
}

func (c Checkpoint) V() any { return []any{c.Epoch, b(c.Root[:])} }
func (f Fork) V() any       { return []any{b(f.PreviousVersion[:]), b(f.CurrentVersion[:]), f.Epoch} }
func (v *Validator) V() any {
	return []any{b(v.Pubkey[:]), b(v.WithdrawalCredentials[:]), v.EffectiveBalance, v.Slashed,
		v.ActivationEligibilityEpoch, v.ActivationEpoch, v.ExitEpoch, v.WithdrawableEpoch}
}
func (d *AttestationData) V() any {
	return []any{d.Slot, d.Index, b(d.BeaconBlockRoot[:]), d.Source.V(), d.Target.V()}
}
func (p *PendingAttestation) V() any {
	return []any{append([]bool{}, p.Bits...), p.Data.V(), p.InclusionDelay, p.ProposerIndex}
}
func (e Eth1Data) V() any { return []any{b(e.DepositRoot[:]), e.DepositCount, b(e.BlockHash[:])} }
func (h *BeaconBlockHeader) V() any {
	return []any{h.Slot, h.ProposerIndex, b(h.ParentRoot[:]), b(h.StateRoot[:]), b(h.BodyRoot[:])}
}
func (h *SignedBeaconBlockHeader) V() any { return []any{h.Message.V(), b(h.Signature[:])} }
func (p *ProposerSlashing) V() any        { return []any{p.H1.V(), p.H2.V()} }
func (a *IndexedAttestation) V() any {
	return []any{u64sV(a.Indices), a.Data.V(), b(a.Signature[:])}
}
func (a *AttesterSlashing) V() any { return []any{a.A1.V(), a.A2.V()} }
func (a *Attestation) V() any {
	return []any{append([]bool{}, a.Bits...), a.Data.V(), b(a.Signature[:])}
}
func (d *DepositData) V() any {
	return []any{b(d.Pubkey[:]), b(d.WithdrawalCredentials[:]), d.Amount, b(d.Signature[:])}
}
func (d *DepositData) MessageV() any {
	return []any{b(d.Pubkey[:]), b(d.WithdrawalCredentials[:]), d.Amount}
}
func (d *Deposit) V() any {
	pr := make([]any, 33)
	for i := range d.Proof {
		pr[i] = b(d.Proof[i][:])
	}
	return []any{pr, d.Data.V()}
}
func (e VoluntaryExit) V() any        { return []any{e.Epoch, e.ValidatorIndex} }
func (e *SignedVoluntaryExit) V() any { return []any{e.Message.V(), b(e.Signature[:])} }
func (s *SyncAggregate) V() any       { return []any{append([]bool{}, s.Bits...), b(s.Signature[:])} }
func (s *SyncCommittee) V() any {
	pk := make([]any, len(s.Pubkeys))
	for i := range s.Pubkeys {
		pk[i] = b(s.Pubkeys[i][:])
	}
	return []any{pk, b(s.AggregatePubkey[:])}
}
func (w Withdrawal) V() any { return []any{w.Index, w.ValidatorIndex, b(w.Address[:]), w.Amount} }
func withdrawalsV(ws []Withdrawal) []any {
	out := make([]any, len(ws))
	for i := range ws {
		out[i] = ws[i].V()
	}
	return out
}
func txsV(txs [][]byte) []any {
	out := make([]any, len(txs))
	for i := range txs {
		out[i] = b(txs[i])
	}
	return out
}
func (p *ExecutionPayload) V(fork int) any {
	out := []any{b(p.ParentHash[:]), b(p.FeeRecipient[:]), b(p.StateRoot[:]), b(p.ReceiptsRoot[:]), b(p.LogsBloom[:]),
		b(p.PrevRandao[:]), p.BlockNumber, p.GasLimit, p.GasUsed, p.Timestamp, b(p.ExtraData), p.BaseFeePerGas,
		b(p.BlockHash[:]), txsV(p.Transactions)}
	if fork >= Capella {
		out = append(out, withdrawalsV(p.Withdrawals))
	}
	if fork >= Deneb {
		out = append(out, p.BlobGasUsed, p.ExcessBlobGas)
	}
	return out
}
func (p *ExecutionPayloadHeader) V(fork int) any {
	out := []any{b(p.ParentHash[:]), b(p.FeeRecipient[:]), b(p.StateRoot[:]), b(p.ReceiptsRoot[:]), b(p.LogsBloom[:]),
		b(p.PrevRandao[:]), p.BlockNumber, p.GasLimit, p.GasUsed, p.Timestamp, b(p.ExtraData), p.BaseFeePerGas,
		b(p.BlockHash[:]), b(p.TransactionsRoot[:])}
	if fork >= Capella {
		out = append(out, b(p.WithdrawalsRoot[:]))
	}
	if fork >= Deneb {
		out = append(out, p.BlobGasUsed, p.ExcessBlobGas)
	}
	return out
}
func (c *BLSToExecutionChange) V() any {
	return []any{c.ValidatorIndex, b(c.FromBLSPubkey[:]), b(c.ToAddress[:])}
}
func (c *SignedBLSToExecutionChange) V() any { return []any{c.Message.V(), b(c.Signature[:])} }
func (h HistoricalSummary) V() any {
	return []any{b(h.BlockSummaryRoot[:]), b(h.StateSummaryRoot[:])}
}

func (bd *Body) V(fork int) any {
	ps := make([]any, len(bd.ProposerSlashings))
	for i := range ps {
		ps[i] = bd.ProposerSlashings[i].V()
	}
	as := make([]any, len(bd.AttesterSlashings))
	for i := range as {
		as[i] = bd.AttesterSlashings[i].V()
	}
	at := make([]any, len(bd.Attestations))
	for i := range at {
		at[i] = bd.Attestations[i].V()
	}
	dp := make([]any, len(bd.Deposits))
	for i := range dp {
		dp[i] = bd.Deposits[i].V()
	}
	ex := make([]any, len(bd.VoluntaryExits))
	for i := range ex {
		ex[i] = bd.VoluntaryExits[i].V()
	}
	out := []any{b(bd.RandaoReveal[:]), bd.Eth1Data.V(), b(bd.Graffiti[:]), ps, as, at, dp, ex}
	if fork >= Altair {
		out = append(out, bd.SyncAggregate.V())
	}
	if fork >= Bellatrix {
		out = append(out, bd.ExecutionPayload.V(fork))
	}
	if fork >= Capella {
		ch := make([]any, len(bd.BLSChanges))
		for i := range ch {
			ch[i] = bd.BLSChanges[i].V()
		}
		out = append(out, ch)
	}
	if fork >= Deneb {
		cm := make([]any, len(bd.BlobCommitments))
		for i := range cm {
			cm[i] = b(bd.BlobCommitments[i][:])
		}
		out = append(out, cm)
	}
	return out
}

func (bl *Block) V() any {
	return []any{bl.Slot, bl.ProposerIndex, b(bl.ParentRoot[:]), b(bl.StateRoot[:]), bl.Body.V(bl.Fork)}
}
func (sb *SignedBlock) V() any { return []any{sb.Message.V(), b(sb.Signature[:])} }

func (s *State) V() any {
	votes := make([]any, len(s.Eth1DataVotes))
	for i := range votes {
		votes[i] = s.Eth1DataVotes[i].V()
	}
	vals := make([]any, len(s.Validators))
	for i := range vals {
		vals[i] = s.Validators[i].V()
	}
	out := []any{s.GenesisTime, b(s.GenesisValidatorsRoot[:]), s.Slot, s.ForkData.V(), s.LatestBlockHeader.V(),
		rootsV(s.BlockRoots), rootsV(s.StateRoots), rootsV(s.HistoricalRoots), s.Eth1Data.V(), votes,
		s.Eth1DepositIndex, vals, u64sV(s.Balances), rootsV(s.RandaoMixes), u64sV(s.Slashings)}
	if s.Fork == Phase0 {
		pa := make([]any, len(s.PreviousEpochAttestations))
		for i := range pa {
			pa[i] = s.PreviousEpochAttestations[i].V()
		}
		ca := make([]any, len(s.CurrentEpochAttestations))
		for i := range ca {
			ca[i] = s.CurrentEpochAttestations[i].V()
		}
		out = append(out, pa, ca)
	} else {
		out = append(out, u8sV(s.PreviousEpochParticipation), u8sV(s.CurrentEpochParticipation))
	}
	out = append(out, append([]bool{}, s.JustificationBits[:]...), s.PreviousJustifiedCheckpoint.V(),
		s.CurrentJustifiedCheckpoint.V(), s.FinalizedCheckpoint.V())
	if s.Fork >= Altair {
		out = append(out, u64sV(s.InactivityScores), s.CurrentSyncCommittee.V(), s.NextSyncCommittee.V())
	}
	if s.Fork >= Bellatrix {
		out = append(out, s.LatestExecutionPayloadHeader.V(s.Fork))
	}
	if s.Fork >= Capella {
		hs := make([]any, len(s.HistoricalSummaries))
		for i := range hs {
			hs[i] = s.HistoricalSummaries[i].V()
		}
		out = append(out, s.NextWithdrawalIndex, s.NextWithdrawalValidatorIndex, hs)
	}
	return out
}
