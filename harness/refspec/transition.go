package refspec

import (
	"sort"
)

// StateTransition is state_transition(state, signed_block, validate_result). On error the state
// must be discarded by the caller (it may be partially mutated, as in the spec).
func (sp *Spec) StateTransition(s *State, sb *SignedBlock, validate bool) (err error) {
	defer catch(&err)
	sp.processSlots(s, sb.Message.Slot)
	if validate {
		assert(sp.VerifyBlockSignature(s, sb), "invalid block signature")
	}
	sp.processBlock(s, &sb.Message)
	if validate {
		assert(sb.Message.StateRoot == sp.StateRoot(s), "block.state_root != hash_tree_root(state)")
	}
	return nil
}

// ProcessBlockOnly runs process_block without slots/signature/state-root checks.
func (sp *Spec) ProcessBlockOnly(s *State, b *Block) (err error) {
	defer catch(&err)
	sp.processBlock(s, b)
	return nil
}

func (sp *Spec) ProcessSlots(s *State, slot uint64) (err error) {
	defer catch(&err)
	sp.processSlots(s, slot)
	return nil
}

func (sp *Spec) VerifyBlockSignature(s *State, sb *SignedBlock) bool {
	proposer := &s.Validators[sb.Message.ProposerIndex] // IndexError -> invalid
	sr := sp.ComputeSigningRoot(sp.BlockRoot(&sb.Message), sp.GetDomainNow(s, DOMAIN_BEACON_PROPOSER))
	return BLSVerify(proposer.Pubkey, sr, sb.Signature)
}

func (sp *Spec) processSlots(s *State, slot uint64) {
	assert(s.Slot < slot, "process_slots: state.slot %d >= %d", s.Slot, slot)
	for s.Slot < slot {
		sp.processSlot(s)
		if (s.Slot+1)%sp.P.SLOTS_PER_EPOCH == 0 {
			sp.processEpoch(s)
		}
		s.Slot = add(s.Slot, 1)
		// fork upgrades, in fork order (coinciding fork epochs cascade at the same slot)
		if s.Slot%sp.P.SLOTS_PER_EPOCH == 0 {
			e := sp.EpochAtSlot(s.Slot)
			if s.Fork == Phase0 && e == sp.P.ALTAIR_FORK_EPOCH {
				sp.upgradeToAltair(s)
			}
			if s.Fork == Altair && e == sp.P.BELLATRIX_FORK_EPOCH {
				sp.upgradeToBellatrix(s)
			}
			if s.Fork == Bellatrix && e == sp.P.CAPELLA_FORK_EPOCH {
				sp.upgradeToCapella(s)
			}
			if s.Fork == Capella && e == sp.P.DENEB_FORK_EPOCH {
				sp.upgradeToDeneb(s)
			}
		}
	}
}

func (sp *Spec) processSlot(s *State) {
	prev := sp.StateRoot(s)
	s.StateRoots[s.Slot%sp.P.SLOTS_PER_HISTORICAL_ROOT] = prev
	if s.LatestBlockHeader.StateRoot == (Root{}) {
		s.LatestBlockHeader.StateRoot = prev
	}
	s.BlockRoots[s.Slot%sp.P.SLOTS_PER_HISTORICAL_ROOT] = sp.HeaderRoot(&s.LatestBlockHeader)
}

// ---------------------------------------------------------------- epoch processing

func (sp *Spec) processEpoch(s *State) {
	sp.processJustificationAndFinalization(s)
	if s.Fork >= Altair {
		sp.processInactivityUpdates(s)
	}
	sp.processRewardsAndPenalties(s)
	sp.processRegistryUpdates(s)
	sp.processSlashings(s)
	sp.processEth1DataReset(s)
	sp.processEffectiveBalanceUpdates(s)
	sp.processSlashingsReset(s)
	sp.processRandaoMixesReset(s)
	if s.Fork >= Capella {
		sp.processHistoricalSummariesUpdate(s)
	} else {
		sp.processHistoricalRootsUpdate(s)
	}
	if s.Fork >= Altair {
		sp.processParticipationFlagUpdates(s)
		sp.processSyncCommitteeUpdates(s)
	} else {
		sp.processParticipationRecordUpdates(s)
	}
}

// --- phase0 attestation matching

func (sp *Spec) matchingSourceAttestations(s *State, epoch uint64) []PendingAttestation {
	assert(epoch == sp.PreviousEpoch(s) || epoch == sp.CurrentEpoch(s), "matching attestations: bad epoch")
	if epoch == sp.CurrentEpoch(s) {
		return s.CurrentEpochAttestations
	}
	return s.PreviousEpochAttestations
}
func (sp *Spec) matchingTargetAttestations(s *State, epoch uint64) []PendingAttestation {
	var out []PendingAttestation
	src := sp.matchingSourceAttestations(s, epoch)
	if len(src) == 0 {
		return nil
	}
	br := sp.GetBlockRoot(s, epoch)
	for _, a := range src {
		if a.Data.Target.Root == br {
			out = append(out, a)
		}
	}
	return out
}
func (sp *Spec) matchingHeadAttestations(s *State, epoch uint64) []PendingAttestation {
	var out []PendingAttestation
	for _, a := range sp.matchingTargetAttestations(s, epoch) {
		if a.Data.BeaconBlockRoot == sp.GetBlockRootAtSlot(s, a.Data.Slot) {
			out = append(out, a)
		}
	}
	return out
}
func (sp *Spec) unslashedAttestingIndices(s *State, atts []PendingAttestation) map[uint64]bool {
	out := map[uint64]bool{}
	for i := range atts {
		for _, idx := range sp.AttestingIndices(s, &atts[i].Data, atts[i].Bits) {
			if !s.Validators[idx].Slashed {
				out[idx] = true
			}
		}
	}
	return out
}
func setToSorted(m map[uint64]bool) []uint64 {
	out := make([]uint64, 0, len(m))
	for k := range m {
		out = append(out, k)
	}
	sort.Slice(out, func(i, j int) bool { return out[i] < out[j] })
	return out
}
func (sp *Spec) attestingBalance(s *State, atts []PendingAttestation) uint64 {
	return sp.TotalBalance(s, setToSorted(sp.unslashedAttestingIndices(s, atts)))
}

func (sp *Spec) unslashedParticipatingIndices(s *State, flagIndex uint, epoch uint64) map[uint64]bool {
	assert(epoch == sp.PreviousEpoch(s) || epoch == sp.CurrentEpoch(s), "participating indices: bad epoch")
	part := s.PreviousEpochParticipation
	if epoch == sp.CurrentEpoch(s) {
		part = s.CurrentEpochParticipation
	}
	out := map[uint64]bool{}
	for _, i := range sp.ActiveIndices(s, epoch) {
		if part[i]&(1<<flagIndex) != 0 && !s.Validators[i].Slashed {
			out[i] = true
		}
	}
	return out
}

func (sp *Spec) processJustificationAndFinalization(s *State) {
	if sp.CurrentEpoch(s) <= 1 {
		return
	}
	var prevTarget, curTarget uint64
	if s.Fork == Phase0 {
		prevTarget = sp.attestingBalance(s, sp.matchingTargetAttestations(s, sp.PreviousEpoch(s)))
		curTarget = sp.attestingBalance(s, sp.matchingTargetAttestations(s, sp.CurrentEpoch(s)))
	} else {
		prevTarget = sp.TotalBalance(s, setToSorted(sp.unslashedParticipatingIndices(s, TIMELY_TARGET_FLAG_INDEX, sp.PreviousEpoch(s))))
		curTarget = sp.TotalBalance(s, setToSorted(sp.unslashedParticipatingIndices(s, TIMELY_TARGET_FLAG_INDEX, sp.CurrentEpoch(s))))
	}
	sp.weighJustificationAndFinalization(s, sp.TotalActiveBalance(s), prevTarget, curTarget)
}

func (sp *Spec) weighJustificationAndFinalization(s *State, totalActive, prevTarget, curTarget uint64) {
	prevEpoch, curEpoch := sp.PreviousEpoch(s), sp.CurrentEpoch(s)
	oldPrev, oldCur := s.PreviousJustifiedCheckpoint, s.CurrentJustifiedCheckpoint
	s.PreviousJustifiedCheckpoint = s.CurrentJustifiedCheckpoint
	bits := s.JustificationBits
	s.JustificationBits = [4]bool{false, bits[0], bits[1], bits[2]}
	if mul(prevTarget, 3) >= mul(totalActive, 2) {
		s.CurrentJustifiedCheckpoint = Checkpoint{Epoch: prevEpoch, Root: sp.GetBlockRoot(s, prevEpoch)}
		s.JustificationBits[1] = true
	}
	if mul(curTarget, 3) >= mul(totalActive, 2) {
		s.CurrentJustifiedCheckpoint = Checkpoint{Epoch: curEpoch, Root: sp.GetBlockRoot(s, curEpoch)}
		s.JustificationBits[0] = true
	}
	jb := s.JustificationBits
	if jb[1] && jb[2] && jb[3] && oldPrev.Epoch+3 == curEpoch {
		s.FinalizedCheckpoint = oldPrev
	}
	if jb[1] && jb[2] && oldPrev.Epoch+2 == curEpoch {
		s.FinalizedCheckpoint = oldPrev
	}
	if jb[0] && jb[1] && jb[2] && oldCur.Epoch+2 == curEpoch {
		s.FinalizedCheckpoint = oldCur
	}
	if jb[0] && jb[1] && oldCur.Epoch+1 == curEpoch {
		s.FinalizedCheckpoint = oldCur
	}
}

// --- rewards and penalties

func (sp *Spec) baseRewardPhase0(s *State, index uint64, totalBalance uint64) uint64 {
	return s.Validators[index].EffectiveBalance * sp.P.BASE_REWARD_FACTOR / IntegerSquareroot(totalBalance) / BASE_REWARDS_PER_EPOCH
}
func (sp *Spec) baseRewardPerIncrement(s *State) uint64 {
	return sp.P.EFFECTIVE_BALANCE_INCREMENT * sp.P.BASE_REWARD_FACTOR / IntegerSquareroot(sp.TotalActiveBalance(s))
}
func (sp *Spec) baseRewardAltair(s *State, index uint64) uint64 {
	return s.Validators[index].EffectiveBalance / sp.P.EFFECTIVE_BALANCE_INCREMENT * sp.baseRewardPerIncrement(s)
}
func (sp *Spec) finalityDelay(s *State) uint64 {
	return sub(sp.PreviousEpoch(s), s.FinalizedCheckpoint.Epoch)
}
func (sp *Spec) isInInactivityLeak(s *State) bool {
	return sp.finalityDelay(s) > sp.P.MIN_EPOCHS_TO_INACTIVITY_PENALTY
}
func (sp *Spec) eligibleValidatorIndices(s *State) []uint64 {
	prev := sp.PreviousEpoch(s)
	var out []uint64
	for i := range s.Validators {
		v := &s.Validators[i]
		if IsActive(v, prev) || (v.Slashed && prev+1 < v.WithdrawableEpoch) {
			out = append(out, uint64(i))
		}
	}
	return out
}

func (sp *Spec) attestationComponentDeltas(s *State, atts []PendingAttestation) (rewards, penalties []uint64) {
	n := len(s.Validators)
	rewards, penalties = make([]uint64, n), make([]uint64, n)
	total := sp.TotalActiveBalance(s)
	unslashed := sp.unslashedAttestingIndices(s, atts)
	attBal := sp.TotalBalance(s, setToSorted(unslashed))
	inc := sp.P.EFFECTIVE_BALANCE_INCREMENT
	for _, index := range sp.eligibleValidatorIndices(s) {
		br := sp.baseRewardPhase0(s, index, total)
		if unslashed[index] {
			if sp.isInInactivityLeak(s) {
				rewards[index] += br
			} else {
				rewards[index] += br * (attBal / inc) / (total / inc)
			}
		} else {
			penalties[index] += br
		}
	}
	return
}

func (sp *Spec) inclusionDelayDeltas(s *State) (rewards, penalties []uint64) {
	n := len(s.Validators)
	rewards, penalties = make([]uint64, n), make([]uint64, n)
	src := sp.matchingSourceAttestations(s, sp.PreviousEpoch(s))
	total := sp.TotalActiveBalance(s)
	// attesting indices per attestation, computed once per attestation (pure function of state)
	perAtt := make([]map[uint64]bool, len(src))
	for i := range src {
		perAtt[i] = map[uint64]bool{}
		for _, idx := range sp.AttestingIndices(s, &src[i].Data, src[i].Bits) {
			perAtt[i][idx] = true
		}
	}
	for _, index := range setToSorted(sp.unslashedAttestingIndices(s, src)) {
		best := -1
		for i := range src {
			if perAtt[i][index] && (best < 0 || src[i].InclusionDelay < src[best].InclusionDelay) {
				best = i
			}
		}
		a := &src[best]
		br := sp.baseRewardPhase0(s, index, total)
		pr := br / sp.P.PROPOSER_REWARD_QUOTIENT
		rewards[a.ProposerIndex] += pr
		rewards[index] += (br - pr) / a.InclusionDelay
	}
	return
}

func (sp *Spec) inactivityPenaltyDeltasPhase0(s *State) (rewards, penalties []uint64) {
	n := len(s.Validators)
	rewards, penalties = make([]uint64, n), make([]uint64, n)
	if sp.isInInactivityLeak(s) {
		total := sp.TotalActiveBalance(s)
		tgt := sp.unslashedAttestingIndices(s, sp.matchingTargetAttestations(s, sp.PreviousEpoch(s)))
		for _, index := range sp.eligibleValidatorIndices(s) {
			br := sp.baseRewardPhase0(s, index, total)
			penalties[index] += sub(BASE_REWARDS_PER_EPOCH*br, br/sp.P.PROPOSER_REWARD_QUOTIENT)
			if !tgt[index] {
				penalties[index] += s.Validators[index].EffectiveBalance * sp.finalityDelay(s) / sp.P.INACTIVITY_PENALTY_QUOTIENT
			}
		}
	}
	return
}

func (sp *Spec) flagIndexDeltas(s *State, flagIndex uint) (rewards, penalties []uint64) {
	n := len(s.Validators)
	rewards, penalties = make([]uint64, n), make([]uint64, n)
	prev := sp.PreviousEpoch(s)
	unslashed := sp.unslashedParticipatingIndices(s, flagIndex, prev)
	weight := PARTICIPATION_FLAG_WEIGHTS[flagIndex]
	upb := sp.TotalBalance(s, setToSorted(unslashed))
	upi := upb / sp.P.EFFECTIVE_BALANCE_INCREMENT
	activeInc := sp.TotalActiveBalance(s) / sp.P.EFFECTIVE_BALANCE_INCREMENT
	for _, index := range sp.eligibleValidatorIndices(s) {
		br := sp.baseRewardAltair(s, index)
		if unslashed[index] {
			if !sp.isInInactivityLeak(s) {
				rewards[index] += mul(mul(br, weight), upi) / (activeInc * WEIGHT_DENOMINATOR)
			}
		} else if flagIndex != TIMELY_HEAD_FLAG_INDEX {
			penalties[index] += br * weight / WEIGHT_DENOMINATOR
		}
	}
	return
}

func (sp *Spec) inactivityPenaltyDeltasAltair(s *State) (rewards, penalties []uint64) {
	n := len(s.Validators)
	rewards, penalties = make([]uint64, n), make([]uint64, n)
	tgt := sp.unslashedParticipatingIndices(s, TIMELY_TARGET_FLAG_INDEX, sp.PreviousEpoch(s))
	q := sp.P.INACTIVITY_PENALTY_QUOTIENT_ALTAIR
	if s.Fork >= Bellatrix {
		q = sp.P.INACTIVITY_PENALTY_QUOTIENT_BELLATRIX
	}
	for _, index := range sp.eligibleValidatorIndices(s) {
		if !tgt[index] {
			num := mul(s.Validators[index].EffectiveBalance, s.InactivityScores[index])
			penalties[index] += num / mul(sp.P.INACTIVITY_SCORE_BIAS, q)
		}
	}
	return
}

func (sp *Spec) processRewardsAndPenalties(s *State) {
	if sp.CurrentEpoch(s) == 0 {
		return
	}
	n := uint64(len(s.Validators))
	if s.Fork == Phase0 {
		prev := sp.PreviousEpoch(s)
		sr, spn := sp.attestationComponentDeltas(s, sp.matchingSourceAttestations(s, prev))
		tr, tp := sp.attestationComponentDeltas(s, sp.matchingTargetAttestations(s, prev))
		hr, hp := sp.attestationComponentDeltas(s, sp.matchingHeadAttestations(s, prev))
		ir, _ := sp.inclusionDelayDeltas(s)
		_, ip := sp.inactivityPenaltyDeltasPhase0(s)
		for i := uint64(0); i < n; i++ {
			IncreaseBalance(s, i, add(add(add(sr[i], tr[i]), hr[i]), ir[i]))
			DecreaseBalance(s, i, add(add(add(spn[i], tp[i]), hp[i]), ip[i]))
		}
		return
	}
	// altair+: one delta set after the other
	type delta struct{ r, p []uint64 }
	var ds []delta
	for f := uint(0); f < 3; f++ {
		r, p := sp.flagIndexDeltas(s, f)
		ds = append(ds, delta{r, p})
	}
	r, p := sp.inactivityPenaltyDeltasAltair(s)
	ds = append(ds, delta{r, p})
	for _, d := range ds {
		for i := uint64(0); i < n; i++ {
			IncreaseBalance(s, i, d.r[i])
			DecreaseBalance(s, i, d.p[i])
		}
	}
}

func (sp *Spec) processInactivityUpdates(s *State) {
	if sp.CurrentEpoch(s) == 0 {
		return
	}
	tgt := sp.unslashedParticipatingIndices(s, TIMELY_TARGET_FLAG_INDEX, sp.PreviousEpoch(s))
	leak := sp.isInInactivityLeak(s)
	for _, index := range sp.eligibleValidatorIndices(s) {
		if tgt[index] {
			if s.InactivityScores[index] > 0 {
				s.InactivityScores[index]--
			}
		} else {
			s.InactivityScores[index] = add(s.InactivityScores[index], sp.P.INACTIVITY_SCORE_BIAS)
		}
		if !leak {
			d := sp.P.INACTIVITY_SCORE_RECOVERY_RATE
			if s.InactivityScores[index] < d {
				d = s.InactivityScores[index]
			}
			s.InactivityScores[index] -= d
		}
	}
}

func (sp *Spec) processRegistryUpdates(s *State) {
	cur := sp.CurrentEpoch(s)
	for i := range s.Validators {
		v := &s.Validators[i]
		if sp.IsEligibleForActivationQueue(v) {
			v.ActivationEligibilityEpoch = cur + 1
		}
		if IsActive(v, cur) && v.EffectiveBalance <= sp.P.EJECTION_BALANCE {
			sp.InitiateValidatorExit(s, uint64(i))
		}
	}
	var queue []uint64
	for i := range s.Validators {
		if IsEligibleForActivation(s, &s.Validators[i]) {
			queue = append(queue, uint64(i))
		}
	}
	sort.SliceStable(queue, func(a, b int) bool {
		va, vb := &s.Validators[queue[a]], &s.Validators[queue[b]]
		if va.ActivationEligibilityEpoch != vb.ActivationEligibilityEpoch {
			return va.ActivationEligibilityEpoch < vb.ActivationEligibilityEpoch
		}
		return queue[a] < queue[b]
	})
	limit := sp.ChurnLimit(s)
	if s.Fork >= Deneb {
		limit = sp.ActivationChurnLimit(s)
	}
	for k, index := range queue {
		if uint64(k) >= limit {
			break
		}
		s.Validators[index].ActivationEpoch = sp.ActivationExitEpoch(cur)
	}
}

func (sp *Spec) processSlashings(s *State) {
	epoch := sp.CurrentEpoch(s)
	total := sp.TotalActiveBalance(s)
	sum := uint64(0)
	for _, x := range s.Slashings {
		sum = add(sum, x)
	}
	m := sp.P.PROPORTIONAL_SLASHING_MULTIPLIER
	if s.Fork >= Bellatrix {
		m = sp.P.PROPORTIONAL_SLASHING_MULTIPLIER_BELLATRIX
	} else if s.Fork == Altair {
		m = sp.P.PROPORTIONAL_SLASHING_MULTIPLIER_ALTAIR
	}
	adj := mul(sum, m)
	if total < adj {
		adj = total
	}
	inc := sp.P.EFFECTIVE_BALANCE_INCREMENT
	for i := range s.Validators {
		v := &s.Validators[i]
		if v.Slashed && epoch+sp.P.EPOCHS_PER_SLASHINGS_VECTOR/2 == v.WithdrawableEpoch {
			num := mul(v.EffectiveBalance/inc, adj)
			DecreaseBalance(s, uint64(i), num/total*inc)
		}
	}
}

func (sp *Spec) processEth1DataReset(s *State) {
	if (sp.CurrentEpoch(s)+1)%sp.P.EPOCHS_PER_ETH1_VOTING_PERIOD == 0 {
		s.Eth1DataVotes = nil
	}
}

func (sp *Spec) processEffectiveBalanceUpdates(s *State) {
	hi := sp.P.EFFECTIVE_BALANCE_INCREMENT / sp.P.HYSTERESIS_QUOTIENT
	down := hi * sp.P.HYSTERESIS_DOWNWARD_MULTIPLIER
	up := hi * sp.P.HYSTERESIS_UPWARD_MULTIPLIER
	for i := range s.Validators {
		v := &s.Validators[i]
		bal := s.Balances[i]
		if add(bal, down) < v.EffectiveBalance || add(v.EffectiveBalance, up) < bal {
			eb := bal - bal%sp.P.EFFECTIVE_BALANCE_INCREMENT
			if eb > sp.P.MAX_EFFECTIVE_BALANCE {
				eb = sp.P.MAX_EFFECTIVE_BALANCE
			}
			v.EffectiveBalance = eb
		}
	}
}

func (sp *Spec) processSlashingsReset(s *State) {
	s.Slashings[(sp.CurrentEpoch(s)+1)%sp.P.EPOCHS_PER_SLASHINGS_VECTOR] = 0
}

func (sp *Spec) processRandaoMixesReset(s *State) {
	cur := sp.CurrentEpoch(s)
	s.RandaoMixes[(cur+1)%sp.P.EPOCHS_PER_HISTORICAL_VECTOR] = sp.GetRandaoMix(s, cur)
}

func (sp *Spec) processHistoricalRootsUpdate(s *State) {
	if (sp.CurrentEpoch(s)+1)%(sp.P.SLOTS_PER_HISTORICAL_ROOT/sp.P.SLOTS_PER_EPOCH) == 0 {
		r := sp.HTR("HistoricalBatch", []any{rootsV(s.BlockRoots), rootsV(s.StateRoots)})
		assert(uint64(len(s.HistoricalRoots)) < sp.P.HISTORICAL_ROOTS_LIMIT, "historical_roots full")
		s.HistoricalRoots = append(s.HistoricalRoots, r)
	}
}

func (sp *Spec) processHistoricalSummariesUpdate(s *State) {
	if (sp.CurrentEpoch(s)+1)%(sp.P.SLOTS_PER_HISTORICAL_ROOT/sp.P.SLOTS_PER_EPOCH) == 0 {
		hs := HistoricalSummary{
			BlockSummaryRoot: sp.HTR("HistoricalBatchRoots", rootsV(s.BlockRoots)),
			StateSummaryRoot: sp.HTR("HistoricalBatchRoots", rootsV(s.StateRoots)),
		}
		assert(uint64(len(s.HistoricalSummaries)) < sp.P.HISTORICAL_ROOTS_LIMIT, "historical_summaries full")
		s.HistoricalSummaries = append(s.HistoricalSummaries, hs)
	}
}

func (sp *Spec) processParticipationRecordUpdates(s *State) {
	s.PreviousEpochAttestations = s.CurrentEpochAttestations
	s.CurrentEpochAttestations = nil
}

func (sp *Spec) processParticipationFlagUpdates(s *State) {
	s.PreviousEpochParticipation = s.CurrentEpochParticipation
	s.CurrentEpochParticipation = make([]uint8, len(s.Validators))
}

func (sp *Spec) processSyncCommitteeUpdates(s *State) {
	if (sp.CurrentEpoch(s)+1)%sp.P.EPOCHS_PER_SYNC_COMMITTEE_PERIOD == 0 {
		s.CurrentSyncCommittee = s.NextSyncCommittee
		s.NextSyncCommittee = sp.GetNextSyncCommittee(s)
	}
}

// ---------------------------------------------------------------- sync committees

func (sp *Spec) NextSyncCommitteeIndices(s *State) []uint64 {
	epoch := sp.CurrentEpoch(s) + 1
	active := sp.ActiveIndices(s, epoch)
	n := uint64(len(active))
	assert(n > 0, "no active validators for sync committee")
	seed := sp.GetSeed(s, epoch, DOMAIN_SYNC_COMMITTEE)
	var out []uint64
	for i := uint64(0); uint64(len(out)) < sp.P.SYNC_COMMITTEE_SIZE; i++ {
		candidate := active[sp.ComputeShuffledIndex(i%n, n, seed)]
		rb := Hash(cat(seed[:], u64le(i/32)))[i%32]
		if s.Validators[candidate].EffectiveBalance*MAX_RANDOM_BYTE >= sp.P.MAX_EFFECTIVE_BALANCE*uint64(rb) {
			out = append(out, candidate)
		}
	}
	return out
}

func (sp *Spec) GetNextSyncCommittee(s *State) SyncCommittee {
	idx := sp.NextSyncCommitteeIndices(s)
	pks := make([][48]byte, len(idx))
	for i, x := range idx {
		pks[i] = s.Validators[x].Pubkey
	}
	return SyncCommittee{Pubkeys: pks, AggregatePubkey: EthAggregatePubkeys(pks)}
}

// ---------------------------------------------------------------- fork upgrades

func (sp *Spec) participationFlagIndices(s *State, data *AttestationData, inclusionDelay uint64) []uint {
	jc := s.PreviousJustifiedCheckpoint
	if data.Target.Epoch == sp.CurrentEpoch(s) {
		jc = s.CurrentJustifiedCheckpoint
	}
	matchingSource := data.Source == jc
	matchingTarget := matchingSource && data.Target.Root == sp.GetBlockRoot(s, data.Target.Epoch)
	matchingHead := matchingTarget && data.BeaconBlockRoot == sp.GetBlockRootAtSlot(s, data.Slot)
	assert(matchingSource, "attestation source does not match justified checkpoint")
	var out []uint
	if matchingSource && inclusionDelay <= IntegerSquareroot(sp.P.SLOTS_PER_EPOCH) {
		out = append(out, TIMELY_SOURCE_FLAG_INDEX)
	}
	if s.Fork >= Deneb {
		if matchingTarget {
			out = append(out, TIMELY_TARGET_FLAG_INDEX)
		}
	} else if matchingTarget && inclusionDelay <= sp.P.SLOTS_PER_EPOCH {
		out = append(out, TIMELY_TARGET_FLAG_INDEX)
	}
	if matchingHead && inclusionDelay == sp.P.MIN_ATTESTATION_INCLUSION_DELAY {
		out = append(out, TIMELY_HEAD_FLAG_INDEX)
	}
	return out
}

func (sp *Spec) upgradeToAltair(s *State) {
	epoch := sp.CurrentEpoch(s)
	pending := s.PreviousEpochAttestations
	s.Fork = Altair
	s.ForkData = Fork{PreviousVersion: s.ForkData.CurrentVersion, CurrentVersion: sp.P.ForkVersions[Altair], Epoch: epoch}
	s.PreviousEpochAttestations, s.CurrentEpochAttestations = nil, nil
	n := len(s.Validators)
	s.PreviousEpochParticipation = make([]uint8, n)
	s.CurrentEpochParticipation = make([]uint8, n)
	s.InactivityScores = make([]uint64, n)
	// translate_participation
	for i := range pending {
		a := &pending[i]
		flags := sp.participationFlagIndices(s, &a.Data, a.InclusionDelay)
		for _, index := range sp.AttestingIndices(s, &a.Data, a.Bits) {
			for _, f := range flags {
				s.PreviousEpochParticipation[index] |= 1 << f
			}
		}
	}
	s.CurrentSyncCommittee = sp.GetNextSyncCommittee(s)
	s.NextSyncCommittee = sp.GetNextSyncCommittee(s)
}

func (sp *Spec) upgradeToBellatrix(s *State) {
	epoch := sp.CurrentEpoch(s)
	s.Fork = Bellatrix
	s.ForkData = Fork{PreviousVersion: s.ForkData.CurrentVersion, CurrentVersion: sp.P.ForkVersions[Bellatrix], Epoch: epoch}
	s.LatestExecutionPayloadHeader = ExecutionPayloadHeader{}
}

func (sp *Spec) upgradeToCapella(s *State) {
	epoch := sp.CurrentEpoch(s)
	s.Fork = Capella
	s.ForkData = Fork{PreviousVersion: s.ForkData.CurrentVersion, CurrentVersion: sp.P.ForkVersions[Capella], Epoch: epoch}
	s.LatestExecutionPayloadHeader.WithdrawalsRoot = Root{}
	s.NextWithdrawalIndex, s.NextWithdrawalValidatorIndex = 0, 0
	s.HistoricalSummaries = nil
}

func (sp *Spec) upgradeToDeneb(s *State) {
	epoch := sp.CurrentEpoch(s)
	s.Fork = Deneb
	s.ForkData = Fork{PreviousVersion: s.ForkData.CurrentVersion, CurrentVersion: sp.P.ForkVersions[Deneb], Epoch: epoch}
	s.LatestExecutionPayloadHeader.BlobGasUsed, s.LatestExecutionPayloadHeader.ExcessBlobGas = 0, 0
}
