// Package zb bridges between the harness' reference world (refspec/refssz) and the zrnt library:
// configurations, states and blocks cross as bytes or by constant name only.
package zb

import (
	"bytes"
	"fmt"
	"reflect"
	"sync"

	"github.com/protolambda/zrnt/eth2/beacon"
	"github.com/protolambda/zrnt/eth2/beacon/altair"
	"github.com/protolambda/zrnt/eth2/beacon/bellatrix"
	"github.com/protolambda/zrnt/eth2/beacon/capella"
	"github.com/protolambda/zrnt/eth2/beacon/common"
	"github.com/protolambda/zrnt/eth2/beacon/deneb"
	"github.com/protolambda/zrnt/eth2/beacon/phase0"
	"github.com/protolambda/zrnt/eth2/configs"
	"github.com/protolambda/ztyp/codec"
	"github.com/protolambda/ztyp/tree"
	"github.com/protolambda/ztyp/view"

	"zrntverif/refspec"
)

// ToSpec builds the library Spec for a reference configuration. For the official presets the
// library's OWN built-in configuration is used (so that an edited YAML constant shows up as a
// divergence from the reference, which reads the pinned table) with only the fork schedule and
// the names listed in `override` taken from cfg; custom presets set every constant by name.
// usePresets: the built-in presets have been USED (by a node that ran on them, by an earlier test) before a
// configuration is derived from them by copy-and-overwrite — the way every custom configuration is made.
// A helper that remembers something inside the Spec value must not carry it over to the copy.
var usePresets sync.Once

func ToSpec(cfg *refspec.Config, override ...string) *common.Spec {
	usePresets.Do(func() {
		for _, s := range []*common.Spec{configs.Mainnet, configs.Minimal} {
			s.SlotToEpoch(1000)
			s.EpochStartSlot(3)
			s.TimeToSlot(1_700_000_000, 1_600_000_000)
			s.TimeAtSlot(1000, 1_600_000_000)
			s.ComputeActivationExitEpoch(5)
			for _, sl := range []common.Slot{0, 1000, 1 << 40} {
				s.ForkVersion(sl)
			}
		}
	})
	var base common.Spec
	switch cfg.Name {
	case "mainnet":
		base = *configs.Mainnet
	case "minimal":
		base = *configs.Minimal
	default:
		base = *configs.Minimal
	}
	names := map[string]bool{}
	if cfg.Name == "mainnet" || cfg.Name == "minimal" {
		for _, n := range []string{"ALTAIR_FORK_EPOCH", "BELLATRIX_FORK_EPOCH", "CAPELLA_FORK_EPOCH", "DENEB_FORK_EPOCH", "ELECTRA_FORK_EPOCH", "FULU_FORK_EPOCH"} {
			names[n] = true
		}
		for _, n := range override {
			names[n] = true
		}
	} else {
		for k := range cfg.U {
			names[k] = true
		}
		for k := range cfg.V {
			names[k] = true
		}
	}
	rv := reflect.ValueOf(&base).Elem()
	var walk func(v reflect.Value)
	walk = func(v reflect.Value) {
		t := v.Type()
		for i := 0; i < t.NumField(); i++ {
			f := t.Field(i)
			fv := v.Field(i)
			if f.Anonymous && fv.Kind() == reflect.Struct {
				walk(fv)
				continue
			}
			if !names[f.Name] {
				continue
			}
			switch fv.Kind() {
			case reflect.Uint64, reflect.Uint8, reflect.Uint32, reflect.Uint16:
				if u, ok := cfg.U[f.Name]; ok {
					fv.SetUint(u)
				}
			case reflect.Array:
				if fv.Len() == 4 {
					if _, ok := cfg.V[f.Name]; ok {
						ver := cfg.Version(f.Name)
						for k := 0; k < 4; k++ {
							fv.Index(k).SetUint(uint64(ver[k]))
						}
					}
				}
			}
		}
	}
	walk(rv)
	return &base
}

func ForkOfState(s common.BeaconState) int {
	if u, ok := s.(*beacon.StandardUpgradeableBeaconState); ok {
		s = u.BeaconState
	}
	switch s.(type) {
	case *phase0.BeaconStateView:
		return refspec.Phase0
	case *altair.BeaconStateView:
		return refspec.Altair
	case *bellatrix.BeaconStateView:
		return refspec.Bellatrix
	case *capella.BeaconStateView:
		return refspec.Capella
	case *deneb.BeaconStateView:
		return refspec.Deneb
	}
	return -1
}

// LoadState decodes SSZ bytes into the library's tree-backed state of the given fork.
func LoadState(spec *common.Spec, fork int, b []byte) (common.BeaconState, error) {
	dr := codec.NewDecodingReader(bytes.NewReader(b), uint64(len(b)))
	switch fork {
	case refspec.Phase0:
		return phase0.AsBeaconStateView(phase0.BeaconStateType(spec).Deserialize(dr))
	case refspec.Altair:
		return altair.AsBeaconStateView(altair.BeaconStateType(spec).Deserialize(dr))
	case refspec.Bellatrix:
		return bellatrix.AsBeaconStateView(bellatrix.BeaconStateType(spec).Deserialize(dr))
	case refspec.Capella:
		return capella.AsBeaconStateView(capella.BeaconStateType(spec).Deserialize(dr))
	case refspec.Deneb:
		return deneb.AsBeaconStateView(deneb.BeaconStateType(spec).Deserialize(dr))
	}
	return nil, fmt.Errorf("unknown fork %d", fork)
}

func Upgradeable(s common.BeaconState) *beacon.StandardUpgradeableBeaconState {
	if u, ok := s.(*beacon.StandardUpgradeableBeaconState); ok {
		return u
	}
	return &beacon.StandardUpgradeableBeaconState{BeaconState: s}
}

type serializable interface {
	Serialize(w *codec.EncodingWriter) error
}

// StateBytes serializes a library state.
func StateBytes(s common.BeaconState) ([]byte, error) {
	if u, ok := s.(*beacon.StandardUpgradeableBeaconState); ok {
		s = u.BeaconState
	}
	v, ok := s.(view.View)
	if !ok {
		return nil, fmt.Errorf("state %T is not a view", s)
	}
	var buf bytes.Buffer
	if err := v.Serialize(codec.NewEncodingWriter(&buf)); err != nil {
		return nil, err
	}
	return buf.Bytes(), nil
}

func StateRoot(s common.BeaconState) [32]byte {
	return s.HashTreeRoot(tree.GetHashFn())
}

// NewSignedBlock allocates the library's signed block container of a fork.
func NewSignedBlock(fork int) beacon.OpaqueBlock {
	switch fork {
	case refspec.Phase0:
		return new(phase0.SignedBeaconBlock)
	case refspec.Altair:
		return new(altair.SignedBeaconBlock)
	case refspec.Bellatrix:
		return new(bellatrix.SignedBeaconBlock)
	case refspec.Capella:
		return new(capella.SignedBeaconBlock)
	case refspec.Deneb:
		return new(deneb.SignedBeaconBlock)
	}
	return nil
}

// DecodeBlock decodes signed-block bytes with the fork's container and wraps it in the
// library's own envelope.
func DecodeBlock(spec *common.Spec, fork int, b []byte, digest common.ForkDigest) (*common.BeaconBlockEnvelope, beacon.OpaqueBlock, error) {
	blk := NewSignedBlock(fork)
	if blk == nil {
		return nil, nil, fmt.Errorf("unknown fork %d", fork)
	}
	if err := blk.Deserialize(spec, codec.NewDecodingReader(bytes.NewReader(b), uint64(len(b)))); err != nil {
		return nil, nil, err
	}
	return blk.Envelope(spec, digest), blk, nil
}

func SerializeSpecObj(spec *common.Spec, o common.SpecObj) ([]byte, error) {
	var buf bytes.Buffer
	if err := o.Serialize(spec, codec.NewEncodingWriter(&buf)); err != nil {
		return nil, err
	}
	return buf.Bytes(), nil
}
