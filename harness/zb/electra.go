package zb

import (
	"bytes"

	"github.com/protolambda/zrnt/eth2/beacon"
	"github.com/protolambda/zrnt/eth2/beacon/common"
	"github.com/protolambda/zrnt/eth2/beacon/electra"
	"github.com/protolambda/ztyp/codec"

	"zrntverif/refspec"
)

// Electra is the fork tag after refspec.Deneb. The reference transition (refspec) stops at deneb;
// the schema table (refssz) and the library both know electra's containers, which is all that the
// encoding / accessor checks need.
const Electra = refspec.Deneb + 1

// ForkNamesX is refspec.ForkNames extended with electra.
var ForkNamesX = append(append([]string{}, refspec.ForkNames...), "electra")

// StateTypeNameX names the schema-table container of a fork's state (phase0 … electra).
func StateTypeNameX(fork int) string { return ForkNamesX[fork] + ".BeaconState" }

// LoadStateX is LoadState for phase0 … electra.
func LoadStateX(spec *common.Spec, fork int, b []byte) (common.BeaconState, error) {
	if fork == Electra {
		dr := codec.NewDecodingReader(bytes.NewReader(b), uint64(len(b)))
		return electra.AsBeaconStateView(electra.BeaconStateType(spec).Deserialize(dr))
	}
	return LoadState(spec, fork, b)
}

// ForkOfStateX is ForkOfState for phase0 … electra.
func ForkOfStateX(s common.BeaconState) int {
	if u, ok := s.(*beacon.StandardUpgradeableBeaconState); ok {
		s = u.BeaconState
	}
	if _, ok := s.(*electra.BeaconStateView); ok {
		return Electra
	}
	return ForkOfState(s)
}
