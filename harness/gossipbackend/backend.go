package gossipbackend

import (
	"context"
	"fmt"
	"time"

	"github.com/protolambda/zrnt/eth2/beacon"
	"github.com/protolambda/zrnt/eth2/beacon/common"
	"github.com/protolambda/zrnt/eth2/gossipval"
)

// Call is one logged Seen*/Mark* call.
type Call struct {
	Fn   string   `json:"fn"`
	Args []uint64 `json:"args,omitempty"`
	Root string   `json:"root,omitempty"`
	Ret  bool     `json:"ret,omitempty"`
	Mark bool     `json:"mark,omitempty"`
}

func (c Call) Key() string { return fmt.Sprintf("%v|%s", c.Args, c.Root) }

// Backend implements every validator backend interface of eth2/gossipval over a View, with a
// scripted clock (milliseconds since genesis) and seen-caches whose every call is logged.
type Backend struct {
	V         *View
	ClockMs   int64
	BadBlocks map[common.Root]bool
	Calls     []Call
	seen      map[string]bool
}

func NewBackend(v *View, clockMs int64) *Backend {
	return &Backend{V: v, ClockMs: clockMs, BadBlocks: map[common.Root]bool{}, seen: map[string]bool{}}
}

// Marks returns the Mark* calls logged since position `from`.
func (b *Backend) Marks(from int) []Call {
	var out []Call
	for _, c := range b.Calls[from:] {
		if c.Mark {
			out = append(out, c)
		}
	}
	return out
}

func (b *Backend) Spec() *common.Spec { return b.V.Spec }

// SlotAfter: the slot at (clock + delta); clips on genesis.
func (b *Backend) SlotAfter(delta time.Duration) common.Slot {
	t := b.ClockMs + delta.Milliseconds()
	if t < 0 {
		return 0
	}
	return common.Slot(uint64(t) / (uint64(b.V.Spec.SECONDS_PER_SLOT) * 1000))
}

func (b *Backend) GenesisValidatorsRoot() common.Root { return b.V.genesisInfo.ValidatorsRoot }
func (b *Backend) Chain() beacon.Chain                { return b.V }

func (b *Backend) HeadInfo(ctx context.Context) (beacon.ChainEntry, *common.EpochsContext, common.BeaconState, error) {
	return gossipval.RetrieveHeadInfo(ctx, b.V)
}

// GetDomain: the fork version in force at the epoch (the chain's fork schedule), so that messages of
// any epoch of the propagation window get the domain their signer's state had.
func (b *Backend) GetDomain(typ common.BLSDomainType, epoch common.Epoch) (common.BLSDomain, error) {
	slot, err := b.V.Spec.EpochStartSlot(epoch)
	if err != nil {
		return common.BLSDomain{}, err
	}
	return common.ComputeDomain(typ, b.V.Spec.ForkVersion(slot), b.V.genesisInfo.ValidatorsRoot), nil
}

func (b *Backend) IsBadBlock(root common.Root) bool { return b.BadBlocks[root] }

func (b *Backend) query(fn string, root string, args ...uint64) bool {
	c := Call{Fn: fn, Args: args, Root: root}
	c.Ret = b.seen[fn+"|"+c.Key()]
	b.Calls = append(b.Calls, c)
	return c.Ret
}

func (b *Backend) mark(fn string, root string, args ...uint64) {
	c := Call{Fn: fn, Args: args, Root: root, Mark: true}
	b.seen[fn+"|"+c.Key()] = true
	b.Calls = append(b.Calls, c)
}

func (b *Backend) SeenBlock(slot common.Slot, proposer common.ValidatorIndex) bool {
	return b.query("Block", "", uint64(slot), uint64(proposer))
}
func (b *Backend) MarkBlock(slot common.Slot, proposer common.ValidatorIndex) {
	b.mark("Block", "", uint64(slot), uint64(proposer))
}

func (b *Backend) SeenAttestation(targetEpoch common.Epoch, voter common.ValidatorIndex) bool {
	return b.query("Attestation", "", uint64(targetEpoch), uint64(voter))
}
func (b *Backend) MarkAttestation(targetEpoch common.Epoch, voter common.ValidatorIndex) {
	b.mark("Attestation", "", uint64(targetEpoch), uint64(voter))
}

func (b *Backend) SeenAggregate(aggRoot common.Root) bool {
	return b.query("Aggregate", aggRoot.String())
}
func (b *Backend) MarkAggregate(aggRoot common.Root) { b.mark("Aggregate", aggRoot.String()) }

func (b *Backend) SeenAggregator(targetEpoch common.Epoch, aggregator common.ValidatorIndex) bool {
	return b.query("Aggregator", "", uint64(targetEpoch), uint64(aggregator))
}
func (b *Backend) MarkAggregator(targetEpoch common.Epoch, aggregator common.ValidatorIndex) {
	b.mark("Aggregator", "", uint64(targetEpoch), uint64(aggregator))
}

func (b *Backend) SeenExit(index common.ValidatorIndex) bool {
	return b.query("Exit", "", uint64(index))
}
func (b *Backend) MarkExit(index common.ValidatorIndex) { b.mark("Exit", "", uint64(index)) }

func (b *Backend) SeenProposerSlashing(proposer common.ValidatorIndex) bool {
	return b.query("ProposerSlashing", "", uint64(proposer))
}
func (b *Backend) MarkProposerSlashing(index common.ValidatorIndex) {
	b.mark("ProposerSlashing", "", uint64(index))
}

// AttesterSlashableAllSeen: true iff every index was marked before (vacuously true for none).
func (b *Backend) AttesterSlashableAllSeen(indices []common.ValidatorIndex) bool {
	args := make([]uint64, len(indices))
	all := true
	for i, x := range indices {
		args[i] = uint64(x)
		if !b.seen[fmt.Sprintf("AttesterSlashed|%d", x)] {
			all = false
		}
	}
	b.Calls = append(b.Calls, Call{Fn: "AttesterSlashing", Args: args, Ret: all})
	return all
}
func (b *Backend) MarkAttesterSlashings(indices []common.ValidatorIndex) {
	args := make([]uint64, len(indices))
	for i, x := range indices {
		args[i] = uint64(x)
		b.seen[fmt.Sprintf("AttesterSlashed|%d", x)] = true
	}
	b.Calls = append(b.Calls, Call{Fn: "AttesterSlashing", Args: args, Mark: true})
}

func (b *Backend) SeenSyncCommMsg(validator common.ValidatorIndex, slot common.Slot, subnet uint64) bool {
	return b.query("SyncCommMsg", "", uint64(validator), uint64(slot), subnet)
}
func (b *Backend) MarkSyncCommMsg(validator common.ValidatorIndex, slot common.Slot, subnet uint64) {
	b.mark("SyncCommMsg", "", uint64(validator), uint64(slot), subnet)
}

func (b *Backend) SeenContribution(aggregator common.ValidatorIndex, slot common.Slot, subnet uint64) bool {
	return b.query("Contribution", "", uint64(aggregator), uint64(slot), subnet)
}
func (b *Backend) MarkContribution(aggregator common.ValidatorIndex, slot common.Slot, subnet uint64) {
	b.mark("Contribution", "", uint64(aggregator), uint64(slot), subnet)
}

var (
	_ gossipval.BeaconBlockValBackend         = (*Backend)(nil)
	_ gossipval.AttestationValBackend         = (*Backend)(nil)
	_ gossipval.AggregatesValBackend          = (*Backend)(nil)
	_ gossipval.VoluntaryExitValBackend       = (*Backend)(nil)
	_ gossipval.ProposerSlashingValBackend    = (*Backend)(nil)
	_ gossipval.AttesterSlashingValBackend    = (*Backend)(nil)
	_ gossipval.SyncCommitteeSubnetValBackend = (*Backend)(nil)
	_ gossipval.SyncContribAndProofValBackend = (*Backend)(nil)
)
