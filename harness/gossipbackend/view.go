// Package gossipbackend is a concrete in-memory chain backend for the gossip validators of
// eth2/gossipval: a block TREE (trunk, side branches, finalized point) recorded from sim lock-step
// runs, exposed through beacon.Chain / beacon.ChainEntry, plus a per-message Backend carrying the
// scripted clock and the seen-caches (every Seen*/Mark* call is logged).
//
// The states are the library's own (CopyState + epc.Clone at every step); they are compared with the
// reference at every step and the view is dropped when they differ (other properties' subject).
package gossipbackend

import (
	"context"
	"errors"
	"fmt"
	"sync"

	"github.com/protolambda/zrnt/eth2/beacon"
	"github.com/protolambda/zrnt/eth2/beacon/common"
	"github.com/protolambda/ztyp/tree"

	"zrntverif/refspec"
	"zrntverif/sim"
	"zrntverif/zb"
)

// SlotPlan is one slot of a chain recipe.
type SlotPlan struct {
	Empty     bool   `json:"empty,omitempty"`
	Seed      uint64 `json:"seed"`
	Exits     int    `json:"exits,omitempty"`
	PropSlash int    `json:"prop_slash,omitempty"`
	AttSlash  int    `json:"att_slash,omitempty"`
}

// BranchCase: a side branch grown from the trunk's post-state of slot ForkSlot (0 = genesis).
type BranchCase struct {
	ForkSlot uint64     `json:"fork_slot"`
	Slots    []SlotPlan `json:"slots"`
}

// ViewCase is the JSON-serialisable recipe of a chain view.
type ViewCase struct {
	Config   sim.ConfigCase  `json:"config"`
	Genesis  sim.GenesisCase `json:"genesis"`
	Trunk    []SlotPlan      `json:"trunk"` // Trunk[i] is slot i+1
	Branches []BranchCase    `json:"branches,omitempty"`
	// Anchored: the RECEIVING node was checkpoint-synced: it knows the finalized block and what descends from it,
	// nothing before it (senders know the whole tree)
	Anchored bool `json:"anchored,omitempty"`
}

// Record is the reference-side description of one registered entry (what gossipmodel consumes).
type Record struct {
	Slot       uint64
	IsBlock    bool
	BlockRoot  refspec.Root // latest block root at this point
	ParentRoot refspec.Root // parent of BlockRoot
	Ref        *refspec.State
	Branch     int  // 0 = trunk
	Head       bool // the view's head entry (last trunk step)
	Signed     *refspec.SignedBlock
}

// Entry implements beacon.ChainEntry.
type Entry struct {
	step       common.Step
	blockRoot  common.Root
	parentRoot common.Root
	stateRoot  common.Root
	state      *beacon.StandardUpgradeableBeaconState
	epc        *common.EpochsContext
	Branch     int
}

func (e *Entry) Step() common.Step                { return e.step }
func (e *Entry) BlockRoot() (common.Root, error)  { return e.blockRoot, nil }
func (e *Entry) ParentRoot() (common.Root, error) { return e.parentRoot, nil }
func (e *Entry) StateRoot() (common.Root, error)  { return e.stateRoot, nil }
func (e *Entry) EpochsContext(ctx context.Context) (*common.EpochsContext, error) {
	if err := ctx.Err(); err != nil {
		return nil, err
	}
	return e.epc, nil
}
func (e *Entry) State(ctx context.Context) (common.BeaconState, error) {
	if err := ctx.Err(); err != nil {
		return nil, err
	}
	return e.state, nil
}

type rootSlot struct {
	root common.Root
	slot common.Slot
}

// View is the recorded tree. Immutable after Build (Towards memoises derived empty-slot entries).
type View struct {
	Spec    *common.Spec
	Lock    *sim.Lock // trunk head lock (Envelope conversion, KeyOf, Sp)
	Records []Record

	entries     []*Entry
	byBlock     map[common.Root]*Entry
	byBlockSlot map[rootSlot]*Entry
	byStateRoot map[common.Root]*Entry
	children    map[common.Root][]common.Root
	canon       map[common.Step]*Entry
	head        *Entry
	genesis     *Entry
	fin, just   common.Checkpoint
	genesisInfo beacon.GenesisInfo

	mu      sync.Mutex
	derived map[rootSlot]*Entry
}

func latestBlockRoot(sp *refspec.Spec, st *refspec.State) refspec.Root {
	h := st.LatestBlockHeader
	if h.StateRoot == (refspec.Root{}) {
		h.StateRoot = sp.StateRoot(st)
	}
	return sp.HeaderRoot(&h)
}

// ErrDiscard: the library diverged from the reference while the view was built (C01/C02's subject).
var ErrDiscard = errors.New("library state differs from the reference")

type builder struct {
	v        *View
	ctx      context.Context
	recIndex map[rootSlot]int
	lastRec  int // record index of the last trunk step
}

func (b *builder) register(l *sim.Lock, slot uint64, isBlock bool, blockRoot, parentRoot refspec.Root, ref *refspec.State, branch int, sb *refspec.SignedBlock) error {
	key := rootSlot{common.Root(blockRoot), common.Slot(slot)}
	if ex, ok := b.v.byBlockSlot[key]; ok {
		// same (root, slot) reached along another branch: identical state. The trunk claims it.
		if branch == 0 {
			ex.Branch = 0
			b.v.canon[ex.step] = ex
			b.v.Records[b.recIndex[key]].Branch = 0
			b.lastRec = b.recIndex[key]
		}
		return nil
	}
	cp, err := l.Lib.BeaconState.CopyState()
	if err != nil {
		return err
	}
	st := zb.Upgradeable(cp)
	e := &Entry{step: common.AsStep(common.Slot(slot), isBlock), blockRoot: common.Root(blockRoot), parentRoot: common.Root(parentRoot),
		stateRoot: st.HashTreeRoot(tree.GetHashFn()), state: st, epc: l.Epc.Clone(), Branch: branch}
	b.v.entries = append(b.v.entries, e)
	b.v.byBlockSlot[key] = e
	b.v.byStateRoot[e.stateRoot] = e
	if isBlock {
		b.v.byBlock[e.blockRoot] = e
		b.v.children[e.parentRoot] = append(b.v.children[e.parentRoot], e.blockRoot)
	}
	if branch == 0 {
		b.v.canon[e.step] = e
	}
	b.recIndex[key] = len(b.v.Records)
	if branch == 0 {
		b.lastRec = len(b.v.Records)
	}
	b.v.Records = append(b.v.Records, Record{Slot: slot, IsBlock: isBlock, BlockRoot: blockRoot, ParentRoot: parentRoot, Ref: ref.Copy(), Branch: branch, Signed: sb})
	return nil
}

func planOf(p *SlotPlan) *sim.BlockPlan {
	return &sim.BlockPlan{Seed: p.Seed, AttMode: 1, Participation: 1000, SyncPm: 1000, Eth1Vote: 0,
		NExits: p.Exits, NPropSlash: p.PropSlash, NAttSlash: p.AttSlash}
}

// parentOf: parent root of the latest block of a reference state.
func parentOfLatest(st *refspec.State) refspec.Root { return st.LatestBlockHeader.ParentRoot }

func (b *builder) step(l *sim.Lock, slot uint64, p *SlotPlan, branch int) error {
	sp := l.Sp
	var sb *refspec.SignedBlock
	var info *sim.BuildInfo
	if !p.Empty {
		var err error
		sb, info, err = l.BuildBlock(slot, planOf(p))
		if err == sim.ErrProposerSlashed {
			sb = nil
		} else if err != nil {
			return fmt.Errorf("builder: %v", err)
		}
	}
	if sb == nil {
		if err := l.SkipRef(slot); err != nil {
			return fmt.Errorf("reference process_slots: %v", err)
		}
		if e, _ := l.SkipLib(b.ctx, slot); e != nil {
			return ErrDiscard
		}
		if d := l.Compare(); d != "" {
			return ErrDiscard
		}
		return b.register(l, slot, false, latestBlockRoot(sp, l.St), parentOfLatest(l.St), l.St, branch, nil)
	}
	// slot part first: the pre-block entry
	if e, _ := l.SkipLib(b.ctx, slot); e != nil {
		return ErrDiscard
	}
	if d := sim.CompareStates(sp, info.Pre, l.Lib); d != "" {
		return ErrDiscard
	}
	if err := b.register(l, slot, false, latestBlockRoot(sp, info.Pre), parentOfLatest(info.Pre), info.Pre, branch, nil); err != nil {
		return err
	}
	if err := l.ApplyBlockRef(sb); err != nil {
		return fmt.Errorf("reference rejects its own block: %v", err)
	}
	env, err := l.Envelope(sb)
	if err != nil {
		return ErrDiscard
	}
	if e, _ := sim.Guard(func() error { return common.PostSlotTransition(b.ctx, l.LibSpec, l.Epc, l.Lib, env, true) }); e != nil {
		return ErrDiscard
	}
	if d := l.Compare(); d != "" {
		return ErrDiscard
	}
	root := sp.BlockRoot(&sb.Message)
	if common.Root(root) != env.BlockRoot {
		return ErrDiscard
	}
	return b.register(l, slot, true, root, sb.Message.ParentRoot, l.St, branch, sb)
}

// Build runs the recipe. ErrDiscard: drop the case (counted as discarded_other_property).
func Build(vc *ViewCase) (*View, error) {
	cfg := vc.Config.Build()
	chain, err := sim.NewChain(cfg, &vc.Genesis)
	if err != nil {
		return nil, err
	}
	l, err := sim.NewLock(chain)
	if err != nil {
		return nil, ErrDiscard
	}
	v := &View{Spec: l.LibSpec, byBlock: map[common.Root]*Entry{}, byBlockSlot: map[rootSlot]*Entry{}, byStateRoot: map[common.Root]*Entry{},
		children: map[common.Root][]common.Root{}, canon: map[common.Step]*Entry{}, derived: map[rootSlot]*Entry{}}
	b := &builder{v: v, ctx: context.Background(), recIndex: map[rootSlot]int{}}
	if d := l.Compare(); d != "" {
		return nil, ErrDiscard
	}
	gRoot := latestBlockRoot(l.Sp, l.St)
	if err := b.register(l, 0, true, gRoot, refspec.Root{}, l.St, 0, nil); err != nil {
		return nil, err
	}
	v.genesis = v.entries[0]
	v.genesisInfo = beacon.GenesisInfo{Time: common.Timestamp(l.St.GenesisTime), ValidatorsRoot: common.Root(l.St.GenesisValidatorsRoot)}
	forkAt := map[uint64][]int{}
	for i, br := range vc.Branches {
		forkAt[br.ForkSlot] = append(forkAt[br.ForkSlot], i)
	}
	grow := func(slot uint64) error {
		for _, bi := range forkAt[slot] {
			s, err := l.ForkLock()
			if err != nil {
				return err
			}
			for k := range vc.Branches[bi].Slots {
				if err := b.step(s, slot+1+uint64(k), &vc.Branches[bi].Slots[k], bi+1); err != nil {
					return err
				}
			}
		}
		return nil
	}
	if err := grow(0); err != nil {
		return nil, err
	}
	for i := range vc.Trunk {
		slot := uint64(i + 1)
		if err := b.step(l, slot, &vc.Trunk[i], 0); err != nil {
			return nil, err
		}
		if err := grow(slot); err != nil {
			return nil, err
		}
	}
	v.Lock = l
	// head: the last trunk step; checkpoints: the head state's (library side)
	hr := &v.Records[b.lastRec]
	hr.Head = true
	v.head = v.byBlockSlot[rootSlot{common.Root(hr.BlockRoot), common.Slot(hr.Slot)}]
	if hs, err := v.head.state.Slot(); err != nil || uint64(hs) != l.St.Slot {
		return nil, fmt.Errorf("head entry is not the trunk's last step")
	}
	fin, err := l.Lib.FinalizedCheckpoint()
	if err != nil {
		return nil, err
	}
	just, err := l.Lib.CurrentJustifiedCheckpoint()
	if err != nil {
		return nil, err
	}
	// the fork-choice store names the anchor block for epoch 0 (the state holds a zero root there)
	if fin.Epoch == 0 {
		fin.Root = v.genesis.blockRoot
	}
	if just.Epoch == 0 {
		just.Root = v.genesis.blockRoot
	}
	v.fin, v.just = fin, just
	return v, nil
}

// ---------------------------------------------------------------- beacon.Chain

func (v *View) ByStateRoot(root common.Root) (beacon.ChainEntry, bool) {
	e, ok := v.byStateRoot[root]
	if !ok {
		return nil, false
	}
	return e, true
}

func (v *View) ByBlock(root common.Root) (beacon.ChainEntry, bool) {
	e, ok := v.byBlock[root]
	if !ok {
		return nil, false
	}
	return e, true
}

func (v *View) ByBlockSlot(root common.Root, slot common.Slot) (beacon.ChainEntry, bool) {
	e, ok := v.byBlockSlot[rootSlot{root, slot}]
	if !ok {
		return nil, false
	}
	return e, true
}

func (v *View) isCanonical(e *Entry) bool { return v.canon[e.step] == e }

func (v *View) Search(parentRoot *common.Root, slot *common.Slot) ([]beacon.SearchEntry, error) {
	var out []beacon.SearchEntry
	for _, e := range v.entries {
		if !e.step.Block() {
			continue
		}
		if parentRoot == nil && slot == nil {
			if len(v.children[e.blockRoot]) != 0 {
				continue // heads only
			}
		}
		if parentRoot != nil && e.parentRoot != *parentRoot {
			continue
		}
		if slot != nil && e.step.Slot() != *slot {
			continue
		}
		out = append(out, beacon.SearchEntry{ChainEntry: e, Canonical: v.isCanonical(e)})
	}
	return out, nil
}

func (v *View) Closest(fromBlockRoot common.Root, toSlot common.Slot) (beacon.ChainEntry, bool) {
	e := v.closest(fromBlockRoot, toSlot)
	if e == nil {
		return nil, false
	}
	return e, true
}

func (v *View) closest(fromBlockRoot common.Root, toSlot common.Slot) *Entry {
	be, ok := v.byBlock[fromBlockRoot]
	if !ok || be.step.Slot() > toSlot {
		return nil
	}
	best := be
	for s := toSlot; s > be.step.Slot(); s-- {
		if e, ok := v.byBlockSlot[rootSlot{fromBlockRoot, s}]; ok {
			best = e
			break
		}
	}
	return best
}

func (v *View) InSubtree(anchor common.Root, root common.Root) (unknown bool, inSubtree bool) {
	a, ok := v.byBlock[anchor]
	if !ok {
		return true, false
	}
	e, ok := v.byBlock[root]
	if !ok {
		return true, false
	}
	for {
		if e.blockRoot == anchor {
			return false, true
		}
		if e.step.Slot() <= a.step.Slot() {
			return false, false
		}
		p, ok := v.byBlock[e.parentRoot]
		if !ok {
			return false, false
		}
		e = p
	}
}

func (v *View) ByCanonStep(step common.Step) (beacon.ChainEntry, bool) {
	e, ok := v.canon[step]
	if !ok {
		return nil, false
	}
	return e, true
}

type iter struct {
	v          *View
	start, end common.Step
}

func (it *iter) Start() common.Step { return it.start }
func (it *iter) End() common.Step   { return it.end }
func (it *iter) Entry(step common.Step) (beacon.ChainEntry, error) {
	if step < it.start || step >= it.end {
		return nil, fmt.Errorf("step %s out of range [%s, %s)", step, it.start, it.end)
	}
	e, ok := it.v.canon[step]
	if !ok {
		if step.Block() {
			return nil, nil
		}
		return nil, fmt.Errorf("no entry at step %s", step)
	}
	return e, nil
}

func (v *View) Iter() (beacon.ChainIter, error) {
	return &iter{v: v, start: v.genesis.step, end: v.head.step + 1}, nil
}

func (v *View) JustifiedCheckpoint() common.Checkpoint { return v.just }
func (v *View) FinalizedCheckpoint() common.Checkpoint { return v.fin }

func (v *View) Justified() (beacon.ChainEntry, error) {
	e, ok := v.byBlock[v.just.Root]
	if !ok {
		return nil, errors.New("justified block unknown")
	}
	return e, nil
}

func (v *View) Finalized() (beacon.ChainEntry, error) {
	e, ok := v.byBlock[v.fin.Root]
	if !ok {
		return nil, errors.New("finalized block unknown")
	}
	return e, nil
}

func (v *View) Head() (beacon.ChainEntry, error) { return v.head, nil }

func (v *View) Towards(ctx context.Context, fromBlockRoot common.Root, toSlot common.Slot) (beacon.ChainEntry, error) {
	c := v.closest(fromBlockRoot, toSlot)
	if c == nil {
		if be, ok := v.byBlock[fromBlockRoot]; ok {
			return nil, fmt.Errorf("block %s is at slot %d, past the requested slot %d", fromBlockRoot, be.step.Slot(), toSlot)
		}
		return nil, fmt.Errorf("unknown block %s", fromBlockRoot)
	}
	if c.step.Slot() == toSlot {
		return c, nil
	}
	key := rootSlot{fromBlockRoot, toSlot}
	v.mu.Lock()
	d, ok := v.derived[key]
	v.mu.Unlock()
	if ok {
		return d, nil
	}
	cp, err := c.state.BeaconState.CopyState()
	if err != nil {
		return nil, err
	}
	st := zb.Upgradeable(cp)
	epc := c.epc.Clone()
	// The caller's deadline is deliberately not applied to the slot processing: a verdict must not depend
	// on how loaded the machine is (the validators pass a 2 s wall-clock timeout).
	if err := ctx.Err(); err != nil {
		return nil, err
	}
	if err := common.ProcessSlots(context.Background(), v.Spec, epc, st, toSlot); err != nil {
		return nil, err
	}
	d = &Entry{step: common.AsStep(toSlot, false), blockRoot: fromBlockRoot, parentRoot: c.parentRoot,
		stateRoot: st.HashTreeRoot(tree.GetHashFn()), state: st, epc: epc, Branch: c.Branch}
	v.mu.Lock()
	v.derived[key] = d
	v.mu.Unlock()
	return d, nil
}

func (v *View) Genesis() beacon.GenesisInfo { return v.genesisInfo }

// HeadEntry / EntryAt give the check access to the concrete entries.
func (v *View) HeadEntry() *Entry { return v.head }

// Blocks lists the block roots in registration order.
func (v *View) Blocks() []common.Root {
	var out []common.Root
	for _, e := range v.entries {
		if e.step.Block() {
			out = append(out, e.blockRoot)
		}
	}
	return out
}

// HeadStateRoot recomputes the head state's root (used to assert that validation left the view untouched).
func (v *View) HeadStateRoot() common.Root { return v.head.state.HashTreeRoot(tree.GetHashFn()) }

var _ beacon.Chain = (*View)(nil)
var _ beacon.ChainEntry = (*Entry)(nil)

// Anchored returns the view of a node that was checkpoint-synced at this view's finalized block: only that block
// and its descendants are known (entries of earlier blocks and of branches that do not descend from it are
// unknown roots). Checkpoints, head and genesis information are unchanged. KeepRoots reports which roots stay.
func (v *View) Anchored() (*View, map[common.Root]bool) {
	keep := map[common.Root]bool{v.fin.Root: true}
	for changed := true; changed; {
		changed = false
		for _, e := range v.entries {
			if !keep[e.blockRoot] && keep[e.parentRoot] && e.blockRoot != v.fin.Root {
				keep[e.blockRoot] = true
				changed = true
			}
		}
	}
	a := &View{Spec: v.Spec, Lock: v.Lock, Records: v.Records, head: v.head, genesis: v.genesis, fin: v.fin, just: v.just,
		genesisInfo: v.genesisInfo, byBlock: map[common.Root]*Entry{}, byBlockSlot: map[rootSlot]*Entry{}, byStateRoot: map[common.Root]*Entry{},
		children: map[common.Root][]common.Root{}, canon: map[common.Step]*Entry{}, derived: map[rootSlot]*Entry{}}
	for _, e := range v.entries {
		if keep[e.blockRoot] {
			a.entries = append(a.entries, e)
		}
	}
	for k, e := range v.byBlock {
		if keep[k] {
			a.byBlock[k] = e
		}
	}
	for k, e := range v.byBlockSlot {
		if keep[k.root] {
			a.byBlockSlot[k] = e
		}
	}
	for k, e := range v.byStateRoot {
		if keep[e.blockRoot] {
			a.byStateRoot[k] = e
		}
	}
	for k, c := range v.children {
		if keep[k] {
			a.children[k] = c
		}
	}
	for k, e := range v.canon {
		if keep[e.blockRoot] {
			a.canon[k] = e
		}
	}
	return a, keep
}
