// Package gossipmodel evaluates the p2p specification's per-topic condition lists (phase0 and altair
// p2p-interface.md, the rule set the gossipval package quotes; DESIGN.md Appendix B) on the REFERENCE
// chain view: reference states from sim, the recorded block tree, the scripted clock, and the model's
// own seen-caches (updated only when every condition held, i.e. "first VALID message").
//
// Condition kinds:
//
//	R  a [REJECT] condition: when violated the message must not be ACCEPTed.
//	I  a condition an honest sender can fail by timing alone (unknown parent/target/block,
//	   duplicate, outside the clock window, not in the finalized subtree): when only such
//	   conditions are violated the verdict must be IGNORE.
//	A  an availability precondition the package documents but the rule list does not contain (the
//	   state named by a sync-committee message's (block root, slot) must be known to look the sync
//	   committee up): when only this is violated IGNORE and ACCEPT are both allowed.
package gossipmodel

import (
	"fmt"
	"sort"
	"strings"
	"sync"

	"zrntverif/refspec"
)

type Root = refspec.Root

const (
	MaximumGossipClockDisparityMs   = 500
	AttestationPropagationSlotRange = 32
)

type Class int

const (
	MustAccept Class = iota
	MustIgnore
	NotAccept
	IgnoreOrAccept
)

func (c Class) String() string {
	return [...]string{"must-ACCEPT", "must-IGNORE", "must-not-ACCEPT", "IGNORE-or-ACCEPT"}[c]
}

type Cond struct {
	ID        string
	Kind      byte // 'R' | 'I' | 'A'
	Evaluated bool
	Held      bool
}

type Verdict struct {
	Topic    string
	Conds    []Cond
	Class    Class
	Violated []string // ids of violated conditions, in rule order
	marks    []string
	// Info for the check's side-effect assertions
	Voter        uint64   // attestation: the participating validator (when defined)
	Intersection []uint64 // attester slashing
}

func (v *Verdict) String() string {
	var parts []string
	for _, c := range v.Conds {
		s := "ok"
		if !c.Evaluated {
			s = "n/a"
		} else if !c.Held {
			s = "VIOLATED"
		}
		parts = append(parts, fmt.Sprintf("[%c]%s=%s", c.Kind, c.ID, s))
	}
	return v.Class.String() + " {" + strings.Join(parts, " ") + "}"
}

// First is the id of the first violated condition ("" if none).
func (v *Verdict) First() string {
	if len(v.Violated) == 0 {
		return ""
	}
	return v.Violated[0]
}

type eval struct{ v *Verdict }

func (e *eval) cond(id string, kind byte, evaluable bool, held func() bool) bool {
	c := Cond{ID: e.v.Topic + "/" + id, Kind: kind}
	if evaluable {
		c.Evaluated = true
		c.Held = held()
	}
	e.v.Conds = append(e.v.Conds, c)
	return c.Evaluated && c.Held
}

func (e *eval) finish() *Verdict {
	v := e.v
	var r, i, a bool
	for _, c := range v.Conds {
		if c.Evaluated && !c.Held {
			v.Violated = append(v.Violated, c.ID)
			switch c.Kind {
			case 'R':
				r = true
			case 'I':
				i = true
			default:
				a = true
			}
		}
	}
	switch {
	case r:
		v.Class = NotAccept
	case i:
		v.Class = MustIgnore
	case a:
		v.Class = IgnoreOrAccept
	default:
		v.Class = MustAccept
	}
	return v
}

// ---------------------------------------------------------------- the reference chain view

type Rec struct {
	Slot       uint64
	IsBlock    bool
	BlockRoot  Root
	ParentRoot Root
	State      *refspec.State
	Head       bool
}

type Node struct {
	Root, Parent Root
	Slot         uint64
	Post         *refspec.State
}

type rootSlot struct {
	root Root
	slot uint64
}

type View struct {
	Sp          *refspec.Spec
	Blocks      map[Root]*Node
	Known       map[rootSlot]*refspec.State
	Head        *refspec.State
	HeadRoot    Root
	GenesisRoot Root
	Fin         refspec.Checkpoint // the store's finalized checkpoint

	mu      sync.Mutex
	derived map[rootSlot]*refspec.State
}

// NewView builds the tree from the recorded entries. The head is the record flagged as such; the
// store's finalized checkpoint is the head state's (epoch 0 names the anchor block).
func NewView(sp *refspec.Spec, recs []Rec) *View {
	v := &View{Sp: sp, Blocks: map[Root]*Node{}, Known: map[rootSlot]*refspec.State{}, derived: map[rootSlot]*refspec.State{}}
	for i, r := range recs {
		if i == 0 {
			v.GenesisRoot = r.BlockRoot
		}
		if r.IsBlock {
			v.Blocks[r.BlockRoot] = &Node{Root: r.BlockRoot, Parent: r.ParentRoot, Slot: r.Slot, Post: r.State}
		}
		v.Known[rootSlot{r.BlockRoot, r.Slot}] = r.State
		if r.Head {
			v.Head, v.HeadRoot = r.State, r.BlockRoot
		}
	}
	v.Fin = v.Head.FinalizedCheckpoint
	if v.Fin.Epoch == 0 {
		v.Fin.Root = v.GenesisRoot
	}
	return v
}

// KnownState: the registered state for (block root, slot).
func (v *View) KnownState(root Root, slot uint64) (*refspec.State, bool) {
	s, ok := v.Known[rootSlot{root, slot}]
	return s, ok
}

// StateAt: the post-state of block `root` advanced through empty slots to `slot` (nil when the
// block is unknown or later than slot). This is the checkpoint state when slot is an epoch start.
func (v *View) StateAt(root Root, slot uint64) *refspec.State {
	n, ok := v.Blocks[root]
	if !ok || n.Slot > slot {
		return nil
	}
	if n.Slot == slot {
		return n.Post
	}
	if s, ok := v.Known[rootSlot{root, slot}]; ok {
		return s
	}
	k := rootSlot{root, slot}
	v.mu.Lock()
	s, ok := v.derived[k]
	v.mu.Unlock()
	if ok {
		return s
	}
	// start from the closest registered empty-slot state
	base := n.Post
	for q := slot - 1; q > n.Slot; q-- {
		if ks, ok := v.Known[rootSlot{root, q}]; ok {
			base = ks
			break
		}
	}
	s = base.Copy()
	if err := v.Sp.ProcessSlots(s, slot); err != nil {
		return nil
	}
	v.mu.Lock()
	v.derived[k] = s
	v.mu.Unlock()
	return s
}

// GetAncestor is the fork-choice get_ancestor(store, root, slot); ok=false when root is unknown.
func (v *View) GetAncestor(root Root, slot uint64) (Root, bool) {
	n, ok := v.Blocks[root]
	if !ok {
		return Root{}, false
	}
	for n.Slot > slot {
		p, ok := v.Blocks[n.Parent]
		if !ok {
			return Root{}, false
		}
		n = p
	}
	return n.Root, true
}

// ---------------------------------------------------------------- per-node context

// Ctx is one node's situation: the view, the clock, blocks known to be invalid, and the
// seen-caches as the rules define them.
type Ctx struct {
	V       *View
	ClockMs int64
	Bad     map[Root]bool
	Seen    map[string]bool
}

func NewCtx(v *View, clockMs int64) *Ctx {
	return &Ctx{V: v, ClockMs: clockMs, Bad: map[Root]bool{}, Seen: map[string]bool{}}
}

// Commit records the message as the first valid one of its kind (call only for MustAccept verdicts).
func (c *Ctx) Commit(v *Verdict) {
	for _, k := range v.marks {
		c.Seen[k] = true
	}
}

func (c *Ctx) slotAtMs(ms int64) uint64 {
	if ms < 0 {
		return 0
	}
	return uint64(ms) / (c.V.Sp.P.SECONDS_PER_SLOT * 1000)
}

// currentSlotRange: the slots the local clock may denote given MAXIMUM_GOSSIP_CLOCK_DISPARITY.
func (c *Ctx) currentSlotRange() (lo, hi uint64) {
	return c.slotAtMs(c.ClockMs - MaximumGossipClockDisparityMs), c.slotAtMs(c.ClockMs + MaximumGossipClockDisparityMs)
}

// withinRange: exists a current_slot within the disparity such that slot <= current_slot <= slot+span.
func (c *Ctx) withinRange(slot, span uint64) bool {
	lo, hi := c.currentSlotRange()
	return hi >= slot && lo <= slot+span
}

func (c *Ctx) finSlot() uint64 { return c.V.Sp.StartSlotAtEpoch(c.V.Fin.Epoch) }

func pubkeyOf(s *refspec.State, index uint64) ([48]byte, bool) {
	if index >= uint64(len(s.Validators)) {
		return [48]byte{}, false
	}
	return s.Validators[index].Pubkey, true
}

// ---------------------------------------------------------------- beacon_block

func (c *Ctx) Block(sb *refspec.SignedBlock) *Verdict {
	sp := c.V.Sp
	b := &sb.Message
	e := &eval{v: &Verdict{Topic: "block"}}
	_, hi := c.currentSlotRange()
	e.cond("not-future", 'I', true, func() bool { return b.Slot <= hi })
	key := fmt.Sprintf("block|%d|%d", b.Slot, b.ProposerIndex)
	e.cond("first-for-proposer", 'I', true, func() bool { return !c.Seen[key] })
	parent, seen := c.V.Blocks[b.ParentRoot]
	e.cond("parent-seen", 'I', true, func() bool { return seen })
	e.cond("after-finalized-slot", 'I', true, func() bool { return b.Slot > c.finSlot() })
	later := e.cond("later-than-parent", 'R', seen, func() bool { return b.Slot > parent.Slot })
	e.cond("finalized-ancestor", 'R', seen, func() bool {
		a, ok := c.V.GetAncestor(b.ParentRoot, c.finSlot())
		return ok && a == c.V.Fin.Root
	})
	e.cond("signature", 'R', seen, func() bool {
		pk, ok := pubkeyOf(parent.Post, b.ProposerIndex)
		if !ok {
			return false
		}
		dom := sp.ComputeDomain(refspec.DOMAIN_BEACON_PROPOSER, sp.ComputeForkVersion(sp.EpochAtSlot(b.Slot)), c.V.Head.GenesisValidatorsRoot)
		return refspec.BLSVerify(pk, sp.ComputeSigningRoot(sp.BlockRoot(b), dom), sb.Signature)
	})
	e.cond("proposer-index", 'R', seen && later, func() bool {
		st := c.V.StateAt(b.ParentRoot, b.Slot)
		if st == nil {
			return false
		}
		ok := false
		if err := refspec.Try(func() { ok = sp.BeaconProposerIndex(st) == b.ProposerIndex }); err != nil {
			return false
		}
		return ok
	})
	e.v.marks = []string{key}
	return e.finish()
}

// ---------------------------------------------------------------- attestations (shared part)

type attCtx struct {
	tstate    *refspec.State
	committee []uint64
	hasComm   bool
	cps       uint64
}

func (c *Ctx) targetState(d *refspec.AttestationData) *refspec.State {
	sp := c.V.Sp
	if d.Target.Epoch > (1<<62)/sp.P.SLOTS_PER_EPOCH {
		return nil
	}
	return c.V.StateAt(d.Target.Root, sp.StartSlotAtEpoch(d.Target.Epoch))
}

func (c *Ctx) committeeOf(ts *refspec.State, d *refspec.AttestationData) (comm []uint64, cps uint64, ok bool) {
	sp := c.V.Sp
	if ts == nil {
		return nil, 0, false
	}
	cur := sp.CurrentEpoch(ts)
	e := sp.EpochAtSlot(d.Slot)
	if e+1 < cur || e > cur+1 {
		return nil, 0, false
	}
	if err := refspec.Try(func() {
		cps = sp.CommitteeCountPerSlot(ts, d.Target.Epoch)
		if d.Index < cps {
			comm = sp.BeaconCommittee(ts, d.Slot, d.Index)
		}
	}); err != nil {
		return nil, 0, false
	}
	return comm, cps, true
}

func countBits(b []bool) (n int, first int) {
	first = -1
	for i, x := range b {
		if x {
			if first < 0 {
				first = i
			}
			n++
		}
	}
	return
}

// voteConds: block seen / valid / target ancestor / finalized ancestor (shared by both topics).
func (c *Ctx) voteConds(e *eval, d *refspec.AttestationData) {
	sp := c.V.Sp
	_, seen := c.V.Blocks[d.BeaconBlockRoot]
	e.cond("block-seen", 'I', true, func() bool { return seen })
	e.cond("block-valid", 'R', true, func() bool { return !c.Bad[d.BeaconBlockRoot] })
	// the ancestor at the target epoch's start slot may lie before what this node knows (checkpoint sync): that is
	// an availability condition ("unknown target", IGNORE), not a wrong vote
	tgtEvaluable := seen && d.Target.Epoch < (1<<62)/sp.P.SLOTS_PER_EPOCH
	var tgtAnc Root
	tgtKnown := false
	if tgtEvaluable {
		tgtAnc, tgtKnown = c.V.GetAncestor(d.BeaconBlockRoot, sp.StartSlotAtEpoch(d.Target.Epoch))
	}
	e.cond("target-known", 'I', tgtEvaluable, func() bool { return tgtKnown })
	e.cond("target-ancestor", 'R', tgtEvaluable && tgtKnown, func() bool { return tgtAnc == d.Target.Root })
	e.cond("finalized-ancestor", 'I', seen, func() bool {
		a, ok := c.V.GetAncestor(d.BeaconBlockRoot, c.finSlot())
		return ok && a == c.V.Fin.Root
	})
}

func (c *Ctx) Attestation(subnet uint64, a *refspec.Attestation) *Verdict {
	sp := c.V.Sp
	d := &a.Data
	e := &eval{v: &Verdict{Topic: "attestation"}}
	ts := c.targetState(d)
	comm, cps, ok := c.committeeOf(ts, d)
	inRange := e.cond("committee-index", 'R', ok, func() bool { return d.Index < cps })
	e.cond("subnet", 'R', ok, func() bool { return sp.ComputeSubnetForAttestation(cps, d.Slot, d.Index) == subnet })
	e.cond("slot-window", 'I', true, func() bool { return c.withinRange(d.Slot, AttestationPropagationSlotRange) })
	e.cond("target-epoch", 'R', true, func() bool { return d.Target.Epoch == sp.EpochAtSlot(d.Slot) })
	n, first := countBits(a.Bits)
	one := e.cond("one-bit", 'R', true, func() bool { return n == 1 })
	lenOK := e.cond("bits-length", 'R', inRange, func() bool { return len(a.Bits) == len(comm) })
	var voter uint64
	hasVoter := one && lenOK
	if hasVoter {
		voter = comm[first]
		e.v.Voter = voter
	}
	key := fmt.Sprintf("att|%d|%d", d.Target.Epoch, voter)
	e.cond("first-for-validator", 'I', hasVoter, func() bool { return !c.Seen[key] })
	e.cond("signature", 'R', inRange && lenOK && n >= 1, func() bool {
		var pks [][48]byte
		for i, x := range a.Bits {
			if x {
				pks = append(pks, ts.Validators[comm[i]].Pubkey)
			}
		}
		return refspec.BLSFastAggregateVerify(pks, sp.AttestationDataRoot(ts, d), a.Signature)
	})
	c.voteConds(e, d)
	if hasVoter {
		e.v.marks = []string{key}
	}
	return e.finish()
}

// AggregateRootKey: the seen-cache key of an aggregate (hash_tree_root(aggregate)).
func (c *Ctx) AggregateRoot(a *refspec.Attestation) Root {
	return c.V.Sp.HTR("Attestation", a.V())
}

func (c *Ctx) Aggregate(s *refspec.SignedAggregateAndProof) *Verdict {
	sp := c.V.Sp
	m := &s.Message
	a := &m.Aggregate
	d := &a.Data
	e := &eval{v: &Verdict{Topic: "aggregate"}}
	ts := c.targetState(d)
	comm, cps, ok := c.committeeOf(ts, d)
	inRange := e.cond("committee-index", 'R', ok, func() bool { return d.Index < cps })
	e.cond("slot-window", 'I', true, func() bool { return c.withinRange(d.Slot, AttestationPropagationSlotRange) })
	e.cond("target-epoch", 'R', true, func() bool { return d.Target.Epoch == sp.EpochAtSlot(d.Slot) })
	lenOK := e.cond("bits-length", 'R', inRange, func() bool { return len(a.Bits) == len(comm) })
	n, _ := countBits(a.Bits)
	e.cond("has-participants", 'R', true, func() bool { return n >= 1 })
	var rootKey string
	if err := refspec.Try(func() { r := c.AggregateRoot(a); rootKey = fmt.Sprintf("agg|%x", r) }); err != nil {
		rootKey = "agg|unhashable"
	}
	e.cond("aggregate-not-seen", 'I', true, func() bool { return !c.Seen[rootKey] })
	aggKey := fmt.Sprintf("aggregator|%d|%d", d.Target.Epoch, m.AggregatorIndex)
	e.cond("first-for-aggregator", 'I', true, func() bool { return !c.Seen[aggKey] })
	e.cond("is-aggregator", 'R', inRange, func() bool { return sp.IsAggregator(ts, d.Slot, d.Index, m.SelectionProof) })
	e.cond("aggregator-in-committee", 'R', inRange, func() bool {
		for _, x := range comm {
			if x == m.AggregatorIndex {
				return true
			}
		}
		return false
	})
	pk, pkOK := [48]byte{}, false
	if ts != nil {
		pk, pkOK = pubkeyOf(ts, m.AggregatorIndex)
	}
	e.cond("selection-proof", 'R', ts != nil, func() bool {
		return pkOK && refspec.BLSVerify(pk, sp.SlotSignatureRoot(ts, d.Slot), m.SelectionProof)
	})
	e.cond("outer-signature", 'R', ts != nil, func() bool {
		ok := false
		if err := refspec.Try(func() { ok = pkOK && refspec.BLSVerify(pk, sp.AggregateAndProofRoot(ts, m), s.Signature) }); err != nil {
			return false
		}
		return ok
	})
	e.cond("aggregate-signature", 'R', inRange && lenOK && n >= 1, func() bool {
		var pks [][48]byte
		for i, x := range a.Bits {
			if x {
				pks = append(pks, ts.Validators[comm[i]].Pubkey)
			}
		}
		return refspec.BLSFastAggregateVerify(pks, sp.AttestationDataRoot(ts, d), a.Signature)
	})
	c.voteConds(e, d)
	e.v.marks = []string{rootKey, aggKey}
	return e.finish()
}

// ---------------------------------------------------------------- operations on the head state

func (c *Ctx) VoluntaryExit(x *refspec.SignedVoluntaryExit) *Verdict {
	e := &eval{v: &Verdict{Topic: "exit"}}
	key := fmt.Sprintf("exit|%d", x.Message.ValidatorIndex)
	e.cond("first-for-validator", 'I', true, func() bool { return !c.Seen[key] })
	e.cond("process-voluntary-exit", 'R', true, func() bool {
		return c.V.Sp.ApplyVoluntaryExit(c.V.Head.Copy(), x) == nil
	})
	e.v.marks = []string{key}
	return e.finish()
}

func (c *Ctx) ProposerSlashing(x *refspec.ProposerSlashing) *Verdict {
	e := &eval{v: &Verdict{Topic: "proposer_slashing"}}
	key := fmt.Sprintf("pslash|%d", x.H1.Message.ProposerIndex)
	e.cond("first-for-proposer", 'I', true, func() bool { return !c.Seen[key] })
	e.cond("process-proposer-slashing", 'R', true, func() bool {
		return c.V.Sp.ApplyProposerSlashing(c.V.Head.Copy(), x) == nil
	})
	e.v.marks = []string{key}
	return e.finish()
}

func (c *Ctx) AttesterSlashing(x *refspec.AttesterSlashing) *Verdict {
	e := &eval{v: &Verdict{Topic: "attester_slashing"}}
	in2 := map[uint64]bool{}
	for _, i := range x.A2.Indices {
		in2[i] = true
	}
	set := map[uint64]bool{}
	for _, i := range x.A1.Indices {
		if in2[i] {
			set[i] = true
		}
	}
	var inter []uint64
	for i := range set {
		inter = append(inter, i)
	}
	sort.Slice(inter, func(i, j int) bool { return inter[i] < inter[j] })
	e.v.Intersection = inter
	e.cond("some-index-unseen", 'I', true, func() bool {
		for _, i := range inter {
			if !c.Seen[fmt.Sprintf("aslash|%d", i)] {
				return true
			}
		}
		return false
	})
	e.cond("process-attester-slashing", 'R', true, func() bool {
		return c.V.Sp.ApplyAttesterSlashing(c.V.Head.Copy(), x) == nil
	})
	for _, i := range inter {
		e.v.marks = append(e.v.marks, fmt.Sprintf("aslash|%d", i))
	}
	return e.finish()
}

// ---------------------------------------------------------------- altair: sync committee topics

func (c *Ctx) SyncMessage(subnet uint64, m *refspec.SyncCommitteeMessage) *Verdict {
	sp := c.V.Sp
	e := &eval{v: &Verdict{Topic: "sync_message"}}
	e.cond("current-slot", 'I', true, func() bool { return c.withinRange(m.Slot, 0) })
	st, known := c.V.KnownState(m.BeaconBlockRoot, m.Slot)
	known = known && st.Fork >= refspec.Altair
	e.cond("state-known", 'A', true, func() bool { return known })
	pk, pkOK := [48]byte{}, false
	if known {
		pk, pkOK = pubkeyOf(st, m.ValidatorIndex)
	}
	e.cond("subnet-valid", 'R', known, func() bool {
		if !pkOK {
			return false
		}
		for _, s := range sp.ComputeSubnetsForSyncCommittee(st, m.ValidatorIndex) {
			if s == subnet {
				return true
			}
		}
		return false
	})
	key := fmt.Sprintf("sync|%d|%d|%d", m.ValidatorIndex, m.Slot, subnet)
	e.cond("first-for-validator", 'I', true, func() bool { return !c.Seen[key] })
	e.cond("signature", 'R', known, func() bool {
		return pkOK && refspec.BLSVerify(pk, sp.SyncCommitteeMessageRoot(st, m.Slot, m.BeaconBlockRoot), m.Signature)
	})
	e.v.marks = []string{key}
	return e.finish()
}

func (c *Ctx) Contribution(s *refspec.SignedContributionAndProof) *Verdict {
	sp := c.V.Sp
	m := &s.Message
	k := &m.Contribution
	e := &eval{v: &Verdict{Topic: "contribution"}}
	e.cond("current-slot", 'I', true, func() bool { return c.withinRange(k.Slot, 0) })
	inRange := e.cond("subcommittee-index", 'R', true, func() bool { return k.SubcommitteeIndex < refspec.SYNC_COMMITTEE_SUBNET_COUNT })
	n, _ := countBits(k.Bits)
	e.cond("has-participants", 'R', true, func() bool { return n >= 1 })
	e.cond("is-aggregator", 'R', true, func() bool { return sp.IsSyncCommitteeAggregator(m.SelectionProof) })
	st, known := c.V.KnownState(k.BeaconBlockRoot, k.Slot)
	known = known && st.Fork >= refspec.Altair
	e.cond("state-known", 'A', true, func() bool { return known })
	pk, pkOK := [48]byte{}, false
	if known {
		pk, pkOK = pubkeyOf(st, m.AggregatorIndex)
	}
	var subPks [][48]byte
	if known && inRange {
		subPks = sp.GetSyncSubcommitteePubkeys(st, k.SubcommitteeIndex)
	}
	e.cond("aggregator-in-subcommittee", 'R', known && inRange, func() bool {
		if !pkOK {
			return false
		}
		for _, p := range subPks {
			if p == pk {
				return true
			}
		}
		return false
	})
	key := fmt.Sprintf("contrib|%d|%d|%d", m.AggregatorIndex, k.Slot, k.SubcommitteeIndex)
	e.cond("first-for-aggregator", 'I', true, func() bool { return !c.Seen[key] })
	e.cond("selection-proof", 'R', known, func() bool {
		return pkOK && refspec.BLSVerify(pk, sp.SyncSelectionProofRoot(st, k.Slot, k.SubcommitteeIndex), m.SelectionProof)
	})
	e.cond("outer-signature", 'R', known, func() bool {
		ok := false
		if err := refspec.Try(func() { ok = pkOK && refspec.BLSVerify(pk, sp.ContributionAndProofRoot(st, m), s.Signature) }); err != nil {
			return false
		}
		return ok
	})
	e.cond("aggregate-signature", 'R', known && inRange && uint64(len(k.Bits)) == uint64(len(subPks)), func() bool {
		var pks [][48]byte
		for i, x := range k.Bits {
			if x {
				pks = append(pks, subPks[i])
			}
		}
		return refspec.EthFastAggregateVerify(pks, sp.SyncCommitteeMessageRoot(st, k.Slot, k.BeaconBlockRoot), k.Signature)
	})
	e.v.marks = []string{key}
	return e.finish()
}
