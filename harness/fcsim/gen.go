package fcsim

import (
	"math/bits"
	"sort"

	"pgregory.net/rapid"

	"zrntverif/fcmodel"
)

// Profile: relative weights of op kinds and size bounds. One generator serves the three checks.
type Profile struct {
	MinOps, MaxOps int
	MaxNodes       int
	MaxVals        int
	W              map[string]int
	Sinks          []string // drawn uniformly, e.g. {"ok","ok","nil","fail"}
	SPEs           []uint64 // SLOTS_PER_EPOCH drawn uniformly; nil: 4
}

func ProfileFor(prop string) Profile {
	// epochs of 3, 5 and 6 slots beside the usual 4: a slot -> epoch conversion by shift or mask is only right for powers of two
	p := Profile{MinOps: 10, MaxOps: 80, MaxNodes: 40, MaxVals: 12, SPEs: []uint64{4, 4, 4, 3, 6, 5}}
	switch prop {
	case "C09":
		p.W = map[string]int{KBlock: 22, KSlot: 8, KAtt: 30, KUpd: 7, KPin: 3, KHead: 21, KFHead: 9}
		p.Sinks = []string{"ok", "ok", "ok", "nil"}
	case "C10":
		p.W = map[string]int{KBlock: 22, KSlot: 8, KAtt: 16, KUpd: 17, KPin: 4, KHead: 13, KFHead: 4,
			KChain: 3, KInSub: 3, KClosest: 2, KCanon: 3, KGetSlot: 2, KSearch: 3}
		p.Sinks = []string{"ok", "ok", "nil", "fail", "fail"}
	default: // C11
		p.W = map[string]int{KBlock: 26, KSlot: 10, KAtt: 10, KUpd: 6, KPin: 2, KHead: 4, KFHead: 2,
			KChain: 7, KInSub: 8, KClosest: 7, KCanon: 9, KGetSlot: 4, KSearch: 8}
		p.Sinks = []string{"ok", "ok", "ok", "nil", "fail"}
	}
	return p
}

type gen struct {
	t      *rapid.T
	p      Profile
	c      *Case
	m      *fcmodel.Model
	order  []fcmodel.Ref // insertion order (guidance only: which prefix a failing sink drops)
	nextID int
	ids    map[fcmodel.Root]int
	calls  int // sink calls so far
	nval   int
	n      int // draw label counter
}

func (g *gen) lbl(s string) string { return s }

// uni draws a uniform value in [0, n) from fair coin flips. rapid's integer generators are
// deliberately biased towards small values and range ends, which would skew every choice below.
func (g *gen) uni(n int, l string) int {
	if n <= 1 {
		return 0
	}
	nb := bits.Len(uint(n - 1))
	for {
		v := 0
		for i := 0; i < nb; i++ {
			if rapid.Bool().Draw(g.t, l) {
				v |= 1 << i
			}
		}
		if v < n {
			return v
		}
	}
}

func (g *gen) intn(lo, hi int, l string) int {
	if hi <= lo {
		return lo
	}
	return lo + g.uni(hi-lo+1, l)
}
func (g *gen) chance(pct int, l string) bool { return g.uni(100, l) < pct }

func (g *gen) root(id int) fcmodel.Root {
	r := RootOf(id)
	g.ids[r] = id
	return r
}

func (g *gen) knownIDs() []int {
	seen := map[int]bool{}
	var out []int
	for r := range g.m.Nodes {
		id := g.ids[r.Root]
		if !seen[id] {
			seen[id] = true
			out = append(out, id)
		}
	}
	sort.Ints(out)
	return out
}

func (g *gen) refs(block, gap bool) []fcmodel.Ref {
	var out []fcmodel.Ref
	for _, r := range g.m.Refs() {
		b := g.m.Nodes[r].IsBlock()
		if (b && block) || (!b && gap) {
			out = append(out, r)
		}
	}
	return out
}

func (g *gen) pickID(l string) int { // known (biased to recent) / pruned / never
	k := g.knownIDs()
	switch c := g.intn(0, 99, l+"_cls"); {
	case c < 45:
		return k[g.intn(0, len(k)-1, l)]
	case c < 85:
		lo := len(k) - 4
		if lo < 0 {
			lo = 0
		}
		return k[g.intn(lo, len(k)-1, l)]
	case c < 93:
		return g.intn(1, g.nextID, l) // any id used so far (possibly pruned) or the next unused one
	default:
		return 50 + g.intn(0, 5, l) // never inserted
	}
}

func (g *gen) pickKnown(l string) int {
	k := g.knownIDs()
	if g.chance(50, l+"_recent") {
		lo := len(k) - 4
		if lo < 0 {
			lo = 0
		}
		return k[g.intn(lo, len(k)-1, l)]
	}
	return k[g.intn(0, len(k)-1, l)]
}

func (g *gen) pickRef(l string, block, gap bool) (fcmodel.Ref, bool) {
	rs := g.refs(block, gap)
	if len(rs) == 0 { // class empty (e.g. only gap nodes left after a prune): any node; ok=false tells the caller
		rs = g.refs(true, true)
		r := rs[g.intn(0, len(rs)-1, l)]
		return r, false
	}
	if g.chance(40, l+"_late") { // bias to late slots
		lo := len(rs) - 5
		if lo < 0 {
			lo = 0
		}
		return rs[g.intn(lo, len(rs)-1, l)], true
	}
	return rs[g.intn(0, len(rs)-1, l)], true
}

// blockOf: the node of the given root with the lowest slot.
func (g *gen) first(id int) (fcmodel.Ref, bool) {
	s, ok := g.m.FirstSlot(g.root(id))
	return fcmodel.Ref{Root: g.root(id), Slot: s}, ok
}

// epochs for a new node under parent id at the given slot: mostly chain-consistent
func (g *gen) nodeEpochs(parent int, slot uint64) (uint64, uint64) {
	je, fe := g.m.Justified.Epoch, g.m.Finalized.Epoch
	if p, ok := g.first(parent); ok { // at least what the parent chain had seen
		if ls, ok := g.m.LastSlot(p.Root); ok {
			n := g.m.Nodes[fcmodel.Ref{Root: p.Root, Slot: ls}]
			if n.JE > je {
				je = n.JE
			}
			if n.FE > fe {
				fe = n.FE
			}
		}
	}
	switch c := g.intn(0, 99, "ep_cls"); {
	case c < 55:
	case c < 75:
		if (je+1)*g.m.SPE <= slot {
			je++
		}
	case c < 85:
		if (je+1)*g.m.SPE <= slot {
			je++
		}
		if fe < je {
			fe++
		}
	case c < 92:
		je, fe = g.m.Justified.Epoch, g.m.Finalized.Epoch
	default:
		je = uint64(g.intn(0, 4, "ep_je"))
		fe = uint64(g.intn(0, int(je), "ep_fe"))
	}
	return je, fe
}

// chainNodeAt: on the transition chain of h, the last node at the given slot (block node if the
// slot has one, else the gap node): the checkpoint root a real caller would pass for that slot.
func (g *gen) chainNodeAt(h fcmodel.Ref, slot uint64) (fcmodel.Ref, bool) {
	for n := g.m.Nodes[h]; n != nil; {
		if n.Ref.Slot == slot {
			return n.Ref, true
		}
		if n.Ref.Slot < slot || n.TParent == nil {
			return fcmodel.Ref{}, false
		}
		n = g.m.Nodes[*n.TParent]
	}
	return fcmodel.Ref{}, false
}

func (g *gen) cpOnChain(h fcmodel.Ref, epoch uint64) (Cp, bool) {
	r, ok := g.chainNodeAt(h, epoch*g.m.SPE)
	if !ok {
		return Cp{}, false
	}
	return Cp{R: g.ids[r.Root], E: epoch}, true
}

func (g *gen) genBlock() Op {
	op := Op{K: KBlock}
	op.P = g.pickID("blk_parent")
	ps, known := g.m.FirstSlot(g.root(op.P))
	if !known {
		ps = uint64(g.intn(0, 10, "blk_ps"))
	}
	ls, _ := g.m.LastSlot(g.root(op.P))
	switch c := g.intn(0, 99, "blk_slot_cls"); {
	case c < 40:
		op.S = ps + 1
	case c < 60:
		op.S = ps + 2
	case c < 70:
		op.S = ps + uint64(g.intn(3, 5, "blk_d"))
	case c < 82 && known:
		op.S = ls + 1
	case c < 92:
		if b, ok := g.pickRef("blk_sib", true, false); ok && g.m.Nodes[b].TParent != nil { // double proposal / sibling at the same slot
			op.P, op.S = g.ids[g.m.Nodes[b].ParentRoot], b.Slot
		} else {
			op.S = ps + 1
		}
	case c < 96:
		op.S = ps
	default:
		if ps > 0 {
			op.S = ps - 1
		}
	}
	if max := g.c.Cfg.AnchorSlot + 26; op.S > max {
		op.S = max
	}
	dup := -1
	if g.chance(5, "blk_dup") {
		dup = g.pickID("blk_root")
		// precondition: a root that was pruned is never inserted again (a root commits to its parent,
		// so a pruned block cannot reappear under a retained one)
		if _, known := g.m.FirstSlot(g.root(dup)); !known && dup < g.nextID {
			dup = -1
		}
	}
	if dup >= 0 {
		op.R = dup
		if dup < 50 && dup >= g.nextID {
			g.nextID = dup + 1
		}
	} else {
		op.R = g.nextID
		g.nextID++
	}
	op.JE, op.FE = g.nodeEpochs(op.P, op.S)
	return op
}

func (g *gen) genSlot() Op {
	op := Op{K: KSlot, P: g.pickKnown("slot_parent")}
	fs, _ := g.m.FirstSlot(g.root(op.P))
	ls, _ := g.m.LastSlot(g.root(op.P))
	switch c := g.intn(0, 99, "slot_cls"); {
	case c < 60:
		op.S = ls + 1
	case c < 85:
		op.S = ls + uint64(g.intn(2, 3, "slot_d"))
	default:
		op.S = fs + uint64(g.intn(1, int(ls-fs)+1, "slot_re"))
	}
	if max := g.c.Cfg.AnchorSlot + 26; op.S > max {
		op.S = max
	}
	op.JE, op.FE = g.nodeEpochs(op.P, op.S)
	return op
}

func (g *gen) genAtt() Op {
	op := Op{K: KAtt, V: g.intn(0, g.nval, "att_v")} // nval itself: a validator beyond the balance vector
	switch c := g.intn(0, 99, "att_cls"); {
	case c < 45:
		r, _ := g.pickRef("att_blk", true, false)
		op.R, op.S = g.ids[r.Root], r.Slot
	case c < 75:
		r, ok := g.pickRef("att_gap", false, true)
		if !ok {
			r, _ = g.pickRef("att_blk2", true, false)
		}
		op.R, op.S = g.ids[r.Root], r.Slot
	case c < 83: // known root, slot before its first node
		op.R = g.pickKnown("att_r")
		fs, _ := g.m.FirstSlot(g.root(op.R))
		op.S = fs - uint64(g.intn(1, 2, "att_d"))
		if op.S > fs {
			op.S = 0
		}
	case c < 92: // known root, slot after its last node
		op.R = g.pickKnown("att_r")
		ls, _ := g.m.LastSlot(g.root(op.R))
		op.S = ls + uint64(g.intn(1, 3, "att_d"))
	default:
		op.R = g.pickID("att_any")
		op.S = uint64(g.intn(0, 12, "att_s"))
	}
	return op
}

func (g *gen) genUpd() Op {
	op := Op{K: KUpd}
	h, _ := g.pickRef("upd_tip", true, false)
	if g.chance(35, "upd_head") {
		if mh, ok, _ := g.m.Head(); ok {
			h = mh
		}
	} else if g.chance(60, "upd_ahead_tip") {
		var ahead []fcmodel.Ref
		for _, r := range g.refs(true, false) {
			if n := g.m.Nodes[r]; n.JE > g.m.Justified.Epoch || n.FE > g.m.Finalized.Epoch {
				ahead = append(ahead, r)
			}
		}
		if len(ahead) > 0 {
			h = ahead[g.intn(0, len(ahead)-1, "upd_ahead")]
		}
	}
	hn := g.m.Nodes[h]
	op.T = g.ids[h.Root]
	cur := func() (Cp, Cp) {
		return Cp{R: g.ids[g.m.Justified.Root], E: g.m.Justified.Epoch}, Cp{R: g.ids[g.m.Finalized.Root], E: g.m.Finalized.Epoch}
	}
	j, f := cur()
	maxE := h.Slot / g.m.SPE
	minE := g.m.Finalized.Epoch
	switch c := g.intn(0, 99, "upd_cls"); {
	case c < 40: // the tip's own view: justified/finalized epochs of the trigger block, roots from its chain
		if cj, ok := g.cpOnChain(h, hn.JE); ok {
			j = cj
		}
		if cf, ok := g.cpOnChain(h, hn.FE); ok {
			f = cf
		}
	case c < 68: // any proper pair on the tip's chain, finalized <= justified
		if maxE >= minE {
			fe := uint64(g.intn(int(minE), int(maxE), "upd_fe"))
			je := uint64(g.intn(int(fe), int(maxE), "upd_je"))
			if cj, ok := g.cpOnChain(h, je); ok {
				j = cj
			}
			if cf, ok := g.cpOnChain(h, fe); ok {
				f = cf
			}
		}
	case c < 74: // equal / behind
		if g.chance(50, "upd_behind") {
			if j.E > 0 {
				j.E--
			}
			if f.E > 0 && g.chance(50, "upd_behind_f") {
				f.E--
			}
		}
	case c < 80: // unknown root
		if g.chance(50, "upd_unk_which") {
			j = Cp{R: 50 + g.intn(0, 5, "upd_unk"), E: j.E + 1}
		} else {
			f = Cp{R: 50 + g.intn(0, 5, "upd_unk"), E: f.E + 1}
			if j.E < f.E {
				j.E = f.E
			}
		}
	case c < 88: // arbitrary known roots and epochs: conflicting branches, improper slots
		j = Cp{R: g.pickID("upd_jr"), E: uint64(g.intn(int(j.E), int(j.E)+2, "upd_je2"))}
		if g.chance(60, "upd_f_too") {
			f = Cp{R: g.pickID("upd_fr"), E: uint64(g.intn(int(f.E), int(f.E)+2, "upd_fe2"))}
		}
	case c < 93: // justified epoch below finalized epoch
		f.E = j.E + uint64(g.intn(1, 2, "upd_jltf"))
		if cf, ok := g.cpOnChain(h, f.E); ok {
			f.R = cf.R
		}
	default: // finalized advances alone to the justified checkpoint
		f = j
	}
	switch c := g.intn(0, 99, "upd_trig"); {
	case c < 80:
	case c < 90:
		op.T = g.pickID("upd_t")
	default:
		op.T = 50 + g.intn(0, 5, "upd_tu")
	}
	op.J, op.F = &j, &f
	if g.chance(50, "upd_bal") {
		op.Bal = g.genBal("upd")
	}
	op.BalErr = g.chance(3, "upd_balerr")
	return op
}

func (g *gen) genBal(l string) []uint64 {
	n := g.nval
	if g.chance(15, l+"_len") {
		n = g.intn(0, g.p.MaxVals, l+"_n")
	}
	out := make([]uint64, n)
	for i := range out {
		out[i] = []uint64{0, 1, 1, 1, 2, 3, 32}[g.uni(7, l+"_b")]
	}
	return out
}

func (g *gen) genNodeArg(l string) (int, uint64) { // (root id, slot) of an existing node, or not
	switch c := g.intn(0, 99, l+"_cls"); {
	case c < 80:
		r, _ := g.pickRef(l, true, true)
		return g.ids[r.Root], r.Slot
	case c < 90:
		id := g.pickKnown(l + "_r")
		ls, _ := g.m.LastSlot(g.root(id))
		return id, ls + uint64(g.intn(1, 2, l+"_d"))
	default:
		return g.pickID(l + "_any"), uint64(g.intn(0, 12, l+"_s"))
	}
}

func (g *gen) slotNear(id int, l string) uint64 {
	fs, ok := g.m.FirstSlot(g.root(id))
	if !ok {
		return uint64(g.intn(0, 12, l+"_s"))
	}
	ls, _ := g.m.LastSlot(g.root(id))
	hs := ls
	if h, ok, _ := g.m.FindHead(fcmodel.Ref{Root: g.root(id), Slot: fs}); ok {
		hs = h.Slot
	}
	switch c := g.intn(0, 99, l+"_cls"); {
	case c < 3 && l == "closest":
		// slots near the top of the uint64 range (e.g. FAR_FUTURE-like sentinels): arithmetic on (anchor slot + slot) wraps
		return []uint64{^uint64(0), ^uint64(0) - uint64(g.intn(0, 60, l+"_top")), 1 << 63, 1<<63 + uint64(g.intn(0, 40, l+"_mid")), 1 << 32}[g.intn(0, 4, l+"_huge")]
	case c < 8:
		if fs > 0 {
			return fs - 1
		}
		return fs
	case c < 20:
		return fs
	case c < 45:
		return fs + uint64(g.intn(0, int(ls-fs)+1, l+"_own"))
	case c < 85:
		return fs + uint64(g.intn(0, int(hs-fs), l+"_chain"))
	case c < 93:
		return hs + uint64(g.intn(0, 2, l+"_beyond"))
	default:
		return ls + uint64(g.intn(1, 4, l+"_far"))
	}
}

func (g *gen) genOp(k string) Op {
	switch k {
	case KBlock:
		if len(g.m.Nodes) >= g.p.MaxNodes-4 {
			return Op{K: KHead}
		}
		return g.genBlock()
	case KSlot:
		if len(g.m.Nodes) >= g.p.MaxNodes-4 {
			return Op{K: KHead}
		}
		return g.genSlot()
	case KAtt:
		return g.genAtt()
	case KUpd:
		return g.genUpd()
	case KPin:
		id, s := g.genNodeArg("pin")
		return Op{K: KPin, R: id, S: s}
	case KHead:
		return Op{K: KHead}
	case KFHead:
		id, s := g.genNodeArg("fhead")
		return Op{K: KFHead, R: id, S: s}
	case KChain:
		id, s := g.genNodeArg("chain")
		return Op{K: KChain, R: id, S: s}
	case KInSub:
		return Op{K: KInSub, P: g.pickID("insub_a"), R: g.pickID("insub_r")}
	case KClosest:
		id := g.pickID("closest")
		return Op{K: KClosest, R: id, S: g.slotNear(id, "closest")}
	case KCanon:
		id := g.pickID("canon")
		return Op{K: KCanon, R: id, S: g.slotNear(id, "canon"), WB: g.chance(50, "canon_wb")}
	case KGetSlot:
		return Op{K: KGetSlot, R: g.pickID("getslot")}
	case KSearch:
		id, s := g.genNodeArg("search")
		op := Op{K: KSearch, R: id, S: s}
		mode := g.intn(0, 3, "search_mode")
		if mode == 1 || mode == 3 {
			p := g.pickID("search_p")
			op.QP = &p
		}
		if mode == 2 || mode == 3 {
			var sl uint64
			if b, ok := g.pickRef("search_s", true, false); ok && g.chance(80, "search_sk") {
				sl = b.Slot
				if mode == 3 && g.chance(70, "search_match") {
					p := g.ids[g.m.Nodes[b].ParentRoot]
					op.QP = &p
				}
			} else {
				sl = uint64(g.intn(0, 14, "search_sl"))
			}
			op.QS = &sl
		}
		return op
	}
	return Op{K: KHead}
}

// apply mirrors the executor's model transitions (no comparisons) so that later operands can be
// drawn relative to the tree the history has built.
func (g *gen) apply(op *Op) {
	switch op.K {
	case KBlock:
		before := len(g.m.Nodes)
		g.m.ProcessBlock(g.root(op.P), g.root(op.R), op.S, op.JE, op.FE)
		if len(g.m.Nodes) > before {
			g.noteNew()
		}
	case KSlot:
		if ps, ok := g.m.FirstSlot(g.root(op.P)); ok && op.S > ps {
			g.m.ProcessSlot(g.root(op.P), op.S, op.JE, op.FE)
			g.noteNew()
		}
	case KAtt:
		g.m.ProcessAttestation(op.V, g.root(op.R), op.S)
	case KPin:
		g.m.SetPin(fcmodel.Ref{Root: g.root(op.R), Slot: op.S})
	case KUpd:
		j := fcmodel.Checkpoint{Root: g.root(op.J.R), Epoch: op.J.E}
		f := fcmodel.Checkpoint{Root: g.root(op.F.R), Epoch: op.F.E}
		plan := g.m.PlanUpdate(g.root(op.T), j, f)
		if plan.Kind != fcmodel.UpdApply || op.BalErr {
			return
		}
		bal := g.m.Balances
		if op.Bal != nil {
			bal = op.Bal
		}
		pr := map[fcmodel.Ref]bool{}
		for _, r := range plan.Prunable {
			pr[r] = true
		}
		var dropped []fcmodel.Ref
		for _, r := range g.order { // assumed reporting order: insertion order
			if !pr[r] || !g.m.Has(r) {
				continue
			}
			if g.c.Cfg.Sink != "nil" {
				g.calls++
				if g.c.Cfg.Sink == "fail" && g.calls == g.c.Cfg.FailAt {
					break
				}
			}
			dropped = append(dropped, r)
		}
		g.m.CommitUpdate(plan, j, f, bal, dropped)
	}
}

func (g *gen) noteNew() {
	have := map[fcmodel.Ref]bool{}
	for _, r := range g.order {
		have[r] = true
	}
	for _, r := range g.m.Refs() {
		if !have[r] {
			g.order = append(g.order, r)
		}
	}
}

// Gen draws one history.
func Gen(t *rapid.T, p Profile) *Case {
	g := &gen{t: t, p: p, ids: map[fcmodel.Root]int{}, nextID: 2}
	c := &Case{}
	g.c = c
	c.Cfg.SPE = 4
	c.Cfg.AnchorRoot = 1
	c.Cfg.AnchorParent = 0
	g.t = t
	if len(p.SPEs) > 0 {
		c.Cfg.SPE = p.SPEs[g.uni(len(p.SPEs), "spe")]
	}
	spe := c.Cfg.SPE
	c.Cfg.AnchorSlot = []uint64{0, 0, 0, 0, spe, 2 * spe}[g.uni(6, "anchor_slot")]
	c.Cfg.JE = c.Cfg.AnchorSlot / spe
	c.Cfg.FE = c.Cfg.JE
	g.nval = g.intn(1, p.MaxVals, "nval")
	c.Cfg.Bal = g.genBal("bal0")
	c.Cfg.Sink = p.Sinks[g.uni(len(p.Sinks), "sink")]
	if c.Cfg.Sink == "fail" {
		c.Cfg.FailAt = g.intn(1, 8, "fail_at")
	}
	ar := g.root(1)
	g.root(0)
	g.m = fcmodel.New(spe, fcmodel.Checkpoint{Root: ar, Epoch: c.Cfg.FE}, fcmodel.Checkpoint{Root: ar, Epoch: c.Cfg.JE},
		fcmodel.Ref{Root: ar, Slot: c.Cfg.AnchorSlot}, g.root(0), c.Cfg.Bal)
	g.order = []fcmodel.Ref{{Root: ar, Slot: c.Cfg.AnchorSlot}}
	var kinds []string
	for k := range p.W {
		kinds = append(kinds, k)
	}
	sort.Strings(kinds)
	total := 0
	for _, k := range kinds {
		total += p.W[k]
	}
	n := g.intn(p.MinOps, p.MaxOps, "nops")
	if g.chance(4, "short") { // lets the shrinker go below MinOps; rare in generation
		n = g.intn(1, p.MinOps, "nops_short")
	}
	for i := 0; i < n; i++ {
		x := g.intn(0, total-1, "kind")
		k := kinds[0]
		for _, kk := range kinds {
			if x < p.W[kk] {
				k = kk
				break
			}
			x -= p.W[kk]
		}
		if i < 6 && g.chance(50, "early_block") { // get a tree going before anything else
			k = KBlock
		}
		op := g.genOp(k)
		g.apply(&op)
		c.Ops = append(c.Ops, op)
	}
	return c
}
