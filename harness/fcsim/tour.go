package fcsim

import (
	"math/bits"

	"pgregory.net/rapid"
)

// Directed templates ("class tour"): each builds one history that lands in a mandatory class; the
// free details (slot distances, balances, which validator, sink failure position) are rapid draws.

type B struct {
	t *rapid.T
	c *Case
}

func NewB(t *rapid.T, sink string, failAt int, bal []uint64) *B {
	return &B{t: t, c: &Case{Cfg: Config{SPE: 4, AnchorRoot: 1, AnchorParent: 0, Bal: bal, Sink: sink, FailAt: failAt}}}
}

func (b *B) uni(n int, l string) int {
	if n <= 1 {
		return 0
	}
	nb := bits.Len(uint(n - 1))
	for {
		v := 0
		for i := 0; i < nb; i++ {
			if rapid.Bool().Draw(b.t, l) {
				v |= 1 << i
			}
		}
		if v < n {
			return v
		}
	}
}
func (b *B) op(o Op) *B { b.c.Ops = append(b.c.Ops, o); return b }
func (b *B) Block(p, r int, s uint64, je, fe uint64) *B {
	return b.op(Op{K: KBlock, P: p, R: r, S: s, JE: je, FE: fe})
}
func (b *B) Slot(p int, s uint64, je, fe uint64) *B {
	return b.op(Op{K: KSlot, P: p, S: s, JE: je, FE: fe})
}
func (b *B) Att(v, r int, s uint64) *B { return b.op(Op{K: KAtt, V: v, R: r, S: s}) }
func (b *B) Head() *B                  { return b.op(Op{K: KHead}) }
func (b *B) Pin(r int, s uint64) *B    { return b.op(Op{K: KPin, R: r, S: s}) }
func (b *B) Upd(t int, j, f Cp, bal []uint64) *B {
	return b.op(Op{K: KUpd, T: t, J: &j, F: &f, Bal: bal})
}
func (b *B) AllQueries(root int, firstSlot, headSlot uint64, other int) *B {
	b.op(Op{K: KGetSlot, R: root}).op(Op{K: KGetSlot, R: other})
	b.op(Op{K: KInSub, P: root, R: other}).op(Op{K: KInSub, P: other, R: root})
	b.op(Op{K: KClosest, R: root, S: firstSlot + 1}).op(Op{K: KClosest, R: root, S: headSlot + 3})
	if firstSlot > 0 {
		b.op(Op{K: KClosest, R: root, S: firstSlot - 1}).op(Op{K: KCanon, R: root, S: firstSlot - 1})
	}
	b.op(Op{K: KChain, R: root, S: firstSlot})
	for s := firstSlot; s <= headSlot+1; s++ {
		b.op(Op{K: KCanon, R: root, S: s, WB: false}).op(Op{K: KCanon, R: root, S: s, WB: true})
	}
	b.op(Op{K: KSearch, R: root, S: firstSlot})
	b.op(Op{K: KSearch, R: root, S: firstSlot, QP: &root})
	sl := firstSlot + 1
	b.op(Op{K: KSearch, R: root, S: firstSlot, QS: &sl})
	b.op(Op{K: KFHead, R: root, S: firstSlot})
	return b
}

func bals(b *B, n int) []uint64 {
	out := make([]uint64, n)
	for i := range out {
		out[i] = uint64(1 + b.uni(3, "bal"))
	}
	return out
}

// TourC09: a tie broken by root; a vote moved between branches; a non-viable best branch; a head on
// a gap-slot node.
func TourC09() []TourCase {
	return []TourCase{
		{"65536-vote-changes-between-two-head-computations", func(t *rapid.T) *Case {
			// a whole slot of a large network votes between two head computations: exactly k*65536 accepted vote
			// changes (and around that count), all for the branch that loses without them
			b := NewB(t, "ok", 0, []uint64{3, 3, 3})
			extra := []int{0, 0, 1, -1, 65536}[b.uni(5, "extra")]
			n := 65536 + extra
			b.c.Cfg.BalN, b.c.Cfg.BalEach = n, 1
			s := uint64(1 + b.uni(2, "slot"))
			b.Block(1, 2, s, 0, 0).Block(1, 3, s, 0, 0).Att(0, 2, s).Att(1, 2, s).Att(2, 3, s).Head()
			b.op(Op{K: KAttN, V: 3, N: n, R: 3, S: s}).Head()
			if b.uni(2, "again") == 1 {
				// ... and once more in the next epoch, for the other branch
				b.Block(2, 4, 4+s, 0, 0).Head().op(Op{K: KAttN, V: 3, N: n, R: 4, S: 4 + s}).Head()
			}
			return b.c
		}},
		{"tie-broken-by-root", func(t *rapid.T) *Case {
			b := NewB(t, "ok", 0, []uint64{1, 1, 1, 1})
			s := uint64(1 + b.uni(3, "slot"))
			b.Block(1, 2, s, 0, 0).Block(1, 3, s, 0, 0).Head()
			// equal weight on both branches, then three more (ignored or equal) votes
			b.Att(0, 2, s).Att(1, 3, s).Att(0, 3, s).Head().Block(2, 4, s+1, 0, 0).Block(3, 5, s+1, 0, 0)
			b.Att(2, 4, s+1).Att(3, 5, s+1).Head().Att(0, 5, s+4).Att(1, 4, s+4).Head()
			b.Slot(5, s+4, 0, 0).Slot(4, s+4, 0, 0).Att(0, 5, s+4).Att(1, 4, s+4).Head()
			return b.c
		}},
		{"vote-moved-between-branches", func(t *rapid.T) *Case {
			b := NewB(t, "ok", 0, nil)
			b.c.Cfg.Bal = bals(b, 4)
			b.Block(1, 2, 1, 0, 0).Block(1, 3, 1, 0, 0).Att(0, 2, 1).Att(1, 2, 1).Att(2, 3, 1).Head()
			d := uint64(b.uni(3, "d"))
			b.Block(3, 4, 4+d, 0, 0).Att(0, 4, 4+d).Head().Att(1, 3, 4+d).Head().Att(3, 2, 1).Head()
			return b.c
		}},
		{"non-viable-best-branch", func(t *rapid.T) *Case {
			// the store starts at justified epoch 1: a branch whose nodes carry epoch 2 is not viable
			b := NewB(t, "ok", 0, []uint64{1, 1, 1, 1})
			b.c.Cfg.AnchorSlot, b.c.Cfg.JE, b.c.Cfg.FE = 4, 1, 1
			b.Block(1, 2, 5, 1, 1).Block(1, 3, 5, 2, 1).Block(3, 4, 6, 2, 1).Block(2, 5, 6, 1, 1).Block(2, 6, 6, 1, 1)
			b.Att(0, 4, 6).Att(1, 4, 6).Att(2, 3, 5).Head().Att(3, 5, 6).Head().op(Op{K: KFHead, R: 3, S: 5})
			b.Slot(4, 8, 2, 1).Att(0, 4, 8).Head().Att(3, 6, 8).Head()
			return b.c
		}},
		{"finalization-advances-on-the-same-root", func(t *rapid.T) *Case {
			// no block for more than an epoch after the anchor: the checkpoints of epochs 1 (and 2) are gap-slot nodes of the
			// anchor's own root, so finalization advances while its ROOT stays the same; votes on earlier gap nodes and a
			// block built on the root afterwards then decide the head from the new start node
			b := NewB(t, "ok", 0, nil)
			b.c.Cfg.Bal = bals(b, 4)
			last := uint64(8 + b.uni(3, "last"))
			b.Slot(1, last, 0, 0).Att(0, 1, last).Att(1, 1, 2).Head()
			if b.uni(3, "early_fork") > 0 {
				// a block that leaves the root's gap chain BEFORE the checkpoint slot, carrying the heaviest vote: it stops
				// being a candidate the moment finalization advances to the gap-slot checkpoint of the same root
				b.Block(1, 5, uint64(1+b.uni(3, "fork_slot")), 0, 0).Att(3, 5, 3).Att(2, 5, 3).Head()
			}
			b.Upd(1, Cp{1, 1}, Cp{1, 1}, nil).Head()
			b.Block(1, 2, last+1, 1, 1).Head().Att(2, 2, last+1).Head()
			if b.uni(2, "second") == 1 {
				b.Upd(1, Cp{1, 2}, Cp{1, 2}, nil).Head().Block(1, 3, last+2, 2, 2).Att(3, 3, last+2).Head()
			}
			b.Block(2, 4, last+3, 1, 1).Att(0, 4, last+3).Head()
			return b.c
		}},
		{"head-on-gap-slot-node", func(t *rapid.T) *Case {
			b := NewB(t, "ok", 0, []uint64{1, 1, 1, 1})
			n := uint64(2 + b.uni(3, "n"))
			b.Block(1, 2, 1, 0, 0).Slot(2, 1+n, 0, 0).Block(2, 3, 2, 0, 0).Att(0, 2, 1+n).Att(1, 2, 2).Att(2, 3, 2).Head()
			b.Block(2, 4, 3, 0, 0).Att(3, 4, 3).Head().Slot(2, 8, 0, 0).Att(0, 2, 8).Att(1, 2, 8).Head()
			return b.c
		}},
	}
}

// prunable tree: 1@0 <- 2@1 <- 3@4 (je=fe=1) <- 4@5, fork 5@2 on 2 inserted AFTER the block that
// will be finalized, gap slots (2,2..4).
func pruneBase(b *B) *B {
	return b.Block(1, 2, 1, 0, 0).Block(2, 3, 4, 1, 1).Block(3, 4, 5, 1, 1).Block(2, 5, 2, 0, 0).
		Att(0, 4, 5).Att(1, 5, 2).Att(2, 3, 4).Head()
}

func after(b *B) *B {
	return b.Head().Block(4, 6, 6, 1, 1).Att(0, 6, 8).Att(1, 6, 6).Head().Block(5, 7, 3, 0, 0).Att(3, 5, 2).
		Slot(6, 8, 1, 1).Att(2, 6, 8).Head().Block(3, 8, 5, 1, 1).Head()
}

// TourC10: prune with >= 2 nodes and >= 3 following ops on a block anchor and on a gap-slot anchor,
// pinned and unpinned, failing sink, nil sink, and the refusal classes.
func TourC10() []TourCase {
	return []TourCase{
		{"prune-block-anchor-pinned", func(t *rapid.T) *Case {
			b := NewB(t, "ok", 0, nil)
			b.c.Cfg.Bal = bals(b, 4)
			pruneBase(b).Upd(4, Cp{3, 1}, Cp{3, 1}, nil)
			return after(b).c
		}},
		{"prune-gap-anchor", func(t *rapid.T) *Case {
			b := NewB(t, "ok", 0, nil)
			b.c.Cfg.Bal = bals(b, 4)
			d := uint64(b.uni(2, "d"))
			// 2@2+d, next block 3@6: the epoch-1 checkpoint of that chain is (2, slot 4), a gap-slot node
			b.Block(1, 2, 2+d, 0, 0).Block(2, 3, 6, 1, 1).Block(2, 4, 3+d, 0, 0).Block(1, 5, 1, 0, 0).Att(0, 3, 6).Att(1, 4, 3+d).Head()
			b.Upd(3, Cp{2, 1}, Cp{2, 1}, bals(b, 4))
			b.Head().Block(3, 6, 7, 1, 1).Att(0, 6, 8).Head().Block(2, 7, 5, 1, 1).Att(1, 7, 5).Head().Block(4, 8, 6, 0, 0).Head()
			return b.c
		}},
		{"prune-unpinned-second-finalization", func(t *rapid.T) *Case {
			b := NewB(t, "ok", 0, nil)
			b.c.Cfg.Bal = bals(b, 4)
			pruneBase(b).Upd(4, Cp{3, 1}, Cp{3, 1}, nil)
			b.Block(4, 6, 8, 2, 2).Block(6, 7, 9, 2, 2).Block(4, 8, 7, 1, 1).Att(0, 7, 9).Head()
			b.Upd(7, Cp{6, 2}, Cp{6, 2}, nil)
			b.Head().Block(7, 9, 10, 2, 2).Att(1, 9, 10).Head().Block(8, 10, 9, 1, 1).Head()
			return b.c
		}},
		{"sink-fails-partway", func(t *rapid.T) *Case {
			b := NewB(t, "fail", 0, nil)
			b.c.Cfg.FailAt = 1 + b.uni(7, "fail_at")
			b.c.Cfg.Bal = bals(b, 4)
			pruneBase(b).Upd(4, Cp{3, 1}, Cp{3, 1}, nil)
			after(b)
			// a later finalization must report what the failed prune left behind
			b.Upd(6, Cp{6, 2}, Cp{6, 2}, nil).Head().Block(6, 9, 9, 2, 2).Att(0, 9, 9).Head()
			return b.c
		}},
		{"nil-sink", func(t *rapid.T) *Case {
			b := NewB(t, "nil", 0, nil)
			b.c.Cfg.Bal = bals(b, 4)
			pruneBase(b).Upd(4, Cp{3, 1}, Cp{3, 1}, nil)
			return after(b).c
		}},
		{"refusals-and-noops", func(t *rapid.T) *Case {
			b := NewB(t, "ok", 0, nil)
			b.c.Cfg.Bal = bals(b, 4)
			pruneBase(b)
			b.Upd(4, Cp{1, 0}, Cp{1, 0}, nil)                  // equal pair: no-op
			b.Upd(4, Cp{3, 1}, Cp{50, 1}, nil)                 // unknown finalized root
			b.Upd(4, Cp{51, 1}, Cp{1, 0}, nil)                 // unknown justified root
			b.Upd(4, Cp{3, 1}, Cp{3, 2}, nil)                  // justified epoch below finalized epoch
			b.Upd(52, Cp{3, 1}, Cp{3, 1}, nil)                 // unknown trigger while pinned
			b.Pin(3, 4).Upd(5, Cp{3, 1}, Cp{1, 0}, nil)        // trigger outside the pinned subtree
			b.Pin(1, 0).Upd(4, Cp{3, 1}, Cp{3, 1}, nil).Head() // valid: finalizes (3, epoch 1)
			b.Upd(4, Cp{4, 2}, Cp{4, 0}, nil)                  // finalized checkpoint of an older epoch
			b.Upd(4, Cp{3, 1}, Cp{1, 0}, nil)                  // behind: no-op
			b.Block(3, 6, 8, 2, 1).Block(4, 7, 8, 2, 1).Head()
			b.Upd(7, Cp{7, 2}, Cp{3, 1}, nil).Head() // justified advances alone
			b.Upd(7, Cp{7, 2}, Cp{6, 2}, nil)        // finalized (6,2) lies in the finalized subtree: accepted, and prunes the justified branch
			b.Head().Block(6, 8, 9, 2, 2).Head().Att(0, 8, 9).Head()
			return b.c
		}},
		{"conflicting-checkpoints", func(t *rapid.T) *Case {
			b := NewB(t, "ok", 0, nil)
			b.c.Cfg.Bal = bals(b, 4)
			pruneBase(b).Upd(4, Cp{3, 1}, Cp{3, 1}, nil).Block(4, 6, 8, 2, 2).Block(3, 7, 8, 2, 2).Block(6, 8, 9, 2, 2).Head()
			b.Upd(8, Cp{6, 2}, Cp{6, 2}, nil).Head() // finalize branch 6
			b.Upd(8, Cp{8, 3}, Cp{2, 3}, nil)        // finalized root pruned long ago: unknown
			b.Block(6, 9, 12, 3, 2).Block(6, 10, 12, 3, 2).Block(9, 11, 13, 3, 3)
			b.Upd(11, Cp{9, 3}, Cp{9, 3}, nil).Head() // finalize 9: sibling 10 is pruned
			b.Upd(11, Cp{11, 4}, Cp{10, 4}, nil)      // finalized on the pruned sibling: unknown
			b.Block(9, 12, 13, 3, 3).Block(11, 13, 16, 4, 3).Head()
			b.Upd(13, Cp{12, 4}, Cp{9, 3}, nil).Head() // justified on a known branch inside the finalized subtree
			b.Upd(13, Cp{13, 5}, Cp{12, 4}, nil)       // finalized (12, epoch 4): node (12,16) does not exist: nothing pruned
			b.Head().Att(0, 13, 16).Head()
			return b.c
		}},
		{"65536-vote-changes-after-a-prune", func(t *rapid.T) *Case {
			// "later votes keep working": after a finalization pruned the tree, a whole slot of a large network votes
			// between two head computations
			b := NewB(t, "ok", 0, nil)
			b.c.Cfg.Bal = bals(b, 4)
			n := 65536 + []int{0, 0, 1, 65536}[b.uni(4, "extra")]
			b.c.Cfg.BalN, b.c.Cfg.BalEach = n, 1
			pruneBase(b).Upd(4, Cp{3, 1}, Cp{3, 1}, nil)
			b.Head().Block(4, 6, 6, 1, 1).Block(4, 9, 6, 1, 1).Att(0, 6, 6).Att(1, 6, 6).Att(2, 6, 6).Att(3, 6, 6).Head()
			b.op(Op{K: KAttN, V: 4, N: n, R: 9, S: 6}).Head().op(Op{K: KFHead, R: 3, S: 4})
			return b.c
		}},
	}
}

// TourC11: every query kind with a non-trivial answer on a tree with a fork and gap slots, before
// and after a prune.
func TourC11() []TourCase {
	tree := func(b *B) *B {
		// 1@0 <- 2@1 <- {3@3, 4@2}, 1 <- 5@2, gaps (2,2),(2,3),(3,4),(3,5); epoch-1 chain via 3: 3@3 <- 6@4 <- 7@6
		return b.Block(1, 2, 1, 0, 0).Block(2, 3, 3, 0, 0).Block(2, 4, 2, 0, 0).Block(1, 5, 2, 0, 0).Slot(3, 5, 0, 0).
			Block(3, 6, 4, 1, 1).Block(6, 7, 6, 1, 1).Block(6, 8, 5, 1, 1).Att(0, 7, 6).Att(1, 3, 5).Att(2, 5, 2).Head()
	}
	return []TourCase{
		{"queries-before-prune", func(t *rapid.T) *Case {
			b := NewB(t, "ok", 0, nil)
			b.c.Cfg.Bal = bals(b, 3)
			tree(b).AllQueries(1, 0, 6, 7).AllQueries(2, 1, 6, 5).AllQueries(3, 3, 6, 4).AllQueries(50, 0, 2, 1)
			return b.c
		}},
		{"queries-after-prune", func(t *rapid.T) *Case {
			b := NewB(t, "ok", 0, nil)
			b.c.Cfg.Bal = bals(b, 3)
			tree(b).Upd(7, Cp{6, 1}, Cp{6, 1}, nil).Head()
			b.AllQueries(6, 4, 6, 8).AllQueries(3, 3, 6, 7).AllQueries(1, 0, 6, 6).Block(7, 9, 7, 1, 1).Block(6, 10, 7, 1, 1).Head().AllQueries(6, 4, 7, 10)
			return b.c
		}},
		{"queries-after-prune-gap-anchor", func(t *rapid.T) *Case {
			b := NewB(t, "ok", 0, nil)
			b.c.Cfg.Bal = bals(b, 3)
			// 2@1 <- 3@6 with (2,4) a gap-slot checkpoint; sibling 4@4 builds on the same slot node
			b.Block(1, 2, 1, 0, 0).Block(2, 3, 6, 1, 1).Block(2, 4, 4, 1, 1).Block(2, 5, 3, 0, 0).Att(0, 3, 6).Att(1, 4, 4).Head()
			b.AllQueries(2, 1, 6, 4)
			b.Upd(3, Cp{2, 1}, Cp{2, 1}, nil).Head().AllQueries(2, 4, 6, 4).AllQueries(5, 3, 4, 2).Block(3, 6, 7, 1, 1).Head().AllQueries(2, 4, 7, 6)
			return b.c
		}},
	}
}

// Case returns the history built so far (used by C17's directed concurrent programs).
func (b *B) Case() *Case { return b.c }
