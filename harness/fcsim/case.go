// Package fcsim is the shared history generator and lock-step executor of C09, C10 and C11:
// a Case is {config, ops[]} in plain JSON; Run replays it on a fresh ProtoForkChoice and on
// fcmodel side by side and returns the first Failure that belongs to the property asked for.
package fcsim

import (
	"crypto/sha256"
	"fmt"
	"strings"

	"zrntverif/fcmodel"
)

// Root ids are small integers; id 0 is the zero root (parent of the anchor block, as
// proto_array.go asks: "the parent root of the genesis block should be zeroed"), any other id is
// hashed into 32 bytes so that root order is unrelated to insertion order.
func RootOf(id int) fcmodel.Root {
	if id == 0 {
		return fcmodel.Root{}
	}
	return sha256.Sum256([]byte(fmt.Sprintf("fcsim-root-%d", id)))
}

type Cp struct {
	R int    `json:"r"`
	E uint64 `json:"e"`
}

type Config struct {
	SPE          uint64   `json:"spe"`
	AnchorRoot   int      `json:"anchor_root"`
	AnchorSlot   uint64   `json:"anchor_slot"`
	AnchorParent int      `json:"anchor_parent"`
	JE           uint64   `json:"je"` // initial justified = (anchor root, JE)
	FE           uint64   `json:"fe"` // initial finalized = (anchor root, FE)
	Bal          []uint64 `json:"bal"`
	// BalN further validators with balance BalEach each follow the listed ones (tens of thousands of voters
	// without tens of thousands of numbers in the case)
	BalN    int    `json:"bal_n,omitempty"`
	BalEach uint64 `json:"bal_each,omitempty"`
	Sink         string   `json:"sink"`              // "ok" | "nil" | "fail"
	FailAt       int      `json:"fail_at,omitempty"` // sink=fail: the FailAt-th OnPrunedNode call (1-based, counted over the whole case) returns an error
}

// Op kinds.
const (
	KBlock   = "block"   // ProcessBlock(P, R, S, JE, FE)
	KSlot    = "slot"    // ProcessSlot(P, S, JE, FE)
	KAtt     = "att"     // ProcessAttestation(V, R, S)
	KAttN    = "attn"    // ProcessAttestation(v, R, S) for v = V … V+N-1
	KUpd     = "upd"     // UpdateJustified(T, J, F, balances)
	KPin     = "pin"     // SetPin(R, S)
	KHead    = "head"    // Head()
	KFHead   = "fhead"   // FindHead(R, S)
	KChain   = "chain"   // CanonicalChain(R, S)
	KInSub   = "insub"   // InSubtree(P, R)
	KClosest = "closest" // ClosestToSlot(R, S)
	KCanon   = "canon"   // CanonAtSlot(R, S, WB)
	KGetSlot = "getslot" // GetSlot(R)
	KSearch  = "search"  // Search({R,S}, QP, QS)
)

type Op struct {
	K      string   `json:"k"`
	P      int      `json:"p,omitempty"`
	R      int      `json:"r,omitempty"`
	S      uint64   `json:"s,omitempty"`
	JE     uint64   `json:"je,omitempty"`
	FE     uint64   `json:"fe,omitempty"`
	V      int      `json:"v,omitempty"`
	N      int      `json:"n,omitempty"`
	T      int      `json:"t,omitempty"`
	J      *Cp      `json:"j,omitempty"`
	F      *Cp      `json:"f,omitempty"`
	Bal    []uint64 `json:"bal,omitempty"`    // upd: new balance vector (nil: unchanged)
	BalErr bool     `json:"balerr,omitempty"` // upd: the balances callback returns an error
	WB     bool     `json:"wb,omitempty"`
	QP     *int     `json:"qp,omitempty"`
	QS     *uint64  `json:"qs,omitempty"`
}

type Case struct {
	Cfg  Config `json:"cfg"`
	Ops  []Op   `json:"ops"`
	Note string `json:"note,omitempty"`
}

func (o Op) String() string {
	switch o.K {
	case KBlock:
		return fmt.Sprintf("ProcessBlock(parent=%d, root=%d, slot=%d, je=%d, fe=%d)", o.P, o.R, o.S, o.JE, o.FE)
	case KSlot:
		return fmt.Sprintf("ProcessSlot(parent=%d, slot=%d, je=%d, fe=%d)", o.P, o.S, o.JE, o.FE)
	case KAtt:
		return fmt.Sprintf("ProcessAttestation(v=%d, root=%d, slot=%d)", o.V, o.R, o.S)
	case KUpd:
		return fmt.Sprintf("UpdateJustified(trigger=%d, justified=%v, finalized=%v, bal=%v, balerr=%v)", o.T, *o.J, *o.F, o.Bal, o.BalErr)
	case KPin:
		return fmt.Sprintf("SetPin(%d, %d)", o.R, o.S)
	case KHead:
		return "Head()"
	case KFHead:
		return fmt.Sprintf("FindHead(%d, %d)", o.R, o.S)
	case KChain:
		return fmt.Sprintf("CanonicalChain(%d, %d)", o.R, o.S)
	case KInSub:
		return fmt.Sprintf("InSubtree(anchor=%d, root=%d)", o.P, o.R)
	case KClosest:
		return fmt.Sprintf("ClosestToSlot(%d, %d)", o.R, o.S)
	case KCanon:
		return fmt.Sprintf("CanonAtSlot(%d, %d, withBlock=%v)", o.R, o.S, o.WB)
	case KGetSlot:
		return fmt.Sprintf("GetSlot(%d)", o.R)
	case KSearch:
		p, s := "nil", "nil"
		if o.QP != nil {
			p = fmt.Sprint(*o.QP)
		}
		if o.QS != nil {
			s = fmt.Sprint(*o.QS)
		}
		return fmt.Sprintf("Search(anchor=(%d,%d), parent=%s, slot=%s)", o.R, o.S, p, s)
	}
	return o.K
}

// Owns tells whether a failure signature belongs to a property. Signatures are
// "<Call>/<symptom>[@post-prune]".
//
//	C09: head selection and vote acceptance; C10: UpdateJustified, the prune sink, the checkpoint
//	getters and every call made after a finalization advance; C11: navigation queries and the node
//	set created by insertions.
func Owns(prop, sig string) bool {
	if strings.HasPrefix(sig, "harness") {
		return true
	}
	call := sig
	if i := strings.Index(sig, "/"); i >= 0 {
		call = sig[:i]
	}
	post := strings.HasSuffix(sig, "@post-prune")
	switch prop {
	case "C09":
		switch call {
		case "Head", "FindHead", "ProcessAttestation", "SetPin":
			return true
		}
	case "C10":
		switch call {
		case "UpdateJustified", "Prune", "Getters":
			return true
		}
		return post
	case "C11":
		switch call {
		case "CanonicalChain", "InSubtree", "ClosestToSlot", "CanonAtSlot", "GetSlot", "Search", "ProcessBlock", "ProcessSlot", "Nodes":
			return true
		}
	}
	return false
}
