package fcsim

import (
	"fmt"
	"sort"

	"github.com/protolambda/zrnt/eth2/beacon/common"

	"zrntverif/fcmodel"
	"zrntverif/report"
)

func (x *exec) rootClass(r fcmodel.Root) string {
	if _, ok := x.m.FirstSlot(r); ok {
		return "known"
	}
	if x.ever[r] {
		return "pruned"
	}
	return "never-inserted"
}

// forkAndGap: the tree has a node with >= 2 fork-choice children and a gap-slot node.
func (x *exec) forkAndGap() bool {
	fork, gap := false, false
	for _, r := range x.m.Refs() {
		if len(x.m.FCChildren(r)) >= 2 {
			fork = true
		}
		if !x.m.Nodes[r].IsBlock() {
			gap = true
		}
	}
	return fork && gap
}

// treeClass: coarse shape of the tree a query was asked on (nodes, forking nodes, roots with gap slots).
func (x *exec) treeClass() string {
	forks, gapRoots := 0, map[fcmodel.Root]bool{}
	for _, r := range x.m.Refs() {
		if len(x.m.FCChildren(r)) >= 2 {
			forks++
		}
		if !x.m.Nodes[r].IsBlock() {
			gapRoots[r.Root] = true
		}
	}
	return "n" + bucket(len(x.m.Nodes)/4) + "x4-f" + bucket(forks) + "-g" + bucket(len(gapRoots))
}

// query accounting: class histogram + non-triviality key
func (x *exec) q(kind, class string, nontrivial bool) {
	if x.inSweep {
		return
	}
	when := "pre-prune"
	if x.post {
		when = "post-prune"
	}
	x.tag("q:" + kind + ":" + class)
	x.tag("q-when:" + when)
	if nontrivial {
		x.tag("q-nontrivial:" + kind)
		if x.o.Prop == "C11" && x.forkAndGap() {
			x.res.Keys = append(x.res.Keys, "C11|"+kind+"|"+class+"|"+when+"|"+x.treeClass())
		}
	}
}

func (x *exec) doGetSlot(op *Op) *report.Failure {
	r := x.root(op.R)
	want, ok := x.m.FirstSlot(r)
	var got common.Slot
	var gok bool
	if f := x.call("GetSlot", func() { got, gok = x.fc.GetSlot(r) }); f != nil {
		return f
	}
	cls := x.rootClass(r)
	if !ok && gok {
		return x.failf("GetSlot/unknown-not-reported", "root %s (%s) has no node, GetSlot returned (%d, true)", x.nm(r), cls, got)
	}
	if ok && !gok {
		return x.failf("GetSlot/lost", "root %s has nodes from slot %d, GetSlot says unknown", x.nm(r), want)
	}
	if ok && uint64(got) != want {
		return x.failf("GetSlot/mismatch", "GetSlot(%s) = %d, lowest retained node is at slot %d", x.nm(r), got, want)
	}
	if ok && !x.m.Nodes[fcmodel.Ref{Root: r, Slot: want}].IsBlock() {
		cls = "known-first-node-is-gap"
	}
	x.q("GetSlot", cls, ok && r != x.root(x.c.Cfg.AnchorRoot))
	return nil
}

func (x *exec) doInSub(op *Op) *report.Failure {
	a, r := x.root(op.P), x.root(op.R)
	wunk, win := x.m.InSubtree(a, r)
	var gunk, gin bool
	if f := x.call("InSubtree", func() { gunk, gin = x.fc.InSubtree(a, r) }); f != nil {
		return f
	}
	cls := x.rootClass(a) + "/" + x.rootClass(r)
	nt := false
	if !wunk {
		switch {
		case a == r:
			cls = "equal"
		case win:
			cls, nt = "ancestor", true
		default:
			if _, rev := x.m.InSubtree(r, a); rev {
				cls, nt = "reversed", true
			} else {
				cls, nt = "other-branch", true
			}
		}
	} else if a == r {
		cls = "equal-" + x.rootClass(a)
	}
	switch {
	case wunk && !gunk:
		return x.failf("InSubtree/unknown-not-reported", "InSubtree(%s, %s) [%s] = (unknown=false, in=%v); model: unknown", x.nm(a), x.nm(r), cls, gin)
	case !wunk && gunk:
		return x.failf("InSubtree/spurious-unknown", "InSubtree(%s, %s) [%s] reported unknown; both roots have nodes", x.nm(a), x.nm(r), cls)
	case !wunk && win && !gin:
		return x.failf("InSubtree/false-negative", "InSubtree(%s, %s) = false; first node of %s descends from first node of %s", x.nm(a), x.nm(r), x.nm(r), x.nm(a))
	case !wunk && !win && gin:
		return x.failf("InSubtree/false-positive", "InSubtree(%s, %s) [%s] = true; first node of %s does not descend from first node of %s", x.nm(a), x.nm(r), cls, x.nm(r), x.nm(a))
	case wunk && gin:
		return x.failf("InSubtree/unknown-but-in", "InSubtree(%s, %s) = (unknown, in=true)", x.nm(a), x.nm(r))
	}
	x.q("InSubtree", cls, nt)
	return nil
}

func (x *exec) doClosest(op *Op) *report.Failure {
	a := x.root(op.R)
	want, ok := x.m.ClosestToSlot(a, op.S)
	var got common.NodeRef
	var err error
	if f := x.call("ClosestToSlot", func() { got, err = x.fc.ClosestToSlot(a, common.Slot(op.S)) }); f != nil {
		return f
	}
	cls := x.rootClass(a)
	if fs, known := x.m.FirstSlot(a); known {
		ls, _ := x.m.LastSlot(a)
		switch {
		case op.S < fs:
			cls = "before-first-node"
		case op.S == fs:
			cls = "at-first-node"
		case op.S <= ls:
			cls = "exact-gap-node"
		default:
			cls = "beyond-last-node"
		}
	}
	if ok && err != nil {
		return x.failf("ClosestToSlot/unexpected-error", "ClosestToSlot(%s, %d) [%s] error %q, model %s", x.nm(a), op.S, cls, err, x.rs(want))
	}
	if !ok && err == nil {
		return x.failf("ClosestToSlot/missing-error", "ClosestToSlot(%s, %d) [%s] = %s, model: error", x.nm(a), op.S, cls, x.rs(toRef(got)))
	}
	if ok && toRef(got) != want {
		return x.failf("ClosestToSlot/mismatch", "ClosestToSlot(%s, %d) [%s] = %s, model %s", x.nm(a), op.S, cls, x.rs(toRef(got)), x.rs(want))
	}
	fs, _ := x.m.FirstSlot(a)
	x.q("ClosestToSlot", cls, ok && want.Slot != fs)
	return nil
}

func (x *exec) doChain(op *Op) *report.Failure {
	a := fcmodel.Ref{Root: x.root(op.R), Slot: op.S}
	want, ok := x.m.CanonicalChain(a)
	var got []common.ExtendedNodeRef
	var err error
	if f := x.call("CanonicalChain", func() { got, err = x.fc.CanonicalChain(a.Root, common.Slot(a.Slot)) }); f != nil {
		return f
	}
	cls := "unknown-anchor"
	if n := x.m.Nodes[a]; n != nil {
		cls = "no-viable-head"
		if ok {
			cls = "anchor-block-node"
			if !n.IsBlock() {
				cls = "anchor-gap-slot-node"
			}
			cls += "/len" + bucket(len(want))
		}
	}
	if ok && err != nil {
		return x.failf("CanonicalChain/unexpected-error", "CanonicalChain%s error %q, model has %d entries", x.rs(a), err, len(want))
	}
	if !ok && err == nil {
		return x.failf("CanonicalChain/missing-error", "CanonicalChain%s [%s] returned %d entries, model: error", x.rs(a), cls, len(got))
	}
	if ok {
		show := func() string {
			s := ""
			for _, e := range got {
				s += x.rs(toRef(e.NodeRef)) + " "
			}
			return s
		}
		prefixOK := len(got) >= len(want)
		for i := 0; i < len(want) && prefixOK; i++ {
			if toRef(got[i].NodeRef) != want[i].Ref || got[i].ParentRoot != want[i].ParentRoot {
				prefixOK = false
			}
		}
		if prefixOK && len(got) > len(want) {
			return x.failf("CanonicalChain/past-anchor", "CanonicalChain%s continues past the anchor: got %s; model stops after %d entries", x.rs(a), show(), len(want))
		}
		if !prefixOK {
			ws := ""
			for _, e := range want {
				ws += x.rs(e.Ref) + " "
			}
			return x.failf("CanonicalChain/mismatch", "CanonicalChain%s = %s; model %s", x.rs(a), show(), ws)
		}
	}
	x.q("CanonicalChain", cls, ok && len(want) >= 2)
	return nil
}

func (x *exec) doCanon(op *Op) *report.Failure {
	a := x.root(op.R)
	want, ok := x.m.CanonAtSlot(a, op.S, op.WB)
	var got common.NodeRef
	var err error
	if f := x.call("CanonAtSlot", func() { got, err = x.fc.CanonAtSlot(a, common.Slot(op.S), op.WB) }); f != nil {
		return f
	}
	cls := x.rootClass(a)
	nt := false
	if fs, known := x.m.FirstSlot(a); known {
		h, hok, _ := x.m.FindHead(fcmodel.Ref{Root: a, Slot: fs})
		switch {
		case op.S < fs:
			cls = "before-first-node"
		case op.S == fs:
			cls = "at-first-node"
		case !hok:
			cls = "no-viable-head"
		case h.Slot < op.S:
			cls, nt = "beyond-head", h.Slot != fs
		case h.Slot == op.S:
			cls, nt = "at-head-slot", true
		default:
			cls, nt = "mid-chain", true
		}
		if ok && want == (fcmodel.Ref{}) {
			cls += "/empty-slot"
		}
	}
	cls = fmt.Sprintf("wb=%v/%s", op.WB, cls)
	if ok && err != nil {
		return x.failf("CanonAtSlot/unexpected-error", "CanonAtSlot(%s, %d, %v) [%s] error %q, model %s", x.nm(a), op.S, op.WB, cls, err, x.rs(want))
	}
	if !ok && err == nil {
		return x.failf("CanonAtSlot/missing-error", "CanonAtSlot(%s, %d, %v) [%s] = %s, model: error", x.nm(a), op.S, op.WB, cls, x.rs(toRef(got)))
	}
	if ok && toRef(got) != want {
		g := toRef(got)
		sig := "CanonAtSlot/mismatch"
		if gn := x.m.Nodes[g]; gn != nil && g.Slot == op.S {
			if !op.WB && gn.IsBlock() {
				sig = "CanonAtSlot/block-node-for-slot-node"
			} else if op.WB && !gn.IsBlock() {
				sig = "CanonAtSlot/slot-node-for-block"
			}
		}
		return x.failf(sig, "CanonAtSlot(%s, %d, withBlock=%v) [%s] = %s, model %s", x.nm(a), op.S, op.WB, cls, x.rs(g), x.rs(want))
	}
	x.q("CanonAtSlot", cls, ok && nt)
	return nil
}

func sortedRefs(in []fcmodel.Ref) []fcmodel.Ref {
	out := append([]fcmodel.Ref{}, in...)
	sort.Slice(out, func(i, j int) bool { return fcmodel.Less(out[i], out[j]) })
	return out
}

func sameRefs(a, b []fcmodel.Ref) bool {
	if len(a) != len(b) {
		return false
	}
	for i := range a {
		if a[i] != b[i] {
			return false
		}
	}
	return true
}

func (x *exec) doSearch(op *Op) *report.Failure {
	a := fcmodel.Ref{Root: x.root(op.R), Slot: op.S}
	var pr *fcmodel.Root
	var ipr *common.Root
	if op.QP != nil {
		p := x.root(*op.QP)
		pr = &p
		q := common.Root(p)
		ipr = &q
	}
	var isl *common.Slot
	if op.QS != nil {
		s := common.Slot(*op.QS)
		isl = &s
	}
	wn, wc, ok := x.m.Search(a, pr, op.QS)
	var gn, gc []common.NodeRef
	var err error
	if f := x.call("Search", func() {
		gn, gc, err = x.fc.Search(common.NodeRef{Root: a.Root, Slot: common.Slot(a.Slot)}, ipr, isl)
	}); f != nil {
		return f
	}
	mode := "heads"
	switch {
	case pr != nil && op.QS != nil:
		mode = "by-parent-and-slot"
	case pr != nil:
		mode = "by-parent"
	case op.QS != nil:
		mode = "by-slot"
	}
	if ok && err != nil {
		return x.failf("Search/unexpected-error", "Search(%s, %s) error %q", x.rs(a), mode, err)
	}
	if !ok && err == nil {
		return x.failf("Search/missing-error", "Search(%s, %s) returned results, model: error (anchor known: %v)", x.rs(a), mode, x.m.Has(a))
	}
	if !ok {
		x.q("Search", mode+"/error", false)
		return nil
	}
	conv := func(in []common.NodeRef) []fcmodel.Ref {
		out := make([]fcmodel.Ref, len(in))
		for i, n := range in {
			out[i] = toRef(n)
		}
		return sortedRefs(out)
	}
	gns, gcs := conv(gn), conv(gc)
	wns, wcs := sortedRefs(wn), sortedRefs(wc)
	gall, wall := sortedRefs(append(append([]fcmodel.Ref{}, gns...), gcs...)), sortedRefs(append(append([]fcmodel.Ref{}, wns...), wcs...))
	if !sameRefs(gall, wall) {
		return x.failf("Search/"+mode+"-result-set", "Search(%s, %s) = nonCanon %s canon %s; model nonCanon %s canon %s", x.rs(a), mode, x.rss(gns), x.rss(gcs), x.rss(wns), x.rss(wcs))
	}
	if !sameRefs(gcs, wcs) {
		return x.failf("Search/canonical-split", "Search(%s, %s) = nonCanon %s canon %s; model nonCanon %s canon %s", x.rs(a), mode, x.rss(gns), x.rss(gcs), x.rss(wns), x.rss(wcs))
	}
	split := "empty"
	switch {
	case len(wcs) > 0 && len(wns) > 0:
		split = "canon+noncanon"
	case len(wcs) > 0:
		split = "canon-only"
	case len(wns) > 0:
		split = "noncanon-only"
	}
	x.q("Search", mode+"/"+split, len(wall) > 0)
	return nil
}

// sweep asks every query kind about (a bounded selection of) retained nodes, pruned roots and a
// never-inserted root: "every retained node answers all queries as before".
func (x *exec) sweep() *report.Failure {
	x.inSweep = true
	defer func() { x.inSweep = false }()
	var ids []int
	for id := 1; id <= x.maxID+1 && id <= 64; id++ {
		ids = append(ids, id)
	}
	if len(ids) > 14 { // bounded, deterministic selection: first 6, last 6, plus strided middle
		sel := append([]int{}, ids[:6]...)
		for i := 6; i < len(ids)-6; i += 1 + (len(ids)-12)/3 {
			sel = append(sel, ids[i])
		}
		ids = append(sel, ids[len(ids)-6:]...)
	}
	if x.pending {
		if f := x.doHead(&Op{K: KHead}, false); f != nil {
			return f
		}
	}
	for _, id := range ids {
		if f := x.doGetSlot(&Op{K: KGetSlot, R: id}); f != nil {
			return f
		}
		for _, id2 := range ids {
			if f := x.doInSub(&Op{K: KInSub, P: id, R: id2}); f != nil {
				return f
			}
		}
		fs, ok := x.m.FirstSlot(x.root(id))
		if !ok {
			fs = 3
		}
		ls, _ := x.m.LastSlot(x.root(id))
		slots := map[uint64]bool{fs: true, fs + 1: true, ls: true, ls + 1: true, ls + 3: true}
		if fs > 0 {
			slots[fs-1] = true
		}
		if ok {
			if h, hok, _ := x.m.FindHead(fcmodel.Ref{Root: x.root(id), Slot: fs}); hok {
				for s := fs; s <= h.Slot+1 && s < fs+12; s++ {
					slots[s] = true
				}
			}
		}
		var ss []uint64
		for s := range slots {
			ss = append(ss, s)
		}
		sort.Slice(ss, func(i, j int) bool { return ss[i] < ss[j] })
		for _, s := range ss {
			if f := x.doClosest(&Op{K: KClosest, R: id, S: s}); f != nil {
				return f
			}
			for _, wb := range []bool{false, true} {
				if f := x.doCanon(&Op{K: KCanon, R: id, S: s, WB: wb}); f != nil {
					return f
				}
			}
		}
	}
	refs := x.m.Refs()
	step := 1 + len(refs)/16
	for i := 0; i < len(refs); i += step {
		r := refs[i]
		id := x.names[r.Root]
		if f := x.doHead(&Op{K: KFHead, R: id, S: r.Slot}, true); f != nil {
			return f
		}
		if f := x.doChain(&Op{K: KChain, R: id, S: r.Slot}); f != nil {
			return f
		}
		if f := x.doSearch(&Op{K: KSearch, R: id, S: r.Slot}); f != nil {
			return f
		}
		pid := x.names[x.m.Nodes[r].ParentRoot]
		sl := r.Slot
		if f := x.doSearch(&Op{K: KSearch, R: id, S: r.Slot, QP: &id}); f != nil {
			return f
		}
		if f := x.doSearch(&Op{K: KSearch, R: x.names[refs[0].Root], S: refs[0].Slot, QP: &pid, QS: &sl}); f != nil {
			return f
		}
		sl2 := r.Slot + 1
		if f := x.doSearch(&Op{K: KSearch, R: id, S: r.Slot, QS: &sl2}); f != nil {
			return f
		}
	}
	return nil
}
