package fcsim

import (
	"context"
	"errors"
	"fmt"
	"hash/fnv"
	"sort"
	"strings"
	"time"

	"github.com/protolambda/zrnt/eth2/beacon/common"
	"github.com/protolambda/zrnt/eth2/configs"
	"github.com/protolambda/zrnt/eth2/forkchoice"
	"github.com/protolambda/zrnt/eth2/forkchoice/proto"

	"zrntverif/fcmodel"
	"zrntverif/report"
)

type Options struct {
	Prop    string                // "C09" | "C10" | "C11": which failures are verdicts
	Timeout time.Duration         // watchdog per call into the code under test (0: 10 s)
	Known   func(sig string) bool // listed known findings (excluded by construction)
	Sweep   bool                  // after every finalization advance and at the end: query every retained node
}

type Result struct {
	Fail     *report.Failure // first failure owned by Prop
	Other    *report.Failure // a failure owned by another property ended the case without a verdict
	FailOp   int
	Tags     map[string]int // structural facts of the executed history (classes / mandatory classes)
	Keys     []string       // non-triviality classification keys for Prop
	Excluded map[string]int
	OpsDone  int
}

type sinkReport struct {
	ref       fcmodel.Ref
	canonical bool
	failed    bool
}

type pruneStat struct {
	dropped   int
	opsAfter  int
	key       string
	counted   bool
	sinkFail  bool
	anchorGap bool
}

type exec struct {
	c    *Case
	o    Options
	spec *common.Spec
	pa   *proto.ProtoArray
	fc   forkchoice.Forkchoice
	m    *fcmodel.Model
	res  *Result

	post      bool // a finalization advance happened
	pending   bool // votes accepted since the last head computation
	sinkCalls int
	reports   []sinkReport
	names     map[fcmodel.Root]int
	ever      map[fcmodel.Root]bool // roots that had a node at some point
	maxID     int
	leftover  map[fcmodel.Ref]bool // prunable nodes a failed sink left behind
	inSweep   bool

	votesAccepted, votesMoved, votesMovedBranch int
	prunes                                      []*pruneStat
}

func toRef(n common.NodeRef) fcmodel.Ref { return fcmodel.Ref{Root: n.Root, Slot: uint64(n.Slot)} }

func (x *exec) nm(r fcmodel.Root) string {
	if id, ok := x.names[r]; ok {
		return fmt.Sprint(id)
	}
	return fmt.Sprintf("?%x", r[:3])
}
func (x *exec) rs(r fcmodel.Ref) string { return fmt.Sprintf("(%s,%d)", x.nm(r.Root), r.Slot) }
func (x *exec) rss(rs []fcmodel.Ref) string {
	s := make([]string, len(rs))
	for i, r := range rs {
		s[i] = x.rs(r)
	}
	return "[" + strings.Join(s, " ") + "]"
}

func (x *exec) root(id int) fcmodel.Root {
	r := RootOf(id)
	if _, ok := x.names[r]; !ok {
		x.names[r] = id
	}
	return r
}

func (x *exec) sig(s string) string {
	if x.post {
		return s + "@post-prune"
	}
	return s
}

func (x *exec) failf(sig, format string, args ...any) *report.Failure {
	return report.Failf(x.sig(sig), format, args...)
}

func (x *exec) tag(t string) {
	if !x.inSweep {
		x.res.Tags[t]++
	}
}

// call runs one call into the code under test with panic recovery and a watchdog.
func (x *exec) call(name string, fn func()) *report.Failure {
	var pv any
	panicked := false
	done := report.WithTimeout(x.o.Timeout, func() {
		defer func() {
			if p := recover(); p != nil {
				panicked, pv = true, p
			}
		}()
		fn()
	})
	if !done {
		return x.failf(name+"/blocked", "%s did not return within %v", name, x.o.Timeout)
	}
	if panicked {
		return x.failf(name+"/panic", "%s panicked: %v", name, pv)
	}
	return nil
}

// Run replays the case on a fresh fork choice and a fresh model in lock-step.
func Run(c *Case, o Options) *Result {
	if o.Timeout == 0 {
		o.Timeout = 10 * time.Second
	}
	if o.Known == nil {
		o.Known = func(string) bool { return false }
	}
	x := &exec{c: c, o: o, res: &Result{Tags: map[string]int{}, Excluded: map[string]int{}, FailOp: -1},
		names: map[fcmodel.Root]int{}, ever: map[fcmodel.Root]bool{}, leftover: map[fcmodel.Ref]bool{}}
	f := x.run()
	if f != nil {
		if Owns(o.Prop, f.Sig) {
			x.res.Fail = f
		} else {
			x.res.Other = f
		}
	}
	x.finishKeys()
	return x.res
}

func (x *exec) run() (f *report.Failure) {
	defer func() {
		if p := recover(); p != nil {
			f = report.Failf("harness/panic", "executor panicked: %v", p)
		}
	}()
	cfg := &x.c.Cfg
	if cfg.SPE == 0 || len(x.c.Ops) > 5000 {
		return report.Failf("harness/bad-case", "bad config")
	}
	sp := *configs.Minimal
	sp.SLOTS_PER_EPOCH = common.Slot(cfg.SPE)
	x.spec = &sp
	for i := 0; i <= 64; i++ {
		x.root(i)
	}
	ar, ap := x.root(cfg.AnchorRoot), x.root(cfg.AnchorParent)
	fin := common.Checkpoint{Root: ar, Epoch: common.Epoch(cfg.FE)}
	just := common.Checkpoint{Root: ar, Epoch: common.Epoch(cfg.JE)}
	var sink proto.NodeSink
	if cfg.Sink != "nil" {
		sink = proto.NodeSinkFn(func(ctx context.Context, ref common.NodeRef, canonical bool) error {
			x.sinkCalls++
			fail := cfg.Sink == "fail" && x.sinkCalls == cfg.FailAt
			x.reports = append(x.reports, sinkReport{toRef(ref), canonical, fail})
			if fail {
				return errors.New("scripted sink failure")
			}
			return nil
		})
	}
	if cfg.BalN > 0 && cfg.BalN <= 1<<20 {
		all := append([]uint64{}, cfg.Bal...)
		for i := 0; i < cfg.BalN; i++ {
			all = append(all, cfg.BalEach)
		}
		cp := *cfg
		cp.Bal, cp.BalN = all, 0
		cfg = &cp
	}
	bal := make([]common.Gwei, len(cfg.Bal))
	for i, b := range cfg.Bal {
		bal[i] = common.Gwei(b)
	}
	var err error
	if f := x.call("New", func() {
		x.pa = proto.NewProtoArray(ap, ar, common.Slot(cfg.AnchorSlot), just.Epoch, fin.Epoch, sink)
		x.fc, err = forkchoice.NewForkChoice(x.spec, fin, just, ar, common.Slot(cfg.AnchorSlot), x.pa, proto.NewProtoVoteStore(x.spec), bal)
	}); f != nil {
		return report.Failf("harness/"+f.Sig, "%s", f.Msg)
	}
	if err != nil {
		return report.Failf("harness/new", "constructor failed: %v", err)
	}
	x.m = fcmodel.New(cfg.SPE, fcmodel.Checkpoint{Root: ar, Epoch: cfg.FE}, fcmodel.Checkpoint{Root: ar, Epoch: cfg.JE},
		fcmodel.Ref{Root: ar, Slot: cfg.AnchorSlot}, ap, cfg.Bal)
	x.ever[ar] = true
	if cfg.SPE&(cfg.SPE-1) != 0 {
		x.res.Tags["config:slots-per-epoch-not-a-power-of-two"]++
	}
	var foreign *report.Failure
	for i := range x.c.Ops {
		op := &x.c.Ops[i]
		for _, id := range []int{op.P, op.R, op.T} {
			if id > x.maxID {
				x.maxID = id
			}
		}
		if f := x.do(op); f != nil {
			f.Msg = fmt.Sprintf("op %d %s: %s", i, op.String(), f.Msg)
			fatal := strings.HasPrefix(f.Sig, "harness") || strings.Contains(f.Sig, "/blocked") || strings.Contains(f.Sig, "/panic")
			if fatal || Owns(x.o.Prop, f.Sig) {
				if foreign != nil {
					f.Msg += " [after an earlier divergence that is another property's subject: " + foreign.Sig + "]"
				}
				x.res.FailOp = i
				return f
			}
			// A divergence owned by another property (e.g. a wrong prune seen by the head check) does not end the
			// history: the comparisons this property owns are still made on what follows, so that a defect whose first
			// symptom belongs elsewhere cannot hide its consequences here. Without such a later failure the case ends
			// without a verdict, as before.
			if foreign == nil {
				foreign = f
				x.res.FailOp = i
			}
		}
		x.res.OpsDone++
		for _, p := range x.prunes {
			p.opsAfter++
		}
	}
	if foreign != nil {
		return foreign
	}
	if x.o.Sweep {
		if f := x.sweep(); f != nil {
			f.Msg = "final sweep: " + f.Msg
			return f
		}
	}
	return nil
}

func (x *exec) do(op *Op) *report.Failure {
	switch op.K {
	case KBlock:
		return x.doBlock(op)
	case KSlot:
		return x.doSlot(op)
	case KAtt:
		return x.doAtt(op)
	case KAttN:
		if op.N > 1<<20 {
			return report.Failf("harness/bad-op", "attn of %d votes", op.N)
		}
		for v := op.V; v < op.V+op.N; v++ {
			o := *op
			o.K, o.V = KAtt, v
			if f := x.doAtt(&o); f != nil {
				f.Msg = fmt.Sprintf("(vote %d of %d in a row) %s", v-op.V+1, op.N, f.Msg)
				return f
			}
		}
		if op.N >= 1<<16 {
			x.tag("vote:>=65536-changes-between-two-head-computations")
		}
		return nil
	case KUpd:
		return x.doUpd(op)
	case KPin:
		return x.doPin(op)
	case KHead:
		return x.doHead(op, false)
	case KFHead:
		return x.doHead(op, true)
	case KChain, KCanon, KSearch:
		if x.pending { // README: votes are applied in batches, at the next head computation
			if f := x.doHead(&Op{K: KHead}, false); f != nil {
				return f
			}
		}
		switch op.K {
		case KChain:
			return x.doChain(op)
		case KCanon:
			return x.doCanon(op)
		}
		return x.doSearch(op)
	case KInSub:
		return x.doInSub(op)
	case KClosest:
		return x.doClosest(op)
	case KGetSlot:
		return x.doGetSlot(op)
	}
	return report.Failf("harness/bad-op", "unknown op kind %q", op.K)
}

// ---------------------------------------------------------------- node set

func (x *exec) checkNodes(extraSig, missingSig string) *report.Failure {
	idx := x.pa.Indices()
	var extra, missing []fcmodel.Ref
	for k := range idx {
		if !x.m.Has(toRef(k)) {
			extra = append(extra, toRef(k))
		}
	}
	for _, r := range x.m.Refs() {
		if _, ok := idx[common.NodeRef{Root: r.Root, Slot: common.Slot(r.Slot)}]; !ok {
			missing = append(missing, r)
		}
	}
	sort.Slice(extra, func(i, j int) bool { return fcmodel.Less(extra[i], extra[j]) })
	if len(missing) > 0 {
		return x.failf(missingSig, "nodes %s are in the model tree but not in the fork choice (which has %d nodes)", x.rss(missing), len(idx))
	}
	if len(extra) > 0 {
		return x.failf(extraSig, "nodes %s are in the fork choice but not in the model tree", x.rss(extra))
	}
	return nil
}

func (x *exec) doBlock(op *Op) *report.Failure {
	p, r := x.root(op.P), x.root(op.R)
	before := len(x.m.Nodes)
	want := x.m.ProcessBlock(p, r, op.S, op.JE, op.FE)
	var got bool
	if f := x.call("ProcessBlock", func() {
		got = x.fc.ProcessBlock(p, r, common.Slot(op.S), common.Epoch(op.JE), common.Epoch(op.FE))
	}); f != nil {
		return f
	}
	if got != want {
		return x.failf("ProcessBlock/ok-mismatch", "returned %v, model says %v", got, want)
	}
	if want && len(x.m.Nodes) > before {
		x.ever[r] = true
		x.tag("insert:block")
	} else if want {
		x.tag("insert:block-known")
	} else {
		x.tag("insert:block-refused")
	}
	return x.checkNodes("Nodes/extra", "Nodes/missing")
}

func (x *exec) doSlot(op *Op) *report.Failure {
	p := x.root(op.P)
	if ps, ok := x.m.FirstSlot(p); !ok || op.S <= ps {
		x.tag("insert:slot-precondition-skipped")
		return nil // precondition of ProcessSlot (Appendix A): known parent, slot after its first node
	}
	x.m.ProcessSlot(p, op.S, op.JE, op.FE)
	if f := x.call("ProcessSlot", func() {
		x.fc.ProcessSlot(p, common.Slot(op.S), common.Epoch(op.JE), common.Epoch(op.FE))
	}); f != nil {
		return f
	}
	x.tag("insert:slot")
	return x.checkNodes("Nodes/extra", "Nodes/missing")
}

// ---------------------------------------------------------------- votes, pin, head

func (x *exec) doAtt(op *Op) *report.Failure {
	r := x.root(op.R)
	ref := fcmodel.Ref{Root: r, Slot: op.S}
	old, had := x.m.Votes[op.V]
	want := x.m.ProcessAttestation(op.V, r, op.S)
	var got bool
	if f := x.call("ProcessAttestation", func() {
		got = x.fc.ProcessAttestation(common.ValidatorIndex(op.V), r, common.Slot(op.S))
	}); f != nil {
		return f
	}
	if want && !got {
		if n := x.m.Nodes[ref]; n != nil && !n.IsBlock() {
			return x.failf("ProcessAttestation/gap-vote-refused", "vote for the existing gap-slot node %s was refused", x.rs(ref))
		}
		return x.failf("ProcessAttestation/existing-refused", "vote for the existing node %s was refused", x.rs(ref))
	}
	if !want && got {
		return x.failf("ProcessAttestation/nonexistent-accepted", "vote for %s, which does not exist, returned ok=true", x.rs(ref))
	}
	if !want {
		x.tag("vote:nonexistent-refused")
		return nil
	}
	now := x.m.Votes[op.V]
	switch {
	case !had:
		x.votesAccepted++
		x.pending = true
		x.tag("vote:first")
	case now != old:
		x.votesAccepted++
		x.pending = true
		if now.Ref != old.Ref {
			x.votesMoved++
			x.tag("vote:moved")
			if x.m.Has(old.Ref) && !x.fcRelated(old.Ref, now.Ref) {
				x.votesMovedBranch++
				x.tag("vote:moved-between-branches")
			}
		}
	default:
		x.tag("vote:not-newer-ignored")
	}
	if n := x.m.Nodes[ref]; !n.IsBlock() {
		x.tag("vote:gap-slot-node")
	}
	return nil
}

func (x *exec) fcRelated(a, b fcmodel.Ref) bool {
	up := func(top, n fcmodel.Ref) bool {
		for cur := x.m.Nodes[n]; cur != nil; {
			if cur.Ref == top {
				return true
			}
			if cur.FParent == nil {
				return false
			}
			cur = x.m.Nodes[*cur.FParent]
		}
		return false
	}
	return up(a, b) || up(b, a)
}

func (x *exec) doPin(op *Op) *report.Failure {
	r := x.root(op.R)
	ref := fcmodel.Ref{Root: r, Slot: op.S}
	want := x.m.SetPin(ref)
	var err error
	var pin *common.NodeRef
	if f := x.call("SetPin", func() {
		err = x.fc.SetPin(r, common.Slot(op.S))
		pin = x.fc.Pin()
	}); f != nil {
		return f
	}
	if want && err != nil {
		return x.failf("SetPin/existing-refused", "pin on existing node %s refused: %v", x.rs(ref), err)
	}
	if !want && err == nil {
		return x.failf("SetPin/missing-accepted", "pin on %s accepted although the node does not exist", x.rs(ref))
	}
	if f := x.checkPin(pin, "SetPin/pin-mismatch"); f != nil {
		return f
	}
	if want {
		x.tag("pin:set")
	} else {
		x.tag("pin:refused")
	}
	return nil
}

func (x *exec) checkPin(pin *common.NodeRef, sig string) *report.Failure {
	if (pin == nil) != (x.m.Pin == nil) || (pin != nil && toRef(*pin) != *x.m.Pin) {
		return x.failf(sig, "Pin() = %v, model pin = %v", pin, x.m.Pin)
	}
	return nil
}

func (x *exec) shapeHash() string {
	h := fnv.New64a()
	for _, r := range x.m.Refs() {
		n := x.m.Nodes[r]
		ts, fs := int64(-1), int64(-1)
		if n.TParent != nil {
			ts = int64(n.TParent.Slot)
		}
		if n.FParent != nil {
			fs = int64(n.FParent.Slot)
		}
		fmt.Fprintf(h, "%d:%v:%d:%d;", r.Slot, n.IsBlock(), ts, fs)
	}
	return fmt.Sprintf("%x", h.Sum64())
}

func bucket(n int) string {
	switch {
	case n <= 3:
		return fmt.Sprint(n)
	case n <= 6:
		return "4-6"
	case n <= 12:
		return "7-12"
	}
	return ">12"
}

func (x *exec) doHead(op *Op, find bool) *report.Failure {
	name := "Head"
	start := x.m.HeadStart()
	if find {
		name = "FindHead"
		start = fcmodel.Ref{Root: x.root(op.R), Slot: op.S}
	}
	want, ok, hi := x.m.FindHead(start)
	var got common.NodeRef
	var err error
	if f := x.call(name, func() {
		if find {
			got, err = x.fc.FindHead(start.Root, common.Slot(start.Slot))
		} else {
			got, err = x.fc.Head()
		}
	}); f != nil {
		return f
	}
	x.pending = false
	if ok && err != nil {
		return x.failf(name+"/unexpected-error", "start %s: returned error %q, model head is %s", x.rs(start), err, x.rs(want))
	}
	if !ok && err == nil {
		return x.failf(name+"/missing-error", "start %s: returned %s, model says there is no viable head (start known: %v)", x.rs(start), x.rs(toRef(got)), x.m.Has(start))
	}
	if ok && toRef(got) != want {
		return x.failf(name+"/mismatch", "start %s: returned %s, model head is %s (weights: impl choice %d, model choice %d)", x.rs(start), x.rs(toRef(got)), x.rs(want),
			x.weightOrZero(toRef(got)), x.m.Weight(want))
	}
	if x.inSweep {
		return nil
	}
	if !ok {
		if x.m.Has(start) {
			x.tag("head:no-viable-head")
		} else {
			x.tag("head:unknown-start")
		}
		return nil
	}
	x.tag("head:ok")
	// C10: the head stays inside the finalized subtree (whenever the finalized node exists and the
	// walk started inside it; leftovers of a failed sink and pins outside it are the exceptions)
	if fa := (fcmodel.Ref{Root: x.m.Finalized.Root, Slot: x.m.Finalized.Epoch * x.m.SPE}); x.m.Has(fa) && x.m.Descends(fa, start) && !x.m.Descends(fa, want) {
		return x.failf(name+"/outside-finalized-subtree", "head %s is not a descendant of the finalized node %s", x.rs(want), x.rs(fa))
	}
	if fa := (fcmodel.Ref{Root: x.m.Finalized.Root, Slot: x.m.Finalized.Epoch * x.m.SPE}); x.post && x.m.Has(fa) && x.m.Descends(fa, want) {
		x.tag("head:inside-finalized-subtree-after-prune")
	}
	gap := !x.m.Nodes[want].IsBlock()
	if hi.TieByRoot {
		x.tag("head:tie-broken-by-root")
	}
	if hi.NonViableBest {
		x.tag("head:non-viable-best-branch")
	}
	if gap && want != start {
		x.tag("head:on-gap-slot-node")
	}
	if hi.Forks >= 1 {
		x.tag("head:forks-alive")
	}
	if sn := x.m.Nodes[start]; sn != nil && !sn.IsBlock() {
		// DESIGN Appendix A: child blocks of the start's root hang off its block node in the package's graph
		for ref, n := range x.m.Nodes {
			if n.IsBlock() && n.ParentRoot == start.Root && ref.Slot > start.Slot {
				x.tag("head:anchor-is-gap-node-with-child-blocks")
				break
			}
		}
	}
	if x.post {
		x.tag("head:after-prune")
	}
	if x.o.Prop == "C09" && hi.Forks >= 1 && x.votesAccepted >= 3 && x.votesMoved >= 1 {
		x.res.Keys = append(x.res.Keys, fmt.Sprintf("C09|%s|v%s-m%s-b%v|tie%v|gap%v|nv%v", x.shapeHash(), bucket(len(x.m.Votes)), bucket(x.votesMoved), x.votesMovedBranch > 0, hi.TieByRoot, gap, hi.NonViableBest))
	}
	return nil
}

func (x *exec) weightOrZero(r fcmodel.Ref) uint64 {
	if x.m.Has(r) {
		return x.m.Weight(r)
	}
	return 0
}

// ---------------------------------------------------------------- UpdateJustified

func (x *exec) doUpd(op *Op) *report.Failure {
	if op.J == nil || op.F == nil {
		return report.Failf("harness/bad-op", "upd without checkpoints")
	}
	trig := x.root(op.T)
	j := fcmodel.Checkpoint{Root: x.root(op.J.R), Epoch: op.J.E}
	f := fcmodel.Checkpoint{Root: x.root(op.F.R), Epoch: op.F.E}
	newBal := x.m.Balances
	if op.Bal != nil {
		newBal = op.Bal
	}
	plan := x.m.PlanUpdate(trig, j, f)
	pinned := x.m.Pin != nil
	x.reports = nil
	callsBefore := x.sinkCalls
	var err error
	var gj, gf common.Checkpoint
	var pin *common.NodeRef
	if fl := x.call("UpdateJustified", func() {
		err = x.fc.UpdateJustified(context.Background(), trig,
			common.Checkpoint{Root: j.Root, Epoch: common.Epoch(j.Epoch)}, common.Checkpoint{Root: f.Root, Epoch: common.Epoch(f.Epoch)},
			func() ([]common.Gwei, error) {
				if op.BalErr {
					return nil, errors.New("scripted balances failure")
				}
				out := make([]common.Gwei, len(newBal))
				for i, b := range newBal {
					out[i] = common.Gwei(b)
				}
				return out, nil
			})
	}); fl != nil {
		return fl
	}
	_ = callsBefore
	kind := plan.Kind
	if kind == fcmodel.UpdApply && op.BalErr {
		kind = fcmodel.UpdRefused
		plan.Why = "balances-error"
	}
	var dropped []fcmodel.Ref
	switch kind {
	case fcmodel.UpdNoop:
		if err != nil {
			return x.failf("UpdateJustified/noop-error", "pair not newer than (%d,%d) must be ignored, got error %q", x.m.Justified.Epoch, x.m.Finalized.Epoch, err)
		}
		if len(x.reports) > 0 {
			return x.failf("Prune/on-noop", "an ignored update reported %d nodes to the sink", len(x.reports))
		}
		x.tag("upd:noop")
	case fcmodel.UpdRefused:
		if err == nil {
			return x.failf("UpdateJustified/accepted-"+plan.Why, "update must be refused (%s) but returned nil", plan.Why)
		}
		if len(x.reports) > 0 {
			return x.failf("Prune/on-refused", "a refused update reported %d nodes to the sink", len(x.reports))
		}
		x.tag("upd:refused:" + plan.Why)
	case fcmodel.UpdApply:
		prunable := map[fcmodel.Ref]bool{}
		for _, r := range plan.Prunable {
			prunable[r] = true
		}
		seen := map[fcmodel.Ref]bool{}
		sinkFailed := false
		for i, rp := range x.reports {
			if sinkFailed {
				return x.failf("Prune/continued-after-sink-error", "sink call %d (%s) came after the sink had returned an error", i, x.rs(rp.ref))
			}
			if seen[rp.ref] {
				return x.failf("Prune/reported-twice", "node %s reported to the sink more than once (reports: %s)", x.rs(rp.ref), x.reportList())
			}
			seen[rp.ref] = true
			if !prunable[rp.ref] {
				if x.m.Has(rp.ref) {
					return x.failf("Prune/reported-descendant", "node %s is a descendant of the new finalized node %s but was reported as pruned", x.rs(rp.ref), x.rs(plan.Anchor))
				}
				return x.failf("Prune/reported-unknown-node", "node %s reported as pruned does not exist", x.rs(rp.ref))
			}
			if rp.canonical != plan.Canonical[rp.ref] {
				return x.failf("Prune/wrong-canonical-flag", "node %s reported with canonical=%v, model says %v (new finalized node %s)", x.rs(rp.ref), rp.canonical, plan.Canonical[rp.ref], x.rs(plan.Anchor))
			}
			if rp.failed {
				sinkFailed = true
			} else {
				dropped = append(dropped, rp.ref)
			}
		}
		if sinkFailed {
			if err == nil {
				return x.failf("UpdateJustified/sink-error-swallowed", "the sink failed but UpdateJustified returned nil")
			}
		} else {
			if err != nil {
				return x.failf("UpdateJustified/unexpected-error", "valid update (justified %v, finalized %v) returned error %q", *op.J, *op.F, err)
			}
			if x.c.Cfg.Sink == "nil" {
				dropped = plan.Prunable
			} else if len(seen) != len(plan.Prunable) {
				var miss []fcmodel.Ref
				for _, r := range plan.Prunable {
					if !seen[r] {
						miss = append(miss, r)
					}
				}
				return x.failf("Prune/not-reported", "nodes %s are not descendants of the new finalized node %s but were not reported (reported: %s)", x.rss(miss), x.rs(plan.Anchor), x.reportList())
			}
		}
		x.m.CommitUpdate(plan, j, f, newBal, dropped)
		x.pending = false
		if plan.Moved {
			x.post = true
		}
		x.tagUpdate(op, &plan, pinned, sinkFailed, len(dropped))
	}
	// observable state after the call
	if fl := x.call("Getters", func() { gj, gf, pin = x.fc.Justified(), x.fc.Finalized(), x.fc.Pin() }); fl != nil {
		return fl
	}
	if gj.Root != x.m.Justified.Root || uint64(gj.Epoch) != x.m.Justified.Epoch {
		return x.failf("Getters/justified", "after %s update: Justified() = (%s,%d), model (%s,%d)", kind, x.nm(gj.Root), gj.Epoch, x.nm(x.m.Justified.Root), x.m.Justified.Epoch)
	}
	if gf.Root != x.m.Finalized.Root || uint64(gf.Epoch) != x.m.Finalized.Epoch {
		return x.failf("Getters/finalized", "after %s update: Finalized() = (%s,%d), model (%s,%d)", kind, x.nm(gf.Root), gf.Epoch, x.nm(x.m.Finalized.Root), x.m.Finalized.Epoch)
	}
	if fl := x.checkPin(pin, "Getters/pin"); fl != nil {
		return fl
	}
	if fl := x.checkNodes("Prune/retained", "Prune/lost"); fl != nil {
		return fl
	}
	if kind == fcmodel.UpdApply && plan.Moved && x.o.Sweep {
		if fl := x.sweep(); fl != nil {
			fl.Msg = "sweep after prune: " + fl.Msg
			return fl
		}
	}
	return nil
}

func (x *exec) reportList() string {
	s := make([]string, len(x.reports))
	for i, r := range x.reports {
		s[i] = fmt.Sprintf("%s c=%v", x.rs(r.ref), r.canonical)
	}
	return strings.Join(s, ", ")
}

func (x *exec) tagUpdate(op *Op, plan *fcmodel.UpdatePlan, pinned, sinkFailed bool, dropped int) {
	if !plan.Moved {
		x.tag("upd:applied-justified-only")
		return
	}
	x.tag("upd:finalization-advanced")
	anchorKind := "anchor-missing"
	gap := false
	if n := x.m.Nodes[plan.Anchor]; n != nil {
		anchorKind = "anchor-block-node"
		if !n.IsBlock() {
			anchorKind, gap = "anchor-gap-slot-node", true
		}
	}
	x.tag("prune:" + anchorKind)
	nonCanon := 0
	for _, r := range plan.Prunable {
		if !plan.Canonical[r] {
			nonCanon++
		}
	}
	sink := x.c.Cfg.Sink
	if sinkFailed {
		sink = "fail-hit"
		x.tag("prune:sink-failed-partway")
	}
	if pinned {
		x.tag("prune:while-pinned")
	} else {
		x.tag("prune:unpinned")
	}
	if x.c.Cfg.Sink == "nil" && len(plan.Prunable) > 0 {
		x.tag("prune:nil-sink")
	}
	for _, r := range plan.Prunable {
		if x.leftover[r] {
			x.tag("prune:reports-leftovers-of-failed-prune")
			break
		}
	}
	if sinkFailed {
		for _, r := range plan.Prunable {
			if x.m.Has(r) {
				x.leftover[r] = true
			}
		}
	}
	if len(plan.Prunable) == 0 {
		x.tag("prune:nothing-to-prune")
	}
	if nonCanon > 0 {
		x.tag("prune:non-canonical-nodes")
	}
	x.prunes = append(x.prunes, &pruneStat{dropped: dropped, sinkFail: sinkFailed, anchorGap: gap,
		key: fmt.Sprintf("C10|%s|n%s-nc%s|sink-%s|pinned%v", anchorKind, bucket(len(plan.Prunable)), bucket(nonCanon), sink, pinned)})
}

func (x *exec) finishKeys() {
	for _, p := range x.prunes {
		// the op that performed the prune counted itself once
		if p.dropped >= 2 && p.opsAfter-1 >= 3 {
			x.res.Tags["prune:>=2-nodes-then->=3-ops"]++
			if x.o.Prop == "C10" {
				x.res.Keys = append(x.res.Keys, p.key)
			}
		}
	}
}
