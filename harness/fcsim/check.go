package fcsim

import (
	"encoding/json"
	"os"
	"runtime/debug"
	"sort"
	"strings"
	"testing"
	"time"

	"pgregory.net/rapid"

	"zrntverif/report"
)

type TourCase struct {
	Name  string
	Build func(t *rapid.T) *Case
}

// Spec is what distinguishes the three checks; the generator, executor and model are shared.
type Spec struct {
	Prop            string
	Rule            string
	Assume          []string
	Mandatory       []string // tags (see exec.go) that must be populated at every seed
	Quick, Thorough int
	Sweep           bool
	Tour            []TourCase
	SampleTags      []string // first case showing each of these tags is kept as a sample
}

// RunCheck is the body of TestCheck for C09, C10 and C11.
func RunCheck(t *testing.T, s Spec) {
	debug.SetMaxStack(64 << 20)
	r := report.Begin(s.Prop)
	defer r.Finish()
	r.Rule(s.Rule)
	r.Assume(s.Assume...)
	opts := Options{Prop: s.Prop, Timeout: 10 * time.Second, Known: r.IsKnown, Sweep: s.Sweep}
	runCase := func(c *Case) *Result {
		r.Inflight(c)
		res := Run(c, opts)
		if res.Fail != nil && strings.Contains(res.Fail.Sig, "/blocked") {
			// a watchdog expiry is believed only if it repeats
			again := Run(c, opts)
			if again.Fail == nil || again.Fail.Sig != res.Fail.Sig {
				r.Note("a blocked-call verdict did not repeat and was dropped: " + res.Fail.String())
				res = again
			}
		}
		r.ClearInflight()
		return res
	}
	r.Regress(func(raw json.RawMessage) *report.Failure {
		var c Case
		if err := json.Unmarshal(raw, &c); err != nil {
			return report.Failf("harness", "bad case: %v", err)
		}
		return runCase(&c).Fail
	})
	if r.Replay != "" {
		return
	}
	r.Mandatory(s.Mandatory...)
	mand := map[string]bool{}
	for _, m := range s.Mandatory {
		mand[m] = true
	}
	account := func(c *Case, res *Result, origin string) {
		r.Eval(1)
		r.Class("origin:" + origin)
		tags := make([]string, 0, len(res.Tags))
		for k := range res.Tags {
			tags = append(tags, k)
		}
		sort.Strings(tags)
		for _, k := range tags {
			r.Class(k)
			if mand[k] {
				r.Hit(k)
			}
		}
		for _, k := range s.SampleTags {
			if res.Tags[k] > 0 {
				r.Sample(k, func() any { return c })
			}
		}
		for k, n := range res.Excluded {
			for i := 0; i < n; i++ {
				r.Excluded(k)
			}
		}
		for _, k := range res.Keys {
			r.NonTrivial(k)
		}
		if len(res.Keys) > 0 {
			r.Class("nontrivial-case")
		} else {
			r.Class("trivial-case")
		}
		if res.Other != nil {
			r.Class("discarded_other_property")
			r.Class("discarded_other_property:" + res.Other.Sig)
		}
		r.Class("history-length:" + bucket(len(c.Ops)/10) + "x10")
	}
	ok := true
	for i, tc := range s.Tour {
		tc := tc
		if !r.Search(t, "tour:"+tc.Name, i, 1, func(rt *rapid.T) (any, *report.Failure) {
			c := tc.Build(rt)
			c.Note = "tour:" + tc.Name
			res := runCase(c)
			account(c, res, "tour")
			return c, res.Fail
		}) {
			ok = false
		}
	}
	if !ok {
		return
	}
	prof := ProfileFor(s.Prop)
	if p := os.Getenv("FCSIM_PROFILE"); p != "" { // development aid: another property's op mix
		prof = ProfileFor(p)
	}
	r.Search(t, "random", 1000, r.N(s.Quick, s.Thorough), func(rt *rapid.T) (any, *report.Failure) {
		c := Gen(rt, prof)
		res := runCase(c)
		account(c, res, "random")
		return c, res.Fail
	})
}
