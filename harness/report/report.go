// Package report is the shared run-time of every check: counters, non-triviality classes,
// samples, violation/replay plumbing, known-finding lookup, and the rapid wrapper that turns a
// shrunk failure into a replay file.
package report

import (
	"crypto/sha256"
	"encoding/hex"
	"encoding/json"
	"flag"
	"fmt"
	"hash/fnv"
	"os"
	"path/filepath"
	"sort"
	"strconv"
	"strings"
	"sync"
	"testing"
	"time"

	"pgregory.net/rapid"
)

// Failure is what a pure `run(case)` returns when the property is broken on that case.
type Failure struct {
	Sig string // stable signature: symptom class, used to match known findings
	Msg string // human-readable detail
}

func Failf(sig string, format string, args ...any) *Failure {
	return &Failure{Sig: sig, Msg: fmt.Sprintf(format, args...)}
}

func (f *Failure) String() string { return f.Sig + ": " + f.Msg }

type Violation struct {
	Sig    string `json:"sig"`
	Msg    string `json:"msg"`
	Replay string `json:"replay"`
	Known  string `json:"known,omitempty"` // finding id if listed in known_findings.json as status=known
	What   string `json:"what,omitempty"`
	Shrunk bool   `json:"shrunk"`
}

type Finding struct {
	ID        string `json:"id"`
	Property  string `json:"property"`
	Status    string `json:"status"` // "known" | "fixed"
	Signature string `json:"signature"`
	Replay    string `json:"replay"`
	What      string `json:"what"`
	Commit    string `json:"commit,omitempty"`
}

// Stats is the per-shard output file; the driver merges shards into the evidence file.
type Stats struct {
	Property     string           `json:"property"`
	Tier         string           `json:"tier"`
	Seed         int              `json:"seed"`
	Shard        int              `json:"shard"`
	NShards      int              `json:"nshards"`
	Evaluations  int64            `json:"evaluations"`
	NonTrivial   []string         `json:"nontrivial_keys"` // hashed distinct keys
	Classes      map[string]int64 `json:"classes"`
	Mandatory    map[string]int64 `json:"mandatory"`
	Excluded     map[string]int64 `json:"excluded_known"`
	Samples      []any            `json:"samples"`
	Violations   []Violation      `json:"violations"`
	Rule         string           `json:"rule"`
	Assumptions  []string         `json:"assumptions"`
	Notes        []string         `json:"notes"`
	Exhaustive   []string         `json:"exhaustive_subspaces"`
	RapidPassed  map[string]int   `json:"rapid_passed"`
	RapidAsked   map[string]int   `json:"rapid_asked"`
	Inconclusive []string         `json:"inconclusive"`
	WallS        float64          `json:"wall_s"`
	Extra        map[string]any   `json:"extra,omitempty"`
	Done         bool             `json:"done"`
}

type Run struct {
	mu        sync.Mutex
	S         Stats
	ntSet     map[uint64]struct{}
	sampleCls map[string]bool
	start     time.Time
	Root      string // /verif
	out       string
	findings  []Finding
	maxSample int
	Replay    string // non-empty: replay mode, path of the case file
	InRegress bool   // true while committed regression files are being replayed (known findings are not masked then)
}

func envInt(k string, d int) int {
	if v := os.Getenv(k); v != "" {
		if n, err := strconv.Atoi(v); err == nil {
			return n
		}
	}
	return d
}

// Begin reads the environment the driver sets.
func Begin(id string) *Run {
	r := &Run{ntSet: map[uint64]struct{}{}, sampleCls: map[string]bool{}, start: time.Now(), maxSample: 8}
	r.S.Property = id
	r.S.Tier = os.Getenv("VERIF_TIER")
	if r.S.Tier == "" {
		r.S.Tier = "quick"
	}
	r.S.Seed = envInt("VERIF_SEED", 1)
	r.S.Shard = envInt("VERIF_SHARD", 0)
	r.S.NShards = envInt("VERIF_NSHARDS", 1)
	r.S.Classes = map[string]int64{}
	r.S.Mandatory = map[string]int64{}
	r.S.Excluded = map[string]int64{}
	r.S.RapidPassed = map[string]int{}
	r.S.RapidAsked = map[string]int{}
	r.S.Extra = map[string]any{}
	r.Root = os.Getenv("VERIF_ROOT")
	if r.Root == "" {
		r.Root = "/verif"
	}
	r.out = os.Getenv("VERIF_OUT")
	r.Replay = os.Getenv("VERIF_REPLAY")
	if b, err := os.ReadFile(filepath.Join(r.Root, "known_findings.json")); err == nil {
		var kf struct {
			Findings []Finding `json:"findings"`
		}
		if err := json.Unmarshal(b, &kf); err == nil {
			for _, f := range kf.Findings {
				if f.Property == id {
					r.findings = append(r.findings, f)
				}
			}
		}
	}
	return r
}

func (r *Run) Thorough() bool { return r.S.Tier == "thorough" }

// N picks a per-shard case count for the tier.
func (r *Run) N(quick, thorough int) int {
	n := quick
	if r.Thorough() {
		n = thorough
	}
	per := n / r.S.NShards
	if per < 1 {
		per = 1
	}
	return per
}

// RapidSeed is never 0 (rapid treats 0 as "random").
func (r *Run) RapidSeed(sub int) uint64 {
	return uint64(1_000_003*(r.S.Seed+1) + 7919*r.S.Shard + 104729*sub + 1)
}

func (r *Run) Eval(n int64) {
	r.mu.Lock()
	r.S.Evaluations += n
	r.mu.Unlock()
}

func h64(s string) uint64 {
	h := fnv.New64a()
	h.Write([]byte(s))
	return h.Sum64()
}

// NonTrivial records a case that satisfied the property's non-triviality rule under a
// classification key; distinct_nontrivial is the cardinality of the key set.
func (r *Run) NonTrivial(key string) {
	r.mu.Lock()
	r.ntSet[h64(key)] = struct{}{}
	r.mu.Unlock()
}

func (r *Run) Class(name string) {
	r.mu.Lock()
	r.S.Classes[name]++
	r.mu.Unlock()
}

func (r *Run) ClassN(name string, n int64) {
	r.mu.Lock()
	r.S.Classes[name] += n
	r.mu.Unlock()
}

// Mandatory declares a class that must be non-empty at the end of the run (else exit 2).
func (r *Run) Mandatory(names ...string) {
	r.mu.Lock()
	for _, n := range names {
		if _, ok := r.S.Mandatory[n]; !ok {
			r.S.Mandatory[n] = 0
		}
	}
	r.mu.Unlock()
}

func (r *Run) Hit(name string) {
	r.mu.Lock()
	r.S.Mandatory[name]++
	r.mu.Unlock()
}

func (r *Run) Excluded(name string) {
	r.mu.Lock()
	r.S.Excluded[name]++
	r.mu.Unlock()
}

// Sample keeps the first case seen of each class (up to a cap).
func (r *Run) Sample(class string, v func() any) {
	r.mu.Lock()
	defer r.mu.Unlock()
	if r.sampleCls[class] || len(r.S.Samples) >= r.maxSample {
		return
	}
	r.sampleCls[class] = true
	r.S.Samples = append(r.S.Samples, map[string]any{"class": class, "case": v()})
}

func (r *Run) Rule(s string)           { r.S.Rule = s }
func (r *Run) Assume(s ...string)      { r.S.Assumptions = append(r.S.Assumptions, s...) }
func (r *Run) Note(s string)           { r.mu.Lock(); r.S.Notes = append(r.S.Notes, s); r.mu.Unlock() }
func (r *Run) ExhaustiveOver(s string) { r.S.Exhaustive = append(r.S.Exhaustive, s) }
func (r *Run) Inconclusive(s string) {
	r.mu.Lock()
	r.S.Inconclusive = append(r.S.Inconclusive, s)
	r.mu.Unlock()
}

func (r *Run) knownFor(sig string) *Finding {
	for i := range r.findings {
		f := &r.findings[i]
		if f.Status == "known" && f.Signature == sig {
			return f
		}
	}
	return nil
}

// IsKnown lets a generator/oracle exclude a listed finding by construction during the search
// (never while the committed regression files are replayed, which is what re-fires the finding).
func (r *Run) IsKnown(sig string) bool {
	return !r.InRegress && r.Replay == "" && r.knownFor(sig) != nil
}

// Violate records a violation with its replayable case value. Returns the replay path.
func (r *Run) Violate(caseValue any, f *Failure, shrunk bool) string {
	b, err := json.MarshalIndent(map[string]any{"property": r.S.Property, "case": caseValue, "sig": f.Sig, "msg": f.Msg}, "", " ")
	if err != nil {
		b = []byte(fmt.Sprintf(`{"property":%q,"marshal_error":%q,"sig":%q}`, r.S.Property, err.Error(), f.Sig))
	}
	sum := sha256.Sum256(b)
	dir := filepath.Join(r.Root, "replays", "new")
	os.MkdirAll(dir, 0o755)
	path := filepath.Join(dir, fmt.Sprintf("%s-%s.json", r.S.Property, hex.EncodeToString(sum[:4])))
	if r.Replay != "" {
		path = r.Replay
	} else {
		os.WriteFile(path, b, 0o644)
	}
	v := Violation{Sig: f.Sig, Msg: trunc(f.Msg, 2000), Replay: path, Shrunk: shrunk}
	if k := r.knownFor(f.Sig); k != nil {
		v.Known = k.ID
		v.What = k.What
	}
	r.mu.Lock()
	// one entry per signature is enough
	dup := false
	for _, o := range r.S.Violations {
		if o.Sig == v.Sig {
			dup = true
		}
	}
	if !dup {
		r.S.Violations = append(r.S.Violations, v)
	}
	r.mu.Unlock()
	return path
}

func trunc(s string, n int) string {
	if len(s) > n {
		return s[:n] + "…"
	}
	return s
}

// Inflight writes the case about to be executed so that a process death can be attributed.
func (r *Run) Inflight(caseValue any) {
	if r.Replay != "" {
		return
	}
	b, _ := json.Marshal(map[string]any{"property": r.S.Property, "case": caseValue, "sig": "process-death", "msg": "in flight when the process died"})
	dir := filepath.Join(r.Root, "replays", "new")
	os.MkdirAll(dir, 0o755)
	os.WriteFile(filepath.Join(dir, fmt.Sprintf("%s-inflight-%d.json", r.S.Property, r.S.Shard)), b, 0o644)
}

func (r *Run) ClearInflight() {
	os.Remove(filepath.Join(r.Root, "replays", "new", fmt.Sprintf("%s-inflight-%d.json", r.S.Property, r.S.Shard)))
}

// Finish writes the shard stats file.
func (r *Run) Finish() {
	r.mu.Lock()
	defer r.mu.Unlock()
	r.S.NonTrivial = r.S.NonTrivial[:0]
	for k := range r.ntSet {
		r.S.NonTrivial = append(r.S.NonTrivial, strconv.FormatUint(k, 16))
	}
	sort.Strings(r.S.NonTrivial)
	r.S.WallS = time.Since(r.start).Seconds()
	r.S.Done = true
	b, _ := json.Marshal(&r.S)
	if r.out != "" {
		os.MkdirAll(filepath.Dir(r.out), 0o755)
		if err := os.WriteFile(r.out, b, 0o644); err != nil {
			fmt.Fprintln(os.Stderr, "cannot write stats:", err)
			os.Exit(2)
		}
	} else {
		// developer mode: print a summary
		fmt.Printf("evaluations=%d distinct_nontrivial=%d violations=%d\n", r.S.Evaluations, len(r.ntSet), len(r.S.Violations))
		for _, v := range r.S.Violations {
			fmt.Printf("  VIOLATION sig=%s known=%s replay=%s\n    %s\n", v.Sig, v.Known, v.Replay, v.Msg)
		}
		ks := []string{}
		for k := range r.S.Classes {
			ks = append(ks, k)
		}
		sort.Strings(ks)
		for _, k := range ks {
			fmt.Printf("  class %-40s %d\n", k, r.S.Classes[k])
		}
		for k, v := range r.S.Mandatory {
			fmt.Printf("  mandatory %-40s %d\n", k, v)
		}
		for k, v := range r.S.Excluded {
			fmt.Printf("  excluded %-40s %d\n", k, v)
		}
		for _, n := range r.S.Inconclusive {
			fmt.Printf("  INCONCLUSIVE %s\n", n)
		}
		seen := map[string]int{}
		for _, n := range r.S.Notes {
			seen[trunc(n, 300)]++
		}
		for n, c := range seen {
			fmt.Printf("  note x%d: %s\n", c, n)
		}
	}
}

// ---------------------------------------------------------------- rapid wrapper

type quietTB struct {
	name   string
	failed bool
	logs   []string
}

func (q *quietTB) Helper()      {}
func (q *quietTB) Name() string { return q.name }
func (q *quietTB) Logf(format string, args ...any) {
	q.logs = append(q.logs, fmt.Sprintf(format, args...))
}
func (q *quietTB) Log(args ...any)                   { q.logs = append(q.logs, fmt.Sprint(args...)) }
func (q *quietTB) Skipf(format string, args ...any)  {}
func (q *quietTB) Skip(args ...any)                  {}
func (q *quietTB) SkipNow()                          {}
func (q *quietTB) Errorf(format string, args ...any) { q.failed = true; q.Logf(format, args...) }
func (q *quietTB) Error(args ...any)                 { q.failed = true; q.Log(args...) }
func (q *quietTB) Fatalf(format string, args ...any) { q.failed = true; q.Logf(format, args...) }
func (q *quietTB) Fatal(args ...any)                 { q.failed = true; q.Log(args...) }
func (q *quietTB) FailNow()                          { q.failed = true }
func (q *quietTB) Fail()                             { q.failed = true }
func (q *quietTB) Failed() bool                      { return q.failed }

// Prop is a property body: it draws a case value with rapid, executes it and returns
// (caseValue, failure). caseValue must be JSON-serialisable and sufficient for the check's
// replay function.
type Prop func(t *rapid.T) (caseValue any, f *Failure)

// Search runs `checks` generated cases of prop under rapid with the run's seed. On failure,
// rapid shrinks; the case value of the last failing execution (the minimal one, which rapid
// re-executes last) becomes the replay file. Returns true if no failure was found.
func (r *Run) Search(t *testing.T, name string, sub int, checks int, prop Prop) bool {
	if r.Replay != "" {
		return true
	}
	flag.Set("rapid.checks", strconv.Itoa(checks))
	flag.Set("rapid.seed", strconv.FormatUint(r.RapidSeed(sub), 10))
	flag.Set("rapid.nofailfile", "true")
	if os.Getenv("VERIF_SHRINKTIME") != "" {
		flag.Set("rapid.shrinktime", os.Getenv("VERIF_SHRINKTIME"))
	} else {
		flag.Set("rapid.shrinktime", "20s")
	}
	var lastCase any
	var lastFail *Failure
	execs := 0
	q := &quietTB{name: r.S.Property + "/" + name}
	func() {
		defer func() {
			if p := recover(); p != nil {
				r.Inconclusive(fmt.Sprintf("%s: rapid engine panicked: %v", name, p))
			}
		}()
		rapid.Check(q, func(rt *rapid.T) {
			execs++
			c, f := prop(rt)
			if f != nil {
				lastCase, lastFail = c, f
				rt.Fatalf("%s", f.Sig)
			}
		})
	}()
	r.mu.Lock()
	r.S.RapidAsked[name] = checks
	passed := -1
	for _, l := range q.logs {
		if strings.Contains(l, "OK, passed") {
			fmt.Sscanf(l[strings.Index(l, "passed")+7:], "%d", &passed)
		}
	}
	r.S.RapidPassed[name] = passed
	r.mu.Unlock()
	if !q.failed {
		if passed >= 0 && passed < checks {
			r.Inconclusive(fmt.Sprintf("%s: rapid passed %d of %d", name, passed, checks))
		}
		return true
	}
	if lastFail == nil {
		// failed without a Failure: a panic inside prop outside run(), or too many invalid cases
		r.Inconclusive(fmt.Sprintf("%s: rapid failed without a recorded failure: %s", name, trunc(strings.Join(q.logs, " | "), 3000)))
		return false
	}
	flaky := false
	for _, l := range q.logs {
		if strings.Contains(l, "flaky test") {
			flaky = true
		}
	}
	path := r.Violate(lastCase, lastFail, !flaky)
	_ = path
	return false
}

// RunReplay loads the case of a replay file.
func LoadReplay(path string) (json.RawMessage, string, error) {
	b, err := os.ReadFile(path)
	if err != nil {
		return nil, "", err
	}
	var w struct {
		Property string          `json:"property"`
		Case     json.RawMessage `json:"case"`
		Sig      string          `json:"sig"`
	}
	if err := json.Unmarshal(b, &w); err != nil {
		return nil, "", err
	}
	return w.Case, w.Sig, nil
}

// Regress replays every committed regression file of this property through run and records a
// violation when one fails (a fixed finding that came back, or a known one still present).
func (r *Run) Regress(run func(raw json.RawMessage) *Failure) {
	var files []string
	if r.Replay != "" {
		files = []string{r.Replay}
	} else {
		if r.S.Shard != 0 {
			return
		}
		files, _ = filepath.Glob(filepath.Join(r.Root, "replays", "regress", r.S.Property+"-*.json"))
		sort.Strings(files)
	}
	r.InRegress = true
	defer func() { r.InRegress = false }()
	for _, f := range files {
		raw, _, err := LoadReplay(f)
		if err != nil {
			r.Inconclusive("cannot load replay " + f + ": " + err.Error())
			continue
		}
		r.Eval(1)
		r.Class("regress-replayed")
		if fail := run(raw); fail != nil {
			var cv any
			json.Unmarshal(raw, &cv)
			save := r.Replay
			r.Replay = f // point the violation at the committed file
			r.Violate(cv, fail, true)
			r.Replay = save
		}
	}
}

// Guard runs fn with panic recovery, mapping a panic to a Failure with the given signature.
func Guard(sig string, fn func() *Failure) (f *Failure) {
	defer func() {
		if p := recover(); p != nil {
			f = Failf(sig, "panic: %v", p)
		}
	}()
	return fn()
}

// WithTimeout runs fn in a goroutine and reports whether it returned within d.
func WithTimeout(d time.Duration, fn func()) bool {
	done := make(chan struct{})
	go func() {
		defer close(done)
		fn()
	}()
	select {
	case <-done:
		return true
	case <-time.After(d):
		return false
	}
}

// FuzzFail is called by a native fuzz target (go test -fuzz, started by the driver in the thorough
// tier) when its oracle fails: it stores the case in the replay-file layout under $VERIF_FUZZ_FAILDIR
// so that the driver can turn the smallest one into a VIOLATION whose replay runs through TestCheck.
func FuzzFail(property string, caseValue any, f *Failure) {
	dir := os.Getenv("VERIF_FUZZ_FAILDIR")
	if dir == "" || f == nil {
		return
	}
	b, err := json.MarshalIndent(map[string]any{"property": property, "case": caseValue, "sig": f.Sig, "msg": f.Msg}, "", " ")
	if err != nil {
		return
	}
	sum := sha256.Sum256(b)
	os.MkdirAll(dir, 0o755)
	os.WriteFile(filepath.Join(dir, fmt.Sprintf("%s-fuzz-%s.json", property, hex.EncodeToString(sum[:4]))), b, 0o644)
}
