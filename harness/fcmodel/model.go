// Package fcmodel is the reference model of the fork choice for C09, C10, C11 (DESIGN.md Appendix A).
//
// It is an explicit tree of (root, slot) nodes, a map validator -> latest accepted vote and nothing
// else: no weights, no best-child links, no indices. Every answer is recomputed from scratch by
// direct walks. Where the package's doc comments leave a choice, the reading adopted is written
// next to the function ("READING: ...").
package fcmodel

import (
	"bytes"
	"sort"
)

type Root = [32]byte

type Ref struct {
	Root Root
	Slot uint64
}

type Checkpoint struct {
	Root  Root
	Epoch uint64
}

type ExtRef struct {
	Ref
	ParentRoot Root
}

// Node: a gap ("slot") node has ParentRoot == own root; a block node has its parent block's root.
// Transition parent: gap node -> previous slot's node of the same root; block node -> the gap node
// of its parent root at the block's own slot. Fork-choice parent: gap node -> same as transition
// parent; block node -> the parent root's FIRST retained node at insertion time (proto_array.go
// ProcessBlock: "forkchoiceParentIndex = indices[{parentBlockSlot, parent}]"). Both are fixed at
// insertion and become "none" when the parent is dropped by a prune.
type Node struct {
	Ref        Ref
	ParentRoot Root
	TParent    *Ref
	FParent    *Ref
	JE, FE     uint64
}

func (n *Node) IsBlock() bool { return n.ParentRoot != n.Ref.Root }

type Vote struct {
	Ref   Ref
	Epoch uint64
}

type Model struct {
	SPE       uint64
	Nodes     map[Ref]*Node
	Votes     map[int]Vote
	Balances  []uint64
	Justified Checkpoint
	Finalized Checkpoint
	Pin       *Ref
	idx       *index // derived lookup tables, rebuilt from Nodes after every mutation (not state)
}

type index struct {
	sorted   []Ref
	children map[Ref][]Ref
}

func (m *Model) index() *index {
	if m.idx != nil {
		return m.idx
	}
	ix := &index{children: map[Ref][]Ref{}}
	for r := range m.Nodes {
		ix.sorted = append(ix.sorted, r)
	}
	sort.Slice(ix.sorted, func(i, j int) bool { return Less(ix.sorted[i], ix.sorted[j]) })
	for _, r := range ix.sorted {
		if fp := m.Nodes[r].FParent; fp != nil {
			ix.children[*fp] = append(ix.children[*fp], r)
		}
	}
	m.idx = ix
	return ix
}

// New mirrors NewProtoForkChoice: one anchor node, pinned at the anchor (NewForkChoice calls SetPin).
func New(spe uint64, finalized, justified Checkpoint, anchor Ref, anchorParent Root, balances []uint64) *Model {
	m := &Model{SPE: spe, Nodes: map[Ref]*Node{}, Votes: map[int]Vote{}, Justified: justified, Finalized: finalized}
	m.Nodes[anchor] = &Node{Ref: anchor, ParentRoot: anchorParent, JE: justified.Epoch, FE: finalized.Epoch}
	m.Balances = append([]uint64{}, balances...)
	p := anchor
	m.Pin = &p
	return m
}

func Less(a, b Ref) bool {
	if a.Slot != b.Slot {
		return a.Slot < b.Slot
	}
	return bytes.Compare(a.Root[:], b.Root[:]) < 0
}

// Refs returns every retained node, sorted (deterministic iteration).
func (m *Model) Refs() []Ref { return append([]Ref{}, m.index().sorted...) }

func (m *Model) Has(r Ref) bool { return m.Nodes[r] != nil }

// FirstSlot: lowest slot of any retained node with that root (GetSlot).
func (m *Model) FirstSlot(root Root) (uint64, bool) {
	found, min := false, uint64(0)
	for r := range m.Nodes {
		if r.Root == root && (!found || r.Slot < min) {
			found, min = true, r.Slot
		}
	}
	return min, found
}

// LastSlot: highest slot of any retained node with that root.
func (m *Model) LastSlot(root Root) (uint64, bool) {
	found, max := false, uint64(0)
	for r := range m.Nodes {
		if r.Root == root && (!found || r.Slot > max) {
			found, max = true, r.Slot
		}
	}
	return max, found
}

func (m *Model) tparent(n *Node) *Node {
	if n.TParent == nil {
		return nil
	}
	return m.Nodes[*n.TParent]
}

// ProcessSlot creates the missing gap nodes (parent, first+1 .. slot).
// Precondition (kept by the generator): parent known and slot > first slot of parent.
func (m *Model) ProcessSlot(parent Root, slot, je, fe uint64) {
	ps, ok := m.FirstSlot(parent)
	if !ok || slot <= ps {
		return
	}
	for s := ps + 1; s <= slot; s++ {
		r := Ref{parent, s}
		if m.Nodes[r] != nil {
			continue
		}
		prev := Ref{parent, s - 1}
		p1, p2 := prev, prev
		m.Nodes[r] = &Node{Ref: r, ParentRoot: parent, TParent: &p1, FParent: &p2, JE: je, FE: fe}
		m.idx = nil
	}
}

// ProcessBlock: true/no change if the block, or its root at another slot, is known; false/no change
// if the parent is unknown or not earlier; else gap nodes up to the block slot plus the block node.
func (m *Model) ProcessBlock(parent, root Root, slot, je, fe uint64) bool {
	if _, ok := m.FirstSlot(root); ok {
		return true
	}
	ps, ok := m.FirstSlot(parent)
	if !ok || ps >= slot {
		return false
	}
	m.ProcessSlot(parent, slot, je, fe)
	r := Ref{root, slot}
	tp, fp := Ref{parent, slot}, Ref{parent, ps}
	m.Nodes[r] = &Node{Ref: r, ParentRoot: parent, TParent: &tp, FParent: &fp, JE: je, FE: fe}
	m.idx = nil
	return true
}

// ProcessAttestation (iface.go VoteInput doc): the (root, slot) combination must exist, else false
// and nothing changes. The vote replaces the validator's latest one iff its epoch is later, or it is
// the first (votestore.go: "only update if it's a newer vote").
func (m *Model) ProcessAttestation(v int, root Root, slot uint64) bool {
	r := Ref{root, slot}
	if m.Nodes[r] == nil {
		return false
	}
	ep := slot / m.SPE
	if old, ok := m.Votes[v]; !ok || ep > old.Epoch {
		m.Votes[v] = Vote{Ref: r, Epoch: ep}
	}
	return true
}

func (m *Model) FCChildren(r Ref) []Ref { return m.index().children[r] }

// inFCSubtree: x == top or top is among x's fork-choice ancestors.
func (m *Model) inFCSubtree(top, x Ref) bool {
	for n := m.Nodes[x]; n != nil; {
		if n.Ref == top {
			return true
		}
		if n.FParent == nil {
			return false
		}
		n = m.Nodes[*n.FParent]
	}
	return false
}

func (m *Model) Weight(r Ref) uint64 {
	var w uint64
	for v, vote := range m.Votes {
		if v < len(m.Balances) && m.Nodes[vote.Ref] != nil && m.inFCSubtree(r, vote.Ref) {
			w += m.Balances[v]
		}
	}
	return w
}

// Viable (isNodeViableForHead): each epoch equals the store's, or the store's is 0, separately.
func (m *Model) Viable(r Ref) bool {
	n := m.Nodes[r]
	return (n.JE == m.Justified.Epoch || m.Justified.Epoch == 0) && (n.FE == m.Finalized.Epoch || m.Finalized.Epoch == 0)
}

// Leads: some node in the fork-choice subtree is viable.
func (m *Model) Leads(r Ref) bool {
	if m.Viable(r) {
		return true
	}
	for _, c := range m.FCChildren(r) {
		if m.Leads(c) {
			return true
		}
	}
	return false
}

// HeadInfo describes how the walk went (used by the checks to classify cases, never for verdicts).
type HeadInfo struct {
	Steps         int
	Forks         int  // steps with >= 2 leading children
	TieByRoot     bool // a step where the two best children had equal weight
	NonViableBest bool // a step where a heavier (or equal and greater-root) child was skipped as not leading
}

// FindHead: the node must exist; repeatedly take, among fork-choice children that lead to a viable
// node, max by (weight, root); the end node must be viable, else error.
func (m *Model) FindHead(start Ref) (Ref, bool, HeadInfo) {
	var hi HeadInfo
	if m.Nodes[start] == nil {
		return Ref{}, false, hi
	}
	cur := start
	for {
		var best *Ref
		var bestW uint64
		leading := 0
		var skippedW uint64
		var skipped *Ref
		tie := false
		for _, c := range m.FCChildren(cur) {
			c := c
			w := m.Weight(c)
			if !m.Leads(c) {
				if skipped == nil || w > skippedW || (w == skippedW && bytes.Compare(c.Root[:], skipped.Root[:]) > 0) {
					skipped, skippedW = &c, w
				}
				continue
			}
			leading++
			switch {
			case best == nil:
				best, bestW = &c, w
			case w > bestW:
				best, bestW, tie = &c, w, false
			case w == bestW:
				tie = true
				if bytes.Compare(c.Root[:], best.Root[:]) > 0 {
					best = &c
				}
			}
		}
		if best == nil {
			break
		}
		hi.Steps++
		if leading >= 2 {
			hi.Forks++
		}
		if tie {
			hi.TieByRoot = true
		}
		if skipped != nil && (skippedW > bestW || (skippedW == bestW && bytes.Compare(skipped.Root[:], best.Root[:]) > 0)) {
			hi.NonViableBest = true
		}
		cur = *best
	}
	if !m.Viable(cur) {
		return Ref{}, false, hi
	}
	return cur, true, hi
}

func (m *Model) HeadStart() Ref {
	if m.Pin != nil {
		return *m.Pin
	}
	return Ref{m.Justified.Root, m.Justified.Epoch * m.SPE}
}

func (m *Model) Head() (Ref, bool, HeadInfo) { return m.FindHead(m.HeadStart()) }

// SetPin succeeds iff the node exists ("the node must exist, or we won't be able to find a head").
func (m *Model) SetPin(r Ref) bool {
	if m.Nodes[r] == nil {
		return false
	}
	m.Pin = &r
	return true
}

// ---------------------------------------------------------------- queries (C11)

// tAncestorOrSelf: a == x or a among x's transition ancestors.
func (m *Model) tAncestorOrSelf(a, x Ref) bool {
	for n := m.Nodes[x]; n != nil; n = m.tparent(n) {
		if n.Ref == a {
			return true
		}
	}
	return false
}

// Descends: x is a or has a among its transition ancestors.
func (m *Model) Descends(a, x Ref) bool { return m.tAncestorOrSelf(a, x) }

// InSubtree (doc: "checks if root is in the subtree of the anchor. If the roots are the same, it
// still counts"). READING: unknown iff either root has no retained node (property C11: never
// inserted or pruned roots are unknown); otherwise ancestor-or-equal between the FIRST nodes.
func (m *Model) InSubtree(a, r Root) (unknown, in bool) {
	as, ok1 := m.FirstSlot(a)
	rs, ok2 := m.FirstSlot(r)
	if !ok1 || !ok2 {
		return true, false
	}
	if a == r {
		return false, true
	}
	return false, m.tAncestorOrSelf(Ref{a, as}, Ref{r, rs})
}

// ClosestToSlot (doc: "the closest empty-slot node to the given slot; nodes with blocks after the
// anchor are ignored"). READING: among nodes with the anchor's own root, the one with the greatest
// slot <= the requested slot; error if the root is unknown or the slot precedes its first node.
func (m *Model) ClosestToSlot(a Root, slot uint64) (Ref, bool) {
	fs, ok := m.FirstSlot(a)
	if !ok || slot < fs {
		return Ref{}, false
	}
	best := Ref{a, fs}
	for r := range m.Nodes {
		if r.Root == a && r.Slot <= slot && r.Slot > best.Slot {
			best = r
		}
	}
	return best, true
}

// CanonicalChain (doc: "From head back to anchor root (including the anchor itself, if present)
// and anchor slot. Includes nodes with empty block, then followed up by a node with the block").
// Head first; the transition-parent walk from FindHead(a, s) down to and including (a, s).
func (m *Model) CanonicalChain(a Ref) ([]ExtRef, bool) {
	h, ok, _ := m.FindHead(a)
	if !ok {
		return nil, false
	}
	var out []ExtRef
	for n := m.Nodes[h]; n != nil; n = m.tparent(n) {
		out = append(out, ExtRef{n.Ref, n.ParentRoot})
		if n.Ref == a {
			return out, true
		}
	}
	return out, true // unreachable for fork-choice descendants; kept total
}

// CanonAtSlot (doc: "the canonical node at the given slot. If withBlock is false, a slot node is
// retrieved. If true, a block node is retrieved, or nil if the slot is empty. ... If the fork-choice
// starts at a filled slot node, this node cannot be requested with withBlock == false").
// READING: the chain is the one from the anchor root's FIRST node; errors: unknown anchor, slot
// before the first node, withBlock=false at a first node that is a block node, no viable head.
// If the head lies before the slot, the head is returned ("the head may be the closest we have").
// The zero Ref with ok=true is the documented "nil": the slot is empty on the chain.
func (m *Model) CanonAtSlot(a Root, slot uint64, withBlock bool) (Ref, bool) {
	fs, ok := m.FirstSlot(a)
	if !ok || slot < fs {
		return Ref{}, false
	}
	first := Ref{a, fs}
	if slot == fs {
		isBlock := m.Nodes[first].IsBlock()
		if !withBlock && isBlock {
			return Ref{}, false
		}
		if withBlock && !isBlock {
			return Ref{}, true
		}
		return first, true
	}
	h, ok, _ := m.FindHead(first)
	if !ok {
		return Ref{}, false
	}
	if h.Slot < slot {
		return h, true
	}
	for n := m.Nodes[h]; n != nil; n = m.tparent(n) {
		if n.Ref.Slot < slot {
			break
		}
		if n.Ref.Slot == slot {
			if withBlock {
				if n.IsBlock() {
					return n.Ref, true
				}
				return Ref{}, true
			}
			if !n.IsBlock() {
				return n.Ref, true
			}
		}
	}
	return Ref{}, false
}

// Search (code comments: "searches the available nodes for blocks with a matching parent root
// and/or matching slot"; "no options = search for heads. if it has no child, it's a head. if it
// has only empty slots as children, it's a head"; "only output nodes that are within view"; "if it
// is the head, or has the same best descendant as the head, it's canonical").
// READING: block nodes in the transition subtree of the anchor NODE (the anchor included), filtered;
// with neither filter, blocks without a child block; canonical iff on CanonicalChain(anchor).
func (m *Model) Search(a Ref, parent *Root, slot *uint64) (nonCanon, canon []Ref, ok bool) {
	chain, ok := m.CanonicalChain(a)
	if !ok {
		return nil, nil, false
	}
	onChain := map[Ref]bool{}
	for _, e := range chain {
		onChain[e.Ref] = true
	}
	hasChildBlock := map[Root]bool{}
	for _, n := range m.Nodes {
		if n.IsBlock() {
			hasChildBlock[n.ParentRoot] = true
		}
	}
	for _, r := range m.Refs() {
		n := m.Nodes[r]
		if !n.IsBlock() || !m.tAncestorOrSelf(a, r) {
			continue
		}
		if parent == nil && slot == nil {
			if hasChildBlock[r.Root] {
				continue
			}
		} else {
			if parent != nil && n.ParentRoot != *parent {
				continue
			}
			if slot != nil && r.Slot != *slot {
				continue
			}
		}
		if onChain[r] {
			canon = append(canon, r)
		} else {
			nonCanon = append(nonCanon, r)
		}
	}
	return nonCanon, canon, true
}

// ---------------------------------------------------------------- UpdateJustified / prune (C10)

const (
	UpdNoop    = "noop"
	UpdRefused = "refused"
	UpdApply   = "apply"
)

// Plan of an UpdateJustified call, computed without changing the model.
type UpdatePlan struct {
	Kind      string
	Why       string       // refusal reason class
	Moved     bool         // finalized checkpoint changes (pin cleared, prune attempted)
	Anchor    Ref          // (finalized.root, start_slot(finalized.epoch))
	Prunable  []Ref        // nodes that must be reported and dropped, sorted
	Canonical map[Ref]bool // expected flag per prunable node
}

// PlanUpdate follows forkchoice.go UpdateJustified/updateJustified (with the argument order the
// exported signature documents): no-op if neither epoch is newer; refused if pinned and the trigger
// is unknown or outside the pin's subtree, if justified.epoch < finalized.epoch, if the finalized
// root is unknown / outside the current finalized root's subtree / of an older epoch, or if the
// justified root is unknown / outside the current finalized subtree / older than the current
// finalized epoch. If finalization moves: every node outside the transition subtree of
// (finalized.root, start_slot(epoch)) is dropped and reported once; READING of "canonical": the
// pruned node lies on the canonical chain through the new finalized node, i.e. it is a transition
// ancestor of that node. If that node does not exist nothing is pruned (OnPrune: "if the anchor is
// unknown, then there is nothing to prune anyway").
func (m *Model) PlanUpdate(trigger Root, j, f Checkpoint) UpdatePlan {
	if m.Justified.Epoch >= j.Epoch && m.Finalized.Epoch >= f.Epoch {
		return UpdatePlan{Kind: UpdNoop}
	}
	ref := func(why string) UpdatePlan { return UpdatePlan{Kind: UpdRefused, Why: why} }
	if m.Pin != nil && trigger != m.Pin.Root {
		if unk, in := m.InSubtree(m.Pin.Root, trigger); unk {
			return ref("trigger-unknown")
		} else if !in {
			return ref("trigger-outside-pin")
		}
	}
	if j.Epoch < f.Epoch {
		return ref("justified-before-finalized")
	}
	if f != m.Finalized {
		if unk, in := m.InSubtree(m.Finalized.Root, f.Root); unk {
			return ref("finalized-unknown")
		} else if !in || m.Finalized.Epoch > f.Epoch {
			return ref("finalized-conflicting")
		}
	}
	if j != m.Justified {
		if unk, in := m.InSubtree(m.Finalized.Root, j.Root); unk {
			return ref("justified-unknown")
		} else if !in || m.Finalized.Epoch > j.Epoch {
			return ref("justified-conflicting")
		}
	}
	p := UpdatePlan{Kind: UpdApply, Moved: f != m.Finalized, Anchor: Ref{f.Root, f.Epoch * m.SPE}, Canonical: map[Ref]bool{}}
	if p.Moved && m.Nodes[p.Anchor] != nil {
		for _, r := range m.Refs() {
			if !m.tAncestorOrSelf(p.Anchor, r) {
				p.Prunable = append(p.Prunable, r)
				p.Canonical[r] = m.tAncestorOrSelf(r, p.Anchor)
			}
		}
	}
	return p
}

// CommitUpdate applies an accepted update: checkpoints and balances replaced, pin cleared if
// finalization moved, and exactly the nodes in `dropped` (the successfully reported ones) removed.
func (m *Model) CommitUpdate(p UpdatePlan, j, f Checkpoint, balances []uint64, dropped []Ref) {
	m.Justified, m.Finalized = j, f
	m.Balances = append([]uint64{}, balances...)
	if p.Moved {
		m.Pin = nil
	}
	m.idx = nil
	for _, r := range dropped {
		delete(m.Nodes, r)
	}
	for _, n := range m.Nodes {
		if n.TParent != nil && m.Nodes[*n.TParent] == nil {
			n.TParent = nil
		}
		if n.FParent != nil && m.Nodes[*n.FParent] == nil {
			n.FParent = nil
		}
	}
}
