package sim

import (
	"bytes"
	"context"
	"errors"
	"fmt"
	"sync/atomic"
	"time"

	"github.com/protolambda/zrnt/eth2/beacon"
	"github.com/protolambda/zrnt/eth2/beacon/common"
	"github.com/protolambda/zrnt/eth2/execution"

	"zrntverif/refspec"
	"zrntverif/refssz"
	"zrntverif/zb"
)

// Lock runs a reference chain and the library side in lock-step.
type Lock struct {
	*Chain
	LibSpec *common.Spec
	Lib     *beacon.StandardUpgradeableBeaconState
	Epc     *common.EpochsContext
	// Wrap: the transitions are driven through an application-side wrapper around the upgradeable state
	// (common.WrappedBeaconState: "states that wrap a fork-specific state, e.g. an upgradeable state")
	Wrap bool
}

// outerState is what an application puts around the library's upgradeable state (tracing, metrics): it adds
// nothing and unwraps to it.
type outerState struct {
	*beacon.StandardUpgradeableBeaconState
}

func (o *outerState) Unwrap() common.BeaconState { return o.StandardUpgradeableBeaconState }

func (l *Lock) libArg() common.UpgradeableBeaconState {
	if l.Wrap {
		return &outerState{l.Lib}
	}
	return l.Lib
}

// NewLock starts the library side from the reference genesis state's bytes.
func NewLock(c *Chain) (*Lock, error) {
	spec := zb.ToSpec(c.Cfg)
	spec.ExecutionEngine = &execution.NoOpExecutionEngine{}
	st, err := zb.LoadState(spec, c.St.Fork, c.Sp.StateBytes(c.St))
	if err != nil {
		return nil, fmt.Errorf("library cannot load the reference genesis state: %v", err)
	}
	epc, err := common.NewEpochsContext(spec, st)
	if err != nil {
		return nil, fmt.Errorf("NewEpochsContext on genesis: %v", err)
	}
	return &Lock{Chain: c, LibSpec: spec, Lib: zb.Upgradeable(st), Epc: epc}, nil
}

// Guard runs fn and turns a panic into an error tagged "panic".
func Guard(fn func() error) (err error, panicked bool) {
	defer func() {
		if p := recover(); p != nil {
			err = fmt.Errorf("panic: %v", p)
			panicked = true
		}
	}()
	return fn(), false
}

// Compare reports "" when the library state equals the reference state byte for byte and root for
// root; otherwise a description of the differing field paths.
func (l *Lock) Compare() string {
	return CompareStates(l.Sp, l.St, l.Lib)
}

func CompareStates(sp *refspec.Spec, ref *refspec.State, lib common.BeaconState) string {
	lf := zb.ForkOfState(lib)
	if lf != ref.Fork {
		return fmt.Sprintf("library state type is fork %d, reference is fork %d (%s)", lf, ref.Fork, refspec.ForkNames[ref.Fork])
	}
	lb, err := zb.StateBytes(lib)
	if err != nil {
		return "cannot serialize library state: " + err.Error()
	}
	rb := sp.StateBytes(ref)
	if !bytes.Equal(lb, rb) {
		return "state fields differ (library != reference): " + refssz.DiffBytes(sp.T(refspec.StateTypeName(ref.Fork)), lb, rb)
	}
	lr := zb.StateRoot(lib)
	rr := sp.StateRoot(ref)
	if lr != rr {
		return fmt.Sprintf("equal bytes but library hash-tree-root %x != reference %x", lr, rr)
	}
	return ""
}

// Envelope converts a reference block into the library's envelope through bytes.
func (l *Lock) Envelope(sb *refspec.SignedBlock) (*common.BeaconBlockEnvelope, error) {
	b := l.Sp.SignedBlockBytes(sb)
	epoch := l.Sp.EpochAtSlot(sb.Message.Slot)
	digest := l.Sp.ComputeForkDigest(l.Sp.ComputeForkVersion(epoch), l.St.GenesisValidatorsRoot)
	env, _, err := zb.DecodeBlock(l.LibSpec, sb.Message.Fork, b, common.ForkDigest(digest))
	return env, err
}

// ApplyBlockLib runs the library's full state transition for the block.
func (l *Lock) ApplyBlockLib(ctx context.Context, sb *refspec.SignedBlock) (error, bool) {
	env, err := l.Envelope(sb)
	if err != nil {
		return fmt.Errorf("library cannot decode the block: %v", err), false
	}
	return Guard(func() error {
		return common.StateTransition(ctx, l.LibSpec, l.Epc, l.libArg(), env, true)
	})
}

// ApplyBlockRef runs the reference state transition on the head.
func (l *Lock) ApplyBlockRef(sb *refspec.SignedBlock) error {
	return l.Sp.StateTransition(l.St, sb, true)
}

func (l *Lock) SkipLib(ctx context.Context, slot uint64) (error, bool) {
	return Guard(func() error {
		return common.ProcessSlots(ctx, l.LibSpec, l.Epc, l.libArg(), common.Slot(slot))
	})
}

func (l *Lock) SkipRef(slot uint64) error { return l.Sp.ProcessSlots(l.St, slot) }

// ForkLock copies both sides (CopyState + epc.Clone on the library side).
func (l *Lock) ForkLock() (*Lock, error) {
	cp, err := l.Lib.BeaconState.CopyState()
	if err != nil {
		return nil, err
	}
	return &Lock{Chain: l.Chain.Fork(), LibSpec: l.LibSpec, Lib: zb.Upgradeable(cp), Epc: l.Epc.Clone(), Wrap: l.Wrap}, nil
}

// ForkLockKeys is ForkLock with diverging deposit keys on the copy.
func (l *Lock) ForkLockKeys(off uint64) (*Lock, error) {
	cp, err := l.Lib.BeaconState.CopyState()
	if err != nil {
		return nil, err
	}
	return &Lock{Chain: l.Chain.ForkWithKeyOffset(off), LibSpec: l.LibSpec, Lib: zb.Upgradeable(cp), Epc: l.Epc.Clone()}, nil
}

// ForkLockSwapped: like ForkLockKeys, the sibling uses the same new keys in pairwise swapped order.
func (l *Lock) ForkLockSwapped() (*Lock, error) {
	cp, err := l.Lib.BeaconState.CopyState()
	if err != nil {
		return nil, err
	}
	return &Lock{Chain: l.Chain.ForkWithSwappedKeys(), LibSpec: l.LibSpec, Lib: zb.Upgradeable(cp), Epc: l.Epc.Clone()}, nil
}

// Reload re-reads the library state from its own bytes and builds a fresh context.
func (l *Lock) Reload() error {
	b, err := zb.StateBytes(l.Lib)
	if err != nil {
		return err
	}
	st, err := zb.LoadState(l.LibSpec, zb.ForkOfState(l.Lib), b)
	if err != nil {
		return err
	}
	epc, err := common.NewEpochsContext(l.LibSpec, st)
	if err != nil {
		return err
	}
	l.Lib, l.Epc = zb.Upgradeable(st), epc
	return nil
}

// Blocked is set once a library call failed to return within its watchdog: the runaway goroutine
// cannot be stopped, so every later case short-circuits (shrinking ends quickly).
var Blocked atomic.Bool

// ErrPoisoned: the process already holds a runaway library call; the case must end without a verdict.
var ErrPoisoned = errors.New("skipped: an earlier library call never returned")

// GuardTimeout runs fn under panic recovery and a watchdog.
func GuardTimeout(d time.Duration, fn func() error) (err error, panicked bool, blocked bool) {
	if Blocked.Load() {
		return ErrPoisoned, false, false
	}
	type res struct {
		err error
		p   bool
	}
	ch := make(chan res, 1)
	go func() {
		e, p := Guard(fn)
		ch <- res{e, p}
	}()
	select {
	case r := <-ch:
		return r.err, r.p, false
	case <-time.After(d):
		Blocked.Store(true)
		return fmt.Errorf("call did not return within %v", d), false, true
	}
}
