// Package sim generates configurations, genesis states and chains, builds valid blocks on the
// reference side (refspec) and executes them in lock-step on the reference and on zrnt.
package sim

import (
	"fmt"

	"pgregory.net/rapid"

	"zrntverif/refspec"
)

const Far = refspec.FarFutureEpoch

// ConfigCase is the JSON-serialisable description of a configuration.
type ConfigCase struct {
	Family     string            `json:"family"` // mainnet | minimal | custom
	ForkEpochs [4]uint64         `json:"fork_epochs"`
	Override   map[string]uint64 `json:"override,omitempty"` // custom presets: name -> value
}

func (c *ConfigCase) Key() string {
	return fmt.Sprintf("%s/%v", c.Family, c.ForkEpochs)
}

// Build materialises the reference configuration.
func (c *ConfigCase) Build() *refspec.Config {
	var cfg *refspec.Config
	switch c.Family {
	case "mainnet":
		cfg = refspec.Official("mainnet")
	case "minimal":
		cfg = refspec.Official("minimal")
	default:
		cfg = refspec.Official("minimal").Clone()
		cfg.Name = "custom"
		for k, v := range c.Override {
			cfg.U[k] = v
		}
	}
	cfg.U["ALTAIR_FORK_EPOCH"] = c.ForkEpochs[0]
	cfg.U["BELLATRIX_FORK_EPOCH"] = c.ForkEpochs[1]
	cfg.U["CAPELLA_FORK_EPOCH"] = c.ForkEpochs[2]
	cfg.U["DENEB_FORK_EPOCH"] = c.ForkEpochs[3]
	cfg.U["ELECTRA_FORK_EPOCH"] = Far
	cfg.U["FULU_FORK_EPOCH"] = Far
	cfg.Invalidate()
	return cfg
}

func pick(t *rapid.T, label string, vals ...uint64) uint64 {
	return rapid.SampledFrom(vals).Draw(t, label)
}

// GenForkSchedule draws a non-decreasing schedule of fork epochs >= 1 with equal/adjacent epochs
// and never-activated tails; maxEpoch bounds the activated ones.
func GenForkSchedule(t *rapid.T, maxEpoch uint64) [4]uint64 {
	if maxEpoch < 1 {
		maxEpoch = 1
	}
	k := rapid.IntRange(0, 4).Draw(t, "forks_activated")
	var out [4]uint64
	last := uint64(1)
	for i := 0; i < 4; i++ {
		if i < k {
			step := pick(t, fmt.Sprintf("fork_step_%d", i), 0, 0, 1, 1, 2, 3)
			if i == 0 {
				step = pick(t, "fork_first", 0, 0, 1, 2)
			}
			e := last + step
			if e > maxEpoch {
				e = maxEpoch
			}
			if e < last {
				e = last
			}
			out[i] = e
			last = e
		} else {
			out[i] = Far
		}
	}
	return out
}

// GenCustomOverride draws a custom preset inside the structural envelope described in DESIGN §2.3.
func GenCustomOverride(t *rapid.T) map[string]uint64 {
	o := map[string]uint64{}
	spe := pick(t, "SLOTS_PER_EPOCH", 4, 4, 8, 6)
	o["SLOTS_PER_EPOCH"] = spe
	o["TARGET_COMMITTEE_SIZE"] = pick(t, "TARGET_COMMITTEE_SIZE", 2, 4)
	o["MAX_COMMITTEES_PER_SLOT"] = pick(t, "MAX_COMMITTEES_PER_SLOT", 1, 2, 4)
	o["SHUFFLE_ROUND_COUNT"] = pick(t, "SHUFFLE_ROUND_COUNT", 3, 10, 10, 90)
	// not always a whole number of epochs: the historical batch is then due every floor(SPHR/SPE) epochs
	o["SLOTS_PER_HISTORICAL_ROOT"] = spe*pick(t, "SPHR_mult", 2, 4, 8, 3) + pick(t, "SPHR_off", 0, 0, 0, 1, 3)
	o["EPOCHS_PER_HISTORICAL_VECTOR"] = pick(t, "EPOCHS_PER_HISTORICAL_VECTOR", 8, 16, 64, 12)
	o["EPOCHS_PER_SLASHINGS_VECTOR"] = pick(t, "EPOCHS_PER_SLASHINGS_VECTOR", 4, 8, 64, 6)
	o["EPOCHS_PER_ETH1_VOTING_PERIOD"] = pick(t, "EPOCHS_PER_ETH1_VOTING_PERIOD", 1, 1, 2, 4)
	o["MAX_SEED_LOOKAHEAD"] = pick(t, "MAX_SEED_LOOKAHEAD", 1, 2, 4)
	o["MIN_EPOCHS_TO_INACTIVITY_PENALTY"] = pick(t, "MIN_EPOCHS_TO_INACTIVITY_PENALTY", 1, 2, 4)
	o["SHARD_COMMITTEE_PERIOD"] = pick(t, "SHARD_COMMITTEE_PERIOD", 0, 1, 2, 64)
	o["MIN_VALIDATOR_WITHDRAWABILITY_DELAY"] = pick(t, "MIN_VALIDATOR_WITHDRAWABILITY_DELAY", 1, 2, 256)
	o["EJECTION_BALANCE"] = pick(t, "EJECTION_BALANCE", 16_000_000_000, 31_000_000_000, 31_750_000_000)
	o["MIN_PER_EPOCH_CHURN_LIMIT"] = pick(t, "MIN_PER_EPOCH_CHURN_LIMIT", 1, 2, 4)
	o["CHURN_LIMIT_QUOTIENT"] = pick(t, "CHURN_LIMIT_QUOTIENT", 4, 32, 65536)
	o["MAX_PER_EPOCH_ACTIVATION_CHURN_LIMIT"] = pick(t, "MAX_PER_EPOCH_ACTIVATION_CHURN_LIMIT", 1, 2, 8)
	o["SYNC_COMMITTEE_SIZE"] = pick(t, "SYNC_COMMITTEE_SIZE", 4, 8, 32, 12)
	o["EPOCHS_PER_SYNC_COMMITTEE_PERIOD"] = pick(t, "EPOCHS_PER_SYNC_COMMITTEE_PERIOD", 1, 2, 4, 8)
	o["MAX_PROPOSER_SLASHINGS"] = pick(t, "MAX_PROPOSER_SLASHINGS", 1, 2, 16)
	o["MAX_ATTESTER_SLASHINGS"] = pick(t, "MAX_ATTESTER_SLASHINGS", 1, 2)
	o["MAX_ATTESTATIONS"] = pick(t, "MAX_ATTESTATIONS", 4, 8, 128)
	o["MAX_DEPOSITS"] = pick(t, "MAX_DEPOSITS", 1, 2, 4, 16)
	o["MAX_VOLUNTARY_EXITS"] = pick(t, "MAX_VOLUNTARY_EXITS", 1, 3, 16)
	o["MAX_BLS_TO_EXECUTION_CHANGES"] = pick(t, "MAX_BLS_TO_EXECUTION_CHANGES", 1, 2, 16)
	o["MAX_WITHDRAWALS_PER_PAYLOAD"] = pick(t, "MAX_WITHDRAWALS_PER_PAYLOAD", 1, 2, 4)
	o["MAX_VALIDATORS_PER_WITHDRAWALS_SWEEP"] = pick(t, "MAX_VALIDATORS_PER_WITHDRAWALS_SWEEP", 2, 5, 16, 100)
	o["MAX_BLOBS_PER_BLOCK"] = pick(t, "MAX_BLOBS_PER_BLOCK", 1, 6)
	o["VALIDATOR_REGISTRY_LIMIT"] = pick(t, "VALIDATOR_REGISTRY_LIMIT", 1<<40, 1<<40, 1024)
	o["HISTORICAL_ROOTS_LIMIT"] = pick(t, "HISTORICAL_ROOTS_LIMIT", 1<<24, 64)
	o["INACTIVITY_SCORE_BIAS"] = pick(t, "INACTIVITY_SCORE_BIAS", 4, 4, 1)
	o["INACTIVITY_SCORE_RECOVERY_RATE"] = pick(t, "INACTIVITY_SCORE_RECOVERY_RATE", 16, 1)
	o["MIN_ATTESTATION_INCLUSION_DELAY"] = 1
	return o
}

// GenConfig draws a configuration; `custom` (0..100) is the percentage of custom presets,
// the rest split between minimal and (if allowMainnet) mainnet. maxForkEpoch bounds activation.
func GenConfig(t *rapid.T, customPct int, allowMainnet bool, maxForkEpoch uint64) *ConfigCase {
	c := &ConfigCase{}
	r := rapid.IntRange(0, 99).Draw(t, "config_family")
	switch {
	case r < customPct:
		c.Family = "custom"
		c.Override = GenCustomOverride(t)
	case allowMainnet && r%4 == 0:
		c.Family = "mainnet"
	default:
		c.Family = "minimal"
	}
	c.ForkEpochs = GenForkSchedule(t, maxForkEpoch)
	return c
}
