package sim

import (
	"context"
	"fmt"
	"strings"
	"time"

	"pgregory.net/rapid"

	"zrntverif/refspec"
)

// ConflictCase: two chains share one pubkey cache (CopyState + Clone) and then include different
// new validators at the same indices — or the same ones in another order; each must end up with a
// context equal to a fresh one. Shared by C08 (whole context) and C16 (the cache handle).
type ConflictCase struct {
	Conflict  bool   `json:"conflict"`
	SeedM     uint64 `json:"seed_m"`
	SeedS     uint64 `json:"seed_s"`
	NewM      int    `json:"new_m"`
	NewS      int    `json:"new_s"`
	MaxDep    uint64 `json:"max_deposits"`
	SlotsM    int    `json:"slots_m"`
	SlotsS    int    `json:"slots_s"`
	TopUpLate bool   `json:"top_up_late"`
	SameKeys  bool   `json:"same_keys"`         // the sibling replays the same deposit history later (cache already knows its keys at indices >= its count)
	Swapped   bool   `json:"swapped,omitempty"` // the sibling includes the same new keys in pairwise swapped order (cache knows a key at a HIGHER index than the sibling assigns)
	// BadPopS (with SameKeys): the sibling's deposits are for the very keys the main chain registered, but carry an
	// invalid proof of possession: they must be skipped on the sibling although the shared cache knows those keys
	BadPopS bool `json:"bad_pop_s,omitempty"`
}

// ConflictResult: Sig == "" means nothing wrong was seen.
type ConflictResult struct {
	Sig, Msg   string
	Evals      int
	NonTrivial bool   // both chains added validators
	Class      string // reordered | same-history | conflicting
}

func EpcClass(d string) string {
	for _, k := range []string{"CurrentSyncCommittee", "NextSyncCommittee", "PreviousEpoch", "CurrentEpoch", "NextEpoch", "Proposers", "EffectiveBalances", "TotalActiveStakeSqRoot", "TotalActiveStake", "pubkey cache", "NewEpochsContext failed"} {
		if strings.HasPrefix(d, k) {
			return strings.ReplaceAll(k, " ", "-")
		}
	}
	return "other"
}

func truncC(s string) string {
	if len(s) > 600 {
		return s[:600] + "…"
	}
	return s
}

func GenConflictCase(rt *rapid.T) *ConflictCase {
	c := &ConflictCase{Conflict: true, SeedM: rapid.Uint64().Draw(rt, "seed_m"), SeedS: rapid.Uint64().Draw(rt, "seed_s"),
		NewM: rapid.IntRange(1, 4).Draw(rt, "new_m"), NewS: rapid.IntRange(1, 4).Draw(rt, "new_s"),
		MaxDep: rapid.SampledFrom([]uint64{1, 2, 16}).Draw(rt, "max_dep"), SlotsM: rapid.IntRange(5, 9).Draw(rt, "slots_m"),
		SlotsS: rapid.IntRange(5, 9).Draw(rt, "slots_s"), TopUpLate: rapid.Bool().Draw(rt, "top_up_late"), SameKeys: rapid.Bool().Draw(rt, "same_keys")}
	if c.SameKeys && rapid.IntRange(0, 2).Draw(rt, "bad_pop_s") == 0 {
		c.BadPopS = true
		return c
	}
	if rapid.IntRange(0, 2).Draw(rt, "swapped") == 0 {
		c.Swapped, c.SameKeys = true, false
		if c.NewM < 2 {
			c.NewM = 2
		}
		if c.NewS < 2 {
			c.NewS = 2
		}
	}
	return c
}

// RunConflict runs the case under a watchdog: a pubkey cache that loops or recurses without end (both
// have happened) is a verdict ("conflict/blocked"), not a hung check.
func RunConflict(c *ConflictCase) (out ConflictResult) {
	var res ConflictResult
	err, panicked, blocked := GuardTimeout(120*time.Second, func() error {
		res = runConflict(c)
		return nil
	})
	switch {
	case err == ErrPoisoned:
		return ConflictResult{}
	case blocked:
		return ConflictResult{Sig: "conflict/blocked", Msg: fmt.Sprintf("two chains sharing a pubkey cache (%+v): a library call did not return within 120 s", *c)}
	case panicked:
		return ConflictResult{Sig: "conflict/panic", Msg: fmt.Sprintf("%v", err)}
	}
	return res
}

func runConflict(c *ConflictCase) (out ConflictResult) {
	far := refspec.FarFutureEpoch
	o := map[string]uint64{"SLOTS_PER_EPOCH": 4, "TARGET_COMMITTEE_SIZE": 2, "MAX_COMMITTEES_PER_SLOT": 2, "SHUFFLE_ROUND_COUNT": 3,
		"SLOTS_PER_HISTORICAL_ROOT": 8, "EPOCHS_PER_HISTORICAL_VECTOR": 8, "EPOCHS_PER_SLASHINGS_VECTOR": 4, "EPOCHS_PER_ETH1_VOTING_PERIOD": 1,
		"MAX_SEED_LOOKAHEAD": 1, "SYNC_COMMITTEE_SIZE": 4, "EPOCHS_PER_SYNC_COMMITTEE_PERIOD": 2, "MAX_DEPOSITS": c.MaxDep, "MAX_ATTESTATIONS": 128}
	cfgc := ConfigCase{Family: "custom", ForkEpochs: [4]uint64{1, far, far, far}, Override: o}
	g := GenesisCase{N: 12, GenesisTime: 5, Eth1Seed: c.SeedM}
	for i := 0; i < 12; i++ {
		g.AmountClass = append(g.AmountClass, 0)
		g.Eth1Cred = append(g.Eth1Cred, true)
	}
	fail := func(sig, format string, a ...any) ConflictResult {
		out.Sig, out.Msg = sig, fmt.Sprintf(format, a...)
		return out
	}
	chain, err := NewChain(cfgc.Build(), &g)
	if err != nil {
		return fail("harness", "%v", err)
	}
	m, err := NewLock(chain)
	if err != nil {
		return fail("genesis/load", "%v", err)
	}
	off := uint64(1000)
	if c.SameKeys {
		off = 0
	}
	s, err := m.ForkLockKeys(off)
	if c.Swapped {
		s, err = m.ForkLockSwapped()
	}
	if err != nil {
		return fail("harness", "%v", err)
	}
	ctx := context.Background()
	stop := false
	drive := func(l *Lock, name string, seed uint64, nNew int, slots int) bool {
		for k := 1; k <= slots; k++ {
			p := &BlockPlan{Seed: seed + uint64(k), AttMode: 1, Participation: 1000, SyncPm: 1000, Eth1Vote: 1}
			if k == 1 {
				kind := 0
				if c.BadPopS && c.SameKeys && name == "sibling" {
					kind = 2
				}
				for i := 0; i < nNew; i++ {
					p.Queue = append(p.Queue, DepPlan{Kind: kind, Amount: 0, Eth1: true})
				}
			}
			if c.TopUpLate && k == slots-1 {
				p.Queue = append(p.Queue, DepPlan{Kind: 1, Amount: 1, Target: 12 + k%3})
			}
			res := l.StepBlock(ctx, l.St.Slot+1, p)
			if res.BuildErr != nil || res.RefErr != nil {
				stop = true
				return true
			}
			if res.LibPanic {
				fail("conflict/panic", "%s chain slot %d: %v %v", name, l.St.Slot, res.LibErr, res.SlotsErr)
				return false
			}
			if res.SlotsErr != nil || res.SlotsDiff != "" || res.LibErr != nil || res.Diff != "" {
				// with a shared cache a wrong pubkey->index answer shows up as a state divergence (a deposit
				// credited to the wrong validator): that is this property's subject, not C01's
				fail("conflict/diverge", "%s chain (shares its pubkey cache with a sibling that has a different deposit history) at slot %d: %v %v %s %s", name, l.St.Slot, res.SlotsErr, res.LibErr, truncC(res.SlotsDiff), truncC(res.Diff))
				return false
			}
			out.Evals++
			if d := l.CheckEpc(); d != "" {
				fail("epc-stale:"+EpcClass(d), "%s chain (shared cache, diverging deposit histories) at slot %d: %s", name, l.St.Slot, truncC(d))
				return false
			}
		}
		return true
	}
	if !drive(m, "main", c.SeedM, c.NewM, c.SlotsM) || stop {
		return out
	}
	if !drive(s, "sibling", c.SeedS, c.NewS, c.SlotsS) || stop {
		return out
	}
	// the main chain must be undisturbed by what the sibling did to the shared cache
	if d := m.CheckEpc(); d != "" {
		return fail("epc-stale:"+EpcClass(d), "main chain after the sibling included conflicting deposits: %s", truncC(d))
	}
	if !drive(m, "main(after sibling)", c.SeedM+77, 0, 3) || stop {
		return out
	}
	if c.BadPopS && c.SameKeys && len(m.St.Validators) > 12 && len(s.Chain.Datas) > 12 {
		out.NonTrivial = true
		out.Class = "sibling-bad-pop-of-keys-the-cache-knows"
	} else if len(m.St.Validators) > 12 && len(s.St.Validators) > 12 {
		out.NonTrivial = true
		switch {
		case c.Swapped:
			out.Class = "reordered"
		case c.SameKeys:
			out.Class = "same-history"
		default:
			out.Class = "conflicting"
		}
	}
	return out
}
