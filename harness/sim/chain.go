package sim

import (
	"encoding/binary"
	"errors"
	"fmt"
	"sort"

	"zrntverif/refspec"
)

type Root = refspec.Root

// ErrProposerSlashed: the slot's proposer is slashed, so no valid block exists for it.
var ErrProposerSlashed = errors.New("the proposer of this slot is slashed")

const WithdrawalKeyBase = 1 << 20

// prng: splitmix64, seeded from rapid-drawn plan values only (deterministic, replayable).
type prng struct{ s uint64 }

func (p *prng) next() uint64 {
	p.s += 0x9e3779b97f4a7c15
	z := p.s
	z = (z ^ (z >> 30)) * 0xbf58476d1ce4e5b9
	z = (z ^ (z >> 27)) * 0x94d049bb133111eb
	return z ^ (z >> 31)
}
func (p *prng) n(n int) int {
	if n <= 0 {
		return 0
	}
	return int(p.next() % uint64(n))
}
func (p *prng) pm(perMille int) bool { return int(p.next()%1000) < perMille }
func (p *prng) bytes(n int) []byte {
	out := make([]byte, n)
	for i := 0; i < n; i += 8 {
		var b [8]byte
		binary.LittleEndian.PutUint64(b[:], p.next())
		copy(out[i:], b[:])
	}
	return out
}
func (p *prng) root() (r Root) { copy(r[:], p.bytes(32)); return }

// GenesisCase describes the genesis registry.
type GenesisCase struct {
	N           int    `json:"n"`
	AmountClass []int  `json:"amount_class"` // per validator: index into AmountTable
	Eth1Cred    []bool `json:"eth1_cred"`
	GenesisTime uint64 `json:"genesis_time"`
	Eth1Seed    uint64 `json:"eth1_seed"`
	// OddCreds: some non-eth1 credentials (of genesis validators and of later deposits) carry a prefix
	// other than 0x00/0x01 in front of hash(withdrawal pubkey)[1:] — credentials are opaque to deposits
	OddCreds bool `json:"odd_creds,omitempty"`
}

// AmountTable (Gwei) relative to a 32 ETH MAX_EFFECTIVE_BALANCE.
var AmountTable = []uint64{32_000_000_000, 32_000_000_000, 33_500_000_000, 32_300_000_000, 31_000_000_000, 17_000_000_000, 40_000_000_000,
	500_000_000, 1_100_000_000} // 7, 8: deposits that create validators with an effective balance of 0 / 1 ETH

type DepPlan struct {
	Kind   int  `json:"kind"`   // 0 new valid, 1 top-up of existing, 2 bad proof-of-possession, 3 invalid pubkey bytes, 4 repeat of a new key (top-up before first seen), 5 top-up of the validator with the lowest effective balance
	Amount int  `json:"amount"` // index into AmountTable, or small top-ups
	Eth1   bool `json:"eth1"`
	Target int  `json:"target"` // top-up: validator selector
}

// BlockPlan is the JSON-serialisable recipe of one block; every choice in it was a rapid draw.
type BlockPlan struct {
	Seed           uint64    `json:"seed"`
	AttMode        int       `json:"att_mode"` // 0 none, 1 all pending in window, 2 previous slot only, 3 oldest includable only, 4 pending incl. duplicates
	Participation  int       `json:"participation_pm"`
	WrongHeadPm    int       `json:"wrong_head_pm"`
	WrongTargetPm  int       `json:"wrong_target_pm"`
	NPropSlash     int       `json:"n_prop_slash"`
	NAttSlash      int       `json:"n_att_slash"`
	Surround       bool      `json:"surround"`
	NExits         int       `json:"n_exits"`
	NBLSChanges    int       `json:"n_bls_changes"`
	Queue          []DepPlan `json:"queue_deposits,omitempty"` // added to the deposit tree before this block
	SyncPm         int       `json:"sync_pm"`
	Eth1Vote       int       `json:"eth1_vote"` // 0 keep, 1 candidate, 2 random
	Txs            int       `json:"txs"`
	Blobs          int       `json:"blobs"`
	DefaultPayload bool      `json:"default_payload"` // bellatrix pre-merge: keep execution disabled
	BySlashedProposer bool   `json:"by_slashed_proposer,omitempty"` // build the block although the slot's proposer is slashed (invalid: used by C03 only)
	PayloadShape   int       `json:"payload_shape,omitempty"` // 0 ordinary; 1 block_hash all zero; 2 sparse: only parent_hash, prev_randao, timestamp (and withdrawals) are non-default
	AttEpochs      int       `json:"att_epochs,omitempty"` // 0: attestations of both epochs; 1: only those whose target is the previous epoch; 2: only the current epoch's
	SlashSpan      int       `json:"slash_span,omitempty"` // 0: slashed headers/votes from the last two epochs; 1: from any past epoch (other side of fork upgrades); 2: also future epochs
}

// BuildInfo reports what the built block contains.
type BuildInfo struct {
	Fork        int
	Kinds       []string // operation kinds present, sorted
	Position    string   // first-slot-of-epoch | epoch-after-upgrade | other
	Slips       int      // operations the reference refused while building (dropped)
	ExitQueued  bool     // an exit was placed behind a non-empty exit queue
	Withdrawals int
	Post        *refspec.State
	Pre         *refspec.State // reference state advanced to the block's slot, before the block
}

type Chain struct {
	Cfg *refspec.Config
	Sp  *refspec.Spec
	St  *refspec.State

	Leaves        []Root
	Datas         []refspec.DepositData
	KeyOf         map[[48]byte]uint64
	NextKey       uint64
	// KeySwapFrom > 0: keys of NEW validators are taken in pairwise swapped order from this counter
	// value on (k, k+1 -> k+1, k): the same deposits as a sibling chain, in another order.
	KeySwapFrom uint64
	OddCreds    bool
	Included      map[[2]uint64]bool
	Eth1Cand      refspec.Eth1Data
	execCtr       uint64
	UpgradeEpochs map[uint64]bool
}

func blsCredFor(k uint64) (wc [32]byte) {
	pk := refspec.KeyPubkey(WithdrawalKeyBase + k)
	h := refspec.Hash(pk[:])
	copy(wc[:], h[:])
	wc[0] = refspec.BLS_WITHDRAWAL_PREFIX
	return
}
// credFor: the withdrawal credentials the chain gives key k.
func (c *Chain) credFor(k uint64, eth1 bool) [32]byte {
	if eth1 {
		return eth1CredFor(k)
	}
	wc := blsCredFor(k)
	if c.OddCreds {
		switch k % 5 {
		case 3:
			wc[0] = 0x02
		case 4:
			wc[0] = 0xff
		}
	}
	return wc
}
func eth1CredFor(k uint64) (wc [32]byte) {
	wc[0] = refspec.ETH1_ADDRESS_WITHDRAWAL_PREFIX
	for i := 12; i < 32; i++ {
		wc[i] = byte(k + uint64(i))
	}
	return
}

var depSigMemo = map[[32]byte][96]byte{}

func (c *Chain) depositData(k uint64, eth1 bool, amount uint64, goodSig bool) refspec.DepositData {
	d := refspec.DepositData{Pubkey: refspec.KeyPubkey(k), Amount: amount}
	d.WithdrawalCredentials = c.credFor(k, eth1)
	msg := c.Sp.HTR("DepositMessage", d.MessageV())
	sr := c.Sp.ComputeSigningRoot(msg, c.Sp.ComputeDomain(refspec.DOMAIN_DEPOSIT, c.Sp.P.ForkVersions[refspec.Phase0], Root{}))
	signer := k
	if !goodSig {
		signer = k + 7777
	}
	key := refspec.Hash(append(sr[:], byte(signer), byte(signer>>8), byte(signer>>16), byte(signer>>24)))
	if s, ok := depSigMemo[key]; ok {
		d.Signature = s
	} else {
		d.Signature = refspec.Sign(signer, sr)
		depSigMemo[key] = d.Signature
	}
	return d
}

// NewChain builds the reference genesis state directly (trusted deposits, no signature checks:
// genesis construction itself is C13's subject) and the deposit tree that matches it.
func NewChain(cfg *refspec.Config, g *GenesisCase) (*Chain, error) {
	sp := refspec.NewSpec(cfg)
	c := &Chain{Cfg: cfg, Sp: sp, KeyOf: map[[48]byte]uint64{}, Included: map[[2]uint64]bool{}, UpgradeEpochs: map[uint64]bool{}, OddCreds: g.OddCreds}
	p := sp.P
	s := &refspec.State{Fork: refspec.Phase0}
	s.GenesisTime = g.GenesisTime
	s.ForkData = refspec.Fork{PreviousVersion: p.ForkVersions[0], CurrentVersion: p.ForkVersions[0]}
	pr := prng{g.Eth1Seed}
	eth1Hash := pr.root()
	emptyBody := refspec.Body{}
	s.LatestBlockHeader = refspec.BeaconBlockHeader{BodyRoot: sp.HTR(refspec.BodyTypeName(0), emptyBody.V(0))}
	s.BlockRoots = make([]Root, p.SLOTS_PER_HISTORICAL_ROOT)
	s.StateRoots = make([]Root, p.SLOTS_PER_HISTORICAL_ROOT)
	s.RandaoMixes = make([]Root, p.EPOCHS_PER_HISTORICAL_VECTOR)
	for i := range s.RandaoMixes {
		s.RandaoMixes[i] = eth1Hash
	}
	s.Slashings = make([]uint64, p.EPOCHS_PER_SLASHINGS_VECTOR)
	for i := 0; i < g.N; i++ {
		k := uint64(i)
		amt := AmountTable[g.AmountClass[i]%len(AmountTable)]
		d := refspec.DepositData{Pubkey: refspec.KeyPubkey(k), Amount: amt}
		d.WithdrawalCredentials = c.credFor(k, g.Eth1Cred[i])
		// genesis deposits are never re-verified: a placeholder signature is enough
		d.Signature[0] = 0xc0
		c.Datas = append(c.Datas, d)
		c.Leaves = append(c.Leaves, sp.HTR("DepositData", d.V()))
		c.KeyOf[d.Pubkey] = k
		eb := amt - amt%p.EFFECTIVE_BALANCE_INCREMENT
		if eb > p.MAX_EFFECTIVE_BALANCE {
			eb = p.MAX_EFFECTIVE_BALANCE
		}
		v := refspec.Validator{Pubkey: d.Pubkey, WithdrawalCredentials: d.WithdrawalCredentials, EffectiveBalance: eb,
			ActivationEligibilityEpoch: Far, ActivationEpoch: Far, ExitEpoch: Far, WithdrawableEpoch: Far}
		if eb == p.MAX_EFFECTIVE_BALANCE {
			v.ActivationEligibilityEpoch, v.ActivationEpoch = 0, 0
		}
		s.Validators = append(s.Validators, v)
		s.Balances = append(s.Balances, amt)
	}
	c.NextKey = uint64(g.N)
	s.Eth1Data = refspec.Eth1Data{DepositRoot: refspec.DepositListRoot(c.Leaves), DepositCount: uint64(g.N), BlockHash: eth1Hash}
	s.Eth1DepositIndex = uint64(g.N)
	vals := make([]any, len(s.Validators))
	for i := range vals {
		vals[i] = s.Validators[i].V()
	}
	s.GenesisValidatorsRoot = sp.HTR("ValidatorRegistry", vals)
	c.St = s
	c.Eth1Cand = s.Eth1Data
	for f := 1; f <= 4; f++ {
		if e := p.ForkEpochs[f]; e != Far {
			c.UpgradeEpochs[e] = true
		}
	}
	if len(sp.ActiveIndices(s, 0)) == 0 {
		return nil, fmt.Errorf("no active validators at genesis")
	}
	return c, nil
}

// Fork copies the chain (independent reference state, shared append-only deposit tree prefix).
func (c *Chain) Fork() *Chain {
	o := *c
	o.St = c.St.Copy()
	o.Leaves = append([]Root{}, c.Leaves...)
	o.Datas = append([]refspec.DepositData{}, c.Datas...)
	o.KeyOf = map[[48]byte]uint64{}
	for k, v := range c.KeyOf {
		o.KeyOf[k] = v
	}
	o.Included = map[[2]uint64]bool{}
	for k, v := range c.Included {
		o.Included[k] = v
	}
	return &o
}

// ForkWithKeyOffset is Fork, but new validators created on the copy use different pool keys, so the
// two chains build diverging deposit histories (different pubkeys at the same validator index).
func (c *Chain) ForkWithKeyOffset(off uint64) *Chain {
	o := c.Fork()
	o.NextKey += off
	return o
}

// ForkWithSwappedKeys is Fork, but the copy creates its new validators from the same keys in pairwise
// swapped order (an eth1 reorg that reorders deposits): the shared pubkey cache then knows a key at a
// higher index than the one the copy assigns it.
func (c *Chain) ForkWithSwappedKeys() *Chain {
	o := c.Fork()
	o.KeySwapFrom = o.NextKey
	return o
}

func (c *Chain) queueDeposits(st *refspec.State, plans []DepPlan, pr *prng) {
	if len(plans) == 0 {
		return
	}
	for _, dp := range plans {
		var d refspec.DepositData
		amt := AmountTable[dp.Amount%len(AmountTable)]
		switch dp.Kind {
		case 1, 5: // top-up of an existing validator (5: of the one with the lowest effective balance, latest index on ties)
			if len(st.Validators) == 0 {
				continue
			}
			vi := dp.Target % len(st.Validators)
			if dp.Kind == 5 {
				for i := range st.Validators {
					if st.Validators[i].EffectiveBalance <= st.Validators[vi].EffectiveBalance {
						vi = i
					}
				}
			}
			k, ok := c.KeyOf[st.Validators[vi].Pubkey]
			if !ok {
				continue
			}
			amt = []uint64{1_000_000_000, 2_500_000_000, 500_000_000, 16_000_000_000}[dp.Amount%4]
			d = c.depositData(k, dp.Eth1, amt, dp.Amount%2 == 0) // top-up signatures are not checked: half are by another key
			switch dp.Target % 3 {
			case 1: // ... and a third are not even decodable points
				d.Signature = [96]byte{}
			case 2:
				for i := range d.Signature {
					d.Signature[i] = 0xff
				}
			}
		case 2: // bad proof of possession on a new key
			d = c.depositData(c.NextKey, dp.Eth1, amt, false)
			c.NextKey++ // the key stays unused in the registry
		case 3: // invalid pubkey bytes
			d = c.depositData(c.NextKey, dp.Eth1, amt, true)
			c.NextKey++
			for i := range d.Pubkey {
				d.Pubkey[i] = 0xff
			}
		default: // new valid validator
			k := c.NextKey
			if c.KeySwapFrom > 0 && k >= c.KeySwapFrom {
				k = c.KeySwapFrom + ((k - c.KeySwapFrom) ^ 1)
			}
			c.NextKey++
			d = c.depositData(k, dp.Eth1, amt, true)
			c.KeyOf[d.Pubkey] = k
		}
		c.Datas = append(c.Datas, d)
		c.Leaves = append(c.Leaves, c.Sp.HTR("DepositData", d.V()))
	}
	c.Eth1Cand = refspec.Eth1Data{DepositRoot: refspec.DepositListRoot(c.Leaves), DepositCount: uint64(len(c.Leaves)), BlockHash: pr.root()}
}

func sortedKinds(m map[string]bool) []string {
	out := make([]string, 0, len(m))
	for k := range m {
		out = append(out, k)
	}
	sort.Strings(out)
	return out
}

// StateAt returns a copy of the head state advanced to slot (or the head copy if already there).
func (c *Chain) StateAt(slot uint64) (*refspec.State, error) {
	pre := c.St.Copy()
	if pre.Slot < slot {
		if err := c.Sp.ProcessSlots(pre, slot); err != nil {
			return nil, err
		}
	}
	return pre, nil
}

// BuildBlock builds a valid signed block for `slot` (> head slot) according to plan.
func (c *Chain) BuildBlock(slot uint64, plan *BlockPlan) (sbOut *refspec.SignedBlock, infoOut *BuildInfo, errOut error) {
	defer func() {
		if p := recover(); p != nil {
			if inv, ok := p.(refspec.Invalid); ok {
				sbOut, infoOut, errOut = nil, nil, fmt.Errorf("builder hit a spec assertion: %v", inv)
				return
			}
			panic(p)
		}
	}()
	sp, p := c.Sp, c.Sp.P
	if slot <= c.St.Slot {
		return nil, nil, fmt.Errorf("slot %d not after head %d", slot, c.St.Slot)
	}
	pr := &prng{plan.Seed}
	pre, err := c.StateAt(slot)
	if err != nil {
		return nil, nil, fmt.Errorf("reference process_slots failed: %v", err)
	}
	if len(sp.ActiveIndices(pre, sp.CurrentEpoch(pre))) == 0 {
		return nil, nil, ErrProposerSlashed // no proposer at all
	}
	if pre.Validators[sp.BeaconProposerIndex(pre)].Slashed && !plan.BySlashedProposer {
		return nil, nil, ErrProposerSlashed // nobody can propose at this slot
	}
	c.queueDeposits(pre, plan.Queue, pr)
	info := &BuildInfo{Fork: pre.Fork}
	kinds := map[string]bool{}
	epoch := sp.CurrentEpoch(pre)
	switch {
	case slot%p.SLOTS_PER_EPOCH == 0:
		info.Position = "first-slot-of-epoch"
	case c.UpgradeEpochs[epoch]:
		info.Position = "epoch-after-upgrade"
	default:
		info.Position = "other"
	}
	if c.UpgradeEpochs[epoch] && info.Position == "first-slot-of-epoch" {
		info.Position = "first-slot-after-upgrade"
	}

	work := pre.Copy()
	proposer := sp.BeaconProposerIndex(pre)
	pkey, ok := c.KeyOf[pre.Validators[proposer].Pubkey]
	if !ok {
		return nil, nil, fmt.Errorf("proposer key unknown")
	}
	blk := &refspec.Block{Fork: pre.Fork, Slot: slot, ProposerIndex: proposer, ParentRoot: sp.HeaderRoot(&pre.LatestBlockHeader)}
	body := &blk.Body
	copy(body.Graffiti[:], pr.bytes(32))
	work.LatestBlockHeader = refspec.BeaconBlockHeader{Slot: slot, ProposerIndex: proposer, ParentRoot: blk.ParentRoot}

	// ---- execution payload
	if pre.Fork >= refspec.Bellatrix {
		merged := sp.IsMergeTransitionComplete(work)
		makePayload := pre.Fork >= refspec.Capella || merged || !plan.DefaultPayload
		if makePayload {
			pl := &body.ExecutionPayload
			pl.ParentHash = work.LatestExecutionPayloadHeader.BlockHash
			if pre.Fork == refspec.Bellatrix && !merged {
				pl.ParentHash = pr.root() // merge transition block: parent is the terminal PoW block
			}
			copy(pl.FeeRecipient[:], pr.bytes(20))
			pl.StateRoot, pl.ReceiptsRoot = pr.root(), pr.root()
			copy(pl.LogsBloom[:], pr.bytes(256))
			pl.PrevRandao = sp.GetRandaoMix(work, epoch)
			pl.BlockNumber = work.LatestExecutionPayloadHeader.BlockNumber + 1
			pl.GasLimit, pl.GasUsed = 30_000_000, uint64(pr.n(30_000_000))
			pl.Timestamp = sp.TimestampAtSlot(work, slot)
			pl.ExtraData = pr.bytes(pr.n(33))
			copy(pl.BaseFeePerGas[:], pr.bytes(8+pr.n(3)*8))
			c.execCtr++
			pl.BlockHash = pr.root()
			pl.BlockHash[0] |= 1
			for i := 0; i < plan.Txs; i++ {
				pl.Transactions = append(pl.Transactions, pr.bytes(1+pr.n(40)))
			}
			if pre.Fork >= refspec.Capella {
				pl.Withdrawals = sp.ExpectedWithdrawals(work)
				info.Withdrawals = len(pl.Withdrawals)
				if len(pl.Withdrawals) > 0 {
					kinds["withdrawals"] = true
				}
			}
			if pre.Fork >= refspec.Deneb {
				pl.BlobGasUsed, pl.ExcessBlobGas = uint64(pr.n(1<<20)), uint64(pr.n(1<<20))
				nb := plan.Blobs
				if uint64(nb) > p.MAX_BLOBS_PER_BLOCK {
					nb = int(p.MAX_BLOBS_PER_BLOCK)
				}
				for i := 0; i < nb; i++ {
					var cm [48]byte
					copy(cm[:], pr.bytes(48))
					body.BlobCommitments = append(body.BlobCommitments, cm)
				}
				if nb > 0 {
					kinds["blobs"] = true
				}
			}
			switch plan.PayloadShape {
			case 1:
				pl.BlockHash = Root{}
			case 2: // as close to ExecutionPayload() as a valid non-default payload gets
				pl.FeeRecipient, pl.StateRoot, pl.ReceiptsRoot, pl.LogsBloom = [20]byte{}, Root{}, Root{}, [256]byte{}
				pl.BlockNumber, pl.GasLimit, pl.GasUsed, pl.ExtraData, pl.BaseFeePerGas = 0, 0, 0, nil, [32]byte{}
				pl.BlockHash, pl.Transactions, pl.BlobGasUsed, pl.ExcessBlobGas = Root{}, nil, 0, 0
			}
			kinds["payload"] = true
			if pre.Fork >= refspec.Capella {
				if err := sp.ApplyWithdrawals(work, pl); err != nil {
					return nil, nil, fmt.Errorf("builder: withdrawals: %v", err)
				}
			}
			if err := sp.ApplyExecutionPayload(work, blk); err != nil {
				return nil, nil, fmt.Errorf("builder: payload: %v", err)
			}
		}
	}

	// ---- randao
	rsr := sp.ComputeSigningRoot(sp.HTR("Epoch", epoch), sp.GetDomainNow(work, refspec.DOMAIN_RANDAO))
	body.RandaoReveal = refspec.Sign(pkey, rsr)
	if err := sp.ApplyRandao(work, body); err != nil {
		return nil, nil, fmt.Errorf("builder: randao: %v", err)
	}

	// ---- eth1 vote
	switch plan.Eth1Vote {
	case 1:
		body.Eth1Data = c.Eth1Cand
	case 2:
		body.Eth1Data = refspec.Eth1Data{DepositRoot: pr.root(), DepositCount: work.Eth1Data.DepositCount, BlockHash: pr.root()}
	default:
		body.Eth1Data = work.Eth1Data
	}
	if err := sp.ApplyEth1Data(work, body); err != nil {
		return nil, nil, fmt.Errorf("builder: eth1 data: %v", err)
	}
	if body.Eth1Data != pre.Eth1Data {
		kinds["eth1-vote-change"] = true
	}

	// ---- proposer slashings
	slashedNow := map[uint64]bool{}
	for i := 0; i < plan.NPropSlash && uint64(len(body.ProposerSlashings)) < p.MAX_PROPOSER_SLASHINGS; i++ {
		var cand []uint64
		for vi := range work.Validators {
			if refspec.IsSlashableValidator(&work.Validators[vi], epoch) && uint64(vi) != proposer {
				if _, ok := c.KeyOf[work.Validators[vi].Pubkey]; ok {
					cand = append(cand, uint64(vi))
				}
			}
		}
		if len(cand) <= 2 { // keep the chain alive
			break
		}
		vi := cand[pr.n(len(cand))]
		k := c.KeyOf[work.Validators[vi].Pubkey]
		hs := slot - uint64(pr.n(int(minU(slot, 2*p.SLOTS_PER_EPOCH)+1)))
		switch {
		case plan.SlashSpan >= 1 && pr.pm(600):
			hs = uint64(pr.n(int(slot) + 1)) // any past slot: the domain is the one of that slot's epoch
		case plan.SlashSpan >= 2 && pr.pm(500):
			hs = slot + 1 + uint64(pr.n(int(3*p.SLOTS_PER_EPOCH))) // headers of future slots are slashable too
		}
		h1 := refspec.BeaconBlockHeader{Slot: hs, ProposerIndex: vi, ParentRoot: pr.root(), StateRoot: pr.root(), BodyRoot: pr.root()}
		h2 := h1
		h2.BodyRoot = pr.root()
		dom := sp.GetDomain(work, refspec.DOMAIN_BEACON_PROPOSER, sp.EpochAtSlot(hs))
		ps := refspec.ProposerSlashing{
			H1: refspec.SignedBeaconBlockHeader{Message: h1, Signature: refspec.Sign(k, sp.ComputeSigningRoot(sp.HeaderRoot(&h1), dom))},
			H2: refspec.SignedBeaconBlockHeader{Message: h2, Signature: refspec.Sign(k, sp.ComputeSigningRoot(sp.HeaderRoot(&h2), dom))},
		}
		if err := sp.ApplyProposerSlashing(work, &ps); err != nil {
			info.Slips++
			continue
		}
		body.ProposerSlashings = append(body.ProposerSlashings, ps)
		slashedNow[vi] = true
		kinds["proposer_slashing"] = true
	}

	// ---- attester slashings
	for i := 0; i < plan.NAttSlash && uint64(len(body.AttesterSlashings)) < p.MAX_ATTESTER_SLASHINGS; i++ {
		var cand, already []uint64
		for vi := range work.Validators {
			if _, ok := c.KeyOf[work.Validators[vi].Pubkey]; !ok {
				continue
			}
			if refspec.IsSlashableValidator(&work.Validators[vi], epoch) && uint64(vi) != proposer {
				cand = append(cand, uint64(vi))
			} else if work.Validators[vi].Slashed {
				already = append(already, uint64(vi))
			}
		}
		if len(cand) <= 3 {
			break
		}
		nsl := 1 + pr.n(3)
		set := map[uint64]bool{}
		for len(set) < nsl {
			set[cand[pr.n(len(cand))]] = true
		}
		common := keysOf(set)
		e1, e2 := map[uint64]bool{}, map[uint64]bool{}
		for _, x := range common {
			e1[x], e2[x] = true, true
		}
		// partial intersections: extra members on one side only, already-slashed members in both
		if pr.pm(500) {
			e1[cand[pr.n(len(cand))]] = true
		}
		if pr.pm(500) {
			e2[cand[pr.n(len(cand))]] = true
		}
		if len(already) > 0 && pr.pm(500) {
			a := already[pr.n(len(already))]
			e1[a], e2[a] = true, true
		}
		var d1, d2 refspec.AttestationData
		if plan.Surround && epoch >= 3 {
			d1 = refspec.AttestationData{Slot: sp.StartSlotAtEpoch(epoch), Source: refspec.Checkpoint{Epoch: epoch - 3, Root: pr.root()}, Target: refspec.Checkpoint{Epoch: epoch, Root: pr.root()}}
			d2 = refspec.AttestationData{Slot: sp.StartSlotAtEpoch(epoch - 1), Source: refspec.Checkpoint{Epoch: epoch - 2, Root: pr.root()}, Target: refspec.Checkpoint{Epoch: epoch - 1, Root: pr.root()}}
			kinds["attester_slashing_surround"] = true
		} else {
			te := epoch
			if epoch > 0 && pr.pm(400) {
				te = epoch - 1
			}
			switch {
			case plan.SlashSpan >= 1 && pr.pm(600):
				te = uint64(pr.n(int(epoch) + 1))
			case plan.SlashSpan >= 2 && pr.pm(500):
				te = epoch + 1 + uint64(pr.n(3))
			}
			d1 = refspec.AttestationData{Slot: sp.StartSlotAtEpoch(te), Index: uint64(pr.n(2)), BeaconBlockRoot: pr.root(), Source: refspec.Checkpoint{Epoch: te / 2, Root: pr.root()}, Target: refspec.Checkpoint{Epoch: te, Root: pr.root()}}
			d2 = d1
			d2.BeaconBlockRoot = pr.root()
		}
		mk := func(set map[uint64]bool, d refspec.AttestationData) refspec.IndexedAttestation {
			idx := keysOf(set)
			var ks []uint64
			for _, vi := range idx {
				ks = append(ks, c.KeyOf[work.Validators[vi].Pubkey])
			}
			sr := sp.ComputeSigningRoot(sp.HTR("AttestationData", d.V()), sp.GetDomain(work, refspec.DOMAIN_BEACON_ATTESTER, d.Target.Epoch))
			return refspec.IndexedAttestation{Indices: idx, Data: d, Signature: refspec.AggregateSign(ks, sr)}
		}
		as := refspec.AttesterSlashing{A1: mk(e1, d1), A2: mk(e2, d2)}
		if err := sp.ApplyAttesterSlashing(work, &as); err != nil {
			info.Slips++
			continue
		}
		body.AttesterSlashings = append(body.AttesterSlashings, as)
		kinds["attester_slashing"] = true
	}

	// ---- attestations
	if plan.AttMode != 0 {
		prevStart := sp.StartSlotAtEpoch(sp.PreviousEpoch(work))
		lo := prevStart
		if work.Fork < refspec.Deneb && slot > p.SLOTS_PER_EPOCH && slot-p.SLOTS_PER_EPOCH > lo {
			lo = slot - p.SLOTS_PER_EPOCH
		}
		hi := slot - 1 // MIN_ATTESTATION_INCLUSION_DELAY == 1
		var slots []uint64
		switch plan.AttMode {
		case 2:
			slots = []uint64{hi}
		case 3:
			slots = []uint64{lo}
			if lo+1 <= hi {
				slots = append(slots, lo+1)
			}
		default:
			for a := lo; a <= hi; a++ {
				slots = append(slots, a)
			}
		}
		for _, a := range slots {
			if a < lo || a > hi || a+p.MIN_ATTESTATION_INCLUSION_DELAY > slot {
				continue
			}
			te := sp.EpochAtSlot(a)
			if (plan.AttEpochs == 1 && te == epoch) || (plan.AttEpochs == 2 && te != epoch) {
				continue
			}
			cps := sp.CommitteeCountPerSlot(work, te)
			for ci := uint64(0); ci < cps; ci++ {
				if uint64(len(body.Attestations)) >= p.MAX_ATTESTATIONS {
					break
				}
				dup := c.Included[[2]uint64{a, ci}]
				if dup && plan.AttMode != 4 {
					continue
				}
				d := refspec.AttestationData{Slot: a, Index: ci, BeaconBlockRoot: sp.GetBlockRootAtSlot(work, a)}
				if te == sp.CurrentEpoch(work) {
					d.Source = work.CurrentJustifiedCheckpoint
				} else {
					d.Source = work.PreviousJustifiedCheckpoint
				}
				d.Target = refspec.Checkpoint{Epoch: te, Root: sp.GetBlockRoot(work, te)}
				if pr.pm(plan.WrongTargetPm) {
					d.Target.Root = pr.root()
					kinds["att_wrong_target"] = true
				} else if pr.pm(plan.WrongHeadPm) {
					d.BeaconBlockRoot = pr.root()
					kinds["att_wrong_head"] = true
				}
				committee := sp.BeaconCommittee(work, a, ci)
				bits := make([]bool, len(committee))
				var ks []uint64
				any := false
				for bi, vi := range committee {
					if pr.pm(plan.Participation) {
						bits[bi] = true
						any = true
						ks = append(ks, c.KeyOf[work.Validators[vi].Pubkey])
					}
				}
				if !any {
					continue
				}
				sr := sp.ComputeSigningRoot(sp.HTR("AttestationData", d.V()), sp.GetDomain(work, refspec.DOMAIN_BEACON_ATTESTER, te))
				att := refspec.Attestation{Bits: bits, Data: d, Signature: refspec.AggregateSign(ks, sr)}
				if err := sp.ApplyAttestation(work, &att); err != nil {
					info.Slips++
					continue
				}
				body.Attestations = append(body.Attestations, att)
				c.Included[[2]uint64{a, ci}] = true
				kinds["attestation"] = true
				if dup {
					kinds["att_duplicate"] = true
				}
				if slot-a > 1 {
					kinds["att_delayed"] = true
				}
			}
		}
	}

	// ---- deposits (forced by the state's eth1 data)
	need := work.Eth1Data.DepositCount - work.Eth1DepositIndex
	if need > p.MAX_DEPOSITS {
		need = p.MAX_DEPOSITS
	}
	for i := uint64(0); i < need; i++ {
		di := work.Eth1DepositIndex
		if di >= uint64(len(c.Datas)) || work.Eth1Data.DepositCount > uint64(len(c.Leaves)) {
			return nil, nil, fmt.Errorf("builder: state wants deposit %d but the tree has %d", di, len(c.Datas))
		}
		dep := refspec.Deposit{Proof: refspec.DepositProof(c.Leaves, int(work.Eth1Data.DepositCount), int(di)), Data: c.Datas[di]}
		nBefore := len(work.Validators)
		if err := sp.ApplyDeposit(work, &dep); err != nil {
			return nil, nil, fmt.Errorf("builder: deposit %d: %v", di, err)
		}
		body.Deposits = append(body.Deposits, dep)
		kinds["deposit"] = true
		if len(work.Validators) > nBefore {
			kinds["deposit_new_validator"] = true
		}
	}

	// ---- voluntary exits
	exitsBefore := 0
	for vi := range work.Validators {
		if work.Validators[vi].ExitEpoch != Far && work.Validators[vi].ExitEpoch >= sp.ActivationExitEpoch(epoch) {
			exitsBefore++
		}
	}
	for i := 0; i < plan.NExits && uint64(len(body.VoluntaryExits)) < p.MAX_VOLUNTARY_EXITS; i++ {
		var cand []uint64
		active := 0
		for vi := range work.Validators {
			v := &work.Validators[vi]
			if refspec.IsActive(v, epoch) && v.ExitEpoch == Far {
				active++
				if epoch >= v.ActivationEpoch+p.SHARD_COMMITTEE_PERIOD && uint64(vi) != proposer {
					if _, ok := c.KeyOf[v.Pubkey]; ok {
						cand = append(cand, uint64(vi))
					}
				}
			}
		}
		if len(cand) == 0 || active <= int(p.SLOTS_PER_EPOCH) {
			break
		}
		vi := cand[pr.n(len(cand))]
		ex := refspec.VoluntaryExit{Epoch: epoch - uint64(pr.n(int(minU(epoch, 2)+1))), ValidatorIndex: vi}
		var dom Root
		if work.Fork >= refspec.Deneb {
			dom = sp.ComputeDomain(refspec.DOMAIN_VOLUNTARY_EXIT, p.ForkVersions[refspec.Capella], work.GenesisValidatorsRoot)
		} else {
			dom = sp.GetDomain(work, refspec.DOMAIN_VOLUNTARY_EXIT, ex.Epoch)
		}
		se := refspec.SignedVoluntaryExit{Message: ex, Signature: refspec.Sign(c.KeyOf[work.Validators[vi].Pubkey], sp.ComputeSigningRoot(sp.HTR("VoluntaryExit", ex.V()), dom))}
		if err := sp.ApplyVoluntaryExit(work, &se); err != nil {
			info.Slips++
			continue
		}
		body.VoluntaryExits = append(body.VoluntaryExits, se)
		kinds["voluntary_exit"] = true
		if exitsBefore > 0 {
			info.ExitQueued = true
		}
		exitsBefore++
	}

	// ---- bls to execution changes
	if work.Fork >= refspec.Capella {
		for i := 0; i < plan.NBLSChanges && uint64(len(body.BLSChanges)) < p.MAX_BLS_TO_EXECUTION_CHANGES; i++ {
			var cand []uint64
			for vi := range work.Validators {
				v := &work.Validators[vi]
				if v.WithdrawalCredentials[0] == refspec.BLS_WITHDRAWAL_PREFIX {
					if k, ok := c.KeyOf[v.Pubkey]; ok && blsCredFor(k) == v.WithdrawalCredentials {
						cand = append(cand, uint64(vi))
					}
				}
			}
			if len(cand) == 0 {
				break
			}
			vi := cand[pr.n(len(cand))]
			k := c.KeyOf[work.Validators[vi].Pubkey]
			ch := refspec.BLSToExecutionChange{ValidatorIndex: vi, FromBLSPubkey: refspec.KeyPubkey(WithdrawalKeyBase + k)}
			copy(ch.ToAddress[:], pr.bytes(20))
			dom := sp.ComputeDomain(refspec.DOMAIN_BLS_TO_EXECUTION_CHANGE, p.ForkVersions[refspec.Phase0], work.GenesisValidatorsRoot)
			sc := refspec.SignedBLSToExecutionChange{Message: ch, Signature: refspec.Sign(WithdrawalKeyBase+k, sp.ComputeSigningRoot(sp.HTR("BLSToExecutionChange", ch.V()), dom))}
			if err := sp.ApplyBLSChange(work, &sc); err != nil {
				info.Slips++
				continue
			}
			body.BLSChanges = append(body.BLSChanges, sc)
			kinds["bls_change"] = true
		}
	}

	// ---- sync aggregate
	if work.Fork >= refspec.Altair {
		sa := &body.SyncAggregate
		sa.Bits = make([]bool, p.SYNC_COMMITTEE_SIZE)
		var ks []uint64
		for i, pk := range work.CurrentSyncCommittee.Pubkeys {
			if pr.pm(plan.SyncPm) {
				sa.Bits[i] = true
				ks = append(ks, c.KeyOf[pk])
			}
		}
		prevSlot := slot - 1
		sr := sp.ComputeSigningRoot(sp.GetBlockRootAtSlot(work, prevSlot), sp.GetDomain(work, refspec.DOMAIN_SYNC_COMMITTEE, sp.EpochAtSlot(prevSlot)))
		sa.Signature = refspec.AggregateSign(ks, sr)
		if len(ks) > 0 {
			kinds["sync_bits"] = true
		}
	}

	// ---- final: run the reference block processing on a clean copy to obtain the post-state
	post := pre.Copy()
	if plan.BySlashedProposer {
		post.Validators[proposer].Slashed = false // the block is invalid anyway; its declared root is the one it would have had
	}
	if err := sp.ProcessBlockOnly(post, blk); err != nil {
		return nil, nil, fmt.Errorf("reference rejects its own block: %v", err)
	}
	blk.StateRoot = sp.StateRoot(post)
	sb := &refspec.SignedBlock{Message: *blk}
	bsr := sp.ComputeSigningRoot(sp.BlockRoot(blk), sp.GetDomainNow(pre, refspec.DOMAIN_BEACON_PROPOSER))
	sb.Signature = refspec.Sign(pkey, bsr)
	info.Kinds = sortedKinds(kinds)
	info.Post = post
	info.Pre = pre
	return sb, info, nil
}

func minU(a, b uint64) uint64 {
	if a < b {
		return a
	}
	return b
}

func keysOf(m map[uint64]bool) []uint64 {
	out := make([]uint64, 0, len(m))
	for k := range m {
		out = append(out, k)
	}
	sort.Slice(out, func(i, j int) bool { return out[i] < out[j] })
	return out
}

// Resign re-signs a (possibly mutated) block with the key of the given proposer index on the
// state the block will be applied to.
func (c *Chain) Resign(pre *refspec.State, sb *refspec.SignedBlock, signerValidator uint64) {
	k := c.KeyOf[pre.Validators[signerValidator].Pubkey]
	sr := c.Sp.ComputeSigningRoot(c.Sp.BlockRoot(&sb.Message), c.Sp.GetDomainNow(pre, refspec.DOMAIN_BEACON_PROPOSER))
	sb.Signature = refspec.Sign(k, sr)
}
