package sim

import (
	"pgregory.net/rapid"

	"zrntverif/refspec"
)

// Directed chain templates ("class tours") shared by C01/C02/C03/C08. Each builds a ChainCase whose
// skeleton forces one deep protocol situation; the free details stay rapid draws.

var far = refspec.FarFutureEpoch

// TourBaseOverride is a tiny preset (4-slot epochs) in which queues, rotations and votes complete quickly.
func TourBaseOverride(extra map[string]uint64) map[string]uint64 {
	o := map[string]uint64{"SLOTS_PER_EPOCH": 4, "TARGET_COMMITTEE_SIZE": 2, "MAX_COMMITTEES_PER_SLOT": 2, "SHUFFLE_ROUND_COUNT": 3,
		"SLOTS_PER_HISTORICAL_ROOT": 8, "EPOCHS_PER_HISTORICAL_VECTOR": 8, "EPOCHS_PER_SLASHINGS_VECTOR": 4, "EPOCHS_PER_ETH1_VOTING_PERIOD": 1,
		"MAX_SEED_LOOKAHEAD": 1, "MIN_EPOCHS_TO_INACTIVITY_PENALTY": 1, "SHARD_COMMITTEE_PERIOD": 0, "MIN_VALIDATOR_WITHDRAWABILITY_DELAY": 1,
		"MIN_PER_EPOCH_CHURN_LIMIT": 2, "CHURN_LIMIT_QUOTIENT": 4, "MAX_PER_EPOCH_ACTIVATION_CHURN_LIMIT": 8, "SYNC_COMMITTEE_SIZE": 4,
		"EPOCHS_PER_SYNC_COMMITTEE_PERIOD": 2, "MAX_DEPOSITS": 16, "MAX_ATTESTATIONS": 128, "MAX_VOLUNTARY_EXITS": 16}
	for k, v := range extra {
		o[k] = v
	}
	return o
}

func tourBlock(rt *rapid.T, part int) *BlockPlan {
	return &BlockPlan{Seed: rapid.Uint64().Draw(rt, "seed"), AttMode: 1, Participation: part, SyncPm: 1000, Eth1Vote: 1}
}

// TourWithdrawalEdges: a Capella/Deneb chain whose registry mixes, per validator, every combination of
// {0x00, 0x01 credential} x {balance below / at / slightly above / well above MAX_EFFECTIVE_BALANCE},
// then top-ups that push balances over MAX while the effective balance lags (until the boundary, or
// for good inside the hysteresis band), exits that become fully withdrawable, and credential changes.
// Every block's sweep passes over most of the registry.
func TourWithdrawalEdges(rt *rapid.T, muts []string) *ChainCase {
	fork := rapid.SampledFrom([][4]uint64{{1, 1, 1, far}, {1, 1, 1, 2}, {1, 1, 1, 1}, {1, 1, 2, 3}}).Draw(rt, "forks")
	n := rapid.IntRange(12, 24).Draw(rt, "n")
	o := TourBaseOverride(map[string]uint64{
		"MAX_WITHDRAWALS_PER_PAYLOAD":          rapid.SampledFrom([]uint64{2, 4, 16}).Draw(rt, "max_wd"),
		"MAX_VALIDATORS_PER_WITHDRAWALS_SWEEP": rapid.SampledFrom([]uint64{5, 16, 32}).Draw(rt, "sweep"),
		"MAX_BLS_TO_EXECUTION_CHANGES":         4,
	})
	cc := &ChainCase{Profile: "full", Config: ConfigCase{Family: "custom", ForkEpochs: fork, Override: o}}
	cc.Genesis = GenesisCase{N: n, GenesisTime: 1000, Eth1Seed: rapid.Uint64().Draw(rt, "eth1_seed"), OddCreds: rapid.Bool().Draw(rt, "odd_creds")}
	for i := 0; i < n; i++ {
		ac := 0
		if i >= 4 {
			ac = rapid.SampledFrom([]int{0, 2, 3, 4, 4, 4, 5, 6}).Draw(rt, "amount_class")
		}
		cc.Genesis.AmountClass = append(cc.Genesis.AmountClass, ac)
		cc.Genesis.Eth1Cred = append(cc.Genesis.Eth1Cred, rapid.IntRange(0, 3).Draw(rt, "eth1_cred") != 0)
	}
	slots := rapid.IntRange(20, 32).Draw(rt, "slots")
	for s := 1; s <= slots; s++ {
		p := tourBlock(rt, rapid.SampledFrom([]int{1000, 1000, 700}).Draw(rt, "part"))
		if s <= 12 && rapid.IntRange(0, 1).Draw(rt, "topups") == 0 {
			for k := rapid.IntRange(1, 4).Draw(rt, "n_topups"); k > 0; k-- {
				p.Queue = append(p.Queue, DepPlan{Kind: 1, Amount: rapid.IntRange(0, 3).Draw(rt, "topup_amount"), Eth1: true,
					Target: 3 * rapid.IntRange(0, 60).Draw(rt, "topup_target")}) // Target%3==0: decodable signature
			}
		}
		if s >= 3 {
			p.NExits = rapid.SampledFrom([]int{0, 0, 1, 2}).Draw(rt, "n_exits")
			p.NBLSChanges = rapid.SampledFrom([]int{0, 0, 1}).Draw(rt, "n_bls")
			p.NAttSlash = rapid.SampledFrom([]int{0, 0, 0, 1}).Draw(rt, "n_att_slash") // slashed -> withdrawable after the (4-epoch) slashings vector
			p.NPropSlash = rapid.SampledFrom([]int{0, 0, 0, 1}).Draw(rt, "n_prop_slash")
			p.SlashSpan = rapid.IntRange(0, 2).Draw(rt, "slash_span")
		}
		a := Action{Kind: "block", Slots: 1, Plan: p}
		if len(muts) > 0 {
			a.Mut = muts
			a.MutSeed = rapid.Uint64().Draw(rt, "mut_seed")
		}
		cc.Actions = append(cc.Actions, a)
	}
	return cc
}

// TourDeposits: deposits of every kind (new, top-up, bad proof-of-possession, undecodable pubkey,
// repeated new key) queued early, a one-epoch eth1 voting period and a small MAX_DEPOSITS, so that many
// consecutive blocks carry deposits (and must carry exactly min(MAX_DEPOSITS, outstanding) of them).
func TourDeposits(rt *rapid.T, muts []string) *ChainCase {
	fork := rapid.SampledFrom([][4]uint64{{far, far, far, far}, {1, far, far, far}, {1, 2, 2, 3}, {1, 1, 1, 1}, {2, 3, 4, 5}}).Draw(rt, "forks")
	n := rapid.IntRange(8, 20).Draw(rt, "n")
	o := TourBaseOverride(map[string]uint64{"MAX_DEPOSITS": rapid.SampledFrom([]uint64{1, 2, 4}).Draw(rt, "max_deposits"),
		"MIN_PER_EPOCH_CHURN_LIMIT": 4})
	cc := &ChainCase{Profile: "full", Config: ConfigCase{Family: "custom", ForkEpochs: fork, Override: o}}
	cc.Genesis = GenesisCase{N: n, GenesisTime: 1000, Eth1Seed: rapid.Uint64().Draw(rt, "eth1_seed")}
	for i := 0; i < n; i++ {
		cc.Genesis.AmountClass = append(cc.Genesis.AmountClass, 0)
		cc.Genesis.Eth1Cred = append(cc.Genesis.Eth1Cred, rapid.Bool().Draw(rt, "eth1_cred"))
	}
	slots := rapid.IntRange(16, 28).Draw(rt, "slots")
	for s := 1; s <= slots; s++ {
		p := tourBlock(rt, 1000)
		if s == 1 || s == 6 || s == 11 {
			for k := rapid.IntRange(3, 7).Draw(rt, "n_deposits"); k > 0; k-- {
				p.Queue = append(p.Queue, DepPlan{Kind: rapid.SampledFrom([]int{0, 0, 0, 1, 1, 2, 3, 4}).Draw(rt, "dep_kind"),
					Amount: rapid.IntRange(0, 8).Draw(rt, "dep_amount"), Eth1: rapid.Bool().Draw(rt, "dep_eth1"),
					Target: rapid.IntRange(0, 200).Draw(rt, "dep_target")})
			}
		}
		// a validator created by half an ETH (effective balance 0) is later topped up in small steps: its balance moves
		// through the hysteresis band above an effective balance of zero
		if s == 2 {
			p.Queue = append(p.Queue, DepPlan{Kind: 0, Amount: 7, Eth1: true})
		}
		if s >= 7 && s%4 == 3 {
			p.Queue = append(p.Queue, DepPlan{Kind: 5, Amount: rapid.SampledFrom([]int{0, 2, 2}).Draw(rt, "small_topup"), Eth1: true, Target: 3 * rapid.IntRange(0, 60).Draw(rt, "small_target")})
		}
		a := Action{Kind: "block", Slots: 1, Plan: p}
		if len(muts) > 0 {
			a.Mut = muts
			a.MutSeed = rapid.Uint64().Draw(rt, "mut_seed")
		}
		cc.Actions = append(cc.Actions, a)
	}
	return cc
}

// TourUpgradesAfterSyncRotation: one-or-two-epoch sync-committee periods and fork epochs spread out so
// that every post-Altair upgrade copies a state whose current and next sync committees differ (they are
// equal for the whole first period after upgrade_to_altair), with a registry of mixed effective
// balances so that consecutive committees really differ.
func TourUpgradesAfterSyncRotation(rt *rapid.T) *ChainCase {
	period := rapid.SampledFrom([]uint64{1, 2}).Draw(rt, "sync_period")
	a := uint64(rapid.IntRange(1, 2).Draw(rt, "altair"))
	b := a + period + uint64(rapid.IntRange(0, 2).Draw(rt, "gap_b"))
	c := b + uint64(rapid.IntRange(0, 3).Draw(rt, "gap_c"))
	d := c + uint64(rapid.IntRange(0, 3).Draw(rt, "gap_d"))
	o := TourBaseOverride(map[string]uint64{"EPOCHS_PER_SYNC_COMMITTEE_PERIOD": period,
		"SYNC_COMMITTEE_SIZE": rapid.SampledFrom([]uint64{4, 8, 12}).Draw(rt, "sync_size")})
	cc := &ChainCase{Profile: "full", Config: ConfigCase{Family: "custom", ForkEpochs: [4]uint64{a, b, c, d}, Override: o}}
	n := rapid.IntRange(8, 24).Draw(rt, "n")
	cc.Genesis = GenesisCase{N: n, GenesisTime: 1000, Eth1Seed: rapid.Uint64().Draw(rt, "eth1_seed")}
	for i := 0; i < n; i++ {
		ac := 0
		if i >= 4 {
			ac = rapid.SampledFrom([]int{0, 0, 4, 4, 5, 2}).Draw(rt, "amount_class")
		}
		cc.Genesis.AmountClass = append(cc.Genesis.AmountClass, ac)
		cc.Genesis.Eth1Cred = append(cc.Genesis.Eth1Cred, rapid.Bool().Draw(rt, "eth1_cred"))
	}
	total := int(d+2) * 4
	for s := 0; s < total; {
		if rapid.IntRange(0, 3).Draw(rt, "block") == 0 {
			cc.Actions = append(cc.Actions, Action{Kind: "block", Slots: 1, Plan: tourBlock(rt, rapid.SampledFrom([]int{1000, 600}).Draw(rt, "part"))})
			s++
		} else {
			k := rapid.IntRange(1, 5).Draw(rt, "skip")
			cc.Actions = append(cc.Actions, Action{Kind: "skip", Slots: k})
			s += k
		}
	}
	return cc
}

// TourJustificationPatterns: per epoch one of {justified on time, justified late (its attestations are only
// included during the next epoch), never justified}; every combination of the four finalization rules of
// process_justification_and_finalization — including the histories in which two rules hold at once — is
// a short word over that alphabet.
func TourJustificationPatterns(rt *rapid.T) *ChainCase {
	fork := rapid.SampledFrom([][4]uint64{{far, far, far, far}, {1, far, far, far}, {1, 2, 3, far}, {1, 1, 1, 1}, {3, 5, far, far}}).Draw(rt, "forks")
	o := TourBaseOverride(map[string]uint64{"MIN_EPOCHS_TO_INACTIVITY_PENALTY": rapid.SampledFrom([]uint64{1, 4}).Draw(rt, "leak_after")})
	cc := &ChainCase{Profile: "full", Config: ConfigCase{Family: "custom", ForkEpochs: fork, Override: o}}
	n := rapid.IntRange(8, 20).Draw(rt, "n")
	cc.Genesis = GenesisCase{N: n, GenesisTime: 1000, Eth1Seed: rapid.Uint64().Draw(rt, "eth1_seed")}
	for i := 0; i < n; i++ {
		cc.Genesis.AmountClass = append(cc.Genesis.AmountClass, 0)
		cc.Genesis.Eth1Cred = append(cc.Genesis.Eth1Cred, true)
	}
	epochs := rapid.IntRange(6, 10).Draw(rt, "epochs")
	mode := make([]int, epochs+1) // 0 on time, 1 late, 2 never
	for e := 0; e <= epochs; e++ {
		mode[e] = rapid.SampledFrom([]int{0, 0, 1, 1, 2}).Draw(rt, "mode")
	}
	for s := 1; s < (epochs+1)*4; s++ {
		e := s / 4
		p := tourBlock(rt, 1000)
		prev := 2
		if e > 0 {
			prev = mode[e-1]
		}
		switch {
		case mode[e] == 0 && prev == 1:
			p.AttEpochs = 0
		case mode[e] == 0:
			p.AttEpochs = 2
		case prev == 1:
			p.AttEpochs = 1
		default:
			p.AttMode = 0
		}
		cc.Actions = append(cc.Actions, Action{Kind: "block", Slots: 1, Plan: p})
	}
	return cc
}

// TourWithdrawnSyncMembers: a Capella/Deneb chain with fewer validators than sync-committee seats (every
// validator holds several seats) and a long sync-committee period, in which validators exit early, become
// fully withdrawable after one epoch and are swept to a balance of zero while they still sit in the current
// committee; every block carries a partially participating sync aggregate. This is where the order of the
// per-seat rewards and (saturating) penalties of process_sync_aggregate is observable, and where proposer
// and participant rewards meet balances near zero.
func TourWithdrawnSyncMembers(rt *rapid.T, muts []string) *ChainCase {
	fork := rapid.SampledFrom([][4]uint64{{1, 1, 1, far}, {1, 1, 1, 3}, {1, 1, 1, 1}}).Draw(rt, "forks")
	n := rapid.IntRange(6, 12).Draw(rt, "n")
	o := TourBaseOverride(map[string]uint64{
		"SYNC_COMMITTEE_SIZE":                  rapid.SampledFrom([]uint64{16, 32}).Draw(rt, "sync_size"),
		"EPOCHS_PER_SYNC_COMMITTEE_PERIOD":     rapid.SampledFrom([]uint64{8, 16}).Draw(rt, "sync_period"),
		"MAX_WITHDRAWALS_PER_PAYLOAD":          16,
		"MAX_VALIDATORS_PER_WITHDRAWALS_SWEEP": 32,
		"MIN_PER_EPOCH_CHURN_LIMIT":            rapid.SampledFrom([]uint64{2, 4}).Draw(rt, "churn"),
	})
	cc := &ChainCase{Profile: "full", Config: ConfigCase{Family: "custom", ForkEpochs: fork, Override: o}}
	cc.Genesis = GenesisCase{N: n, GenesisTime: 1000, Eth1Seed: rapid.Uint64().Draw(rt, "eth1_seed")}
	for i := 0; i < n; i++ {
		cc.Genesis.AmountClass = append(cc.Genesis.AmountClass, 0)
		cc.Genesis.Eth1Cred = append(cc.Genesis.Eth1Cred, true)
	}
	slots := rapid.IntRange(28, 40).Draw(rt, "slots")
	for s := 1; s <= slots; s++ {
		p := tourBlock(rt, 1000)
		p.SyncPm = rapid.SampledFrom([]int{300, 500, 500, 700, 900}).Draw(rt, "sync_pm")
		if s >= 5 && s <= 12 {
			p.NExits = rapid.SampledFrom([]int{0, 1, 1, 2}).Draw(rt, "n_exits")
		}
		a := Action{Kind: "block", Slots: 1, Plan: p}
		if len(muts) > 0 {
			a.Mut = muts
			a.MutSeed = rapid.Uint64().Draw(rt, "mut_seed")
		}
		cc.Actions = append(cc.Actions, a)
	}
	return cc
}

// TourLargeRegistry: more than 1024 validators on the official minimal preset (4 committees of ~32 per slot):
// per-validator loops beyond their first 1024 iterations, aggregation bitfields longer than 4 bytes,
// registry-parallel lists of dozens of chunks, sync committees without duplicate members.
func TourLargeRegistry(rt *rapid.T) *ChainCase {
	fork := rapid.SampledFrom([][4]uint64{{far, far, far, far}, {1, far, far, far}, {1, 1, 2, 2}, {1, 1, 1, 1}}).Draw(rt, "forks")
	cc := &ChainCase{Profile: "full"}
	cc.Config = ConfigCase{Family: "minimal", ForkEpochs: fork}
	n := rapid.SampledFrom([]int{1025, 1030, 1100}).Draw(rt, "n")
	cc.Genesis = GenesisCase{N: n, GenesisTime: 1000, Eth1Seed: rapid.Uint64().Draw(rt, "eth1_seed")}
	for i := 0; i < n; i++ {
		ac := 0
		if i%97 == 0 {
			ac = rapid.SampledFrom([]int{0, 4, 5}).Draw(rt, "amount_class")
		}
		cc.Genesis.AmountClass = append(cc.Genesis.AmountClass, ac)
		cc.Genesis.Eth1Cred = append(cc.Genesis.Eth1Cred, true)
	}
	part := rapid.SampledFrom([]int{1000, 800, 600}).Draw(rt, "part")
	for s := 1; s <= 20; s++ {
		if s%5 == 0 {
			cc.Actions = append(cc.Actions, Action{Kind: "skip", Slots: 1})
			continue
		}
		p := tourBlock(rt, part)
		p.SyncPm = rapid.SampledFrom([]int{1000, 700}).Draw(rt, "sync_pm")
		if s == 3 || s == 11 {
			p.NExits, p.NAttSlash, p.NPropSlash = 1, 1, 1
		}
		cc.Actions = append(cc.Actions, Action{Kind: "block", Slots: 1, Plan: p})
	}
	return cc
}
