package sim

import (
	"fmt"
	"math/big"
	"reflect"

	"github.com/protolambda/zrnt/eth2/beacon/common"
)

func cmpShuffling(name string, a, b *common.ShufflingEpoch) string {
	if (a == nil) != (b == nil) {
		return fmt.Sprintf("%s: nil mismatch (%v vs %v)", name, a == nil, b == nil)
	}
	if a == nil {
		return ""
	}
	if a.Epoch != b.Epoch {
		return fmt.Sprintf("%s.Epoch: %d != %d", name, a.Epoch, b.Epoch)
	}
	if !eqIdx(a.ActiveIndices, b.ActiveIndices) {
		return fmt.Sprintf("%s.ActiveIndices: %v != %v", name, a.ActiveIndices, b.ActiveIndices)
	}
	if !eqIdx(a.Shuffling, b.Shuffling) {
		return fmt.Sprintf("%s.Shuffling: %v != %v", name, a.Shuffling, b.Shuffling)
	}
	if len(a.Committees) != len(b.Committees) {
		return fmt.Sprintf("%s.Committees: %d slots != %d", name, len(a.Committees), len(b.Committees))
	}
	for s := range a.Committees {
		if len(a.Committees[s]) != len(b.Committees[s]) {
			return fmt.Sprintf("%s.Committees[%d]: %d committees != %d", name, s, len(a.Committees[s]), len(b.Committees[s]))
		}
		for c := range a.Committees[s] {
			if !eqIdx(a.Committees[s][c], b.Committees[s][c]) {
				return fmt.Sprintf("%s.Committees[%d][%d]: %v != %v", name, s, c, a.Committees[s][c], b.Committees[s][c])
			}
		}
	}
	return ""
}

func eqIdx(a, b []common.ValidatorIndex) bool {
	if len(a) != len(b) {
		return false
	}
	for i := range a {
		if a[i] != b[i] {
			return false
		}
	}
	return true
}

func cmpSync(name string, a, b *common.IndexedSyncCommittee) string {
	if (a == nil) != (b == nil) {
		return fmt.Sprintf("%s: nil mismatch (live nil=%v, fresh nil=%v)", name, a == nil, b == nil)
	}
	if a == nil {
		return ""
	}
	if !eqIdx(a.Indices, b.Indices) {
		return fmt.Sprintf("%s.Indices: %v != %v", name, a.Indices, b.Indices)
	}
	if len(a.CachedPubkeys) != len(b.CachedPubkeys) {
		return fmt.Sprintf("%s.CachedPubkeys: %d != %d", name, len(a.CachedPubkeys), len(b.CachedPubkeys))
	}
	for i := range a.CachedPubkeys {
		if a.CachedPubkeys[i].Compressed != b.CachedPubkeys[i].Compressed {
			return fmt.Sprintf("%s.CachedPubkeys[%d] differ", name, i)
		}
	}
	return ""
}

// CompareEpc compares every exported field of a live context with a freshly computed one, and the
// pubkey-cache lookups for every index below the validator count and every registered pubkey.
func CompareEpc(live, fresh *common.EpochsContext, validatorCount int, pubkeys []common.BLSPubkey) string {
	for _, d := range []string{
		cmpShuffling("PreviousEpoch", live.PreviousEpoch, fresh.PreviousEpoch),
		cmpShuffling("CurrentEpoch", live.CurrentEpoch, fresh.CurrentEpoch),
		cmpShuffling("NextEpoch", live.NextEpoch, fresh.NextEpoch),
		cmpSync("CurrentSyncCommittee", live.CurrentSyncCommittee, fresh.CurrentSyncCommittee),
		cmpSync("NextSyncCommittee", live.NextSyncCommittee, fresh.NextSyncCommittee),
	} {
		if d != "" {
			return d
		}
	}
	if (live.Proposers == nil) != (fresh.Proposers == nil) {
		return "Proposers: nil mismatch"
	}
	if live.Proposers != nil {
		if live.Proposers.Epoch != fresh.Proposers.Epoch {
			return fmt.Sprintf("Proposers.Epoch: %d != %d", live.Proposers.Epoch, fresh.Proposers.Epoch)
		}
		if !eqIdx(live.Proposers.Proposers, fresh.Proposers.Proposers) {
			return fmt.Sprintf("Proposers.Proposers: %v != %v", live.Proposers.Proposers, fresh.Proposers.Proposers)
		}
		if live.Proposers.CommitteesPerSlot != fresh.Proposers.CommitteesPerSlot {
			return fmt.Sprintf("Proposers.CommitteesPerSlot: %d != %d", live.Proposers.CommitteesPerSlot, fresh.Proposers.CommitteesPerSlot)
		}
	}
	if !reflect.DeepEqual(live.EffectiveBalances, fresh.EffectiveBalances) {
		return fmt.Sprintf("EffectiveBalances: %v != %v", live.EffectiveBalances, fresh.EffectiveBalances)
	}
	if live.TotalActiveStake != fresh.TotalActiveStake {
		return fmt.Sprintf("TotalActiveStake: %d != %d", live.TotalActiveStake, fresh.TotalActiveStake)
	}
	if live.TotalActiveStakeSqRoot != fresh.TotalActiveStakeSqRoot {
		return fmt.Sprintf("TotalActiveStakeSqRoot: %d != %d", live.TotalActiveStakeSqRoot, fresh.TotalActiveStakeSqRoot)
	}
	for i := 0; i < validatorCount; i++ {
		a, oka := live.ValidatorPubkeyCache.Pubkey(common.ValidatorIndex(i))
		b, okb := fresh.ValidatorPubkeyCache.Pubkey(common.ValidatorIndex(i))
		if oka != okb || (oka && a.Compressed != b.Compressed) {
			return fmt.Sprintf("pubkey cache: Pubkey(%d) live ok=%v fresh ok=%v or keys differ", i, oka, okb)
		}
		if oka && i < len(pubkeys) && a.Compressed != pubkeys[i] {
			return fmt.Sprintf("pubkey cache: Pubkey(%d) is not the registry's key", i)
		}
	}
	for i, pk := range pubkeys {
		a, oka := live.ValidatorPubkeyCache.ValidatorIndex(pk)
		b, okb := fresh.ValidatorPubkeyCache.ValidatorIndex(pk)
		if oka != okb || a != b {
			return fmt.Sprintf("pubkey cache: ValidatorIndex(key of validator %d) live=(%d,%v) fresh=(%d,%v)", i, a, oka, b, okb)
		}
	}
	return ""
}

// RegistryPubkeys lists the pubkeys of a library state's registry in index order.
func RegistryPubkeys(s common.BeaconState) ([]common.BLSPubkey, error) {
	vals, err := s.Validators()
	if err != nil {
		return nil, err
	}
	n, err := vals.ValidatorCount()
	if err != nil {
		return nil, err
	}
	out := make([]common.BLSPubkey, n)
	for i := uint64(0); i < n; i++ {
		v, err := vals.Validator(common.ValidatorIndex(i))
		if err != nil {
			return nil, err
		}
		out[i], err = v.Pubkey()
		if err != nil {
			return nil, err
		}
	}
	return out, nil
}

// CheckEpc compares the lock's live context with NewEpochsContext(state).
func (l *Lock) CheckEpc() string {
	fresh, err := common.NewEpochsContext(l.LibSpec, l.Lib.BeaconState)
	if err != nil {
		return "NewEpochsContext failed: " + err.Error()
	}
	pks, err := RegistryPubkeys(l.Lib.BeaconState)
	if err != nil {
		return "cannot read registry: " + err.Error()
	}
	if d := CompareEpc(l.Epc, fresh, len(pks), pks); d != "" {
		return d
	}
	// "computed from scratch" by the library shares its code with the live context; the stake figures are
	// also held against the reference state's get_total_active_balance and its integer square root
	if l.Chain != nil && l.St != nil && l.Sp != nil && uint64(len(pks)) == uint64(len(l.St.Validators)) {
		want := l.Sp.TotalActiveBalance(l.St)
		if uint64(l.Epc.TotalActiveStake) != want {
			return fmt.Sprintf("TotalActiveStake: context (live and from scratch) %d != get_total_active_balance(state) %d", l.Epc.TotalActiveStake, want)
		}
		root := new(big.Int).Sqrt(new(big.Int).SetUint64(want)).Uint64()
		if uint64(l.Epc.TotalActiveStakeSqRoot) != root {
			return fmt.Sprintf("TotalActiveStakeSqRoot: context (live and from scratch) %d != integer_squareroot(%d) = %d", l.Epc.TotalActiveStakeSqRoot, want, root)
		}
	}
	return ""
}
