package sim

import (
	"context"
	"fmt"
	"strings"

	"github.com/protolambda/zrnt/eth2/beacon/common"
	"pgregory.net/rapid"

	"zrntverif/refspec"
)

type Action struct {
	Kind    string     `json:"kind"`  // block | skip | fork | reload
	Slots   int        `json:"slots"` // block: slot delta (>=1); skip: slots to advance
	Plan    *BlockPlan `json:"plan,omitempty"`
	Mut     []string   `json:"mut,omitempty"` // C03: catalogue ids to try on this block, in order
	MutSeed uint64     `json:"mut_seed,omitempty"`
}

type ChainCase struct {
	Config  ConfigCase  `json:"config"`
	Genesis GenesisCase `json:"genesis"`
	Profile string      `json:"profile"`
	Actions []Action    `json:"actions"`
}

type GenOpts struct {
	CustomPct    int
	AllowMainnet bool
	MaxSlots     int  // total slot budget of the chain (scaled down for mainnet)
	BlockPct     int  // percentage of steps that carry a block
	MaxSkip      int  // longest skip in epochs
	OpsBias      int  // 0..100: how op-heavy blocks are
	ForkReload   bool // generate fork/reload actions
	MaxN         int
}

var Profiles = []string{"full", "above23", "below23", "poor", "none", "mixed"}

func participationFor(t *rapid.T, profile string) int {
	switch profile {
	case "full":
		return 1000
	case "above23":
		return rapid.IntRange(700, 820).Draw(t, "part")
	case "below23":
		return rapid.IntRange(520, 660).Draw(t, "part")
	case "poor":
		return rapid.IntRange(100, 400).Draw(t, "part")
	case "none":
		return 0
	}
	return rapid.SampledFrom([]int{1000, 1000, 750, 600, 300, 0}).Draw(t, "part")
}

func GenGenesis(t *rapid.T, cfg *refspec.Config, maxN int) GenesisCase {
	spe := int(cfg.U["SLOTS_PER_EPOCH"])
	lo := spe
	if maxN < lo {
		maxN = lo
	}
	var n int
	switch rapid.IntRange(0, 3).Draw(t, "n_kind") {
	case 0:
		n = rapid.IntRange(lo, minI(maxN, lo+8)).Draw(t, "n")
	case 1:
		// straddle committee-count thresholds
		k := spe * int(cfg.U["TARGET_COMMITTEE_SIZE"]) * rapid.IntRange(1, 4).Draw(t, "n_k")
		n = k + rapid.IntRange(-1, 2).Draw(t, "n_d")
	default:
		n = rapid.IntRange(lo, maxN).Draw(t, "n")
	}
	if n < lo {
		n = lo
	}
	if n > maxN {
		n = maxN
	}
	g := GenesisCase{N: n, GenesisTime: rapid.Uint64Range(0, 1<<40).Draw(t, "genesis_time"), Eth1Seed: rapid.Uint64().Draw(t, "eth1_seed"),
		OddCreds: rapid.IntRange(0, 3).Draw(t, "odd_creds") == 0}
	for i := 0; i < n; i++ {
		ac := 0
		if i >= spe { // the first SLOTS_PER_EPOCH validators are always active at genesis
			ac = rapid.SampledFrom([]int{0, 0, 0, 1, 2, 2, 3, 4, 5, 6}).Draw(t, "amount_class")
		} else {
			ac = rapid.SampledFrom([]int{0, 1, 2, 3, 6}).Draw(t, "amount_class")
		}
		g.AmountClass = append(g.AmountClass, ac)
		g.Eth1Cred = append(g.Eth1Cred, rapid.Bool().Draw(t, "eth1_cred"))
	}
	return g
}

func minI(a, b int) int {
	if a < b {
		return a
	}
	return b
}

func GenBlockPlan(t *rapid.T, profile string, ops int) *BlockPlan {
	p := &BlockPlan{Seed: rapid.Uint64().Draw(t, "seed")}
	p.AttMode = rapid.SampledFrom([]int{1, 1, 1, 1, 2, 3, 4, 0}).Draw(t, "att_mode")
	p.Participation = participationFor(t, profile)
	p.WrongHeadPm = rapid.SampledFrom([]int{0, 0, 0, 200, 1000}).Draw(t, "wrong_head")
	p.WrongTargetPm = rapid.SampledFrom([]int{0, 0, 0, 150, 1000}).Draw(t, "wrong_target")
	heavy := rapid.IntRange(0, 99).Draw(t, "ops_roll") < ops
	if heavy {
		p.NPropSlash = rapid.SampledFrom([]int{0, 0, 1, 2}).Draw(t, "n_prop_slash")
		p.NAttSlash = rapid.SampledFrom([]int{0, 0, 1, 2}).Draw(t, "n_att_slash")
		p.Surround = rapid.Bool().Draw(t, "surround")
		p.SlashSpan = rapid.SampledFrom([]int{0, 0, 1, 1, 2}).Draw(t, "slash_span")
		p.NExits = rapid.SampledFrom([]int{0, 0, 1, 3, 5}).Draw(t, "n_exits")
		p.NBLSChanges = rapid.SampledFrom([]int{0, 1, 2}).Draw(t, "n_bls")
		nq := rapid.SampledFrom([]int{0, 0, 1, 2, 4}).Draw(t, "n_queue")
		for i := 0; i < nq; i++ {
			p.Queue = append(p.Queue, DepPlan{
				Kind:   rapid.SampledFrom([]int{0, 0, 0, 1, 1, 2, 3}).Draw(t, "dep_kind"),
				Amount: rapid.IntRange(0, 6).Draw(t, "dep_amount"),
				Eth1:   rapid.Bool().Draw(t, "dep_eth1"),
				Target: rapid.IntRange(0, 200).Draw(t, "dep_target"),
			})
		}
	}
	p.SyncPm = rapid.SampledFrom([]int{1000, 1000, 800, 500, 0}).Draw(t, "sync_pm")
	p.Eth1Vote = rapid.SampledFrom([]int{1, 1, 1, 0, 2}).Draw(t, "eth1_vote")
	p.Txs = rapid.SampledFrom([]int{0, 1, 3}).Draw(t, "txs")
	p.Blobs = rapid.SampledFrom([]int{0, 0, 1, 6}).Draw(t, "blobs")
	p.DefaultPayload = rapid.IntRange(0, 3).Draw(t, "default_payload") == 0
	p.PayloadShape = rapid.SampledFrom([]int{0, 0, 0, 0, 0, 1, 2, 2}).Draw(t, "payload_shape")
	return p
}

// GenChainCase draws a whole chain recipe.
func GenChainCase(t *rapid.T, o GenOpts) *ChainCase {
	cc := &ChainCase{}
	// fork epochs are bounded by the slot budget so that upgrades happen inside most chains
	tmp := GenConfig(t, o.CustomPct, o.AllowMainnet, 1)
	spe := uint64(8)
	switch tmp.Family {
	case "mainnet":
		spe = 32
	case "custom":
		spe = tmp.Override["SLOTS_PER_EPOCH"]
	}
	budget := o.MaxSlots
	if tmp.Family == "mainnet" {
		budget = minI(budget*2, 110)
	}
	maxEpoch := uint64(budget) / spe
	if maxEpoch < 1 {
		maxEpoch = 1
	}
	tmp.ForkEpochs = GenForkSchedule(t, maxEpoch)
	cc.Config = *tmp
	cfg := cc.Config.Build()
	maxN := o.MaxN
	if maxN == 0 {
		maxN = 130
	}
	if tmp.Family == "mainnet" {
		maxN = minI(maxN, 72)
	}
	cc.Genesis = GenGenesis(t, cfg, maxN)
	cc.Profile = rapid.SampledFrom(Profiles).Draw(t, "profile")
	used := 0
	for used < budget {
		r := rapid.IntRange(0, 99).Draw(t, "step_roll")
		switch {
		case o.ForkReload && r >= 96:
			cc.Actions = append(cc.Actions, Action{Kind: "reload"})
			continue
		case o.ForkReload && r >= 92:
			cc.Actions = append(cc.Actions, Action{Kind: "fork"})
			continue
		case r < o.BlockPct:
			d := rapid.SampledFrom([]int{1, 1, 1, 1, 2, 3}).Draw(t, "block_delta")
			// a quarter of blocks land on the first slot of an epoch
			if rapid.IntRange(0, 3).Draw(t, "epoch_start") == 0 {
				d = -1 // resolved at run time: next epoch start
			}
			cc.Actions = append(cc.Actions, Action{Kind: "block", Slots: d, Plan: GenBlockPlan(t, cc.Profile, o.OpsBias)})
			if d < 0 {
				used += int(spe) / 2
			} else {
				used += d
			}
		default:
			maxSkip := o.MaxSkip * int(spe)
			if maxSkip < 1 {
				maxSkip = 1
			}
			d := rapid.IntRange(1, maxSkip).Draw(t, "skip")
			cc.Actions = append(cc.Actions, Action{Kind: "skip", Slots: d})
			used += d
		}
	}
	return cc
}

// ---------------------------------------------------------------- lock-step stepping

type StepResult struct {
	Slot       uint64
	BecameSkip bool // the slot's proposer was slashed: the step advanced slots only
	Info       *BuildInfo
	Block      *refspec.SignedBlock
	BuildErr   error // generator slip: the reference refused its own construction
	RefErr     error // reference rejected (block) / failed (slots)
	LibErr     error // library error in the step being judged
	LibPanic   bool
	SlotsErr   error  // library error while advancing slots before the block (C02's domain)
	SlotsDiff  string // state divergence after the slot advance (C02's domain)
	Diff       string // state divergence after the judged step
}

// StepBlock builds a block at `slot` on the reference head, applies it on both sides.
// The library side is advanced with ProcessSlots first so that a divergence in slot/epoch
// processing is attributed separately from block processing.
func (l *Lock) StepBlock(ctx context.Context, slot uint64, plan *BlockPlan) *StepResult {
	r := &StepResult{Slot: slot}
	sb, info, err := l.BuildBlock(slot, plan)
	if err == ErrProposerSlashed {
		r = l.StepSkip(ctx, slot)
		r.BecameSkip = true
		return r
	}
	if err != nil {
		r.BuildErr = err
		return r
	}
	r.Block, r.Info = sb, info
	// reference
	if err := l.ApplyBlockRef(sb); err != nil {
		r.RefErr = err
		return r
	}
	// library: slots, compare against a reference state advanced by slots only
	if e, p := l.SkipLib(ctx, slot); e != nil {
		r.SlotsErr, r.LibPanic = e, p
		return r
	}
	if d := CompareStates(l.Sp, info.Pre, l.Lib); d != "" {
		r.SlotsDiff = d
		return r
	}
	env, err := l.Envelope(sb)
	if err != nil {
		r.LibErr = fmt.Errorf("library cannot decode the reference block bytes: %v", err)
		return r
	}
	e, p := Guard(func() error {
		return common.PostSlotTransition(ctx, l.LibSpec, l.Epc, l.Lib, env, true)
	})
	r.LibErr, r.LibPanic = e, p
	if e == nil || (!p && strings.Contains(e.Error(), "invalid state root")) {
		// on a state-root mismatch the library state holds the processed block: localise the divergence
		r.Diff = l.Compare()
	}
	return r
}

// StepSkip advances both sides to `slot` and compares.
func (l *Lock) StepSkip(ctx context.Context, slot uint64) *StepResult {
	r := &StepResult{Slot: slot}
	if err := l.SkipRef(slot); err != nil {
		r.RefErr = err
		return r
	}
	e, p := l.SkipLib(ctx, slot)
	r.LibErr, r.LibPanic = e, p
	if e == nil {
		r.Diff = l.Compare()
	}
	return r
}

// ResolveSlot turns an action's slot delta into an absolute target slot.
func (l *Lock) ResolveSlot(a *Action) uint64 {
	spe := l.Sp.P.SLOTS_PER_EPOCH
	if a.Slots < 0 {
		return (l.St.Slot/spe + 1) * spe
	}
	d := uint64(a.Slots)
	if d == 0 {
		d = 1
	}
	return l.St.Slot + d
}
