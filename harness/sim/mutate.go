package sim

import (
	"sort"

	"zrntverif/refspec"
	"zrntverif/refssz"
)

// Single-fault mutations of a valid block (catalogue ids from spec_tables/c03_mutations.txt).
// Each entry edits a copy of the block; unless it targets the outer signature or the state root
// itself the block is then re-rooted (state root recomputed when the reference still accepts the
// body) and re-signed, so that the targeted assertion is the one reached.

type MutCtx struct {
	C    *Chain
	Pre  *refspec.State       // reference state advanced to the block's slot (before the block)
	Head *refspec.State       // reference head state (before slot processing)
	B    *refspec.SignedBlock // the copy being mutated
	Pr   *prng
	// outcome flags set by the mutation
	KeepSignature bool // do not re-sign the block
	KeepStateRoot bool // do not recompute the state root
	SignerKey     *uint64
	Benign        bool // the catalogue expects the reference to still accept
}

type Mutation struct {
	ID    string
	Forks string // subset of "pabcd"
	Apply func(m *MutCtx) bool
}

func copyBlock(sb *refspec.SignedBlock) *refspec.SignedBlock {
	o := *sb
	b := &o.Message.Body
	src := &sb.Message.Body
	b.ProposerSlashings = append([]refspec.ProposerSlashing{}, src.ProposerSlashings...)
	b.AttesterSlashings = make([]refspec.AttesterSlashing, len(src.AttesterSlashings))
	for i, a := range src.AttesterSlashings {
		b.AttesterSlashings[i] = a
		b.AttesterSlashings[i].A1.Indices = append([]uint64{}, a.A1.Indices...)
		b.AttesterSlashings[i].A2.Indices = append([]uint64{}, a.A2.Indices...)
	}
	b.Attestations = make([]refspec.Attestation, len(src.Attestations))
	for i, a := range src.Attestations {
		b.Attestations[i] = a
		b.Attestations[i].Bits = append([]bool{}, a.Bits...)
	}
	b.Deposits = append([]refspec.Deposit{}, src.Deposits...)
	b.VoluntaryExits = append([]refspec.SignedVoluntaryExit{}, src.VoluntaryExits...)
	b.SyncAggregate.Bits = append([]bool{}, src.SyncAggregate.Bits...)
	b.ExecutionPayload.ExtraData = append([]byte{}, src.ExecutionPayload.ExtraData...)
	b.ExecutionPayload.Transactions = append([][]byte{}, src.ExecutionPayload.Transactions...)
	b.ExecutionPayload.Withdrawals = append([]refspec.Withdrawal{}, src.ExecutionPayload.Withdrawals...)
	b.BLSChanges = append([]refspec.SignedBLSToExecutionChange{}, src.BLSChanges...)
	b.BlobCommitments = append([][48]byte{}, src.BlobCommitments...)
	return &o
}

func (m *MutCtx) sp() *refspec.Spec { return m.C.Sp }

func (m *MutCtx) keyOfValidator(vi uint64) (uint64, bool) {
	if vi >= uint64(len(m.Pre.Validators)) {
		return 0, false
	}
	k, ok := m.C.KeyOf[m.Pre.Validators[vi].Pubkey]
	return k, ok
}

// attKeys returns the pool keys of the set bits of an attestation.
func (m *MutCtx) attKeys(a *refspec.Attestation) []uint64 {
	committee := m.sp().BeaconCommittee(m.Pre, a.Data.Slot, a.Data.Index)
	var ks []uint64
	for i, vi := range committee {
		if i < len(a.Bits) && a.Bits[i] {
			if k, ok := m.keyOfValidator(vi); ok {
				ks = append(ks, k)
			}
		}
	}
	return ks
}

func (m *MutCtx) signAtt(a *refspec.Attestation, keys []uint64, domainType [4]byte) {
	sp := m.sp()
	sr := sp.ComputeSigningRoot(sp.HTR("AttestationData", a.Data.V()), sp.GetDomain(m.Pre, domainType, a.Data.Target.Epoch))
	a.Signature = refspec.AggregateSign(keys, sr)
}

func (m *MutCtx) signIndexed(ia *refspec.IndexedAttestation) {
	sp := m.sp()
	var ks []uint64
	for _, vi := range ia.Indices {
		if k, ok := m.keyOfValidator(vi); ok {
			ks = append(ks, k)
		}
	}
	sr := sp.ComputeSigningRoot(sp.HTR("AttestationData", ia.Data.V()), sp.GetDomain(m.Pre, refspec.DOMAIN_BEACON_ATTESTER, ia.Data.Target.Epoch))
	ia.Signature = refspec.AggregateSign(ks, sr)
}

func (m *MutCtx) exitDomain(e *refspec.VoluntaryExit) Root {
	sp := m.sp()
	if m.Pre.Fork >= refspec.Deneb {
		return sp.ComputeDomain(refspec.DOMAIN_VOLUNTARY_EXIT, sp.P.ForkVersions[refspec.Capella], m.Pre.GenesisValidatorsRoot)
	}
	return sp.GetDomain(m.Pre, refspec.DOMAIN_VOLUNTARY_EXIT, e.Epoch)
}

func (m *MutCtx) signExit(se *refspec.SignedVoluntaryExit, key uint64, dom Root) {
	sp := m.sp()
	se.Signature = refspec.Sign(key, sp.ComputeSigningRoot(sp.HTR("VoluntaryExit", se.Message.V()), dom))
}

func (m *MutCtx) syncKeysAndRoot() ([]uint64, Root) {
	sp := m.sp()
	var ks []uint64
	for i, pk := range m.Pre.CurrentSyncCommittee.Pubkeys {
		if m.B.Message.Body.SyncAggregate.Bits[i] {
			ks = append(ks, m.C.KeyOf[pk])
		}
	}
	return ks, sp.GetBlockRootAtSlot(m.Pre, m.B.Message.Slot-1)
}

func flip(r *Root) { r[7] ^= 0x20 }

func otherActive(m *MutCtx, not uint64) (uint64, bool) {
	act := m.sp().ActiveIndices(m.Pre, m.sp().CurrentEpoch(m.Pre))
	var cand []uint64
	for _, a := range act {
		if a != not && !m.Pre.Validators[a].Slashed {
			if _, ok := m.keyOfValidator(a); ok {
				cand = append(cand, a)
			}
		}
	}
	if len(cand) == 0 {
		return 0, false
	}
	return cand[m.Pr.n(len(cand))], true
}

// Catalogue is the list of implemented single-fault mutations.
var Catalogue = []Mutation{
	// ---------------------------------------------------------------- header
	{"HDR-SLOT-LOW", "pabcd", func(m *MutCtx) bool { m.B.Message.Slot = m.Head.Slot; m.KeepStateRoot = true; return true }},
	{"HDR-PROPOSER-OTHER", "pabcd", func(m *MutCtx) bool {
		o, ok := otherActive(m, m.B.Message.ProposerIndex)
		if !ok {
			return false
		}
		m.B.Message.ProposerIndex = o
		k, _ := m.keyOfValidator(o)
		m.SignerKey = &k
		return true
	}},
	{"HDR-PROPOSER-OOR", "pabcd", func(m *MutCtx) bool {
		m.B.Message.ProposerIndex = uint64(len(m.Pre.Validators)) + uint64(m.Pr.n(3))
		return true
	}},
	{"HDR-PARENT", "pabcd", func(m *MutCtx) bool { flip(&m.B.Message.ParentRoot); return true }},
	{"HDR-STATE-ROOT", "pabcd", func(m *MutCtx) bool { flip(&m.B.Message.StateRoot); m.KeepStateRoot = true; return true }},
	// ---------------------------------------------------------------- outer signature
	{"SIG-BLOCK-WRONGKEY", "pabcd", func(m *MutCtx) bool {
		o, ok := otherActive(m, m.B.Message.ProposerIndex)
		if !ok {
			return false
		}
		k, _ := m.keyOfValidator(o)
		m.SignerKey = &k
		return true
	}},
	{"SIG-BLOCK-WRONGDOMAIN", "pabcd", func(m *MutCtx) bool {
		sp := m.sp()
		k, _ := m.keyOfValidator(m.B.Message.ProposerIndex)
		dt := refspec.DOMAIN_RANDAO
		if m.Pr.pm(500) {
			dt = refspec.DOMAIN_BEACON_ATTESTER
		}
		m.B.Signature = refspec.Sign(k, sp.ComputeSigningRoot(sp.BlockRoot(&m.B.Message), sp.GetDomainNow(m.Pre, dt)))
		m.KeepSignature = true
		return true
	}},
	{"SIG-BLOCK-WRONGVERSION", "pabcd", func(m *MutCtx) bool {
		sp := m.sp()
		k, _ := m.keyOfValidator(m.B.Message.ProposerIndex)
		f := m.Pre.Fork
		var v [4]byte
		if f > 0 && m.Pr.pm(500) {
			v = sp.P.ForkVersions[f-1]
		} else if f < 4 {
			v = sp.P.ForkVersions[f+1]
		} else {
			v = sp.P.ForkVersions[f-1]
		}
		dom := sp.ComputeDomain(refspec.DOMAIN_BEACON_PROPOSER, v, m.Pre.GenesisValidatorsRoot)
		m.B.Signature = refspec.Sign(k, sp.ComputeSigningRoot(sp.BlockRoot(&m.B.Message), dom))
		m.KeepSignature = true
		return true
	}},
	{"SIG-BLOCK-WRONGGVR", "pabcd", func(m *MutCtx) bool {
		sp := m.sp()
		k, _ := m.keyOfValidator(m.B.Message.ProposerIndex)
		g := m.Pre.GenesisValidatorsRoot
		flip(&g)
		dom := sp.ComputeDomain(refspec.DOMAIN_BEACON_PROPOSER, m.Pre.ForkData.CurrentVersion, g)
		m.B.Signature = refspec.Sign(k, sp.ComputeSigningRoot(sp.BlockRoot(&m.B.Message), dom))
		m.KeepSignature = true
		return true
	}},
	{"SIG-BLOCK-GARBAGE", "pabcd", func(m *MutCtx) bool {
		switch m.Pr.n(3) {
		case 0:
			copy(m.B.Signature[:], m.Pr.bytes(96))
		case 1:
			m.B.Signature = refspec.G2PointAtInfinity
		default:
			m.B.Signature[40] ^= 1
		}
		m.KeepSignature = true
		return true
	}},
	// ---------------------------------------------------------------- randao
	{"RANDAO-WRONGEPOCH", "pabcd", func(m *MutCtx) bool {
		sp := m.sp()
		k, _ := m.keyOfValidator(m.B.Message.ProposerIndex)
		e := sp.CurrentEpoch(m.Pre) + 1
		m.B.Message.Body.RandaoReveal = refspec.Sign(k, sp.ComputeSigningRoot(sp.HTR("Epoch", e), sp.GetDomainNow(m.Pre, refspec.DOMAIN_RANDAO)))
		return true
	}},
	{"RANDAO-WRONGKEY", "pabcd", func(m *MutCtx) bool {
		sp := m.sp()
		o, ok := otherActive(m, m.B.Message.ProposerIndex)
		if !ok {
			return false
		}
		k, _ := m.keyOfValidator(o)
		m.B.Message.Body.RandaoReveal = refspec.Sign(k, sp.ComputeSigningRoot(sp.HTR("Epoch", sp.CurrentEpoch(m.Pre)), sp.GetDomainNow(m.Pre, refspec.DOMAIN_RANDAO)))
		return true
	}},
	{"RANDAO-AS-BLOCKSIG", "pabcd", func(m *MutCtx) bool { m.B.Message.Body.RandaoReveal = m.B.Signature; return true }},
	// ---------------------------------------------------------------- attestations
	{"ATT-TARGET-FUTURE", "pabcd", func(m *MutCtx) bool {
		return mutAtt(m, func(a *refspec.Attestation) bool { a.Data.Target.Epoch = m.sp().CurrentEpoch(m.Pre) + 1; return true }, true)
	}},
	{"ATT-TARGET-OLD", "pabcd", func(m *MutCtx) bool {
		return mutAtt(m, func(a *refspec.Attestation) bool {
			pe := m.sp().PreviousEpoch(m.Pre)
			if pe == 0 {
				return false
			}
			a.Data.Target.Epoch = pe - 1
			return true
		}, true)
	}},
	{"ATT-TARGET-SLOT-MISMATCH", "pabcd", func(m *MutCtx) bool {
		return mutAtt(m, func(a *refspec.Attestation) bool {
			cur, prev := m.sp().CurrentEpoch(m.Pre), m.sp().PreviousEpoch(m.Pre)
			if cur == prev {
				return false
			}
			if a.Data.Target.Epoch == cur {
				a.Data.Target.Epoch = prev
			} else {
				a.Data.Target.Epoch = cur
			}
			return true
		}, true)
	}},
	{"ATT-TOO-NEW", "pabcd", func(m *MutCtx) bool {
		return mutAtt(m, func(a *refspec.Attestation) bool {
			a.Data.Slot = m.B.Message.Slot
			a.Data.Target.Epoch = m.sp().EpochAtSlot(a.Data.Slot)
			return true
		}, true)
	}},
	{"ATT-FUTURE-SLOT", "pabcd", func(m *MutCtx) bool {
		// a fully signed attestation of a LATER slot of the block's own epoch (its committee is already known):
		// slot + MIN_ATTESTATION_INCLUSION_DELAY <= state.slot fails by more than the delay itself
		sp := m.sp()
		slot, spe := m.B.Message.Slot, sp.P.SLOTS_PER_EPOCH
		last := sp.StartSlotAtEpoch(sp.CurrentEpoch(m.Pre)) + spe - 1
		if slot >= last {
			return false
		}
		a := slot + 1 + uint64(m.Pr.n(int(last-slot)))
		te := sp.CurrentEpoch(m.Pre)
		var head refspec.Root
		if slot > 0 {
			head = sp.GetBlockRootAtSlot(m.Pre, slot-1)
		}
		troot := head
		if st := sp.StartSlotAtEpoch(te); st < slot {
			troot = sp.GetBlockRootAtSlot(m.Pre, st)
		}
		d := refspec.AttestationData{Slot: a, Index: 0, BeaconBlockRoot: head, Source: m.Pre.CurrentJustifiedCheckpoint, Target: refspec.Checkpoint{Epoch: te, Root: troot}}
		committee := sp.BeaconCommittee(m.Pre, a, 0)
		bits := make([]bool, len(committee))
		var ks []uint64
		for bi, vi := range committee {
			k, ok := m.keyOfValidator(vi)
			if !ok {
				return false
			}
			bits[bi] = true
			ks = append(ks, k)
		}
		if len(ks) == 0 {
			return false
		}
		sr := sp.ComputeSigningRoot(sp.HTR("AttestationData", d.V()), sp.GetDomain(m.Pre, refspec.DOMAIN_BEACON_ATTESTER, te))
		att := refspec.Attestation{Bits: bits, Data: d, Signature: refspec.AggregateSign(ks, sr)}
		b := &m.B.Message.Body
		if len(b.Attestations) > 0 {
			b.Attestations[m.Pr.n(len(b.Attestations))] = att
		} else {
			b.Attestations = append(b.Attestations, att)
		}
		return true
	}},
	{"ATT-TOO-OLD", "pabcd", func(m *MutCtx) bool {
		// an honest, fully signed attestation of the previous epoch for a slot more than SLOTS_PER_EPOCH
		// back: out of the inclusion window before Deneb, valid from Deneb on (EIP-7045)
		sp := m.sp()
		slot, spe := m.B.Message.Slot, sp.P.SLOTS_PER_EPOCH
		prevStart := sp.StartSlotAtEpoch(sp.PreviousEpoch(m.Pre))
		if slot <= spe || slot-spe <= prevStart {
			return false
		}
		a := prevStart + uint64(m.Pr.n(int(slot-spe-prevStart)))
		te := sp.EpochAtSlot(a)
		if te == sp.CurrentEpoch(m.Pre) {
			return false
		}
		d := refspec.AttestationData{Slot: a, Index: 0, BeaconBlockRoot: sp.GetBlockRootAtSlot(m.Pre, a), Source: m.Pre.PreviousJustifiedCheckpoint,
			Target: refspec.Checkpoint{Epoch: te, Root: sp.GetBlockRoot(m.Pre, te)}}
		committee := sp.BeaconCommittee(m.Pre, a, 0)
		bits := make([]bool, len(committee))
		var ks []uint64
		for bi, vi := range committee {
			k, ok := m.keyOfValidator(vi)
			if !ok {
				return false
			}
			bits[bi] = true
			ks = append(ks, k)
		}
		if len(ks) == 0 {
			return false
		}
		sr := sp.ComputeSigningRoot(sp.HTR("AttestationData", d.V()), sp.GetDomain(m.Pre, refspec.DOMAIN_BEACON_ATTESTER, te))
		att := refspec.Attestation{Bits: bits, Data: d, Signature: refspec.AggregateSign(ks, sr)}
		b := &m.B.Message.Body
		if len(b.Attestations) > 0 {
			b.Attestations[m.Pr.n(len(b.Attestations))] = att
		} else {
			b.Attestations = append(b.Attestations, att)
		}
		m.Benign = m.Pre.Fork >= refspec.Deneb
		return true
	}},
	{"ATT-INDEX-OOR", "pabcd", func(m *MutCtx) bool {
		return mutAtt(m, func(a *refspec.Attestation) bool {
			a.Data.Index = m.sp().CommitteeCountPerSlot(m.Pre, a.Data.Target.Epoch) + uint64(m.Pr.n(2))
			return true
		}, false)
	}},
	{"ATT-BITS-LEN", "pabcd", func(m *MutCtx) bool {
		return mutAtt(m, func(a *refspec.Attestation) bool {
			if m.Pr.pm(500) || len(a.Bits) <= 1 {
				a.Bits = append(a.Bits, false)
			} else {
				// drop the last (unset if possible) bit
				a.Bits = a.Bits[:len(a.Bits)-1]
			}
			return true
		}, false)
	}},
	{"ATT-BITS-EMPTY", "pabcd", func(m *MutCtx) bool {
		return mutAtt(m, func(a *refspec.Attestation) bool {
			for i := range a.Bits {
				a.Bits[i] = false
			}
			a.Signature = refspec.G2PointAtInfinity
			return true
		}, false)
	}},
	{"ATT-SOURCE-WRONG", "pabcd", func(m *MutCtx) bool {
		return mutAtt(m, func(a *refspec.Attestation) bool {
			if m.Pr.pm(500) {
				flip(&a.Data.Source.Root)
			} else {
				a.Data.Source.Epoch++
			}
			return true
		}, true)
	}},
	{"ATT-SIG-SUBSET", "pabcd", func(m *MutCtx) bool {
		return mutAtt(m, func(a *refspec.Attestation) bool {
			ks := m.attKeys(a)
			if len(ks) < 2 {
				return false
			}
			m.signAtt(a, ks[1:], refspec.DOMAIN_BEACON_ATTESTER)
			return true
		}, false)
	}},
	{"ATT-SIG-WRONGDOMAIN", "pabcd", func(m *MutCtx) bool {
		return mutAtt(m, func(a *refspec.Attestation) bool {
			m.signAtt(a, m.attKeys(a), refspec.DOMAIN_BEACON_PROPOSER)
			return true
		}, false)
	}},
	{"ATT-SIG-OTHERFORK", "pabcd", func(m *MutCtx) bool {
		return mutAtt(m, func(a *refspec.Attestation) bool {
			sp := m.sp()
			v := sp.P.ForkVersions[(m.Pre.Fork+1)%5]
			dom := sp.ComputeDomain(refspec.DOMAIN_BEACON_ATTESTER, v, m.Pre.GenesisValidatorsRoot)
			a.Signature = refspec.AggregateSign(m.attKeys(a), sp.ComputeSigningRoot(sp.HTR("AttestationData", a.Data.V()), dom))
			return true
		}, false)
	}},
	{"ATT-DUP-DATA", "pabcd", func(m *MutCtx) bool {
		b := &m.B.Message.Body
		if len(b.Attestations) == 0 || uint64(len(b.Attestations)) >= m.sp().P.MAX_ATTESTATIONS {
			return false
		}
		b.Attestations = append(b.Attestations, b.Attestations[m.Pr.n(len(b.Attestations))])
		m.Benign = true
		return true
	}},
	{"LIM-ATTESTATIONS-OVER", "pabcd", func(m *MutCtx) bool {
		b := &m.B.Message.Body
		if len(b.Attestations) == 0 || m.sp().P.MAX_ATTESTATIONS > 16 {
			return false
		}
		for uint64(len(b.Attestations)) <= m.sp().P.MAX_ATTESTATIONS {
			b.Attestations = append(b.Attestations, b.Attestations[0])
		}
		return true
	}},
	// ---------------------------------------------------------------- attester slashings
	{"ASL-NOT-SLASHABLE", "pabcd", func(m *MutCtx) bool {
		return mutASL(m, func(s *refspec.AttesterSlashing) bool {
			// identical data; or equal sources and different targets (neither a double nor a surround vote), with the
			// later target in attestation 2 or in attestation 1
			d := s.A1.Data
			switch m.Pr.n(3) {
			case 0:
				s.A2.Data = d
			case 1:
				s.A2.Data = d
				s.A2.Data.Target.Epoch++
			default:
				s.A2.Data = d
				s.A1.Data.Target.Epoch++
				m.signIndexed(&s.A1)
			}
			m.signIndexed(&s.A2)
			return true
		})
	}},
	{"ASL-UNSORTED", "pabcd", func(m *MutCtx) bool {
		return mutASL(m, func(s *refspec.AttesterSlashing) bool {
			if len(s.A1.Indices) < 2 {
				return false
			}
			s.A1.Indices[0], s.A1.Indices[1] = s.A1.Indices[1], s.A1.Indices[0]
			return true
		})
	}},
	{"ASL-DUP-INDEX", "pabcd", func(m *MutCtx) bool {
		return mutASL(m, func(s *refspec.AttesterSlashing) bool {
			s.A1.Indices = append([]uint64{s.A1.Indices[0]}, s.A1.Indices...)
			m.signIndexed(&s.A1)
			return true
		})
	}},
	{"ASL-INDEX-OOR", "pabcd", func(m *MutCtx) bool {
		return mutASL(m, func(s *refspec.AttesterSlashing) bool {
			s.A1.Indices = append(s.A1.Indices, uint64(len(m.Pre.Validators))+3)
			return true
		})
	}},
	{"ASL-NO-INTERSECTION", "pabcd", func(m *MutCtx) bool {
		return mutASL(m, func(s *refspec.AttesterSlashing) bool {
			in1 := map[uint64]bool{}
			for _, x := range s.A1.Indices {
				in1[x] = true
			}
			var out []uint64
			for _, x := range s.A2.Indices {
				if !in1[x] {
					out = append(out, x)
				}
			}
			if len(out) == 0 {
				o, ok := otherActive(m, s.A1.Indices[0])
				if !ok || in1[o] {
					return false
				}
				out = []uint64{o}
			}
			s.A2.Indices = out
			m.signIndexed(&s.A2)
			return true
		})
	}},
	{"ASL-BAD-SIG", "pabcd", func(m *MutCtx) bool {
		return mutASL(m, func(s *refspec.AttesterSlashing) bool {
			if m.Pr.pm(500) {
				s.A1.Signature = s.A2.Signature
			} else {
				s.A2.Signature = s.A1.Signature
			}
			return true
		})
	}},
	{"ASL-SIGS-SWAPPED", "pabcd", func(m *MutCtx) bool {
		// the two aggregate signatures exchanged: each wrong for its own attestation, their sum unchanged
		return mutASL(m, func(s *refspec.AttesterSlashing) bool {
			if s.A1.Signature == s.A2.Signature {
				return false
			}
			s.A1.Signature, s.A2.Signature = s.A2.Signature, s.A1.Signature
			return true
		})
	}},
	// ---------------------------------------------------------------- proposer slashings
	{"PSL-DIFF-SLOT", "pabcd", func(m *MutCtx) bool {
		return mutPSL(m, func(s *refspec.ProposerSlashing, key uint64) bool {
			s.H2.Message.Slot++
			signHeader(m, &s.H2, key)
			return true
		})
	}},
	{"PSL-DIFF-PROPOSER", "pabcd", func(m *MutCtx) bool {
		return mutPSL(m, func(s *refspec.ProposerSlashing, key uint64) bool {
			o, ok := otherActive(m, s.H1.Message.ProposerIndex)
			if !ok {
				return false
			}
			s.H2.Message.ProposerIndex = o
			k, _ := m.keyOfValidator(o)
			signHeader(m, &s.H2, k)
			return true
		})
	}},
	{"PSL-SAME-HEADER", "pabcd", func(m *MutCtx) bool {
		return mutPSL(m, func(s *refspec.ProposerSlashing, key uint64) bool { s.H2 = s.H1; return true })
	}},
	{"PSL-BAD-SIG", "pabcd", func(m *MutCtx) bool {
		return mutPSL(m, func(s *refspec.ProposerSlashing, key uint64) bool {
			if m.Pr.pm(500) {
				s.H1.Signature = s.H2.Signature
			} else {
				s.H2.Signature[20] ^= 4
			}
			return true
		})
	}},
	{"PSL-SIGS-SWAPPED", "pabcd", func(m *MutCtx) bool {
		// both signatures wrong individually, their sum right (an aggregated check of the two would pass)
		return mutPSL(m, func(s *refspec.ProposerSlashing, key uint64) bool {
			if s.H1.Signature == s.H2.Signature {
				return false
			}
			s.H1.Signature, s.H2.Signature = s.H2.Signature, s.H1.Signature
			return true
		})
	}},
	{"PSL-INDEX-OOR", "pabcd", func(m *MutCtx) bool {
		return mutPSL(m, func(s *refspec.ProposerSlashing, key uint64) bool {
			s.H1.Message.ProposerIndex = uint64(len(m.Pre.Validators)) + 1
			s.H2.Message.ProposerIndex = s.H1.Message.ProposerIndex
			return true
		})
	}},
	// is_slashable_validator, one conjunct at a time: correctly signed slashings of a validator that is
	// not yet active (still in the deposit/activation queue), already withdrawable, or already slashed.
	{"PSL-VALIDATOR-NOT-YET-ACTIVE", "pabcd", func(m *MutCtx) bool { return insertPSL(m, unslashableNotYetActive) }},
	{"PSL-VALIDATOR-WITHDRAWABLE", "pabcd", func(m *MutCtx) bool { return insertPSL(m, unslashableWithdrawable) }},
	{"PSL-VALIDATOR-ALREADY-SLASHED", "pabcd", func(m *MutCtx) bool { return insertPSL(m, unslashableSlashed) }},
	{"ASL-VALIDATOR-NOT-YET-ACTIVE", "pabcd", func(m *MutCtx) bool { return insertASL(m, unslashableNotYetActive) }},
	{"ASL-VALIDATOR-WITHDRAWABLE", "pabcd", func(m *MutCtx) bool { return insertASL(m, unslashableWithdrawable) }},
	{"ASL-VALIDATOR-ALREADY-SLASHED", "pabcd", func(m *MutCtx) bool { return insertASL(m, unslashableSlashed) }},
	{"ORDER-SLASH-TWICE", "pabcd", func(m *MutCtx) bool {
		b := &m.B.Message.Body
		if len(b.ProposerSlashings) == 0 || uint64(len(b.ProposerSlashings)) >= m.sp().P.MAX_PROPOSER_SLASHINGS {
			return false
		}
		b.ProposerSlashings = append(b.ProposerSlashings, b.ProposerSlashings[0])
		return true
	}},
	// ---------------------------------------------------------------- deposits
	{"DEP-COUNT-SHORT", "pabcd", func(m *MutCtx) bool {
		b := &m.B.Message.Body
		if len(b.Deposits) == 0 {
			return false
		}
		b.Deposits = b.Deposits[:len(b.Deposits)-1]
		return true
	}},
	{"DEP-COUNT-OVER", "pabcd", func(m *MutCtx) bool {
		b := &m.B.Message.Body
		if uint64(len(b.Deposits)) >= m.sp().P.MAX_DEPOSITS {
			return false
		}
		var d refspec.Deposit
		if len(b.Deposits) > 0 {
			d = b.Deposits[len(b.Deposits)-1]
		} else if len(m.C.Datas) > 0 {
			d = refspec.Deposit{Data: m.C.Datas[m.Pr.n(len(m.C.Datas))]}
		} else {
			return false
		}
		b.Deposits = append(b.Deposits, d)
		return true
	}},
	{"DEP-PROOF", "pabcd", func(m *MutCtx) bool {
		b := &m.B.Message.Body
		if len(b.Deposits) == 0 {
			return false
		}
		i := m.Pr.n(len(b.Deposits))
		d := m.Pr.n(33)
		b.Deposits[i].Proof[d][m.Pr.n(32)] ^= 1 << uint(m.Pr.n(8))
		return true
	}},
	{"DEP-PROOF-LEAFSIDE", "pabcd", func(m *MutCtx) bool {
		// the sibling next to the leaf (depth 0) or the length mix-in (depth 32): the two ends of the branch
		b := &m.B.Message.Body
		if len(b.Deposits) == 0 {
			return false
		}
		i := m.Pr.n(len(b.Deposits))
		d := []int{0, 32, 31, 1}[m.Pr.n(4)]
		b.Deposits[i].Proof[d][m.Pr.n(32)] ^= 1 << uint(m.Pr.n(8))
		return true
	}},
	{"DEP-DATA-FIELD", "pabcd", func(m *MutCtx) bool {
		// any field of the deposit data is covered by the leaf: pubkey / credentials / signature changed
		b := &m.B.Message.Body
		if len(b.Deposits) == 0 {
			return false
		}
		d := &b.Deposits[m.Pr.n(len(b.Deposits))].Data
		switch m.Pr.n(3) {
		case 0:
			d.Pubkey = refspec.KeyPubkey(uint64(900 + m.Pr.n(50)))
		case 1:
			d.WithdrawalCredentials[5+m.Pr.n(20)] ^= 1
		default:
			d.Signature = refspec.Sign(uint64(3+m.Pr.n(5)), m.Pr.root())
		}
		return true
	}},
	{"DEP-REPLAY-PROCESSED", "pabcd", func(m *MutCtx) bool {
		// an already processed deposit (with its then-valid proof shape) in place of the next one
		b := &m.B.Message.Body
		if len(b.Deposits) == 0 || m.Pre.Eth1DepositIndex == 0 || len(m.C.Datas) == 0 {
			return false
		}
		old := m.Pr.n(int(m.Pre.Eth1DepositIndex))
		if old >= len(m.C.Datas) {
			return false
		}
		b.Deposits[0].Data = m.C.Datas[old]
		return true
	}},
	{"DEP-WRONG-INDEX", "pabcd", func(m *MutCtx) bool {
		b := &m.B.Message.Body
		if len(b.Deposits) < 2 {
			return false
		}
		b.Deposits[0], b.Deposits[1] = b.Deposits[1], b.Deposits[0]
		return true
	}},
	{"DEP-AMOUNT", "pabcd", func(m *MutCtx) bool {
		b := &m.B.Message.Body
		if len(b.Deposits) == 0 {
			return false
		}
		b.Deposits[m.Pr.n(len(b.Deposits))].Data.Amount++
		return true
	}},
	// ---------------------------------------------------------------- exits
	{"EXIT-FUTURE-EPOCH", "pabcd", func(m *MutCtx) bool {
		return mutExit(m, func(e *refspec.SignedVoluntaryExit, key uint64) bool {
			e.Message.Epoch = m.sp().CurrentEpoch(m.Pre) + 1
			m.signExit(e, key, m.exitDomain(&e.Message))
			return true
		})
	}},
	{"EXIT-WRONGKEY", "pabcd", func(m *MutCtx) bool {
		return mutExit(m, func(e *refspec.SignedVoluntaryExit, key uint64) bool {
			o, ok := otherActive(m, e.Message.ValidatorIndex)
			if !ok {
				return false
			}
			k, _ := m.keyOfValidator(o)
			m.signExit(e, k, m.exitDomain(&e.Message))
			return true
		})
	}},
	{"EXIT-WRONGDOMAIN", "pabcd", func(m *MutCtx) bool {
		return mutExit(m, func(e *refspec.SignedVoluntaryExit, key uint64) bool {
			sp := m.sp()
			m.signExit(e, key, sp.GetDomain(m.Pre, refspec.DOMAIN_DEPOSIT, e.Message.Epoch))
			return true
		})
	}},
	{"EXIT-DENEB-CURRENT-VER", "d", func(m *MutCtx) bool {
		return mutExit(m, func(e *refspec.SignedVoluntaryExit, key uint64) bool {
			sp := m.sp()
			if sp.P.ForkVersions[refspec.Deneb] == sp.P.ForkVersions[refspec.Capella] {
				return false
			}
			m.signExit(e, key, sp.ComputeDomain(refspec.DOMAIN_VOLUNTARY_EXIT, sp.P.ForkVersions[refspec.Deneb], m.Pre.GenesisValidatorsRoot))
			return true
		})
	}},
	{"EXIT-INDEX-OOR", "pabcd", func(m *MutCtx) bool {
		return mutExit(m, func(e *refspec.SignedVoluntaryExit, key uint64) bool {
			e.Message.ValidatorIndex = uint64(len(m.Pre.Validators)) + 2
			return true
		})
	}},
	{"EXIT-DUP", "pabcd", func(m *MutCtx) bool {
		b := &m.B.Message.Body
		if len(b.VoluntaryExits) == 0 || uint64(len(b.VoluntaryExits)) >= m.sp().P.MAX_VOLUNTARY_EXITS {
			return false
		}
		b.VoluntaryExits = append(b.VoluntaryExits, b.VoluntaryExits[0])
		return true
	}},
	{"EXIT-ALREADY-OR-INACTIVE", "pabcd", func(m *MutCtx) bool {
		return mutExit(m, func(e *refspec.SignedVoluntaryExit, key uint64) bool {
			cur := m.sp().CurrentEpoch(m.Pre)
			for vi := range m.Pre.Validators {
				v := &m.Pre.Validators[vi]
				if v.ExitEpoch != Far || !refspec.IsActive(v, cur) {
					if k, ok := m.keyOfValidator(uint64(vi)); ok {
						e.Message.ValidatorIndex = uint64(vi)
						m.signExit(e, k, m.exitDomain(&e.Message))
						return true
					}
				}
			}
			return false
		})
	}},
	{"EXIT-TOO-YOUNG", "pabcd", func(m *MutCtx) bool {
		// an active validator that has not yet served SHARD_COMMITTEE_PERIOD epochs; prefer one that went
		// through the activation queue (eligibility epoch earlier than activation epoch)
		sp := m.sp()
		cur := sp.CurrentEpoch(m.Pre)
		best, bestQueued := -1, false
		for vi := range m.Pre.Validators {
			v := &m.Pre.Validators[vi]
			if !refspec.IsActive(v, cur) || v.ExitEpoch != Far || cur >= v.ActivationEpoch+sp.P.SHARD_COMMITTEE_PERIOD {
				continue
			}
			if _, ok := m.keyOfValidator(uint64(vi)); !ok {
				continue
			}
			queued := v.ActivationEligibilityEpoch < v.ActivationEpoch
			if best < 0 || (queued && !bestQueued) {
				best, bestQueued = vi, queued
			}
		}
		if best < 0 {
			return false
		}
		b := &m.B.Message.Body
		e := refspec.SignedVoluntaryExit{Message: refspec.VoluntaryExit{Epoch: cur, ValidatorIndex: uint64(best)}}
		k, _ := m.keyOfValidator(uint64(best))
		m.signExit(&e, k, m.exitDomain(&e.Message))
		if len(b.VoluntaryExits) > 0 {
			b.VoluntaryExits[m.Pr.n(len(b.VoluntaryExits))] = e
		} else {
			b.VoluntaryExits = append(b.VoluntaryExits, e)
		}
		return true
	}},
	// ---------------------------------------------------------------- bls changes
	{"BLSCH-PUBKEY-HASH", "cd", func(m *MutCtx) bool {
		return mutBLS(m, func(c *refspec.SignedBLSToExecutionChange) bool {
			c.Message.FromBLSPubkey = refspec.KeyPubkey(WithdrawalKeyBase + 999)
			return true
		})
	}},
	{"BLSCH-SIG", "cd", func(m *MutCtx) bool {
		return mutBLS(m, func(c *refspec.SignedBLSToExecutionChange) bool {
			sp := m.sp()
			k, _ := m.keyOfValidator(c.Message.ValidatorIndex)
			// signed under the current fork version instead of the genesis version
			dom := sp.ComputeDomain(refspec.DOMAIN_BLS_TO_EXECUTION_CHANGE, m.Pre.ForkData.CurrentVersion, m.Pre.GenesisValidatorsRoot)
			c.Signature = refspec.Sign(WithdrawalKeyBase+k, sp.ComputeSigningRoot(sp.HTR("BLSToExecutionChange", c.Message.V()), dom))
			return true
		})
	}},
	{"BLSCH-INDEX-OOR", "cd", func(m *MutCtx) bool {
		return mutBLS(m, func(c *refspec.SignedBLSToExecutionChange) bool {
			c.Message.ValidatorIndex = uint64(len(m.Pre.Validators)) + 1
			return true
		})
	}},
	{"BLSCH-NON-BLS-PREFIX", "cd", func(m *MutCtx) bool {
		// a correctly signed change for a validator whose credentials are hash(from_bls_pubkey)[1:] behind a
		// prefix that is neither 0x00 nor 0x01: only BLS_WITHDRAWAL_PREFIX credentials may be changed
		sp := m.sp()
		var cand []uint64
		for i := range m.Pre.Validators {
			v := &m.Pre.Validators[i]
			k, ok := m.keyOfValidator(uint64(i))
			if !ok || v.WithdrawalCredentials[0] == refspec.BLS_WITHDRAWAL_PREFIX || v.WithdrawalCredentials[0] == refspec.ETH1_ADDRESS_WITHDRAWAL_PREFIX {
				continue
			}
			w := blsCredFor(k)
			w[0] = v.WithdrawalCredentials[0]
			if w == v.WithdrawalCredentials {
				cand = append(cand, uint64(i))
			}
		}
		if len(cand) == 0 {
			return false
		}
		vi := cand[m.Pr.n(len(cand))]
		k, _ := m.keyOfValidator(vi)
		ch := refspec.BLSToExecutionChange{ValidatorIndex: vi, FromBLSPubkey: refspec.KeyPubkey(WithdrawalKeyBase + k)}
		copy(ch.ToAddress[:], m.Pr.bytes(20))
		dom := sp.ComputeDomain(refspec.DOMAIN_BLS_TO_EXECUTION_CHANGE, sp.P.ForkVersions[refspec.Phase0], m.Pre.GenesisValidatorsRoot)
		sc := refspec.SignedBLSToExecutionChange{Message: ch, Signature: refspec.Sign(WithdrawalKeyBase+k, sp.ComputeSigningRoot(sp.HTR("BLSToExecutionChange", ch.V()), dom))}
		b := &m.B.Message.Body
		if len(b.BLSChanges) > 0 {
			b.BLSChanges[m.Pr.n(len(b.BLSChanges))] = sc
		} else {
			b.BLSChanges = append(b.BLSChanges, sc)
		}
		return true
	}},
	{"BLSCH-DUP", "cd", func(m *MutCtx) bool {
		b := &m.B.Message.Body
		if len(b.BLSChanges) == 0 || uint64(len(b.BLSChanges)) >= m.sp().P.MAX_BLS_TO_EXECUTION_CHANGES {
			return false
		}
		b.BLSChanges = append(b.BLSChanges, b.BLSChanges[0])
		return true
	}},
	// ---------------------------------------------------------------- sync aggregate
	{"SYNC-WRONG-ROOT", "abcd", func(m *MutCtx) bool {
		sp := m.sp()
		ks, _ := m.syncKeysAndRoot()
		if len(ks) == 0 {
			return false
		}
		r := m.Pr.root()
		dom := sp.GetDomain(m.Pre, refspec.DOMAIN_SYNC_COMMITTEE, sp.EpochAtSlot(m.B.Message.Slot-1))
		m.B.Message.Body.SyncAggregate.Signature = refspec.AggregateSign(ks, sp.ComputeSigningRoot(r, dom))
		return true
	}},
	{"SYNC-EXTRA-BIT", "abcd", func(m *MutCtx) bool {
		sa := &m.B.Message.Body.SyncAggregate
		for i := range sa.Bits {
			if !sa.Bits[i] {
				sa.Bits[i] = true
				return true
			}
		}
		return false
	}},
	{"SYNC-WRONGDOMAIN", "abcd", func(m *MutCtx) bool {
		sp := m.sp()
		ks, root := m.syncKeysAndRoot()
		if len(ks) == 0 {
			return false
		}
		dom := sp.GetDomain(m.Pre, refspec.DOMAIN_BEACON_ATTESTER, sp.EpochAtSlot(m.B.Message.Slot-1))
		m.B.Message.Body.SyncAggregate.Signature = refspec.AggregateSign(ks, sp.ComputeSigningRoot(root, dom))
		return true
	}},
	{"SYNC-EMPTY-NONINF", "abcd", func(m *MutCtx) bool {
		sa := &m.B.Message.Body.SyncAggregate
		for i := range sa.Bits {
			sa.Bits[i] = false
		}
		sa.Signature = refspec.Sign(5, m.Pr.root())
		return true
	}},
	{"SYNC-EMPTY-INF", "abcd", func(m *MutCtx) bool {
		sa := &m.B.Message.Body.SyncAggregate
		for i := range sa.Bits {
			sa.Bits[i] = false
		}
		sa.Signature = refspec.G2PointAtInfinity
		m.Benign = true
		return true
	}},
	// ---------------------------------------------------------------- execution payload
	{"PAY-PARENT-HASH", "bcd", func(m *MutCtx) bool {
		if !payloadPresent(m) || (m.Pre.Fork == refspec.Bellatrix && !m.sp().IsMergeTransitionComplete(m.Pre)) {
			return false
		}
		flip(&m.B.Message.Body.ExecutionPayload.ParentHash)
		return true
	}},
	{"PAY-PREV-RANDAO", "bcd", func(m *MutCtx) bool {
		if !payloadPresent(m) {
			return false
		}
		flip(&m.B.Message.Body.ExecutionPayload.PrevRandao)
		return true
	}},
	{"PAY-TIMESTAMP", "bcd", func(m *MutCtx) bool {
		if !payloadPresent(m) {
			return false
		}
		p := &m.B.Message.Body.ExecutionPayload
		if m.Pr.pm(500) {
			p.Timestamp += m.sp().P.SECONDS_PER_SLOT
		} else {
			p.Timestamp--
		}
		return true
	}},
	{"PAY-WD-COUNT", "cd", func(m *MutCtx) bool {
		p := &m.B.Message.Body.ExecutionPayload
		if len(p.Withdrawals) > 0 && m.Pr.pm(500) {
			p.Withdrawals = p.Withdrawals[:len(p.Withdrawals)-1]
			return true
		}
		if uint64(len(p.Withdrawals)) >= m.sp().P.MAX_WITHDRAWALS_PER_PAYLOAD {
			return false
		}
		p.Withdrawals = append(p.Withdrawals, refspec.Withdrawal{Index: m.Pre.NextWithdrawalIndex + uint64(len(p.Withdrawals)), ValidatorIndex: 0, Amount: 1})
		return true
	}},
	{"PAY-WD-FIELD", "cd", func(m *MutCtx) bool {
		p := &m.B.Message.Body.ExecutionPayload
		if len(p.Withdrawals) == 0 {
			return false
		}
		w := &p.Withdrawals[m.Pr.n(len(p.Withdrawals))]
		switch m.Pr.n(4) {
		case 0:
			w.Index++
		case 1:
			w.ValidatorIndex++
		case 2:
			w.Address[3] ^= 1
		default:
			w.Amount++
		}
		return true
	}},
	{"PAY-WD-ORDER", "cd", func(m *MutCtx) bool {
		p := &m.B.Message.Body.ExecutionPayload
		if len(p.Withdrawals) < 2 {
			return false
		}
		p.Withdrawals[0], p.Withdrawals[1] = p.Withdrawals[1], p.Withdrawals[0]
		return true
	}},
	// One conjunct of is_fully_withdrawable_validator / is_partially_withdrawable_validator (or the sweep
	// bound) relaxed at a time: the payload carries the withdrawals a library that forgot that conjunct
	// would expect. Applicable only when some validator in the sweep window sits in the gap.
	{"PAY-WD-PARTIAL-LOW-EB", "cd", func(m *MutCtx) bool { return mutRelaxedWithdrawals(m, "partial-eb") }},
	{"PAY-WD-PARTIAL-NOCRED", "cd", func(m *MutCtx) bool { return mutRelaxedWithdrawals(m, "partial-cred") }},
	{"PAY-WD-PARTIAL-AT-MAX", "cd", func(m *MutCtx) bool { return mutRelaxedWithdrawals(m, "partial-ge") }},
	{"PAY-WD-FULL-EARLY", "cd", func(m *MutCtx) bool { return mutRelaxedWithdrawals(m, "full-epoch") }},
	{"PAY-WD-FULL-NOCRED", "cd", func(m *MutCtx) bool { return mutRelaxedWithdrawals(m, "full-cred") }},
	{"PAY-WD-SWEEP-PLUS-ONE", "cd", func(m *MutCtx) bool { return mutRelaxedWithdrawals(m, "sweep+1") }},
	{"PAY-BLOBS-OVER", "d", func(m *MutCtx) bool {
		b := &m.B.Message.Body
		for uint64(len(b.BlobCommitments)) <= m.sp().P.MAX_BLOBS_PER_BLOCK {
			var cm [48]byte
			copy(cm[:], m.Pr.bytes(48))
			b.BlobCommitments = append(b.BlobCommitments, cm)
		}
		return true
	}},
	{"PAY-BENIGN-FIELD", "bcd", func(m *MutCtx) bool {
		if !payloadPresent(m) {
			return false
		}
		p := &m.B.Message.Body.ExecutionPayload
		p.GasUsed++
		flip(&p.StateRoot)
		m.Benign = true
		return true
	}},
	{"GRAFFITI-BENIGN", "pabcd", func(m *MutCtx) bool { m.B.Message.Body.Graffiti[0] ^= 0xff; m.Benign = true; return true }},
}

// relaxedWithdrawals is get_expected_withdrawals with exactly one condition relaxed (variant).
func relaxedWithdrawals(sp *refspec.Spec, s *refspec.State, variant string) []refspec.Withdrawal {
	epoch := sp.CurrentEpoch(s)
	wi, vi := s.NextWithdrawalIndex, s.NextWithdrawalValidatorIndex
	n := uint64(len(s.Validators))
	bound := n
	if sp.P.MAX_VALIDATORS_PER_WITHDRAWALS_SWEEP < bound {
		bound = sp.P.MAX_VALIDATORS_PER_WITHDRAWALS_SWEEP
		if variant == "sweep+1" {
			bound++
		}
	}
	max := sp.P.MAX_EFFECTIVE_BALANCE
	var out []refspec.Withdrawal
	for k := uint64(0); k < bound; k++ {
		v := &s.Validators[vi]
		bal := s.Balances[vi]
		cred := v.WithdrawalCredentials[0] == refspec.ETH1_ADDRESS_WITHDRAWAL_PREFIX
		var addr [20]byte
		copy(addr[:], v.WithdrawalCredentials[12:])
		full := (cred || variant == "full-cred") && (v.WithdrawableEpoch <= epoch || (variant == "full-epoch" && v.WithdrawableEpoch <= epoch+1)) && bal > 0
		partial := (cred || variant == "partial-cred") && (v.EffectiveBalance == max || variant == "partial-eb") && (bal > max || (variant == "partial-ge" && bal == max))
		if full {
			out = append(out, refspec.Withdrawal{Index: wi, ValidatorIndex: vi, Address: addr, Amount: bal})
			wi++
		} else if partial {
			out = append(out, refspec.Withdrawal{Index: wi, ValidatorIndex: vi, Address: addr, Amount: bal - max})
			wi++
		}
		if uint64(len(out)) == sp.P.MAX_WITHDRAWALS_PER_PAYLOAD {
			break
		}
		vi = (vi + 1) % n
	}
	return out
}

func mutRelaxedWithdrawals(m *MutCtx, variant string) bool {
	if !payloadPresent(m) || len(m.Pre.Validators) == 0 {
		return false
	}
	sp := m.sp()
	want := sp.ExpectedWithdrawals(m.Pre)
	got := relaxedWithdrawals(sp, m.Pre, variant)
	if len(want) == len(got) {
		same := true
		for i := range want {
			same = same && want[i] == got[i]
		}
		if same {
			return false
		}
	}
	m.B.Message.Body.ExecutionPayload.Withdrawals = got
	return true
}

func payloadPresent(m *MutCtx) bool {
	if m.Pre.Fork < refspec.Bellatrix {
		return false
	}
	p := &m.B.Message.Body.ExecutionPayload
	return !(p.BlockHash == Root{} && p.Timestamp == 0 && p.BlockNumber == 0)
}

func mutAtt(m *MutCtx, f func(a *refspec.Attestation) bool, resign bool) bool {
	b := &m.B.Message.Body
	if len(b.Attestations) == 0 {
		return false
	}
	a := &b.Attestations[m.Pr.n(len(b.Attestations))]
	keys := m.attKeys(a)
	if !f(a) {
		return false
	}
	if resign {
		// keep the aggregate signature valid for the changed data, so that the data check is what rejects
		m.signAtt(a, keys, refspec.DOMAIN_BEACON_ATTESTER)
	}
	return true
}

func mutASL(m *MutCtx, f func(s *refspec.AttesterSlashing) bool) bool {
	b := &m.B.Message.Body
	if len(b.AttesterSlashings) == 0 {
		return false
	}
	return f(&b.AttesterSlashings[m.Pr.n(len(b.AttesterSlashings))])
}

func signHeader(m *MutCtx, h *refspec.SignedBeaconBlockHeader, key uint64) {
	sp := m.sp()
	dom := sp.GetDomain(m.Pre, refspec.DOMAIN_BEACON_PROPOSER, sp.EpochAtSlot(h.Message.Slot))
	h.Signature = refspec.Sign(key, sp.ComputeSigningRoot(sp.HeaderRoot(&h.Message), dom))
}

func unslashableNotYetActive(v *refspec.Validator, epoch uint64) bool {
	return !v.Slashed && v.ActivationEpoch > epoch
}
func unslashableWithdrawable(v *refspec.Validator, epoch uint64) bool {
	return !v.Slashed && v.WithdrawableEpoch <= epoch
}
func unslashableSlashed(v *refspec.Validator, epoch uint64) bool {
	return v.Slashed && v.ActivationEpoch <= epoch && epoch < v.WithdrawableEpoch
}

// pickValidator returns a validator (with a known key) satisfying pred, preferring — for the
// not-yet-active class — those already eligible for activation (eligibility epoch reached).
func pickValidator(m *MutCtx, pred func(v *refspec.Validator, epoch uint64) bool) (uint64, uint64, bool) {
	epoch := m.sp().CurrentEpoch(m.Pre)
	var cand, pref []uint64
	for i := range m.Pre.Validators {
		v := &m.Pre.Validators[i]
		if _, ok := m.keyOfValidator(uint64(i)); !ok || !pred(v, epoch) {
			continue
		}
		cand = append(cand, uint64(i))
		if v.ActivationEligibilityEpoch <= epoch {
			pref = append(pref, uint64(i))
		}
	}
	if len(pref) > 0 && m.Pr.pm(700) {
		cand = pref
	}
	if len(cand) == 0 {
		return 0, 0, false
	}
	vi := cand[m.Pr.n(len(cand))]
	k, _ := m.keyOfValidator(vi)
	return vi, k, true
}

func insertPSL(m *MutCtx, pred func(v *refspec.Validator, epoch uint64) bool) bool {
	vi, k, ok := pickValidator(m, pred)
	if !ok {
		return false
	}
	h1 := refspec.BeaconBlockHeader{Slot: m.B.Message.Slot, ProposerIndex: vi, ParentRoot: m.Pr.root(), StateRoot: m.Pr.root(), BodyRoot: m.Pr.root()}
	h2 := h1
	h2.BodyRoot = m.Pr.root()
	ps := refspec.ProposerSlashing{H1: refspec.SignedBeaconBlockHeader{Message: h1}, H2: refspec.SignedBeaconBlockHeader{Message: h2}}
	signHeader(m, &ps.H1, k)
	signHeader(m, &ps.H2, k)
	b := &m.B.Message.Body
	if len(b.ProposerSlashings) > 0 {
		b.ProposerSlashings[m.Pr.n(len(b.ProposerSlashings))] = ps
	} else {
		b.ProposerSlashings = append(b.ProposerSlashings, ps)
	}
	return true
}

func insertASL(m *MutCtx, pred func(v *refspec.Validator, epoch uint64) bool) bool {
	vi, _, ok := pickValidator(m, pred)
	if !ok {
		return false
	}
	sp := m.sp()
	epoch := sp.CurrentEpoch(m.Pre)
	d1 := refspec.AttestationData{Slot: sp.StartSlotAtEpoch(epoch), BeaconBlockRoot: m.Pr.root(), Source: refspec.Checkpoint{Epoch: epoch / 2, Root: m.Pr.root()}, Target: refspec.Checkpoint{Epoch: epoch, Root: m.Pr.root()}}
	d2 := d1
	d2.BeaconBlockRoot = m.Pr.root()
	as := refspec.AttesterSlashing{A1: refspec.IndexedAttestation{Indices: []uint64{vi}, Data: d1}, A2: refspec.IndexedAttestation{Indices: []uint64{vi}, Data: d2}}
	m.signIndexed(&as.A1)
	m.signIndexed(&as.A2)
	b := &m.B.Message.Body
	if len(b.AttesterSlashings) > 0 {
		b.AttesterSlashings[m.Pr.n(len(b.AttesterSlashings))] = as
	} else {
		b.AttesterSlashings = append(b.AttesterSlashings, as)
	}
	return true
}

func mutPSL(m *MutCtx, f func(s *refspec.ProposerSlashing, key uint64) bool) bool {
	b := &m.B.Message.Body
	if len(b.ProposerSlashings) == 0 {
		return false
	}
	s := &b.ProposerSlashings[m.Pr.n(len(b.ProposerSlashings))]
	k, ok := m.keyOfValidator(s.H1.Message.ProposerIndex)
	if !ok {
		return false
	}
	return f(s, k)
}

func mutExit(m *MutCtx, f func(e *refspec.SignedVoluntaryExit, key uint64) bool) bool {
	b := &m.B.Message.Body
	if len(b.VoluntaryExits) == 0 {
		return false
	}
	e := &b.VoluntaryExits[m.Pr.n(len(b.VoluntaryExits))]
	k, ok := m.keyOfValidator(e.Message.ValidatorIndex)
	if !ok {
		return false
	}
	return f(e, k)
}

func mutBLS(m *MutCtx, f func(c *refspec.SignedBLSToExecutionChange) bool) bool {
	b := &m.B.Message.Body
	if len(b.BLSChanges) == 0 {
		return false
	}
	return f(&b.BLSChanges[m.Pr.n(len(b.BLSChanges))])
}

// CatalogueIDs lists the ids applicable to a fork.
func CatalogueIDs(fork int) []string {
	var out []string
	for _, mu := range Catalogue {
		if containsFork(mu.Forks, fork) {
			out = append(out, mu.ID)
		}
	}
	sort.Strings(out)
	return out
}

func containsFork(forks string, fork int) bool {
	for _, c := range forks {
		if byte(c) == "pabcd"[fork] {
			return true
		}
	}
	return false
}

// Mutate applies catalogue entry `id` to a copy of sb. head = reference head state, pre = head
// advanced to the block's slot. Returns nil if the entry does not apply to this block.
func (c *Chain) Mutate(id string, seed uint64, sb *refspec.SignedBlock, head, pre *refspec.State) (outB *refspec.SignedBlock, outM *MutCtx) {
	var mu *Mutation
	for i := range Catalogue {
		if Catalogue[i].ID == id {
			mu = &Catalogue[i]
		}
	}
	if mu == nil || !containsFork(mu.Forks, sb.Message.Fork) {
		return nil, nil
	}
	m := &MutCtx{C: c, Pre: pre, Head: head, B: copyBlock(sb), Pr: &prng{seed}}
	outB, outM = m.B, m // also the result when re-rooting is cut short by an over-limit list
	applied := false
	func() {
		defer func() {
			if p := recover(); p != nil {
				if _, ok := p.(refspec.Invalid); ok {
					applied = false
					return
				}
				panic(p)
			}
		}()
		applied = mu.Apply(m)
	}()
	if !applied {
		return nil, nil
	}
	sp := c.Sp
	blk := &m.B.Message
	defer func() {
		// a block with a list over its limit has no root: it stays as it is (unsigned content change)
		if p := recover(); p != nil {
			if _, ok := p.(refssz.LimitError); !ok {
				panic(p)
			}
		}
	}()
	if !m.KeepStateRoot {
		tmp := pre.Copy()
		if err := sp.ProcessBlockOnly(tmp, blk); err == nil {
			blk.StateRoot = sp.StateRoot(tmp)
		}
	}
	if !m.KeepSignature {
		var key uint64
		if m.SignerKey != nil {
			key = *m.SignerKey
		} else if k, ok := m.keyOfValidator(sb.Message.ProposerIndex); ok {
			key = k
		}
		sr := sp.ComputeSigningRoot(sp.BlockRoot(blk), sp.GetDomainNow(pre, refspec.DOMAIN_BEACON_PROPOSER))
		m.B.Signature = refspec.Sign(key, sr)
	}
	return m.B, m
}

// ResignAll re-signs every signature inside the block (randao reveal, slashing headers and votes,
// attestations, exits, credential changes, sync aggregate) with the keys of whoever the — possibly
// corrupted — fields name, on the state `pre` (the reference state advanced to the block's slot), and
// finally the block itself with the named proposer's key. Parts whose signers cannot be determined
// (committee of an impossible slot, unknown validator) keep their signature. Deposits carry a proof of
// possession checked against the deposit's own pubkey and are left alone.
// The byte-level differential (C03) uses this to let arbitrary field edits reach the semantic checks.
func ResignAll(c *Chain, pre *refspec.State, sb *refspec.SignedBlock) {
	m := &MutCtx{C: c, Pre: pre, B: sb, Pr: &prng{1}}
	sp := c.Sp
	b := &sb.Message.Body
	try := func(f func()) {
		defer func() { recover() }()
		f()
	}
	pk, pok := m.keyOfValidator(sb.Message.ProposerIndex)
	if pok {
		try(func() {
			epoch := sp.EpochAtSlot(sb.Message.Slot)
			b.RandaoReveal = refspec.Sign(pk, sp.ComputeSigningRoot(sp.HTR("Epoch", epoch), sp.GetDomainNow(pre, refspec.DOMAIN_RANDAO)))
		})
	}
	for i := range b.ProposerSlashings {
		ps := &b.ProposerSlashings[i]
		for _, h := range []*refspec.SignedBeaconBlockHeader{&ps.H1, &ps.H2} {
			h := h
			if k, ok := m.keyOfValidator(h.Message.ProposerIndex); ok {
				try(func() { signHeader(m, h, k) })
			}
		}
	}
	for i := range b.AttesterSlashings {
		as := &b.AttesterSlashings[i]
		try(func() { m.signIndexed(&as.A1) })
		try(func() { m.signIndexed(&as.A2) })
	}
	for i := range b.Attestations {
		a := &b.Attestations[i]
		try(func() {
			if ks := m.attKeys(a); len(ks) > 0 {
				m.signAtt(a, ks, refspec.DOMAIN_BEACON_ATTESTER)
			}
		})
	}
	for i := range b.VoluntaryExits {
		e := &b.VoluntaryExits[i]
		if k, ok := m.keyOfValidator(e.Message.ValidatorIndex); ok {
			try(func() { m.signExit(e, k, m.exitDomain(&e.Message)) })
		}
	}
	for i := range b.BLSChanges {
		ch := &b.BLSChanges[i]
		if k, ok := m.keyOfValidator(ch.Message.ValidatorIndex); ok && ch.Message.FromBLSPubkey == refspec.KeyPubkey(WithdrawalKeyBase+k) {
			try(func() {
				dom := sp.ComputeDomain(refspec.DOMAIN_BLS_TO_EXECUTION_CHANGE, sp.P.ForkVersions[refspec.Phase0], pre.GenesisValidatorsRoot)
				ch.Signature = refspec.Sign(WithdrawalKeyBase+k, sp.ComputeSigningRoot(sp.HTR("BLSToExecutionChange", ch.Message.V()), dom))
			})
		}
	}
	if pre.Fork >= refspec.Altair && sb.Message.Slot > 0 && len(b.SyncAggregate.Bits) == len(pre.CurrentSyncCommittee.Pubkeys) {
		try(func() {
			ks, root := m.syncKeysAndRoot()
			if len(ks) == 0 {
				b.SyncAggregate.Signature = refspec.G2PointAtInfinity
				return
			}
			dom := sp.GetDomain(pre, refspec.DOMAIN_SYNC_COMMITTEE, sp.EpochAtSlot(sb.Message.Slot-1))
			b.SyncAggregate.Signature = refspec.AggregateSign(ks, sp.ComputeSigningRoot(root, dom))
		})
	}
	if pok {
		try(func() {
			sb.Signature = refspec.Sign(pk, sp.ComputeSigningRoot(sp.BlockRoot(&sb.Message), sp.GetDomainNow(pre, refspec.DOMAIN_BEACON_PROPOSER)))
		})
	}
}
