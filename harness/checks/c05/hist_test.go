package c05

// Part (b): mutation histories on tree-backed beacon states, judged against a plain-value model.

import (
	"bytes"
	"context"
	"encoding/hex"
	"fmt"
	"sort"
	"strings"
	"testing"

	"github.com/protolambda/zrnt/eth2/beacon/altair"
	"github.com/protolambda/zrnt/eth2/beacon/bellatrix"
	"github.com/protolambda/zrnt/eth2/beacon/capella"
	"github.com/protolambda/zrnt/eth2/beacon/common"
	"github.com/protolambda/zrnt/eth2/beacon/deneb"
	"github.com/protolambda/zrnt/eth2/beacon/electra"
	"github.com/protolambda/zrnt/eth2/beacon/phase0"
	"github.com/protolambda/ztyp/codec"
	"github.com/protolambda/ztyp/view"
	"pgregory.net/rapid"

	"zrntverif/checks/c04/reg"
	"zrntverif/refssz"
	"zrntverif/report"
)

// Action is one step of a history. Selectors are resolved at run time against the current
// content (index = U mod length), so the generator needs no knowledge of the state.
type Action struct {
	Op  string   `json:"op"`
	On  int      `json:"on"` // handle selector (mod number of live copies)
	U   []uint64 `json:"u,omitempty"`
	Hex []string `json:"hex,omitempty"` // SSZ bytes of struct/root arguments
	// Near > 0 (setters of container-typed fields): the value written is the CURRENT value of the field with exactly
	// its (Near-1 mod #fields)-th field changed (an update that corrects one field), instead of Hex[0]
	Near uint64 `json:"near,omitempty"`
}

func (a *Action) u(i int) uint64 {
	if i < len(a.U) {
		return a.U[i]
	}
	return 0
}

func (a *Action) bytes(i int) []byte {
	if i < len(a.Hex) {
		b, _ := hex.DecodeString(a.Hex[i])
		return b
	}
	return nil
}

// stateAPI is the part of the state interface the histories drive (all six forks implement it).
type stateAPI interface {
	view.View
	SetGenesisTime(t common.Timestamp) error
	SetGenesisValidatorsRoot(r common.Root) error
	SetSlot(slot common.Slot) error
	SetFork(f common.Fork) error
	SetLatestBlockHeader(v *common.BeaconBlockHeader) error
	BlockRoots() (common.BatchRoots, error)
	StateRoots() (common.BatchRoots, error)
	HistoricalRoots() (common.HistoricalRoots, error)
	SetEth1Data(v common.Eth1Data) error
	Eth1DataVotes() (common.Eth1DataVotes, error)
	IncrementDepositIndex() error
	Validators() (common.ValidatorRegistry, error)
	Balances() (common.BalancesRegistry, error)
	SetBalances(balances []common.Gwei) error
	AddValidator(spec *common.Spec, pub common.BLSPubkey, withdrawalCreds common.Root, balance common.Gwei) error
	RandaoMixes() (common.RandaoMixes, error)
	SeedRandao(spec *common.Spec, seed common.Root) error
	Slashings() (common.Slashings, error)
	JustificationBits() (common.JustificationBits, error)
	SetJustificationBits(bits common.JustificationBits) error
	SetPreviousJustifiedCheckpoint(c common.Checkpoint) error
	SetCurrentJustifiedCheckpoint(c common.Checkpoint) error
	SetFinalizedCheckpoint(c common.Checkpoint) error
	CopyState() (common.BeaconState, error)
	Get(i uint64) (view.View, error)
	Set(i uint64, v view.View) error
}

type altairAPI interface {
	PreviousEpochParticipation() (*altair.ParticipationRegistryView, error)
	CurrentEpochParticipation() (*altair.ParticipationRegistryView, error)
	InactivityScores() (*altair.InactivityScoresView, error)
	SetCurrentSyncCommittee(v *common.SyncCommitteeView) error
	SetNextSyncCommittee(v *common.SyncCommitteeView) error
	RotateSyncCommittee(next *common.SyncCommitteeView) error
}

type capellaAPI interface {
	SetNextWithdrawalIndex(nextIndex common.WithdrawalIndex) error
	IncrementNextWithdrawalIndex() error
	SetNextWithdrawalValidatorIndex(nextValidator common.ValidatorIndex) error
	HistoricalSummaries() (capella.HistoricalSummariesList, error)
}

type electraAPI interface {
	SetDepositRequestsStartIndex(v view.Uint64View) error
	SetDepositBalanceToConsume(v common.Gwei) error
	SetExitBalanceToConsume(v common.Gwei) error
	SetEarliestExitEpoch(v common.Epoch) error
	SetConsolidationBalanceToConsume(v common.Gwei) error
	SetEarliestConsolidationEpoch(v common.Epoch) error
}

type phase0AttAPI interface {
	PreviousEpochAttestations() (*phase0.PendingAttestationsView, error)
	CurrentEpochAttestations() (*phase0.PendingAttestationsView, error)
}

// ---------------------------------------------------------------- model

type model struct {
	t *refssz.Type
	v []any
}

func (m *model) idx(name string) int {
	i := m.t.FieldIndex(name)
	if i < 0 {
		panic("model: no field " + name)
	}
	return i
}
func (m *model) get(name string) any         { return m.v[m.idx(name)] }
func (m *model) set(name string, x any)      { m.v[m.idx(name)] = x }
func (m *model) list(name string) []any      { return m.v[m.idx(name)].([]any) }
func (m *model) ft(name string) *refssz.Type { return m.t.Fields[m.idx(name)].T }
func (m *model) clone() *model {
	return &model{t: m.t, v: refssz.Clone(m.t, m.v).([]any)}
}

type handle struct {
	st stateAPI
	m  *model
}

// outcome of applying an action to the model
type outcome struct {
	wantErr bool // the library must return an error (precondition of the operation not met)
	big     bool // touched a list/vector spanning more than one chunk
	noop    bool // op not applicable to this fork: skipped on both sides
	near    bool // the value written was the current one with a single field changed
}

type hctx struct {
	spec  *common.Spec
	p     *reg.Preset
	fork  string
	forkI int
	td    *view.ContainerTypeDef
}

func dec(t *refssz.Type, b []byte) any {
	v, err := refssz.Deserialize(t, b)
	if err != nil {
		panic(fmt.Sprintf("harness: action argument is not a valid %s: %v", t, err))
	}
	return v
}

func chunksOf(t *refssz.Type, n int) int {
	if t.Elem != nil && t.Elem.Kind == refssz.KUint {
		return (n*t.Elem.Bits/8 + 31) / 32
	}
	return n
}

func root32(b []byte) (r common.Root) { copy(r[:], b); return }

func dr(b []byte) *codec.DecodingReader {
	return codec.NewDecodingReader(bytes.NewReader(b), uint64(len(b)))
}

// listFields returns the indices of the state's list-typed fields (schema order).
func listFields(t *refssz.Type) []int {
	var out []int
	for i, f := range t.Fields {
		if f.T.Kind == refssz.KList {
			out = append(out, i)
		}
	}
	return out
}

// nearFields: setters that take a whole container -> the state field they write.
var nearFields = map[string]string{
	"SetLatestExecutionPayloadHeader": "latest_execution_payload_header",
	"SetPreviousJustifiedCheckpoint":  "previous_justified_checkpoint",
	"SetCurrentJustifiedCheckpoint":   "current_justified_checkpoint",
	"SetFinalizedCheckpoint":          "finalized_checkpoint",
	"SetFork":                         "fork",
	"SetEth1Data":                     "eth1_data",
	"SetLatestBlockHeader":            "latest_block_header",
}

// apply executes one action on the library state and on the model. It returns the outcome
// the model predicts and the library's error.
func apply(hc *hctx, h *handle, a *Action) (out outcome, lerr error) {
	m, st, spec := h.m, h.st, hc.spec
	cfg := hc.p.Cfg.U
	setU := func(name string, libf func() error) {
		m.set(name, a.u(0))
		lerr = libf()
	}
	vecSet := func(name string, i uint64, val any) {
		l := m.list(name)
		l[i%uint64(len(l))] = val
		out.big = out.big || chunksOf(m.ft(name), len(l)) > 1
	}
	// appendTo appends to a model list if below its limit; reports whether there was room
	appendTo := func(name string, val any) bool {
		l := m.list(name)
		if uint64(len(l)) >= m.ft(name).N {
			return false
		}
		m.set(name, append(l, val))
		out.big = out.big || chunksOf(m.ft(name), len(l)+1) > 1
		return true
	}
	altairPlus := hc.forkI >= 1
	if fname, ok := nearFields[a.Op]; ok && a.Near > 0 && m.t.FieldIndex(fname) >= 0 && len(a.Hex) > 0 {
		if cur, isC := m.get(fname).([]any); isC && m.ft(fname).Kind == refssz.KContainer {
			b := *a
			b.Hex = append([]string{hex.EncodeToString(refssz.Serialize(m.ft(fname), refssz.NearValue(m.ft(fname), cur, a.Near-1)))}, a.Hex[min(1, len(a.Hex)):]...)
			a = &b
			out.near = true
		}
	}
	switch a.Op {
	case "SetGenesisTime":
		setU("genesis_time", func() error { return st.SetGenesisTime(common.Timestamp(a.u(0))) })
	case "SetGenesisValidatorsRoot":
		m.set("genesis_validators_root", a.bytes(0))
		lerr = st.SetGenesisValidatorsRoot(root32(a.bytes(0)))
	case "SetSlot":
		setU("slot", func() error { return st.SetSlot(common.Slot(a.u(0))) })
	case "SetFork":
		m.set("fork", dec(m.ft("fork"), a.bytes(0)))
		var f common.Fork
		if lerr = f.Deserialize(dr(a.bytes(0))); lerr == nil {
			lerr = st.SetFork(f)
		}
	case "SetLatestBlockHeader":
		m.set("latest_block_header", dec(m.ft("latest_block_header"), a.bytes(0)))
		var hd common.BeaconBlockHeader
		if lerr = hd.Deserialize(dr(a.bytes(0))); lerr == nil {
			lerr = st.SetLatestBlockHeader(&hd)
			// the caller keeps using its struct (the usual "fill in the state root, hash again" pattern): the
			// state must hold a copy — leaves aliasing this memory would change under cached hashes
			hd = common.BeaconBlockHeader{Slot: ^common.Slot(0), ProposerIndex: 0x5c5c5c5c, ParentRoot: common.Root{0: 0x5c, 31: 0x5c}, StateRoot: common.Root{1: 0x5c}, BodyRoot: common.Root{2: 0x5c}}
		}
	case "SetEth1Data":
		m.set("eth1_data", dec(m.ft("eth1_data"), a.bytes(0)))
		var d common.Eth1Data
		if lerr = d.Deserialize(dr(a.bytes(0))); lerr == nil {
			lerr = st.SetEth1Data(d)
		}
	case "IncrementDepositIndex":
		m.set("eth1_deposit_index", m.get("eth1_deposit_index").(uint64)+1)
		lerr = st.IncrementDepositIndex()
	case "SetBlockRoot", "SetStateRoot":
		name := map[string]string{"SetBlockRoot": "block_roots", "SetStateRoot": "state_roots"}[a.Op]
		vecSet(name, a.u(0), a.bytes(0))
		var br common.BatchRoots
		if a.Op == "SetBlockRoot" {
			br, lerr = st.BlockRoots()
		} else {
			br, lerr = st.StateRoots()
		}
		if lerr == nil {
			lerr = br.SetRoot(common.Slot(a.u(0)), root32(a.bytes(0)))
		}
	case "AppendHistoricalRoot":
		out.wantErr = !appendTo("historical_roots", a.bytes(0))
		var hr common.HistoricalRoots
		if hr, lerr = st.HistoricalRoots(); lerr == nil {
			lerr = hr.Append(root32(a.bytes(0)))
		}
	case "AppendEth1Vote":
		out.wantErr = !appendTo("eth1_data_votes", dec(m.ft("eth1_data"), a.bytes(0)))
		var d common.Eth1Data
		if lerr = d.Deserialize(dr(a.bytes(0))); lerr == nil {
			var votes common.Eth1DataVotes
			if votes, lerr = st.Eth1DataVotes(); lerr == nil {
				lerr = votes.Append(d)
			}
		}
	case "ResetEth1Votes":
		m.set("eth1_data_votes", []any{})
		var votes common.Eth1DataVotes
		if votes, lerr = st.Eth1DataVotes(); lerr == nil {
			lerr = votes.Reset()
		}
	case "ValSet":
		// U: index selector, field selector, value; Hex[0]: withdrawal credentials
		vals := m.list("validators")
		var i uint64
		if len(vals) == 0 {
			out.wantErr = true
		} else {
			i = a.u(0) % uint64(len(vals))
			out.big = true
		}
		vt := m.ft("validators").Elem
		fieldNames := []string{"effective_balance", "slashed", "activation_eligibility_epoch", "activation_epoch", "exit_epoch", "withdrawable_epoch", "withdrawal_credentials"}
		fname := fieldNames[a.u(1)%uint64(len(fieldNames))]
		if !out.wantErr {
			vv := vals[i].([]any)
			switch fname {
			case "slashed":
				vv[vt.FieldIndex(fname)] = true
			case "withdrawal_credentials":
				vv[vt.FieldIndex(fname)] = a.bytes(0)
			default:
				vv[vt.FieldIndex(fname)] = a.u(2)
			}
		}
		var reg common.ValidatorRegistry
		if reg, lerr = st.Validators(); lerr != nil {
			return
		}
		var val common.Validator
		if val, lerr = reg.Validator(common.ValidatorIndex(i)); lerr != nil {
			return
		}
		switch fname {
		case "effective_balance":
			lerr = val.SetEffectiveBalance(common.Gwei(a.u(2)))
		case "slashed":
			lerr = val.MakeSlashed()
		case "activation_eligibility_epoch":
			lerr = val.SetActivationEligibilityEpoch(common.Epoch(a.u(2)))
		case "activation_epoch":
			lerr = val.SetActivationEpoch(common.Epoch(a.u(2)))
		case "exit_epoch":
			lerr = val.SetExitEpoch(common.Epoch(a.u(2)))
		case "withdrawable_epoch":
			lerr = val.SetWithdrawableEpoch(common.Epoch(a.u(2)))
		case "withdrawal_credentials":
			lerr = val.SetWithdrawalCredentials(root32(a.bytes(0)))
		}
	case "AddValidator":
		bal := a.u(0)
		eff := bal - bal%cfg["EFFECTIVE_BALANCE_INCREMENT"]
		if eff > cfg["MAX_EFFECTIVE_BALANCE"] {
			eff = cfg["MAX_EFFECTIVE_BALANCE"]
		}
		far := ^uint64(0)
		val := []any{a.bytes(0), a.bytes(1), eff, false, far, far, far, far}
		// the library appends field by field; the first list without room stops it with an error
		ok := appendTo("validators", val) && appendTo("balances", bal)
		if ok && altairPlus {
			ok = appendTo("previous_epoch_participation", uint64(0)) && appendTo("current_epoch_participation", uint64(0)) && appendTo("inactivity_scores", uint64(0))
		}
		out.wantErr = !ok
		var pub common.BLSPubkey
		copy(pub[:], a.bytes(0))
		lerr = st.AddValidator(spec, pub, root32(a.bytes(1)), common.Gwei(bal))
	case "SetBalance":
		l := m.list("balances")
		var i uint64
		if len(l) == 0 {
			out.wantErr = true
		} else {
			i = a.u(0) % uint64(len(l))
			l[i] = a.u(1)
			out.big = out.big || len(l) > 4
		}
		var b common.BalancesRegistry
		if b, lerr = st.Balances(); lerr == nil {
			lerr = b.SetBalance(common.ValidatorIndex(i), common.Gwei(a.u(1)))
		}
	case "AppendBalance":
		out.wantErr = !appendTo("balances", a.u(0))
		var b common.BalancesRegistry
		if b, lerr = st.Balances(); lerr == nil {
			lerr = b.AppendBalance(common.Gwei(a.u(0)))
		}
	case "SetBalances":
		lim := m.ft("balances").N
		if lim > 70 {
			lim = 70
		}
		n := a.u(0) % (lim + 1)
		vals := make([]any, n)
		lib := make([]common.Gwei, n)
		for k := range vals {
			x := a.u(1)*uint64(k+1) + uint64(k)
			vals[k], lib[k] = x, common.Gwei(x)
		}
		m.set("balances", vals)
		out.big = out.big || n > 4
		lerr = st.SetBalances(lib)
	case "SetRandomMix":
		vecSet("randao_mixes", a.u(0), a.bytes(0))
		var rm common.RandaoMixes
		if rm, lerr = st.RandaoMixes(); lerr == nil {
			lerr = rm.SetRandomMix(common.Epoch(a.u(0)), root32(a.bytes(0)))
		}
	case "SeedRandao":
		l := m.list("randao_mixes")
		for i := range l {
			l[i] = append([]byte{}, a.bytes(0)...)
		}
		out.big = true
		lerr = st.SeedRandao(spec, root32(a.bytes(0)))
	case "AddSlashing", "ResetSlashings":
		l := m.list("slashings")
		i := a.u(0) % uint64(len(l))
		if a.Op == "AddSlashing" {
			l[i] = l[i].(uint64) + a.u(1)
		} else {
			l[i] = uint64(0)
		}
		out.big = out.big || len(l) > 4
		var sl common.Slashings
		if sl, lerr = st.Slashings(); lerr == nil {
			if a.Op == "AddSlashing" {
				lerr = sl.AddSlashing(common.Epoch(a.u(0)), common.Gwei(a.u(1)))
			} else {
				lerr = sl.ResetSlashings(common.Epoch(a.u(0)))
			}
		}
	case "SetJustificationBits":
		bits := make([]bool, 4)
		for i := range bits {
			bits[i] = a.u(0)&(1<<uint(i)) != 0
		}
		m.set("justification_bits", bits)
		lerr = st.SetJustificationBits(common.JustificationBits{byte(a.u(0) & 0x0f)})
	case "ShiftJustificationBits":
		// what process_justification_and_finalization does: read, NextEpoch() (shift, drop the oldest), maybe set bits 0/1, write back
		cur := m.get("justification_bits").([]bool)
		next := []bool{a.u(0)&1 != 0, cur[0] || a.u(0)&2 != 0, cur[1], cur[2]}
		m.set("justification_bits", next)
		var jb common.JustificationBits
		jb, lerr = st.JustificationBits()
		if lerr == nil {
			jb.NextEpoch()
			jb[0] |= byte(a.u(0) & 3)
			lerr = st.SetJustificationBits(jb)
		}
	case "SetPreviousJustifiedCheckpoint", "SetCurrentJustifiedCheckpoint", "SetFinalizedCheckpoint":
		name := map[string]string{"SetPreviousJustifiedCheckpoint": "previous_justified_checkpoint", "SetCurrentJustifiedCheckpoint": "current_justified_checkpoint", "SetFinalizedCheckpoint": "finalized_checkpoint"}[a.Op]
		m.set(name, dec(m.ft(name), a.bytes(0)))
		var c common.Checkpoint
		if lerr = c.Deserialize(dr(a.bytes(0))); lerr != nil {
			return
		}
		switch a.Op {
		case "SetPreviousJustifiedCheckpoint":
			lerr = st.SetPreviousJustifiedCheckpoint(c)
		case "SetCurrentJustifiedCheckpoint":
			lerr = st.SetCurrentJustifiedCheckpoint(c)
		default:
			lerr = st.SetFinalizedCheckpoint(c)
		}

	// ---- altair and later
	case "SetFlags", "FillZeroes":
		ap, ok := st.(altairAPI)
		if !ok {
			out.noop = true
			return
		}
		name := []string{"previous_epoch_participation", "current_epoch_participation"}[a.u(0)&1]
		var pv *altair.ParticipationRegistryView
		if a.u(0)&1 == 0 {
			pv, lerr = ap.PreviousEpochParticipation()
		} else {
			pv, lerr = ap.CurrentEpochParticipation()
		}
		if lerr != nil {
			return
		}
		l := m.list(name)
		if a.Op == "SetFlags" {
			var i uint64
			if len(l) == 0 {
				out.wantErr = true
			} else {
				i = a.u(1) % uint64(len(l))
				l[i] = a.u(2) & 0xff
				out.big = out.big || len(l) > 32
			}
			lerr = pv.SetFlags(common.ValidatorIndex(i), altair.ParticipationFlags(a.u(2)&0xff))
		} else {
			lim := m.ft(name).N
			if lim > 70 {
				lim = 70
			}
			n := a.u(1) % (lim + 1)
			z := make([]any, n)
			for i := range z {
				z[i] = uint64(0)
			}
			m.set(name, z)
			out.big = out.big || n > 32
			lerr = pv.FillZeroes(n)
		}
	case "RotateParticipation":
		if _, ok := st.(altairAPI); !ok {
			out.noop = true
			return
		}
		cur := m.list("current_epoch_participation")
		m.set("previous_epoch_participation", refssz.Clone(m.ft("current_epoch_participation"), cur))
		z := make([]any, len(cur))
		for i := range z {
			z[i] = uint64(0)
		}
		m.set("current_epoch_participation", z)
		out.big = out.big || len(cur) > 32
		lerr = altair.ProcessParticipationFlagUpdates(context.Background(), spec, st.(altair.AltairLikeBeaconState))
	case "SetInactivityScore":
		ap, ok := st.(altairAPI)
		if !ok {
			out.noop = true
			return
		}
		l := m.list("inactivity_scores")
		var i uint64
		if len(l) == 0 {
			out.wantErr = true
		} else {
			i = a.u(0) % uint64(len(l))
			l[i] = a.u(1)
			out.big = out.big || len(l) > 4
		}
		var sv *altair.InactivityScoresView
		if sv, lerr = ap.InactivityScores(); lerr == nil {
			lerr = sv.SetScore(common.ValidatorIndex(i), a.u(1))
		}
	case "SetCurrentSyncCommittee", "SetNextSyncCommittee", "RotateSyncCommittee":
		ap, ok := st.(altairAPI)
		if !ok {
			out.noop = true
			return
		}
		sc := dec(m.ft("next_sync_committee"), a.bytes(0))
		switch a.Op {
		case "SetCurrentSyncCommittee":
			m.set("current_sync_committee", sc)
		case "SetNextSyncCommittee":
			m.set("next_sync_committee", sc)
		default:
			m.set("current_sync_committee", m.get("next_sync_committee"))
			m.set("next_sync_committee", sc)
		}
		out.big = true
		var raw common.SyncCommittee
		if lerr = raw.Deserialize(spec, dr(a.bytes(0))); lerr != nil {
			return
		}
		var scv *common.SyncCommitteeView
		if scv, lerr = raw.View(spec); lerr != nil {
			return
		}
		switch a.Op {
		case "SetCurrentSyncCommittee":
			lerr = ap.SetCurrentSyncCommittee(scv)
		case "SetNextSyncCommittee":
			lerr = ap.SetNextSyncCommittee(scv)
		default:
			lerr = ap.RotateSyncCommittee(scv)
		}

	// ---- bellatrix and later
	case "SetLatestExecutionPayloadHeader":
		if hc.forkI < 2 {
			out.noop = true
			return
		}
		m.set("latest_execution_payload_header", dec(m.ft("latest_execution_payload_header"), a.bytes(0)))
		out.big = true
		switch s := st.(type) {
		case *bellatrix.BeaconStateView:
			var h bellatrix.ExecutionPayloadHeader
			if lerr = h.Deserialize(dr(a.bytes(0))); lerr == nil {
				lerr = s.SetLatestExecutionPayloadHeader(&h)
				h = bellatrix.ExecutionPayloadHeader{ParentHash: common.Root{0: 0x5c}, StateRoot: common.Bytes32{3: 0x5c}, BlockNumber: 0x5c5c, BlockHash: common.Root{9: 0x5c}, TransactionsRoot: common.Root{7: 0x5c}} // scribble over the caller's struct
			}
		case *capella.BeaconStateView:
			var h capella.ExecutionPayloadHeader
			if lerr = h.Deserialize(dr(a.bytes(0))); lerr == nil {
				lerr = s.SetLatestExecutionPayloadHeader(&h)
				h = capella.ExecutionPayloadHeader{ParentHash: common.Root{0: 0x5c}, StateRoot: common.Bytes32{3: 0x5c}, BlockNumber: 0x5c5c, BlockHash: common.Root{9: 0x5c}, TransactionsRoot: common.Root{7: 0x5c}} // scribble over the caller's struct
			}
		case *deneb.BeaconStateView:
			var h deneb.ExecutionPayloadHeader
			if lerr = h.Deserialize(dr(a.bytes(0))); lerr == nil {
				lerr = s.SetLatestExecutionPayloadHeader(&h)
				h = deneb.ExecutionPayloadHeader{ParentHash: common.Root{0: 0x5c}, StateRoot: common.Bytes32{3: 0x5c}, BlockNumber: 0x5c5c, BlockHash: common.Root{9: 0x5c}, TransactionsRoot: common.Root{7: 0x5c}} // scribble over the caller's struct
			}
		case *electra.BeaconStateView:
			var h deneb.ExecutionPayloadHeader
			if lerr = h.Deserialize(dr(a.bytes(0))); lerr == nil {
				lerr = s.SetLatestExecutionPayloadHeader(&h)
				h = deneb.ExecutionPayloadHeader{ParentHash: common.Root{0: 0x5c}, StateRoot: common.Bytes32{3: 0x5c}, BlockNumber: 0x5c5c, BlockHash: common.Root{9: 0x5c}, TransactionsRoot: common.Root{7: 0x5c}} // scribble over the caller's struct
			}
		default:
			lerr = fmt.Errorf("harness: no payload header setter on %T", st)
		}

	// ---- capella and later
	case "SetNextWithdrawalIndex", "IncrementNextWithdrawalIndex", "SetNextWithdrawalValidatorIndex", "AppendHistoricalSummary":
		cp, ok := st.(capellaAPI)
		if !ok {
			out.noop = true
			return
		}
		switch a.Op {
		case "SetNextWithdrawalIndex":
			m.set("next_withdrawal_index", a.u(0))
			lerr = cp.SetNextWithdrawalIndex(common.WithdrawalIndex(a.u(0)))
		case "IncrementNextWithdrawalIndex":
			m.set("next_withdrawal_index", m.get("next_withdrawal_index").(uint64)+1)
			lerr = cp.IncrementNextWithdrawalIndex()
		case "SetNextWithdrawalValidatorIndex":
			m.set("next_withdrawal_validator_index", a.u(0))
			lerr = cp.SetNextWithdrawalValidatorIndex(common.ValidatorIndex(a.u(0)))
		default:
			b := a.bytes(0)
			out.wantErr = !appendTo("historical_summaries", []any{b[:32], b[32:64]})
			var hs capella.HistoricalSummariesList
			if hs, lerr = cp.HistoricalSummaries(); lerr == nil {
				lerr = hs.Append(capella.HistoricalSummary{BlockSummaryRoot: root32(b[:32]), StateSummaryRoot: root32(b[32:64])})
			}
		}

	// ---- electra
	case "SetElectraScalar":
		ep, ok := st.(electraAPI)
		if !ok {
			out.noop = true
			return
		}
		names := []string{"deposit_requests_start_index", "deposit_balance_to_consume", "exit_balance_to_consume", "earliest_exit_epoch", "consolidation_balance_to_consume", "earliest_consolidation_epoch"}
		k := a.u(0) % uint64(len(names))
		m.set(names[k], a.u(1))
		switch k {
		case 0:
			lerr = ep.SetDepositRequestsStartIndex(view.Uint64View(a.u(1)))
		case 1:
			lerr = ep.SetDepositBalanceToConsume(common.Gwei(a.u(1)))
		case 2:
			lerr = ep.SetExitBalanceToConsume(common.Gwei(a.u(1)))
		case 3:
			lerr = ep.SetEarliestExitEpoch(common.Epoch(a.u(1)))
		case 4:
			lerr = ep.SetConsolidationBalanceToConsume(common.Gwei(a.u(1)))
		case 5:
			lerr = ep.SetEarliestConsolidationEpoch(common.Epoch(a.u(1)))
		}

	// ---- phase0 only
	case "AppendAttestation", "RotateAttestations":
		pp, ok := st.(phase0AttAPI)
		if !ok {
			out.noop = true
			return
		}
		if a.Op == "RotateAttestations" {
			cur := m.list("current_epoch_attestations")
			m.set("previous_epoch_attestations", refssz.Clone(m.ft("current_epoch_attestations"), cur))
			m.set("current_epoch_attestations", []any{})
			out.big = out.big || len(cur) > 1
			lerr = phase0.ProcessParticipationRecordUpdates(context.Background(), spec, nil, st.(phase0.Phase0PendingAttestationsBeaconState))
			return
		}
		name := []string{"previous_epoch_attestations", "current_epoch_attestations"}[a.u(0)&1]
		out.wantErr = !appendTo(name, dec(m.ft(name).Elem, a.bytes(0)))
		var pa phase0.PendingAttestation
		if lerr = pa.Deserialize(spec, dr(a.bytes(0))); lerr != nil {
			return
		}
		var pv *phase0.PendingAttestationsView
		if a.u(0)&1 == 0 {
			pv, lerr = pp.PreviousEpochAttestations()
		} else {
			pv, lerr = pp.CurrentEpochAttestations()
		}
		if lerr == nil {
			lerr = pv.Append(pa.View(spec))
		}

	// ---- generic view operations (any field)
	case "GenericSetField":
		i := a.u(0) % uint64(len(m.t.Fields))
		ft := m.t.Fields[i].T
		m.v[i] = dec(ft, a.bytes(0))
		out.big = true
		var nv view.View
		if nv, lerr = reg.DecodeView(hc.td.Fields[i].Type, a.bytes(0)); lerr == nil {
			lerr = st.Set(i, nv)
		}
	case "GenericListAppend", "GenericListPop":
		lf := listFields(m.t)
		i := lf[a.u(0)%uint64(len(lf))]
		name := m.t.Fields[i].Name
		ft := m.t.Fields[i].T
		var fv view.View
		if fv, lerr = st.Get(uint64(i)); lerr != nil {
			return
		}
		if a.Op == "GenericListPop" {
			l := m.list(name)
			if len(l) == 0 {
				out.wantErr = true
			} else {
				m.set(name, l[:len(l)-1])
				out.big = out.big || chunksOf(ft, len(l)) > 1
			}
			switch lv := fv.(type) {
			case *view.ComplexListView:
				lerr = lv.Pop()
			case *view.BasicListView:
				lerr = lv.Pop()
			default:
				lerr = fmt.Errorf("harness: field %s is a %T", name, fv)
			}
			return
		}
		// element = default of the element type with the selector mixed into its first bytes
		eb := refssz.Serialize(ft.Elem, refssz.Default(ft.Elem))
		for k := 0; k < 8 && k < len(eb); k++ {
			if ft.Elem.Kind == refssz.KContainer && ft.Elem.Fields[0].T.Kind == refssz.KBitlist {
				break // variable-size element (pending attestation): keep the default
			}
			eb[k] = byte(a.u(1) >> (8 * uint(k)))
		}
		out.wantErr = !appendTo(name, dec(ft.Elem, eb))
		switch lv := fv.(type) {
		case *view.ComplexListView:
			var ev view.View
			if ev, lerr = reg.DecodeView(lv.ElemType, eb); lerr == nil {
				lerr = lv.Append(ev)
			}
		case *view.BasicListView:
			var ev view.View
			if ev, lerr = reg.DecodeView(lv.ElemType, eb); lerr == nil {
				lerr = lv.Append(ev.(view.BasicView))
			}
		default:
			lerr = fmt.Errorf("harness: field %s is a %T", name, fv)
		}
	default:
		lerr = fmt.Errorf("harness: unknown op %q", a.Op)
	}
	return
}

// ---------------------------------------------------------------- verification

func verify(hc *hctx, h *handle, step int, op string, which string) *report.Failure {
	sigp := "state/" + op
	at := fmt.Sprintf("[%s %s] after action #%d (%s), %s", hc.fork, hc.p.Name, step, op, which)
	var root [32]byte
	var vb []byte
	if err, pan := guard("view root/serialize", func() error {
		root = h.st.HashTreeRoot(hfn)
		var e error
		vb, e = reg.ViewBytes(h.st)
		return e
	}); err != nil {
		return report.Failf(sigp+"/root-or-serialize-error", "%s: %v (panic=%v)", at, err, pan)
	}
	var r2 [32]byte
	if err, pan := guard("rebuild", func() error {
		nv, e := reg.DecodeView(hc.td, vb)
		if e != nil {
			return e
		}
		r2 = nv.HashTreeRoot(hfn)
		return nil
	}); err != nil {
		return report.Failf(sigp+"/own-bytes-not-decodable", "%s: the view's own Serialize() output cannot be decoded: %v (panic=%v)", at, err, pan)
	}
	mb := refssz.Serialize(h.m.t, h.m.v)
	diff := ""
	if !bytes.Equal(vb, mb) {
		diff = refssz.DiffBytes(h.m.t, mb, vb)
	}
	if root != r2 {
		return report.Failf(sigp+"/stale-root", "%s: view.HashTreeRoot() = %x but a view rebuilt from the view's own bytes has root %x (content vs model: %s)", at, root, r2, orSame(diff))
	}
	rv, err := refssz.Deserialize(h.m.t, vb)
	if err != nil {
		return report.Failf(sigp+"/own-bytes-invalid", "%s: the view's bytes are not a valid encoding: %v", at, err)
	}
	if r3 := refssz.HashTreeRoot(h.m.t, rv); r3 != root {
		return report.Failf(sigp+"/root-differs-from-spec", "%s: view root %x, SSZ merkleization of the view's bytes %x", at, root, r3)
	}
	if diff != "" {
		return report.Failf(sigp+"/content-differs-from-model", "%s: content (model vs view): %s", at, diff)
	}
	return nil
}

func orSame(s string) string {
	if s == "" {
		return "same"
	}
	return s
}

type histInfo struct {
	applied, afterCopy, big, errs int
	copyMutateBoth                bool
	kinds                         map[string]bool
}

func runHistory(c *Case) (*report.Failure, *histInfo) {
	info := &histInfo{kinds: map[string]bool{}}
	p := reg.GetPreset(c.Preset)
	fi := reg.ForkIndex(c.Fork)
	if p == nil || fi < 0 {
		return report.Failf("harness", "unknown fork/preset %q/%q", c.Fork, c.Preset), info
	}
	t := p.Sch.MustGet(reg.StateDecl(c.Fork))
	init, err := hex.DecodeString(c.Init)
	if err != nil {
		return report.Failf("harness", "bad init hex"), info
	}
	v0, err := refssz.Deserialize(t, init)
	if err != nil {
		return report.Failf("harness", "initial state bytes invalid: %v", err), info
	}
	hc := &hctx{spec: p.Spec, p: p, fork: c.Fork, forkI: fi, td: reg.StateTypeDef(p.Spec, c.Fork)}
	var st0 view.View
	if err, pan := guard("load", func() error { var e error; st0, e = reg.LoadStateView(p.Spec, c.Fork, init); return e }); err != nil {
		return report.Failf("state/load/error", "[%s %s] TypeDef.Deserialize of a valid state: %v (panic=%v)", c.Fork, c.Preset, err, pan), info
	}
	api, ok := st0.(stateAPI)
	if !ok {
		return report.Failf("harness", "%T does not offer the state API", st0), info
	}
	hs := []*handle{{st: api, m: &model{t: t, v: v0.([]any)}}}
	if f := verify(hc, hs[0], 0, "load", "copy 0"); f != nil {
		return f, info
	}
	mutatedSinceCopy := map[int]bool{}
	copies := 0
	for step, a := range c.Acts {
		a := a
		hi := a.On % len(hs)
		if hi < 0 {
			hi = 0
		}
		h := hs[hi]
		if a.Op == "CopyState" {
			var cp common.BeaconState
			if err, pan := guard("CopyState", func() error { var e error; cp, e = h.st.CopyState(); return e }); err != nil {
				return report.Failf("state/CopyState/error", "[%s %s] step %d: %v (panic=%v)", c.Fork, c.Preset, step+1, err, pan), info
			}
			capi, ok := cp.(stateAPI)
			if !ok {
				return report.Failf("harness", "copy %T does not offer the state API", cp), info
			}
			nh := &handle{st: capi, m: h.m.clone()}
			if len(hs) < 3 {
				hs = append(hs, nh)
			} else {
				hs[1+int(a.u(0)%2)] = nh
			}
			copies++
			mutatedSinceCopy = map[int]bool{}
			info.kinds["CopyState"] = true
		} else {
			before := h.m.clone()
			var out outcome
			var lerr error
			if err, pan := guard(a.Op, func() error { out, lerr = apply(hc, h, &a); return nil }); pan {
				return report.Failf("state/"+a.Op+"/panic", "[%s %s] step %d on copy %d: %v", c.Fork, c.Preset, step+1, hi, err), info
			}
			if out.noop {
				h.m = before
				continue
			}
			if lerr != nil && strings.HasPrefix(lerr.Error(), "harness:") {
				return report.Failf("harness", "%v", lerr), info
			}
			if out.wantErr {
				if lerr == nil {
					return report.Failf("state/"+a.Op+"/no-error", "[%s %s] step %d on copy %d: the operation is not applicable (index out of range / list at its limit) but the library returned no error", c.Fork, c.Preset, step+1, hi), info
				}
				info.errs++
				// the model already holds whatever was applied before the failing step (AddValidator)
			} else if lerr != nil {
				return report.Failf("state/"+a.Op+"/error", "[%s %s] step %d on copy %d: unexpected error: %v", c.Fork, c.Preset, step+1, hi, lerr), info
			} else {
				info.applied++
				info.kinds[a.Op] = true
				if out.big {
					info.big++
				}
				if out.near {
					info.kinds[a.Op+"(near-write)"] = true
				}
				if copies > 0 {
					info.afterCopy++
					mutatedSinceCopy[hi] = true
					if len(mutatedSinceCopy) >= 2 {
						info.copyMutateBoth = true
					}
				}
			}
		}
		for k, hh := range hs {
			if f := verify(hc, hh, step+1, a.Op, fmt.Sprintf("copy %d of %d (action was on copy %d)", k, len(hs), hi)); f != nil {
				if k != hi && a.Op != "CopyState" {
					f.Sig += "(other-copy)"
				}
				return f, info
			}
		}
	}
	return nil, info
}

// ---------------------------------------------------------------- generator

var opWeights = []struct {
	op      string
	w       int
	minFork int
	maxFork int
}{
	{"SetGenesisTime", 1, 0, 5}, {"SetGenesisValidatorsRoot", 1, 0, 5}, {"SetSlot", 2, 0, 5}, {"SetFork", 2, 0, 5},
	{"SetLatestBlockHeader", 2, 0, 5}, {"SetEth1Data", 2, 0, 5}, {"IncrementDepositIndex", 1, 0, 5},
	{"SetBlockRoot", 3, 0, 5}, {"SetStateRoot", 2, 0, 5}, {"AppendHistoricalRoot", 3, 0, 5},
	{"AppendEth1Vote", 3, 0, 5}, {"ResetEth1Votes", 1, 0, 5}, {"ValSet", 6, 0, 5}, {"AddValidator", 4, 0, 5},
	{"SetBalance", 3, 0, 5}, {"AppendBalance", 2, 0, 5}, {"SetBalances", 2, 0, 5}, {"SetRandomMix", 3, 0, 5},
	{"SeedRandao", 1, 0, 5}, {"AddSlashing", 2, 0, 5}, {"ResetSlashings", 1, 0, 5}, {"SetJustificationBits", 2, 0, 5}, {"ShiftJustificationBits", 4, 0, 5},
	{"SetPreviousJustifiedCheckpoint", 1, 0, 5}, {"SetCurrentJustifiedCheckpoint", 1, 0, 5}, {"SetFinalizedCheckpoint", 1, 0, 5},
	{"SetFlags", 4, 1, 5}, {"FillZeroes", 2, 1, 5}, {"RotateParticipation", 2, 1, 5}, {"SetInactivityScore", 3, 1, 5},
	{"SetCurrentSyncCommittee", 1, 1, 5}, {"SetNextSyncCommittee", 1, 1, 5}, {"RotateSyncCommittee", 1, 1, 5},
	{"SetLatestExecutionPayloadHeader", 2, 2, 5},
	{"SetNextWithdrawalIndex", 1, 3, 5}, {"IncrementNextWithdrawalIndex", 1, 3, 5}, {"SetNextWithdrawalValidatorIndex", 1, 3, 5}, {"AppendHistoricalSummary", 3, 3, 5},
	{"SetElectraScalar", 3, 5, 5},
	{"AppendAttestation", 4, 0, 0}, {"RotateAttestations", 2, 0, 0},
	{"GenericSetField", 3, 0, 5}, {"GenericListAppend", 4, 0, 5},
	// GenericListPop is not generated: ztyp v0.2.2 ComplexListView/BasicListView.Pop clears index len instead of len-1
	// (stale content and root); the dependency cannot be patched and zrnt never calls Pop.
	{"CopyState", 5, 0, 5},
}

func genArg(rt *rapid.T, p *reg.Preset, decl string, label string) string {
	t := p.Sch.MustGet(decl)
	return hex.EncodeToString(refssz.Serialize(t, refssz.Random(rt, t, refssz.GenOpts{}, label)))
}

func genRoot(rt *rapid.T, label string) string {
	return hex.EncodeToString(rapid.SliceOfN(rapid.Byte(), 32, 32).Draw(rt, label))
}

func genU(rt *rapid.T, label string) uint64 {
	switch rapid.IntRange(0, 4).Draw(rt, label+"_k") {
	case 0:
		return rapid.Uint64Range(0, 3).Draw(rt, label)
	case 1:
		return ^uint64(0) - rapid.Uint64Range(0, 1).Draw(rt, label)
	case 2:
		return rapid.Uint64Range(0, 100).Draw(rt, label)
	default:
		return rapid.Uint64().Draw(rt, label)
	}
}

func genAction(rt *rapid.T, p *reg.Preset, fork string, fi int, stateT *refssz.Type) Action {
	var ops []string
	for _, ow := range opWeights {
		if fi >= ow.minFork && fi <= ow.maxFork {
			for k := 0; k < ow.w; k++ {
				ops = append(ops, ow.op)
			}
		}
	}
	a := Action{Op: rapid.SampledFrom(ops).Draw(rt, "op"), On: rapid.IntRange(0, 2).Draw(rt, "on")}
	switch a.Op {
	case "SetGenesisTime", "SetSlot", "AppendBalance", "SetNextWithdrawalIndex", "SetNextWithdrawalValidatorIndex", "SetJustificationBits", "ShiftJustificationBits":
		a.U = []uint64{genU(rt, "u")}
	case "SetGenesisValidatorsRoot", "AppendHistoricalRoot", "SeedRandao":
		a.Hex = []string{genRoot(rt, "root")}
	case "SetFork":
		a.Hex = []string{genArg(rt, p, "Fork", "fork")}
	case "SetLatestBlockHeader":
		a.Hex = []string{genArg(rt, p, "BeaconBlockHeader", "hdr")}
	case "SetEth1Data", "AppendEth1Vote":
		a.Hex = []string{genArg(rt, p, "Eth1Data", "eth1")}
	case "SetBlockRoot", "SetStateRoot", "SetRandomMix":
		a.U = []uint64{genU(rt, "slot")}
		a.Hex = []string{genRoot(rt, "root")}
	case "ValSet":
		a.U = []uint64{genU(rt, "i"), uint64(rapid.IntRange(0, 6).Draw(rt, "field")), genU(rt, "val")}
		a.Hex = []string{genRoot(rt, "wc")}
	case "AddValidator":
		a.U = []uint64{rapid.SampledFrom([]uint64{0, 1, 31_999_999_999, 32_000_000_000, 32_000_000_001, 17_500_000_000, 64_000_000_000, ^uint64(0)}).Draw(rt, "bal")}
		a.Hex = []string{hex.EncodeToString(rapid.SliceOfN(rapid.Byte(), 48, 48).Draw(rt, "pub")), genRoot(rt, "wc")}
	case "SetBalance", "SetInactivityScore", "AddSlashing", "SetElectraScalar":
		a.U = []uint64{genU(rt, "i"), genU(rt, "val")}
	case "ResetSlashings":
		a.U = []uint64{genU(rt, "epoch")}
	case "SetBalances":
		a.U = []uint64{uint64(rapid.IntRange(0, 200).Draw(rt, "n")), genU(rt, "seed")}
	case "SetPreviousJustifiedCheckpoint", "SetCurrentJustifiedCheckpoint", "SetFinalizedCheckpoint":
		a.Hex = []string{genArg(rt, p, "Checkpoint", "cp")}
	case "SetFlags":
		a.U = []uint64{uint64(rapid.IntRange(0, 1).Draw(rt, "which")), genU(rt, "i"), uint64(rapid.IntRange(0, 255).Draw(rt, "flags"))}
	case "FillZeroes":
		a.U = []uint64{uint64(rapid.IntRange(0, 1).Draw(rt, "which")), uint64(rapid.IntRange(0, 200).Draw(rt, "n"))}
	case "SetCurrentSyncCommittee", "SetNextSyncCommittee", "RotateSyncCommittee":
		a.Hex = []string{genArg(rt, p, "SyncCommittee", "sc")}
	case "SetLatestExecutionPayloadHeader":
		ft := stateT.Fields[stateT.FieldIndex("latest_execution_payload_header")].T
		a.Hex = []string{hex.EncodeToString(refssz.Serialize(ft, refssz.Random(rt, ft, refssz.GenOpts{}, "eph")))}
	case "AppendHistoricalSummary":
		a.Hex = []string{hex.EncodeToString(rapid.SliceOfN(rapid.Byte(), 64, 64).Draw(rt, "hs"))}
	case "AppendAttestation":
		a.U = []uint64{uint64(rapid.IntRange(0, 1).Draw(rt, "which"))}
		a.Hex = []string{genArg(rt, p, "PendingAttestation", "pa")}
	case "GenericSetField":
		i := rapid.IntRange(0, len(stateT.Fields)-1).Draw(rt, "field")
		ft := stateT.Fields[i].T
		shape := refssz.GenOpts{MaxList: 40}
		switch rapid.IntRange(0, 3).Draw(rt, "gshape") {
		case 0:
			shape.Minimal = true
		case 1:
			shape.AtLimit = true
			shape.LimitCap = 16
			if p.Family == "custom" {
				shape.LimitCap = 64
			}
		}
		a.U = []uint64{uint64(i)}
		a.Hex = []string{hex.EncodeToString(refssz.Serialize(ft, refssz.Random(rt, ft, shape, "fieldval")))}
	case "GenericListAppend":
		a.U = []uint64{uint64(rapid.IntRange(0, 30).Draw(rt, "lf")), genU(rt, "val")}
	case "GenericListPop":
		a.U = []uint64{uint64(rapid.IntRange(0, 30).Draw(rt, "lf"))}
	case "CopyState":
		a.U = []uint64{uint64(rapid.IntRange(0, 1).Draw(rt, "slot"))}
	}
	if _, ok := nearFields[a.Op]; ok && rapid.IntRange(0, 2).Draw(rt, "near") == 0 {
		a.Near = 1 + rapid.Uint64Range(0, 31).Draw(rt, "near_field")
	}
	return a
}

func genHistory(rt *rapid.T, fork string, p *reg.Preset, tour bool) *Case {
	fi := reg.ForkIndex(fork)
	t := p.Sch.MustGet(reg.StateDecl(fork))
	o := refssz.GenOpts{MaxList: 40}
	switch rapid.IntRange(0, 5).Draw(rt, "init_shape") {
	case 0:
		o.Minimal = true
	case 1:
		o.AtLimit = true
		o.LimitCap = 16
		if p.Family == "custom" {
			o.LimitCap = 64
		}
	}
	init := refssz.Serialize(t, refssz.Random(rt, t, o, "state"))
	c := &Case{Kind: "history", Fork: fork, Preset: p.Name, Init: hex.EncodeToString(init)}
	maxActs := 40
	if p.Name == "mainnet" {
		maxActs = 8 // every check re-merkleizes a 2.7 MB state three times
	}
	n := rapid.IntRange(3, maxActs).Draw(rt, "n_actions")
	for i := 0; i < n; i++ {
		c.Acts = append(c.Acts, genAction(rt, p, fork, fi, t))
	}
	if tour {
		// directed template: mutate a multi-chunk vector, copy, mutate both copies
		r1, r2, r3 := genRoot(rt, "t1"), genRoot(rt, "t2"), genRoot(rt, "t3")
		c.Acts = append([]Action{
			{Op: "SetBlockRoot", On: 0, U: []uint64{1}, Hex: []string{r1}},
			{Op: "CopyState", On: 0},
			{Op: "SetRandomMix", On: 0, U: []uint64{2}, Hex: []string{r2}},
			{Op: "SetStateRoot", On: 1, U: []uint64{3}, Hex: []string{r3}},
			{Op: "SetSlot", On: 1, U: []uint64{7}},
		}, c.Acts...)
	}
	return c
}

func historySearch(t *testing.T, r *report.Run) {
	presets := []string{"custom-a", "custom-b", "custom-c", "custom-d", "minimal"}
	if r.Thorough() {
		presets = append(presets, "mainnet")
	}
	record := func(c *Case, info *histInfo, p *reg.Preset) {
		r.Eval(1)
		r.Hit("history:" + c.Fork)
		r.Class("history:" + c.Fork + ":" + p.Family)
		r.ClassN("history:actions-applied", int64(info.applied))
		r.ClassN("history:actions-refused-as-predicted", int64(info.errs))
		if info.copyMutateBoth {
			r.Hit("history:copy-then-mutate-both")
			r.Class("history:copy-then-mutate-both")
		}
		if info.big > 0 {
			r.Hit("history:list-longer-than-one-chunk")
		}
		for k := range info.kinds {
			r.Class("action:" + k)
		}
		if info.applied >= 3 && info.big >= 1 && info.afterCopy >= 1 {
			ks := make([]string, 0, len(info.kinds))
			for k := range info.kinds {
				ks = append(ks, k)
			}
			sort.Strings(ks)
			r.NonTrivial(c.Fork + "|" + p.Family + "|" + strings.Join(ks, ","))
			r.Sample("history/"+c.Fork, func() any {
				cc := *c
				if len(cc.Init) > 200 {
					cc.Init = cc.Init[:200] + "…"
				}
				if len(cc.Acts) > 8 {
					cc.Acts = cc.Acts[:8]
				}
				return cc
			})
		}
	}
	idx := 0
	for _, fork := range reg.Forks {
		for _, pn := range presets {
			idx++
			fork, p := fork, reg.GetPreset(pn)
			// class tour on shard (idx mod nshards): one directed history per (fork, preset)
			if idx%r.S.NShards == r.S.Shard {
				r.Search(t, "tour:history", 300000+idx, 1, func(rt *rapid.T) (any, *report.Failure) {
					c := genHistory(rt, fork, p, true)
					f, info := runHistory(c)
					record(c, info, p)
					return c, f
				})
			}
			n := r.N(320, 4800) // per (fork, preset), split among the shards
			if pn == "mainnet" {
				n = r.N(16, 32)
			} else if pn == "minimal" {
				n = r.N(160, 2400)
			}
			r.Search(t, "history|"+fork+"|"+pn, 400000+idx, n, func(rt *rapid.T) (any, *report.Failure) {
				c := genHistory(rt, fork, p, false)
				f, info := runHistory(c)
				record(c, info, p)
				return c, f
			})
		}
	}
}

// Sensitivity (tools/trymut.py, quick tier, all CAUGHT):
//   N1  phase0/deposit.go      Deposits.HashTreeRoot limit MAX_DEPOSITS -> MAX_ATTESTATIONS
//   N2  common/header.go       BeaconBlockHeader.HashTreeRoot: ParentRoot <-> StateRoot
//   N3  phase0/state.go        SetSlot writes field _stateGenesisTime (caught by the model)
//   N4  common/bls.go          BLSSignature.HashTreeRoot third chunk s[63:95]
//   N5  phase0/randao.go       SeedRandao fills length-1 leaves
//   N6  phase0/history.go      HistoricalRootsType (view) limit VALIDATOR_REGISTRY_LIMIT
//   N7  altair/participation.go FillZeroes node count (length+30)/32
//   N8  common/justification.go JustificationBitsView.Set assigns BackingNode without SetBacking (no propagation)
//   N9  common/eth1.go         Eth1Data fields swapped symmetrically in Serialize+Deserialize (struct root vs spec)
//   N10 common/eth1.go         Eth1Data.View() passes block_hash/deposit_root swapped to FromFields
//   N11 capella/state.go       SetNextWithdrawalValidatorIndex writes _nextWithdrawalIndex
