package c05

// Native fuzz target for the root comparison (started by /verif/check in the thorough tier):
// (type index, preset index, bytes). Bytes the strict reference decoder accepts as a canonical encoding
// of the type go through runRoots: struct root == view root == struct.View() root == refssz root.
// Seed corpus: /verif/corpus/c04/seeds.txt (one valid encoding per type x preset).

import (
	"bufio"
	"bytes"
	"encoding/hex"
	"os"
	"path/filepath"
	"strings"
	"testing"

	"zrntverif/checks/c04/reg"
	"zrntverif/refssz"
	"zrntverif/report"
)

func FuzzRoots(f *testing.F) {
	types := sortedTypes()
	index := map[string]int{}
	for i, t := range types {
		index[t] = i
	}
	pidx := map[string]int{}
	for i, p := range reg.PresetNames {
		pidx[p] = i
	}
	root := os.Getenv("VERIF_ROOT")
	if root == "" {
		root = "/verif"
	}
	if fh, err := os.Open(filepath.Join(root, "corpus", "c04", "seeds.txt")); err == nil {
		sc := bufio.NewScanner(fh)
		sc.Buffer(make([]byte, 1<<20), 1<<26)
		for sc.Scan() {
			p := strings.Fields(sc.Text())
			if len(p) < 2 {
				continue
			}
			ti, ok1 := index[p[0]]
			pi, ok2 := pidx[p[1]]
			if !ok1 || !ok2 {
				continue
			}
			var b []byte
			if len(p) == 3 {
				b, _ = hex.DecodeString(p[2])
			}
			f.Add(uint16(ti), uint8(pi), b)
		}
		fh.Close()
	}
	f.Add(uint16(0), uint8(0), []byte{})
	f.Fuzz(func(t *testing.T, ti uint16, pi uint8, data []byte) {
		typ := types[int(ti)%len(types)]
		preset := reg.PresetNames[int(pi)%len(reg.PresetNames)]
		if len(data) > 1<<15 {
			return
		}
		p := reg.GetPreset(preset)
		bd, ok := bindings[typ]
		if !ok {
			return
		}
		ty, err := p.Sch.Get(bd.Decl)
		if err != nil {
			return
		}
		v, err := refssz.Deserialize(ty, data)
		if err != nil || !bytes.Equal(refssz.Serialize(ty, v), data) {
			return // not a canonical encoding: C04's subject
		}
		c := &Case{Kind: "roots", Type: typ, Preset: preset, Shape: "fuzz", Hex: hex.EncodeToString(data)}
		if fl, _ := runRoots(c); fl != nil {
			report.FuzzFail("C05", c, fl)
			t.Fatalf("%s @%s: %s", typ, preset, fl.String())
		}
	})
}
