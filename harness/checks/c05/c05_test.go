// C05 — hash-tree-roots agree across struct form, view form and the SSZ spec; no stale caches.
//
// (a) Per (exported Go SSZ type, preset, value V drawn with refssz.Random; B = reference
//
//	encoding): struct HashTreeRoot (spec-parametrised or plain, after Deserialize(B)) ==
//	refssz.HashTreeRoot(schema, V) == root of TypeDef.Deserialize(B) for the ztyp TypeDef the
//	schema table names (`view=`) == root of struct.View() where the struct offers that
//	conversion; the decoded view re-serializes to B.
//
// (b) Mutation histories on the tree-backed beacon state of every fork (hist_test.go): after
//
//	EVERY action, for every live copy: view.HashTreeRoot() == root of a view rebuilt from the
//	view's own Serialize() bytes == refssz root of those bytes; the bytes equal the encoding of
//	a plain-value model that applied the same actions by field name.
//
// Sensitivity (tools/trymut.py, quick tier) — see the list at the end of hist_test.go.
package c05

import (
	"bytes"
	"encoding/hex"
	"encoding/json"
	"fmt"
	"os"
	"reflect"
	"sort"
	"strings"
	"testing"

	"github.com/protolambda/zrnt/eth2/beacon/common"
	"github.com/protolambda/ztyp/tree"
	"github.com/protolambda/ztyp/view"
	"pgregory.net/rapid"

	"zrntverif/checks/c04/reg"
	"zrntverif/refssz"
	"zrntverif/report"
)

type Case struct {
	Kind   string `json:"kind"` // roots | history
	Type   string `json:"type,omitempty"`
	Preset string `json:"preset"`
	Shape  string `json:"shape,omitempty"`
	Hex    string `json:"hex,omitempty"` // roots: the reference encoding B
	// history
	Fork string   `json:"fork,omitempty"`
	Init string   `json:"init,omitempty"` // hex of the initial state encoding
	Acts []Action `json:"acts,omitempty"`
	b    []byte
}

var bindings = map[string]reg.Binding{}

func init() {
	for _, b := range reg.Bindings() {
		bindings[b.Go] = b
	}
}

func guard(what string, fn func() error) (err error, panicked bool) {
	defer func() {
		if p := recover(); p != nil {
			err, panicked = fmt.Errorf("%s panicked: %v", what, p), true
		}
	}()
	return fn(), false
}

func short(b []byte) string {
	if len(b) > 96 {
		return fmt.Sprintf("%x…(%d bytes)", b[:96], len(b))
	}
	return fmt.Sprintf("%x", b)
}

var hfn = tree.GetHashFn()

type htr interface {
	HashTreeRoot(h tree.HashFn) tree.Root
}

// structView calls the struct's own View() / View(spec) conversion if it has one.
// scribble overwrites, in place, every byte array reachable from the struct (roots, signatures, keys, vectors of
// them, elements of slices): what a caller re-using its struct for the next value does.
func scribble(v reflect.Value, depth int) {
	if depth > 12 {
		return
	}
	switch v.Kind() {
	case reflect.Ptr, reflect.Interface:
		if !v.IsNil() {
			scribble(v.Elem(), depth+1)
		}
	case reflect.Struct:
		for i := 0; i < v.NumField(); i++ {
			if v.Field(i).CanSet() {
				scribble(v.Field(i), depth+1)
			}
		}
	case reflect.Array:
		if v.Type().Elem().Kind() == reflect.Uint8 {
			for i := 0; i < v.Len(); i++ {
				v.Index(i).SetUint(0x5c)
			}
			return
		}
		for i := 0; i < v.Len(); i++ {
			scribble(v.Index(i), depth+1)
		}
	case reflect.Slice:
		if v.Type().Elem().Kind() == reflect.Uint8 {
			for i := 0; i < v.Len(); i++ {
				v.Index(i).SetUint(0x5c)
			}
			return
		}
		for i := 0; i < v.Len(); i++ {
			scribble(v.Index(i), depth+1)
		}
	case reflect.Uint64, reflect.Uint32, reflect.Uint16, reflect.Uint8:
		if v.CanSet() {
			v.SetUint(v.Uint() ^ 0x5c)
		}
	}
}

// structViewObj is structView returning the view itself.
func structViewObj(spec *common.Spec, v any) (vw any, has bool, err error) {
	m := reflect.ValueOf(v).MethodByName("View")
	if !m.IsValid() {
		return nil, false, nil
	}
	mt := m.Type()
	var args []reflect.Value
	switch {
	case mt.NumIn() == 0:
	case mt.NumIn() == 1 && mt.In(0) == reflect.TypeOf(spec):
		args = []reflect.Value{reflect.ValueOf(spec)}
	default:
		return nil, false, nil
	}
	out := m.Call(args)
	if len(out) == 0 || (len(out) == 2 && !out[1].IsNil()) || out[0].Kind() == reflect.Ptr && out[0].IsNil() {
		return nil, false, nil
	}
	return out[0].Interface(), true, nil
}

// overLimitViewFirst: for list types held as Go slices with a small limit, View() is called on a copy grown to
// limit+1 entries (result ignored, panics recovered). Reports whether such a call was made.
func overLimitViewFirst(spec *common.Spec, t *refssz.Type, v any) (tried bool) {
	defer func() { recover() }()
	if t == nil || t.Kind != refssz.KList || t.N > 4096 {
		return false
	}
	rv := reflect.ValueOf(v)
	if rv.Kind() != reflect.Ptr || rv.Elem().Kind() != reflect.Slice {
		return false
	}
	src := rv.Elem()
	grown := reflect.MakeSlice(src.Type(), 0, int(t.N)+1)
	grown = reflect.AppendSlice(grown, src)
	for uint64(grown.Len()) <= t.N {
		if src.Len() > 0 {
			grown = reflect.Append(grown, src.Index(grown.Len()%src.Len()))
		} else {
			grown = reflect.Append(grown, reflect.Zero(src.Type().Elem()))
		}
	}
	cp := reflect.New(src.Type())
	cp.Elem().Set(grown)
	structView(spec, cp.Interface())
	return true
}

func structView(spec *common.Spec, v any) (root [32]byte, has bool, err error) {
	m := reflect.ValueOf(v).MethodByName("View")
	if !m.IsValid() {
		return root, false, nil
	}
	mt := m.Type()
	var args []reflect.Value
	switch {
	case mt.NumIn() == 0:
	case mt.NumIn() == 1 && mt.In(0) == reflect.TypeOf(spec):
		args = []reflect.Value{reflect.ValueOf(spec)}
	default:
		return root, false, nil // e.g. Balances.View(limit): exercised through SetBalances in (b)
	}
	out := m.Call(args)
	if len(out) == 0 {
		return root, false, nil
	}
	if len(out) == 2 && !out[1].IsNil() {
		return root, true, out[1].Interface().(error)
	}
	h, ok := out[0].Interface().(htr)
	if !ok || out[0].IsNil() {
		return root, false, nil
	}
	return h.HashTreeRoot(hfn), true, nil
}

type rootsInfo struct {
	viewChecked, structViewChecked bool
	derived                        int
	rehashed                       bool
	aliasChecked                   bool
	afterRefusedView               bool
	atLimit, nonEmpty              int
	nonDef, fixed                  bool
}

func runRoots(c *Case) (*report.Failure, *rootsInfo) {
	info := &rootsInfo{}
	p := reg.GetPreset(c.Preset)
	bd, ok := bindings[c.Type]
	mk, ok2 := reg.Constructors[c.Type]
	if p == nil || !ok || !ok2 {
		return report.Failf("harness", "unknown type/preset %q/%q", c.Type, c.Preset), info
	}
	t, err := p.Sch.Get(bd.Decl)
	if err != nil {
		return report.Failf("harness", "schema: %v", err), info
	}
	if c.b == nil {
		c.b, _ = hex.DecodeString(c.Hex)
	}
	B := c.b
	V, err := refssz.Deserialize(t, B)
	if err != nil {
		return report.Failf("harness", "case bytes are not a valid encoding of %s: %v", bd.Decl, err), info
	}
	info.fixed = t.IsFixed()
	info.atLimit, info.nonEmpty = refssz.ListShapes(t, V)
	info.nonDef, _ = refssz.NonDefault(t, V)
	tag := fmt.Sprintf("[%s %s]", c.Preset, c.Shape)
	want := refssz.HashTreeRoot(t, V)

	o := reg.Obj{Spec: p.Spec, V: mk()}
	if err, pan := guard("Deserialize", func() error { return o.Deserialize(B) }); err != nil {
		// decoding is C04's business; without a value there is no struct root to judge
		return report.Failf(c.Type+"/Deserialize/refuses-valid", "%s %v (panic=%v); input %s", tag, err, pan, short(B)), info
	}
	var got [32]byte
	var has bool
	if err, _ := guard("HashTreeRoot", func() error { got, has = o.HashTreeRoot(); return nil }); err != nil {
		return report.Failf(c.Type+"/HashTreeRoot/panic", "%s %v; input %s", tag, err, short(B)), info
	}
	if !has {
		return report.Failf(c.Type+"/HashTreeRoot/missing", "%s no HashTreeRoot method", tag), info
	}
	if got != want {
		return report.Failf(c.Type+"/HashTreeRoot/struct-differs-from-spec", "%s struct root %x, SSZ merkleization of schema %s gives %x; value %s", tag, got, t, want, short(B)), info
	}
	if bd.View != "" {
		mkT, ok := reg.Views[bd.View]
		if !ok {
			return report.Failf("harness", "view expression %q not in reg.Views", bd.View), info
		}
		var vroot [32]byte
		var vbytes []byte
		err, pan := guard("TypeDef.Deserialize", func() error {
			td := mkT(p.Spec)
			vw, err := reg.DecodeView(td, B)
			if err != nil {
				return err
			}
			vroot = vw.HashTreeRoot(hfn)
			vbytes, err = reg.ViewBytes(vw)
			return err
		})
		if err != nil {
			return report.Failf(c.Type+"/view/decode-error", "%s %s: %v (panic=%v); input %s", tag, bd.View, err, pan, short(B)), info
		}
		if vroot != want {
			return report.Failf(c.Type+"/HashTreeRoot/view-differs-from-spec", "%s view (%s) root %x, struct root %x, SSZ merkleization gives %x; value %s", tag, bd.View, vroot, got, want, short(B)), info
		}
		if !bytes.Equal(vbytes, B) {
			return report.Failf(c.Type+"/view/Serialize-differs", "%s view (%s) decoded from B serializes differently: %s", tag, bd.View, refssz.DiffBytes(t, B, vbytes)), info
		}
		info.viewChecked = true
	}
	// a conversion that has to be refused (a list one entry beyond its limit, built as a struct) comes first
	// for some values: whatever it does, the conversion of the valid value right after it must be unaffected
	if len(B)%3 == 0 && overLimitViewFirst(p.Spec, t, o.V) {
		info.afterRefusedView = true
	}
	var sroot [32]byte
	var hasV bool
	if err, pan := guard("struct.View()", func() error {
		var e error
		sroot, hasV, e = structView(p.Spec, o.V)
		return e
	}); err != nil {
		return report.Failf(c.Type+"/View()/error", "%s struct.View(): %v (panic=%v); value %s", tag, err, pan, short(B)), info
	}
	if hasV {
		if sroot != want {
			return report.Failf(c.Type+"/HashTreeRoot/struct.View()-differs-from-spec", "%s root of struct.View() %x, struct root %x, SSZ merkleization gives %x; value %s", tag, sroot, got, want, short(B)), info
		}
		info.structViewChecked = true
		// the view made from a struct owns its content: re-using the struct afterwards must not reach into the tree
		o3 := reg.Obj{Spec: p.Spec, V: mk()}
		if err, _ := guard("aliasing", func() error {
			if e := o3.Deserialize(B); e != nil {
				return e
			}
			vw, ok, _ := structViewObj(p.Spec, o3.V)
			if !ok {
				return nil
			}
			tv, isV := vw.(view.View)
			if !isV {
				return nil
			}
			_ = tv.HashTreeRoot(hfn)
			scribble(reflect.ValueOf(o3.V), 0)
			vb, e := reg.ViewBytes(tv)
			if e != nil {
				return nil
			}
			if !bytes.Equal(vb, B) {
				return fmt.Errorf("after the caller overwrote its struct, the view made from it serializes differently: %s", refssz.DiffBytes(t, B, vb))
			}
			info.aliasChecked = true
			return nil
		}); err != nil {
			return report.Failf(c.Type+"/View()/aliases-caller-struct", "%s %v; value %s", tag, err, short(B)), info
		}
	}
	// the same OBJECT hashed again after it was overwritten with another value (fixed-size types: their decoders
	// document re-use of the destination): a root remembered on the object, or anywhere keyed by it, would be stale
	if t.IsFixed() {
		donor := refssz.Serialize(t, refssz.Perturb(t, V))
		o2 := reg.Obj{Spec: p.Spec, V: mk()}
		var r1, r2 [32]byte
		if err, _ := guard("re-hash", func() error {
			if e := o2.Deserialize(donor); e != nil {
				return e
			}
			r1, _ = o2.HashTreeRoot()
			if e := o2.Deserialize(B); e != nil {
				return e
			}
			r2, _ = o2.HashTreeRoot()
			return nil
		}); err == nil {
			if r2 != want {
				return report.Failf(c.Type+"/HashTreeRoot/stale-after-overwrite", "%s an object that held (and was hashed as) another value, then decoded B: root %x, want %x (root of the previous value %x); value %s", tag, r2, want, r1, short(B)), info
			}
			if dv, derr := refssz.Deserialize(t, donor); derr == nil && r1 != refssz.HashTreeRoot(t, dv) {
				return report.Failf(c.Type+"/HashTreeRoot/struct-differs-from-spec", "%s (perturbed value) struct root %x differs from the SSZ root; value %s", tag, r1, short(donor)), info
			}
			info.rehashed = true
		}
	}
	// summary forms derived by the library (headers, shallow bodies) keep the root
	if f, n := derivedForms(p.Spec, c.Type, tag, o.V, want, B); f != nil {
		return f, info
	} else {
		info.derived = n
	}
	return nil, info
}

func sortedTypes() []string {
	ts := make([]string, 0, len(bindings))
	for k := range bindings {
		ts = append(ts, k)
	}
	sort.Strings(ts)
	return ts
}

func scale(n, size int) int {
	switch {
	case size > 1<<20:
		n /= 16
	case size > 1<<17:
		n /= 8
	case size > 1<<14:
		n /= 3
	}
	if n < 2 {
		n = 2
	}
	return n
}

func tier(r *report.Run, q, th int) int {
	if r.Thorough() {
		return th
	}
	return q
}

// documentedNilDefault: altair.SyncCommitteeBits.HashTreeRoot documents that nil bits (the zero value,
// whose length cannot depend on the preset in struct form) hash as the preset's default bitvector
// ("we can at least output the correct HTR"). By composition that covers SyncAggregate and the
// altair..electra block bodies/blocks, whose other zero-valued fields are empty lists and zero arrays.
func documentedNilDefault(typ string) bool {
	if typ == "altair.SyncCommitteeBits" || typ == "altair.SyncAggregate" {
		return true
	}
	for _, f := range []string{"altair.", "bellatrix.", "capella.", "deneb.", "electra."} {
		if strings.HasPrefix(typ, f) {
			switch strings.TrimPrefix(typ, f) {
			case "BeaconBlockBody", "BeaconBlockBodyShallow", "BeaconBlock", "SignedBeaconBlock":
				return true
			}
		}
	}
	return false
}

// runZero judges the ZERO VALUE of the Go struct (never decoded: nil slices, nil bitfields). If the
// library itself serializes it as the schema's default value, i.e. treats it as that value, its
// struct root (and the root of its View()) must be the default value's root.
func runZero(c *Case) (f *report.Failure, judged bool) {
	p := reg.GetPreset(c.Preset)
	bd, ok := bindings[c.Type]
	mk, ok2 := reg.Constructors[c.Type]
	if p == nil || !ok || !ok2 {
		return report.Failf("harness", "unknown type/preset %q/%q", c.Type, c.Preset), false
	}
	t, err := p.Sch.Get(bd.Decl)
	if err != nil {
		return report.Failf("harness", "schema: %v", err), false
	}
	def := refssz.Default(t)
	D := refssz.Serialize(t, def)
	want := refssz.HashTreeRoot(t, def)
	o := reg.Obj{Spec: p.Spec, V: mk()}
	var ser []byte
	if err, _ := guard("Serialize", func() error { var e error; ser, e = o.Serialize(); return e }); (err != nil || !bytes.Equal(ser, D)) && !documentedNilDefault(c.Type) {
		return nil, false // the zero value is not a representation of the default value: nothing demanded
	}
	var got [32]byte
	var has bool
	if err, _ := guard("HashTreeRoot", func() error { got, has = o.HashTreeRoot(); return nil }); err != nil {
		return report.Failf(c.Type+"/HashTreeRoot/panic-on-zero-value", "[%s] the zero-value struct serializes as the default value but HashTreeRoot panics: %v", c.Preset, err), true
	}
	if has && got != want {
		return report.Failf(c.Type+"/HashTreeRoot/zero-value-differs-from-default", "[%s] the zero-value struct stands for the schema's default value (it serializes as its %d bytes, or its nil fields are documented to hash as the default) but its root is %x; the default value's root is %x", c.Preset, len(D), got, want), true
	}
	var sroot [32]byte
	var hasV bool
	if err, _ := guard("struct.View()", func() error { var e error; sroot, hasV, e = structView(p.Spec, o.V); return e }); err == nil && hasV && sroot != want {
		return report.Failf(c.Type+"/HashTreeRoot/zero-value-View()-differs-from-default", "[%s] root of zero-value struct.View() %x != default root %x", c.Preset, sroot, want), true
	}
	return nil, true
}

func TestCheck(t *testing.T) {
	r := report.Begin("C05")
	defer r.Finish()
	r.Rule("(a) per (exported Go SSZ type, preset in {mainnet, minimal, custom-a, custom-b, custom-c}) values from refssz.Random in shapes min/typical/at-limit, crossing as bytes: struct root == refssz root == root of the named ztyp TypeDef's decoded view == root of struct.View(); non-trivial = >=1 non-default leaf and, for variable-size types, >=1 non-empty list; key = (type, preset, shape, #lists at limit capped at 3). (b) histories of 3..40 setter/list/copy actions on the beacon state view of each fork phase0..electra (state loaded from a random value's bytes, presets custom-a/custom-b/custom-c/minimal, mainnet in the thorough tier); after every action every live copy is checked: cached root == root of a view rebuilt from its own bytes == refssz root of those bytes, bytes == encoding of a plain-value model; non-trivial = >=3 applied mutations of which >=1 touches a list/vector spanning more than one chunk and >=1 happens after a CopyState; key = (fork, preset family, sorted action-kind set)")
	r.Assume("refssz and /verif/spec_tables/ssz_schemas.txt are the SSZ spec and the spec's schemas (harness transcription); a three-way split with refssz alone is treated as a harness defect first",
		"decoding failures of valid encodings belong to C04 and are reported here only because no root can be judged without a value",
		"model semantics of each setter = the spec's field it names (index = argument mod vector length for block/state roots, randao mixes and slashings)")
	replay := func(raw json.RawMessage) *report.Failure {
		var c Case
		if err := json.Unmarshal(raw, &c); err != nil {
			return report.Failf("harness", "bad case: %v", err)
		}
		if c.Kind == "history" {
			f, _ := runHistory(&c)
			return f
		}
		if c.Kind == "zero" {
			f, _ := runZero(&c)
			return f
		}
		f, _ := runRoots(&c)
		return f
	}
	r.Regress(replay)
	if r.Replay != "" {
		return
	}

	types := sortedTypes()
	fams := []string{"mainnet", "minimal", "custom"}
	nview := 0
	for _, typ := range types {
		for _, f := range fams {
			r.Mandatory("seen:" + typ + "@" + f)
		}
		if bindings[typ].View != "" {
			nview++
		}
	}
	for _, f := range reg.Forks {
		r.Mandatory("history:" + f)
	}
	r.Mandatory("roots:struct.View()-right-after-a-refused-conversion", "history:copy-then-mutate-both", "history:list-longer-than-one-chunk", "shape:at-limit", "roots:view-form", "roots:struct.View()", "roots:zero-value-struct", "roots:derived-forms(header,shallow-body)", "roots:shallow-body-round-trip")
	r.S.Extra["types_with_view_typedef"] = nview
	r.S.Extra["registered_types"] = len(types)

	recordRoots := func(c *Case, info *rootsInfo, p *reg.Preset) {
		r.Eval(1)
		r.Hit("seen:" + c.Type + "@" + p.Family)
		if info.atLimit > 0 {
			r.Hit("shape:at-limit")
		}
		if info.viewChecked {
			r.Hit("roots:view-form")
			r.Class("roots:three-way(struct,view,spec)")
		} else {
			r.Class("roots:two-way(struct,spec)")
		}
		if info.structViewChecked {
			r.Hit("roots:struct.View()")
			r.Class("roots:struct.View()")
		}
		if info.rehashed {
			r.Class("roots:same-object-rehashed-after-overwrite")
		}
		if info.afterRefusedView && info.structViewChecked {
			r.Hit("roots:struct.View()-right-after-a-refused-conversion")
			r.Class("roots:struct.View()-right-after-a-refused-conversion")
		}
		if info.aliasChecked {
			r.Class("roots:struct.View()-independent-of-the-struct-afterwards")
		}
		if info.derived > 0 {
			r.Hit("roots:derived-forms(header,shallow-body)")
			r.ClassN("roots:derived-forms-judged", int64(info.derived))
			if info.derived >= 3 {
				r.Hit("roots:shallow-body-round-trip")
			}
		}
		r.Class("value:" + p.Family + ":" + c.Shape)
		if info.nonDef && (info.fixed || info.nonEmpty > 0) {
			al := info.atLimit
			if al > 3 {
				al = 3
			}
			r.NonTrivial(fmt.Sprintf("%s|%s|%s|%d", c.Type, c.Preset, c.Shape, al))
			r.Sample("roots/"+c.Shape+"/"+p.Family, func() any {
				cc := *c
				if len(cc.Hex) > 400 {
					cc.Hex = cc.Hex[:400] + "…"
				}
				return cc
			})
		}
	}
	gen := func(rt *rapid.T, typ string, p *reg.Preset, shape string) *Case {
		_, _, b := reg.GenValue(rt, bindings[typ].Decl, p, shape)
		return &Case{Kind: "roots", Type: typ, Preset: p.Name, Shape: shape, Hex: hex.EncodeToString(b), b: b}
	}

	only := os.Getenv("VERIF_C05_ONLY") // development aid: substring filter on the type name / "history"
	// ---- (a) roots over the registry
	for ti, typ := range types {
		if only != "" && !strings.Contains(typ, only) {
			continue
		}
		for pi, pn := range reg.PresetNames {
			idx := ti*len(reg.PresetNames) + pi
			if idx%r.S.NShards != r.S.Shard {
				continue
			}
			typ, p := typ, reg.GetPreset(pn)
			{
				zc := &Case{Kind: "zero", Type: typ, Preset: p.Name, Shape: "zero-value-struct"}
				zf, judged := runZero(zc)
				r.Eval(1)
				if judged {
					r.Class("zero-value-struct-judged")
					r.Hit("roots:zero-value-struct")
				} else {
					r.Class("zero-value-struct-is-not-the-default")
				}
				if zf != nil {
					r.Violate(zc, zf, true)
					continue
				}
			}
			dt := p.Sch.MustGet(bindings[typ].Decl)
			size := len(refssz.Serialize(dt, refssz.Default(dt)))
			for si, shape := range []string{"min", "at-limit"} {
				shape := shape
				r.Search(t, "tour:"+shape, 100000+idx*4+si, 1, func(rt *rapid.T) (any, *report.Failure) {
					c := gen(rt, typ, p, shape)
					f, info := runRoots(c)
					recordRoots(c, info, p)
					return c, f
				})
			}
			n := scale(tier(r, 40, 600), size)
			r.Search(t, "roots|"+typ+"|"+pn, idx, n, func(rt *rapid.T) (any, *report.Failure) {
				shape := rapid.SampledFrom([]string{"typical", "typical", "typical", "at-limit", "min"}).Draw(rt, "shape")
				c := gen(rt, typ, p, shape)
				f, info := runRoots(c)
				recordRoots(c, info, p)
				return c, f
			})
		}
	}
	// ---- (b) histories
	if only == "" || only == "history" {
		historySearch(t, r)
	}
}
