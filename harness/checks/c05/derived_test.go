// C05 (part): summary forms the library derives from a value must keep the value's hash-tree-root —
// the SSZ identity behind `BeaconBlockHeader(body_root=hash_tree_root(body))`,
// `ExecutionPayloadHeader(transactions_root=…, withdrawals_root=…)` and the library's "shallow" block
// body (`execution_payload_root` in place of the payload). Found by tools/libcov.py: SignedHeader, Shallow
// and WithExecutionPayload of every fork were never executed by any check.
//
//	SignedBeaconBlock.SignedHeader(spec)  root == root of the signed block (same signature, header root == block root)
//	BeaconBlock.Header(spec)              root == root of the block
//	ExecutionPayload.Header(spec)         root == root of the payload
//	BeaconBlockBody.Shallow(spec)         root == root of the body;  Shallow.WithExecutionPayload(payload) gives the
//	                                      body back (same root, same bytes); with another payload it is refused
//
// Sensitivity (tools/trymut.py, quick tier):
//
//	D1 deneb Header(): BodyRoot computed from a body without BlobKZGCommitments   deneb.BeaconBlock/Header()/root-differs
//	D2 capella Shallow() drops BLSToExecutionChanges                               capella.BeaconBlockBody/Shallow()/root-differs
//	D3 bellatrix WithExecutionPayload skips the root comparison                    bellatrix.BeaconBlockBody/WithExecutionPayload/accepts-other-payload
package c05

import (
	"bytes"
	"fmt"
	"reflect"

	"github.com/protolambda/zrnt/eth2/beacon/common"

	"zrntverif/checks/c04/reg"
	"zrntverif/report"
)

// callSpec calls v.<name>(spec) if it exists with that shape and returns its first result.
func callSpec(spec *common.Spec, v any, name string) (out reflect.Value, ok bool) {
	m := reflect.ValueOf(v).MethodByName(name)
	if !m.IsValid() || m.Type().NumIn() != 1 || m.Type().In(0) != reflect.TypeOf(spec) || m.Type().NumOut() != 1 {
		return out, false
	}
	return m.Call([]reflect.Value{reflect.ValueOf(spec)})[0], true
}

// derivedForms returns the number of derived forms judged.
func derivedForms(spec *common.Spec, typ, tag string, v any, want [32]byte, B []byte) (*report.Failure, int) {
	n := 0
	for _, name := range []string{"SignedHeader", "Header", "Shallow"} {
		var res reflect.Value
		var has bool
		if err, _ := guard(name+"()", func() error { res, has = callSpec(spec, v, name); return nil }); err != nil {
			return report.Failf(typ+"/"+name+"()/panic", "%s %v; value %s", tag, err, short(B)), n
		}
		if !has || res.Kind() != reflect.Ptr || res.IsNil() {
			continue
		}
		d := reg.Obj{Spec: spec, V: res.Interface()}
		var got [32]byte
		var ok bool
		if err, _ := guard(name+"().HashTreeRoot", func() error { got, ok = d.HashTreeRoot(); return nil }); err != nil {
			return report.Failf(typ+"/"+name+"()/panic", "%s %v; value %s", tag, err, short(B)), n
		}
		if !ok {
			continue
		}
		n++
		if got != want {
			return report.Failf(typ+"/"+name+"()/root-differs", "%s root of %s() %x, root of the value %x; value %s", tag, name, got, want, short(B)), n
		}
		if name != "Shallow" {
			continue
		}
		// round trip through the shallow body
		pf := reflect.ValueOf(v).Elem().FieldByName("ExecutionPayload")
		w := res.MethodByName("WithExecutionPayload")
		if !pf.IsValid() || !w.IsValid() || w.Type().NumIn() != 2 || w.Type().In(1) != pf.Type() {
			continue
		}
		call := func(payload reflect.Value) (body reflect.Value, err error) {
			out := w.Call([]reflect.Value{reflect.ValueOf(spec), payload})
			if !out[1].IsNil() {
				return out[0], out[1].Interface().(error)
			}
			return out[0], nil
		}
		var body reflect.Value
		if err, pan := guard("WithExecutionPayload", func() error { var e error; body, e = call(pf); return e }); err != nil {
			return report.Failf(typ+"/WithExecutionPayload/refuses-own-payload", "%s %v (panic=%v); value %s", tag, err, pan, short(B)), n
		}
		bo := reg.Obj{Spec: spec, V: body.Interface()}
		var bb []byte
		var broot [32]byte
		if err, _ := guard("rebuilt body", func() error {
			var e error
			bb, e = bo.Serialize()
			broot, _ = bo.HashTreeRoot()
			return e
		}); err != nil {
			return report.Failf(typ+"/WithExecutionPayload/panic", "%s %v; value %s", tag, err, short(B)), n
		}
		if broot != want || !bytes.Equal(bb, B) {
			return report.Failf(typ+"/WithExecutionPayload/body-differs", "%s Shallow().WithExecutionPayload(payload) root %x / %d bytes, the body has root %x / %d bytes; value %s", tag, broot, len(bb), want, len(B), short(B)), n
		}
		n++
		// another payload (one numeric field changed) must be refused
		other := reflect.New(pf.Type()).Elem()
		other.Set(pf)
		fld := other.FieldByName("GasUsed")
		if fld.IsValid() && fld.CanSet() && fld.Kind() == reflect.Uint64 {
			fld.SetUint(fld.Uint() + 1)
			var e2 error
			if err, _ := guard("WithExecutionPayload(other)", func() error { _, e2 = call(other); return nil }); err != nil {
				return report.Failf(typ+"/WithExecutionPayload/panic", "%s %v; value %s", tag, err, short(B)), n
			}
			if e2 == nil {
				return report.Failf(typ+"/WithExecutionPayload/accepts-other-payload", "%s a payload whose gas_used differs from the summarised one was accepted; value %s", tag, short(B)), n
			}
			n++
		}
	}
	return nil, n
}

var _ = fmt.Sprint
