package c15

import (
	"bytes"
	"context"
	"encoding/binary"
	"errors"
	"fmt"
	"reflect"
	"sort"
	"strings"

	"github.com/protolambda/zrnt/eth2/beacon/common"
	"github.com/protolambda/zrnt/eth2/beacon/phase0"
	"github.com/protolambda/ztyp/codec"
	"github.com/protolambda/ztyp/tree"
	"github.com/protolambda/ztyp/view"

	"zrntverif/refssz"
)

// libArg is one argument handed to a library method: an index/number, an SSZ value of a schema
// type (converted to whatever Go type the parameter has), or a ready-made Go value.
type libArg struct {
	isU bool
	U   uint64
	T   *refssz.Type
	V   any
	raw reflect.Value
}

func uArg(u uint64) libArg              { return libArg{isU: true, U: u} }
func vArg(t *refssz.Type, v any) libArg { return libArg{T: t, V: v} }
func rawArg(v any) libArg               { return libArg{raw: reflect.ValueOf(v)} }
func (a libArg) describe() string {
	switch {
	case a.isU:
		return fmt.Sprint(a.U)
	case a.raw.IsValid():
		return fmt.Sprintf("<%s>", a.raw.Type())
	default:
		b := refssz.Serialize(a.T, a.V)
		if len(b) > 48 {
			return fmt.Sprintf("0x%x…(%d bytes)", b[:48], len(b))
		}
		return fmt.Sprintf("0x%x", b)
	}
}

var (
	specType   = reflect.TypeOf((*common.Spec)(nil))
	hashFnType = reflect.TypeOf(tree.HashFn(nil))
	ctxType    = reflect.TypeOf((*context.Context)(nil)).Elem()
	errorType  = reflect.TypeOf((*error)(nil)).Elem()
	syncVwType = reflect.TypeOf((*common.SyncCommitteeView)(nil))
	epcType    = reflect.TypeOf((*common.EpochsContext)(nil))
)

type sszPlain interface {
	Serialize(w *codec.EncodingWriter) error
}
type sszSpec interface {
	Serialize(spec *common.Spec, w *codec.EncodingWriter) error
}
type deszPlain interface {
	Deserialize(dr *codec.DecodingReader) error
}
type deszSpec interface {
	Deserialize(spec *common.Spec, dr *codec.DecodingReader) error
}

func uintWidth(k reflect.Kind) int {
	switch k {
	case reflect.Uint8:
		return 1
	case reflect.Uint16:
		return 2
	case reflect.Uint32:
		return 4
	case reflect.Uint64, reflect.Uint:
		return 8
	}
	return 0
}

// encodeLib turns a value returned by the library into SSZ bytes: through the value's own
// Serialize method when it has one, else structurally (uints little-endian, bools, byte arrays,
// slices of those).
func encodeLib(spec *common.Spec, rv reflect.Value) ([]byte, error) {
	if !rv.IsValid() {
		return nil, errors.New("invalid value")
	}
	for rv.Kind() == reflect.Interface {
		if rv.IsNil() {
			return nil, errors.New("nil interface result")
		}
		rv = rv.Elem()
	}
	cands := []reflect.Value{rv}
	if rv.Kind() == reflect.Ptr {
		if rv.IsNil() {
			return nil, errors.New("nil pointer result")
		}
	} else {
		p := reflect.New(rv.Type())
		p.Elem().Set(rv)
		cands = append(cands, p)
	}
	for _, c := range cands {
		if !c.CanInterface() {
			continue
		}
		var buf bytes.Buffer
		switch s := c.Interface().(type) {
		case sszPlain:
			err := s.Serialize(codec.NewEncodingWriter(&buf))
			return buf.Bytes(), err
		case sszSpec:
			err := s.Serialize(spec, codec.NewEncodingWriter(&buf))
			return buf.Bytes(), err
		}
	}
	switch rv.Kind() {
	case reflect.Ptr:
		return encodeLib(spec, rv.Elem())
	case reflect.Bool:
		if rv.Bool() {
			return []byte{1}, nil
		}
		return []byte{0}, nil
	case reflect.Uint8, reflect.Uint16, reflect.Uint32, reflect.Uint64, reflect.Uint:
		var b [8]byte
		binary.LittleEndian.PutUint64(b[:], rv.Uint())
		return append([]byte{}, b[:uintWidth(rv.Kind())]...), nil
	case reflect.Array, reflect.Slice:
		var out []byte
		for i := 0; i < rv.Len(); i++ {
			e, err := encodeLib(spec, rv.Index(i))
			if err != nil {
				return nil, err
			}
			out = append(out, e...)
		}
		if out == nil {
			out = []byte{}
		}
		return out, nil
	}
	return nil, fmt.Errorf("cannot encode a %s", rv.Type())
}

// decodeLib builds a Go value of parameter type pt from SSZ bytes.
func decodeLib(spec *common.Spec, pt reflect.Type, b []byte) (reflect.Value, error) {
	dr := func() *codec.DecodingReader { return codec.NewDecodingReader(bytes.NewReader(b), uint64(len(b))) }
	if pt == syncVwType {
		var sc common.SyncCommittee
		if err := sc.Deserialize(spec, dr()); err != nil {
			return reflect.Value{}, err
		}
		v, err := sc.View(spec)
		return reflect.ValueOf(v), err
	}
	base := pt
	if pt.Kind() == reflect.Ptr {
		base = pt.Elem()
	}
	p := reflect.New(base)
	done := false
	switch d := p.Interface().(type) {
	case deszPlain:
		if err := d.Deserialize(dr()); err != nil {
			return reflect.Value{}, err
		}
		done = true
	case deszSpec:
		if err := d.Deserialize(spec, dr()); err != nil {
			return reflect.Value{}, err
		}
		done = true
	}
	if !done {
		e := p.Elem()
		switch base.Kind() {
		case reflect.Bool:
			if len(b) != 1 {
				return reflect.Value{}, fmt.Errorf("bool from %d bytes", len(b))
			}
			e.SetBool(b[0] == 1)
		case reflect.Uint8, reflect.Uint16, reflect.Uint32, reflect.Uint64, reflect.Uint:
			var buf [8]byte
			copy(buf[:], b)
			e.SetUint(binary.LittleEndian.Uint64(buf[:]))
		case reflect.Array:
			if base.Elem().Kind() != reflect.Uint8 || len(b) != base.Len() {
				return reflect.Value{}, fmt.Errorf("cannot decode %d bytes into %s", len(b), base)
			}
			reflect.Copy(e, reflect.ValueOf(b))
		case reflect.Slice:
			w := uintWidth(base.Elem().Kind())
			if w == 0 || len(b)%w != 0 {
				return reflect.Value{}, fmt.Errorf("cannot decode %d bytes into %s", len(b), base)
			}
			s := reflect.MakeSlice(base, len(b)/w, len(b)/w)
			for i := 0; i < len(b)/w; i++ {
				var buf [8]byte
				copy(buf[:], b[i*w:(i+1)*w])
				s.Index(i).SetUint(binary.LittleEndian.Uint64(buf[:]))
			}
			e.Set(s)
		default:
			return reflect.Value{}, fmt.Errorf("cannot decode into %s", base)
		}
	}
	if pt.Kind() == reflect.Ptr {
		return p, nil
	}
	return p.Elem(), nil
}

func unwrap(rv reflect.Value) reflect.Value {
	for rv.IsValid() && rv.Kind() == reflect.Interface && !rv.IsNil() {
		rv = rv.Elem()
	}
	return rv
}

// As… wrappers of the typed sub-views that the state does not hand out through a method.
var asFns = map[string]any{
	"Checkpoint":         common.AsCheckPoint,
	"Fork":               common.AsFork,
	"Header":             common.AsBeaconBlockHeader,
	"Eth1Data":           common.AsEth1Data,
	"JustificationBits":  common.AsJustificationBits,
	"PendingAttestation": phase0.AsPendingAttestation,
	"AttestationData":    phase0.AsAttestationData,
	"AnyList":            view.AsComplexList,
}

type callOut struct {
	res      []reflect.Value
	err      error
	panicked bool
	noMethod bool
}

// call invokes recv.<method>(args…) by reflection. *Spec, HashFn and Context parameters are
// supplied; every other parameter consumes the next libArg. A trailing error result is split off.
func call(spec *common.Spec, recv reflect.Value, row *Row, args []libArg) (out callOut) {
	defer func() {
		if p := recover(); p != nil {
			out.err = fmt.Errorf("panic: %v", p)
			out.panicked = true
		}
	}()
	recv = unwrap(recv)
	method := row.Method
	if strings.HasPrefix(method, "@") {
		return callPseudo(recv, row, args)
	}
	m := recv.MethodByName(method)
	if !m.IsValid() {
		out.noMethod = true
		out.err = fmt.Errorf("%s has no exported method %s (accessor table line %d)", recv.Type(), method, row.Line)
		return
	}
	mt := m.Type()
	in := make([]reflect.Value, 0, mt.NumIn())
	ai := 0
	for i := 0; i < mt.NumIn(); i++ {
		pt := mt.In(i)
		switch {
		case pt == specType:
			in = append(in, reflect.ValueOf(spec))
			continue
		case pt == hashFnType:
			in = append(in, reflect.ValueOf(tree.GetHashFn()))
			continue
		case pt == ctxType:
			in = append(in, reflect.ValueOf(context.Background()))
			continue
		case pt == epcType:
			in = append(in, reflect.Zero(pt))
			continue
		}
		if ai >= len(args) {
			out.noMethod = true
			out.err = fmt.Errorf("%s.%s wants more arguments than the table row (line %d) provides", recv.Type(), method, row.Line)
			return
		}
		a := args[ai]
		ai++
		switch {
		case a.raw.IsValid():
			in = append(in, a.raw)
		case a.isU:
			if uintWidth(pt.Kind()) == 0 {
				out.noMethod = true
				out.err = fmt.Errorf("%s.%s parameter %d is a %s, the table row (line %d) passes a number", recv.Type(), method, i, pt, row.Line)
				return
			}
			in = append(in, reflect.ValueOf(a.U).Convert(pt))
		default:
			v, err := decodeLib(spec, pt, refssz.Serialize(a.T, a.V))
			if err != nil {
				out.noMethod = true
				out.err = fmt.Errorf("%s.%s parameter %d (%s): cannot build from a %s: %v", recv.Type(), method, i, pt, a.T, err)
				return
			}
			in = append(in, v)
		}
	}
	if ai != len(args) {
		out.noMethod = true
		out.err = fmt.Errorf("%s.%s takes fewer arguments than the table row (line %d) provides", recv.Type(), method, row.Line)
		return
	}
	res := m.Call(in)
	// Aliasing oracle: a setter must store a VALUE. Everything that was passed in by pointer or
	// slice is overwritten after the call; if the state kept a reference to the caller's memory,
	// the byte-exact state comparison that follows sees the scribble.
	for i := range in {
		if method == "Flatten" {
			break // Flatten(dst) fills an out-parameter
		}
		if t := mt.In(i); t != specType && t != hashFnType && t != ctxType && t != epcType {
			scribble(in[i], 0)
		}
	}
	if n := len(res); n > 0 && res[n-1].Type().Implements(errorType) {
		if !res[n-1].IsNil() {
			out.err = res[n-1].Interface().(error)
		}
		res = res[:n-1]
	}
	out.res = res
	return
}

func embedded(recv reflect.Value, name string) (reflect.Value, bool) {
	if recv.Kind() != reflect.Ptr || recv.IsNil() || recv.Elem().Kind() != reflect.Struct {
		return reflect.Value{}, false
	}
	f := recv.Elem().FieldByName(name)
	if !f.IsValid() {
		return reflect.Value{}, false
	}
	return f, true
}

// callPseudo implements `@<field>` (container field by NAME through the generic Get) and `@[]`
// (list element through the generic Get), each wrapped by the typed As… function of the sub-view.
func callPseudo(recv reflect.Value, row *Row, args []libArg) (out callOut) {
	as, ok := asFns[row.Sub]
	if !ok {
		out.noMethod = true
		out.err = fmt.Errorf("accessor table line %d: no As… wrapper registered for sub-view %q", row.Line, row.Sub)
		return
	}
	var v view.View
	var err error
	if row.Method == "@[]" {
		f, ok := embedded(recv, "ComplexListView")
		if !ok || len(args) != 1 || !args[0].isU {
			out.noMethod = true
			out.err = fmt.Errorf("accessor table line %d: @[] needs a complex list view and one index, have %s", row.Line, recv.Type())
			return
		}
		v, err = f.Interface().(*view.ComplexListView).Get(args[0].U)
	} else {
		f, ok := embedded(recv, "ContainerView")
		if !ok {
			out.noMethod = true
			out.err = fmt.Errorf("accessor table line %d: %s is not a container view", row.Line, recv.Type())
			return
		}
		cv := f.Interface().(*view.ContainerView)
		name := strings.TrimPrefix(row.Method, "@")
		pos := -1
		for i, fd := range cv.Fields {
			if fd.Name == name {
				pos = i
			}
		}
		if pos < 0 {
			out.noMethod = true
			out.err = fmt.Errorf("accessor table line %d: %s has no field named %q", row.Line, recv.Type(), name)
			return
		}
		v, err = cv.Get(uint64(pos))
	}
	var errV reflect.Value
	if err != nil {
		errV = reflect.ValueOf(err)
	} else {
		errV = reflect.Zero(errorType)
	}
	var vV reflect.Value
	if v != nil {
		vV = reflect.ValueOf(v)
	} else {
		vV = reflect.Zero(reflect.TypeOf((*view.View)(nil)).Elem())
	}
	res := reflect.ValueOf(as).Call([]reflect.Value{vV, errV})
	if !res[1].IsNil() {
		out.err = res[1].Interface().(error)
	}
	out.res = res[:1]
	return
}

// ---------------------------------------------------------------- uncovered methods

type seenTypes struct {
	m map[string]reflect.Type // scope -> concrete receiver type
}

func (s *seenTypes) note(scope string, fork int, recv reflect.Value) {
	recv = unwrap(recv)
	if !recv.IsValid() {
		return
	}
	key := scope
	if scope == "state" {
		key = "state:" + recv.Type().String()
	}
	seenMu.Lock()
	defer seenMu.Unlock()
	if s.m == nil {
		s.m = map[string]reflect.Type{}
	}
	s.m[key] = recv.Type()
}

// uncovered lists, per receiver type met while walking the table, the exported methods the table
// does not mention: `own` are declared by zrnt on the type itself; the rest are promoted from the
// embedded ztyp view (Get/Set/Append/Serialize/…), on which every typed accessor is built — those
// are listed once per embedded type.
func uncovered(tab *Table, seen *seenTypes) map[string]any {
	own := map[string]any{}
	notInvoked := map[string]any{}
	generic := map[string]map[string]bool{}
	receivers := map[string][]string{}
	for key, t := range seen.m {
		scope := key
		if strings.HasPrefix(key, "state:") {
			scope = "state"
		}
		name := t.String() + " [" + scope + "]"
		listed := tab.Methods(scope, -1)
		promoted := map[string]string{}
		if t.Kind() == reflect.Ptr && t.Elem().Kind() == reflect.Struct {
			for i := 0; i < t.Elem().NumField(); i++ {
				f := t.Elem().Field(i)
				if !f.Anonymous {
					continue
				}
				for j := 0; j < f.Type.NumMethod(); j++ {
					promoted[f.Type.Method(j).Name] = f.Type.String()
				}
				receivers[f.Type.String()] = append(receivers[f.Type.String()], name)
			}
		}
		mine := []string{}
		ztypOwn := t.Kind() == reflect.Ptr && strings.Contains(t.Elem().PkgPath(), "/ztyp/")
		for i := 0; i < t.NumMethod(); i++ {
			n := t.Method(i).Name
			if _, ok := listed[n]; ok {
				continue
			}
			if ztypOwn {
				promoted[n] = t.String()
			}
			if emb, ok := promoted[n]; ok {
				if generic[emb] == nil {
					generic[emb] = map[string]bool{}
				}
				generic[emb][n] = true
			} else {
				mine = append(mine, n)
			}
		}
		own[name] = mine
		var skipped []string
		for _, r := range tab.ByScop[scope] {
			if r.Kind == "skip" {
				if _, ok := t.MethodByName(r.Method); ok {
					skipped = append(skipped, r.Method+": "+r.Effect)
				}
			}
		}
		if skipped != nil {
			notInvoked[name] = skipped
		}
	}
	gen := map[string]any{}
	for emb, ms := range generic {
		sort.Strings(receivers[emb])
		gen[emb] = map[string]any{"methods": sortedKeys(ms), "promoted_into": receivers[emb]}
	}
	return map[string]any{"own_methods_not_in_table": own, "generic_ztyp_methods_not_in_table": gen, "in_table_as_not_an_accessor": notInvoked}
}

// scribble overwrites everything reachable from v through pointers, slices, arrays and struct
// fields (bounded depth) with different content. Tree-backed views (ztyp) are left alone: they are
// handles into the state by design, not values.
func scribble(v reflect.Value, depth int) {
	if !v.IsValid() || depth > 6 {
		return
	}
	if strings.Contains(v.Type().String(), "view.") || strings.Contains(v.Type().String(), "View") {
		return
	}
	switch v.Kind() {
	case reflect.Ptr, reflect.Interface:
		if !v.IsNil() {
			scribble(v.Elem(), depth+1)
		}
	case reflect.Struct:
		for i := 0; i < v.NumField(); i++ {
			if v.Type().Field(i).IsExported() {
				scribble(v.Field(i), depth+1)
			}
		}
	case reflect.Slice, reflect.Array:
		for i := 0; i < v.Len(); i++ {
			scribble(v.Index(i), depth+1)
		}
	case reflect.Uint8, reflect.Uint16, reflect.Uint32, reflect.Uint64, reflect.Uint:
		if v.CanSet() {
			v.SetUint(^v.Uint())
		}
	case reflect.Bool:
		if v.CanSet() {
			v.SetBool(!v.Bool())
		}
	}
}
