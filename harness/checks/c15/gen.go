package c15

import (
	"encoding/hex"
	"fmt"
	"sync"

	"pgregory.net/rapid"

	"zrntverif/refspec"
	"zrntverif/refssz"
	"zrntverif/zb"
)

// tiny: minimal with short vectors and low list limits, so that lists are often AT their limit,
// index wrap-around is reached with small numbers and whole states stay small.
// VALIDATOR_REGISTRY_LIMIT stays above 32: with <= 32 the participation lists are a single chunk
// (tree depth 0), a shape outside every preset, on which ztyp's SubtreeFillToLength(…, 0, 0)
// underflows (FillZeroes(0) panicked) — recorded as a false alarm of the generator, not a finding.
var tinyOverride = map[string]uint64{
	"SLOTS_PER_EPOCH": 4, "SLOTS_PER_HISTORICAL_ROOT": 8, "EPOCHS_PER_HISTORICAL_VECTOR": 8, "EPOCHS_PER_SLASHINGS_VECTOR": 4,
	"VALIDATOR_REGISTRY_LIMIT": 40, "SYNC_COMMITTEE_SIZE": 8, "HISTORICAL_ROOTS_LIMIT": 8, "EPOCHS_PER_ETH1_VOTING_PERIOD": 2,
	"MAX_ATTESTATIONS": 4, "PENDING_DEPOSITS_LIMIT": 8, "PENDING_PARTIAL_WITHDRAWALS_LIMIT": 4, "PENDING_CONSOLIDATIONS_LIMIT": 4,
}

var (
	envMu    sync.Mutex
	envCache = map[string]*env{}
	theTable *Table
	theSeen  = &seenTypes{}
	seenMu   sync.Mutex
)

// odd: like tiny, but every vector length is NOT a power of two (index arithmetic by mask instead of
// modulo, padding leaves) and SLOTS_PER_EPOCH is not one either.
var oddOverride = map[string]uint64{
	"SLOTS_PER_EPOCH": 6, "SLOTS_PER_HISTORICAL_ROOT": 12, "EPOCHS_PER_HISTORICAL_VECTOR": 10, "EPOCHS_PER_SLASHINGS_VECTOR": 6,
	"VALIDATOR_REGISTRY_LIMIT": 44, "SYNC_COMMITTEE_SIZE": 12, "HISTORICAL_ROOTS_LIMIT": 6, "EPOCHS_PER_ETH1_VOTING_PERIOD": 2,
	"MAX_ATTESTATIONS": 3, "PENDING_DEPOSITS_LIMIT": 7, "PENDING_PARTIAL_WITHDRAWALS_LIMIT": 5, "PENDING_CONSOLIDATIONS_LIMIT": 3,
}

func presetConfig(preset string) *refspec.Config {
	switch preset {
	case "minimal":
		return refspec.Official("minimal")
	case "tiny":
		cfg := refspec.Official("minimal").Clone()
		cfg.Name = "custom"
		for k, v := range tinyOverride {
			cfg.U[k] = v
		}
		cfg.Invalidate()
		return cfg
	case "odd":
		cfg := refspec.Official("minimal").Clone()
		cfg.Name = "custom"
		for k, v := range oddOverride {
			cfg.U[k] = v
		}
		cfg.Invalidate()
		return cfg
	}
	return nil
}

// newEnv builds the (configuration, fork) environment: library Spec, resolved schema, state type.
func newEnv(preset string, cfg *refspec.Config, fork int) *env {
	spec := zb.ToSpec(cfg)
	sch := refspec.SchemaTable().Resolve(cfg.U)
	return &env{preset: preset, fork: fork, cfg: cfg, spec: spec, sch: sch, stateT: sch.MustGet(zb.StateTypeNameX(fork)), tab: theTable, seen: theSeen}
}

// getEnv caches environments of the two named presets (immutable inputs).
func getEnv(preset string, fork int) (*env, error) {
	envMu.Lock()
	defer envMu.Unlock()
	key := fmt.Sprintf("%s/%d", preset, fork)
	if e, ok := envCache[key]; ok {
		return e, nil
	}
	cfg := presetConfig(preset)
	if cfg == nil || fork < 0 || fork > zb.Electra {
		return nil, fmt.Errorf("unknown preset/fork %q/%d", preset, fork)
	}
	e := newEnv(preset, cfg, fork)
	envCache[key] = e
	return e, nil
}

// ---------------------------------------------------------------- static argument shapes

type argSpec struct {
	kind string // index | value | u64 | selvalue | balance
	t    *refssz.Type
}

func typeAt(t *refssz.Type, steps []pstep) (*refssz.Type, int, error) {
	nIdx := 0
	for _, s := range steps {
		if s.field != "" {
			if t.Kind != refssz.KContainer || t.FieldIndex(s.field) < 0 {
				return nil, 0, fmt.Errorf("%s has no field %s", t, s.field)
			}
			t = t.Fields[t.FieldIndex(s.field)].T
			continue
		}
		if t.Kind != refssz.KVector && t.Kind != refssz.KList {
			return nil, 0, fmt.Errorf("index step on a %s", t)
		}
		if s.arg+1 > nIdx {
			nIdx = s.arg + 1
		}
		t = t.Elem
	}
	return t, nIdx, nil
}

// argSpecs derives the argument shapes of a chain from the table and the schema alone.
func (e *env) argSpecs(ch *Chain) ([]argSpec, error) {
	var out []argSpec
	t := e.stateT
	for i, row := range ch.Rows {
		if i == len(ch.Rows)-1 && row.Kind == "op" {
			switch row.Target {
			case "AddValidator":
				out = append(out, argSpec{"value", b48T}, argSpec{"value", b32T}, argSpec{"balance", nil})
			case "SeedRandao":
				out = append(out, argSpec{"value", b32T})
			case "SetRecentRoots":
				out = append(out, argSpec{"index", nil}, argSpec{"value", b32T}, argSpec{"value", b32T})
			case "RotateSyncCommittee":
				out = append(out, argSpec{"value", e.stateT.Fields[e.stateT.FieldIndex("next_sync_committee")].T})
			case "Count":
				out = append(out, argSpec{"selvalue", t.Elem})
			case "IsValidIndex":
				out = append(out, argSpec{"index", nil})
			case "AddAt":
				out = append(out, argSpec{"index", nil}, argSpec{"u64", nil})
			case "FillZeroes":
				out = append(out, argSpec{"u64", nil})
			}
			break
		}
		nt, nIdx, err := typeAt(t, row.steps)
		if err != nil {
			return nil, fmt.Errorf("accessor table line %d: %v", row.Line, err)
		}
		for k := 0; k < nIdx; k++ {
			out = append(out, argSpec{"index", nil})
		}
		t = nt
		if i == len(ch.Rows)-1 {
			switch row.Kind {
			case "set":
				out = append(out, argSpec{"value", t})
			case "append":
				if t.Kind != refssz.KList {
					return nil, fmt.Errorf("accessor table line %d: append to a %s", row.Line, t)
				}
				out = append(out, argSpec{"value", t.Elem})
			}
		}
	}
	return out, nil
}

var genOpts = refssz.GenOpts{MaxList: 6}

func genU64(rt *rapid.T, label string) uint64 {
	switch rapid.IntRange(0, 5).Draw(rt, label+"_k") {
	case 0:
		return rapid.Uint64Range(0, 40).Draw(rt, label)
	case 1:
		return ^uint64(0) - rapid.Uint64Range(0, 40).Draw(rt, label)
	case 2:
		return 1<<32 + rapid.Uint64Range(0, 40).Draw(rt, label)
	case 3:
		return rapid.Uint64().Draw(rt, label)
	default:
		return rapid.Uint64Range(0, 1<<20).Draw(rt, label)
	}
}

func (e *env) genArgs(rt *rapid.T, specs []argSpec) []Arg {
	out := make([]Arg, len(specs))
	for i, s := range specs {
		label := fmt.Sprintf("arg%d", i)
		switch s.kind {
		case "index":
			out[i] = Arg{U: genU64(rt, label), OOB: rapid.IntRange(0, 9).Draw(rt, label+"_oob") == 0}
		case "u64":
			out[i] = Arg{U: genU64(rt, label)}
		case "balance":
			inc, maxEff := e.cfg.U["EFFECTIVE_BALANCE_INCREMENT"], e.cfg.U["MAX_EFFECTIVE_BALANCE"]
			switch rapid.IntRange(0, 6).Draw(rt, label+"_k") {
			case 6:
				// a count of increments that is small modulo 2^32 (or 2^16): huge balances whose increment count must not be narrowed
				sh := rapid.SampledFrom([]uint{32, 32, 16}).Draw(rt, label+"_sh")
				k := rapid.Uint64Range(1, 4).Draw(rt, label+"_hi")
				out[i] = Arg{U: (k<<sh+rapid.Uint64Range(0, 40).Draw(rt, label))*inc + rapid.SampledFrom([]uint64{0, 7, inc - 1}).Draw(rt, label+"_r")}
			case 0:
				out[i] = Arg{U: maxEff + rapid.Uint64Range(0, 2*inc).Draw(rt, label)}
			case 1:
				out[i] = Arg{U: maxEff - rapid.Uint64Range(0, 2*inc).Draw(rt, label)}
			case 2:
				out[i] = Arg{U: rapid.Uint64Range(0, 3*inc).Draw(rt, label)}
			case 3:
				out[i] = Arg{U: inc*rapid.Uint64Range(0, 40).Draw(rt, label) + rapid.SampledFrom([]uint64{0, 1, inc - 1}).Draw(rt, label+"_r")}
			default:
				out[i] = Arg{U: genU64(rt, label)}
			}
		case "value":
			out[i] = Arg{Hex: hex.EncodeToString(refssz.Serialize(s.t, refssz.Random(rt, s.t, genOpts, label)))}
			if s.t != nil && s.t.Kind == refssz.KContainer && rapid.IntRange(0, 2).Draw(rt, label+"_near") == 0 {
				out[i].U = 1 + rapid.Uint64Range(0, 63).Draw(rt, label+"_near_field") // set rows: the stored value with one field changed
			}
		case "selvalue":
			out[i] = Arg{U: 1 + rapid.Uint64Range(0, 40).Draw(rt, label+"_sel"), Hex: hex.EncodeToString(refssz.Serialize(s.t, refssz.Random(rt, s.t, genOpts, label)))}
		}
	}
	return out
}

// ---------------------------------------------------------------- states

func drawLen(rt *rapid.T, limit uint64, label string) int {
	hi := uint64(6)
	if limit < hi {
		hi = limit
	}
	switch rapid.IntRange(0, 11).Draw(rt, label+"_lk") {
	case 0:
		return 0
	case 1:
		return int(min(limit, 1))
	case 2, 3:
		if limit <= 48 {
			return int(limit) // at the limit: appends must fail cleanly
		}
		return int(hi)
	case 4:
		if limit <= 48 && limit > 0 {
			return int(limit - 1)
		}
		return int(hi)
	default:
		lo := uint64(3)
		if hi < lo {
			lo = hi
		}
		return int(rapid.Uint64Range(lo, hi).Draw(rt, label+"_len"))
	}
}

func genList(rt *rapid.T, t *refssz.Type, n int, label string) []any {
	out := make([]any, n)
	for i := range out {
		out[i] = refssz.Random(rt, t.Elem, genOpts, label)
	}
	return out
}

// genState draws a state value of the environment's fork: every field random (refssz.Random),
// top-level lists short but mostly non-empty, and — when `consistent` — the registry-parallel
// lists (balances, participation, inactivity scores) as long as the registry, as in every state a
// transition can produce.
func (e *env) genState(rt *rapid.T, consistent bool) any {
	v := e.genStateRaw(rt, consistent)
	// rapid's first cases are all-minimal draws (every element equal): three quarters of the states
	// are post-processed so that neighbours of the same type differ, which is what makes a wrong
	// position visible; the rest stay as drawn
	if rapid.IntRange(0, 3).Draw(rt, "diversify") > 0 {
		v = diversify(e.stateT, v, 0)
	}
	return v
}

// diversify returns v with adjacent list/vector elements and same-typed sibling fields made
// pairwise different (a deterministic function of v).
func diversify(t *refssz.Type, v any, depth int) any {
	if depth > 3 {
		return v
	}
	switch t.Kind {
	case refssz.KContainer:
		x := append([]any{}, v.([]any)...)
		for i, f := range t.Fields {
			x[i] = diversify(f.T, x[i], depth+1)
		}
		for j := 1; j < len(x); j++ {
			for tries := 0; tries < 8; tries++ {
				clash := false
				for i := 0; i < j; i++ {
					if sameType(t.Fields[i].T, t.Fields[j].T) && eqVal(t.Fields[j].T, x[i], x[j]) {
						clash = true
					}
				}
				if !clash {
					break
				}
				x[j] = perturbN(t.Fields[j].T, x[j], tries)
			}
		}
		return x
	case refssz.KVector, refssz.KList:
		x := append([]any{}, v.([]any)...)
		if len(x) > 80 {
			return x
		}
		for i := range x {
			x[i] = diversify(t.Elem, x[i], depth+1)
		}
		for j := 1; j < len(x); j++ {
			for tries := 0; tries < 8; tries++ {
				if !eqVal(t.Elem, x[j], x[j-1]) && !(j == len(x)-1 && eqVal(t.Elem, x[j], x[0])) {
					break
				}
				x[j] = perturbN(t.Elem, x[j], tries)
			}
		}
		return x
	}
	return v
}

// perturbN changes a value a little, differently for different n.
func perturbN(t *refssz.Type, v any, n int) any {
	for i := 0; i <= n; i++ {
		v = perturb(t, v)
	}
	if t.Kind == refssz.KUint && t.Bits <= 64 && t.Bits > 1 {
		mask := ^uint64(0)
		if t.Bits < 64 {
			mask = (uint64(1) << uint(t.Bits)) - 1
		}
		return (v.(uint64) + uint64(2*n+1)) & mask
	}
	return v
}

func (e *env) genStateRaw(rt *rapid.T, consistent bool) any {
	t := e.stateT
	out := make([]any, len(t.Fields))
	nVal := -1
	par := map[string]bool{}
	for _, n := range parallelLists {
		par[n] = true
	}
	for i, f := range t.Fields {
		switch {
		case f.Name == "validators":
			nVal = drawLen(rt, f.T.N, f.Name)
			out[i] = genList(rt, f.T, nVal, f.Name)
		case par[f.Name]:
			n := nVal
			if !consistent || n < 0 {
				n = drawLen(rt, f.T.N, f.Name)
			}
			out[i] = genList(rt, f.T, n, f.Name)
		case f.T.Kind == refssz.KList:
			out[i] = genList(rt, f.T, drawLen(rt, f.T.N, f.Name), f.Name)
		default:
			out[i] = refssz.Random(rt, f.T, genOpts, f.Name)
		}
	}
	// repeated eth1 votes, so that Count has something to count
	if i := t.FieldIndex("eth1_data_votes"); i >= 0 {
		v := out[i].([]any)
		if len(v) >= 2 && rapid.Bool().Draw(rt, "dup_vote") {
			v[len(v)-1] = v[0]
		}
	}
	return out
}
