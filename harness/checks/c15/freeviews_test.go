// C15 (part): typed views that are not sub-views of a state (so the accessor table cannot reach them):
// WithdrawalView, BLSToExecutionChangeView, SignedBLSToExecutionChangeView (common/withdrawals.go) and
// HistoricalBatchView (phase0/history.go, an anchored file). Found by tools/libcov.py: none of their
// accessors had ever been executed. Each getter must return the field it names of the value the view was
// loaded from; Raw() the whole value; the BatchRoots sub-views of a HistoricalBatch read/write their own
// vector and leave the sibling alone.
//
// Sensitivity (tools/trymut.py, quick tier):
//
//	V1 WithdrawalView.ValidatorIndex reads field 0                               freeview/Withdrawal.ValidatorIndex/wrong
//	V2 HistoricalBatchView.StateRoots returns field 0                            freeview/HistoricalBatch.StateRoots/wrong
//	V3 BLSToExecutionChangeView.ToExecutionAddress reads field 1                 freeview/BLSToExecutionChange.ToExecutionAddress/error
package c15

import (
	"bytes"
	"encoding/hex"
	"fmt"

	"github.com/protolambda/zrnt/eth2/beacon/common"
	"github.com/protolambda/zrnt/eth2/beacon/phase0"
	"github.com/protolambda/ztyp/codec"
	"github.com/protolambda/ztyp/tree"
	"github.com/protolambda/ztyp/view"
	"pgregory.net/rapid"

	"zrntverif/refssz"
	"zrntverif/report"
)

var freeViewTypes = []string{"Withdrawal", "BLSToExecutionChange", "SignedBLSToExecutionChange", "HistoricalBatch"}

func genFreeView(rt *rapid.T) *Case {
	c := &Case{Kind: "freeview"}
	c.Preset = rapid.SampledFrom([]string{"tiny", "minimal", "odd"}).Draw(rt, "preset")
	c.Chain = rapid.SampledFrom(freeViewTypes).Draw(rt, "type")
	e, err := getEnv(c.Preset, 0)
	if err != nil {
		panic(err)
	}
	t := e.sch.MustGet(c.Chain)
	v := refssz.Random(rt, t, genOpts, "v")
	c.State = hex.EncodeToString(refssz.Serialize(t, v))
	c.Args = []Arg{{U: genU64(rt, "slot")}, {Hex: hex.EncodeToString(rapid.SliceOfN(rapid.Byte(), 32, 32).Draw(rt, "root"))}}
	return c
}

func runFreeView(r *report.Run, c *Case) *report.Failure {
	e, err := getEnv(c.Preset, 0)
	if err != nil {
		return report.Failf("harness", "%v", err)
	}
	t, err := e.sch.Get(c.Chain)
	if err != nil {
		return report.Failf("harness", "%v", err)
	}
	B, _ := hex.DecodeString(c.State)
	V, err := refssz.Deserialize(t, B)
	if err != nil {
		return report.Failf("harness", "case bytes: %v", err)
	}
	f := V.([]any)
	fail := func(what, format string, args ...any) *report.Failure {
		return report.Failf("freeview/"+c.Chain+"."+what, "[%s] "+format, append([]any{c.Preset}, args...)...)
	}
	load := func(td view.TypeDef) (view.View, error) {
		return td.Deserialize(codec.NewDecodingReader(bytes.NewReader(B), uint64(len(B))))
	}
	eqU := func(what string, got uint64, err error, want any) *report.Failure {
		if err != nil {
			return fail(what+"/error", "%v", err)
		}
		if got != want.(uint64) {
			return fail(what+"/wrong", "= %d, the value holds %d", got, want)
		}
		return nil
	}
	eqB := func(what string, got []byte, err error, want any) *report.Failure {
		if err != nil {
			return fail(what+"/error", "%v", err)
		}
		if !bytes.Equal(got, want.([]byte)) {
			return fail(what+"/wrong", "= %x, the value holds %x", got, want)
		}
		return nil
	}
	r.Eval(1)
	switch c.Chain {
	case "Withdrawal":
		v, err := common.AsWithdrawal(load(common.WithdrawalType))
		if err != nil {
			return fail("load/error", "%v", err)
		}
		a, e1 := v.Index()
		b, e2 := v.ValidatorIndex()
		ad, e3 := v.Address()
		am, e4 := v.Amount()
		for _, x := range []*report.Failure{eqU("Index", uint64(a), e1, f[0]), eqU("ValidatorIndex", uint64(b), e2, f[1]), eqB("Address", ad[:], e3, f[2]), eqU("Amount", uint64(am), e4, f[3])} {
			if x != nil {
				return x
			}
		}
		raw, err := v.Raw()
		if err != nil {
			return fail("Raw/error", "%v", err)
		}
		if uint64(raw.Index) != f[0].(uint64) || uint64(raw.ValidatorIndex) != f[1].(uint64) || !bytes.Equal(raw.Address[:], f[2].([]byte)) || uint64(raw.Amount) != f[3].(uint64) {
			return fail("Raw/wrong", "= %+v, the value is %v", raw, f)
		}
	case "BLSToExecutionChange", "SignedBLSToExecutionChange":
		inner := f
		var cv *common.BLSToExecutionChangeView
		if c.Chain == "SignedBLSToExecutionChange" {
			inner = f[0].([]any)
			sv, err := common.AsSignedBLSToExecutionChange(load(common.SignedBLSToExecutionChangeType))
			if err != nil {
				return fail("load/error", "%v", err)
			}
			sig, e1 := sv.Signature()
			if x := eqB("Signature", sig[:], e1, f[1]); x != nil {
				return x
			}
			cv, err = sv.BLSToExecutionChange()
			if err != nil {
				return fail("BLSToExecutionChange/error", "%v", err)
			}
			raw, err := sv.Raw()
			if err != nil {
				return fail("Raw/error", "%v", err)
			}
			if !bytes.Equal(raw.Signature[:], f[1].([]byte)) || uint64(raw.BLSToExecutionChange.ValidatorIndex) != inner[0].(uint64) ||
				!bytes.Equal(raw.BLSToExecutionChange.FromBLSPubKey[:], inner[1].([]byte)) || !bytes.Equal(raw.BLSToExecutionChange.ToExecutionAddress[:], inner[2].([]byte)) {
				return fail("Raw/wrong", "= %+v, the value is %v", raw, f)
			}
		} else {
			var err error
			cv, err = common.AsBLSToExecutionChange(load(common.BLSToExecutionChangeType))
			if err != nil {
				return fail("load/error", "%v", err)
			}
		}
		vi, e1 := cv.ValidatorIndex()
		pk, e2 := cv.FromBLSPubKey()
		ad, e3 := cv.ToExecutionAddress()
		name := "BLSToExecutionChange"
		_ = name
		for _, x := range []*report.Failure{eqU("ValidatorIndex", uint64(vi), e1, inner[0]), eqB("FromBLSPubKey", pk[:], e2, inner[1]), eqB("ToExecutionAddress", ad[:], e3, inner[2])} {
			if x != nil {
				return x
			}
		}
		raw, err := cv.Raw()
		if err != nil {
			return fail("Raw/error", "%v", err)
		}
		if uint64(raw.ValidatorIndex) != inner[0].(uint64) || !bytes.Equal(raw.FromBLSPubKey[:], inner[1].([]byte)) || !bytes.Equal(raw.ToExecutionAddress[:], inner[2].([]byte)) {
			return fail("Raw/wrong", "= %+v, the value is %v", raw, inner)
		}
	case "HistoricalBatch":
		hv, err := phase0.AsHistoricalBatch(load(phase0.HistoricalBatchType(e.spec)))
		if err != nil {
			return fail("load/error", "%v", err)
		}
		br, e1 := hv.BlockRoots()
		sr, e2 := hv.StateRoots()
		if e1 != nil || e2 != nil {
			return fail("BlockRoots/error", "%v %v", e1, e2)
		}
		blocks, states := f[0].([]any), f[1].([]any)
		n := uint64(len(blocks))
		slot := c.Args[0].U
		at := slot % n
		gb, e1 := br.GetRoot(common.Slot(slot))
		gs, e2 := sr.GetRoot(common.Slot(slot))
		if x := eqB("BlockRoots", gb[:], e1, blocks[at]); x != nil {
			return x
		}
		if x := eqB("StateRoots", gs[:], e2, states[at]); x != nil {
			return x
		}
		// write through one sub-view: the batch re-serializes with exactly that element changed
		nr, _ := hex.DecodeString(c.Args[1].Hex)
		var root common.Root
		copy(root[:], nr)
		if err := sr.SetRoot(common.Slot(slot), root); err != nil {
			return fail("StateRoots.SetRoot/error", "%v", err)
		}
		states2 := append([]any{}, states...)
		states2[at] = nr
		want := refssz.Serialize(t, []any{blocks, states2})
		var buf bytes.Buffer
		if err := hv.Serialize(codec.NewEncodingWriter(&buf)); err != nil {
			return fail("Serialize/error", "%v", err)
		}
		if !bytes.Equal(buf.Bytes(), want) {
			return fail("StateRoots.SetRoot/wrong-value-written", "after StateRoots().SetRoot(%d, %x): %s", slot, nr, refssz.DiffBytes(t, buf.Bytes(), want))
		}
		if got, want := hv.HashTreeRoot(hfnC15), refssz.HashTreeRoot(t, []any{blocks, states2}); [32]byte(got) != want {
			return fail("HashTreeRoot/stale", "root after the write %x, SSZ root of the content %x", got, want)
		}
	default:
		return report.Failf("harness", "unknown free view %q", c.Chain)
	}
	r.Hit("freeview:" + c.Chain)
	r.Class("freeview:" + c.Chain)
	r.NonTrivial("freeview|" + c.Chain + "|" + c.Preset)
	return nil
}

var _ = fmt.Sprint
var hfnC15 = tree.GetHashFn()
