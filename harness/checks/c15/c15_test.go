// C15 — state accessors are exact and state copies are independent.
//
// (a) ACCESSORS. /verif/spec_tables/state_accessors.txt is data: method -> spec field path -> kind,
// for every fork's *BeaconStateView (phase0 … electra) and every typed sub-view reachable from it.
// A random state (refssz.Random, presets "tiny", "odd" (non-power-of-two vector lengths) and "minimal") is serialised by refssz and loaded
// into the library from bytes; the named method chain is invoked by reflection. Oracle: a getter's
// result equals the value at that path of the refssz-decoded state; after a writer the library
// state, re-serialised, equals byte for byte the model state in which ONLY the named
// field/element changed (and its hash-tree-root equals the independent one); index accessors
// address exactly the element they name (modulo wrap, out-of-range -> error and no change).
// Exported methods of each receiver type that the table does not mention are listed under
// `uncovered` in the evidence.
// (b) COPIES. Histories over 2–4 states related by CopyState (+ EpochsContext.Clone for sim
// locks): any accessor of (a) on random states of every fork, and full block / slot transitions of
// the chain simulator on sibling copies, raw copies of chain states mutated through accessors.
// After every action every OTHER held state still serialises to its snapshot bytes, has its
// snapshot root, and (locks) a context equal to NewEpochsContext of it.
//
// Sensitivity (tools/trymut.py C15 <file> <old> <new>; every one CAUGHT in the quick tier, seed 1):
//
//	M1 eth2/beacon/altair/state.go     `_statePreviousJustifiedCheckpoint` / `_stateCurrentJustifiedCheckpoint` swapped
//	   -> altair.state.{Previous,Current}JustifiedCheckpoint/wrong-result, Set…/other-field-changed
//	M2 eth2/beacon/phase0/validator.go ExitEpoch() reads `_validatorWithdrawableEpoch` -> Validator.ExitEpoch/wrong-result
//	M3 eth2/beacon/phase0/history.go   SetRoot without `% v.VectorLength`               -> BatchRoots.SetRoot/unexpected-error
//	M4 eth2/beacon/capella/state.go    CopyState returns the same view (`return state, nil`)
//	   -> copies/write-to-copy-visible-in-original, copies/write-to-original-visible-in-copy, capella.state.CopyState/copy-aliases-original
//	M5 eth2/beacon/phase0/balances.go  SetBalance writes index+1                         -> Balances.SetBalance/other-field-changed
//	M6 eth2/beacon/deneb/state.go      SetSlot also overwrites genesis_time              -> deneb.state.SetSlot/other-field-changed
//	M7 eth2/beacon/phase0/randao.go    GetRandomMix reads (epoch+1) % length             -> RandaoMixes.GetRandomMix/wrong-result
//	M8 eth2/beacon/electra/state.go    SetEarliestExitEpoch writes `_earliestConsolidationEpoch` -> electra.state.SetEarliestExitEpoch/not-written
//	M9 eth2/beacon/common/header.go    SetStateRoot writes position 2 (parent_root)      -> Header.SetStateRoot/other-field-changed
//
// Findings (all fixed in /repo, replays in /verif/replays/regress/C15-F0*): F01 CheckpointView.Root read
// field 0; F02 SetBalances([]) left a list view that panics when hashed; F03 AddValidator (altair+)
// appended a one-byte zero to the uint64 inactivity scores and cleared a byte of an existing score.
// False alarm corrected: a "tiny" preset with VALIDATOR_REGISTRY_LIMIT=16 makes the participation
// list a single chunk (tree depth 0), where FillZeroes(0) panics inside ztyp — no preset has that
// shape; the preset now keeps the limit above 32.
package c15

import (
	"bytes"
	"context"
	"encoding/hex"
	"encoding/json"
	"fmt"
	"strings"
	"testing"
	"time"

	"github.com/protolambda/zrnt/eth2/beacon/common"
	"pgregory.net/rapid"

	"zrntverif/refspec"
	"zrntverif/refssz"
	"zrntverif/report"
	"zrntverif/sim"
	"zrntverif/zb"
)

type Action struct {
	Op    string         `json:"op"` // call | copy | fork | rawcopy | block | skip
	H     int            `json:"h"`
	Chain string         `json:"accessor,omitempty"`
	Args  []Arg          `json:"args,omitempty"`
	Slots int            `json:"slots,omitempty"`
	Plan  *sim.BlockPlan `json:"plan,omitempty"`
}

type SimPart struct {
	Config  sim.ConfigCase  `json:"config"`
	Genesis sim.GenesisCase `json:"genesis"`
}

// Case is the replayable value of one generated case.
type Case struct {
	Kind    string   `json:"kind"` // accessor | copies | sim
	Preset  string   `json:"preset,omitempty"`
	Fork    string   `json:"fork,omitempty"`
	State   string   `json:"state_ssz,omitempty"` // hex SSZ of the initial state (refssz encoding of the drawn value)
	Chain   string   `json:"accessor,omitempty"`
	Args    []Arg    `json:"args,omitempty"`
	Actions []Action `json:"actions,omitempty"`
	Sim     *SimPart `json:"sim,omitempty"`
}

func (c *Case) summary() any {
	return map[string]any{"kind": c.Kind, "preset": c.Preset, "fork": c.Fork, "state_ssz_bytes": len(c.State) / 2, "accessor": c.Chain, "args": c.Args, "actions": c.Actions, "sim": c.Sim}
}

var mutatingOps = map[string]bool{"AddValidator": true, "SeedRandao": true, "RotateSyncCommittee": true, "AddAt": true, "FillZeroes": true, "RotatePendingAttestations": true, "RotateParticipation": true, "SetRecentRoots": true}

func isWriter(ch *Chain) bool {
	l := ch.Leaf()
	switch l.Kind {
	case "set", "append", "inc", "zero", "settrue", "clear":
		return true
	case "op":
		return mutatingOps[l.Target]
	}
	return false
}

func load(e *env, stateHex string) (common.BeaconState, any, []byte, *report.Failure) {
	b, err := hex.DecodeString(stateHex)
	if err != nil {
		return nil, nil, nil, report.Failf("harness", "bad state hex: %v", err)
	}
	pre, err := refssz.Deserialize(e.stateT, b)
	if err != nil {
		return nil, nil, nil, report.Failf("harness", "case state does not decode: %v", err)
	}
	var lib common.BeaconState
	if f := report.Guard("load/panic", func() *report.Failure {
		lib, err = zb.LoadStateX(e.spec, e.fork, b)
		return nil
	}); f != nil {
		return nil, nil, nil, f
	}
	if err != nil {
		return nil, nil, nil, report.Failf("load/error", "%s state (%d bytes, valid per refssz) is rejected by the library: %v", e.forkName(), len(b), err)
	}
	return lib, pre, b, nil
}

func run(r *report.Run, c *Case) (f *report.Failure) {
	ok := report.WithTimeout(120*time.Second, func() {
		f = report.Guard("harness/panic", func() *report.Failure {
			switch c.Kind {
			case "accessor":
				return runAccessor(r, c)
			case "copies":
				return runCopies(r, c)
			case "sim":
				return runSim(r, c)
			case "freeview":
				return runFreeView(r, c)
			}
			return report.Failf("harness", "unknown case kind %q", c.Kind)
		})
	})
	if !ok {
		return report.Failf(c.Kind+"/blocked", "case did not finish within 120 s")
	}
	return f
}

// ---------------------------------------------------------------- (a)

func runAccessor(r *report.Run, c *Case) *report.Failure {
	e, err := getEnv(c.Preset, forkIndex(c.Fork))
	if err != nil {
		return report.Failf("harness", "%v", err)
	}
	ch := e.tab.ChainByName(e.fork, c.Chain)
	if ch == nil {
		return report.Failf("harness", "no accessor %q on %s", c.Chain, c.Fork)
	}
	lib, pre, _, f := load(e, c.State)
	if f != nil {
		return f
	}
	// loading must not lose anything either
	if f := e.judgeState(lib, pre, pre, nil); f != nil {
		return report.Failf("load/"+f.Sig, "%s state right after loading: %s", c.Fork, f.Msg)
	}
	r.Eval(1)
	o := e.step(lib, pre, ch, c.Args)
	if o.fail != nil {
		return o.fail
	}
	key := c.Fork + ":" + c.Chain
	r.Class("accessor:" + ch.Leaf().Kind + ":" + o.note)
	if o.near {
		r.Class("accessor:set:near-write(one field of the stored container changed)")
		r.Hit("set:near-write")
	}
	if strings.HasPrefix(o.note, "skipped") {
		return nil
	}
	if o.readback {
		r.Class("accessor:set:read-back-through-getter")
	}
	sampled := map[string]bool{"get": true, "set": true, "append": true, "op": true}
	if o.note == "ok" && o.nontrivial {
		r.NonTrivial("a|" + key)
		r.Hit("row:" + key)
		r.Class("accessor-nontrivial")
		if !r.InRegress && sampled[ch.Leaf().Kind] {
			r.Sample("accessor:"+ch.Leaf().Kind, c.summary)
		}
	} else if o.note != "ok" {
		r.Hit("error-path:" + o.note)
		if !r.InRegress {
			r.Sample("accessor:"+o.note, c.summary)
		}
	}
	return nil
}

// ---------------------------------------------------------------- (b)

type handle struct {
	lib    common.BeaconState // raw handles; nil for locks
	lock   *sim.Lock
	e      *env // raw handles: environment of the state's fork
	model  any  // raw handles: model value
	snapB  []byte
	snapR  [32]byte
	origin int
}

func (h *handle) state() common.BeaconState {
	if h.lock != nil {
		return h.lock.Lib
	}
	return h.lib
}

func (h *handle) snapshot() *report.Failure {
	b, err := zb.StateBytes(h.state())
	if err != nil {
		return report.Failf("copies/state-unserialisable", "%v", err)
	}
	h.snapB, h.snapR = b, zb.StateRoot(h.state())
	return nil
}

type pairCount struct {
	a, b   int
	ma, mb int
	kinds  map[string]bool
}

type machine struct {
	r     *report.Run
	hs    []*handle
	pairs []*pairCount
	diffT func(h *handle) *refssz.Type
	label string
}

func relation(hs []*handle, acted, other int) string {
	switch {
	case hs[acted].origin == other:
		return "write-to-copy-visible-in-original"
	case hs[other].origin == acted:
		return "write-to-original-visible-in-copy"
	}
	return "write-visible-in-sibling-copy"
}

// others checks that every handle except `acted` still is what its snapshot says.
func (m *machine) others(acted int, what string) *report.Failure {
	for j, h := range m.hs {
		if j == acted {
			continue
		}
		m.r.Eval(1)
		b, err := zb.StateBytes(h.state())
		if err != nil {
			return report.Failf("copies/state-unserialisable", "state %d after %s on state %d: %v", j, what, acted, err)
		}
		if !bytes.Equal(b, h.snapB) {
			d := ""
			if t := m.diffT(h); t != nil {
				d = refssz.DiffBytes(t, b, h.snapB)
			}
			return report.Failf("copies/"+relation(m.hs, acted, j), "%s: after %s on state %d, state %d (untouched; origin: copy of %d) no longer serialises to its snapshot (now != snapshot): %s", m.label, what, acted, j, h.origin, trunc(d, 900))
		}
		if rt := zb.StateRoot(h.state()); rt != h.snapR {
			return report.Failf("copies/"+relation(m.hs, acted, j)+"/root", "%s: after %s on state %d, state %d has equal bytes but root %x, snapshot root %x", m.label, what, acted, j, rt, h.snapR)
		}
		if h.lock != nil {
			if d := h.lock.CheckEpc(); d != "" {
				return report.Failf("copies/context-of-untouched-state-stale", "%s: after %s on state %d, the context of state %d no longer equals NewEpochsContext of it: %s", m.label, what, acted, j, trunc(d, 600))
			}
		}
	}
	return nil
}

func (m *machine) addPair(a, b int) {
	m.pairs = append(m.pairs, &pairCount{a: a, b: b, kinds: map[string]bool{}})
}

// mutated records a state-changing action for the non-triviality rule (>= 2 mutations on each
// side of a copy) and reports the keys that became non-trivial.
func (m *machine) mutated(h int, kind string, fork string) {
	for _, p := range m.pairs {
		if p.a != h && p.b != h {
			continue
		}
		if p.a == h {
			p.ma++
		} else {
			p.mb++
		}
		p.kinds[kind] = true
		if p.ma >= 2 && p.mb >= 2 {
			m.r.NonTrivial("b|" + m.label + "|" + fork + "|" + strings.Join(sortedKeys(p.kinds), ","))
			m.r.Hit("copies:two-mutations-on-each-side")
			m.r.Hit("copies:" + m.label + ":" + fork)
			m.r.Hit("copies:" + m.label)
			m.r.Class("copies-nontrivial-pair-actions")
		}
	}
}

func runCopies(r *report.Run, c *Case) *report.Failure {
	e, err := getEnv(c.Preset, forkIndex(c.Fork))
	if err != nil {
		return report.Failf("harness", "%v", err)
	}
	lib, pre, _, f := load(e, c.State)
	if f != nil {
		return f
	}
	m := &machine{r: r, label: "raw", diffT: func(h *handle) *refssz.Type { return h.e.stateT }}
	h0 := &handle{lib: lib, e: e, model: pre, origin: -1}
	if f := h0.snapshot(); f != nil {
		return f
	}
	m.hs = []*handle{h0}
	for i := range c.Actions {
		a := &c.Actions[i]
		if a.H < 0 || a.H >= len(m.hs) {
			continue
		}
		h := m.hs[a.H]
		switch a.Op {
		case "copy":
			if len(m.hs) >= 4 {
				continue
			}
			var cp common.BeaconState
			var err error
			if f := report.Guard("copies/CopyState/panic", func() *report.Failure { cp, err = h.lib.CopyState(); return nil }); f != nil {
				return f
			}
			if err != nil {
				return report.Failf("copies/CopyState/error", "%v", err)
			}
			n := &handle{lib: cp, e: e, model: h.model, origin: a.H}
			if f := n.snapshot(); f != nil {
				return f
			}
			if !bytes.Equal(n.snapB, h.snapB) || n.snapR != h.snapR {
				return report.Failf("copies/copy-differs", "CopyState of state %d serialises or hashes differently from it: %s", a.H, refssz.DiffBytes(e.stateT, n.snapB, h.snapB))
			}
			m.hs = append(m.hs, n)
			m.addPair(a.H, len(m.hs)-1)
			r.Class("copies:copy")
			if f := m.others(len(m.hs)-1, "CopyState"); f != nil {
				return f
			}
		case "call":
			ch := e.tab.ChainByName(e.fork, a.Chain)
			if ch == nil {
				continue
			}
			o := e.step(h.lib, h.model, ch, a.Args)
			if o.fail != nil {
				o.fail.Msg = fmt.Sprintf("(action %d of a copy history, on state %d) %s", i, a.H, o.fail.Msg)
				return o.fail
			}
			h.model = o.post
			if f := h.snapshot(); f != nil {
				return f
			}
			if f := m.others(a.H, ch.Name()); f != nil {
				return f
			}
			if o.changed {
				m.mutated(a.H, ch.Leaf().Kind, c.Fork)
				r.Class("copies:write")
			} else {
				r.Class("copies:read-or-noop")
			}
		}
	}
	r.Sample("copies:raw", c.summary)
	return nil
}

func simEnv(cfg *refspec.Config, fork int) *env {
	return newEnv("sim", cfg, fork)
}

func runSim(r *report.Run, c *Case) *report.Failure {
	if c.Sim == nil {
		return report.Failf("harness", "sim case without configuration")
	}
	cfg := c.Sim.Config.Build()
	chain, err := sim.NewChain(cfg, &c.Sim.Genesis)
	if err != nil {
		return nil
	}
	l, err := sim.NewLock(chain)
	if err != nil {
		return report.Failf("genesis/load", "%v", err)
	}
	ctx := context.Background()
	sch := refspec.SchemaTable().Resolve(cfg.U)
	m := &machine{r: r, label: "sim", diffT: func(h *handle) *refssz.Type {
		f := zb.ForkOfStateX(h.state())
		if f < 0 {
			return nil
		}
		return sch.MustGet(zb.StateTypeNameX(f))
	}}
	h0 := &handle{lock: l, origin: -1}
	if f := h0.snapshot(); f != nil {
		return f
	}
	m.hs = []*handle{h0}
	envs := map[int]*env{}
	forkName := func(h *handle) string { return zb.ForkNamesX[zb.ForkOfStateX(h.state())] }
	for i := range c.Actions {
		a := &c.Actions[i]
		if a.H < 0 || a.H >= len(m.hs) {
			continue
		}
		h := m.hs[a.H]
		switch a.Op {
		case "fork":
			if h.lock == nil || len(m.hs) >= 4 {
				continue
			}
			var s *sim.Lock
			var err error
			if f := report.Guard("copies/CopyState/panic", func() *report.Failure { s, err = h.lock.ForkLock(); return nil }); f != nil {
				return f
			}
			if err != nil {
				return report.Failf("copies/CopyState/error", "%v", err)
			}
			n := &handle{lock: s, origin: a.H}
			if f := n.snapshot(); f != nil {
				return f
			}
			if !bytes.Equal(n.snapB, h.snapB) || n.snapR != h.snapR {
				return report.Failf("copies/copy-differs", "CopyState of state %d serialises or hashes differently from it", a.H)
			}
			if d := s.CheckEpc(); d != "" {
				return report.Failf("copies/cloned-context-differs", "context cloned at slot %d != NewEpochsContext(copy): %s", h.lock.St.Slot, trunc(d, 600))
			}
			m.hs = append(m.hs, n)
			m.addPair(a.H, len(m.hs)-1)
			r.Class("sim:fork")
			if f := m.others(len(m.hs)-1, "CopyState+Clone"); f != nil {
				return f
			}
		case "rawcopy":
			if len(m.hs) >= 4 {
				continue
			}
			src := h.state()
			if h.lock != nil {
				src = h.lock.Lib.BeaconState
			}
			var cp common.BeaconState
			var err error
			if f := report.Guard("copies/CopyState/panic", func() *report.Failure { cp, err = src.CopyState(); return nil }); f != nil {
				return f
			}
			if err != nil {
				return report.Failf("copies/CopyState/error", "%v", err)
			}
			fork := zb.ForkOfStateX(cp)
			if fork < 0 {
				return report.Failf("harness", "unknown state type %T", cp)
			}
			if envs[fork] == nil {
				envs[fork] = simEnv(cfg, fork)
			}
			n := &handle{lib: cp, e: envs[fork], origin: a.H}
			if f := n.snapshot(); f != nil {
				return f
			}
			if !bytes.Equal(n.snapB, h.snapB) || n.snapR != h.snapR {
				return report.Failf("copies/copy-differs", "CopyState of state %d serialises or hashes differently from it", a.H)
			}
			mv, err := refssz.Deserialize(n.e.stateT, n.snapB)
			if err != nil {
				return report.Failf("harness", "chain state does not decode with refssz: %v", err)
			}
			n.model = mv
			m.hs = append(m.hs, n)
			m.addPair(a.H, len(m.hs)-1)
			r.Class("sim:rawcopy")
			if f := m.others(len(m.hs)-1, "CopyState"); f != nil {
				return f
			}
		case "block", "skip":
			if h.lock == nil {
				continue
			}
			lk := h.lock
			d := uint64(a.Slots)
			if d < 1 {
				d = 1
			}
			slot := lk.St.Slot + d
			var res *sim.StepResult
			if a.Op == "block" && a.Plan != nil {
				res = lk.StepBlock(ctx, slot, a.Plan)
			} else {
				res = lk.StepSkip(ctx, slot)
			}
			if res.BuildErr != nil || res.RefErr != nil {
				r.Class("sim:generator_rejects")
				return nil
			}
			if res.LibErr != nil && strings.Contains(res.LibErr.Error(), "no active validators") {
				r.Excluded("F-C02-05:no-active-validators")
				return nil
			}
			if res.SlotsErr != nil || res.SlotsDiff != "" || res.LibErr != nil || res.Diff != "" {
				r.Class("sim:discarded_other_property(C01/C02)")
				return nil
			}
			if f := h.snapshot(); f != nil {
				return f
			}
			what := fmt.Sprintf("%s to slot %d", a.Op, slot)
			if f := m.others(a.H, what); f != nil {
				return f
			}
			kind := "skip"
			if a.Op == "block" && !res.BecameSkip {
				kind = "block"
			}
			m.mutated(a.H, kind, forkName(h))
			r.Class("sim:" + kind)
			if len(m.hs) > 1 {
				r.Hit("sim:" + kind + "-while-copies-held")
			}
		case "call":
			if h.lock != nil {
				continue
			}
			ch := h.e.tab.ChainByName(h.e.fork, a.Chain)
			if ch == nil {
				r.Class("sim:call-not-on-this-fork")
				continue
			}
			o := h.e.step(h.lib, h.model, ch, a.Args)
			if o.fail != nil {
				o.fail.Msg = fmt.Sprintf("(action %d, on a raw copy of a chain state) %s", i, o.fail.Msg)
				return o.fail
			}
			h.model = o.post
			if f := h.snapshot(); f != nil {
				return f
			}
			if f := m.others(a.H, ch.Name()); f != nil {
				return f
			}
			if o.changed {
				m.mutated(a.H, ch.Leaf().Kind, forkName(h))
				r.Class("sim:accessor-write-on-raw-copy")
				r.Hit("sim:accessor-write-on-copy-of-chain-state")
			}
		}
	}
	r.Sample("copies:sim", c.summary)
	return nil
}

// ---------------------------------------------------------------- generators

func genAccessorCase(rt *rapid.T, e *env, ch *Chain) (*Case, error) {
	specs, err := e.argSpecs(ch)
	if err != nil {
		return nil, err
	}
	consistent := ch.Leaf().Target == "AddValidator" || rapid.IntRange(0, 3).Draw(rt, "consistent") > 0
	st := e.genState(rt, consistent)
	return &Case{Kind: "accessor", Preset: e.preset, Fork: e.forkName(), State: hex.EncodeToString(refssz.Serialize(e.stateT, st)),
		Chain: ch.Name(), Args: e.genArgs(rt, specs)}, nil
}

func genCall(rt *rapid.T, e *env, chains []*Chain, h int) Action {
	ch := rapid.SampledFrom(chains).Draw(rt, "accessor")
	specs, err := e.argSpecs(ch)
	if err != nil {
		panic(err)
	}
	return Action{Op: "call", H: h, Chain: ch.Name(), Args: e.genArgs(rt, specs)}
}

func splitChains(e *env, allForks bool) (writers, all []*Chain) {
	for _, ch := range e.tab.Chains(e.fork) {
		if allForks {
			ok := true
			for _, r := range ch.Rows {
				if r.Forks != "all" {
					ok = false
				}
			}
			if !ok {
				continue
			}
		}
		if ch.Leaf().Target == "CopyState" {
			continue
		}
		all = append(all, ch)
		if isWriter(ch) {
			writers = append(writers, ch)
		}
	}
	return
}

func genCopiesCase(rt *rapid.T, e *env) *Case {
	writers, all := splitChains(e, false)
	st := e.genState(rt, true)
	c := &Case{Kind: "copies", Preset: e.preset, Fork: e.forkName(), State: hex.EncodeToString(refssz.Serialize(e.stateT, st))}
	for i := rapid.IntRange(0, 2).Draw(rt, "pre"); i > 0; i-- {
		c.Actions = append(c.Actions, genCall(rt, e, writers, 0))
	}
	c.Actions = append(c.Actions, Action{Op: "copy", H: 0})
	n := 2
	// at least two writes on each side of the first copy, interleaved with reads
	for k := 0; k < 3; k++ {
		for h := 0; h < 2; h++ {
			c.Actions = append(c.Actions, genCall(rt, e, writers, h))
			if rapid.Bool().Draw(rt, "read") {
				c.Actions = append(c.Actions, genCall(rt, e, all, rapid.IntRange(0, n-1).Draw(rt, "h")))
			}
		}
	}
	for k := rapid.IntRange(2, 10).Draw(rt, "more"); k > 0; k-- {
		if n < 4 && rapid.IntRange(0, 3).Draw(rt, "copy") == 0 {
			c.Actions = append(c.Actions, Action{Op: "copy", H: rapid.IntRange(0, n-1).Draw(rt, "h")})
			n++
			continue
		}
		pool := all
		if rapid.IntRange(0, 2).Draw(rt, "w") > 0 {
			pool = writers
		}
		c.Actions = append(c.Actions, genCall(rt, e, pool, rapid.IntRange(0, n-1).Draw(rt, "h")))
	}
	return c
}

func genSimCase(rt *rapid.T) *Case {
	far := refspec.FarFutureEpoch
	forks := rapid.SampledFrom([][4]uint64{{far, far, far, far}, {far, far, far, far}, {3, far, far, far}, {1, far, far, far}, {1, 2, far, far}, {1, 1, 2, far}, {1, 2, 2, 3}, {1, 1, 1, 2}, {2, 3, 3, 4}}).Draw(rt, "forks")
	o := map[string]uint64{"SLOTS_PER_EPOCH": 4, "TARGET_COMMITTEE_SIZE": 2, "MAX_COMMITTEES_PER_SLOT": 2, "SHUFFLE_ROUND_COUNT": 3,
		"SLOTS_PER_HISTORICAL_ROOT": 8, "EPOCHS_PER_HISTORICAL_VECTOR": 8, "EPOCHS_PER_SLASHINGS_VECTOR": 4, "EPOCHS_PER_ETH1_VOTING_PERIOD": 1,
		"MAX_SEED_LOOKAHEAD": 1, "MIN_PER_EPOCH_CHURN_LIMIT": 4, "CHURN_LIMIT_QUOTIENT": 4, "MAX_PER_EPOCH_ACTIVATION_CHURN_LIMIT": 8,
		"SYNC_COMMITTEE_SIZE": 4, "EPOCHS_PER_SYNC_COMMITTEE_PERIOD": 2, "MAX_DEPOSITS": rapid.SampledFrom([]uint64{1, 2, 16}).Draw(rt, "max_deposits"), "MAX_ATTESTATIONS": 128}
	c := &Case{Kind: "sim", Sim: &SimPart{Config: sim.ConfigCase{Family: "custom", ForkEpochs: forks, Override: o}}}
	nv := rapid.IntRange(12, 20).Draw(rt, "validators")
	c.Sim.Genesis = sim.GenesisCase{N: nv, GenesisTime: rapid.Uint64Range(0, 1<<32).Draw(rt, "genesis_time"), Eth1Seed: rapid.Uint64().Draw(rt, "eth1_seed")}
	for i := 0; i < nv; i++ {
		c.Sim.Genesis.AmountClass = append(c.Sim.Genesis.AmountClass, 0)
		c.Sim.Genesis.Eth1Cred = append(c.Sim.Genesis.Eth1Cred, rapid.Bool().Draw(rt, "eth1_cred"))
	}
	// accessor calls on raw copies: rows that exist on every fork (the fork at that point is not known here)
	e0, _ := getEnv("tiny", refspec.Phase0)
	ec := simEnv(c.Sim.Config.Build(), refspec.Phase0)
	_ = e0
	writers, _ := splitChains(ec, true)
	// partial participation matters: aggregation bits with gaps are what in-place filtering of a shared
	// committee slice would corrupt; full participation leaves such aliasing invisible
	profile := rapid.SampledFrom([]string{"full", "above23", "below23", "mixed"}).Draw(rt, "profile")
	step := func(h int) Action {
		if rapid.IntRange(0, 4).Draw(rt, "skip") == 0 {
			return Action{Op: "skip", H: h, Slots: rapid.IntRange(1, 5).Draw(rt, "slots")}
		}
		return Action{Op: "block", H: h, Slots: rapid.SampledFrom([]int{1, 1, 1, 2}).Draw(rt, "slots"), Plan: sim.GenBlockPlan(rt, profile, 40)}
	}
	for i := rapid.IntRange(1, 6).Draw(rt, "prefix"); i > 0; i-- {
		c.Actions = append(c.Actions, step(0))
	}
	c.Actions = append(c.Actions, Action{Op: "fork", H: 0})
	for k := 0; k < 2; k++ {
		c.Actions = append(c.Actions, step(0), step(1))
	}
	c.Actions = append(c.Actions, Action{Op: "rawcopy", H: rapid.IntRange(0, 1).Draw(rt, "raw_of")})
	for k := 0; k < 2; k++ {
		c.Actions = append(c.Actions, genCall(rt, ec, writers, 2), step(rapid.IntRange(0, 1).Draw(rt, "h")))
	}
	n := 3
	for k := rapid.IntRange(2, 8).Draw(rt, "more"); k > 0; k-- {
		switch rapid.IntRange(0, 5).Draw(rt, "what") {
		case 0:
			if n < 4 {
				op := rapid.SampledFrom([]string{"fork", "rawcopy"}).Draw(rt, "copy_kind")
				c.Actions = append(c.Actions, Action{Op: op, H: rapid.IntRange(0, 1).Draw(rt, "h")})
				n++
				continue
			}
			fallthrough
		case 1:
			c.Actions = append(c.Actions, genCall(rt, ec, writers, rapid.IntRange(2, n-1).Draw(rt, "h")))
		default:
			c.Actions = append(c.Actions, step(rapid.IntRange(0, n-1).Draw(rt, "h")))
		}
	}
	return c
}

// ---------------------------------------------------------------- discovery of receiver types

// discover walks every view row of the table on a deterministic state of each fork so that the
// concrete receiver type of every scope is known (for the `uncovered` listing) and a table row
// naming a method that does not exist is reported before the search starts.
func discover(r *report.Run) *report.Failure {
	for fork := 0; fork <= zb.Electra; fork++ {
		e, err := getEnv("tiny", fork)
		if err != nil {
			return report.Failf("harness", "%v", err)
		}
		st := refssz.Default(e.stateT).([]any)
		for i, f := range e.stateT.Fields {
			if f.T.Kind == refssz.KList {
				st[i] = []any{refssz.Default(f.T.Elem), refssz.Default(f.T.Elem)}
			}
		}
		b := refssz.Serialize(e.stateT, st)
		for _, ch := range e.tab.Chains(fork) {
			if isWriter(ch) || ch.Leaf().Kind == "op" {
				// writers are exercised by the search; here only navigation matters
				if len(ch.Rows) == 1 {
					continue
				}
			}
			lib, err := zb.LoadStateX(e.spec, fork, b)
			if err != nil {
				return report.Failf("load/error", "%s default state: %v", e.forkName(), err)
			}
			specs, err := e.argSpecs(ch)
			if err != nil {
				return report.Failf("harness", "%v", err)
			}
			args := make([]Arg, len(specs))
			for i, s := range specs {
				if s.t != nil {
					args[i].Hex = hex.EncodeToString(refssz.Serialize(s.t, refssz.Default(s.t)))
				}
			}
			o := e.step(lib, st, ch, args)
			if o.fail != nil && strings.HasPrefix(o.fail.Sig, "harness/") {
				return o.fail
			}
		}
	}
	return nil
}

// ---------------------------------------------------------------- TestCheck

func TestCheck(t *testing.T) {
	r := report.Begin("C15")
	defer r.Finish()
	r.Rule("(a) one case = (preset tiny|minimal, fork, random state from refssz.Random loaded from bytes, one accessor chain of the table, drawn arguments); non-trivial = the call succeeded, for writers old and new value differ, and a neighbour of the same type (adjacent element of the vector/list, or a sibling field of the same type in the container; vacuous when the container has no second field of that type) holds a value different from both, so an off-by-one position is visible; key = (fork, accessor chain). (b) one case = a history over 2-4 states related by CopyState (+EpochsContext.Clone): accessor calls on random states of each fork, or simulator blocks/skips on sibling copies of a generated chain plus accessor writes on raw copies of chain states; after every action every other state is compared with its snapshot (bytes, root, context); non-trivial = a copy pair with >= 2 state-changing actions on EACH side; key = (mode, fork, set of action kinds on the pair)")
	r.Assume("arithmetic accessors (IncrementDepositIndex, AddSlashing, Total) are judged modulo 2^64, the only executable reading; JustificationBits values use the four defined bits only",
		"AddValidator is judged against the table's effect (phase0-style get_validator_from_deposit); on electra compounding credentials with balance > MAX_EFFECTIVE_BALANCE are excluded because electra's deposit handling is not ported in the library; AddValidator is only judged on states whose registry-parallel lists have equal length",
		"simulator steps on which the library diverges from the reference (C01/C02's subject) end a history without a verdict; states with an empty active set are excluded (known finding F-C02-05)",
		"electra is covered by (a) and by accessor-copy histories; the chain simulator (reference transition) ends at deneb")
	tab, err := LoadTable()
	if err != nil {
		t.Fatalf("accessor table: %v", err)
	}
	theTable = tab
	replay := func(raw json.RawMessage) *report.Failure {
		var c Case
		if err := json.Unmarshal(raw, &c); err != nil {
			return report.Failf("harness", "bad case: %v", err)
		}
		return run(r, &c)
	}
	r.Regress(replay)
	if r.Replay != "" {
		return
	}
	if f := discover(r); f != nil {
		r.Violate(map[string]any{"kind": "discover"}, f, false)
		return
	}

	// mandatory: every table row on every fork where it exists, each copy mode on each fork
	type triple struct {
		preset string
		fork   int
		ch     *Chain
		slot   int
	}
	var tour []triple
	rows := 0
	perFork := map[string]int{}
	for fork := 0; fork <= zb.Electra; fork++ {
		for _, ch := range tab.Chains(fork) {
			r.Mandatory("row:" + zb.ForkNamesX[fork] + ":" + ch.Name())
			rows++
			perFork[zb.ForkNamesX[fork]]++
		}
		r.Mandatory("copies:raw:" + zb.ForkNamesX[fork])
	}
	// presets in the outer loop and a rotation per preset, so that every shard gets the same mix of
	// cheap (tiny) and expensive (minimal) rows
	for pi, p := range []string{"tiny", "minimal", "odd"} {
		k := 0
		for fork := 0; fork <= zb.Electra; fork++ {
			for _, ch := range tab.Chains(fork) {
				tour = append(tour, triple{p, fork, ch, k + 7*pi})
				k++
			}
		}
	}
	r.Mandatory("set:near-write", "freeview:Withdrawal", "freeview:BLSToExecutionChange", "freeview:SignedBLSToExecutionChange", "freeview:HistoricalBatch")
	r.Mandatory("copies:two-mutations-on-each-side", "copies:sim", "sim:block-while-copies-held", "sim:skip-while-copies-held", "sim:accessor-write-on-copy-of-chain-state",
		"error-path:oob-error", "error-path:at-limit-error")
	r.S.Extra["table_rows_per_fork"] = perFork
	r.S.Extra["table_rows_total"] = rows

	failures := 0
	nTiny, nMin := 22, 10
	if r.Thorough() {
		nTiny, nMin = 250, 80
	}
	r.S.Extra["accessor_cases_per_row_and_preset"] = map[string]int{"tiny": nTiny, "odd": nTiny, "minimal": nMin}
	r.S.Extra["views_not_reachable_from_a_state_accessor"] = "HistoricalBatchView, WithdrawalView, BLSToExecutionChangeView, SignedBLSToExecutionChangeView, SyncAggregateView and the block/operation views are not sub-views of a state and are outside this table (their encodings are C04/C05's subject)"
	for i, tr := range tour {
		if tr.slot%r.S.NShards != r.S.Shard {
			continue
		}
		e, err := getEnv(tr.preset, tr.fork)
		if err != nil {
			t.Fatal(err)
		}
		n := nTiny
		if tr.preset == "minimal" {
			n = nMin
		}
		ch := tr.ch
		ok := r.Search(t, "accessors/"+tr.preset+"/"+e.forkName(), 1000+i, n, func(rt *rapid.T) (any, *report.Failure) {
			c, err := genAccessorCase(rt, e, ch)
			if err != nil {
				return nil, report.Failf("harness", "%v", err)
			}
			return c, run(r, c)
		})
		if !ok {
			failures++
			if failures >= 3 {
				break
			}
		}
	}
	if failures == 0 {
		for fork := 0; fork <= zb.Electra; fork++ {
			for pi, p := range []string{"tiny", "minimal", "odd"} {
				e, _ := getEnv(p, fork)
				n := r.N(176, 2000)
				if p == "minimal" {
					n = r.N(64, 500)
				}
				if !r.Search(t, "copies/"+p+"/"+e.forkName(), 100+10*fork+pi, n, func(rt *rapid.T) (any, *report.Failure) {
					c := genCopiesCase(rt, e)
					return c, run(r, c)
				}) {
					failures++
				}
			}
			if failures > 0 {
				break
			}
		}
	}
	if failures == 0 {
		r.Search(t, "freeviews", 8, r.N(600, 12000), func(rt *rapid.T) (any, *report.Failure) {
			c := genFreeView(rt)
			return c, run(r, c)
		})
		r.Search(t, "copies/sim", 7, r.N(256, 2000), func(rt *rapid.T) (any, *report.Failure) {
			c := genSimCase(rt)
			return c, run(r, c)
		})
	}
	seenMu.Lock()
	unc := uncovered(tab, theSeen)
	seenMu.Unlock()
	r.S.Extra["uncovered"] = unc
}
