package c15

import (
	"fmt"
	"os"
	"path/filepath"
	"sort"
	"strconv"
	"strings"

	"zrntverif/zb"
)

// Row is one line of /verif/spec_tables/state_accessors.txt.
type Row struct {
	Scope  string // "state" or a sub-view name
	Forks  string
	Method string
	Kind   string
	Target string
	Sub    string // view rows: name of the sub-view the method returns
	Effect string
	Line   int
	steps  []pstep
}

// pstep is one step of a target path.
type pstep struct {
	field string // field name ("" for an index step)
	arg   int    // index steps: which index argument of the row
	mod   bool   // index steps: the accessor reduces the argument modulo the length
}

type Table struct {
	Rows   []*Row
	ByScop map[string][]*Row
}

func forkIndex(name string) int {
	for i, n := range zb.ForkNamesX {
		if n == name {
			return i
		}
	}
	return -1
}

// On reports whether the row exists on the fork.
func (r *Row) On(fork int) bool {
	switch {
	case r.Forks == "all":
		return true
	case strings.HasSuffix(r.Forks, "+"):
		return fork >= forkIndex(strings.TrimSuffix(r.Forks, "+"))
	default:
		return fork == forkIndex(r.Forks)
	}
}

func parsePath(s string) ([]pstep, error) {
	if s == "." || s == "-" {
		return nil, nil
	}
	var out []pstep
	for len(s) > 0 {
		switch s[0] {
		case '.':
			j := 1
			for j < len(s) && s[j] != '.' && s[j] != '[' {
				j++
			}
			if j == 1 {
				return nil, fmt.Errorf("empty field name in %q", s)
			}
			out = append(out, pstep{field: s[1:j]})
			s = s[j:]
		case '[':
			j := strings.IndexByte(s, ']')
			if j < 0 || len(s) < 4 || s[1] != '$' {
				return nil, fmt.Errorf("bad index step in %q", s)
			}
			inner := s[2:j]
			st := pstep{}
			if strings.HasSuffix(inner, "%LEN") {
				st.mod = true
				inner = strings.TrimSuffix(inner, "%LEN")
			}
			n, err := strconv.Atoi(inner)
			if err != nil {
				return nil, fmt.Errorf("bad index argument in %q", s)
			}
			st.arg = n
			out = append(out, st)
			s = s[j+1:]
		default:
			return nil, fmt.Errorf("bad path %q", s)
		}
	}
	return out, nil
}

func tablePath() string {
	root := os.Getenv("VERIF_ROOT")
	if root == "" {
		root = "/verif"
	}
	return filepath.Join(root, "spec_tables", "state_accessors.txt")
}

var kinds = map[string]bool{"get": true, "set": true, "view": true, "len": true, "append": true, "inc": true, "zero": true, "settrue": true, "clear": true, "op": true, "skip": true}

func LoadTable() (*Table, error) {
	b, err := os.ReadFile(tablePath())
	if err != nil {
		return nil, err
	}
	t := &Table{ByScop: map[string][]*Row{}}
	for ln, line := range strings.Split(string(b), "\n") {
		if strings.HasPrefix(strings.TrimSpace(line), "#") {
			continue
		}
		effect := ""
		if i := strings.Index(line, " -- "); i >= 0 {
			effect = strings.TrimSpace(line[i+4:])
			line = line[:i]
		}
		if i := strings.Index(line, " #"); i >= 0 {
			line = line[:i]
		}
		f := strings.Fields(line)
		if len(f) == 0 {
			continue
		}
		if len(f) < 5 {
			return nil, fmt.Errorf("accessor table line %d: need scope forks method kind target", ln+1)
		}
		r := &Row{Scope: f[0], Forks: f[1], Method: f[2], Kind: f[3], Target: f[4], Effect: effect, Line: ln + 1}
		if !kinds[r.Kind] {
			return nil, fmt.Errorf("accessor table line %d: unknown kind %q", ln+1, r.Kind)
		}
		if r.Forks != "all" && forkIndex(strings.TrimSuffix(r.Forks, "+")) < 0 {
			return nil, fmt.Errorf("accessor table line %d: unknown fork %q", ln+1, r.Forks)
		}
		if r.Kind == "view" {
			if len(f) < 6 {
				return nil, fmt.Errorf("accessor table line %d: view row without sub-view name", ln+1)
			}
			r.Sub = f[5]
		}
		if r.Kind != "op" && r.Kind != "skip" {
			st, err := parsePath(r.Target)
			if err != nil {
				return nil, fmt.Errorf("accessor table line %d: %v", ln+1, err)
			}
			r.steps = st
		}
		t.Rows = append(t.Rows, r)
		t.ByScop[r.Scope] = append(t.ByScop[r.Scope], r)
	}
	for _, r := range t.Rows {
		if r.Kind == "view" && len(t.ByScop[r.Sub]) == 0 {
			return nil, fmt.Errorf("accessor table line %d: sub-view %q has no rows", r.Line, r.Sub)
		}
	}
	return t, nil
}

// Chain is a path of rows from the state to a leaf accessor: zero or more view rows, then the leaf.
type Chain struct {
	Rows []*Row
}

func (c *Chain) Name() string {
	p := make([]string, len(c.Rows))
	for i, r := range c.Rows {
		p[i] = r.Method
	}
	return strings.Join(p, "/")
}

func (c *Chain) Leaf() *Row { return c.Rows[len(c.Rows)-1] }

// Scoped is the leaf's "<scope>.<method>" (state rows carry the fork, shared sub-views do not).
func (c *Chain) Scoped(fork int) string {
	l := c.Leaf()
	if l.Scope == "state" {
		return zb.ForkNamesX[fork] + ".state." + l.Method
	}
	return l.Scope + "." + l.Method
}

// Chains expands the table into every leaf chain that exists on the fork, in table order.
func (t *Table) Chains(fork int) []*Chain {
	var out []*Chain
	var rec func(prefix []*Row, scope string, depth int)
	rec = func(prefix []*Row, scope string, depth int) {
		if depth > 6 {
			panic("accessor table: view rows nest too deep (cycle?)")
		}
		for _, r := range t.ByScop[scope] {
			if !r.On(fork) || r.Kind == "skip" {
				continue
			}
			p := append(append([]*Row{}, prefix...), r)
			if r.Kind == "view" {
				rec(p, r.Sub, depth+1)
				continue
			}
			out = append(out, &Chain{Rows: p})
		}
	}
	rec(nil, "state", 0)
	return out
}

func (t *Table) ChainByName(fork int, name string) *Chain {
	for _, c := range t.Chains(fork) {
		if c.Name() == name {
			return c
		}
	}
	return nil
}

// Methods lists, per scope, the method names the table mentions (skip rows included) on a fork.
func (t *Table) Methods(scope string, fork int) map[string]string {
	out := map[string]string{}
	for _, r := range t.ByScop[scope] {
		if fork >= 0 && !r.On(fork) {
			continue
		}
		if strings.HasPrefix(r.Method, "@") {
			continue
		}
		out[r.Method] = r.Kind
	}
	return out
}

func sortedKeys[V any](m map[string]V) []string {
	ks := make([]string, 0, len(m))
	for k := range m {
		ks = append(ks, k)
	}
	sort.Strings(ks)
	return ks
}
