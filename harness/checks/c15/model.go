package c15

import (
	"bytes"
	"context"
	"encoding/binary"
	"encoding/hex"
	"fmt"
	"reflect"
	"strings"

	"github.com/protolambda/zrnt/eth2/beacon/altair"
	"github.com/protolambda/zrnt/eth2/beacon/common"
	"github.com/protolambda/zrnt/eth2/beacon/phase0"
	"github.com/protolambda/ztyp/tree"

	"zrntverif/refspec"
	"zrntverif/refssz"
	"zrntverif/report"
	"zrntverif/zb"
)

// Arg is one drawn argument of an accessor invocation. Index arguments are selectors that run()
// resolves against the state at hand (so a case needs no knowledge of list lengths): for
// `[$k%LEN]` targets U is passed as is; for `[$k]` targets the index is U % len, or len + U%3
// when OOB is set (or the list is empty). Value arguments are SSZ bytes of the target's type.
type Arg struct {
	U   uint64 `json:"u,omitempty"`
	OOB bool   `json:"oob,omitempty"`
	Hex string `json:"hex,omitempty"`
}

// env is everything fixed by (preset, fork).
type env struct {
	preset string
	fork   int
	cfg    *refspec.Config
	spec   *common.Spec
	stateT *refssz.Type
	sch    *refssz.Schema
	tab    *Table
	seen   *seenTypes
}

func (e *env) forkName() string { return zb.ForkNamesX[e.fork] }

// loc is a resolved position inside the model state.
type loc struct {
	path []int  // field / element positions from the state root
	str  string // the same, printed like refssz.Diff prints paths
	t    *refssz.Type
	v    any
	// parent (for the neighbour rule)
	pt  *refssz.Type
	pv  any
	pos int
}

func (l loc) child(t *refssz.Type, v any, pos int, s string) loc {
	return loc{path: append(append([]int{}, l.path...), pos), str: l.str + s, t: t, v: v, pt: l.t, pv: l.v, pos: pos}
}

// setAt returns a copy of root (type t) with the value at path replaced.
func setAt(t *refssz.Type, root any, path []int, nv any) any {
	if len(path) == 0 {
		return nv
	}
	old := root.([]any)
	cp := append([]any{}, old...)
	var ct *refssz.Type
	if t.Kind == refssz.KContainer {
		ct = t.Fields[path[0]].T
	} else {
		ct = t.Elem
	}
	cp[path[0]] = setAt(ct, old[path[0]], path[1:], nv)
	return cp
}

type walkErr struct {
	oob     bool
	harness string
}

// resolve walks a row's target path from `from`, consuming the row's index arguments. It returns
// the location, the index values to hand to the library (in $k order), and whether an index was
// out of range (the location is then the list itself).
func resolve(from loc, steps []pstep, args []Arg) (loc, []uint64, *walkErr) {
	cur := from
	nIdx := 0
	for _, s := range steps {
		if s.field == "" && s.arg+1 > nIdx {
			nIdx = s.arg + 1
		}
	}
	libIdx := make([]uint64, nIdx)
	if len(args) < nIdx {
		return cur, nil, &walkErr{harness: "too few arguments for the row's index steps"}
	}
	for _, s := range steps {
		if s.field != "" {
			if cur.t.Kind != refssz.KContainer {
				return cur, nil, &walkErr{harness: fmt.Sprintf("step .%s on a %s", s.field, cur.t)}
			}
			fi := cur.t.FieldIndex(s.field)
			if fi < 0 {
				return cur, nil, &walkErr{harness: fmt.Sprintf("%s has no field %s", cur.t, s.field)}
			}
			cur = cur.child(cur.t.Fields[fi].T, cur.v.([]any)[fi], fi, "."+s.field)
			continue
		}
		if cur.t.Kind != refssz.KVector && cur.t.Kind != refssz.KList {
			return cur, nil, &walkErr{harness: fmt.Sprintf("index step on a %s", cur.t)}
		}
		elems := cur.v.([]any)
		n := uint64(len(elems))
		a := args[s.arg]
		var eff uint64
		if s.mod {
			if n == 0 {
				return cur, nil, &walkErr{harness: "modulo index into an empty vector"}
			}
			eff = a.U % n
			libIdx[s.arg] = a.U
		} else {
			if a.OOB || n == 0 {
				libIdx[s.arg] = n + a.U%3
				return cur, libIdx, &walkErr{oob: true}
			}
			eff = a.U % n
			libIdx[s.arg] = eff
		}
		cur = cur.child(cur.t.Elem, elems[eff], int(eff), fmt.Sprintf("[%d]", eff))
	}
	return cur, libIdx, nil
}

func eqVal(t *refssz.Type, a, b any) bool {
	return bytes.Equal(refssz.Serialize(t, a), refssz.Serialize(t, b))
}

func sameType(a, b *refssz.Type) bool {
	if a.Kind != b.Kind || a.Bits != b.Bits || a.N != b.N {
		return false
	}
	switch a.Kind {
	case refssz.KVector, refssz.KList:
		return sameType(a.Elem, b.Elem)
	case refssz.KContainer:
		if len(a.Fields) != len(b.Fields) {
			return false
		}
		for i := range a.Fields {
			if a.Fields[i].Name != b.Fields[i].Name || !sameType(a.Fields[i].T, b.Fields[i].T) {
				return false
			}
		}
	}
	return true
}

// neighbourRule: does some neighbour of the same type (the adjacent elements of a vector/list, or
// the sibling fields of the same type in a container) hold a value different from every value in
// `vals`? With no same-typed neighbour at all the clause is vacuous (true).
func neighbourRule(l loc, vals ...any) bool {
	if l.pt == nil {
		return true
	}
	differs := func(t *refssz.Type, x any) bool {
		for _, v := range vals {
			if eqVal(t, x, v) {
				return false
			}
		}
		return true
	}
	switch l.pt.Kind {
	case refssz.KContainer:
		found := false
		for i, f := range l.pt.Fields {
			if i == l.pos || !sameType(f.T, l.t) {
				continue
			}
			found = true
			if differs(f.T, l.pv.([]any)[i]) {
				return true
			}
		}
		return !found
	case refssz.KVector, refssz.KList:
		el := l.pv.([]any)
		if len(el) < 2 {
			return false
		}
		n := len(el)
		for _, j := range []int{(l.pos + 1) % n, (l.pos + n - 1) % n} {
			if j != l.pos && differs(l.t, el[j]) {
				return true
			}
		}
		return false
	}
	return true
}

// perturb returns a value of type t different from v (first leaf changed).
func perturb(t *refssz.Type, v any) any {
	switch t.Kind {
	case refssz.KUint:
		if t.Bits == 256 {
			u := v.(refssz.U256)
			u[0] ^= 1
			return u
		}
		mask := ^uint64(0)
		if t.Bits < 64 {
			mask = (uint64(1) << uint(t.Bits)) - 1
		}
		return (v.(uint64) + 1) & mask
	case refssz.KBool:
		return !v.(bool)
	case refssz.KBytesN:
		b := append([]byte{}, v.([]byte)...)
		b[0] ^= 1
		return b
	case refssz.KByteList:
		b := append([]byte{}, v.([]byte)...)
		if len(b) == 0 {
			return []byte{1}
		}
		b[0] ^= 1
		return b
	case refssz.KBitvector:
		b := append([]bool{}, v.([]bool)...)
		b[0] = !b[0]
		return b
	case refssz.KBitlist:
		b := append([]bool{}, v.([]bool)...)
		if len(b) == 0 {
			return []bool{true}
		}
		b[0] = !b[0]
		return b
	case refssz.KVector:
		x := append([]any{}, v.([]any)...)
		x[0] = perturb(t.Elem, x[0])
		return x
	case refssz.KList:
		x := append([]any{}, v.([]any)...)
		if len(x) == 0 {
			return []any{refssz.Default(t.Elem)}
		}
		x[0] = perturb(t.Elem, x[0])
		return x
	case refssz.KContainer:
		x := append([]any{}, v.([]any)...)
		x[0] = perturb(t.Fields[0].T, x[0])
		return x
	}
	panic("perturb: unknown kind")
}

func (a Arg) value(t *refssz.Type) (any, error) {
	b, err := hex.DecodeString(strings.TrimPrefix(a.Hex, "0x"))
	if err != nil {
		return nil, err
	}
	return refssz.Deserialize(t, b)
}

// stepOut is the outcome of one accessor invocation on a live library state.
type stepOut struct {
	near       bool // a set row that wrote the stored value with one field changed
	post       any  // model state after the invocation
	fail       *report.Failure
	nontrivial bool
	mutates    bool   // the accessor is a writer (whether or not this call changed anything)
	note       string // class of the invocation: ok | oob-error | at-limit-error | skipped:<why>
	changed    bool
	readback   bool // a set row whose paired getter was read back on the live state
}

func trunc(s string, n int) string {
	if len(s) > n {
		return s[:n] + "…"
	}
	return s
}

func u64v(u uint64) []byte {
	var b [8]byte
	binary.LittleEndian.PutUint64(b[:], u)
	return b[:]
}

var parallelLists = []string{"balances", "previous_epoch_participation", "current_epoch_participation", "inactivity_scores"}

func (e *env) field(state any, name string) (*refssz.Type, any, int) {
	i := e.stateT.FieldIndex(name)
	if i < 0 {
		return nil, nil, -1
	}
	return e.stateT.Fields[i].T, state.([]any)[i], i
}

// step invokes the chain's accessor on lib with the given arguments and judges result and effect
// against the model. `pre` is the model value of lib's state before the call.
func (e *env) step(lib common.BeaconState, pre any, ch *Chain, args []Arg) (out stepOut) {
	out.post = pre
	scoped := ch.Scoped(e.fork)
	fail := func(symptom, format string, a ...any) stepOut {
		out.fail = report.Failf(scoped+"/"+symptom, "%s %s (%s preset) %s: %s", e.forkName(), ch.Name(), e.preset, describeArgs(args), fmt.Sprintf(format, a...))
		return out
	}
	harness := func(format string, a ...any) stepOut {
		out.fail = report.Failf("harness/"+scoped, "%s %s: %s", e.forkName(), ch.Name(), fmt.Sprintf(format, a...))
		return out
	}
	recv := reflect.ValueOf(lib)
	cur := loc{t: e.stateT, v: pre}
	ai := 0
	// ---- view rows
	for _, row := range ch.Rows[:len(ch.Rows)-1] {
		e.seen.note(row.Scope, e.fork, recv)
		l, idx, werr := resolve(cur, row.steps, args[min(ai, len(args)):])
		if werr != nil && werr.harness != "" {
			return harness("%s", werr.harness)
		}
		la := make([]libArg, len(idx))
		for i, u := range idx {
			la[i] = uArg(u)
		}
		ai += len(idx)
		co := call(e.spec, recv, row, la)
		if co.noMethod {
			return harness("%v", co.err)
		}
		if co.panicked {
			return fail("panic", "%s(%v) panicked: %v", row.Method, idx, co.err)
		}
		if werr != nil && werr.oob {
			if co.err == nil {
				return fail("missing-error", "%s(%v) on a list of %d elements returned no error", row.Method, idx, len(l.v.([]any)))
			}
			out.note = "oob-error"
			return out
		}
		if co.err != nil {
			return fail("unexpected-error", "%s(%v): %v", row.Method, idx, co.err)
		}
		if len(co.res) != 1 {
			return harness("view method %s returned %d values", row.Method, len(co.res))
		}
		recv = unwrap(co.res[0])
		cur = l
	}
	leaf := ch.Leaf()
	e.seen.note(leaf.Scope, e.fork, recv)
	rest := args[min(ai, len(args)):]

	// ---- expectation
	var (
		la        []libArg
		expErr    bool
		expT      *refssz.Type // expected result (nil: no result compared)
		expV      any
		post      = pre
		targets   []string // printed paths the call may change
		customRes func(res []reflect.Value) string
	)
	target := cur
	switch leaf.Kind {
	case "get", "set", "len", "append", "inc", "zero", "settrue", "clear":
		l, idx, werr := resolve(cur, leaf.steps, rest)
		if werr != nil && werr.harness != "" {
			return harness("%s", werr.harness)
		}
		for _, u := range idx {
			la = append(la, uArg(u))
		}
		vals := rest[min(len(idx), len(rest)):]
		target = l
		targets = []string{l.str}
		if werr != nil && werr.oob {
			expErr = true
			out.note = "oob-error"
			if leaf.Kind == "set" {
				// still needs a value argument of the element type
				if len(vals) < 1 {
					return harness("set row without a value argument")
				}
				v, err := vals[0].value(l.t.Elem)
				if err != nil {
					return harness("bad value argument: %v", err)
				}
				la = append(la, vArg(l.t.Elem, v))
			}
			break
		}
		switch leaf.Kind {
		case "get":
			expT, expV = l.t, l.v
			out.nontrivial = neighbourRule(l, l.v)
		case "len":
			if l.t.Kind != refssz.KList && l.t.Kind != refssz.KVector {
				return harness("len of a %s", l.t)
			}
			expT, expV = &refssz.Type{Kind: refssz.KUint, Bits: 64}, uint64(len(l.v.([]any)))
			out.nontrivial = true
		case "set":
			out.mutates = true
			if len(vals) < 1 {
				return harness("set row without a value argument")
			}
			nv, err := vals[0].value(l.t)
			if err != nil {
				return harness("bad value argument for a %s: %v", l.t, err)
			}
			if vals[0].U > 0 && l.t.Kind == refssz.KContainer && len(l.t.Fields) > 0 {
				// "near" write: the stored value with exactly ONE of its fields changed (an update that corrects a
				// single field — all other fields, any of which an implementation might use as an "unchanged" key, stay)
				cur := append([]any{}, l.v.([]any)...)
				fi := int((vals[0].U - 1) % uint64(len(l.t.Fields)))
				cur[fi] = perturb(l.t.Fields[fi].T, cur[fi])
				nv = cur
				out.near = true
			}
			if eqVal(l.t, nv, l.v) {
				nv = perturb(l.t, nv)
			}
			la = append(la, vArg(l.t, nv))
			post = setAt(e.stateT, pre, l.path, nv)
			out.nontrivial = neighbourRule(l, l.v, nv)
		case "append":
			out.mutates = true
			if l.t.Kind != refssz.KList {
				return harness("append to a %s", l.t)
			}
			if len(vals) < 1 {
				return harness("append row without a value argument")
			}
			nv, err := vals[0].value(l.t.Elem)
			if err != nil {
				return harness("bad value argument for a %s: %v", l.t.Elem, err)
			}
			la = append(la, vArg(l.t.Elem, nv))
			old := l.v.([]any)
			if uint64(len(old)) >= l.t.N {
				expErr = true
				out.note = "at-limit-error"
			} else {
				post = setAt(e.stateT, pre, l.path, append(append([]any{}, old...), nv))
				out.nontrivial = len(old) == 0 || !eqVal(l.t.Elem, old[len(old)-1], nv)
			}
		case "inc":
			out.mutates = true
			post = setAt(e.stateT, pre, l.path, l.v.(uint64)+1)
			out.nontrivial = neighbourRule(l, l.v, l.v.(uint64)+1)
		case "zero":
			out.mutates = true
			d := refssz.Default(l.t)
			post = setAt(e.stateT, pre, l.path, d)
			out.nontrivial = !eqVal(l.t, l.v, d) && neighbourRule(l, l.v, d)
		case "settrue":
			out.mutates = true
			post = setAt(e.stateT, pre, l.path, true)
			out.nontrivial = !l.v.(bool)
		case "clear":
			out.mutates = true
			post = setAt(e.stateT, pre, l.path, []any{})
			out.nontrivial = len(l.v.([]any)) > 0
		}
	case "op":
		r := e.modelOp(lib, cur, pre, leaf, rest)
		if r.harness != "" {
			return harness("%s", r.harness)
		}
		if r.skip != "" {
			out.note = "skipped:" + r.skip
			return out
		}
		if r.direct != nil {
			// the op drives the library itself (package functions, CopyState, iterators)
			f, np, nt := r.direct()
			if f != nil {
				return fail(f.Sig, "%s", f.Msg)
			}
			post, out.nontrivial, out.mutates = np, nt, r.mutates
			targets = r.targets
			goto judgeState
		}
		la, expErr, expT, expV, post, targets, customRes = r.args, r.expErr, r.expT, r.expV, r.post, r.targets, r.custom
		out.nontrivial, out.mutates = r.nontrivial, r.mutates
		if r.note != "" {
			out.note = r.note
		}
	default:
		return harness("unexpected leaf kind %s", leaf.Kind)
	}

	// ---- invoke
	{
		co := call(e.spec, recv, leaf, la)
		if co.noMethod {
			return harness("%v", co.err)
		}
		argStr := make([]string, len(la))
		for i := range la {
			argStr[i] = la[i].describe()
		}
		callStr := fmt.Sprintf("%s(%s)", leaf.Method, strings.Join(argStr, ", "))
		if co.panicked {
			return fail("panic", "%s panicked: %v", callStr, co.err)
		}
		if expErr {
			if co.err == nil {
				return fail("missing-error", "%s returned no error although %s (%s)", callStr, out.note, target.str)
			}
			post = pre
			out.nontrivial = false
		} else {
			if co.err != nil {
				return fail("unexpected-error", "%s: %v", callStr, co.err)
			}
			if customRes != nil {
				if d := customRes(co.res); d != "" {
					return fail("wrong-result", "%s: %s", callStr, d)
				}
			} else if expT != nil {
				if len(co.res) < 1 {
					return harness("%s returned no value", leaf.Method)
				}
				got, err := encodeLib(e.spec, co.res[0])
				if err != nil {
					return harness("cannot encode the result of %s (%s): %v", leaf.Method, co.res[0].Type(), err)
				}
				want := refssz.Serialize(expT, expV)
				if !bytes.Equal(got, want) {
					detail := fmt.Sprintf("got 0x%s want 0x%s", trunc(hex.EncodeToString(got), 200), trunc(hex.EncodeToString(want), 200))
					if gv, err := refssz.Deserialize(expT, got); err == nil {
						var d []string
						refssz.Diff(expT, gv, expV, "", &d, 6)
						detail = "result != " + e.forkName() + " state" + target.str + " (got != want): " + strings.Join(d, "; ")
					}
					return fail("wrong-result", "%s: %s", callStr, detail)
				}
			}
		}
		if out.note == "" {
			out.note = "ok"
		}
		// a getter must hand out a VALUE: overwrite what it returned; the state must not notice
		for _, rv := range co.res {
			scribble(rv, 0)
		}
	}

judgeState:
	if out.note == "" {
		out.note = "ok"
	}
	out.post = post
	out.changed = !eqVal(e.stateT, pre, post)
	if f := e.judgeState(lib, pre, post, targets); f != nil {
		return fail(f.Sig, "%s", f.Msg)
	}
	// read back through the paired getter (same scope, same target) on the live, written state
	if leaf.Kind == "set" && out.note == "ok" && len(args) > 0 {
		for _, g := range e.tab.ByScop[leaf.Scope] {
			if g.Kind == "get" && g.Target == leaf.Target && g.On(e.fork) {
				gch := &Chain{Rows: append(append([]*Row{}, ch.Rows[:len(ch.Rows)-1]...), g)}
				ro := e.step(lib, post, gch, args[:len(args)-1])
				if ro.fail != nil {
					ro.fail.Msg = "read-back after " + leaf.Method + " on the same live state: " + ro.fail.Msg
					out.fail = ro.fail
					return out
				}
				out.readback = true
				break
			}
		}
	}
	return out
}

// judgeState compares the library state with the expected model state: bytes, then root.
func (e *env) judgeState(lib common.BeaconState, pre, post any, targets []string) *report.Failure {
	var got []byte
	var err error
	var gr [32]byte
	if f := report.Guard("state-unusable", func() *report.Failure {
		got, err = zb.StateBytes(lib)
		gr = zb.StateRoot(lib)
		return nil
	}); f != nil {
		return report.Failf("state-unusable", "after the call the state cannot be serialised / hashed any more: %s", f.Msg)
	}
	if err != nil {
		return report.Failf("state-unusable", "state cannot be serialised after the call: %v", err)
	}
	want := refssz.Serialize(e.stateT, post)
	if !bytes.Equal(got, want) {
		gv, err := refssz.Deserialize(e.stateT, got)
		if err != nil {
			return report.Failf("corrupt-state", "state bytes after the call do not decode: %v", err)
		}
		var d []string
		refssz.Diff(e.stateT, gv, post, "", &d, 8)
		outside := false
		for _, line := range d {
			in := false
			for _, t := range targets {
				if strings.HasPrefix(line, t) {
					in = true
				}
			}
			if !in {
				outside = true
			}
		}
		symptom := "wrong-value-written"
		switch {
		case outside:
			symptom = "other-field-changed"
		case eqVal(e.stateT, gv, pre):
			symptom = "not-written"
		}
		return report.Failf(symptom, "state after the call differs from the expected state (target %v; actual != expected): %s", targets, trunc(strings.Join(d, "; "), 900))
	}
	wr := refssz.HashTreeRoot(e.stateT, post)
	if gr != wr {
		return report.Failf("root-mismatch", "state bytes are as expected but HashTreeRoot is %x, expected %x", gr, wr)
	}
	return nil
}

func describeArgs(args []Arg) string {
	p := make([]string, len(args))
	for i, a := range args {
		switch {
		case a.Hex != "" && a.U != 0:
			p[i] = fmt.Sprintf("{sel %d | %s}", a.U, trunc(a.Hex, 40))
		case a.Hex != "":
			p[i] = trunc(a.Hex, 40)
		case a.OOB:
			p[i] = fmt.Sprintf("oob+%d", a.U%3)
		default:
			p[i] = fmt.Sprint(a.U)
		}
	}
	return "args[" + strings.Join(p, ", ") + "]"
}

// ---------------------------------------------------------------- compound ops

type opModel struct {
	harness    string
	skip       string
	args       []libArg
	expErr     bool
	expT       *refssz.Type
	expV       any
	post       any
	targets    []string
	custom     func(res []reflect.Value) string
	direct     func() (f *report.Failure, post any, nontrivial bool)
	nontrivial bool
	mutates    bool
	note       string
}

var u64T = &refssz.Type{Kind: refssz.KUint, Bits: 64}
var boolT = &refssz.Type{Kind: refssz.KBool}
var b32T = &refssz.Type{Kind: refssz.KBytesN, N: 32}
var b48T = &refssz.Type{Kind: refssz.KBytesN, N: 48}

func needArgs(rest []Arg, n int) string {
	if len(rest) < n {
		return fmt.Sprintf("op needs %d arguments, case has %d", n, len(rest))
	}
	return ""
}

func (e *env) modelOp(lib common.BeaconState, cur loc, pre any, leaf *Row, rest []Arg) (r opModel) {
	r.post = pre
	far := ^uint64(0)
	switch leaf.Target {
	case "HashTreeRoot":
		root := refssz.HashTreeRoot(cur.t, cur.v)
		r.expT, r.expV = b32T, root[:]
		r.nontrivial = true
	case "AddValidator":
		if h := needArgs(rest, 3); h != "" {
			r.harness = h
			return
		}
		r.mutates = true
		pub, err1 := rest[0].value(b48T)
		creds, err2 := rest[1].value(b32T)
		if err1 != nil || err2 != nil {
			r.harness = "bad AddValidator arguments"
			return
		}
		balance := rest[2].U
		inc, maxEff := e.cfg.U["EFFECTIVE_BALANCE_INCREMENT"], e.cfg.U["MAX_EFFECTIVE_BALANCE"]
		if e.fork >= zb.Electra && creds.([]byte)[0] == 0x02 && balance > maxEff {
			// electra's own deposit handling (compounding credentials) is not ported; keep to the shared effect
			c := append([]byte{}, creds.([]byte)...)
			c[0] = 0x01
			creds = c
		}
		vt, vv, vi := e.field(pre, "validators")
		n := len(vv.([]any))
		lists := []string{"balances"}
		if e.fork >= refspec.Altair {
			lists = parallelLists
		}
		for _, name := range lists {
			_, lv, _ := e.field(pre, name)
			if len(lv.([]any)) != n {
				r.skip = "registry-lists-of-unequal-length"
				return
			}
		}
		r.args = []libArg{vArg(b48T, pub), vArg(b32T, creds), uArg(balance)}
		r.targets = []string{".validators"}
		if uint64(n) >= vt.N {
			r.expErr = true
			r.note = "at-limit-error"
			return
		}
		eff := balance - balance%inc
		if eff > maxEff {
			eff = maxEff
		}
		nv := []any{pub, creds, eff, false, far, far, far, far}
		post := setAt(e.stateT, pre, []int{vi}, append(append([]any{}, vv.([]any)...), nv))
		for _, name := range lists {
			_, lv, li := e.field(pre, name)
			var el any = uint64(0)
			if name == "balances" {
				el = balance
			}
			post = setAt(e.stateT, post, []int{li}, append(append([]any{}, lv.([]any)...), el))
			r.targets = append(r.targets, "."+name)
		}
		r.post = post
		r.nontrivial = n >= 1
	case "SeedRandao":
		if h := needArgs(rest, 1); h != "" {
			r.harness = h
			return
		}
		r.mutates = true
		seed, err := rest[0].value(b32T)
		if err != nil {
			r.harness = "bad seed"
			return
		}
		mt, mv, mi := e.field(pre, "randao_mixes")
		mixes := make([]any, mt.N)
		for i := range mixes {
			mixes[i] = seed
		}
		r.args = []libArg{vArg(b32T, seed)}
		r.post = setAt(e.stateT, pre, []int{mi}, mixes)
		r.targets = []string{".randao_mixes"}
		r.nontrivial = !eqVal(mt, mv, mixes)
	case "RotateSyncCommittee":
		if h := needArgs(rest, 1); h != "" {
			r.harness = h
			return
		}
		r.mutates = true
		nt, nv, ni := e.field(pre, "next_sync_committee")
		_, cv, ci := e.field(pre, "current_sync_committee")
		arg, err := rest[0].value(nt)
		if err != nil {
			r.harness = "bad sync committee argument"
			return
		}
		if eqVal(nt, arg, nv) || eqVal(nt, arg, cv) {
			arg = perturb(nt, arg)
		}
		r.args = []libArg{vArg(nt, arg)}
		r.post = setAt(e.stateT, setAt(e.stateT, pre, []int{ci}, nv), []int{ni}, arg)
		r.targets = []string{".current_sync_committee", ".next_sync_committee"}
		r.nontrivial = !eqVal(nt, nv, cv)
	case "IsTransitionCompleted":
		ht, hv, _ := e.field(pre, "latest_execution_payload_header")
		r.expT, r.expV = boolT, !eqVal(ht, hv, refssz.Default(ht))
		r.nontrivial = true
	case "Count":
		if h := needArgs(rest, 1); h != "" {
			r.harness = h
			return
		}
		votes := cur.v.([]any)
		et := cur.t.Elem
		d, err := rest[0].value(et)
		if err != nil {
			r.harness = "bad Eth1Data argument"
			return
		}
		if rest[0].U%2 == 1 && len(votes) > 0 {
			d = votes[(rest[0].U/2)%uint64(len(votes))]
		}
		n := uint64(0)
		for _, v := range votes {
			if eqVal(et, v, d) {
				n++
			}
		}
		r.args = []libArg{vArg(et, d)}
		r.expT, r.expV = u64T, n
		r.nontrivial = n >= 1 && n < uint64(len(votes))
	case "IsValidIndex":
		if h := needArgs(rest, 1); h != "" {
			r.harness = h
			return
		}
		n := uint64(len(cur.v.([]any)))
		idx := n + rest[0].U%3
		if !rest[0].OOB && n > 0 {
			idx = rest[0].U % n
		}
		if rest[0].OOB && rest[0].U%5 == 4 {
			idx = ^uint64(0) - rest[0].U%3
		}
		r.args = []libArg{uArg(idx)}
		r.expT, r.expV = boolT, idx < n
		r.nontrivial = idx+1 >= n
	case "Flatten":
		dst := new(common.FlatValidator)
		r.args = []libArg{rawArg(dst)}
		v := cur.v.([]any)
		r.custom = func([]reflect.Value) string {
			want := common.FlatValidator{EffectiveBalance: common.Gwei(v[2].(uint64)), Slashed: v[3].(bool), ActivationEligibilityEpoch: common.Epoch(v[4].(uint64)),
				ActivationEpoch: common.Epoch(v[5].(uint64)), ExitEpoch: common.Epoch(v[6].(uint64)), WithdrawableEpoch: common.Epoch(v[7].(uint64))}
			if *dst != want {
				return fmt.Sprintf("flattened %+v, the validator at %s is %+v", *dst, cur.str, want)
			}
			return ""
		}
		r.nontrivial = neighbourRule(cur, cur.v)
	case "AddAt":
		if h := needArgs(rest, 2); h != "" {
			r.harness = h
			return
		}
		r.mutates = true
		el := cur.v.([]any)
		i := rest[0].U % uint64(len(el))
		add := rest[1].U
		if add == 0 {
			add = 1
		}
		r.args = []libArg{uArg(rest[0].U), uArg(add)}
		r.post = setAt(e.stateT, pre, append(append([]int{}, cur.path...), int(i)), el[i].(uint64)+add)
		r.targets = []string{fmt.Sprintf("%s[%d]", cur.str, i)}
		r.nontrivial = neighbourRule(cur.child(cur.t.Elem, el[i], int(i), ""), el[i], el[i].(uint64)+add)
	case "Sum":
		s := uint64(0)
		for _, x := range cur.v.([]any) {
			s += x.(uint64)
		}
		r.expT, r.expV = u64T, s
		r.nontrivial = true
	case "FillZeroes":
		if h := needArgs(rest, 1); h != "" {
			r.harness = h
			return
		}
		r.mutates = true
		m := uint64(70)
		if cur.t.N < m {
			m = cur.t.N
		}
		n := rest[0].U % (m + 1)
		z := make([]any, n)
		for i := range z {
			z[i] = uint64(0)
		}
		r.args = []libArg{uArg(n)}
		r.post = setAt(e.stateT, pre, cur.path, z)
		r.targets = []string{cur.str}
		r.nontrivial = !eqVal(cur.t, cur.v, z)
	case "IterValidators", "IterBalances":
		want := cur.v.([]any)
		et := cur.t.Elem
		r.custom = func(res []reflect.Value) string {
			if len(res) != 1 || res[0].Kind() != reflect.Func {
				return "Iter did not return a function"
			}
			for i := 0; i <= len(want)+1; i++ {
				o := res[0].Call(nil)
				if !o[2].IsNil() {
					return fmt.Sprintf("iteration step %d: %v", i, o[2].Interface())
				}
				if !o[1].Bool() {
					if i != len(want) {
						return fmt.Sprintf("iteration stopped after %d elements, %s has %d", i, cur.str, len(want))
					}
					return ""
				}
				if i >= len(want) {
					return fmt.Sprintf("iteration yields more than the %d elements of %s", len(want), cur.str)
				}
				got, err := encodeLib(e.spec, o[0])
				if err != nil {
					return "cannot encode an iterated element: " + err.Error()
				}
				if !bytes.Equal(got, refssz.Serialize(et, want[i])) {
					return fmt.Sprintf("iteration step %d yields 0x%x, %s[%d] is 0x%x", i, got, cur.str, i, refssz.Serialize(et, want[i]))
				}
			}
			return "iteration does not stop"
		}
		r.nontrivial = len(want) >= 2 && !eqVal(et, want[0], want[1])
	case "CopyState":
		r.mutates = false
		r.direct = func() (*report.Failure, any, bool) {
			var cp common.BeaconState
			var err error
			if f := report.Guard("panic", func() *report.Failure { cp, err = lib.CopyState(); return nil }); f != nil {
				return f, pre, false
			}
			if err != nil {
				return report.Failf("unexpected-error", "CopyState: %v", err), pre, false
			}
			pb, _ := zb.StateBytes(lib)
			cb, err := zb.StateBytes(cp)
			if err != nil || !bytes.Equal(pb, cb) {
				return report.Failf("wrong-result", "the copy serialises differently from the original (%v): %s", err, refssz.DiffBytes(e.stateT, cb, pb)), pre, false
			}
			if zb.StateRoot(cp) != zb.StateRoot(lib) {
				return report.Failf("wrong-result", "the copy has a different root"), pre, false
			}
			_, sv, si := e.field(pre, "slot")
			s := sv.(uint64)
			if err := cp.SetSlot(common.Slot(s + 1)); err != nil {
				return report.Failf("unexpected-error", "SetSlot on the copy: %v", err), pre, false
			}
			if f := e.judgeState(lib, pre, pre, nil); f != nil {
				return report.Failf("copy-aliases-original", "after SetSlot(%d) on the copy the ORIGINAL changed: %s", s+1, f.Msg), pre, false
			}
			if err := lib.SetSlot(common.Slot(s + 2)); err != nil {
				return report.Failf("unexpected-error", "SetSlot on the original: %v", err), pre, false
			}
			if f := e.judgeState(cp, pre, setAt(e.stateT, pre, []int{si}, s+1), nil); f != nil {
				return report.Failf("copy-aliases-original", "after SetSlot(%d) on the original the COPY changed: %s", s+2, f.Msg), pre, false
			}
			if err := lib.SetSlot(common.Slot(s)); err != nil {
				return report.Failf("unexpected-error", "SetSlot on the original: %v", err), pre, false
			}
			return nil, pre, true
		}
	case "SetRecentRoots":
		if h := needArgs(rest, 3); h != "" {
			r.harness = h
			return
		}
		r.mutates = true
		br, err1 := rest[1].value(b32T)
		sr, err2 := rest[2].value(b32T)
		if err1 != nil || err2 != nil {
			r.harness = "bad root argument"
			return
		}
		bt, bv, bi := e.field(pre, "block_roots")
		_, sv, si := e.field(pre, "state_roots")
		slot := rest[0].U
		at := int(slot % uint64(bt.N))
		r.post = setAt(e.stateT, setAt(e.stateT, pre, []int{bi, at}, br), []int{si, at}, sr)
		r.targets = []string{".block_roots", ".state_roots"}
		r.direct = func() (*report.Failure, any, bool) {
			var err error
			if f := report.Guard("panic", func() *report.Failure {
				err = common.SetRecentRoots(e.spec, lib, common.Slot(slot), common.Root(refssz.Serialize(b32T, br)), common.Root(refssz.Serialize(b32T, sr)))
				return nil
			}); f != nil {
				return f, pre, false
			}
			if err != nil {
				return report.Failf("unexpected-error", "SetRecentRoots(%d): %v", slot, err), pre, false
			}
			nb := (at + 1) % int(bt.N)
			return nil, r.post, !eqVal(b32T, bv.([]any)[at], br) && !eqVal(b32T, sv.([]any)[at], sr) && !eqVal(b32T, bv.([]any)[nb], br) && !eqVal(b32T, br, sr)
		}
	case "RotatePendingAttestations":
		r.mutates = true
		_, cv, ci := e.field(pre, "current_epoch_attestations")
		_, pv, pi := e.field(pre, "previous_epoch_attestations")
		post := setAt(e.stateT, setAt(e.stateT, pre, []int{pi}, cv), []int{ci}, []any{})
		r.targets = []string{".previous_epoch_attestations", ".current_epoch_attestations"}
		r.direct = func() (*report.Failure, any, bool) {
			st, ok := lib.(phase0.Phase0PendingAttestationsBeaconState)
			if !ok {
				return report.Failf("harness", "state is not a phase0 pending-attestations state"), pre, false
			}
			var err error
			if f := report.Guard("panic", func() *report.Failure {
				err = phase0.ProcessParticipationRecordUpdates(context.Background(), e.spec, nil, st)
				return nil
			}); f != nil {
				return f, pre, false
			}
			if err != nil {
				return report.Failf("unexpected-error", "ProcessParticipationRecordUpdates: %v", err), pre, false
			}
			return nil, post, len(cv.([]any)) > 0 && len(pv.([]any)) > 0
		}
	case "RotateParticipation":
		r.mutates = true
		ct, cv, ci := e.field(pre, "current_epoch_participation")
		_, pv, pi := e.field(pre, "previous_epoch_participation")
		z := make([]any, len(cv.([]any)))
		for i := range z {
			z[i] = uint64(0)
		}
		post := setAt(e.stateT, setAt(e.stateT, pre, []int{pi}, cv), []int{ci}, z)
		r.targets = []string{".previous_epoch_participation", ".current_epoch_participation"}
		r.direct = func() (*report.Failure, any, bool) {
			st, ok := lib.(altair.AltairLikeBeaconState)
			if !ok {
				return report.Failf("harness", "state is not altair-like"), pre, false
			}
			var err error
			if f := report.Guard("panic", func() *report.Failure {
				err = altair.ProcessParticipationFlagUpdates(context.Background(), e.spec, st)
				return nil
			}); f != nil {
				return f, pre, false
			}
			if err != nil {
				return report.Failf("unexpected-error", "ProcessParticipationFlagUpdates: %v", err), pre, false
			}
			return nil, post, !eqVal(ct, cv, pv) && !eqVal(ct, cv, z)
		}
	default:
		r.harness = "accessor table names an op the check has no model for: " + leaf.Target
	}
	return
}

var _ = tree.GetHashFn
