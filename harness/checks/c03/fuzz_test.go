package c03

// Native, coverage-guided fuzz target for C03 (started by /verif/check in the thorough tier from an
// instrumented build: -test.fuzz FuzzBlockBytes, all cores, time-boxed).
//
// Input: (snapshot index, bytes). A snapshot is a (reference state, library state + context) pair of one
// fork taken from a fixed, deterministic chain, together with the valid next block, whose encoding is
// the seed. Whatever bytes BOTH decoders accept as a SignedBeaconBlock of that fork are judged twice — as
// they are, and re-signed with the key of the proposer they name (so that the content behind the outer
// signature is reached) — always with validate_result=false (a stale state root must not hide anything):
//
//	library accepts  <=>  reference accepts;   both accept => equal post-states;   never a panic.
//
// A failing input is stored in replay layout (report.FuzzFail) and replays through TestCheck.

import (
	"bytes"
	"context"
	"encoding/hex"
	"fmt"
	"sync"
	"testing"

	"github.com/protolambda/zrnt/eth2/beacon/common"

	"zrntverif/refspec"
	"zrntverif/refssz"
	"zrntverif/report"
	"zrntverif/sim"
	"zrntverif/zb"
)

type snap struct {
	l     *sim.Lock
	fork  int
	slot  uint64
	valid []byte
}

// FuzzBlockCase is the replayable form of one fuzz input.
type FuzzBlockCase struct {
	FuzzBlock bool   `json:"fuzz_block"`
	Snapshot  int    `json:"snapshot"`
	Hex       string `json:"hex"`
}

var (
	snapsOnce sync.Once
	snaps     []*snap
	snapsErr  error
)

func buildSnaps() {
	far := refspec.FarFutureEpoch
	_ = far
	o := sim.TourBaseOverride(map[string]uint64{"MAX_DEPOSITS": 2, "MAX_WITHDRAWALS_PER_PAYLOAD": 4, "MAX_VALIDATORS_PER_WITHDRAWALS_SWEEP": 16,
		"MAX_BLS_TO_EXECUTION_CHANGES": 4, "MAX_PROPOSER_SLASHINGS": 2, "MAX_ATTESTER_SLASHINGS": 2, "MAX_BLOBS_PER_BLOCK": 3})
	cfg := sim.ConfigCase{Family: "custom", ForkEpochs: [4]uint64{1, 2, 3, 4}, Override: o}
	g := sim.GenesisCase{N: 20, GenesisTime: 1234, Eth1Seed: 99}
	for i := 0; i < g.N; i++ {
		g.AmountClass = append(g.AmountClass, []int{0, 0, 2, 0, 4}[i%5])
		g.Eth1Cred = append(g.Eth1Cred, i%2 == 0)
	}
	chain, err := sim.NewChain(cfg.Build(), &g)
	if err != nil {
		snapsErr = err
		return
	}
	l, err := sim.NewLock(chain)
	if err != nil {
		snapsErr = err
		return
	}
	ctx := context.Background()
	targets := map[uint64]bool{3: true, 6: true, 10: true, 14: true, 15: true, 18: true, 19: true}
	for slot := uint64(1); slot <= 19; slot++ {
		p := &sim.BlockPlan{Seed: 1000 + slot, AttMode: 1, Participation: 1000, SyncPm: 1000, Eth1Vote: 1, Txs: 1, Blobs: 1}
		if slot == 1 {
			p.Queue = []sim.DepPlan{{Kind: 0, Amount: 0, Eth1: true}, {Kind: 1, Amount: 1, Target: 3}, {Kind: 0, Amount: 2}, {Kind: 2, Amount: 0}, {Kind: 0, Amount: 0, Eth1: true}, {Kind: 1, Amount: 0, Target: 6}}
		}
		if targets[slot] {
			p.NExits, p.NAttSlash, p.NPropSlash, p.NBLSChanges = 1, 1, 1, 1
		}
		sb, _, err := l.BuildBlock(slot, p)
		if err == sim.ErrProposerSlashed {
			if l.SkipRef(slot) != nil {
				snapsErr = fmt.Errorf("skip %d", slot)
				return
			}
			if e, pn := l.SkipLib(ctx, slot); e != nil || pn {
				snapsErr = fmt.Errorf("skip %d: %v", slot, e)
				return
			}
			continue
		}
		if err != nil {
			snapsErr = fmt.Errorf("build slot %d: %v", slot, err)
			return
		}
		if targets[slot] {
			fl, err := l.ForkLock()
			if err != nil {
				snapsErr = err
				return
			}
			snaps = append(snaps, &snap{l: fl, fork: sb.Message.Fork, slot: slot, valid: l.Sp.SignedBlockBytes(sb)})
		}
		if err := l.ApplyBlockRef(sb); err != nil {
			snapsErr = fmt.Errorf("ref slot %d: %v", slot, err)
			return
		}
		if e, pn := l.ApplyBlockLib(ctx, sb); e != nil || pn {
			snapsErr = fmt.Errorf("lib slot %d: %v", slot, e)
			return
		}
	}
}

func getSnaps() ([]*snap, error) {
	snapsOnce.Do(buildSnaps)
	if snapsErr == nil && len(snaps) == 0 {
		snapsErr = fmt.Errorf("no snapshots")
	}
	return snaps, snapsErr
}

// refVerdict: any exception of the executable spec (assert, index error, overflow) means "invalid".
func refVerdict(sp *refspec.Spec, st *refspec.State, sb *refspec.SignedBlock) (err error) {
	defer func() {
		if p := recover(); p != nil {
			err = fmt.Errorf("reference raised: %v", p)
		}
	}()
	return sp.StateTransition(st, sb, false)
}

// fuzzBlockBody is the oracle; stats may be nil. class: undecodable | out-of-window | judged
func fuzzBlockBody(si int, data []byte) (f *report.Failure, class string) {
	ss, err := getSnaps()
	if err != nil {
		return report.Failf("harness", "snapshots: %v", err), ""
	}
	if si < 0 {
		si = -si
	}
	s := ss[si%len(ss)]
	l := s.l
	ty := l.Sp.T(refspec.SignedBlockTypeName(s.fork))
	v, rerr := refssz.Deserialize(ty, data)
	if rerr != nil {
		// decodability itself is C04's subject; still: the library's decoder must not panic
		if _, pan := sim.Guard(func() error {
			_, _, e := zb.DecodeBlock(l.LibSpec, s.fork, data, common.ForkDigest{})
			return e
		}); pan {
			return report.Failf("fuzz/decode-panic", "%s block decoder panicked on %d bytes", forkNames[s.fork], len(data)), ""
		}
		return nil, "undecodable"
	}
	rsb, err := refspec.SignedBlockFromV(s.fork, v)
	if err != nil {
		return nil, "undecodable"
	}
	// slot processing is a loop over slots on both sides: keep it bounded
	if rsb.Message.Slot > l.St.Slot+10 {
		return nil, "out-of-window"
	}
	epoch := l.Sp.EpochAtSlot(rsb.Message.Slot)
	digest := l.Sp.ComputeForkDigest(l.Sp.ComputeForkVersion(epoch), l.St.GenesisValidatorsRoot)
	var env *common.BeaconBlockEnvelope
	derr, pan := sim.Guard(func() error {
		e, _, err := zb.DecodeBlock(l.LibSpec, s.fork, data, common.ForkDigest(digest))
		env = e
		return err
	})
	if pan {
		return report.Failf("fuzz/decode-panic", "%s block decoder panicked on %d bytes: %v", forkNames[s.fork], len(data), derr), ""
	}
	if derr != nil {
		return nil, "undecodable" // reference decodes, library refuses: C04's subject
	}
	type variant struct {
		name string
		sig  [96]byte
	}
	vars := []variant{{"as-is", rsb.Signature}}
	var preAtSlot *refspec.State
	// re-signed by the named proposer under the domain of the state at the block's slot
	if rsb.Message.Slot > l.St.Slot && rsb.Message.ProposerIndex < uint64(len(l.St.Validators)) {
		if k, ok := l.KeyOf[l.St.Validators[rsb.Message.ProposerIndex].Pubkey]; ok {
			pre := l.St.Copy()
			if e := func() (err error) {
				defer func() {
					if p := recover(); p != nil {
						err = fmt.Errorf("%v", p)
					}
				}()
				return l.Sp.ProcessSlots(pre, rsb.Message.Slot)
			}(); e == nil {
				preAtSlot = pre
				root := l.Sp.BlockRoot(&rsb.Message)
				vars = append(vars, variant{"re-signed", refspec.Sign(k, l.Sp.ComputeSigningRoot(root, l.Sp.GetDomainNow(pre, refspec.DOMAIN_BEACON_PROPOSER)))})
			}
		}
	}
	judge := func(name string, rsb *refspec.SignedBlock, env *common.BeaconBlockEnvelope) *report.Failure {
		vr := variant{name: name}
		refState := l.St.Copy()
		refErr := refVerdict(l.Sp, refState, rsb)
		cp, cerr := l.Lib.BeaconState.CopyState()
		if cerr != nil {
			return report.Failf("harness", "CopyState: %v", cerr)
		}
		st := zb.Upgradeable(cp)
		epc := l.Epc.Clone()
		lerr, pan := sim.Guard(func() error {
			return common.StateTransition(context.Background(), l.LibSpec, epc, st, env, false)
		})
		desc := fmt.Sprintf("snapshot %d (%s head at slot %d), %d bytes decoding to a block for slot %d by proposer %d, %s", si%len(ss), forkNames[s.fork], l.St.Slot, len(data), rsb.Message.Slot, rsb.Message.ProposerIndex, vr.name)
		if pan {
			return report.Failf("fuzz/panic", "%s: library panicked: %v (reference: %v)", desc, lerr, refErr)
		}
		if refErr != nil && lerr == nil {
			return report.Failf("fuzz/accepted-invalid", "%s: the reference rejects it (%v), the library processes it without error (validate_result=false)", desc, refErr)
		}
		if refErr == nil && lerr != nil {
			return report.Failf("fuzz/rejected-valid", "%s: the reference accepts it, the library says: %v", desc, lerr)
		}
		if refErr == nil {
			if d := sim.CompareStates(l.Sp, refState, st); d != "" {
				return report.Failf("fuzz/diverge", "%s: accepted by both, states differ: %s", desc, trunc(d))
			}
		}
		return nil
	}
	for _, vr := range vars {
		rsb.Signature = vr.sig
		env.Signature = common.BLSSignature(vr.sig)
		if f := judge(vr.name, rsb, env); f != nil {
			return f, ""
		}
	}
	// third variant: every inner signature redone by whoever the (edited) fields name, so that edits inside
	// signed operations reach the semantic checks instead of dying at a signature
	if preAtSlot != nil {
		sim.ResignAll(l.Chain, preAtSlot, rsb)
		data2 := l.Sp.SignedBlockBytes(rsb)
		var env2 *common.BeaconBlockEnvelope
		if derr, pan := sim.Guard(func() error {
			e, _, err := zb.DecodeBlock(l.LibSpec, s.fork, data2, common.ForkDigest(digest))
			env2 = e
			return err
		}); derr == nil && !pan {
			if f := judge("all-signatures-redone", rsb, env2); f != nil {
				return f, ""
			}
		}
	}
	if bytes.Equal(data, s.valid) {
		return nil, "seed"
	}
	return nil, "judged"
}

func FuzzBlockBytes(f *testing.F) {
	ss, err := getSnaps()
	if err != nil {
		f.Fatalf("snapshots: %v", err)
	}
	for i, s := range ss {
		f.Add(uint8(i), s.valid)
	}
	f.Fuzz(func(t *testing.T, si uint8, data []byte) {
		if len(data) > 1<<16 {
			return
		}
		if fl, _ := fuzzBlockBody(int(si), data); fl != nil {
			report.FuzzFail("C03", &FuzzBlockCase{FuzzBlock: true, Snapshot: int(si), Hex: hex.EncodeToString(data)}, fl)
			t.Fatalf("%s", fl.String())
		}
	})
}

// applyEdits interprets e as up to 6 four-byte edit instructions on a copy of the valid encoding
// (position hi, position lo, kind, value): structured input keeps most candidates decodable, so the
// engine's coverage feedback works on block processing instead of dying in the decoder.
func applyEdits(valid []byte, e []byte) []byte {
	b := append([]byte{}, valid...)
	for i := 0; i+4 <= len(e) && i < 24; i += 4 {
		pos := (int(e[i])<<8 | int(e[i+1])) % len(b)
		val := e[i+3]
		switch e[i+2] % 4 {
		case 0:
			b[pos] ^= 1 << (val % 8)
		case 1:
			b[pos] = val
		case 2:
			if pos+8 <= len(b) {
				for k := 0; k < 8; k++ {
					b[pos+k] = 0
				}
				b[pos] = val % 41
			}
		default:
			src := (int(val)*7 + pos*3) % len(b)
			if pos+32 <= len(b) && src+32 <= len(b) {
				copy(b[pos:pos+32], b[src:src+32])
			}
		}
	}
	return b
}

func FuzzBlockEdits(f *testing.F) {
	ss, err := getSnaps()
	if err != nil {
		f.Fatalf("snapshots: %v", err)
	}
	for i := range ss {
		f.Add(uint8(i), []byte{})
		f.Add(uint8(i), []byte{0, 100, 2, 1})
		f.Add(uint8(i), []byte{1, 40, 0, 3, 2, 10, 1, 7})
	}
	f.Fuzz(func(t *testing.T, si uint8, edits []byte) {
		s := ss[int(si)%len(ss)]
		b := applyEdits(s.valid, edits)
		if fl, _ := fuzzBlockBody(int(si), b); fl != nil {
			report.FuzzFail("C03", &FuzzBlockCase{FuzzBlock: true, Snapshot: int(si), Hex: hex.EncodeToString(b)}, fl)
			t.Fatalf("%s", fl.String())
		}
	})
}

// TestFuzzSeeds: every seed (the valid block of each snapshot) must pass the oracle — guards the
// snapshot recipe and the reference decode path.
func TestFuzzSeeds(t *testing.T) {
	ss, err := getSnaps()
	if err != nil {
		t.Fatal(err)
	}
	forks := map[int]bool{}
	for i, s := range ss {
		forks[s.fork] = true
		if fl, cl := fuzzBlockBody(i, s.valid); fl != nil || cl != "seed" {
			t.Errorf("snapshot %d: %v class %s", i, fl, cl)
		}
	}
	if len(forks) != 5 {
		t.Errorf("snapshots cover forks %v, want all five", forks)
	}
}
