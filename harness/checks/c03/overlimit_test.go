// C03 (part): "over the per-block limit" at the level the API is actually called on. The state transition takes a
// block as Go structs (BeaconBlockEnvelope.Body); an operation list one over its per-block limit cannot even be
// expressed in bytes (the decoder refuses it), but it can be handed over as a struct — e.g. a duplicated operation
// appended by a block builder. The spec gives such a block no meaning at all (the list type cannot hold it), so the
// transition must return an error, whatever the items are. Found by tools/libcov.py (no CheckLimits branch was ever
// executed) and by seeded change C03-R5C.
//
// Sensitivity (tools/trymut.py): capella CheckLimits compares BLS changes with MAX_VOLUNTARY_EXITS -> accepted-invalid:STRUCT-OVER-LIMIT:BLSToExecutionChanges
package c03

import (
	"context"
	"fmt"
	"reflect"

	"github.com/protolambda/zrnt/eth2/beacon/common"

	"zrntverif/refspec"
	"zrntverif/report"
	"zrntverif/sim"
	"zrntverif/zb"
)

// per-block limits of the operation lists of a body (path -> limit)
func bodyLimits(spec *common.Spec) map[string]uint64 {
	return map[string]uint64{
		"ProposerSlashings":            uint64(spec.MAX_PROPOSER_SLASHINGS),
		"AttesterSlashings":            uint64(spec.MAX_ATTESTER_SLASHINGS),
		"Attestations":                 uint64(spec.MAX_ATTESTATIONS),
		"Deposits":                     uint64(spec.MAX_DEPOSITS),
		"VoluntaryExits":               uint64(spec.MAX_VOLUNTARY_EXITS),
		"BLSToExecutionChanges":        uint64(spec.MAX_BLS_TO_EXECUTION_CHANGES),
		"BlobKZGCommitments":           uint64(spec.MAX_BLOBS_PER_BLOCK),
		"ExecutionPayload.Withdrawals": uint64(spec.MAX_WITHDRAWALS_PER_PAYLOAD),
	}
}

var overLimitOrder = []string{"ProposerSlashings", "AttesterSlashings", "Attestations", "Deposits", "VoluntaryExits", "BLSToExecutionChanges", "BlobKZGCommitments", "ExecutionPayload.Withdrawals"}

func fieldByPath(v reflect.Value, path string) reflect.Value {
	cur := v
	start := 0
	for i := 0; i <= len(path); i++ {
		if i == len(path) || path[i] == '.' {
			cur = cur.FieldByName(path[start:i])
			if !cur.IsValid() {
				return cur
			}
			start = i + 1
		}
	}
	return cur
}

// structOverLimit: for every non-empty operation list of the valid block sb whose limit is small enough, a copy of
// the block in which the last item is repeated until the list holds limit+1 items is offered to the library.
func structOverLimit(r *report.Run, l *sim.Lock, sb *refspec.SignedBlock, fork string, slot uint64) *report.Failure {
	b := l.Sp.SignedBlockBytes(sb)
	epoch := l.Sp.EpochAtSlot(sb.Message.Slot)
	digest := common.ForkDigest(l.Sp.ComputeForkDigest(l.Sp.ComputeForkVersion(epoch), l.St.GenesisValidatorsRoot))
	limits := bodyLimits(l.LibSpec)
	for _, path := range overLimitOrder {
		limit := limits[path]
		if limit+1 > 130 {
			continue
		}
		_, blk, err := zb.DecodeBlock(l.LibSpec, sb.Message.Fork, b, digest)
		if err != nil {
			return nil
		}
		lst := fieldByPath(reflect.ValueOf(blk).Elem().FieldByName("Message").FieldByName("Body"), path)
		if !lst.IsValid() || lst.Kind() != reflect.Slice || lst.Len() == 0 || !lst.CanSet() {
			continue
		}
		last := lst.Index(lst.Len() - 1)
		for uint64(lst.Len()) <= limit {
			lst.Set(reflect.Append(lst, last))
		}
		desc := fmt.Sprintf("%s block at slot %d with %s grown to %d items (limit %d) by repeating its last item, handed over as structs", fork, slot, path, lst.Len(), limit)
		var env *common.BeaconBlockEnvelope
		if e, p := sim.Guard(func() error { env = blk.Envelope(l.LibSpec, digest); return nil }); p {
			return report.Failf("panic:STRUCT-OVER-LIMIT:"+path, "%s: Envelope() panicked: %v", desc, e)
		}
		for _, validate := range []bool{false, true} {
			cp, cerr := l.Lib.BeaconState.CopyState()
			if cerr != nil {
				return report.Failf("harness", "CopyState: %v", cerr)
			}
			s := zb.Upgradeable(cp)
			epc := l.Epc.Clone()
			e, p := sim.Guard(func() error {
				return common.StateTransition(context.Background(), l.LibSpec, epc, s, env, validate)
			})
			r.Eval(1)
			if p {
				return report.Failf("panic:STRUCT-OVER-LIMIT:"+path, "%s: library panicked: %v", desc, e)
			}
			if e == nil {
				return report.Failf("accepted-invalid:STRUCT-OVER-LIMIT:"+path, "%s: the transition returned no error (validate_result=%v)", desc, validate)
			}
		}
		r.Class("mutation-rejected-by-reference:STRUCT-OVER-LIMIT:" + path)
		r.Hit("struct-over-limit")
		r.NonTrivial(fork + "|STRUCT-OVER-LIMIT:" + path)
	}
	return nil
}
