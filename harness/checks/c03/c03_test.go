// C03 — every block or operation the spec rejects is rejected, without panicking.
// (a) single-fault mutations of valid blocks from a catalogue tied to spec assertions (re-rooted and
//
//	re-signed so that the targeted assertion is reached); (b) byte-level corruption of valid block
//	encodings. Oracle: the reference decides (refspec.state_transition); a block the reference
//	rejects must give a library error and no panic; one it still accepts must be accepted with
//	the reference post-state (the C01 oracle). Byte-level: an accepted block whose bytes differ
//	from the signed original cannot carry a valid signature.
package c03

import (
	"bytes"
	"context"
	"encoding/binary"
	"encoding/hex"
	"encoding/json"
	"fmt"
	"strings"
	"testing"

	"github.com/protolambda/zrnt/eth2/beacon/common"
	"pgregory.net/rapid"

	"zrntverif/refspec"
	"zrntverif/report"
	"zrntverif/sim"
	"zrntverif/zb"
)

var forkNames = refspec.ForkNames

func trunc(s string) string {
	if len(s) > 500 {
		return s[:500] + "…"
	}
	return s
}

// targetWord: the word the reference's rejection message must contain for the mutation to count
// as having reached its targeted assertion.
func targetWord(id string) []string {
	switch {
	case strings.HasPrefix(id, "HDR-SLOT"):
		return []string{"process_slots", "block.slot"}
	case strings.HasPrefix(id, "HDR-PROPOSER"):
		return []string{"proposer", "IndexError"}
	case strings.HasPrefix(id, "HDR-PARENT"):
		return []string{"parent root"}
	case strings.HasPrefix(id, "HDR-STATE-ROOT"):
		return []string{"state_root"}
	case strings.HasPrefix(id, "SIG-"):
		return []string{"block signature"}
	case strings.HasPrefix(id, "RANDAO"):
		return []string{"randao"}
	case strings.HasPrefix(id, "ATT-"), strings.HasPrefix(id, "LIM-ATT"):
		return []string{"attestation", "get_block_root_at_slot", "IndexError"}
	case strings.HasPrefix(id, "ASL-"):
		return []string{"attester slashing", "IndexError"}
	case strings.HasPrefix(id, "PSL-"), id == "ORDER-SLASH-TWICE":
		return []string{"proposer slashing", "IndexError"}
	case strings.HasPrefix(id, "DEP-"):
		return []string{"deposit"}
	case strings.HasPrefix(id, "EXIT-"):
		return []string{"exit", "IndexError"}
	case strings.HasPrefix(id, "BLSCH-"):
		return []string{"bls change"}
	case strings.HasPrefix(id, "SYNC-"):
		return []string{"sync aggregate"}
	case strings.HasPrefix(id, "PAY-"):
		return []string{"payload", "withdrawals"}
	}
	return nil
}

func libVerdict(l *sim.Lock, sb *refspec.SignedBlock, validate bool) (accepted bool, err error, panicked bool, post common.BeaconState) {
	cp, cerr := l.Lib.BeaconState.CopyState()
	if cerr != nil {
		return false, cerr, false, nil
	}
	s := zb.Upgradeable(cp)
	epc := l.Epc.Clone()
	env, derr := l.Envelope(sb)
	if derr != nil {
		return false, fmt.Errorf("undecodable: %v", derr), false, nil
	}
	e, p := sim.Guard(func() error {
		return common.StateTransition(context.Background(), l.LibSpec, epc, s, env, validate)
	})
	return e == nil, e, p, s
}

func run(r *report.Run, cc *sim.ChainCase) *report.Failure {
	cfg := cc.Config.Build()
	chain, err := sim.NewChain(cfg, &cc.Genesis)
	if err != nil {
		return nil
	}
	l, err := sim.NewLock(chain)
	if err != nil {
		return report.Failf("genesis/load", "%v", err)
	}
	ctx := context.Background()
	for i := range cc.Actions {
		a := &cc.Actions[i]
		if a.Kind != "block" && a.Kind != "skip" {
			continue
		}
		slot := l.ResolveSlot(a)
		if a.Kind == "skip" {
			res := l.StepSkip(ctx, slot)
			if res.RefErr != nil || res.LibErr != nil || res.Diff != "" {
				return nil
			}
			continue
		}
		sb, info, berr := l.BuildBlock(slot, a.Plan)
		if berr == sim.ErrProposerSlashed && len(l.Sp.ActiveIndices(l.St, l.Sp.CurrentEpoch(l.St))) > 0 {
			// process_block_header: "assert not proposer.slashed" — a block that is otherwise perfectly
			// valid and correctly signed by the slashed proposer must be refused
			pl := *a.Plan
			pl.BySlashedProposer = true
			bad, _, e := l.BuildBlock(slot, &pl)
			if e != nil || bad == nil {
				r.Class("slashed-proposer-slot:block-not-built")
				r.Note(fmt.Sprintf("slashed-proposer block not built: %v", e))
			} else {
				ref := l.St.Copy()
				refErr := l.Sp.StateTransition(ref, bad, false)
				if refErr == nil || !strings.Contains(refErr.Error(), "slashed") {
					r.Class("slashed-proposer-slot:reference-says-other")
					r.Note(fmt.Sprintf("slashed-proposer block: reference says %v", refErr))
				} else {
					for _, validate := range []bool{true, false} {
						acc, lerr, pan, _ := libVerdict(l, bad, validate)
						r.Eval(1)
						if pan {
							return report.Failf("panic:HDR-PROPOSER-SLASHED", "block by the slashed proposer at slot %d: library panicked: %v", slot, lerr)
						}
						if acc {
							return report.Failf("accepted-invalid:HDR-PROPOSER-SLASHED", "slot %d: a correctly signed block whose proposer (the slot's proposer) is slashed is accepted (validate_result=%v); the reference says: %v", slot, validate, refErr)
						}
					}
					r.Class("mutation-rejected-by-reference:HDR-PROPOSER-SLASHED")
					r.NonTrivial(forkNames[bad.Message.Fork] + "|HDR-PROPOSER-SLASHED")
				}
			}
		}
		if berr == sim.ErrProposerSlashed {
			res := l.StepSkip(ctx, slot)
			if res.RefErr != nil || res.LibErr != nil || res.Diff != "" {
				return nil
			}
			continue
		}
		if berr != nil {
			r.Class("generator_rejects")
			return nil
		}
		fork := forkNames[sb.Message.Fork]
		if len(a.Mut) > 0 && a.MutSeed%2 == 0 {
			if f := structOverLimit(r, l, sb, fork, slot); f != nil {
				return f
			}
		}
		applied := 0
		for k, id := range a.Mut {
			if applied >= 12 {
				break
			}
			if id == "BYTES" {
				if f := byteLevel(r, l, sb, a.MutSeed+uint64(k), fork); f != nil {
					return f
				}
				continue
			}
			mb, mctx := l.Chain.Mutate(id, a.MutSeed+uint64(k), sb, l.St, info.Pre)
			if mb == nil {
				continue
			}
			applied++
			refState := l.St.Copy()
			refErr := l.Sp.StateTransition(refState, mb, true)
			accepted, lerr, panicked, post := libVerdict(l, mb, true)
			r.Eval(1)
			desc := fmt.Sprintf("%s block at slot %d (ops %v) with mutation %s", fork, slot, info.Kinds, id)
			if panicked {
				return report.Failf("panic:"+id, "%s: library panicked: %v (reference: %v)", desc, lerr, refErr)
			}
			if refErr != nil {
				if accepted {
					return report.Failf("accepted-invalid:"+id, "%s: the reference rejects it (%v) but the library accepts it", desc, refErr)
				}
				// A stale declared state root would hide a body check that the library fails to make: compare
				// the verdicts without result validation too (state_transition(validate_result=False) in the spec).
				ref2 := l.St.Copy()
				if refErr2 := l.Sp.StateTransition(ref2, mb, false); refErr2 != nil {
					acc2, lerr2, pan2, _ := libVerdict(l, mb, false)
					r.Eval(1)
					if pan2 {
						return report.Failf("panic:"+id, "%s (validate_result=false): library panicked: %v", desc, lerr2)
					}
					if acc2 {
						return report.Failf("accepted-invalid-body:"+id, "%s: with validate_result=false the reference still rejects the block (%v) but the library processes it without error", desc, refErr2)
					}
				}
				hit := false
				for _, w := range targetWord(id) {
					if strings.Contains(refErr.Error(), w) {
						hit = true
					}
				}
				if id == "EXIT-TOO-YOUNG" && hit {
					ex := mb.Message.Body.VoluntaryExits
					for _, e := range ex {
						if v := info.Pre.Validators[e.Message.ValidatorIndex]; v.ActivationEligibilityEpoch < v.ActivationEpoch && strings.Contains(refErr.Error(), "too young") {
							r.Hit("too-young-exit-of-queued-validator")
						}
					}
				}
				if hit && !mctx.Benign {
					r.NonTrivial(fork + "|" + id)
					r.Class("rejected-at-target:" + family(id))
					r.Class("mutation-rejected-by-reference:" + id)
					r.Hit("family:" + family(id))
					r.Sample(id, func() any {
						return map[string]any{"fork": fork, "slot": slot, "mutation": id, "reference_says": refErr.Error(), "library_says": trunc(fmt.Sprint(lerr)), "block_ops": info.Kinds}
					})
				} else {
					r.Class("rejected-elsewhere")
				}
				continue
			}
			// the reference still accepts the mutated block: it must be accepted with the same result
			if !accepted {
				return report.Failf("rejected-valid:"+id, "%s: the reference accepts the mutated block but the library rejects it: %v", desc, lerr)
			}
			if d := sim.CompareStates(l.Sp, refState, post); d != "" {
				return report.Failf("diverge:"+id, "%s: accepted by both, states differ: %s", desc, trunc(d))
			}
			r.Class("benign-accepted-by-both")
			if mctx.Benign {
				r.Hit("benign-mutation-accepted")
			}
		}
		// continue the chain with the valid block
		if err := l.ApplyBlockRef(sb); err != nil {
			r.Class("generator_rejects")
			return nil
		}
		if e, p := l.ApplyBlockLib(ctx, sb); e != nil || p {
			r.Class("discarded_other_property(C01)")
			return nil
		}
		if d := l.Compare(); d != "" {
			r.Class("discarded_other_property(C01)")
			return nil
		}
		if f := secondBlockSameSlot(r, l, sb, fork, slot); f != nil {
			return f
		}
	}
	return nil
}

// secondBlockSameSlot: the block-level entry points (PostSlotTransition, state.ProcessBlock — the library's
// process_block) are offered, on the post-state of a block, a second block for the SAME slot that builds on it
// (parent root = root of the latest block header as it stands, proposer unchanged). process_block_header refuses
// it ("block.slot > state.latest_block_header.slot"); inside state_transition the rule is shadowed by process_slots.
func secondBlockSameSlot(r *report.Run, l *sim.Lock, sb *refspec.SignedBlock, fork string, slot uint64) *report.Failure {
	b2 := *sb
	b2.Message.ParentRoot = l.Sp.HeaderRoot(&l.St.LatestBlockHeader)
	ref := l.St.Copy()
	refErr := l.Sp.ProcessBlockOnly(ref, &b2.Message)
	if refErr == nil {
		r.Note("second block for the same slot: the reference accepts it?")
		return nil
	}
	env, err := l.Envelope(&b2)
	if err != nil {
		return nil
	}
	for _, via := range []string{"PostSlotTransition", "ProcessBlock"} {
		cp, cerr := l.Lib.BeaconState.CopyState()
		if cerr != nil {
			return nil
		}
		s := zb.Upgradeable(cp)
		epc := l.Epc.Clone()
		e, p := sim.Guard(func() error {
			if via == "ProcessBlock" {
				return s.ProcessBlock(context.Background(), l.LibSpec, epc, env)
			}
			return common.PostSlotTransition(context.Background(), l.LibSpec, epc, s, env, false)
		})
		r.Eval(1)
		if p {
			return report.Failf("panic:HDR-SECOND-BLOCK-SAME-SLOT", "%s block at slot %d, a second block for the same slot through %s: panic: %v", fork, slot, via, e)
		}
		if e == nil {
			return report.Failf("accepted-invalid-body:HDR-SECOND-BLOCK-SAME-SLOT", "%s: on the post-state of the block of slot %d, %s accepts a second block for the same slot that builds on it; process_block_header says: %v", fork, slot, via, refErr)
		}
	}
	r.Class("mutation-rejected-by-reference:HDR-SECOND-BLOCK-SAME-SLOT")
	r.Hit("second-block-same-slot")
	r.NonTrivial(fork + "|HDR-SECOND-BLOCK-SAME-SLOT")
	return nil
}

func family(id string) string {
	if i := strings.Index(id, "-"); i > 0 {
		return id[:i]
	}
	return id
}

// byteLevel corrupts the valid block's encoding and feeds whatever the library can decode to the transition.
func byteLevel(r *report.Run, l *sim.Lock, sb *refspec.SignedBlock, seed uint64, fork string) *report.Failure {
	orig := l.Sp.SignedBlockBytes(sb)
	b := append([]byte{}, orig...)
	x := seed
	next := func(n int) int {
		x = x*6364136223846793005 + 1442695040888963407
		if n <= 0 {
			return 0
		}
		return int((x >> 33) % uint64(n))
	}
	kind := next(4)
	switch kind {
	case 0:
		for k := 0; k <= next(3); k++ {
			b[next(len(b))] ^= 1 << uint(next(8))
		}
	case 1:
		b = b[:next(len(b))]
	case 2:
		i, j := next(len(b)), next(len(b))
		if i > j {
			i, j = j, i
		}
		b = append(append(append([]byte{}, b[:i]...), b[j:]...), b[i:j]...)
	default:
		// overwrite a 4-byte window (offsets live in such windows)
		i := next(len(b) - 4)
		for k := 0; k < 4; k++ {
			b[i+k] = byte(next(256))
		}
	}
	r.Eval(1)
	epoch := l.Sp.EpochAtSlot(sb.Message.Slot)
	digest := l.Sp.ComputeForkDigest(l.Sp.ComputeForkVersion(epoch), l.St.GenesisValidatorsRoot)
	var env *common.BeaconBlockEnvelope
	var blk common.SpecObj
	derr, panicked := sim.Guard(func() error {
		e, o, err := zb.DecodeBlock(l.LibSpec, sb.Message.Fork, b, common.ForkDigest(digest))
		env, blk = e, o
		return err
	})
	if panicked {
		return report.Failf("bytes/decode-panic", "%s block decoder panicked on corrupted bytes (kind %d): %v", fork, kind, derr)
	}
	if derr != nil {
		r.Class("bytes:undecodable")
		return nil
	}
	cp, _ := l.Lib.BeaconState.CopyState()
	s := zb.Upgradeable(cp)
	epc := l.Epc.Clone()
	e, p := sim.Guard(func() error {
		return common.StateTransition(context.Background(), l.LibSpec, epc, s, env, true)
	})
	if p {
		return report.Failf("bytes/panic", "%s: transition panicked on a decodable corrupted block (kind %d): %v", fork, kind, e)
	}
	r.Hit("bytes:decodable-corruption")
	if e != nil {
		r.Class("bytes:decodable-rejected")
		r.NonTrivial(fmt.Sprintf("%s|BYTES|%d", fork, kind))
		return nil
	}
	// accepted: only legitimate if it decodes to the very block that was signed
	re, _ := zb.SerializeSpecObj(l.LibSpec, blk)
	if bytes.Equal(re, orig) {
		r.Class("bytes:non-canonical-encoding-of-the-same-block")
		return nil
	}
	return report.Failf("bytes/accepted-corrupted", "%s: a corrupted encoding (kind %d) decodes to a different block and the transition accepts it although its signature covers other content", fork, kind)
}

// tourQueuedActivations: a deposit burst, finality, activation of the newcomers; from then on every
// block is hit with the age/epoch-dependent exit mutations.
func tourQueuedActivations(rt *rapid.T) *sim.ChainCase {
	far := refspec.FarFutureEpoch
	fork := rapid.SampledFrom([][4]uint64{{far, far, far, far}, {1, far, far, far}, {1, 2, 2, 3}}).Draw(rt, "forks")
	o := map[string]uint64{"SLOTS_PER_EPOCH": 4, "TARGET_COMMITTEE_SIZE": 2, "MAX_COMMITTEES_PER_SLOT": 2, "SHUFFLE_ROUND_COUNT": 3,
		"SLOTS_PER_HISTORICAL_ROOT": 8, "EPOCHS_PER_HISTORICAL_VECTOR": 8, "EPOCHS_PER_SLASHINGS_VECTOR": 4, "EPOCHS_PER_ETH1_VOTING_PERIOD": 1,
		"MAX_SEED_LOOKAHEAD": rapid.SampledFrom([]uint64{1, 2}).Draw(rt, "lookahead"), "MIN_PER_EPOCH_CHURN_LIMIT": 4, "CHURN_LIMIT_QUOTIENT": 4, "MAX_PER_EPOCH_ACTIVATION_CHURN_LIMIT": 8,
		"SYNC_COMMITTEE_SIZE": 4, "EPOCHS_PER_SYNC_COMMITTEE_PERIOD": 2, "MAX_DEPOSITS": 16, "MAX_ATTESTATIONS": 128, "MAX_VOLUNTARY_EXITS": 4,
		"SHARD_COMMITTEE_PERIOD": rapid.SampledFrom([]uint64{2, 3, 4}).Draw(rt, "scp")}
	cc := &sim.ChainCase{Profile: "full", Config: sim.ConfigCase{Family: "custom", ForkEpochs: fork, Override: o}}
	cc.Genesis = sim.GenesisCase{N: 16, GenesisTime: 77, Eth1Seed: rapid.Uint64().Draw(rt, "eth1_seed")}
	for i := 0; i < 16; i++ {
		cc.Genesis.AmountClass = append(cc.Genesis.AmountClass, 0)
		cc.Genesis.Eth1Cred = append(cc.Genesis.Eth1Cred, true)
	}
	for s := 1; s <= 40; s++ {
		p := &sim.BlockPlan{Seed: rapid.Uint64().Draw(rt, "seed"), AttMode: 1, Participation: 1000, SyncPm: 1000, Eth1Vote: 1}
		if s == 1 {
			for i := 0; i < 5; i++ {
				p.Queue = append(p.Queue, sim.DepPlan{Kind: 0, Amount: 0, Eth1: true})
			}
		}
		if s > 20 && s%3 == 0 {
			p.NExits = 1
		}
		a := sim.Action{Kind: "block", Slots: 1, Plan: p, MutSeed: rapid.Uint64().Draw(rt, "mut_seed")}
		a.Mut = []string{"PSL-VALIDATOR-NOT-YET-ACTIVE", "ASL-VALIDATOR-NOT-YET-ACTIVE"}
		if s >= 16 {
			a.Mut = append(a.Mut, "EXIT-TOO-YOUNG", "EXIT-FUTURE-EPOCH", "EXIT-ALREADY-OR-INACTIVE", "EXIT-WRONGKEY", "BYTES")
		}
		cc.Actions = append(cc.Actions, a)
	}
	return cc
}

func TestCheck(t *testing.T) {
	r := report.Begin("C03")
	defer r.Finish()
	r.Rule(fmt.Sprintf("generated chains; on every block up to 12 single-fault mutations from a catalogue of %d entries (each tied to one spec assertion: header, outer signature under wrong key/domain/version/genesis root, randao, attestation data/bits/signature, attester and proposer slashing shape and signatures, deposit count/proof/order, exit epoch/key/domain/index/duplicate, BLS change, sync aggregate, payload parent/randao/timestamp/withdrawals/blobs, list over limit, duplicated operations) re-rooted and re-signed so the targeted check is reached, plus byte-level corruption (bit flips, truncation, splice, 4-byte overwrite) of the block encoding. non-trivial = the reference rejects the mutated block with a message of the targeted assertion family; distinct key = (fork, mutation id)", len(sim.Catalogue)))
	r.Assume("refspec is the spec; it decides accept/reject", "which error the library returns is irrelevant", "multi-fault blocks are only reached by the byte-level generator")
	replay := func(raw json.RawMessage) *report.Failure {
		var fb FuzzBlockCase
		if json.Unmarshal(raw, &fb) == nil && fb.FuzzBlock {
			data, _ := hex.DecodeString(fb.Hex)
			f, _ := fuzzBlockBody(fb.Snapshot, data)
			r.Eval(1)
			return f
		}
		var cc sim.ChainCase
		if err := json.Unmarshal(raw, &cc); err != nil {
			return report.Failf("harness", "bad case: %v", err)
		}
		return run(r, &cc)
	}
	r.Regress(replay)
	if r.Replay != "" {
		return
	}
	r.Mandatory("second-block-same-slot", "struct-over-limit", "too-young-exit-of-queued-validator", "family:HDR", "family:SIG", "family:RANDAO", "family:ATT", "family:ASL", "family:PSL", "family:DEP", "family:EXIT", "family:BLSCH", "family:SYNC", "family:PAY", "bytes:decodable-corruption", "bytes:differential-judged", "benign-mutation-accepted")
	// ---- tour: validators that went through the activation queue, then mutations that depend on their age
	nt := 2
	if r.Thorough() {
		nt = 16
	}
	if !r.Search(t, "tour-queued-activations", 100, nt, func(rt *rapid.T) (any, *report.Failure) {
		cc := tourQueuedActivations(rt)
		return cc, run(r, cc)
	}) {
		return
	}
	// ---- tour: capella/deneb registries with every (credential, balance-vs-MAX, effective-balance) mix,
	// top-ups into the hysteresis band, exits -> each block gets the relaxed-predicate withdrawal mutations
	if !r.Search(t, "tour-withdrawal-edges", 101, nt*2, func(rt *rapid.T) (any, *report.Failure) {
		cc := sim.TourWithdrawalEdges(rt, []string{"PAY-WD-PARTIAL-LOW-EB", "PAY-WD-PARTIAL-NOCRED", "PAY-WD-PARTIAL-AT-MAX", "PAY-WD-FULL-EARLY",
			"PAY-WD-FULL-NOCRED", "PAY-WD-SWEEP-PLUS-ONE", "PAY-WD-COUNT", "PAY-WD-FIELD", "PSL-VALIDATOR-WITHDRAWABLE", "ASL-VALIDATOR-WITHDRAWABLE", "BLSCH-NON-BLS-PREFIX", "BYTES"})
		return cc, run(r, cc)
	}) {
		return
	}
	// ---- tour: many consecutive deposit-carrying blocks, each hit with the deposit mutations
	if !r.Search(t, "tour-deposits", 102, nt*2, func(rt *rapid.T) (any, *report.Failure) {
		cc := sim.TourDeposits(rt, []string{"DEP-PROOF", "DEP-PROOF-LEAFSIDE", "DEP-DATA-FIELD", "DEP-AMOUNT", "DEP-WRONG-INDEX", "DEP-COUNT-SHORT",
			"DEP-REPLAY-PROCESSED", "DEP-COUNT-OVER", "PSL-VALIDATOR-NOT-YET-ACTIVE", "ASL-VALIDATOR-NOT-YET-ACTIVE", "BYTES"})
		return cc, run(r, cc)
	}) {
		return
	}
	// ---- byte-level differential on fixed snapshots of every fork (the body of the native fuzz target
	// FuzzBlockBytes, here driven by rapid edits of the valid block's encoding): both decoders must accept
	// the bytes, then library verdict == reference verdict as-is and re-signed by the named proposer
	if !r.Search(t, "bytes-differential", 103, r.N(1600, 24000), func(rt *rapid.T) (any, *report.Failure) {
		ss, err := getSnaps()
		if err != nil {
			return nil, report.Failf("harness", "%v", err)
		}
		si := rapid.IntRange(0, len(ss)-1).Draw(rt, "snapshot")
		b := append([]byte{}, ss[si].valid...)
		for k := rapid.IntRange(1, 3).Draw(rt, "edits"); k > 0; k-- {
			pos := rapid.IntRange(0, len(b)-1).Draw(rt, "pos")
			switch rapid.IntRange(0, 3).Draw(rt, "edit") {
			case 0:
				b[pos] ^= 1 << uint(rapid.IntRange(0, 7).Draw(rt, "bit"))
			case 1:
				b[pos] = rapid.Byte().Draw(rt, "byte")
			case 2: // small integer written over an 8-byte window (slots, indices, epochs, amounts)
				if pos+8 <= len(b) {
					binary.LittleEndian.PutUint64(b[pos:], uint64(rapid.IntRange(0, 40).Draw(rt, "small")))
				}
			default: // copy another 32-byte window over this one (roots, credentials)
				src := rapid.IntRange(0, len(b)-1).Draw(rt, "src")
				if pos+32 <= len(b) && src+32 <= len(b) {
					copy(b[pos:pos+32], b[src:src+32])
				}
			}
		}
		c := &FuzzBlockCase{FuzzBlock: true, Snapshot: si, Hex: hex.EncodeToString(b)}
		f, cl := fuzzBlockBody(si, b)
		r.Eval(1)
		r.Class("bytes-differential:" + cl)
		if cl == "judged" {
			r.Hit("bytes:differential-judged")
			r.NonTrivial(fmt.Sprintf("%s|BYTESDIFF|%d", forkNames[ss[si].fork], len(b)%7))
		}
		return c, f
	}) {
		return
	}
	opts := sim.GenOpts{CustomPct: 85, AllowMainnet: false, MaxSlots: 36, BlockPct: 80, MaxSkip: 1, OpsBias: 85, MaxN: 48}
	var ids []string
	for _, m := range sim.Catalogue {
		ids = append(ids, m.ID)
	}
	r.Search(t, "chains", 0, r.N(128, 2500), func(rt *rapid.T) (any, *report.Failure) {
		cc := sim.GenChainCase(rt, opts)
		for i := range cc.Actions {
			if cc.Actions[i].Kind != "block" {
				continue
			}
			perm := rapid.Permutation(ids).Draw(rt, "mutations")
			if len(perm) > 40 {
				perm = perm[:40]
			}
			cc.Actions[i].Mut = append(perm, "BYTES", "BYTES")
			cc.Actions[i].MutSeed = rapid.Uint64().Draw(rt, "mut_seed")
		}
		return cc, run(r, cc)
	})
}
