// C07 (part): active sets of millions ("any registry size"; the registry limit is 2^40). On the mainnet preset
// there are 2048 committees per epoch, so from 2^21 active validators on the products `active x committee
// number` in the committee-boundary formula need more than 32 bits. States of that size cannot be built through
// the reference state machinery in a check's budget; the committees are a function of (active indices, seed)
// only, which common.NewShufflingEpoch takes directly (it is what every context is made of).
// Oracle: committee k of the epoch = [active[compute_shuffled_index(i, n, seed)] for i in n*k/count .. n*(k+1)/count)
// with the bounds in math/big, the members at sampled positions by refspec's per-index shuffle, and the
// reference-free predicate: the committees, concatenated, are a permutation of the active set.
//
// Sensitivity (tools/trymut.py, quick tier):
//
//	H1 shuffling.go committee offsets computed in uint32          huge/panic (slice bounds) or huge/committee-bounds
//	H2 shuffling.go endOffset uses index instead of index+1       huge/committee-bounds
package c07

import (
	"fmt"
	"math/big"

	"github.com/protolambda/zrnt/eth2/beacon/common"
	"github.com/protolambda/zrnt/eth2/configs"
	"pgregory.net/rapid"

	"zrntverif/refspec"
	"zrntverif/report"
	"zrntverif/sim"
)

type HugeCase struct {
	Kind     string `json:"kind"` // "huge"
	N        int    `json:"registry"`
	GapEvery int    `json:"gap_every"` // every k-th validator is not active in the queried epoch (0: none)
	Seed     uint64 `json:"seed"`
	Epoch    uint64 `json:"epoch"`
	Samples  int    `json:"samples"`
}

func genHuge(t *rapid.T) *HugeCase {
	c := &HugeCase{Kind: "huge"}
	base := rapid.SampledFrom([]int{1 << 21, 1 << 21, 1<<21 + 4096, 2_200_000, 1_050_000, 3_000_000}).Draw(t, "base")
	c.N = base + rapid.IntRange(-2, 2).Draw(t, "d")
	c.GapEvery = rapid.SampledFrom([]int{0, 0, 1000, 7}).Draw(t, "gap_every")
	c.Seed = rapid.Uint64().Draw(t, "seed")
	c.Epoch = uint64(rapid.IntRange(2, 1000).Draw(t, "epoch"))
	c.Samples = 40
	return c
}

func runHuge(r *report.Run, c *HugeCase) *report.Failure {
	spec := configs.Mainnet
	sp := refspec.NewSpec(refspec.Official("mainnet"))
	idx := make([]common.BoundedIndex, c.N)
	var active []uint64
	for i := range idx {
		idx[i] = common.BoundedIndex{Index: common.ValidatorIndex(i), Activation: 0, Exit: common.Epoch(^uint64(0))}
		if c.GapEvery > 0 && i%c.GapEvery == c.GapEvery-1 {
			if i%2 == 0 {
				idx[i].Exit = common.Epoch(c.Epoch) // exited exactly now
			} else {
				idx[i].Activation = common.Epoch(c.Epoch + 1) // not yet active
			}
			continue
		}
		active = append(active, uint64(i))
	}
	seed := mix(c.Seed, 7)
	var shep *common.ShufflingEpoch
	e, panicked := sim.Guard(func() error {
		shep = common.NewShufflingEpoch(spec, idx, common.Root(seed), common.Epoch(c.Epoch))
		return nil
	})
	r.Eval(1)
	n := uint64(len(active))
	if panicked {
		return report.Failf("huge/panic", "NewShufflingEpoch with %d active validators (mainnet preset): %v", n, e)
	}
	if uint64(len(shep.ActiveIndices)) != n {
		return report.Failf("huge/active-set", "%d active indices, %d validators are active in epoch %d", len(shep.ActiveIndices), n, c.Epoch)
	}
	spe := uint64(spec.SLOTS_PER_EPOCH)
	cps := n / spe / sp.P.TARGET_COMMITTEE_SIZE
	if cps > sp.P.MAX_COMMITTEES_PER_SLOT {
		cps = sp.P.MAX_COMMITTEES_PER_SLOT
	}
	if cps < 1 {
		cps = 1
	}
	count := cps * spe
	if uint64(len(shep.Committees)) != spe {
		return report.Failf("huge/committee-count", "%d slots of committees", len(shep.Committees))
	}
	seen := make([]uint64, (c.N+63)/64)
	total := uint64(0)
	bn := new(big.Int).SetUint64(n)
	bound := func(k uint64) uint64 {
		v := new(big.Int).Mul(bn, new(big.Int).SetUint64(k))
		return v.Div(v, new(big.Int).SetUint64(count)).Uint64()
	}
	for slot := uint64(0); slot < spe; slot++ {
		if uint64(len(shep.Committees[slot])) != cps {
			return report.Failf("huge/committee-count", "slot %d has %d committees, the formula gives %d for %d active validators", slot, len(shep.Committees[slot]), cps, n)
		}
		for ci := uint64(0); ci < cps; ci++ {
			k := slot*cps + ci
			lo, hi := bound(k), bound(k+1)
			comm := shep.Committees[slot][ci]
			if uint64(len(comm)) != hi-lo {
				return report.Failf("huge/committee-bounds", "%d active validators: committee %d of the epoch (slot %d, index %d) has %d members, positions %d..%d give %d", n, k, slot, ci, len(comm), lo, hi, hi-lo)
			}
			for _, v := range comm {
				if uint64(v) >= uint64(c.N) || seen[v/64]&(1<<(v%64)) != 0 {
					return report.Failf("huge/not-a-partition", "validator %d sits in two committees (or is out of range)", v)
				}
				seen[v/64] |= 1 << (v % 64)
			}
			total += uint64(len(comm))
		}
	}
	if total != n {
		return report.Failf("huge/not-a-partition", "the committees hold %d validators, %d are active", total, n)
	}
	for _, a := range active {
		if seen[a/64]&(1<<(a%64)) == 0 {
			return report.Failf("huge/not-a-partition", "active validator %d sits in no committee", a)
		}
	}
	// members at sampled positions (first/last of a committee, committees next to the 2^32 product, anywhere)
	pr := c.Seed
	next := func() uint64 {
		pr += 0x9e3779b97f4a7c15
		z := pr
		z = (z ^ (z >> 30)) * 0xbf58476d1ce4e5b9
		z = (z ^ (z >> 27)) * 0x94d049bb133111eb
		return z ^ (z >> 31)
	}
	for s := 0; s < c.Samples; s++ {
		k := next() % count
		if s%4 == 0 {
			k = count - 1 - uint64(s/4)%count
		}
		slot, ci := k/cps, k%cps
		comm := shep.Committees[slot][ci]
		if len(comm) == 0 {
			continue
		}
		pos := next() % uint64(len(comm))
		if s%3 == 0 {
			pos = uint64(len(comm)) - 1
		}
		want := active[sp.ComputeShuffledIndex(bound(k)+pos, n, seed)]
		if uint64(comm[pos]) != want {
			return report.Failf("huge/member", "%d active validators: member %d of committee (slot %d, index %d) is validator %d, the spec's compute_committee gives %d", n, pos, slot, ci, comm[pos], want)
		}
	}
	over := "below"
	if new(big.Int).Mul(bn, new(big.Int).SetUint64(count)).Cmp(new(big.Int).Lsh(big.NewInt(1), 32)) >= 0 {
		over = "at-or-above"
		r.Hit("huge:active-x-committees>=2^32")
	}
	r.Class("huge:active-x-committees-" + over + "-2^32")
	r.NonTrivial(fmt.Sprintf("huge|%d|%d|%s", c.N>>16, c.GapEvery, over))
	return nil
}
