// C07 — committee, proposer and sync-committee assignments equal the spec's.
// (a) synthetic registries drawn directly (activation/exit patterns around the current epoch,
// effective balances at the sampling thresholds, random randao), loaded into the library from
// reference-encoded bytes; (b) every epoch boundary of generated chains.
// Oracle: refspec get_beacon_committee / get_beacon_proposer_index / get_next_sync_committee
// (per-index shuffling, no caches) + the reference-free partition predicate.
package c07

import (
	"context"
	"encoding/json"
	"fmt"
	"sort"
	"strings"
	"testing"
	"time"

	"github.com/protolambda/zrnt/eth2/beacon/common"
	"pgregory.net/rapid"

	"zrntverif/refspec"
	"zrntverif/report"
	"zrntverif/sim"
	"zrntverif/zb"
)

type Val struct {
	EffInc     int  `json:"eff_inc"` // effective balance in increments
	Slashed    bool `json:"slashed"`
	Activation int  `json:"activation"` // epoch offset relative to current epoch; 1000 = far future
	Exit       int  `json:"exit"`       // idem
}

type Case struct {
	Config   sim.ConfigCase `json:"config"`
	Fork     int            `json:"fork"`
	Epoch    uint64         `json:"epoch"`
	SlotInEp uint64         `json:"slot_in_epoch"`
	MixSeed  uint64         `json:"mix_seed"`
	Vals     []Val          `json:"vals"`
	// Repoint: afterwards the SAME context object is loaded (LoadShuffling, LoadProposers, LoadSyncCommittees —
	// the exported methods NewEpochsContext itself is made of) from a second state of the same epoch and
	// registry with another randao history; it must then report the second state's assignments
	Repoint bool `json:"repoint,omitempty"`
}

func epochRel(cur uint64, off int) uint64 {
	if off >= 1000 {
		return refspec.FarFutureEpoch
	}
	v := int64(cur) + int64(off)
	if v < 0 {
		v = 0
	}
	return uint64(v)
}

func mix(seed, i uint64) (r refspec.Root) {
	h := refspec.Hash([]byte(fmt.Sprintf("mix-%d-%d", seed, i)))
	return h
}

func buildState(sp *refspec.Spec, c *Case) *refspec.State {
	p := sp.P
	s := &refspec.State{Fork: c.Fork}
	s.Slot = c.Epoch*p.SLOTS_PER_EPOCH + c.SlotInEp%p.SLOTS_PER_EPOCH
	s.ForkData = refspec.Fork{PreviousVersion: p.ForkVersions[0], CurrentVersion: p.ForkVersions[c.Fork], Epoch: 0}
	s.GenesisValidatorsRoot = mix(c.MixSeed, 999999)
	emptyBody := refspec.Body{}
	s.LatestBlockHeader = refspec.BeaconBlockHeader{BodyRoot: sp.HTR(refspec.BodyTypeName(0), emptyBody.V(0))}
	s.BlockRoots = make([]refspec.Root, p.SLOTS_PER_HISTORICAL_ROOT)
	s.StateRoots = make([]refspec.Root, p.SLOTS_PER_HISTORICAL_ROOT)
	s.RandaoMixes = make([]refspec.Root, p.EPOCHS_PER_HISTORICAL_VECTOR)
	for i := range s.RandaoMixes {
		s.RandaoMixes[i] = mix(c.MixSeed, uint64(i))
	}
	s.Slashings = make([]uint64, p.EPOCHS_PER_SLASHINGS_VECTOR)
	for i, v := range c.Vals {
		val := refspec.Validator{Pubkey: refspec.KeyPubkey(uint64(i)), EffectiveBalance: uint64(v.EffInc) * p.EFFECTIVE_BALANCE_INCREMENT, Slashed: v.Slashed,
			ActivationEligibilityEpoch: 0, ActivationEpoch: epochRel(c.Epoch, v.Activation), ExitEpoch: epochRel(c.Epoch, v.Exit), WithdrawableEpoch: refspec.FarFutureEpoch}
		if val.ExitEpoch != refspec.FarFutureEpoch {
			val.WithdrawableEpoch = val.ExitEpoch + p.MIN_VALIDATOR_WITHDRAWABILITY_DELAY
		}
		val.WithdrawalCredentials[0] = 1
		s.Validators = append(s.Validators, val)
		s.Balances = append(s.Balances, val.EffectiveBalance)
	}
	if c.Fork >= refspec.Altair {
		n := len(c.Vals)
		s.PreviousEpochParticipation = make([]uint8, n)
		s.CurrentEpochParticipation = make([]uint8, n)
		s.InactivityScores = make([]uint64, n)
	}
	return s
}

func eq(a []common.ValidatorIndex, b []uint64) bool {
	if len(a) != len(b) {
		return false
	}
	for i := range a {
		if uint64(a[i]) != b[i] {
			return false
		}
	}
	return true
}

// compareAssignments checks every committee of prev/current/next epoch, every proposer of the
// current epoch and (altair+) the next sync committee, for a reference state and a context.
func compareAssignments(r *report.Run, sp *refspec.Spec, spec *common.Spec, ref *refspec.State, lib common.BeaconState, epc *common.EpochsContext, where string) *report.Failure {
	p := sp.P
	cur := sp.CurrentEpoch(ref)
	epochs := []uint64{cur, cur + 1}
	if cur > 0 {
		epochs = append([]uint64{cur - 1}, epochs...)
	}
	multi, inactive := false, false
	for _, e := range epochs {
		active := sp.ActiveIndices(ref, e)
		if len(active) != len(ref.Validators) {
			inactive = true
		}
		wantCount := sp.CommitteeCountPerSlot(ref, e)
		gotCount, err := epc.GetCommitteeCountPerSlot(common.Epoch(e))
		if err != nil {
			return report.Failf("committee-count/error", "%s: GetCommitteeCountPerSlot(%d): %v", where, e, err)
		}
		if gotCount != wantCount {
			return report.Failf("committee-count/wrong", "%s: epoch %d (%d active): %d committees per slot, spec says %d", where, e, len(active), gotCount, wantCount)
		}
		if wantCount >= 2 {
			multi = true
		}
		seen := map[uint64]int{}
		minSize, maxSize := 1<<30, 0
		for sl := uint64(0); sl < p.SLOTS_PER_EPOCH; sl++ {
			slot := e*p.SLOTS_PER_EPOCH + sl
			for ci := uint64(0); ci < wantCount; ci++ {
				want := sp.BeaconCommittee(ref, slot, ci)
				got, err := epc.GetBeaconCommittee(common.Slot(slot), common.CommitteeIndex(ci))
				if err != nil {
					return report.Failf("committee/error", "%s: GetBeaconCommittee(%d,%d): %v", where, slot, ci, err)
				}
				if !eq(got, want) {
					return report.Failf("committee/wrong", "%s: committee (slot %d, index %d) of epoch %d = %v, spec says %v", where, slot, ci, e, got, want)
				}
				for _, v := range got {
					seen[uint64(v)]++
				}
				if len(got) < minSize {
					minSize = len(got)
				}
				if len(got) > maxSize {
					maxSize = len(got)
				}
			}
			// one past the last committee must not exist
			if _, err := epc.GetBeaconCommittee(common.Slot(slot), common.CommitteeIndex(wantCount)); err == nil && wantCount < p.MAX_COMMITTEES_PER_SLOT {
				return report.Failf("committee/extra", "%s: GetBeaconCommittee(%d,%d) exists but the spec has only %d committees per slot", where, slot, wantCount, wantCount)
			}
		}
		// reference-free partition predicate
		for _, a := range active {
			if seen[a] != 1 {
				return report.Failf("committee/not-a-partition", "%s: epoch %d: active validator %d sits in %d committees", where, e, a, seen[a])
			}
		}
		if len(seen) != len(active) {
			return report.Failf("committee/not-a-partition", "%s: epoch %d: committees hold %d distinct validators, %d are active", where, e, len(seen), len(active))
		}
		if len(active) > 0 && maxSize-minSize > 1 {
			return report.Failf("committee/sizes", "%s: epoch %d: committee sizes range %d..%d", where, e, minSize, maxSize)
		}
	}
	// proposers of the current epoch
	rejected := false
	for sl := uint64(0); sl < p.SLOTS_PER_EPOCH; sl++ {
		slot := cur*p.SLOTS_PER_EPOCH + sl
		want := sp.ProposerIndexAtSlot(ref, slot)
		got, err := epc.GetBeaconProposer(common.Slot(slot))
		if err != nil {
			return report.Failf("proposer/error", "%s: GetBeaconProposer(%d): %v", where, slot, err)
		}
		if uint64(got) != want {
			return report.Failf("proposer/wrong", "%s: proposer of slot %d = %d, spec says %d", where, slot, got, want)
		}
	}
	nonUniform := false
	for i := range ref.Validators {
		if ref.Validators[i].EffectiveBalance != ref.Validators[0].EffectiveBalance {
			nonUniform = true
		}
		if ref.Validators[i].EffectiveBalance < p.MAX_EFFECTIVE_BALANCE && refspec.IsActive(&ref.Validators[i], cur) {
			rejected = true // a candidate below MAX can be rejected by the sampling (measured as possibility)
		}
	}
	dupSync := false
	if ref.Fork >= refspec.Altair && len(sp.ActiveIndices(ref, cur+1)) > 0 {
		wantIdx := sp.NextSyncCommitteeIndices(ref)
		want := sp.GetNextSyncCommittee(ref)
		got, err := common.ComputeNextSyncCommittee(spec, epc, lib)
		if err != nil {
			return report.Failf("sync/error", "%s: ComputeNextSyncCommittee: %v", where, err)
		}
		if len(got.Pubkeys) != len(want.Pubkeys) {
			return report.Failf("sync/wrong", "%s: next sync committee has %d members, spec %d", where, len(got.Pubkeys), len(want.Pubkeys))
		}
		for i := range want.Pubkeys {
			if [48]byte(got.Pubkeys[i]) != want.Pubkeys[i] {
				return report.Failf("sync/wrong", "%s: next sync committee member %d differs (spec index %d)", where, i, wantIdx[i])
			}
		}
		if [48]byte(got.AggregatePubkey) != want.AggregatePubkey {
			return report.Failf("sync/aggregate", "%s: next sync committee aggregate pubkey differs", where)
		}
		gotIdx, err := common.ComputeSyncCommitteeIndices(spec, lib, common.Epoch(cur+1), epc.NextEpoch.ActiveIndices)
		if err != nil || !eq(gotIdx, wantIdx) {
			return report.Failf("sync/indices", "%s: ComputeSyncCommitteeIndices = %v (%v), spec %v", where, gotIdx, err, wantIdx)
		}
		m := map[uint64]bool{}
		for _, x := range wantIdx {
			if m[x] {
				dupSync = true
			}
			m[x] = true
		}
		r.Class("sync-committee-compared")
	}
	// the sync committees the context reports must be the state's (reference state = spec), member by member
	if ref.Fork >= refspec.Altair {
		for _, sc := range []struct {
			name string
			got  *common.IndexedSyncCommittee
			want *refspec.SyncCommittee
		}{{"current", epc.CurrentSyncCommittee, &ref.CurrentSyncCommittee}, {"next", epc.NextSyncCommittee, &ref.NextSyncCommittee}} {
			if sc.got == nil {
				return report.Failf("sync/context-missing", "%s: the context has no %s sync committee for an altair+ state", where, sc.name)
			}
			if len(sc.got.Indices) != len(sc.want.Pubkeys) {
				return report.Failf("sync/context-wrong", "%s: context %s sync committee has %d members, state has %d", where, sc.name, len(sc.got.Indices), len(sc.want.Pubkeys))
			}
			for i, vi := range sc.got.Indices {
				if uint64(vi) >= uint64(len(ref.Validators)) || ref.Validators[vi].Pubkey != sc.want.Pubkeys[i] {
					return report.Failf("sync/context-wrong", "%s: context %s sync committee member %d is validator %d, whose key is not the state's member %d", where, sc.name, i, vi, i)
				}
			}
			// subcommittee / subnet helpers of the indexed committee (p2p spec: compute_subnets_for_sync_committee,
			// get_sync_subcommittee_pubkeys): positions i*SIZE/4 .. (i+1)*SIZE/4 form subcommittee i
			size := uint64(len(sc.want.Pubkeys)) / 4
			if size > 0 && uint64(len(sc.want.Pubkeys))%4 == 0 {
				want := map[uint64]map[uint64]bool{}
				for i, vi := range sc.got.Indices {
					if want[uint64(vi)] == nil {
						want[uint64(vi)] = map[uint64]bool{}
					}
					want[uint64(vi)][uint64(i)/size] = true
				}
				for sub := uint64(0); sub < 4; sub++ {
					pubs, idx, err := sc.got.Subcommittee(spec, sub)
					if err != nil || uint64(len(idx)) != size || uint64(len(pubs)) != size {
						return report.Failf("sync/subcommittee", "%s: %s committee Subcommittee(%d): %d indices, %d keys, err %v; want %d", where, sc.name, sub, len(idx), len(pubs), err, size)
					}
					for k := uint64(0); k < size; k++ {
						if idx[k] != sc.got.Indices[sub*size+k] || pubs[k].Compressed != common.BLSPubkey(sc.want.Pubkeys[sub*size+k]) {
							return report.Failf("sync/subcommittee", "%s: %s committee Subcommittee(%d)[%d] is not member %d of the committee", where, sc.name, sub, k, sub*size+k)
						}
					}
				}
				if _, _, err := sc.got.Subcommittee(spec, 4); err == nil {
					return report.Failf("sync/subcommittee", "%s: Subcommittee(4) gives no error (SYNC_COMMITTEE_SUBNET_COUNT = 4)", where)
				}
				probe := []uint64{uint64(len(ref.Validators))}
				for v := range want {
					probe = append(probe, v)
				}
				sort.Slice(probe, func(i, j int) bool { return probe[i] < probe[j] })
				for _, v := range probe {
					got := map[uint64]bool{}
					for _, sn := range sc.got.Subnets(spec, common.ValidatorIndex(v)) {
						got[sn] = true
					}
					for sub := uint64(0); sub < 5; sub++ {
						if got[sub] != want[v][sub] {
							return report.Failf("sync/subnets", "%s: %s committee Subnets(validator %d) = %v, the validator's positions give %v", where, sc.name, v, sc.got.Subnets(spec, common.ValidatorIndex(v)), want[v])
						}
						if in := sc.got.InSubnet(spec, common.ValidatorIndex(v), sub); in != want[v][sub] {
							return report.Failf("sync/subnets", "%s: %s committee InSubnet(validator %d, %d) = %v, positions give %v", where, sc.name, v, sub, in, want[v][sub])
						}
					}
					if len(want[v]) >= 2 {
						r.Hit("sync-member-on-two-subnets")
					}
				}
				r.Class("sync-subnet-helpers-compared")
			}
		}
		r.Class("context-sync-committees-compared")
	}
	// accounting
	r.Eval(1)
	if multi || inactive || nonUniform {
		nActive := len(sp.ActiveIndices(ref, cur))
		prof := "uniform"
		if nonUniform {
			prof = "nonuniform"
		}
		r.NonTrivial(fmt.Sprintf("%s|%d|%d|%s|%d", sp.C.Name, nActive, sp.CommitteeCountPerSlot(ref, cur), prof, ref.Fork))
		r.Class("nontrivial")
		r.Sample(fmt.Sprintf("%s/cps=%d", sp.C.Name, sp.CommitteeCountPerSlot(ref, cur)), func() any {
			return map[string]any{"where": where, "preset": sp.C.Name, "validators": len(ref.Validators), "active": nActive, "committees_per_slot": sp.CommitteeCountPerSlot(ref, cur), "epoch": cur, "fork": refspec.ForkNames[ref.Fork]}
		})
	}
	if rejected {
		r.Hit("proposer-sampling-can-reject")
	}
	if dupSync {
		r.Hit("sync-committee-with-duplicates")
	}
	if cur > 0 && fmt.Sprint(sp.ActiveIndices(ref, cur-1)) != fmt.Sprint(sp.ActiveIndices(ref, cur)) {
		r.Hit("previous!=current-active-set")
	}
	if multi {
		r.Hit(">=2-committees-per-slot")
	}
	return nil
}

func runSynthetic(r *report.Run, c *Case) *report.Failure {
	cfg := c.Config.Build()
	sp := refspec.NewSpec(cfg)
	spec := zb.ToSpec(cfg)
	ref := buildState(sp, c)
	if len(sp.ActiveIndices(ref, sp.CurrentEpoch(ref))) == 0 {
		r.Class("no-active-validators(skipped)")
		return nil
	}
	if c.Fork >= refspec.Altair {
		// any valid committee will do for the stored fields; the library re-derives the next one
		if len(sp.ActiveIndices(ref, sp.CurrentEpoch(ref)+1)) == 0 {
			r.Class("no-active-next-epoch(skipped)")
			return nil
		}
		ref.CurrentSyncCommittee = sp.GetNextSyncCommittee(ref)
		ref.NextSyncCommittee = ref.CurrentSyncCommittee
	}
	lib, err := zb.LoadState(spec, c.Fork, sp.StateBytes(ref))
	if err != nil {
		return report.Failf("harness", "library cannot load the synthetic state: %v", err)
	}
	var epc *common.EpochsContext
	e, panicked, blocked := sim.GuardTimeout(60*time.Second, func() error {
		var err error
		epc, err = common.NewEpochsContext(spec, lib)
		return err
	})
	if e == sim.ErrPoisoned {
		return nil
	}
	if blocked {
		return report.Failf("NewEpochsContext/blocked", "%d validators: %v", len(c.Vals), e)
	}
	if panicked {
		return report.Failf("NewEpochsContext/panic", "%v", e)
	}
	if e != nil {
		return report.Failf("NewEpochsContext/error", "%d validators: %v", len(c.Vals), e)
	}
	var f *report.Failure
	e, panicked, blocked = sim.GuardTimeout(120*time.Second, func() error {
		f = compareAssignments(r, sp, spec, ref, lib, epc, fmt.Sprintf("synthetic registry of %d", len(c.Vals)))
		return nil
	})
	if e == sim.ErrPoisoned {
		return nil
	}
	if blocked {
		return report.Failf("lookup/blocked", "a committee/proposer/sync-committee computation on a registry of %d did not return: %v", len(c.Vals), e)
	}
	if panicked {
		return report.Failf("lookup/panic", "%v", e)
	}
	if f != nil || !c.Repoint {
		return f
	}
	c2 := *c
	c2.MixSeed = c.MixSeed ^ 0x5bd1e995a5a5a5a5
	ref2 := buildState(sp, &c2)
	if c.Fork >= refspec.Altair {
		ref2.CurrentSyncCommittee = sp.GetNextSyncCommittee(ref2)
		ref2.NextSyncCommittee = ref2.CurrentSyncCommittee
	}
	lib2, err := zb.LoadState(spec, c.Fork, sp.StateBytes(ref2))
	if err != nil {
		return report.Failf("harness", "library cannot load the second synthetic state: %v", err)
	}
	e, panicked, blocked = sim.GuardTimeout(120*time.Second, func() error {
		if err := epc.LoadShuffling(lib2); err != nil {
			return err
		}
		if err := epc.LoadProposers(lib2); err != nil {
			return err
		}
		if sc, ok := lib2.(common.SyncCommitteeBeaconState); ok {
			if err := epc.LoadSyncCommittees(sc); err != nil {
				return err
			}
		}
		f = compareAssignments(r, sp, spec, ref2, lib2, epc, fmt.Sprintf("context re-loaded from a second state (registry of %d, other randao history)", len(c.Vals)))
		return nil
	})
	if e == sim.ErrPoisoned {
		return nil
	}
	if blocked || panicked || e != nil {
		return report.Failf("reload/error", "Load* on a used context: %v (panic=%v, blocked=%v)", e, panicked, blocked)
	}
	if f != nil {
		f.Sig = "reloaded-context/" + f.Sig
		return f
	}
	r.Hit("context-re-loaded-from-another-state-of-the-epoch")
	r.Class("context-re-loaded-from-another-state-of-the-epoch")
	return nil
}

func runChain(r *report.Run, cc *sim.ChainCase) *report.Failure {
	cfg := cc.Config.Build()
	chain, err := sim.NewChain(cfg, &cc.Genesis)
	if err != nil {
		return nil
	}
	l, err := sim.NewLock(chain)
	if err != nil {
		return report.Failf("genesis/load", "%v", err)
	}
	ctx := context.Background()
	lastEpoch := uint64(1 << 62)
	for i := range cc.Actions {
		a := &cc.Actions[i]
		slot := l.ResolveSlot(a)
		var res *sim.StepResult
		if a.Kind == "skip" {
			res = l.StepSkip(ctx, slot)
		} else if a.Kind == "block" {
			res = l.StepBlock(ctx, slot, a.Plan)
		} else {
			continue
		}
		if res.BuildErr != nil || res.RefErr != nil || res.LibErr != nil || res.SlotsErr != nil || res.Diff != "" || res.SlotsDiff != "" {
			// A state divergence is C01/C02's subject — except when what differs IS an assignment: the sync
			// committees live in the state (they are computed at rotations and carried through upgrades).
			for _, d := range []string{res.SlotsDiff, res.Diff} {
				if strings.Contains(d, "_sync_committee") {
					return report.Failf("sync/state-differs", "slot %d: the state's sync committees differ from the specification's (library != reference): %s", slot, truncS(d, 700))
				}
			}
			r.Class("discarded_other_property(C01/C02)")
			return nil
		}
		if len(l.Sp.ActiveIndices(l.St, l.Sp.CurrentEpoch(l.St))) == 0 {
			return nil
		}
		if e := l.Sp.CurrentEpoch(l.St); e != lastEpoch {
			lastEpoch = e
			var f *report.Failure
			er, panicked, blocked := sim.GuardTimeout(120*time.Second, func() error {
				f = compareAssignments(r, l.Sp, l.LibSpec, l.St, l.Lib.BeaconState, l.Epc, fmt.Sprintf("chain at slot %d (live context)", l.St.Slot))
				return nil
			})
			if er == sim.ErrPoisoned {
				return nil
			}
			if blocked {
				return report.Failf("lookup/blocked", "slot %d: %v", l.St.Slot, er)
			}
			if panicked {
				return report.Failf("lookup/panic", "%v", er)
			}
			if f != nil {
				return f
			}
			r.Class("chain-boundary-compared")
			// contexts are handed around as Clone()s: a clone that moves on (with a copy of the state) must not
			// change what the context that stays behind answers
			if e%3 == 2 && len(l.Sp.ActiveIndices(l.St, e+3)) > 0 {
				if sib, err := l.ForkLock(); err == nil {
					spe := l.Sp.P.SLOTS_PER_EPOCH
					res := sib.StepSkip(ctx, sib.St.Slot+(1+e%3)*spe+1)
					if res.RefErr == nil && res.LibErr == nil && !res.LibPanic {
						var f2 *report.Failure
						er, panicked, blocked := sim.GuardTimeout(120*time.Second, func() error {
							f2 = compareAssignments(r, l.Sp, l.LibSpec, l.St, l.Lib.BeaconState, l.Epc, fmt.Sprintf("chain at slot %d (live context, after a Clone() of it advanced %d epochs with a copy of the state)", l.St.Slot, 1+e%3))
							return nil
						})
						if er == sim.ErrPoisoned {
							return nil
						}
						if blocked || panicked {
							return report.Failf("lookup/blocked-or-panic", "slot %d after a clone advanced: %v", l.St.Slot, er)
						}
						if f2 != nil {
							f2.Sig = "after-clone-advanced/" + f2.Sig
							return f2
						}
						r.Class("chain-boundary-recompared-after-clone-advanced")
					}
				}
			}
		}
	}
	return nil
}

func truncS(s string, n int) string {
	if len(s) > n {
		return s[:n] + "…"
	}
	return s
}

func genSynthetic(t *rapid.T) *Case {
	c := &Case{}
	cc := sim.GenConfig(t, 60, true, 1)
	cc.ForkEpochs = [4]uint64{0, 0, 0, 0} // fork tag is set directly on the synthetic state
	c.Config = *cc
	cfg := cc.Build()
	spe := int(cfg.U["SLOTS_PER_EPOCH"])
	target := int(cfg.U["TARGET_COMMITTEE_SIZE"])
	maxInc := int(cfg.U["MAX_EFFECTIVE_BALANCE"] / cfg.U["EFFECTIVE_BALANCE_INCREMENT"])
	c.Fork = rapid.IntRange(0, 4).Draw(t, "fork")
	c.Epoch = uint64(rapid.IntRange(0, 40).Draw(t, "epoch"))
	c.SlotInEp = uint64(rapid.IntRange(0, spe-1).Draw(t, "slot_in_epoch"))
	c.MixSeed = rapid.Uint64().Draw(t, "mix_seed")
	var n int
	switch rapid.IntRange(0, 3).Draw(t, "n_kind") {
	case 0:
		n = rapid.IntRange(1, 12).Draw(t, "n")
	case 1:
		n = spe*target*rapid.IntRange(1, 5).Draw(t, "k") + rapid.IntRange(-2, 2).Draw(t, "d")
	default:
		n = rapid.IntRange(1, 300).Draw(t, "n")
	}
	if cc.Family == "mainnet" && n > 160 {
		n = 160
	}
	if n < 1 {
		n = 1
	}
	balProfile := rapid.SampledFrom([]string{"max", "mixed", "low", "zeroes"}).Draw(t, "bal_profile")
	actProfile := rapid.SampledFrom([]string{"all-active", "churn", "churn", "mostly-exited"}).Draw(t, "act_profile")
	for i := 0; i < n; i++ {
		v := Val{EffInc: maxInc, Activation: -1000, Exit: 1000}
		switch balProfile {
		case "mixed":
			v.EffInc = rapid.SampledFrom([]int{maxInc, maxInc, maxInc - 1, maxInc / 2, 1, 0, 17}).Draw(t, "eff")
		case "low":
			v.EffInc = rapid.IntRange(0, 3).Draw(t, "eff")
		case "zeroes":
			v.EffInc = rapid.SampledFrom([]int{0, 0, 0, maxInc}).Draw(t, "eff")
		}
		if v.EffInc > maxInc {
			v.EffInc = maxInc
		}
		switch actProfile {
		case "churn":
			v.Activation = rapid.SampledFrom([]int{-1000, -1000, -1, 0, 1, 2, 1000}).Draw(t, "act")
			v.Exit = rapid.SampledFrom([]int{1000, 1000, 1000, -1, 0, 1, 2}).Draw(t, "exit")
		case "mostly-exited":
			v.Exit = rapid.SampledFrom([]int{-2, -1, 0, 0, 1, 1000}).Draw(t, "exit")
		}
		if v.Activation != 1000 && v.Exit != 1000 && v.Exit < v.Activation {
			v.Exit = v.Activation
		}
		v.Slashed = rapid.IntRange(0, 9).Draw(t, "slashed") == 0
		c.Vals = append(c.Vals, v)
	}
	// at least one validator active now and next epoch
	c.Vals[0].Activation, c.Vals[0].Exit = -1000, 1000
	if c.Vals[0].EffInc == 0 && balProfile != "zeroes" {
		c.Vals[0].EffInc = maxInc
	}
	c.Repoint = rapid.IntRange(0, 3).Draw(t, "repoint") == 0
	return c
}

func TestCheck(t *testing.T) {
	r := report.Begin("C07")
	defer r.Finish()
	r.Rule("(a) synthetic registries of 1..300 validators drawn directly (sizes straddling SLOTS_PER_EPOCH*TARGET_COMMITTEE_SIZE*k, activation/exit epochs within ±2 of the current epoch, effective balances from 0 to MAX incl. thresholds, random randao mixes, any slot, any fork's state type, mainnet/minimal/custom presets) loaded into the library from reference-encoded bytes, a quarter of them followed by loading the same context object from a second state of the same epoch with another randao history; (b) every epoch boundary of generated chains with the live context; (c) active sets of 1…3 million on the mainnet preset through NewShufflingEpoch (committee bounds in math/big, members at sampled positions, partition). Every committee of previous/current/next epoch, every proposer of the current epoch, the next sync committee (members, indices, aggregate key) compared with refspec; plus the partition predicate. non-trivial = >=2 committees per slot or >=1 validator inactive in a queried epoch or a non-uniform effective-balance vector; distinct key = (preset family, active count, committees per slot, balance profile, fork)")
	r.Assume("refspec is the spec (per-index compute_shuffled_index, no caches)", "synthetic states respect the registry invariants the spec maintains (activation <= exit, withdrawable after exit) and have >=1 validator active in the current and next epoch (an empty active set is known finding F-C02-05)")
	replay := func(raw json.RawMessage) *report.Failure {
		var probe struct {
			Actions json.RawMessage `json:"actions"`
		}
		json.Unmarshal(raw, &probe)
		if probe.Actions != nil {
			var cc sim.ChainCase
			if err := json.Unmarshal(raw, &cc); err != nil {
				return report.Failf("harness", "bad case: %v", err)
			}
			return runChain(r, &cc)
		}
		var kp struct {
			Kind string `json:"kind"`
		}
		json.Unmarshal(raw, &kp)
		if kp.Kind == "huge" {
			var hc HugeCase
			if err := json.Unmarshal(raw, &hc); err != nil {
				return report.Failf("harness", "bad case: %v", err)
			}
			return runHuge(r, &hc)
		}
		var c Case
		if err := json.Unmarshal(raw, &c); err != nil {
			return report.Failf("harness", "bad case: %v", err)
		}
		return runSynthetic(r, &c)
	}
	r.Regress(replay)
	if r.Replay != "" {
		return
	}
	r.Mandatory("context-re-loaded-from-another-state-of-the-epoch", "proposer-sampling-can-reject", "sync-committee-with-duplicates", "previous!=current-active-set", ">=2-committees-per-slot")
	if !r.Search(t, "synthetic", 0, r.N(1500, 18000), func(rt *rapid.T) (any, *report.Failure) {
		c := genSynthetic(rt)
		return c, runSynthetic(r, c)
	}) {
		return
	}
	r.Mandatory("huge:active-x-committees>=2^32")
	if !r.Search(t, "huge-active-sets", 102, r.N(16, 64), func(rt *rapid.T) (any, *report.Failure) {
		c := genHuge(rt)
		return c, runHuge(r, c)
	}) {
		return
	}
	// tour: every upgrade after Altair taken while current and next sync committee differ
	ntour := 2
	if r.Thorough() {
		ntour = 24
	}
	if !r.Search(t, "tour-upgrades-after-sync-rotation", 101, ntour, func(rt *rapid.T) (any, *report.Failure) {
		cc := sim.TourUpgradesAfterSyncRotation(rt)
		return cc, runChain(r, cc)
	}) {
		return
	}
	opts := sim.GenOpts{CustomPct: 80, AllowMainnet: false, MaxSlots: 40, BlockPct: 60, MaxSkip: 2, OpsBias: 50}
	r.Search(t, "chains", 1, r.N(160, 2400), func(rt *rapid.T) (any, *report.Failure) {
		cc := sim.GenChainCase(rt, opts)
		return cc, runChain(r, cc)
	})
}
