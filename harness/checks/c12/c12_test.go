// C12 — gossip validation returns the p2p spec's verdict for every message.
//
// Domain: chain views = sim block TREES (trunk that finalizes on a 4-slot-epoch preset, 1–3 side
// branches forked before and after the finalized point, empty slots incl. epoch starts, phase0 …
// capella fork schedules, small multi-committee and large single-committee registries) served to the
// validators of eth2/gossipval by harness/gossipbackend (scripted clock in ms, logged seen-caches).
// Messages: honestly produced ones of all 8 topics for drawn slots/committees/subnets/branches, and
// every entry of the single-condition corruption catalogue (msgs.go: one or more entries per bullet
// of the topic's rule list), each followed by the honest message ("a refused message cannot
// suppress a later valid one") or preceded by it (duplicates).
// Oracle: harness/gossipmodel evaluates the p2p rule list on the REFERENCE view: all conditions hold
// -> ACCEPT; a violated [REJECT] condition -> not ACCEPT; only timing-class conditions violated ->
// IGNORE; Mark* called iff ACCEPT, with the rule's cache key.
//
// Sensitivity (tools/trymut.py, quick tier):
//   - attestation.go: subnet check dropped (`if subnet != assignedSubnet {` -> `if false {`)            CAUGHT attestation/subnet/accepted
//   - common.go CheckSlotSpan: max bound `slot > maxSlot` -> `slot >= maxSlot`                          CAUGHT */honest/refused (exactly-at-the-bound clocks)
//   - common.go CheckSlotSpan: min bound `slot+span < minSlot` -> `<=`                                  CAUGHT */honest/refused
//   - phase0/aggregate_and_proof.go IsAggregator: `modulo := (commSize + 1) / TARGET_AGGREGATORS...`    CAUGHT aggregate/honest/refused (committees of 31 / 47)
//   - voluntary_exit.go: MarkExit moved before the validation                                           CAUGHT exit/process-voluntary-exit/marked-without-accept
//   - beacon_block.go: finalized-slot check `block.Slot <= finSlot` -> `<`                              CAUGHT block/after-finalized-slot/accepted
//   - beacon_block.go: future-slot check `maxSlot < block.Slot` -> `<=`                                 CAUGHT block/honest/refused
//   - aggregate_and_proof.go: `if aggVal.SeenAggregate(aggRoot) {` -> `if false {`                      CAUGHT aggregate/aggregate-not-seen/accepted
//   - sync_contrib_and_proof.go: aggregator-in-subcommittee check disabled                               CAUGHT contribution/aggregator-in-subcommittee/accepted
//   - common.go SyncCommitteeAtSlot: always the current committee                                        CAUGHT sync_message|contribution/honest/refused
//   - aggregate_and_proof.go: `OnesCount() < 1` check dropped                                           EQUIVALENT: an empty aggregate is REJECTed a few
//     lines later by ConvertToIndexed/ValidateIndexedAttestation ("no empty attestation"), same verdict, same cache calls
//   - sync_contrib_and_proof.go: subcommittee bound `>=` -> `>`                                          EQUIVALENT: IndexedSyncCommittee.Subcommittee
//     re-checks the bound and the validator REJECTs on its error
//   - attestation.go: `participants != 1` -> `participants < 1`                                          EQUIVALENT: SingleParticipant() REJECTs two bits
package c12

import (
	"encoding/json"
	"fmt"
	"testing"

	"pgregory.net/rapid"

	"zrntverif/gossipbackend"
	"zrntverif/gossipmodel"
	"zrntverif/refspec"
	"zrntverif/report"
	"zrntverif/sim"
)

const far = refspec.FarFutureEpoch

type viewOpts struct {
	tour        int // -1: free draw; 0..3: directed view whose head is in fork `tour`
	shardPeriod int // -1 drawn
}

var forkSchedules = [][4]uint64{
	{far, far, far, far},
	{1, far, far, far},
	{1, 2, far, far},
	{1, 2, 3, far},
	{2, 3, 4, far},
	{1, 3, 5, far},
	{2, 2, 2, far},
	{1, 1, 3, far},
	{3, far, far, far},
}

func genView(rt *rapid.T, o viewOpts) *gossipbackend.ViewCase {
	vc := &gossipbackend.ViewCase{}
	fam := rapid.IntRange(0, 7).Draw(rt, "family")
	large := fam <= 1
	many := fam == 2 // more than ATTESTATION_SUBNET_COUNT committees per epoch: the subnet computation wraps
	forks := rapid.SampledFrom(forkSchedules).Draw(rt, "forks")
	shard := rapid.SampledFrom([]uint64{0, 1, 2, 2, 64}).Draw(rt, "shard_committee_period")
	if o.tour >= 0 {
		many = false
	}
	switch o.tour {
	case 0:
		large, forks, shard = false, forkSchedules[0], 1
	case 1:
		large, forks, shard = true, forkSchedules[1], 2
	case 2:
		large, forks, shard = false, forkSchedules[2], 64
	case 3:
		large, forks, shard = true, forkSchedules[3], 0
	}
	ov := map[string]uint64{"SLOTS_PER_EPOCH": 4, "SHUFFLE_ROUND_COUNT": 3, "SLOTS_PER_HISTORICAL_ROOT": 64,
		"EPOCHS_PER_HISTORICAL_VECTOR": 16, "EPOCHS_PER_SLASHINGS_VECTOR": 8, "EPOCHS_PER_ETH1_VOTING_PERIOD": 2,
		"MAX_SEED_LOOKAHEAD": rapid.SampledFrom([]uint64{1, 1, 2}).Draw(rt, "max_seed_lookahead"), "SHARD_COMMITTEE_PERIOD": shard,
		"MIN_VALIDATOR_WITHDRAWABILITY_DELAY": 2, "MIN_PER_EPOCH_CHURN_LIMIT": 4, "CHURN_LIMIT_QUOTIENT": 32,
		"MAX_ATTESTATIONS": 128, "MAX_VOLUNTARY_EXITS": 4, "MAX_PROPOSER_SLASHINGS": 2, "MAX_ATTESTER_SLASHINGS": 2, "MAX_DEPOSITS": 4,
		"EPOCHS_PER_SYNC_COMMITTEE_PERIOD": rapid.SampledFrom([]uint64{1, 2, 2, 4}).Draw(rt, "sync_period"),
		"MIN_ATTESTATION_INCLUSION_DELAY":  1, "EJECTION_BALANCE": 16_000_000_000}
	var active int
	if large {
		// committee sizes around the multiples of TARGET_AGGREGATORS_PER_COMMITTEE (31|32|33, 47|48): modulo 1|2|3
		active = rapid.SampledFrom([]int{124, 124, 127, 128, 132, 188, 192}).Draw(rt, "active")
		if o.tour == 3 {
			active = 128 // committees of 32: modulo 2, non-aggregators exist
		}
		if o.tour == 1 {
			active = 124 // committees of 31: one below the modulo step
		}
		ov["TARGET_COMMITTEE_SIZE"], ov["MAX_COMMITTEES_PER_SLOT"] = 4, 1
		ov["SYNC_COMMITTEE_SIZE"] = rapid.SampledFrom([]uint64{128, 128, 32}).Draw(rt, "sync_size")
		if o.tour >= 0 {
			ov["SYNC_COMMITTEE_SIZE"] = 128
		}
	} else if many {
		// 32 (or, below 128 active validators, 22…25) one-member committees per slot, more than 64 per epoch:
		// committees_since_epoch_start + index passes 64; with a count per slot that does not divide 64 the
		// committees of ONE slot straddle subnet 63 -> 0
		active = rapid.SampledFrom([]int{130, 136, 160, 100, 96, 90}).Draw(rt, "active")
		ov["TARGET_COMMITTEE_SIZE"], ov["MAX_COMMITTEES_PER_SLOT"] = 1, 32
		ov["SYNC_COMMITTEE_SIZE"] = 16
	} else {
		active = rapid.IntRange(16, 40).Draw(rt, "active")
		ov["TARGET_COMMITTEE_SIZE"] = 2
		ov["MAX_COMMITTEES_PER_SLOT"] = rapid.SampledFrom([]uint64{2, 4, 4}).Draw(rt, "max_committees")
		ov["SYNC_COMMITTEE_SIZE"] = rapid.SampledFrom([]uint64{8, 16, 32}).Draw(rt, "sync_size")
	}
	vc.Config = sim.ConfigCase{Family: "custom", ForkEpochs: forks, Override: ov}
	inactive := rapid.IntRange(1, 2).Draw(rt, "inactive")
	n := active + inactive
	vc.Genesis = sim.GenesisCase{N: n, GenesisTime: rapid.Uint64Range(0, 1<<33).Draw(rt, "genesis_time"), Eth1Seed: rapid.Uint64().Draw(rt, "eth1_seed")}
	for i := 0; i < n; i++ {
		ac := 0
		if i >= active {
			ac = 4 // 31 ETH: never activated
		}
		vc.Genesis.AmountClass = append(vc.Genesis.AmountClass, ac)
		vc.Genesis.Eth1Cred = append(vc.Genesis.Eth1Cred, true)
	}
	epochs := rapid.SampledFrom([]int{6, 6, 7, 7, 8, 3}).Draw(rt, "epochs")
	if o.tour >= 0 {
		epochs = 6 + o.tour%2
	}
	h := epochs*4 + rapid.IntRange(0, 3).Draw(rt, "extra_slots")
	opSlots := rapid.Permutation([]int{5, 6, 7, 9, 10, 11}).Draw(rt, "op_slots")
	for s := 1; s <= h; s++ {
		p := gossipbackend.SlotPlan{Seed: rapid.Uint64().Draw(rt, "seed")}
		if s > 4 {
			if s%4 == 0 {
				p.Empty = rapid.IntRange(0, 2).Draw(rt, "empty_epoch_start") == 0
				if o.tour == 0 || o.tour == 3 {
					p.Empty = s >= 8 // every later epoch start is empty: the finalized root is not at its epoch's start slot
				}
			} else {
				p.Empty = rapid.IntRange(0, 8).Draw(rt, "empty") == 0
			}
		}
		switch s {
		case opSlots[0]:
			p.Exits = 1
		case opSlots[1]:
			p.PropSlash = 1
		case opSlots[2]:
			p.AttSlash = 1
		}
		if s == h-2 || s == h-5 {
			p.Exits = 1 // a validator that has initiated its exit but is still active at the head
		}
		if p.Exits+p.PropSlash+p.AttSlash > 0 {
			p.Empty = false
		}
		vc.Trunk = append(vc.Trunk, p)
	}
	nb := rapid.IntRange(1, 4).Draw(rt, "branches")
	if o.tour >= 0 {
		nb = 3 + o.tour%2
	}
	for b := 0; b < nb; b++ {
		var fs int
		switch b {
		case 2:
			// a child of the block that will be finalized, placed at or before the start slot of the finalized epoch:
			// when that start slot is empty on the trunk this block conflicts with the finalized checkpoint
			// although it descends from the finalized block
			fs = 4*(epochs-2) - 1
			if fs < 1 || fs >= h {
				fs = rapid.IntRange(0, h-1).Draw(rt, "fork_slot")
			}
			vc.Branches = append(vc.Branches, gossipbackend.BranchCase{ForkSlot: uint64(fs), Slots: []gossipbackend.SlotPlan{{Seed: rapid.Uint64().Draw(rt, "seed")}}})
			continue
		case 0: // forked early: stale once the trunk finalizes
			fs = rapid.IntRange(1, minI(9, h-1)).Draw(rt, "fork_slot_stale")
		case 1: // forked near the head: stays in the finalized subtree
			fs = rapid.IntRange(maxI(1, h-6), h-1).Draw(rt, "fork_slot_live")
		default:
			fs = rapid.IntRange(0, h-1).Draw(rt, "fork_slot")
		}
		ln := rapid.IntRange(1, minI(4, h-fs)).Draw(rt, "branch_len")
		br := gossipbackend.BranchCase{ForkSlot: uint64(fs)}
		hasBlock := false
		for k := 0; k < ln; k++ {
			p := gossipbackend.SlotPlan{Seed: rapid.Uint64().Draw(rt, "seed"), Empty: rapid.IntRange(0, 3).Draw(rt, "branch_empty") == 0}
			if k == ln-1 && !hasBlock {
				p.Empty = false
			}
			hasBlock = hasBlock || !p.Empty
			br.Slots = append(br.Slots, p)
		}
		vc.Branches = append(vc.Branches, br)
	}
	if o.tour < 0 && rapid.IntRange(0, 3).Draw(rt, "anchored") == 0 {
		vc.Anchored = true // the receiving node was checkpoint-synced at the finalized block
	}
	return vc
}

func minI(a, b int) int {
	if a < b {
		return a
	}
	return b
}
func maxI(a, b int) int {
	if a > b {
		return a
	}
	return b
}

var spans = map[string]int64{"attestation": 32, "aggregate": 32, "sync_message": 0, "contribution": 0}

// genClock: the scripted clock (ms since genesis) for a message of `slot`.
func genClock(rt *rapid.T, bv *bview, topic string, slot uint64, mode string) int64 {
	s := bv.slotMs()
	t0 := int64(slot) * s
	span, windowed := spans[topic]
	hiEdge := (int64(slot) + span + 1) * s // first ms at which current_slot > slot + span
	switch mode {
	case "lo-at":
		return t0 - 500
	case "lo-in":
		return t0 - 499
	case "lo-out":
		return t0 - 501
	case "hi-at":
		return hiEdge + 499
	case "hi-in":
		return hiEdge + 498
	case "hi-out":
		return hiEdge + 500
	case "next-mid":
		return t0 + s + int64(rapid.IntRange(500, int(s)-501).Draw(rt, "next_mid"))
	}
	switch topic {
	case "exit", "proposer_slashing", "attester_slashing":
		return int64(bv.H)*s + int64(rapid.IntRange(0, int(s)-1).Draw(rt, "op_clock"))
	}
	if !windowed {
		return t0 + int64(rapid.IntRange(0, int(3*s)).Draw(rt, "mid"))
	}
	if rapid.Bool().Draw(rt, "disparity_matters") {
		// within 500 ms of a bound, inside
		if rapid.Bool().Draw(rt, "near_lo") {
			return t0 - 500 + int64(rapid.IntRange(0, 999).Draw(rt, "d"))
		}
		return hiEdge + 499 - int64(rapid.IntRange(0, 999).Draw(rt, "d"))
	}
	return t0 + 500 + int64(rapid.Int64Range(0, (span+1)*s-1001).Draw(rt, "mid"))
}

func altairStartSlot(bv *bview) uint64 {
	e := bv.sp.P.ForkEpochs[refspec.Altair]
	if e == far {
		return ^uint64(0)
	}
	return e * bv.sp.P.SLOTS_PER_EPOCH
}

// genMsg draws a message recipe that makes sense on the built view (absolute slot, branch, clock).
// forkWant >= 0 asks for a slot inside that fork where the topic is slot-bound.
func genMsg(rt *rapid.T, bv *bview, topic, corrupt string, forkWant int) (MsgCase, int64) {
	mc := MsgCase{Topic: topic, Corrupt: corrupt, A: rapid.Uint64().Draw(rt, "a"), B: rapid.Uint64().Draw(rt, "b"), C: rapid.Uint64().Draw(rt, "c"), Seed: rapid.Uint64().Draw(rt, "mseed")}
	sp := bv.sp
	finSlot := sp.StartSlotAtEpoch(bv.ref.Fin.Epoch)
	u := func(lo, hi uint64, label string) uint64 {
		if hi < lo {
			hi = lo
		}
		return rapid.Uint64Range(lo, hi).Draw(rt, label)
	}
	var staleB, liveB []int
	for b := 1; b <= len(bv.vc.Branches); b++ {
		if !bv.branchHasOwnBlock(b) {
			continue
		}
		if bv.stale(b) {
			staleB = append(staleB, b)
		} else {
			liveB = append(liveB, b)
		}
	}
	wantStale := corrupt == "B-STALE-BRANCH" || corrupt == "A-STALE-BRANCH" || corrupt == "G-STALE-BRANCH"
	switch {
	case wantStale && len(staleB) > 0:
		mc.Branch = rapid.SampledFrom(staleB).Draw(rt, "stale_branch")
	case wantStale:
		mc.Branch = 0
	case len(liveB) > 0 && rapid.IntRange(0, 2).Draw(rt, "side") == 0:
		mc.Branch = rapid.SampledFrom(liveB).Draw(rt, "live_branch")
	}
	tip := bv.tipSlot(mc.Branch)
	lo := uint64(0)
	if mc.Branch > 0 {
		lo = bv.forkSlotOf(mc.Branch) + 1
	}
	forkRange := func() (uint64, uint64, bool) {
		if forkWant < 0 {
			return 0, 0, false
		}
		a := uint64(0)
		if forkWant > 0 {
			if sp.P.ForkEpochs[forkWant] == far {
				return 0, 0, false
			}
			a = sp.P.ForkEpochs[forkWant] * 4
		}
		b := bv.H
		for f := forkWant + 1; f <= refspec.Deneb; f++ {
			if sp.P.ForkEpochs[f] != far {
				if x := sp.P.ForkEpochs[f]*4 - 1; x < b {
					b = x
				}
				break
			}
		}
		return a, b, a <= b
	}
	switch topic {
	case "attestation", "aggregate":
		finBlockSlot := bv.ref.Blocks[bv.ref.Fin.Root].Slot
		switch {
		case corrupt == "A-PRE-FINALIZED" || corrupt == "G-PRE-FINALIZED":
			mc.Branch = 0
			if finBlockSlot > 0 {
				mc.Slot = u(0, finBlockSlot-1, "slot")
			}
		case mc.Branch > 0:
			mc.Slot = u(lo, tip, "slot")
		default:
			a, b, ok := forkRange()
			if !ok {
				a, b = 0, tip
			}
			// votes for the finalized block or its descendants (older ones are no longer in the finalized subtree)
			if rapid.IntRange(0, 9).Draw(rt, "any_slot") > 0 && finBlockSlot <= b {
				a = maxU(a, finBlockSlot)
			}
			mc.Slot = u(a, b, "slot")
		}
	case "sync_message", "contribution":
		as := altairStartSlot(bv)
		if as > lo {
			lo = as
		}
		if a, b, ok := forkRange(); ok && mc.Branch == 0 && a >= lo {
			mc.Slot = u(a, b, "slot")
		} else {
			mc.Slot = u(lo, maxU(lo, tip), "slot")
		}
	case "block":
		switch {
		case corrupt == "B-STALE-BRANCH":
			mc.Slot = u(maxU(finSlot, tip)+1, bv.H+2, "slot")
		case rapid.Bool().Draw(rt, "new_head"):
			mc.Slot = tip + rapid.SampledFrom([]uint64{1, 1, 1, 2, 3, 5, 6}).Draw(rt, "ahead")
		default:
			mc.Slot = u(maxU(maxU(finSlot, lo)+1, tip-minU(tip, 6)), tip, "slot")
		}
	default:
		mc.Slot = u(0, bv.H, "slot")
	}
	mode := ""
	if ce := catByID[corrupt]; ce != nil {
		mode = ce.Clock
	} else if _, windowed := spans[topic]; windowed || topic == "block" {
		modes := []string{"", "", "", "lo-at", "lo-in", "hi-at", "hi-in"}
		if topic == "block" {
			modes = []string{"", "", "lo-at", "lo-in"}
		}
		mode = rapid.SampledFrom(modes).Draw(rt, "clock_mode")
	}
	clockSlot := mc.Slot
	if corrupt == "B-FINALIZED-SLOT" {
		clockSlot = finSlot
	}
	clock := genClock(rt, bv, topic, clockSlot, mode)
	if clock < 0 {
		clock = genClock(rt, bv, topic, clockSlot, "")
	}
	return mc, clock
}

func maxU(a, b uint64) uint64 {
	if a > b {
		return a
	}
	return b
}

// minimize is a deterministic structural shrinker applied to a failing case on top of rapid's: it
// keeps a simplification whenever the case still fails with the same signature.
func minimize(c *Case, sig string) *Case {
	cur := *c
	try := func(mut func(n *Case) bool) {
		var n Case
		b, _ := json.Marshal(&cur)
		json.Unmarshal(b, &n)
		if !mut(&n) {
			return
		}
		if f, _ := run(&n); f != nil && f.Sig == sig {
			cur = n
		}
	}
	// only the branch the message refers to
	try(func(n *Case) bool {
		if len(n.View.Branches) == 0 {
			return false
		}
		if n.Msg.Branch >= 1 && n.Msg.Branch <= len(n.View.Branches) {
			n.View.Branches = []gossipbackend.BranchCase{n.View.Branches[n.Msg.Branch-1]}
			n.Msg.Branch = 1
		} else {
			n.View.Branches = nil
			n.Msg.Branch = 0
		}
		return true
	})
	try(func(n *Case) bool {
		ch := false
		for i := range n.View.Trunk {
			p := &n.View.Trunk[i]
			if p.Exits+p.PropSlash+p.AttSlash > 0 {
				p.Exits, p.PropSlash, p.AttSlash, ch = 0, 0, 0, true
			}
		}
		return ch
	})
	try(func(n *Case) bool {
		ch := false
		for i := range n.View.Trunk {
			if n.View.Trunk[i].Empty {
				n.View.Trunk[i].Empty, ch = false, true
			}
		}
		return ch
	})
	// a shorter trunk (keeping the message's position relative to the head)
	for _, h := range []int{4, 8, 13, 18} {
		h := h
		old := len(cur.View.Trunk)
		if h >= old {
			break
		}
		before := len(cur.View.Trunk)
		try(func(n *Case) bool {
			d := uint64(old - h)
			for _, b := range n.View.Branches {
				if b.ForkSlot+uint64(len(b.Slots)) > uint64(h) {
					return false
				}
			}
			n.View.Trunk = n.View.Trunk[:h]
			if n.Msg.Slot > d && n.Msg.Branch == 0 {
				n.Msg.Slot -= d
				n.ClockMs -= int64(d) * 6000
			}
			return true
		})
		if len(cur.View.Trunk) < before {
			break
		}
	}
	for _, f := range []func(n *Case) bool{
		func(n *Case) bool { ch := n.Msg.A != 0; n.Msg.A = 0; return ch },
		func(n *Case) bool { ch := n.Msg.B != 0; n.Msg.B = 0; return ch },
		func(n *Case) bool { ch := n.Msg.C != 0; n.Msg.C = 0; return ch },
		func(n *Case) bool { ch := n.Msg.Seed != 0; n.Msg.Seed = 0; return ch },
		func(n *Case) bool {
			ch := false
			for i := range n.View.Trunk {
				if n.View.Trunk[i].Seed != uint64(i) {
					n.View.Trunk[i].Seed, ch = uint64(i), true
				}
			}
			return ch
		},
	} {
		try(f)
	}
	return &cur
}

// record books one executed case into the evidence counters.
func record(r *report.Run, c *Case, out *outcome) {
	r.Eval(1)
	if out.skip != "" {
		r.Class(out.skip)
		return
	}
	kind := "honest"
	if c.Msg.Corrupt != "" {
		kind = "corrupt"
	}
	fork := refspec.ForkNames[out.fork]
	if out.tag != "" {
		r.Class("scenario:" + out.tag)
	}
	if c.View.Config.Override["MAX_COMMITTEES_PER_SLOT"]*c.View.Config.Override["SLOTS_PER_EPOCH"] > 64 && c.Msg.Topic == "attestation" {
		r.Class("scenario:attestation-on-a-view-with->64-committees-per-epoch")
	}
	if out.straddle && kind == "honest" {
		r.Hit("attestation:committees-of-one-slot-straddle-subnet-63/0")
	}
	if c.View.Anchored {
		r.Class("receiver-view:checkpoint-synced")
		if out.class == gossipmodel.MustIgnore && kind == "honest" {
			// an honest message that the checkpoint-synced receiver cannot judge (vote, target or parent before its anchor)
			r.Hit("checkpoint-synced-receiver:honest-message-must-be-ignored")
			r.NonTrivial("anchored|" + c.Msg.Topic + "|" + out.first)
		}
	}
	if out.nontrivial {
		r.NonTrivial(out.key)
		r.Class(out.key)
		if kind == "honest" {
			r.Hit("honest:" + c.Msg.Topic + ":" + fork)
		} else {
			r.Hit("row:" + out.target)
			r.Class("catalogue:" + c.Msg.Corrupt)
		}
		r.Sample(c.Msg.Topic+"|"+kind, func() any {
			return map[string]any{"view": fmt.Sprintf("forks=%v validators=%d trunk_slots=%d branches=%d (full recipe: see replays/regress for the shape)", c.View.Config.ForkEpochs, c.View.Genesis.N, len(c.View.Trunk), len(c.View.Branches)),
				"clock_ms": c.ClockMs, "msg": c.Msg, "fork": fork, "targeted_condition": out.target, "first_violated": out.first, "model_class": out.class.String(), "validator_says": out.got}
		})
	} else if kind == "corrupt" {
		r.Class("corruption-missed-its-target:" + c.Msg.Corrupt + ":first=" + out.first)
	} else if out.first != "" {
		r.Class("honest-sender-but:" + out.first)
	} else {
		r.Class("honest-on-a-trivial-view")
	}
}

// sweep runs the whole catalogue plus honest messages of every topic on one view.
func sweep(r *report.Run, rt *rapid.T, vc *gossipbackend.ViewCase, tourFork int) (any, *report.Failure) {
	bv := getView(vc)
	if bv.err != nil {
		c := &Case{View: *vc}
		_, out := run(c)
		record(r, c, out)
		return c, nil
	}
	do := func(topic, corrupt string, forkWant int) (*Case, *report.Failure) {
		mc, clock := genMsg(rt, bv, topic, corrupt, forkWant)
		c := &Case{View: *vc, ClockMs: clock, Msg: mc}
		f, out := run(c)
		if f != nil {
			c = minimize(c, f.Sig)
			f2, _ := run(c)
			if f2 != nil && f2.Sig == f.Sig {
				f = f2
			}
			return c, f
		}
		record(r, c, out)
		return c, nil
	}
	for _, topic := range Topics {
		if tourFork >= 0 {
			if c, f := do(topic, "", tourFork); f != nil {
				return c, f
			}
		}
		for k := 0; k < 3; k++ {
			if c, f := do(topic, "", -1); f != nil {
				return c, f
			}
		}
	}
	reps := 1
	if tourFork >= 0 {
		reps = 2 // the tour populates the mandatory rows: two draws per entry
	}
	for k := 0; k < reps; k++ {
		for i := range Catalogue {
			if c, f := do(Catalogue[i].Topic, Catalogue[i].ID, tourFork); f != nil {
				return c, f
			}
		}
	}
	return &Case{View: *vc}, nil
}

func TestCheck(t *testing.T) {
	r := report.Begin("C12")
	defer r.Finish()
	r.Rule(fmt.Sprintf("chain views (trunk of 6-8 four-slot epochs that finalizes, 1-3 side branches before/after the finalized point, empty slots incl. epoch starts, fork schedules phase0..capella, registries of 17-42 validators with 2-4 committees per slot or 125-194 validators with one committee of 31-48 per slot) x clock positions (mid-window, within 500 ms of each bound, exactly at / 1 ms inside / 1 ms outside each bound) x messages: honest ones of all 8 topics and the %d entries of the single-condition corruption catalogue, each corrupted message followed by its honest counterpart (or preceded by it for duplicates). non-trivial: honest messages when the view has >=2 forks or a finalized epoch > 0; corrupted ones when the FIRST violated condition of the rule list is the targeted one. key = (topic, fork, condition id, honest|corrupt)", len(Catalogue)))
	r.Assume("the rule set is the phase0 + altair p2p-interface one the package quotes (Appendix B): no bellatrix execution-payload conditions, no capella bls_to_execution_change topic, no deneb attestation window, no superset rule for aggregates/contributions (the backend interface has no call for them)",
		"the block seen-cache holds (slot, proposer) of ACCEPTed blocks (the property: caches are marked only on ACCEPT)",
		"sync-committee topics: an unknown (block root, slot) is an availability precondition of the package, IGNORE and ACCEPT both allowed",
		"chain views on which the library state differs from the reference are dropped (C01/C02's subject)",
		"operations are judged against the view's head state as stored (not advanced to the clock's slot)")
	replay := func(raw json.RawMessage) *report.Failure {
		var c Case
		if err := json.Unmarshal(raw, &c); err != nil {
			return report.Failf("harness", "bad case: %v", err)
		}
		f, _ := run(&c)
		return f
	}
	r.Regress(replay)
	if r.Replay != "" {
		return
	}
	for _, topic := range Topics {
		for f := refspec.Phase0; f <= refspec.Capella; f++ {
			if (topic == "sync_message" || topic == "contribution") && f == refspec.Phase0 {
				continue
			}
			r.Mandatory("honest:" + topic + ":" + refspec.ForkNames[f])
		}
	}
	for i := range Catalogue {
		r.Mandatory("row:" + Catalogue[i].Target)
	}
	r.Mandatory("checkpoint-synced-receiver:honest-message-must-be-ignored", "attestation:committees-of-one-slot-straddle-subnet-63/0")
	// class tour: one directed view per fork (head in phase0 / altair / bellatrix / capella), spread over the shards
	lim := 4
	if r.S.NShards > lim {
		lim = r.S.NShards
	}
	if r.Thorough() {
		lim *= 2
	}
	for j := r.S.Shard; j < lim; j += r.S.NShards {
		k := j % 4
		if !r.Search(t, fmt.Sprintf("tour-%s-%d", refspec.ForkNames[k], j), 100+j, 1, func(rt *rapid.T) (any, *report.Failure) {
			return sweep(r, rt, genView(rt, viewOpts{tour: k}), k)
		}) {
			return
		}
	}
	r.Search(t, "views", 0, r.N(96, 1100), func(rt *rapid.T) (any, *report.Failure) {
		return sweep(r, rt, genView(rt, viewOpts{tour: -1}), -1)
	})
}
