package c12

import (
	"bytes"
	"fmt"

	"github.com/protolambda/zrnt/eth2/beacon/altair"
	"github.com/protolambda/zrnt/eth2/beacon/common"
	"github.com/protolambda/zrnt/eth2/beacon/phase0"
	"github.com/protolambda/ztyp/codec"

	"zrntverif/refspec"
	"zrntverif/refssz"
)

// Reference messages cross into the library as SSZ bytes (encoded by refssz, decoded by the library's
// own Deserialize), like states and blocks do everywhere else in the harness.

type specDeser interface {
	Deserialize(spec *common.Spec, dr *codec.DecodingReader) error
}
type plainDeser interface {
	Deserialize(dr *codec.DecodingReader) error
}

func (bv *bview) decode(typeName string, v any, dst any) error {
	b := refssz.Serialize(bv.sp.T(typeName), v)
	dr := codec.NewDecodingReader(bytes.NewReader(b), uint64(len(b)))
	switch d := dst.(type) {
	case specDeser:
		return d.Deserialize(bv.lib.Spec, dr)
	case plainDeser:
		return d.Deserialize(dr)
	}
	return fmt.Errorf("no decoder for %T", dst)
}

func (bv *bview) libAttestation(a *refspec.Attestation) (*phase0.Attestation, error) {
	out := new(phase0.Attestation)
	return out, bv.decode("Attestation", a.V(), out)
}

func (bv *bview) libAggregate(s *refspec.SignedAggregateAndProof) (*phase0.SignedAggregateAndProof, error) {
	out := new(phase0.SignedAggregateAndProof)
	return out, bv.decode("SignedAggregateAndProof", []any{s.Message.V(), append([]byte{}, s.Signature[:]...)}, out)
}

func (bv *bview) libExit(x *refspec.SignedVoluntaryExit) (*phase0.SignedVoluntaryExit, error) {
	out := new(phase0.SignedVoluntaryExit)
	return out, bv.decode("SignedVoluntaryExit", x.V(), out)
}

func (bv *bview) libProposerSlashing(x *refspec.ProposerSlashing) (*phase0.ProposerSlashing, error) {
	out := new(phase0.ProposerSlashing)
	return out, bv.decode("ProposerSlashing", x.V(), out)
}

func (bv *bview) libAttesterSlashing(x *refspec.AttesterSlashing) (*phase0.AttesterSlashing, error) {
	out := new(phase0.AttesterSlashing)
	return out, bv.decode("AttesterSlashing", x.V(), out)
}

func (bv *bview) libSyncMessage(m *refspec.SyncCommitteeMessage) (*altair.SyncCommitteeMessage, error) {
	out := new(altair.SyncCommitteeMessage)
	return out, bv.decode("SyncCommitteeMessage", []any{m.Slot, append([]byte{}, m.BeaconBlockRoot[:]...), m.ValidatorIndex, append([]byte{}, m.Signature[:]...)}, out)
}

func (bv *bview) libContribution(s *refspec.SignedContributionAndProof) (*altair.SignedContributionAndProof, error) {
	out := new(altair.SignedContributionAndProof)
	return out, bv.decode("SignedContributionAndProof", []any{s.Message.V(), append([]byte{}, s.Signature[:]...)}, out)
}
