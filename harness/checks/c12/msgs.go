package c12

import (
	"encoding/binary"
	"sort"

	"zrntverif/refspec"
	"zrntverif/sim"
)

// MsgCase is the JSON-serialisable recipe of one message (honest parameters + corruption id).
type MsgCase struct {
	Topic   string `json:"topic"`
	Corrupt string `json:"corrupt,omitempty"` // catalogue id; "" = honest
	Branch  int    `json:"branch"`            // the sender's chain: 0 trunk, k>0 side branch k
	Slot    uint64 `json:"slot"`              // message slot (block: the new block's slot)
	A       uint64 `json:"a"`                 // selectors: committee / subcommittee index, validator, ...
	B       uint64 `json:"b"`                 // position in the committee, ...
	C       uint64 `json:"c"`                 // subset seed / variant
	Seed    uint64 `json:"seed"`
}

// step: one message handed to a validator.
type step struct {
	role    string // honest | corrupt | duplicate | honest-after-refused | honest-other-subnet
	subnet  uint64
	msg     any // *refspec.SignedBlock, *refspec.Attestation, ...
	clockMs int64
	bad     []Root // block roots known to be invalid
}

type plan struct {
	steps  []step
	target string // the model condition the corruption aims at ("" for honest)
	fork   int
	tag    string // optional scenario class, counted in the evidence
	// straddle: an attestation of a slot whose committees span subnet 63 -> 0
	straddle bool
}

type prng struct{ s uint64 }

func (p *prng) next() uint64 {
	p.s += 0x9e3779b97f4a7c15
	z := p.s
	z = (z ^ (z >> 30)) * 0xbf58476d1ce4e5b9
	z = (z ^ (z >> 27)) * 0x94d049bb133111eb
	return z ^ (z >> 31)
}
func (p *prng) n(n int) int {
	if n <= 0 {
		return 0
	}
	return int(p.next() % uint64(n))
}
func (p *prng) root() (r Root) {
	for i := 0; i < 32; i += 8 {
		binary.LittleEndian.PutUint64(r[i:], p.next())
	}
	return
}
func (p *prng) sig() (s [96]byte) {
	for i := 0; i < 96; i += 8 {
		binary.LittleEndian.PutUint64(s[i:], p.next())
	}
	return
}

// Entry of the corruption catalogue: one per bullet of the topic's rule list (several variants for some).
type catEntry struct {
	ID     string
	Topic  string
	Target string // model condition id
	Clock  string // clock mode the generator must use ("" = mid)
	Dup    bool   // realised as [honest, variant] (the SECOND message is the judged one)
}

var Catalogue = []catEntry{
	{"B-FUTURE", "block", "block/not-future", "lo-out", false},
	{"B-DUP", "block", "block/first-for-proposer", "", true},
	{"B-EQUIVOCATION", "block", "block/first-for-proposer", "", true},
	{"B-UNKNOWN-PARENT", "block", "block/parent-seen", "", false},
	{"B-FINALIZED-SLOT", "block", "block/after-finalized-slot", "", false},
	{"B-BEFORE-FINALIZED", "block", "block/after-finalized-slot", "", false},
	{"B-NOT-AFTER-PARENT", "block", "block/later-than-parent", "", false},
	{"B-STALE-BRANCH", "block", "block/finalized-ancestor", "", false},
	{"B-SIG-WRONG-KEY", "block", "block/signature", "", false},
	{"B-SIG-WRONG-DOMAIN", "block", "block/signature", "", false},
	{"B-SIG-GARBAGE", "block", "block/signature", "", false},
	{"B-PROPOSER-OOR", "block", "block/signature", "", false},
	{"B-WRONG-PROPOSER", "block", "block/proposer-index", "", false},

	{"A-INDEX-OOR", "attestation", "attestation/committee-index", "", false},
	{"A-WRONG-SUBNET", "attestation", "attestation/subnet", "", false},
	{"A-EARLY", "attestation", "attestation/slot-window", "lo-out", false},
	{"A-LATE", "attestation", "attestation/slot-window", "hi-out", false},
	{"A-TARGET-EPOCH", "attestation", "attestation/target-epoch", "", false},
	{"A-NO-BITS", "attestation", "attestation/one-bit", "", false},
	{"A-TWO-BITS", "attestation", "attestation/one-bit", "", false},
	{"A-BITS-LONGER", "attestation", "attestation/bits-length", "", false},
	{"A-BITS-SHORTER", "attestation", "attestation/bits-length", "", false},
	{"A-DUP", "attestation", "attestation/first-for-validator", "", true},
	{"A-DUP-OTHER-DATA", "attestation", "attestation/first-for-validator", "", true},
	{"A-SIG-WRONG-KEY", "attestation", "attestation/signature", "", false},
	{"A-SIG-WRONG-DOMAIN", "attestation", "attestation/signature", "", false},
	{"A-SIG-GARBAGE", "attestation", "attestation/signature", "", false},
	{"A-UNKNOWN-BLOCK", "attestation", "attestation/block-seen", "", false},
	{"A-BAD-BLOCK", "attestation", "attestation/block-valid", "", false},
	{"A-TARGET-NOT-ANCESTOR", "attestation", "attestation/target-ancestor", "", false},
	{"A-TARGET-UNKNOWN", "attestation", "attestation/target-ancestor", "", false},
	{"A-STALE-BRANCH", "attestation", "attestation/finalized-ancestor", "", false},
	{"A-PRE-FINALIZED", "attestation", "attestation/finalized-ancestor", "", false},

	{"G-INDEX-OOR", "aggregate", "aggregate/committee-index", "", false},
	{"G-EARLY", "aggregate", "aggregate/slot-window", "lo-out", false},
	{"G-LATE", "aggregate", "aggregate/slot-window", "hi-out", false},
	{"G-TARGET-EPOCH", "aggregate", "aggregate/target-epoch", "", false},
	{"G-BITS-LONGER", "aggregate", "aggregate/bits-length", "", false},
	{"G-BITS-SHORTER", "aggregate", "aggregate/bits-length", "", false},
	{"G-NO-BITS", "aggregate", "aggregate/has-participants", "", false},
	{"G-DUP-AGGREGATE", "aggregate", "aggregate/aggregate-not-seen", "", true},
	{"G-DUP-AGGREGATOR", "aggregate", "aggregate/first-for-aggregator", "", true},
	{"G-NOT-AGGREGATOR", "aggregate", "aggregate/is-aggregator", "", false},
	{"G-NOT-IN-COMMITTEE", "aggregate", "aggregate/aggregator-in-committee", "", false},
	{"G-AGGREGATOR-OOR", "aggregate", "aggregate/aggregator-in-committee", "", false},
	{"G-SELPROOF-WRONG-KEY", "aggregate", "aggregate/selection-proof", "", false},
	{"G-SELPROOF-WRONG-SLOT", "aggregate", "aggregate/selection-proof", "", false},
	{"G-OUTER-SIG", "aggregate", "aggregate/outer-signature", "", false},
	{"G-OUTER-SIG-OTHER-MESSAGE", "aggregate", "aggregate/outer-signature", "", false},
	{"G-AGG-SIG", "aggregate", "aggregate/aggregate-signature", "", false},
	{"G-UNKNOWN-BLOCK", "aggregate", "aggregate/block-seen", "", false},
	{"G-BAD-BLOCK", "aggregate", "aggregate/block-valid", "", false},
	{"G-TARGET-NOT-ANCESTOR", "aggregate", "aggregate/target-ancestor", "", false},
	{"G-STALE-BRANCH", "aggregate", "aggregate/finalized-ancestor", "", false},
	{"G-PRE-FINALIZED", "aggregate", "aggregate/finalized-ancestor", "", false},

	{"X-DUP", "exit", "exit/first-for-validator", "", true},
	{"X-SIG", "exit", "exit/process-voluntary-exit", "", false},
	{"X-NOT-ACTIVE", "exit", "exit/process-voluntary-exit", "", false},
	{"X-ALREADY-EXITED", "exit", "exit/process-voluntary-exit", "", false},
	{"X-FUTURE-EPOCH", "exit", "exit/process-voluntary-exit", "", false},
	{"X-TOO-YOUNG", "exit", "exit/process-voluntary-exit", "", false},
	{"X-INDEX-OOR", "exit", "exit/process-voluntary-exit", "", false},

	{"P-DUP", "proposer_slashing", "proposer_slashing/first-for-proposer", "", true},
	{"P-SLOT-MISMATCH", "proposer_slashing", "proposer_slashing/process-proposer-slashing", "", false},
	{"P-INDEX-MISMATCH", "proposer_slashing", "proposer_slashing/process-proposer-slashing", "", false},
	{"P-SAME-HEADER", "proposer_slashing", "proposer_slashing/process-proposer-slashing", "", false},
	{"P-NOT-SLASHABLE", "proposer_slashing", "proposer_slashing/process-proposer-slashing", "", false},
	{"P-SIG-1", "proposer_slashing", "proposer_slashing/process-proposer-slashing", "", false},
	{"P-SIG-2", "proposer_slashing", "proposer_slashing/process-proposer-slashing", "", false},
	{"P-INDEX-OOR", "proposer_slashing", "proposer_slashing/process-proposer-slashing", "", false},

	{"S-DUP", "attester_slashing", "attester_slashing/some-index-unseen", "", true},
	{"S-DUP-WITH-SLASHED-MEMBER", "attester_slashing", "attester_slashing/some-index-unseen", "", true},
	{"S-NOT-SLASHABLE-DATA", "attester_slashing", "attester_slashing/process-attester-slashing", "", false},
	{"S-UNSORTED", "attester_slashing", "attester_slashing/process-attester-slashing", "", false},
	{"S-DUP-INDEX", "attester_slashing", "attester_slashing/process-attester-slashing", "", false},
	{"S-EMPTY", "attester_slashing", "attester_slashing/some-index-unseen", "", false},
	{"S-SIG-1", "attester_slashing", "attester_slashing/process-attester-slashing", "", false},
	{"S-SIG-2", "attester_slashing", "attester_slashing/process-attester-slashing", "", false},
	{"S-NOBODY-SLASHABLE", "attester_slashing", "attester_slashing/process-attester-slashing", "", false},
	{"S-INDEX-OOR", "attester_slashing", "attester_slashing/process-attester-slashing", "", false},

	{"Y-EARLY", "sync_message", "sync_message/current-slot", "lo-out", false},
	{"Y-LATE", "sync_message", "sync_message/current-slot", "hi-out", false},
	{"Y-PREVIOUS-SLOT", "sync_message", "sync_message/current-slot", "next-mid", false},
	{"Y-UNKNOWN-BLOCK", "sync_message", "sync_message/state-known", "", false},
	{"Y-WRONG-SUBNET", "sync_message", "sync_message/subnet-valid", "", false},
	{"Y-NOT-MEMBER", "sync_message", "sync_message/subnet-valid", "", false},
	{"Y-VALIDATOR-OOR", "sync_message", "sync_message/subnet-valid", "", false},
	{"Y-DUP", "sync_message", "sync_message/first-for-validator", "", true},
	{"Y-SIG-WRONG-KEY", "sync_message", "sync_message/signature", "", false},
	{"Y-SIG-WRONG-DOMAIN", "sync_message", "sync_message/signature", "", false},

	{"C-EARLY", "contribution", "contribution/current-slot", "lo-out", false},
	{"C-LATE", "contribution", "contribution/current-slot", "hi-out", false},
	{"C-PREVIOUS-SLOT", "contribution", "contribution/current-slot", "next-mid", false},
	{"C-SUBCOMMITTEE-OOR", "contribution", "contribution/subcommittee-index", "", false},
	{"C-NO-BITS", "contribution", "contribution/has-participants", "", false},
	{"C-NOT-AGGREGATOR", "contribution", "contribution/is-aggregator", "", false},
	{"C-UNKNOWN-BLOCK", "contribution", "contribution/state-known", "", false},
	{"C-NOT-IN-SUBCOMMITTEE", "contribution", "contribution/aggregator-in-subcommittee", "", false},
	{"C-AGGREGATOR-OOR", "contribution", "contribution/aggregator-in-subcommittee", "", false},
	{"C-DUP", "contribution", "contribution/first-for-aggregator", "", true},
	{"C-SELPROOF", "contribution", "contribution/selection-proof", "", false},
	{"C-OUTER-SIG", "contribution", "contribution/outer-signature", "", false},
	{"C-AGG-SIG", "contribution", "contribution/aggregate-signature", "", false},
}

var catByID = func() map[string]*catEntry {
	m := map[string]*catEntry{}
	for i := range Catalogue {
		m[Catalogue[i].ID] = &Catalogue[i]
	}
	return m
}()

var Topics = []string{"block", "attestation", "aggregate", "exit", "proposer_slashing", "attester_slashing", "sync_message", "contribution"}

// ---------------------------------------------------------------- producers

// produce turns a recipe into the message sequence. reason != "" : the recipe cannot be realised on
// this view (e.g. no stale branch, committee too small for the corruption).
func (bv *bview) produce(mc *MsgCase, clockMs int64) (pl *plan, reason string) {
	defer func() {
		if p := recover(); p != nil {
			if inv, ok := p.(refspec.Invalid); ok {
				pl, reason = nil, "producer hit a spec assertion: "+inv.Msg
				return
			}
			panic(p)
		}
	}()
	var ce *catEntry
	if mc.Corrupt != "" {
		ce = catByID[mc.Corrupt]
		if ce == nil || ce.Topic != mc.Topic {
			return nil, "unknown corruption id"
		}
	}
	switch mc.Topic {
	case "block":
		pl, reason = bv.produceBlock(mc, clockMs)
	case "attestation":
		pl, reason = bv.produceAttestation(mc, clockMs)
	case "aggregate":
		pl, reason = bv.produceAggregate(mc, clockMs)
	case "exit":
		pl, reason = bv.produceExit(mc, clockMs)
	case "proposer_slashing":
		pl, reason = bv.produceProposerSlashing(mc, clockMs)
	case "attester_slashing":
		pl, reason = bv.produceAttesterSlashing(mc, clockMs)
	case "sync_message":
		pl, reason = bv.produceSyncMessage(mc, clockMs)
	case "contribution":
		pl, reason = bv.produceContribution(mc, clockMs)
	default:
		return nil, "unknown topic"
	}
	if pl != nil && ce != nil {
		pl.target = ce.Target
	}
	return
}

// seq assembles the judged sequence around a corrupted/honest pair.
func seq(ce string, honest, variant step, honestClock int64) []step {
	if ce == "" {
		honest.role = "honest"
		return []step{honest}
	}
	if catByID[ce].Dup {
		honest.role = "honest"
		variant.role = "duplicate"
		return []step{honest, variant}
	}
	variant.role = "corrupt"
	honest.role = "honest-after-refused"
	honest.clockMs = honestClock
	return []step{variant, honest}
}

// midClock: a clock at which a message of `slot` is comfortably current.
func (bv *bview) midClock(slot uint64) int64 { return int64(slot)*bv.slotMs() + 1000 }

// honestClockFor: the clock of the honest follow-up: the case clock unless the corruption is the clock.
func (bv *bview) honestClockFor(mc *MsgCase, clockMs int64, slot uint64) int64 {
	if ce := catByID[mc.Corrupt]; ce != nil && ce.Clock != "" {
		return bv.midClock(slot)
	}
	return clockMs
}

// ---------------------------------------------------------------- blocks

func (bv *bview) buildOn(parent *refspec.State, slot uint64, seed uint64) (*refspec.SignedBlock, *sim.BuildInfo, *sim.Chain, error) {
	c := bv.chain.Fork()
	c.St = parent.Copy()
	sb, info, err := c.BuildBlock(slot, &sim.BlockPlan{Seed: seed, AttMode: 0, SyncPm: 1000})
	return sb, info, c, err
}

func (bv *bview) produceBlock(mc *MsgCase, clockMs int64) (*plan, string) {
	sp := bv.sp
	pr := &prng{mc.Seed}
	finSlot := sp.StartSlotAtEpoch(bv.ref.Fin.Epoch)
	slot := mc.Slot
	if slot == 0 {
		return nil, "slot 0"
	}
	parentRec := bv.headAt(mc.Branch, slot-1)
	if parentRec == nil {
		return nil, "no parent"
	}
	switch mc.Corrupt {
	case "B-FINALIZED-SLOT":
		// slot == start slot of the finalized epoch, on a parent that is the finalized block itself when
		// that slot was empty (then only the slot condition is violated), else on its ancestor
		if finSlot == 0 {
			return nil, "nothing finalized"
		}
		slot = finSlot
		parentRec = bv.headAt(0, slot-1)
	case "B-BEFORE-FINALIZED":
		if finSlot < 2 {
			return nil, "nothing finalized"
		}
		slot = 1 + mc.A%(finSlot-1)
		parentRec = bv.headAt(0, slot-1)
	case "B-STALE-BRANCH":
		if !bv.stale(mc.Branch) {
			return nil, "branch not stale"
		}
		parentRec = bv.headAt(mc.Branch, bv.tipSlot(mc.Branch))
		if a, ok := bv.ref.GetAncestor(parentRec.BlockRoot, finSlot); ok && a == bv.ref.Fin.Root {
			return nil, "branch tip descends from the finalized block"
		}
		if slot <= finSlot || slot <= parentRec.Slot {
			return nil, "slot not after the finalized slot"
		}
	}
	sb, info, chain, err := bv.buildOn(parentRec.Ref, slot, mc.Seed)
	if err != nil {
		return nil, "builder: " + err.Error()
	}
	honest := step{msg: sb, clockMs: clockMs}
	pl := &plan{fork: sb.Message.Fork}
	variant := honest
	resign := func(b *refspec.SignedBlock, signerValidator uint64) bool {
		k, ok := bv.keyOf(info.Pre, signerValidator)
		if !ok {
			return false
		}
		sr := sp.ComputeSigningRoot(sp.BlockRoot(&b.Message), sp.GetDomainNow(info.Pre, refspec.DOMAIN_BEACON_PROPOSER))
		b.Signature = refspec.Sign(k, sr)
		return true
	}
	cp := func() *refspec.SignedBlock { c := *sb; return &c }
	switch mc.Corrupt {
	case "", "B-FUTURE", "B-FINALIZED-SLOT", "B-BEFORE-FINALIZED", "B-STALE-BRANCH":
		if mc.Corrupt == "B-FINALIZED-SLOT" || mc.Corrupt == "B-BEFORE-FINALIZED" || mc.Corrupt == "B-STALE-BRANCH" {
			// no honest counterpart exists for these: the judged message stands alone
			variant.role = "corrupt"
			pl.steps = []step{variant}
			return pl, ""
		}
	case "B-DUP":
	case "B-EQUIVOCATION":
		sb2, _, _, err := bv.buildOn(parentRec.Ref, slot, mc.Seed^0x5555)
		if err != nil {
			return nil, "builder: " + err.Error()
		}
		if sp.BlockRoot(&sb2.Message) == sp.BlockRoot(&sb.Message) {
			return nil, "same block"
		}
		variant.msg = sb2
	case "B-UNKNOWN-PARENT":
		// a child of the (unpublished) honest block
		chain.St = info.Post.Copy()
		child, _, err := chain.BuildBlock(slot+1+mc.A%2, &sim.BlockPlan{Seed: mc.Seed + 1, SyncPm: 1000})
		if err != nil {
			return nil, "builder: " + err.Error()
		}
		variant.msg = child
		variant.clockMs = clockMs + 3*bv.slotMs()
	case "B-NOT-AFTER-PARENT":
		// claims the parent's own slot (or an earlier one) while building on it
		if parentRec.Slot == 0 {
			return nil, "parent is genesis"
		}
		m := cp()
		m.Message.Slot = parentRec.Slot - mc.A%2
		if m.Message.Slot == 0 {
			m.Message.Slot = parentRec.Slot
		}
		m.Message.Fork = bv.forkAtSlot(m.Message.Slot)
		if m.Message.Fork != sb.Message.Fork {
			return nil, "fork boundary"
		}
		resign(m, m.Message.ProposerIndex)
		variant.msg = m
	case "B-SIG-WRONG-KEY":
		m := cp()
		other := (m.Message.ProposerIndex + 1 + mc.A%uint64(len(info.Pre.Validators)-1)) % uint64(len(info.Pre.Validators))
		if !resign(m, other) {
			return nil, "no key"
		}
		variant.msg = m
	case "B-SIG-WRONG-DOMAIN":
		m := cp()
		k, _ := bv.keyOf(info.Pre, m.Message.ProposerIndex)
		var dom Root
		if mc.A%2 == 0 {
			dom = sp.GetDomainNow(info.Pre, refspec.DOMAIN_BEACON_ATTESTER)
		} else {
			// the right domain type under another fork's version
			v := sp.P.ForkVersions[(info.Pre.Fork+1)%5]
			dom = sp.ComputeDomain(refspec.DOMAIN_BEACON_PROPOSER, v, info.Pre.GenesisValidatorsRoot)
		}
		m.Signature = refspec.Sign(k, sp.ComputeSigningRoot(sp.BlockRoot(&m.Message), dom))
		variant.msg = m
	case "B-SIG-GARBAGE":
		m := cp()
		switch mc.A % 3 {
		case 0:
			m.Signature = pr.sig()
		case 1:
			m.Signature = refspec.G2PointAtInfinity
		default:
			m.Signature[95] ^= 1
		}
		variant.msg = m
	case "B-PROPOSER-OOR":
		m := cp()
		m.Message.ProposerIndex = uint64(len(info.Pre.Validators)) + mc.A%3
		variant.msg = m
	case "B-WRONG-PROPOSER":
		// another validator proposes (and signs correctly with its own key)
		m := cp()
		n := uint64(len(info.Pre.Validators))
		other := (m.Message.ProposerIndex + 1 + mc.A%(n-1)) % n
		m.Message.ProposerIndex = other
		if !resign(m, other) {
			return nil, "no key"
		}
		variant.msg = m
	default:
		return nil, "unhandled corruption"
	}
	pl.steps = seq(mc.Corrupt, honest, variant, bv.honestClockFor(mc, clockMs, slot))
	return pl, ""
}

// ---------------------------------------------------------------- attestations

type attParts struct {
	head   Root
	d      refspec.AttestationData
	ts     *refspec.State
	comm   []uint64
	cps    uint64
	subnet uint64
}

func (bv *bview) honestData(branch int, slot uint64, ciSel uint64) (*attParts, string) {
	sp := bv.sp
	head := bv.headAt(branch, slot)
	if head == nil {
		return nil, "no head"
	}
	e := sp.EpochAtSlot(slot)
	troot, ok := bv.ref.GetAncestor(head.BlockRoot, sp.StartSlotAtEpoch(e))
	if !ok {
		return nil, "no target"
	}
	ts := bv.ref.StateAt(troot, sp.StartSlotAtEpoch(e))
	if ts == nil {
		return nil, "no target state"
	}
	p := &attParts{head: head.BlockRoot, ts: ts}
	p.cps = sp.CommitteeCountPerSlot(ts, e)
	ci := ciSel % p.cps
	p.comm = sp.BeaconCommittee(ts, slot, ci)
	if len(p.comm) == 0 {
		return nil, "empty committee"
	}
	p.d = refspec.AttestationData{Slot: slot, Index: ci, BeaconBlockRoot: head.BlockRoot, Source: ts.CurrentJustifiedCheckpoint,
		Target: refspec.Checkpoint{Epoch: e, Root: troot}}
	p.subnet = sp.ComputeSubnetForAttestation(p.cps, slot, ci)
	return p, ""
}

func oneHot(n, pos int) []bool {
	b := make([]bool, n)
	b[pos] = true
	return b
}

func (bv *bview) signAtt(ts *refspec.State, d *refspec.AttestationData, voters []uint64) ([96]byte, bool) {
	var ks []uint64
	for _, v := range voters {
		k, ok := bv.keyOf(ts, v)
		if !ok {
			return [96]byte{}, false
		}
		ks = append(ks, k)
	}
	return refspec.AggregateSign(ks, bv.sp.AttestationDataRoot(ts, d)), true
}

// retarget picks a target root that is not the checkpoint block of the vote; returns the state the
// (dishonest) attesters would derive their committee from, if any.
func (bv *bview) retarget(p *attParts, variant uint64) (Root, *refspec.State, bool) {
	sp := bv.sp
	start := sp.StartSlotAtEpoch(p.d.Target.Epoch)
	var cands []Root
	for i := range bv.recs {
		r := &bv.recs[i]
		if r.IsBlock && r.BlockRoot != p.d.Target.Root {
			cands = append(cands, r.BlockRoot)
		}
	}
	if len(cands) == 0 {
		return Root{}, nil, false
	}
	// prefer candidates whose checkpoint state exists (block not after the epoch start): the rest of the
	// message can then be made consistent with it, so that only the ancestry condition is violated
	var early []Root
	for _, c := range cands {
		if bv.ref.Blocks[c].Slot <= start {
			early = append(early, c)
		}
	}
	if len(early) > 0 && variant%4 != 3 {
		// the closest ones first (same shuffling more likely): sort by slot descending
		sort.SliceStable(early, func(i, j int) bool { return bv.ref.Blocks[early[i]].Slot > bv.ref.Blocks[early[j]].Slot })
		x := early[int(variant/4)%minInt(len(early), 3)]
		return x, bv.ref.StateAt(x, start), true
	}
	x := cands[int(variant/4)%len(cands)]
	return x, bv.ref.StateAt(x, start), true
}

func minInt(a, b int) int {
	if a < b {
		return a
	}
	return b
}

func (bv *bview) produceAttestation(mc *MsgCase, clockMs int64) (*plan, string) {
	sp := bv.sp
	pr := &prng{mc.Seed}
	p, why := bv.honestData(mc.Branch, mc.Slot, mc.A)
	if p == nil {
		return nil, why
	}
	pos := int(mc.B % uint64(len(p.comm)))
	voter := p.comm[pos]
	sig, ok := bv.signAtt(p.ts, &p.d, []uint64{voter})
	if !ok {
		return nil, "no key"
	}
	h := &refspec.Attestation{Bits: oneHot(len(p.comm), pos), Data: p.d, Signature: sig}
	honest := step{msg: h, subnet: p.subnet, clockMs: clockMs}
	variant := honest
	pl := &plan{fork: bv.forkAtSlot(mc.Slot)}
	if first := (p.cps * (mc.Slot % sp.P.SLOTS_PER_EPOCH)) % refspec.ATTESTATION_SUBNET_COUNT; first+p.cps > refspec.ATTESTATION_SUBNET_COUNT && first+p.d.Index >= refspec.ATTESTATION_SUBNET_COUNT {
		pl.straddle = true
	}
	finSlot := sp.StartSlotAtEpoch(bv.ref.Fin.Epoch)
	cp := func() *refspec.Attestation { c := *h; c.Bits = append([]bool{}, h.Bits...); return &c }
	switch mc.Corrupt {
	case "", "A-EARLY", "A-LATE", "A-DUP":
	case "A-STALE-BRANCH", "A-PRE-FINALIZED":
		if a, ok := bv.ref.GetAncestor(p.head, finSlot); !ok || a == bv.ref.Fin.Root {
			return nil, "vote descends from the finalized block"
		}
		variant.role = "corrupt"
		pl.steps = []step{variant}
		return pl, ""
	case "A-INDEX-OOR":
		m := cp()
		m.Data.Index = p.cps + mc.C%3
		m.Signature, _ = bv.signAtt(p.ts, &m.Data, []uint64{voter})
		variant.msg = m
		variant.subnet = sp.ComputeSubnetForAttestation(p.cps, m.Data.Slot, m.Data.Index)
	case "A-WRONG-SUBNET":
		variant.subnet = (p.subnet + 1 + mc.C%(refspec.ATTESTATION_SUBNET_COUNT-1)) % refspec.ATTESTATION_SUBNET_COUNT
	case "A-TARGET-EPOCH":
		m := cp()
		if mc.C%2 == 0 || m.Data.Target.Epoch == 0 {
			m.Data.Target.Epoch++
		} else {
			m.Data.Target.Epoch--
		}
		m.Signature, _ = bv.signAtt(p.ts, &m.Data, []uint64{voter})
		variant.msg = m
	case "A-NO-BITS":
		m := cp()
		m.Bits[pos] = false
		if mc.C%2 == 0 {
			m.Signature = refspec.G2PointAtInfinity
		}
		variant.msg = m
	case "A-TWO-BITS":
		if len(p.comm) < 2 {
			return nil, "committee of one"
		}
		m := cp()
		pos2 := (pos + 1 + int(mc.C%uint64(len(p.comm)-1))) % len(p.comm)
		m.Bits[pos2] = true
		m.Signature, _ = bv.signAtt(p.ts, &m.Data, []uint64{voter, p.comm[pos2]})
		variant.msg = m
	case "A-BITS-LONGER":
		m := cp()
		m.Bits = append(m.Bits, false)
		variant.msg = m
	case "A-BITS-SHORTER":
		if len(p.comm) < 2 {
			return nil, "committee of one"
		}
		if pos == len(p.comm)-1 {
			pos = 0
			voter = p.comm[0]
			h.Bits = oneHot(len(p.comm), 0)
			h.Signature, _ = bv.signAtt(p.ts, &h.Data, []uint64{voter})
		}
		m := cp()
		m.Bits = m.Bits[:len(m.Bits)-1]
		variant.msg = m
	case "A-DUP-OTHER-DATA":
		m := cp()
		m.Data.Source.Root = pr.root()
		m.Signature, _ = bv.signAtt(p.ts, &m.Data, []uint64{voter})
		variant.msg = m
	case "A-SIG-WRONG-KEY":
		m := cp()
		n := uint64(len(p.ts.Validators))
		m.Signature, ok = bv.signAtt(p.ts, &m.Data, []uint64{(voter + 1 + mc.C%(n-1)) % n})
		if !ok {
			return nil, "no key"
		}
		variant.msg = m
	case "A-SIG-WRONG-DOMAIN":
		m := cp()
		k, _ := bv.keyOf(p.ts, voter)
		var dom Root
		if mc.C%2 == 0 {
			dom = sp.GetDomain(p.ts, refspec.DOMAIN_BEACON_PROPOSER, m.Data.Target.Epoch)
		} else {
			dom = sp.ComputeDomain(refspec.DOMAIN_BEACON_ATTESTER, sp.P.ForkVersions[(p.ts.Fork+1)%5], p.ts.GenesisValidatorsRoot)
		}
		m.Signature = refspec.Sign(k, sp.ComputeSigningRoot(sp.HTR("AttestationData", m.Data.V()), dom))
		variant.msg = m
	case "A-SIG-GARBAGE":
		m := cp()
		switch mc.C % 3 {
		case 0:
			m.Signature = pr.sig()
		case 1:
			m.Signature = refspec.G2PointAtInfinity
		default:
			m.Signature[95] ^= 1
		}
		variant.msg = m
	case "A-UNKNOWN-BLOCK":
		m := cp()
		m.Data.BeaconBlockRoot = pr.root()
		m.Signature, _ = bv.signAtt(p.ts, &m.Data, []uint64{voter})
		variant.msg = m
	case "A-BAD-BLOCK":
		variant.bad = []Root{p.head}
	case "A-TARGET-NOT-ANCESTOR":
		x, xs, ok := bv.retarget(p, mc.C)
		if !ok {
			return nil, "no other block"
		}
		m := cp()
		m.Data.Target.Root = x
		signer, st := voter, p.ts
		if xs != nil {
			// make the rest consistent with the claimed target's checkpoint state
			cps := sp.CommitteeCountPerSlot(xs, m.Data.Target.Epoch)
			m.Data.Index = m.Data.Index % cps
			comm := sp.BeaconCommittee(xs, m.Data.Slot, m.Data.Index)
			if len(comm) == 0 {
				return nil, "empty committee"
			}
			q := pos % len(comm)
			m.Bits = oneHot(len(comm), q)
			signer, st = comm[q], xs
			variant.subnet = sp.ComputeSubnetForAttestation(cps, m.Data.Slot, m.Data.Index)
		}
		m.Signature, ok = bv.signAtt(st, &m.Data, []uint64{signer})
		if !ok {
			return nil, "no key"
		}
		variant.msg = m
	case "A-TARGET-UNKNOWN":
		m := cp()
		m.Data.Target.Root = pr.root()
		m.Signature, _ = bv.signAtt(p.ts, &m.Data, []uint64{voter})
		variant.msg = m
	default:
		return nil, "unhandled corruption"
	}
	pl.steps = seq(mc.Corrupt, honest, variant, bv.honestClockFor(mc, clockMs, mc.Slot))
	return pl, ""
}

// ---------------------------------------------------------------- aggregates

// subset draws a non-empty subset of positions.
func subset(n int, seed uint64) []bool {
	pr := &prng{seed}
	b := make([]bool, n)
	any := false
	mode := pr.n(3)
	for i := range b {
		switch mode {
		case 0:
			b[i] = true
		case 1:
			b[i] = pr.n(2) == 0
		default:
			b[i] = pr.n(4) == 0
		}
		any = any || b[i]
	}
	if !any {
		b[pr.n(n)] = true
	}
	return b
}

func (bv *bview) signAggregate(ts *refspec.State, d *refspec.AttestationData, comm []uint64, bits []bool) ([96]byte, bool) {
	var voters []uint64
	for i, x := range bits {
		if x && i < len(comm) {
			voters = append(voters, comm[i])
		}
	}
	return bv.signAtt(ts, d, voters)
}

// findAggregator searches the committee from `from` for a member whose selection proof passes
// (want=true) or fails (want=false) the modulo test.
func (bv *bview) findAggregator(ts *refspec.State, slot, index uint64, comm []uint64, from int, want bool) (uint64, [96]byte, bool) {
	for k := 0; k < len(comm); k++ {
		v := comm[(from+k)%len(comm)]
		key, ok := bv.keyOf(ts, v)
		if !ok {
			continue
		}
		proof := bv.sp.GetSlotSignature(ts, slot, key)
		if bv.sp.IsAggregator(ts, slot, index, proof) == want {
			return v, proof, true
		}
	}
	return 0, [96]byte{}, false
}

func (bv *bview) finishAggregate(ts *refspec.State, aggregator uint64, proof [96]byte, a *refspec.Attestation) (*refspec.SignedAggregateAndProof, bool) {
	s := &refspec.SignedAggregateAndProof{Message: refspec.AggregateAndProof{AggregatorIndex: aggregator, Aggregate: *a, SelectionProof: proof}}
	k, ok := bv.keyOf(ts, aggregator)
	if !ok {
		return nil, false
	}
	s.Signature = refspec.Sign(k, bv.sp.AggregateAndProofRoot(ts, &s.Message))
	return s, true
}

func (bv *bview) produceAggregate(mc *MsgCase, clockMs int64) (*plan, string) {
	sp := bv.sp
	pr := &prng{mc.Seed}
	p, why := bv.honestData(mc.Branch, mc.Slot, mc.A)
	if p == nil {
		return nil, why
	}
	bits := subset(len(p.comm), mc.C)
	asig, ok := bv.signAggregate(p.ts, &p.d, p.comm, bits)
	if !ok {
		return nil, "no key"
	}
	agg := &refspec.Attestation{Bits: bits, Data: p.d, Signature: asig}
	aggregator, proof, ok := bv.findAggregator(p.ts, mc.Slot, p.d.Index, p.comm, int(mc.B%uint64(len(p.comm))), true)
	if !ok {
		return nil, "no aggregator"
	}
	hs, ok := bv.finishAggregate(p.ts, aggregator, proof, agg)
	if !ok {
		return nil, "no key"
	}
	honest := step{msg: hs, clockMs: clockMs}
	variant := honest
	pl := &plan{fork: bv.forkAtSlot(mc.Slot)}
	finSlot := sp.StartSlotAtEpoch(bv.ref.Fin.Epoch)
	cpAgg := func() *refspec.Attestation { c := *agg; c.Bits = append([]bool{}, agg.Bits...); return &c }
	rebuild := func(a *refspec.Attestation) bool {
		s, ok := bv.finishAggregate(p.ts, aggregator, proof, a)
		variant.msg = s
		return ok
	}
	switch mc.Corrupt {
	case "", "G-EARLY", "G-LATE":
	case "G-STALE-BRANCH", "G-PRE-FINALIZED":
		if a, ok := bv.ref.GetAncestor(p.head, finSlot); !ok || a == bv.ref.Fin.Root {
			return nil, "vote descends from the finalized block"
		}
		variant.role = "corrupt"
		pl.steps = []step{variant}
		return pl, ""
	case "G-INDEX-OOR":
		a := cpAgg()
		a.Data.Index = p.cps + mc.C%3
		a.Signature, _ = bv.signAggregate(p.ts, &a.Data, p.comm, a.Bits)
		rebuild(a)
	case "G-TARGET-EPOCH":
		a := cpAgg()
		if mc.C%2 == 0 || a.Data.Target.Epoch == 0 {
			a.Data.Target.Epoch++
		} else {
			a.Data.Target.Epoch--
		}
		a.Signature, _ = bv.signAggregate(p.ts, &a.Data, p.comm, a.Bits)
		rebuild(a)
	case "G-BITS-LONGER":
		a := cpAgg()
		a.Bits = append(a.Bits, false)
		rebuild(a)
	case "G-BITS-SHORTER":
		if len(p.comm) < 2 {
			return nil, "committee of one"
		}
		a := cpAgg()
		a.Bits = a.Bits[:len(a.Bits)-1]
		if n, _ := countTrue(a.Bits); n == 0 {
			a.Bits[0] = true
		}
		a.Signature, _ = bv.signAggregate(p.ts, &a.Data, p.comm, a.Bits)
		rebuild(a)
	case "G-NO-BITS":
		a := cpAgg()
		for i := range a.Bits {
			a.Bits[i] = false
		}
		a.Signature = refspec.G2PointAtInfinity
		rebuild(a)
	case "G-DUP-AGGREGATE":
		// the same aggregate relayed by another aggregator
		other, proof2, ok := bv.findAggregator(p.ts, mc.Slot, p.d.Index, p.comm, indexOf(p.comm, aggregator)+1, true)
		if !ok || other == aggregator {
			return nil, "no second aggregator"
		}
		s, ok := bv.finishAggregate(p.ts, other, proof2, agg)
		if !ok {
			return nil, "no key"
		}
		variant.msg = s
	case "G-DUP-AGGREGATOR":
		// the same aggregator, a different aggregate of the same epoch
		a := cpAgg()
		a.Data.Source.Root = pr.root()
		a.Signature, _ = bv.signAggregate(p.ts, &a.Data, p.comm, a.Bits)
		rebuild(a)
	case "G-NOT-AGGREGATOR":
		v, pf, ok := bv.findAggregator(p.ts, mc.Slot, p.d.Index, p.comm, int(mc.B%uint64(len(p.comm))), false)
		if !ok {
			return nil, "every member is an aggregator (modulo 1)"
		}
		s, ok := bv.finishAggregate(p.ts, v, pf, agg)
		if !ok {
			return nil, "no key"
		}
		variant.msg = s
	case "G-NOT-IN-COMMITTEE":
		// a validator of another committee, with its own valid proof and signatures
		in := map[uint64]bool{}
		for _, x := range p.comm {
			in[x] = true
		}
		n := uint64(len(p.ts.Validators))
		found := false
		for k := uint64(0); k < n && !found; k++ {
			v := (mc.C + k) % n
			if in[v] {
				continue
			}
			key, ok := bv.keyOf(p.ts, v)
			if !ok {
				continue
			}
			pf := sp.GetSlotSignature(p.ts, mc.Slot, key)
			if !sp.IsAggregator(p.ts, mc.Slot, p.d.Index, pf) {
				continue
			}
			s, ok := bv.finishAggregate(p.ts, v, pf, agg)
			if ok {
				variant.msg = s
				found = true
			}
		}
		if !found {
			return nil, "no outsider"
		}
	case "G-AGGREGATOR-OOR":
		s := *hs
		s.Message.AggregatorIndex = uint64(len(p.ts.Validators)) + mc.C%3
		k, _ := bv.keyOf(p.ts, aggregator)
		s.Signature = refspec.Sign(k, sp.AggregateAndProofRoot(p.ts, &s.Message))
		variant.msg = &s
	case "G-SELPROOF-WRONG-KEY", "G-SELPROOF-WRONG-SLOT":
		// a proof that still passes the modulo test but is not the aggregator's signature of the slot
		var pf [96]byte
		found := false
		for k := uint64(1); k < 64 && !found; k++ {
			if mc.Corrupt == "G-SELPROOF-WRONG-KEY" {
				n := uint64(len(p.ts.Validators))
				key, ok := bv.keyOf(p.ts, (aggregator+k)%n)
				if !ok {
					continue
				}
				pf = sp.GetSlotSignature(p.ts, mc.Slot, key)
			} else {
				key, _ := bv.keyOf(p.ts, aggregator)
				pf = sp.GetSlotSignature(p.ts, mc.Slot+k, key)
			}
			found = sp.IsAggregator(p.ts, mc.Slot, p.d.Index, pf)
		}
		if !found {
			return nil, "no passing forged proof"
		}
		s, ok := bv.finishAggregate(p.ts, aggregator, pf, agg)
		if !ok {
			return nil, "no key"
		}
		variant.msg = s
	case "G-OUTER-SIG":
		s := *hs
		switch mc.C % 3 {
		case 0:
			n := uint64(len(p.ts.Validators))
			k, ok := bv.keyOf(p.ts, (aggregator+1+mc.C%(n-1))%n)
			if !ok {
				return nil, "no key"
			}
			s.Signature = refspec.Sign(k, sp.AggregateAndProofRoot(p.ts, &s.Message))
		case 1:
			k, _ := bv.keyOf(p.ts, aggregator)
			dom := sp.GetDomain(p.ts, refspec.DOMAIN_SELECTION_PROOF, p.d.Target.Epoch)
			s.Signature = refspec.Sign(k, sp.ComputeSigningRoot(sp.HTR("AggregateAndProof", s.Message.V()), dom))
		default:
			s.Signature = pr.sig()
		}
		variant.msg = &s
	case "G-OUTER-SIG-OTHER-MESSAGE":
		// the aggregator's genuine outer signature of ANOTHER aggregate-and-proof, attached to this one
		a := cpAgg()
		a.Data.Source.Root = pr.root()
		a.Signature, _ = bv.signAggregate(p.ts, &a.Data, p.comm, a.Bits)
		o, ok := bv.finishAggregate(p.ts, aggregator, proof, a)
		if !ok {
			return nil, "no key"
		}
		s := *hs
		s.Signature = o.Signature
		variant.msg = &s
	case "G-AGG-SIG":
		a := cpAgg()
		switch mc.C % 3 {
		case 0:
			// one participant did not sign
			flip := -1
			for i, x := range a.Bits {
				if !x {
					flip = i
					break
				}
			}
			if flip < 0 {
				if len(a.Bits) < 2 {
					return nil, "committee of one"
				}
				sub := append([]bool{}, a.Bits...)
				sub[0] = false
				a.Signature, _ = bv.signAggregate(p.ts, &a.Data, p.comm, sub)
			} else {
				a.Bits[flip] = true
			}
		case 1:
			d2 := a.Data
			d2.Source.Root = pr.root()
			a.Signature, _ = bv.signAggregate(p.ts, &d2, p.comm, a.Bits)
		default:
			a.Signature = pr.sig()
		}
		rebuild(a)
	case "G-UNKNOWN-BLOCK":
		a := cpAgg()
		a.Data.BeaconBlockRoot = pr.root()
		a.Signature, _ = bv.signAggregate(p.ts, &a.Data, p.comm, a.Bits)
		rebuild(a)
	case "G-BAD-BLOCK":
		variant.bad = []Root{p.head}
	case "G-TARGET-NOT-ANCESTOR":
		x, xs, ok := bv.retarget(p, mc.C)
		if !ok {
			return nil, "no other block"
		}
		a := cpAgg()
		a.Data.Target.Root = x
		if xs == nil {
			a.Signature, _ = bv.signAggregate(p.ts, &a.Data, p.comm, a.Bits)
			rebuild(a)
			break
		}
		cps := sp.CommitteeCountPerSlot(xs, a.Data.Target.Epoch)
		a.Data.Index = a.Data.Index % cps
		comm := sp.BeaconCommittee(xs, a.Data.Slot, a.Data.Index)
		if len(comm) == 0 {
			return nil, "empty committee"
		}
		a.Bits = subset(len(comm), mc.C)
		a.Signature, ok = bv.signAggregate(xs, &a.Data, comm, a.Bits)
		if !ok {
			return nil, "no key"
		}
		v, pf, ok := bv.findAggregator(xs, a.Data.Slot, a.Data.Index, comm, int(mc.B%uint64(len(comm))), true)
		if !ok {
			return nil, "no aggregator"
		}
		s, ok := bv.finishAggregate(xs, v, pf, a)
		if !ok {
			return nil, "no key"
		}
		variant.msg = s
	default:
		return nil, "unhandled corruption"
	}
	if variant.msg == nil {
		return nil, "could not build the variant"
	}
	pl.steps = seq(mc.Corrupt, honest, variant, bv.honestClockFor(mc, clockMs, mc.Slot))
	return pl, ""
}

func countTrue(b []bool) (int, int) {
	n, first := 0, -1
	for i, x := range b {
		if x {
			if first < 0 {
				first = i
			}
			n++
		}
	}
	return n, first
}

func indexOf(xs []uint64, v uint64) int {
	for i, x := range xs {
		if x == v {
			return i
		}
	}
	return 0
}
