package c12

import (
	"sort"

	"zrntverif/refspec"
)

// ---------------------------------------------------------------- voluntary exits

func (bv *bview) signExit(head *refspec.State, ex refspec.VoluntaryExit, signer uint64) (*refspec.SignedVoluntaryExit, bool) {
	k, ok := bv.keyOf(head, signer)
	if !ok {
		return nil, false
	}
	dom := bv.sp.GetDomain(head, refspec.DOMAIN_VOLUNTARY_EXIT, ex.Epoch)
	return &refspec.SignedVoluntaryExit{Message: ex, Signature: refspec.Sign(k, bv.sp.ComputeSigningRoot(bv.sp.HTR("VoluntaryExit", ex.V()), dom))}, true
}

func pick(xs []uint64, sel uint64) (uint64, bool) {
	if len(xs) == 0 {
		return 0, false
	}
	return xs[sel%uint64(len(xs))], true
}

func (bv *bview) produceExit(mc *MsgCase, clockMs int64) (*plan, string) {
	sp := bv.sp
	head := bv.ref.Head
	cur := sp.CurrentEpoch(head)
	pr := &prng{mc.Seed}
	var good, young, inactive, exiting []uint64
	for i := range head.Validators {
		v := &head.Validators[i]
		if _, ok := bv.keyOf(head, uint64(i)); !ok {
			continue
		}
		switch {
		case !refspec.IsActive(v, cur):
			inactive = append(inactive, uint64(i)) // never activated, or already exited
		case v.ExitEpoch != refspec.FarFutureEpoch:
			exiting = append(exiting, uint64(i))
		case cur < v.ActivationEpoch+sp.P.SHARD_COMMITTEE_PERIOD:
			young = append(young, uint64(i))
		default:
			good = append(good, uint64(i))
		}
	}
	pl := &plan{fork: head.Fork}
	epochOf := func() uint64 {
		if cur == 0 {
			return 0
		}
		return cur - mc.B%minU(cur+1, 3)
	}
	var honest step
	hv, haveHonest := pick(good, mc.A)
	if haveHonest {
		se, _ := bv.signExit(head, refspec.VoluntaryExit{Epoch: epochOf(), ValidatorIndex: hv}, hv)
		honest = step{msg: se, clockMs: clockMs}
	}
	solo := func(se *refspec.SignedVoluntaryExit) (*plan, string) {
		st := step{msg: se, clockMs: clockMs, role: "corrupt"}
		pl.steps = []step{st}
		if haveHonest {
			honest.role = "honest-after-refused"
			pl.steps = append(pl.steps, honest)
		}
		return pl, ""
	}
	switch mc.Corrupt {
	case "", "X-DUP", "X-SIG", "X-FUTURE-EPOCH":
		if !haveHonest {
			return nil, "no validator may exit"
		}
		variant := honest
		switch mc.Corrupt {
		case "X-SIG":
			hs := honest.msg.(*refspec.SignedVoluntaryExit)
			m := *hs
			switch mc.C % 3 {
			case 0:
				n := uint64(len(head.Validators))
				o, ok := bv.signExit(head, m.Message, (hv+1+mc.C%(n-1))%n)
				if !ok {
					return nil, "no key"
				}
				m = *o
			case 1:
				k, _ := bv.keyOf(head, hv)
				dom := sp.GetDomain(head, refspec.DOMAIN_BEACON_PROPOSER, m.Message.Epoch)
				m.Signature = refspec.Sign(k, sp.ComputeSigningRoot(sp.HTR("VoluntaryExit", m.Message.V()), dom))
			default:
				m.Signature = pr.sig()
			}
			variant.msg = &m
		case "X-FUTURE-EPOCH":
			se, _ := bv.signExit(head, refspec.VoluntaryExit{Epoch: cur + 1 + mc.C%3, ValidatorIndex: hv}, hv)
			variant.msg = se
		}
		pl.steps = seq(mc.Corrupt, honest, variant, clockMs)
		return pl, ""
	case "X-NOT-ACTIVE":
		v, ok := pick(inactive, mc.A)
		if !ok {
			return nil, "no inactive validator"
		}
		se, _ := bv.signExit(head, refspec.VoluntaryExit{Epoch: epochOf(), ValidatorIndex: v}, v)
		return solo(se)
	case "X-ALREADY-EXITED":
		v, ok := pick(exiting, mc.A)
		if !ok {
			return nil, "no exiting validator"
		}
		se, _ := bv.signExit(head, refspec.VoluntaryExit{Epoch: epochOf(), ValidatorIndex: v}, v)
		return solo(se)
	case "X-TOO-YOUNG":
		v, ok := pick(young, mc.A)
		if !ok {
			return nil, "no young validator"
		}
		se, _ := bv.signExit(head, refspec.VoluntaryExit{Epoch: epochOf(), ValidatorIndex: v}, v)
		return solo(se)
	case "X-INDEX-OOR":
		signer := uint64(0)
		if haveHonest {
			signer = hv
		}
		se, ok := bv.signExit(head, refspec.VoluntaryExit{Epoch: epochOf(), ValidatorIndex: uint64(len(head.Validators)) + mc.C%3}, signer)
		if !ok {
			return nil, "no key"
		}
		return solo(se)
	}
	return nil, "unhandled corruption"
}

func minU(a, b uint64) uint64 {
	if a < b {
		return a
	}
	return b
}

// ---------------------------------------------------------------- proposer slashings

func (bv *bview) signHeader(head *refspec.State, h refspec.BeaconBlockHeader, signer uint64) (refspec.SignedBeaconBlockHeader, bool) {
	k, ok := bv.keyOf(head, signer)
	if !ok {
		return refspec.SignedBeaconBlockHeader{}, false
	}
	dom := bv.sp.GetDomain(head, refspec.DOMAIN_BEACON_PROPOSER, bv.sp.EpochAtSlot(h.Slot))
	return refspec.SignedBeaconBlockHeader{Message: h, Signature: refspec.Sign(k, bv.sp.ComputeSigningRoot(bv.sp.HeaderRoot(&h), dom))}, true
}

func (bv *bview) produceProposerSlashing(mc *MsgCase, clockMs int64) (*plan, string) {
	sp := bv.sp
	head := bv.ref.Head
	cur := sp.CurrentEpoch(head)
	pr := &prng{mc.Seed}
	var good, unslashable []uint64
	for i := range head.Validators {
		if _, ok := bv.keyOf(head, uint64(i)); !ok {
			continue
		}
		if refspec.IsSlashableValidator(&head.Validators[i], cur) {
			good = append(good, uint64(i))
		} else {
			unslashable = append(unslashable, uint64(i))
		}
	}
	hv, ok := pick(good, mc.A)
	if !ok {
		return nil, "nobody slashable"
	}
	hslot := mc.Slot
	if hslot > head.Slot {
		hslot = head.Slot
	}
	h1 := refspec.BeaconBlockHeader{Slot: hslot, ProposerIndex: hv, ParentRoot: pr.root(), StateRoot: pr.root(), BodyRoot: pr.root()}
	h2 := h1
	h2.BodyRoot = pr.root()
	s1, _ := bv.signHeader(head, h1, hv)
	s2, _ := bv.signHeader(head, h2, hv)
	hm := &refspec.ProposerSlashing{H1: s1, H2: s2}
	honest := step{msg: hm, clockMs: clockMs}
	variant := honest
	pl := &plan{fork: head.Fork}
	m := *hm
	n := uint64(len(head.Validators))
	switch mc.Corrupt {
	case "", "P-DUP":
	case "P-SLOT-MISMATCH":
		h2.Slot = hslot + 1 + mc.C%3
		m.H2, _ = bv.signHeader(head, h2, hv)
	case "P-INDEX-MISMATCH":
		o, ok := pick(good, mc.A+1+mc.C%uint64(len(good)))
		if !ok || o == hv {
			return nil, "no second slashable validator"
		}
		h2.ProposerIndex = o
		m.H2, _ = bv.signHeader(head, h2, o)
	case "P-SAME-HEADER":
		m.H2 = m.H1
	case "P-NOT-SLASHABLE":
		v, ok := pick(unslashable, mc.C)
		if !ok {
			return nil, "everyone is slashable"
		}
		h1.ProposerIndex, h2.ProposerIndex = v, v
		m.H1, _ = bv.signHeader(head, h1, v)
		m.H2, _ = bv.signHeader(head, h2, v)
	case "P-SIG-1", "P-SIG-2":
		var bad refspec.SignedBeaconBlockHeader
		hh := h1
		if mc.Corrupt == "P-SIG-2" {
			hh = h2
		}
		switch mc.C % 3 {
		case 0:
			bad, ok = bv.signHeader(head, hh, (hv+1+mc.C%(n-1))%n)
			if !ok {
				return nil, "no key"
			}
		case 1:
			k, _ := bv.keyOf(head, hv)
			dom := sp.GetDomain(head, refspec.DOMAIN_BEACON_ATTESTER, sp.EpochAtSlot(hh.Slot))
			bad = refspec.SignedBeaconBlockHeader{Message: hh, Signature: refspec.Sign(k, sp.ComputeSigningRoot(sp.HeaderRoot(&hh), dom))}
		default:
			bad = refspec.SignedBeaconBlockHeader{Message: hh, Signature: pr.sig()}
		}
		if mc.Corrupt == "P-SIG-1" {
			m.H1 = bad
		} else {
			m.H2 = bad
		}
	case "P-INDEX-OOR":
		h1.ProposerIndex, h2.ProposerIndex = n+mc.C%3, n+mc.C%3
		m.H1, _ = bv.signHeader(head, h1, hv)
		m.H2, _ = bv.signHeader(head, h2, hv)
	default:
		return nil, "unhandled corruption"
	}
	variant.msg = &m
	pl.steps = seq(mc.Corrupt, honest, variant, clockMs)
	return pl, ""
}

// ---------------------------------------------------------------- attester slashings

func (bv *bview) signIndexed(head *refspec.State, idx []uint64, d refspec.AttestationData) (refspec.IndexedAttestation, bool) {
	var ks []uint64
	for _, v := range idx {
		k, ok := bv.keyOf(head, v)
		if !ok {
			return refspec.IndexedAttestation{}, false
		}
		ks = append(ks, k)
	}
	sr := bv.sp.ComputeSigningRoot(bv.sp.HTR("AttestationData", d.V()), bv.sp.GetDomain(head, refspec.DOMAIN_BEACON_ATTESTER, d.Target.Epoch))
	return refspec.IndexedAttestation{Indices: append([]uint64{}, idx...), Data: d, Signature: refspec.AggregateSign(ks, sr)}, true
}

func sortedSet(m map[uint64]bool) []uint64 {
	out := make([]uint64, 0, len(m))
	for k := range m {
		out = append(out, k)
	}
	sort.Slice(out, func(i, j int) bool { return out[i] < out[j] })
	return out
}

func (bv *bview) produceAttesterSlashing(mc *MsgCase, clockMs int64) (*plan, string) {
	sp := bv.sp
	head := bv.ref.Head
	cur := sp.CurrentEpoch(head)
	pr := &prng{mc.Seed}
	var good, slashed []uint64
	for i := range head.Validators {
		if _, ok := bv.keyOf(head, uint64(i)); !ok {
			continue
		}
		if refspec.IsSlashableValidator(&head.Validators[i], cur) {
			good = append(good, uint64(i))
		} else if head.Validators[i].Slashed {
			slashed = append(slashed, uint64(i))
		}
	}
	if len(good) < 4 {
		return nil, "too few slashable validators"
	}
	inter := map[uint64]bool{}
	for k := 0; k <= pr.n(3); k++ {
		inter[good[pr.n(len(good))]] = true
	}
	e1, e2 := map[uint64]bool{}, map[uint64]bool{}
	for x := range inter {
		e1[x], e2[x] = true, true
	}
	withSlashed := mc.Corrupt == "S-DUP-WITH-SLASHED-MEMBER" || (mc.Corrupt == "" && mc.C%3 == 1)
	if withSlashed {
		if len(slashed) == 0 {
			if mc.Corrupt != "" {
				return nil, "no slashed validator"
			}
		} else {
			a := slashed[pr.n(len(slashed))]
			e1[a], e2[a] = true, true
		}
	}
	if pr.n(2) == 0 {
		e1[good[pr.n(len(good))]] = true
	}
	if pr.n(2) == 0 {
		e2[good[pr.n(len(good))]] = true
	}
	// extras added to both sides by chance belong to the intersection: recompute it
	for x := range e1 {
		if e2[x] {
			inter[x] = true
		}
	}
	var d1, d2 refspec.AttestationData
	if mc.B%2 == 0 && cur >= 3 {
		d1 = refspec.AttestationData{Slot: sp.StartSlotAtEpoch(cur), Source: refspec.Checkpoint{Epoch: cur - 3, Root: pr.root()}, Target: refspec.Checkpoint{Epoch: cur, Root: pr.root()}}
		d2 = refspec.AttestationData{Slot: sp.StartSlotAtEpoch(cur - 1), Source: refspec.Checkpoint{Epoch: cur - 2, Root: pr.root()}, Target: refspec.Checkpoint{Epoch: cur - 1, Root: pr.root()}}
	} else {
		te := cur
		if cur > 0 && mc.B%4 == 1 {
			te = cur - 1
		}
		d1 = refspec.AttestationData{Slot: sp.StartSlotAtEpoch(te), Index: mc.B % 2, BeaconBlockRoot: pr.root(), Source: refspec.Checkpoint{Epoch: te / 2, Root: pr.root()}, Target: refspec.Checkpoint{Epoch: te, Root: pr.root()}}
		d2 = d1
		d2.BeaconBlockRoot = pr.root()
	}
	i1, i2 := sortedSet(e1), sortedSet(e2)
	a1, ok1 := bv.signIndexed(head, i1, d1)
	a2, ok2 := bv.signIndexed(head, i2, d2)
	if !ok1 || !ok2 {
		return nil, "no key"
	}
	hm := &refspec.AttesterSlashing{A1: a1, A2: a2}
	honest := step{msg: hm, clockMs: clockMs}
	variant := honest
	pl := &plan{fork: head.Fork}
	m := *hm
	n := uint64(len(head.Validators))
	switch mc.Corrupt {
	case "":
		if mc.C%3 == 2 && len(slashed) > 0 {
			// three-step history: validator a is slashed in the head state but was never seen in a gossiped
			// slashing; a slashing of b alone is ACCEPTed (b is now seen, and still slashable in the head
			// state); then a slashing of {a, b}: a is unseen and b is slashable -> ACCEPT as well
			b, a := good[pr.n(len(good))], slashed[pr.n(len(slashed))]
			f1, ok1 := bv.signIndexed(head, []uint64{b}, d1)
			f2, ok2 := bv.signIndexed(head, []uint64{b}, d2)
			both := sortedSet(map[uint64]bool{a: true, b: true})
			g1, ok3 := bv.signIndexed(head, both, d1)
			g2, ok4 := bv.signIndexed(head, both, d2)
			if ok1 && ok2 && ok3 && ok4 {
				first := step{msg: &refspec.AttesterSlashing{A1: f1, A2: f2}, clockMs: clockMs, role: "honest"}
				second := step{msg: &refspec.AttesterSlashing{A1: g1, A2: g2}, clockMs: clockMs, role: "honest"}
				pl.steps = []step{first, second}
				pl.tag = "attester_slashing:seen-slashable-plus-unseen-slashed"
				return pl, ""
			}
		}
		if mc.C%3 == 0 {
			// a second slashing of a strict superset: one more (unseen) index in the intersection -> still ACCEPT
			var extra uint64
			found := false
			for _, g := range good {
				if !e1[g] && !e2[g] {
					extra, found = g, true
					break
				}
			}
			if found {
				f1, f2 := map[uint64]bool{extra: true}, map[uint64]bool{extra: true}
				for x := range e1 {
					f1[x] = true
				}
				for x := range e2 {
					f2[x] = true
				}
				b1, _ := bv.signIndexed(head, sortedSet(f1), d1)
				b2, _ := bv.signIndexed(head, sortedSet(f2), d2)
				second := step{msg: &refspec.AttesterSlashing{A1: b1, A2: b2}, clockMs: clockMs, role: "honest"}
				honest.role = "honest"
				pl.steps = []step{honest, second}
				return pl, ""
			}
		}
	case "S-DUP", "S-DUP-WITH-SLASHED-MEMBER":
	case "S-NOT-SLASHABLE-DATA":
		if mc.C%3 == 0 {
			m.A2, _ = bv.signIndexed(head, i2, d1) // identical data
		} else {
			d3 := d1
			d3.Target.Epoch = d1.Target.Epoch + 1 // different targets, equal sources: neither double nor surround
			d3.Slot = sp.StartSlotAtEpoch(d3.Target.Epoch)
			d3.Source = d1.Source
			if mc.C%3 == 1 {
				m.A2, _ = bv.signIndexed(head, i2, d3)
			} else {
				// ... with the LATER target in attestation 1 (successive honest votes while justification stalls, listed newest first)
				m.A1, _ = bv.signIndexed(head, i1, d3)
				m.A2, _ = bv.signIndexed(head, i2, d1)
			}
		}
	case "S-UNSORTED":
		if len(i1) < 2 {
			x := good[0]
			for _, g := range good {
				if !e1[g] && !e2[g] {
					x = g
				}
			}
			e1[x] = true
			i1 = sortedSet(e1)
			if len(i1) < 2 {
				return nil, "single index"
			}
		}
		un := append([]uint64{}, i1...)
		un[0], un[len(un)-1] = un[len(un)-1], un[0]
		m.A1, _ = bv.signIndexed(head, un, d1)
	case "S-DUP-INDEX":
		du := append([]uint64{i1[0]}, i1...)
		m.A1, _ = bv.signIndexed(head, du, d1)
	case "S-EMPTY":
		m.A1 = refspec.IndexedAttestation{Data: d1, Signature: refspec.G2PointAtInfinity}
	case "S-SIG-1", "S-SIG-2":
		t, idx, d := &m.A1, i1, d1
		if mc.Corrupt == "S-SIG-2" {
			t, idx, d = &m.A2, i2, d2
		}
		switch mc.C % 3 {
		case 0:
			// signed by a different set
			o := append([]uint64{}, idx...)
			o[0] = (o[0] + 1 + mc.C%(n-1)) % n
			x, ok := bv.signIndexed(head, o, d)
			if !ok {
				return nil, "no key"
			}
			t.Signature = x.Signature
		case 1:
			dd := d
			dd.BeaconBlockRoot = pr.root()
			x, _ := bv.signIndexed(head, idx, dd)
			t.Signature = x.Signature
		default:
			t.Signature = pr.sig()
		}
	case "S-NOBODY-SLASHABLE":
		if len(slashed) == 0 {
			return nil, "no slashed validator"
		}
		f := map[uint64]bool{slashed[pr.n(len(slashed))]: true}
		g1, g2 := map[uint64]bool{}, map[uint64]bool{}
		for x := range f {
			g1[x], g2[x] = true, true
		}
		// distinct slashable extras on each side keep the attestations non-trivial
		g1[good[0]] = true
		g2[good[1]] = true
		m.A1, _ = bv.signIndexed(head, sortedSet(g1), d1)
		m.A2, _ = bv.signIndexed(head, sortedSet(g2), d2)
	case "S-INDEX-OOR":
		oor := n + mc.C%3
		o1 := append(append([]uint64{}, i1...), oor)
		o2 := append(append([]uint64{}, i2...), oor)
		x1, _ := bv.signIndexed(head, i1, d1)
		x2, _ := bv.signIndexed(head, i2, d2)
		m.A1 = refspec.IndexedAttestation{Indices: o1, Data: d1, Signature: x1.Signature}
		m.A2 = refspec.IndexedAttestation{Indices: o2, Data: d2, Signature: x2.Signature}
	default:
		return nil, "unhandled corruption"
	}
	variant.msg = &m
	pl.steps = seq(mc.Corrupt, honest, variant, clockMs)
	return pl, ""
}

// ---------------------------------------------------------------- sync committee messages

type syncParts struct {
	root    Root
	st      *refspec.State
	sc      *refspec.SyncCommittee
	indexOf map[[48]byte]uint64
	subSize uint64
}

func (bv *bview) syncParts(branch int, slot uint64) (*syncParts, string) {
	rec := bv.entryAt(branch, slot)
	if rec == nil {
		return nil, "no entry at the slot"
	}
	if rec.Ref.Fork < refspec.Altair {
		return nil, "pre-altair"
	}
	p := &syncParts{root: rec.BlockRoot, st: rec.Ref, indexOf: map[[48]byte]uint64{}}
	p.sc = bv.sp.SyncCommitteeForNextSlot(rec.Ref)
	for i := len(rec.Ref.Validators) - 1; i >= 0; i-- {
		p.indexOf[rec.Ref.Validators[i].Pubkey] = uint64(i)
	}
	p.subSize = bv.sp.P.SYNC_COMMITTEE_SIZE / refspec.SYNC_COMMITTEE_SUBNET_COUNT
	return p, ""
}

func (bv *bview) signSync(p *syncParts, slot uint64, root Root, validator uint64, signer uint64) (*refspec.SyncCommitteeMessage, bool) {
	k, ok := bv.keyOf(p.st, signer)
	if !ok {
		return nil, false
	}
	return &refspec.SyncCommitteeMessage{Slot: slot, BeaconBlockRoot: root, ValidatorIndex: validator,
		Signature: refspec.Sign(k, bv.sp.SyncCommitteeMessageRoot(p.st, slot, root))}, true
}

func (bv *bview) produceSyncMessage(mc *MsgCase, clockMs int64) (*plan, string) {
	sp := bv.sp
	pr := &prng{mc.Seed}
	p, why := bv.syncParts(mc.Branch, mc.Slot)
	if p == nil {
		return nil, why
	}
	pos := mc.B % uint64(len(p.sc.Pubkeys))
	val := p.indexOf[p.sc.Pubkeys[pos]]
	subnet := pos / p.subSize
	hm, ok := bv.signSync(p, mc.Slot, p.root, val, val)
	if !ok {
		return nil, "no key"
	}
	honest := step{msg: hm, subnet: subnet, clockMs: clockMs}
	variant := honest
	pl := &plan{fork: p.st.Fork}
	subnets := sp.ComputeSubnetsForSyncCommittee(p.st, val)
	n := uint64(len(p.st.Validators))
	switch mc.Corrupt {
	case "":
		if len(subnets) >= 2 && mc.C%2 == 0 {
			// the same validator on another of its subnets: both are valid (the cache is per topic)
			o := subnets[0]
			if o == subnet {
				o = subnets[1]
			}
			second := honest
			second.subnet = o
			second.role = "honest-other-subnet"
			honest.role = "honest"
			pl.steps = []step{honest, second}
			return pl, ""
		}
	case "Y-EARLY", "Y-LATE", "Y-PREVIOUS-SLOT", "Y-DUP":
	case "Y-UNKNOWN-BLOCK":
		m, _ := bv.signSync(p, mc.Slot, pr.root(), val, val)
		variant.msg = m
	case "Y-WRONG-SUBNET":
		in := map[uint64]bool{}
		for _, s := range subnets {
			in[s] = true
		}
		found := false
		for k := uint64(0); k < refspec.SYNC_COMMITTEE_SUBNET_COUNT; k++ {
			s := (subnet + 1 + mc.C + k) % refspec.SYNC_COMMITTEE_SUBNET_COUNT
			if !in[s] {
				variant.subnet, found = s, true
				break
			}
		}
		if !found {
			return nil, "validator sits in every subcommittee"
		}
	case "Y-NOT-MEMBER":
		member := map[uint64]bool{}
		for _, pk := range p.sc.Pubkeys {
			member[p.indexOf[pk]] = true
		}
		found := false
		for k := uint64(0); k < n; k++ {
			v := (mc.C + k) % n
			if member[v] {
				continue
			}
			if m, ok := bv.signSync(p, mc.Slot, p.root, v, v); ok {
				variant.msg, found = m, true
				break
			}
		}
		if !found {
			return nil, "every validator is a member"
		}
	case "Y-VALIDATOR-OOR":
		m, _ := bv.signSync(p, mc.Slot, p.root, n+mc.C%3, val)
		variant.msg = m
	case "Y-SIG-WRONG-KEY":
		m, ok := bv.signSync(p, mc.Slot, p.root, val, (val+1+mc.C%(n-1))%n)
		if !ok {
			return nil, "no key"
		}
		variant.msg = m
	case "Y-SIG-WRONG-DOMAIN":
		m := *hm
		k, _ := bv.keyOf(p.st, val)
		var dom Root
		switch mc.C % 3 {
		case 0:
			dom = sp.GetDomain(p.st, refspec.DOMAIN_SYNC_COMMITTEE_SELECTION_PROOF, sp.EpochAtSlot(mc.Slot))
		case 1:
			dom = sp.ComputeDomain(refspec.DOMAIN_SYNC_COMMITTEE, sp.P.ForkVersions[(p.st.Fork+1)%5], p.st.GenesisValidatorsRoot)
		default:
			m.Signature = pr.sig()
		}
		if mc.C%3 != 2 {
			m.Signature = refspec.Sign(k, sp.ComputeSigningRoot(p.root, dom))
		}
		variant.msg = &m
	default:
		return nil, "unhandled corruption"
	}
	pl.steps = seq(mc.Corrupt, honest, variant, bv.honestClockFor(mc, clockMs, mc.Slot))
	return pl, ""
}

// ---------------------------------------------------------------- contributions

func (bv *bview) findSyncAggregator(p *syncParts, slot, sub uint64, members []uint64, from int, want bool) (uint64, [96]byte, bool) {
	for k := 0; k < len(members); k++ {
		v := members[(from+k)%len(members)]
		key, ok := bv.keyOf(p.st, v)
		if !ok {
			continue
		}
		proof := refspec.Sign(key, bv.sp.SyncSelectionProofRoot(p.st, slot, sub))
		if bv.sp.IsSyncCommitteeAggregator(proof) == want {
			return v, proof, true
		}
	}
	return 0, [96]byte{}, false
}

func (bv *bview) contribution(p *syncParts, slot uint64, root Root, sub uint64, members []uint64, bits []bool) (refspec.SyncCommitteeContribution, bool) {
	var ks []uint64
	for i, x := range bits {
		if x && i < len(members) {
			k, ok := bv.keyOf(p.st, members[i])
			if !ok {
				return refspec.SyncCommitteeContribution{}, false
			}
			ks = append(ks, k)
		}
	}
	return refspec.SyncCommitteeContribution{Slot: slot, BeaconBlockRoot: root, SubcommitteeIndex: sub, Bits: bits,
		Signature: refspec.AggregateSign(ks, bv.sp.SyncCommitteeMessageRoot(p.st, slot, root))}, true
}

func (bv *bview) finishContribution(p *syncParts, aggregator uint64, proof [96]byte, c refspec.SyncCommitteeContribution, signer uint64) (*refspec.SignedContributionAndProof, bool) {
	s := &refspec.SignedContributionAndProof{Message: refspec.ContributionAndProof{AggregatorIndex: aggregator, Contribution: c, SelectionProof: proof}}
	k, ok := bv.keyOf(p.st, signer)
	if !ok {
		return nil, false
	}
	s.Signature = refspec.Sign(k, bv.sp.ContributionAndProofRoot(p.st, &s.Message))
	return s, true
}

func (bv *bview) produceContribution(mc *MsgCase, clockMs int64) (*plan, string) {
	sp := bv.sp
	pr := &prng{mc.Seed}
	p, why := bv.syncParts(mc.Branch, mc.Slot)
	if p == nil {
		return nil, why
	}
	sub := mc.A % refspec.SYNC_COMMITTEE_SUBNET_COUNT
	var members []uint64
	for _, pk := range p.sc.Pubkeys[sub*p.subSize : (sub+1)*p.subSize] {
		members = append(members, p.indexOf[pk])
	}
	bits := subset(len(members), mc.C)
	con, ok := bv.contribution(p, mc.Slot, p.root, sub, members, bits)
	if !ok {
		return nil, "no key"
	}
	from := int(mc.B % uint64(len(members)))
	aggregator, proof, ok := bv.findSyncAggregator(p, mc.Slot, sub, members, from, true)
	if !ok {
		return nil, "no aggregator in the subcommittee"
	}
	hs, ok := bv.finishContribution(p, aggregator, proof, con, aggregator)
	if !ok {
		return nil, "no key"
	}
	honest := step{msg: hs, clockMs: clockMs}
	variant := honest
	pl := &plan{fork: p.st.Fork}
	n := uint64(len(p.st.Validators))
	switch mc.Corrupt {
	case "", "C-EARLY", "C-LATE", "C-PREVIOUS-SLOT":
	case "C-SUBCOMMITTEE-OOR":
		bad := refspec.SYNC_COMMITTEE_SUBNET_COUNT + mc.C%3
		c2, _ := bv.contribution(p, mc.Slot, p.root, bad, members, bits)
		// a proof over the declared index that passes the modulo test
		v, pf, ok := bv.findSyncAggregator(p, mc.Slot, bad, members, from, true)
		if !ok {
			return nil, "no aggregator"
		}
		s, _ := bv.finishContribution(p, v, pf, c2, v)
		variant.msg = s
	case "C-NO-BITS":
		c2 := con
		c2.Bits = make([]bool, len(bits))
		c2.Signature = refspec.G2PointAtInfinity
		s, _ := bv.finishContribution(p, aggregator, proof, c2, aggregator)
		variant.msg = s
	case "C-NOT-AGGREGATOR":
		v, pf, ok := bv.findSyncAggregator(p, mc.Slot, sub, members, from, false)
		if !ok {
			return nil, "every member is an aggregator (modulo 1)"
		}
		s, _ := bv.finishContribution(p, v, pf, con, v)
		variant.msg = s
	case "C-UNKNOWN-BLOCK":
		c2, _ := bv.contribution(p, mc.Slot, pr.root(), sub, members, bits)
		s, _ := bv.finishContribution(p, aggregator, proof, c2, aggregator)
		variant.msg = s
	case "C-NOT-IN-SUBCOMMITTEE":
		in := map[uint64]bool{}
		for _, m := range members {
			in[m] = true
		}
		var outsiders []uint64
		for k := uint64(0); k < n; k++ {
			v := (mc.C + k) % n
			if !in[v] {
				outsiders = append(outsiders, v)
			}
		}
		v, pf, ok := bv.findSyncAggregator(p, mc.Slot, sub, outsiders, 0, true)
		if !ok {
			return nil, "no outsider"
		}
		s, _ := bv.finishContribution(p, v, pf, con, v)
		variant.msg = s
	case "C-AGGREGATOR-OOR":
		s, _ := bv.finishContribution(p, n+mc.C%3, proof, con, aggregator)
		variant.msg = s
	case "C-DUP":
		bits2 := subset(len(members), mc.C+1)
		c2, _ := bv.contribution(p, mc.Slot, p.root, sub, members, bits2)
		s, _ := bv.finishContribution(p, aggregator, proof, c2, aggregator)
		variant.msg = s
	case "C-SELPROOF":
		var pf [96]byte
		found := false
		for k := uint64(1); k < 64 && !found; k++ {
			switch mc.C % 2 {
			case 0: // another validator's proof
				key, ok := bv.keyOf(p.st, (aggregator+k)%n)
				if !ok {
					continue
				}
				pf = refspec.Sign(key, sp.SyncSelectionProofRoot(p.st, mc.Slot, sub))
			default: // the aggregator's proof for another slot
				key, _ := bv.keyOf(p.st, aggregator)
				pf = refspec.Sign(key, sp.SyncSelectionProofRoot(p.st, mc.Slot+k, sub))
			}
			found = sp.IsSyncCommitteeAggregator(pf)
		}
		if !found {
			return nil, "no passing forged proof"
		}
		s, _ := bv.finishContribution(p, aggregator, pf, con, aggregator)
		variant.msg = s
	case "C-OUTER-SIG":
		s := *hs
		switch mc.C % 3 {
		case 0:
			o, ok := bv.finishContribution(p, aggregator, proof, con, (aggregator+1+mc.C%(n-1))%n)
			if !ok {
				return nil, "no key"
			}
			s = *o
		case 1:
			k, _ := bv.keyOf(p.st, aggregator)
			dom := sp.GetDomain(p.st, refspec.DOMAIN_SYNC_COMMITTEE, sp.EpochAtSlot(mc.Slot))
			s.Signature = refspec.Sign(k, sp.ComputeSigningRoot(sp.HTR("ContributionAndProof", s.Message.V()), dom))
		default:
			s.Signature = pr.sig()
		}
		variant.msg = &s
	case "C-AGG-SIG":
		c2 := con
		c2.Bits = append([]bool{}, bits...)
		switch mc.C % 3 {
		case 0:
			flip := -1
			for i, x := range c2.Bits {
				if !x {
					flip = i
					break
				}
			}
			if flip >= 0 {
				c2.Bits[flip] = true // a participant that did not sign
			} else {
				if len(bits) < 2 {
					return nil, "subcommittee of one"
				}
				sb := append([]bool{}, bits...)
				sb[0] = false
				x, _ := bv.contribution(p, mc.Slot, p.root, sub, members, sb)
				c2.Signature = x.Signature
			}
		case 1:
			x, _ := bv.contribution(p, mc.Slot, pr.root(), sub, members, bits)
			c2.Signature = x.Signature
		default:
			c2.Signature = pr.sig()
		}
		s, _ := bv.finishContribution(p, aggregator, proof, c2, aggregator)
		variant.msg = s
	default:
		return nil, "unhandled corruption"
	}
	if variant.msg == nil || variant.msg.(*refspec.SignedContributionAndProof) == nil {
		return nil, "could not build the variant"
	}
	pl.steps = seq(mc.Corrupt, honest, variant, bv.honestClockFor(mc, clockMs, mc.Slot))
	return pl, ""
}
