package c12

import (
	"encoding/json"
	"sync"

	"zrntverif/gossipbackend"
	"zrntverif/gossipmodel"
	"zrntverif/refspec"
	"zrntverif/sim"
)

type Root = refspec.Root

// bview: one built chain view (library backend view + reference model view + path helpers).
type bview struct {
	vc    *gossipbackend.ViewCase
	lib   *gossipbackend.View
	ref   *gossipmodel.View // what senders know (the whole tree): honest messages are produced from it
	rx    *gossipmodel.View // what the receiving node knows: the model judges on it (== ref unless the view is anchored)
	full  *gossipbackend.View
	sp    *refspec.Spec
	chain *sim.Chain
	recs  []gossipbackend.Record
	H     uint64 // trunk length in slots
	err   error
}

var (
	viewMu    sync.Mutex
	viewCache = map[string]*bview{}
	viewOrder []string
)

// getView builds (or returns the memoised) view of a recipe. The cache is keyed by the recipe's
// JSON — an immutable input — and only saves rebuilding; a view is never mutated by a case.
func getView(vc *gossipbackend.ViewCase) *bview {
	kb, _ := json.Marshal(vc)
	k := string(kb)
	viewMu.Lock()
	if v, ok := viewCache[k]; ok {
		viewMu.Unlock()
		return v
	}
	viewMu.Unlock()
	bv := &bview{vc: vc, H: uint64(len(vc.Trunk))}
	lib, err := gossipbackend.Build(vc)
	if err != nil {
		bv.err = err
	} else {
		bv.lib = lib
		bv.sp = lib.Lock.Sp
		bv.chain = lib.Lock.Chain
		bv.recs = lib.Records
		recs := make([]gossipmodel.Rec, len(lib.Records))
		for i, r := range lib.Records {
			recs[i] = gossipmodel.Rec{Slot: r.Slot, IsBlock: r.IsBlock, BlockRoot: r.BlockRoot, ParentRoot: r.ParentRoot, State: r.Ref, Head: r.Head}
		}
		bv.ref = gossipmodel.NewView(bv.sp, recs)
		bv.rx, bv.full = bv.ref, lib
		if vc.Anchored && bv.ref.Fin.Epoch > 0 {
			alib, keep := lib.Anchored()
			var kept []gossipmodel.Rec
			for _, rc := range recs {
				if keep[[32]byte(rc.BlockRoot)] {
					kept = append(kept, rc)
				}
			}
			if len(kept) > 0 {
				rx := gossipmodel.NewView(bv.sp, kept)
				rx.GenesisRoot = bv.ref.GenesisRoot
				rx.Fin = bv.ref.Fin
				bv.lib, bv.rx = alib, rx
			}
		}
	}
	viewMu.Lock()
	viewCache[k] = bv
	viewOrder = append(viewOrder, k)
	if len(viewOrder) > 3 {
		delete(viewCache, viewOrder[0])
		viewOrder = viewOrder[1:]
	}
	viewMu.Unlock()
	return bv
}

// forkSlotOf: the trunk slot a branch grows from (trunk: H).
func (bv *bview) forkSlotOf(branch int) uint64 {
	if branch <= 0 || branch > len(bv.vc.Branches) {
		return bv.H
	}
	return bv.vc.Branches[branch-1].ForkSlot
}

// tipSlot: the last processed slot of a branch.
func (bv *bview) tipSlot(branch int) uint64 {
	if branch <= 0 || branch > len(bv.vc.Branches) {
		return bv.H
	}
	b := &bv.vc.Branches[branch-1]
	return b.ForkSlot + uint64(len(b.Slots))
}

func (bv *bview) normBranch(branch int) int {
	if branch <= 0 || branch > len(bv.vc.Branches) {
		return 0
	}
	return branch
}

// onPath: is the record part of the sender's chain (trunk up to the fork slot, then the branch)?
func (bv *bview) onPath(r *gossipbackend.Record, branch int) bool {
	branch = bv.normBranch(branch)
	if r.Branch == 0 {
		return branch == 0 || r.Slot <= bv.forkSlotOf(branch)
	}
	return r.Branch == branch
}

// headAt: the latest block record on the path with slot <= slot.
func (bv *bview) headAt(branch int, slot uint64) *gossipbackend.Record {
	var best *gossipbackend.Record
	for i := range bv.recs {
		r := &bv.recs[i]
		if r.IsBlock && r.Slot <= slot && bv.onPath(r, branch) && (best == nil || r.Slot >= best.Slot) {
			best = r
		}
	}
	return best
}

// entryAt: the registered entry of the path at exactly `slot` (post-block if the slot has a block).
func (bv *bview) entryAt(branch int, slot uint64) *gossipbackend.Record {
	var best *gossipbackend.Record
	for i := range bv.recs {
		r := &bv.recs[i]
		if r.Slot == slot && bv.onPath(r, branch) && (best == nil || r.IsBlock) {
			best = r
		}
	}
	return best
}

// stale: the branch tip does not descend from the finalized block.
func (bv *bview) stale(branch int) bool {
	tip := bv.headAt(branch, bv.tipSlot(branch))
	if tip == nil {
		return false
	}
	a, ok := bv.ref.GetAncestor(tip.BlockRoot, bv.sp.StartSlotAtEpoch(bv.ref.Fin.Epoch))
	return !ok || a != bv.ref.Fin.Root
}

// branchHasOwnBlock: the branch contributed at least one block of its own.
func (bv *bview) branchHasOwnBlock(branch int) bool {
	for i := range bv.recs {
		if bv.recs[i].IsBlock && bv.recs[i].Branch == branch {
			return true
		}
	}
	return false
}

func (bv *bview) keyOf(st *refspec.State, vi uint64) (uint64, bool) {
	if vi >= uint64(len(st.Validators)) {
		return 0, false
	}
	k, ok := bv.chain.KeyOf[st.Validators[vi].Pubkey]
	return k, ok
}

func (bv *bview) forkAtSlot(slot uint64) int {
	e := bv.sp.EpochAtSlot(slot)
	f := refspec.Phase0
	for k := refspec.Altair; k <= refspec.Deneb; k++ {
		if e >= bv.sp.P.ForkEpochs[k] {
			f = k
		}
	}
	return f
}

func (bv *bview) slotMs() int64 { return int64(bv.sp.P.SECONDS_PER_SLOT) * 1000 }
