package c12

import (
	"context"
	"fmt"
	"sort"
	"time"

	"github.com/protolambda/zrnt/eth2/beacon/common"
	"github.com/protolambda/zrnt/eth2/gossipval"

	"zrntverif/gossipbackend"
	"zrntverif/gossipmodel"
	"zrntverif/refspec"
	"zrntverif/report"
)

// Case: chain recipe + clock offset (ms since genesis) + message recipe. run(case) is pure.
type Case struct {
	View    gossipbackend.ViewCase `json:"view"`
	ClockMs int64                  `json:"clock_ms"`
	Msg     MsgCase                `json:"msg"`
}

type outcome struct {
	skip       string // non-empty: no verdict (view discarded / recipe not realisable here)
	fork       int
	target     string
	first      string // first violated condition of the judged message ("" = all hold)
	class      gossipmodel.Class
	got        string
	nontrivial bool
	key        string
	steps      int
	tag        string
	straddle   bool // an honest attestation of a slot whose committees span subnet 63 -> 0 (count per slot does not divide 64)
}

type libResult struct {
	code     gossipval.GossipValidatorCode
	err      error
	panicked any
	blocked  bool
	decode   error
}

func (bv *bview) callLib(be *gossipbackend.Backend, st *step) (res libResult) {
	ctx := context.Background()
	var fn func() gossipval.GossipValidatorResult
	switch m := st.msg.(type) {
	case *refspec.SignedBlock:
		env, err := bv.lib.Lock.Envelope(m)
		if err != nil {
			res.decode = err
			return
		}
		fn = func() gossipval.GossipValidatorResult { return gossipval.ValidateBeaconBlock(ctx, env, be) }
	case *refspec.Attestation:
		a, err := bv.libAttestation(m)
		if err != nil {
			res.decode = err
			return
		}
		fn = func() gossipval.GossipValidatorResult {
			_, r := gossipval.ValidateAttestation(ctx, st.subnet, a, be)
			return r
		}
	case *refspec.SignedAggregateAndProof:
		a, err := bv.libAggregate(m)
		if err != nil {
			res.decode = err
			return
		}
		fn = func() gossipval.GossipValidatorResult {
			_, r := gossipval.ValidateAggregateAndProof(ctx, a, be)
			return r
		}
	case *refspec.SignedVoluntaryExit:
		x, err := bv.libExit(m)
		if err != nil {
			res.decode = err
			return
		}
		fn = func() gossipval.GossipValidatorResult { return gossipval.ValidateVoluntaryExit(ctx, x, be) }
	case *refspec.ProposerSlashing:
		x, err := bv.libProposerSlashing(m)
		if err != nil {
			res.decode = err
			return
		}
		fn = func() gossipval.GossipValidatorResult { return gossipval.ValidateProposerSlashing(ctx, x, be) }
	case *refspec.AttesterSlashing:
		x, err := bv.libAttesterSlashing(m)
		if err != nil {
			res.decode = err
			return
		}
		fn = func() gossipval.GossipValidatorResult { return gossipval.ValidateAttesterSlashing(ctx, x, be) }
	case *refspec.SyncCommitteeMessage:
		x, err := bv.libSyncMessage(m)
		if err != nil {
			res.decode = err
			return
		}
		fn = func() gossipval.GossipValidatorResult {
			_, r := gossipval.ValidateSyncCommitteeSubnet(ctx, st.subnet, x, be)
			return r
		}
	case *refspec.SignedContributionAndProof:
		x, err := bv.libContribution(m)
		if err != nil {
			res.decode = err
			return
		}
		fn = func() gossipval.GossipValidatorResult {
			_, r := gossipval.ValidateSyncContribAndProof(ctx, x, be)
			return r
		}
	default:
		res.decode = fmt.Errorf("unknown message type %T", st.msg)
		return
	}
	done := report.WithTimeout(30*time.Second, func() {
		defer func() {
			if p := recover(); p != nil {
				res.panicked = p
			}
		}()
		r := fn()
		res.code, res.err = r.Result, r.Err
	})
	if !done {
		res = libResult{blocked: true}
	}
	return
}

func (bv *bview) modelVerdict(mctx *gossipmodel.Ctx, st *step) *gossipmodel.Verdict {
	switch m := st.msg.(type) {
	case *refspec.SignedBlock:
		return mctx.Block(m)
	case *refspec.Attestation:
		return mctx.Attestation(st.subnet, m)
	case *refspec.SignedAggregateAndProof:
		return mctx.Aggregate(m)
	case *refspec.SignedVoluntaryExit:
		return mctx.VoluntaryExit(m)
	case *refspec.ProposerSlashing:
		return mctx.ProposerSlashing(m)
	case *refspec.AttesterSlashing:
		return mctx.AttesterSlashing(m)
	case *refspec.SyncCommitteeMessage:
		return mctx.SyncMessage(st.subnet, m)
	case *refspec.SignedContributionAndProof:
		return mctx.Contribution(m)
	}
	return nil
}

// expectedMarks: the cache entries an ACCEPT of this message must create.
func (bv *bview) expectedMarks(mctx *gossipmodel.Ctx, st *step, v *gossipmodel.Verdict) []string {
	k := func(fn string, root string, args ...uint64) string {
		return fn + "|" + gossipbackend.Call{Args: args, Root: root}.Key()
	}
	switch m := st.msg.(type) {
	case *refspec.SignedBlock:
		return []string{k("Block", "", m.Message.Slot, m.Message.ProposerIndex)}
	case *refspec.Attestation:
		return []string{k("Attestation", "", m.Data.Target.Epoch, v.Voter)}
	case *refspec.SignedAggregateAndProof:
		return []string{k("Aggregate", common.Root(mctx.AggregateRoot(&m.Message.Aggregate)).String()),
			k("Aggregator", "", m.Message.Aggregate.Data.Target.Epoch, m.Message.AggregatorIndex)}
	case *refspec.SignedVoluntaryExit:
		return []string{k("Exit", "", m.Message.ValidatorIndex)}
	case *refspec.ProposerSlashing:
		return []string{k("ProposerSlashing", "", m.H1.Message.ProposerIndex)}
	case *refspec.SyncCommitteeMessage:
		return []string{k("SyncCommMsg", "", m.ValidatorIndex, m.Slot, st.subnet)}
	case *refspec.SignedContributionAndProof:
		return []string{k("Contribution", "", m.Message.AggregatorIndex, m.Message.Contribution.Slot, m.Message.Contribution.SubcommitteeIndex)}
	}
	return nil
}

func trunc(s string, n int) string {
	if len(s) > n {
		return s[:n] + "…"
	}
	return s
}

func describe(st *step) string {
	switch m := st.msg.(type) {
	case *refspec.SignedBlock:
		return fmt.Sprintf("block slot=%d proposer=%d parent=%x", m.Message.Slot, m.Message.ProposerIndex, m.Message.ParentRoot[:4])
	case *refspec.Attestation:
		n, _ := countTrue(m.Bits)
		return fmt.Sprintf("attestation subnet=%d slot=%d index=%d bits=%d/%d head=%x target=(%d,%x)", st.subnet, m.Data.Slot, m.Data.Index, n, len(m.Bits), m.Data.BeaconBlockRoot[:4], m.Data.Target.Epoch, m.Data.Target.Root[:4])
	case *refspec.SignedAggregateAndProof:
		d := &m.Message.Aggregate.Data
		n, _ := countTrue(m.Message.Aggregate.Bits)
		return fmt.Sprintf("aggregate aggregator=%d slot=%d index=%d bits=%d/%d head=%x target=(%d,%x)", m.Message.AggregatorIndex, d.Slot, d.Index, n, len(m.Message.Aggregate.Bits), d.BeaconBlockRoot[:4], d.Target.Epoch, d.Target.Root[:4])
	case *refspec.SignedVoluntaryExit:
		return fmt.Sprintf("exit validator=%d epoch=%d", m.Message.ValidatorIndex, m.Message.Epoch)
	case *refspec.ProposerSlashing:
		return fmt.Sprintf("proposer slashing proposer=%d/%d slots=%d/%d", m.H1.Message.ProposerIndex, m.H2.Message.ProposerIndex, m.H1.Message.Slot, m.H2.Message.Slot)
	case *refspec.AttesterSlashing:
		return fmt.Sprintf("attester slashing indices=%v/%v targets=%d/%d", m.A1.Indices, m.A2.Indices, m.A1.Data.Target.Epoch, m.A2.Data.Target.Epoch)
	case *refspec.SyncCommitteeMessage:
		return fmt.Sprintf("sync message subnet=%d slot=%d validator=%d root=%x", st.subnet, m.Slot, m.ValidatorIndex, m.BeaconBlockRoot[:4])
	case *refspec.SignedContributionAndProof:
		k := &m.Message.Contribution
		n, _ := countTrue(k.Bits)
		return fmt.Sprintf("contribution aggregator=%d slot=%d subcommittee=%d bits=%d/%d root=%x", m.Message.AggregatorIndex, k.Slot, k.SubcommitteeIndex, n, len(k.Bits), k.BeaconBlockRoot[:4])
	}
	return "?"
}

// run executes one case against the real validators and judges every message of its sequence.
func run(c *Case) (fail *report.Failure, out *outcome) {
	out = &outcome{}
	defer func() {
		if p := recover(); p != nil {
			fail = report.Failf("harness", "harness panicked: %v", p)
		}
	}()
	bv := getView(&c.View)
	if bv.err != nil {
		if bv.err == gossipbackend.ErrDiscard {
			out.skip = "discarded_other_property"
		} else {
			out.skip = "generator_rejects"
		}
		return nil, out
	}
	pl, why := bv.produce(&c.Msg, c.ClockMs)
	if pl == nil {
		out.skip = "inapplicable:" + c.Msg.Topic + ":" + c.Msg.Corrupt
		_ = why
		return nil, out
	}
	be := gossipbackend.NewBackend(bv.lib, c.ClockMs)
	mctx := gossipmodel.NewCtx(bv.rx, c.ClockMs)
	out.fork, out.target, out.steps, out.tag, out.straddle = pl.fork, pl.target, len(pl.steps), pl.tag, pl.straddle
	topic := c.Msg.Topic
	id := c.Msg.Corrupt
	if id == "" {
		id = "honest"
	}
	for i := range pl.steps {
		st := &pl.steps[i]
		be.ClockMs, mctx.ClockMs = st.clockMs, st.clockMs
		for _, r := range st.bad {
			be.BadBlocks[common.Root(r)] = true
			mctx.Bad[r] = true
		}
		v := bv.modelVerdict(mctx, st)
		from := len(be.Calls)
		res := bv.callLib(be, st)
		where := fmt.Sprintf("%s message %d/%d (%s) of recipe %s at clock %d ms: %s; model: %s", st.role, i+1, len(pl.steps), describe(st), id, st.clockMs, "", v)
		if res.decode != nil {
			out.skip = "inapplicable:undecodable"
			return nil, out
		}
		first := v.First()
		if first == "" {
			first = topic + "/all-hold"
		}
		if res.blocked {
			return report.Failf(first+"/blocked", "%s: the validator did not return", where), out
		}
		if res.panicked != nil {
			return report.Failf(first+"/panic", "%s: the validator panicked: %v", where, res.panicked), out
		}
		got := res.code
		judged := (st.role == "corrupt" || st.role == "duplicate") || (len(pl.steps) == 1)
		if judged {
			out.first, out.class, out.got = v.First(), v.Class, got.String()
		}
		detail := fmt.Sprintf("%s — validator says %s (%v)", where, got, res.err)
		switch v.Class {
		case gossipmodel.MustAccept:
			if got != gossipval.ACCEPT {
				what := "honest"
				if st.role == "honest-after-refused" {
					what = "honest-after:" + id
				} else if st.role != "honest" && st.role != "honest-other-subnet" {
					what = "valid:" + id
				}
				return report.Failf(topic+"/"+what+"/refused", "every condition of the rule list holds, the message must be ACCEPTed: %s", detail), out
			}
		case gossipmodel.MustIgnore:
			if got == gossipval.ACCEPT {
				return report.Failf(first+"/accepted", "a violated condition, the message must not be ACCEPTed (IGNORE expected): %s", detail), out
			}
			if got == gossipval.REJECT {
				return report.Failf(first+"/rejected-timing-condition", "only conditions an honest sender can fail by timing are violated, the verdict must be IGNORE: %s", detail), out
			}
		case gossipmodel.NotAccept:
			if got == gossipval.ACCEPT {
				return report.Failf(first+"/accepted", "a [REJECT] condition is violated, the message must not be ACCEPTed: %s", detail), out
			}
		case gossipmodel.IgnoreOrAccept:
			if got == gossipval.REJECT {
				return report.Failf(first+"/rejected", "no rule is violated (the referenced state is merely unknown): %s", detail), out
			}
		}
		marks := be.Marks(from)
		if got != gossipval.ACCEPT && len(marks) > 0 {
			return report.Failf(first+"/marked-without-accept", "the seen-cache was marked (%v) although the verdict is %s: %s", marks, got, detail), out
		}
		if got == gossipval.ACCEPT {
			if len(marks) == 0 {
				return report.Failf(topic+"/accept-without-mark", "ACCEPT without marking the seen-cache: %s", detail), out
			}
			var gotKeys []string
			for _, m := range marks {
				gotKeys = append(gotKeys, m.Fn+"|"+m.Key())
			}
			sort.Strings(gotKeys)
			if as, ok := st.msg.(*refspec.AttesterSlashing); ok {
				_ = as
				in := map[uint64]bool{}
				for _, x := range v.Intersection {
					in[x] = true
				}
				for _, m := range marks {
					for _, x := range m.Args {
						if !in[x] {
							return report.Failf(topic+"/wrong-mark", "marked index %d is not in the intersection %v: %s", x, v.Intersection, detail), out
						}
					}
				}
			} else if v.Class == gossipmodel.MustAccept {
				want := bv.expectedMarks(mctx, st, v)
				sort.Strings(want)
				if fmt.Sprint(want) != fmt.Sprint(gotKeys) {
					return report.Failf(topic+"/wrong-mark", "ACCEPT marked %v, the rule's cache key is %v: %s", gotKeys, want, detail), out
				}
			}
		}
		if v.Class == gossipmodel.MustAccept {
			mctx.Commit(v)
		}
	}
	if sr, _ := bv.lib.HeadEntry().StateRoot(); bv.lib.HeadStateRoot() != sr {
		return report.Failf(topic+"/view-mutated", "validating %s changed the head state of the chain view", id), out
	}
	// classification
	forks := 1
	for b := 1; b <= len(bv.vc.Branches); b++ {
		if bv.branchHasOwnBlock(b) {
			forks++
		}
	}
	cond := "all-hold"
	kind := "honest"
	if c.Msg.Corrupt != "" {
		kind = "corrupt"
		cond = out.target
		out.nontrivial = out.first == out.target
	} else {
		out.nontrivial = (forks >= 2 || bv.ref.Fin.Epoch > 0) && out.class == gossipmodel.MustAccept
	}
	out.key = fmt.Sprintf("%s|%s|%s|%s", topic, refspec.ForkNames[out.fork], cond, kind)
	return nil, out
}
