// C10 — justification/finalization updates terminate, prune exactly, and keep the head.
//
// Oracle: zrntverif/fcmodel.PlanUpdate/CommitUpdate — refusal rules, no-op rule and the prune set
// (every node outside the transition subtree of (finalized.root, start_slot(finalized.epoch)),
// canonical iff it is a transition ancestor of that node), computed by direct walks. Histories from
// zrntverif/fcsim (C09's generator with more UpdateJustified: pairs ahead/equal/behind/unknown/
// conflicting/improper, block-node and gap-slot anchors, pinned or not; scripted prune sink: accepts
// all, fails at the k-th reported node, or nil). Every call runs under a 10 s watchdog (a blocked
// call is a violation, confirmed by a second run) with panic recovery. After each UpdateJustified:
// error/nil as the model says, sink reports == model prune set (each once, right flag, nothing after
// a sink error, exactly the reported prefix disappears), Justified()/Finalized()/Pin(), the node
// set (Indices()) == the model's, then a sweep of every query kind over retained, pruned and
// never-inserted roots; later blocks, votes and heads are compared as in C09.
//
// Sensitivity (tools/trymut.py, quick tier, each CAUGHT; they target the repaired OnPrune, so
// DESIGN.md's "indexOffset++ dropped" became "indices not re-based"):
//
//	proto_array.go  OnPrune: `delete(pr.blockSlots, p.node.Ref.Root)` dropped               (pruned roots stay known)
//	proto_array.go  OnPrune: `delete(pr.indices, p.node.Ref)` dropped                        (pruned nodes stay indexed)
//	proto_array.go  OnPrune: `prunedNode{canonical, ...}` -> `prunedNode{!canonical, ...}`   (flag inverted)
//	proto_array.go  OnPrune: `newIndices[i] = NodeIndex(remaining)` -> `NodeIndex(i)`        (indices not re-based)
//	forkchoice.go   UpdateJustified: `fc.pin = nil` dropped                                  (pin survives finalization)
//	forkchoice.go   updateJustified: `|| fc.finalized.Epoch > finalized.Epoch` dropped       (older finalized epoch accepted)
//	forkchoice.go   UpdateJustified: no-op test `&&` -> `||`                                 (newer pair ignored)
package c10

import (
	"testing"

	"zrntverif/fcsim"
)

func TestCheck(t *testing.T) {
	fcsim.RunCheck(t, fcsim.Spec{
		Prop: "C10",
		Rule: "C09 histories with ~17% UpdateJustified ops (pair taken from a tip's own epochs, any proper pair on a tip's chain, equal/behind, unknown roots, arbitrary known roots, justified epoch below finalized, finalized == justified; trigger in/outside/unknown; balances changed or not; balances callback failing), sinks ok/nil/fail-at-k (k in 1..8). non-trivial = an update that advances finalization, removes >=2 nodes and is followed by >=3 more ops; distinct key = (anchor kind: block node/gap-slot node/missing, prune-set size bucket, non-canonical count bucket, sink behaviour incl. failure hit, pinned?)",
		Assume: []string{
			"fcmodel (DESIGN.md Appendix A): refusal and no-op rules are those written in forkchoice.go UpdateJustified/updateJustified with the argument order of the exported signature; the justified root is checked against the CURRENT finalized subtree",
			"canonical flag of a pruned node = it is a transition ancestor of the new finalized node (the only pruned nodes a chain through the finalized node can contain)",
			"if the node (finalized.root, start_slot(finalized.epoch)) does not exist nothing is pruned (OnPrune's own comment); real callers always pass an existing checkpoint node",
			"after a sink failure the checkpoints stay updated and the unreported nodes stay in the tree until a later finalization reports them (the package documents 'only prune what we successfully sent')",
			"watchdog 10 s per call, believed only when it repeats",
		},
		Mandatory: []string{"vote:>=65536-changes-between-two-head-computations", "config:slots-per-epoch-not-a-power-of-two", "prune:>=2-nodes-then->=3-ops", "prune:sink-failed-partway", "prune:reports-leftovers-of-failed-prune", "prune:nil-sink", "prune:anchor-gap-slot-node", "prune:anchor-block-node", "prune:anchor-missing",
			"prune:while-pinned", "prune:unpinned", "prune:non-canonical-nodes", "head:after-prune", "head:inside-finalized-subtree-after-prune", "upd:noop", "upd:applied-justified-only", "upd:refused:finalized-unknown", "upd:refused:justified-unknown",
			"upd:refused:justified-before-finalized", "upd:refused:trigger-unknown", "upd:refused:trigger-outside-pin", "upd:refused:finalized-conflicting"},
		SampleTags: []string{"prune:sink-failed-partway", "prune:anchor-gap-slot-node", "prune:anchor-block-node", "prune:nil-sink", "upd:refused:trigger-outside-pin", "prune:reports-leftovers-of-failed-prune"},
		Quick:      10000, Thorough: 200000,
		Sweep: true,
		Tour:  fcsim.TourC10(),
	})
}
