package c10

import (
	"testing"

	"zrntverif/fcsim"
)

func TestCheck(t *testing.T) {
	fcsim.RunCheck(t, fcsim.Spec{Prop: "C10", Rule: "tbd", Quick: 300, Thorough: 3000, Sweep: "10" != "09"})
}
