// C20 (part): the attestation-bits helpers the attestation pool relies on, judged directly against a
// []bool model — phase0.AttestationBits (anchored: Covers / SingleParticipant) and its electra copy, plus
// the bit-vector helpers of the sync pool's aggregates (altair.SyncCommitteeBits / SyncCommitteeSubnetBits,
// electra.CommitteeBits). Found by tools/libcov.py: the pool only ever calls SingleParticipant on one-bit
// lists and never calls FilterNonParticipants, so the error branches and half of the helpers never ran.
//
// Semantics taken from the doc comments of eth2/beacon/phase0/attestation_bits.go:
//
//	Or                 "Sets the bits to true that are true in other. (in place)"; operands of equal bit length
//	                   (the only use the library makes of it; with different lengths the delimiter bit of one
//	                   operand lands inside the other, which no caller may rely on — not generated)
//	FilterParticipants / FilterNonParticipants  in-place filter, "panics if committee size does not match":
//	                   a mismatch is only offered to SingleParticipant and Covers, which return errors
//	Covers             "true if other only has bits set to 1 that this bitfield also has set to 1", error on a length mismatch
//	SingleParticipant  the one participant, an error for none / several / a committee of another size
//	Copy               an independent copy
//
// Sensitivity (tools/trymut.py, quick tier):
//
//	B1 SingleParticipant returns the LAST participant when two are set       bits/SingleParticipant/wrong
//	B2 Covers without the length comparison                                  bits/Covers/missing-error
//	B3 FilterNonParticipants keeps participants                              bits/FilterNonParticipants/wrong
//	B4 Or loops to len(cb)-1                                                 bits/Or/wrong
//	B5 electra OnesCount counts the delimiter                                bits/OnesCount/wrong
package c20

import (
	"fmt"

	"github.com/protolambda/zrnt/eth2/beacon/altair"
	"github.com/protolambda/zrnt/eth2/beacon/common"
	"github.com/protolambda/zrnt/eth2/beacon/electra"
	"github.com/protolambda/zrnt/eth2/beacon/phase0"
	"pgregory.net/rapid"

	"zrntverif/report"
)

// BitsCase: A and B are strings of '0'/'1' (bit i = character i). Kind selects the library type.
type BitsCase struct {
	Kind    string `json:"kind"` // phase0 | electra | syncbits | subnetbits | committeebits
	A       string `json:"a"`
	B       string `json:"b"`
	CommLen int    `json:"comm_len"` // committee length offered to SingleParticipant (may differ from len(A))
	CommOff uint64 `json:"comm_off"` // committee[i] = CommOff + 3*i
	SetAt   int    `json:"set_at"`
	SetVal  bool   `json:"set_val"`
}

func bitsOf(s string) []bool {
	out := make([]bool, len(s))
	for i := range s {
		out[i] = s[i] == '1'
	}
	return out
}

// bitlist: the SSZ bitlist bytes of the given bits (delimiter bit after the last one).
func bitlist(bits []bool) []byte {
	out := make([]byte, len(bits)/8+1)
	for i, b := range bits {
		if b {
			out[i/8] |= 1 << (uint(i) % 8)
		}
	}
	out[len(bits)/8] |= 1 << (uint(len(bits)) % 8)
	return out
}

func bitvector(bits []bool) []byte {
	out := make([]byte, (len(bits)+7)/8)
	for i, b := range bits {
		if b {
			out[i/8] |= 1 << (uint(i) % 8)
		}
	}
	return out
}

// bitsAPI abstracts the two identical bitlist helper sets.
type bitsAPI struct {
	raw               []byte
	bitLen, onesCount func() uint64
	getBit            func(uint64) bool
	setBit            func(uint64, bool)
	or                func([]byte)
	covers            func([]byte) (bool, error)
	filterP, filterN  func([]common.ValidatorIndex) []common.ValidatorIndex
	single            func([]common.ValidatorIndex) (common.ValidatorIndex, error)
	copyRaw           func() []byte
}

func mkAPI(kind string, raw []byte) *bitsAPI {
	if kind == "electra" {
		b := electra.AttestationBits(raw)
		return &bitsAPI{raw: raw, bitLen: b.BitLen, onesCount: b.OnesCount, getBit: b.GetBit, setBit: b.SetBit,
			or:      func(o []byte) { b.Or(electra.AttestationBits(o)) },
			covers:  func(o []byte) (bool, error) { return b.Covers(electra.AttestationBits(o)) },
			filterP: b.FilterParticipants, filterN: b.FilterNonParticipants, single: b.SingleParticipant,
			copyRaw: func() []byte { return b.Copy() }}
	}
	b := phase0.AttestationBits(raw)
	return &bitsAPI{raw: raw, bitLen: b.BitLen, onesCount: b.OnesCount, getBit: b.GetBit, setBit: b.SetBit,
		or:      func(o []byte) { b.Or(phase0.AttestationBits(o)) },
		covers:  func(o []byte) (bool, error) { return b.Covers(phase0.AttestationBits(o)) },
		filterP: b.FilterParticipants, filterN: b.FilterNonParticipants, single: b.SingleParticipant,
		copyRaw: func() []byte { return b.Copy() }}
}

func committeeOf(n int, off uint64) []common.ValidatorIndex {
	out := make([]common.ValidatorIndex, n)
	for i := range out {
		out[i] = common.ValidatorIndex(off + 3*uint64(i))
	}
	return out
}

func sameIdx(a, b []common.ValidatorIndex) bool {
	if len(a) != len(b) {
		return false
	}
	for i := range a {
		if a[i] != b[i] {
			return false
		}
	}
	return true
}

func runBits(c *BitsCase, ft *feat) *report.Failure {
	a, b := bitsOf(c.A), bitsOf(c.B)
	n := len(a)
	fail := func(what, format string, args ...any) *report.Failure {
		return report.Failf("bits/"+what, "%s %s: "+format, append([]any{c.Kind, c.A}, args...)...)
	}
	switch c.Kind {
	case "syncbits", "subnetbits", "committeebits":
		return runBitVector(c, a, ft)
	}
	var f *report.Failure
	call := func(name string, fn func()) bool {
		if g := guard(name, fn); g != nil {
			f = fail(name+"/panic", "%s", g.Msg)
			return false
		}
		return true
	}
	ones := 0
	for _, x := range a {
		if x {
			ones++
		}
	}
	api := mkAPI(c.Kind, bitlist(a))
	// --- readers
	var gotLen, gotOnes uint64
	if !call("BitLen", func() { gotLen = api.bitLen() }) {
		return f
	}
	if gotLen != uint64(n) {
		return fail("BitLen/wrong", "BitLen = %d, want %d", gotLen, n)
	}
	if !call("OnesCount", func() { gotOnes = api.onesCount() }) {
		return f
	}
	if gotOnes != uint64(ones) {
		return fail("OnesCount/wrong", "OnesCount = %d, want %d", gotOnes, ones)
	}
	for i := 0; i < n; i++ {
		var g bool
		if !call("GetBit", func() { g = api.getBit(uint64(i)) }) {
			return f
		}
		if g != a[i] {
			return fail("GetBit/wrong", "GetBit(%d) = %v", i, g)
		}
	}
	// --- Copy is equal and independent
	var cp []byte
	if !call("Copy", func() { cp = api.copyRaw() }) {
		return f
	}
	if string(cp) != string(api.raw) {
		return fail("Copy/wrong", "Copy = %x, want %x", cp, api.raw)
	}
	if n > 0 {
		capi := mkAPI(c.Kind, cp)
		at := uint64(c.SetAt % n)
		if !call("SetBit", func() { capi.setBit(at, c.SetVal) }) {
			return f
		}
		if string(api.raw) != string(bitlist(a)) {
			return fail("Copy/aliases-original", "SetBit(%d,%v) on the copy changed the original to %x", at, c.SetVal, api.raw)
		}
		want := append([]bool(nil), a...)
		want[at] = c.SetVal
		if string(cp) != string(bitlist(want)) {
			return fail("SetBit/wrong", "after SetBit(%d,%v): %x, want %x", at, c.SetVal, cp, bitlist(want))
		}
		ft.add("setbit")
	}
	// --- filters (committee of the right size: the documented precondition)
	comm := committeeOf(n, c.CommOff)
	var wantP, wantN []common.ValidatorIndex
	for i := 0; i < n; i++ {
		if a[i] {
			wantP = append(wantP, comm[i])
		} else {
			wantN = append(wantN, comm[i])
		}
	}
	var gotP, gotN []common.ValidatorIndex
	if !call("FilterParticipants", func() { gotP = api.filterP(committeeOf(n, c.CommOff)) }) {
		return f
	}
	if !sameIdx(gotP, wantP) {
		return fail("FilterParticipants/wrong", "= %v, want %v", gotP, wantP)
	}
	if !call("FilterNonParticipants", func() { gotN = api.filterN(committeeOf(n, c.CommOff)) }) {
		return f
	}
	if !sameIdx(gotN, wantN) {
		return fail("FilterNonParticipants/wrong", "= %v, want %v", gotN, wantN)
	}
	if string(api.raw) != string(bitlist(a)) {
		return fail("Filter/changed-bits", "the filters changed the bitfield to %x", api.raw)
	}
	// --- SingleParticipant: committee of CommLen members
	scomm := committeeOf(c.CommLen, c.CommOff)
	var sv common.ValidatorIndex
	var serr error
	if !call("SingleParticipant", func() { sv, serr = api.single(scomm) }) {
		return f
	}
	switch {
	case c.CommLen != n:
		ft.add("single:committee-mismatch")
		if serr == nil {
			return fail("SingleParticipant/missing-error", "committee of %d for %d bits: returned %d without an error", c.CommLen, n, sv)
		}
	case ones == 1:
		ft.add("single:one")
		if serr != nil {
			return fail("SingleParticipant/unexpected-error", "one participant: %v", serr)
		}
		if sv != wantP[0] {
			return fail("SingleParticipant/wrong", "= %d, want %d", sv, wantP[0])
		}
	default:
		if ones == 0 {
			ft.add("single:none")
		} else {
			ft.add("single:several")
		}
		if serr == nil {
			return fail("SingleParticipant/missing-error", "%d participants: returned %d without an error", ones, sv)
		}
	}
	// --- Covers / Or against B
	braw := bitlist(b)
	var cov bool
	var cerr error
	if !call("Covers", func() { cov, cerr = api.covers(braw) }) {
		return f
	}
	if len(b) != n {
		ft.add("covers:length-mismatch")
		if cerr == nil {
			return fail("Covers/missing-error", "lengths %d and %d: (%v, nil)", n, len(b), cov)
		}
		return nil
	}
	if cerr != nil {
		return fail("Covers/unexpected-error", "equal lengths: %v", cerr)
	}
	want := true
	strict := false
	for i := range a {
		if b[i] && !a[i] {
			want = false
		}
		if a[i] && !b[i] {
			strict = true
		}
	}
	if cov != want {
		return fail("Covers/wrong", "Covers(%s) = %v, want %v", c.B, cov, want)
	}
	if want && strict {
		ft.add("covers:strict-superset")
	} else if !want {
		ft.add("covers:not-covered")
	}
	if !call("Or", func() { api.or(braw) }) {
		return f
	}
	u := make([]bool, n)
	for i := range u {
		u[i] = a[i] || b[i]
	}
	if string(api.raw) != string(bitlist(u)) {
		return fail("Or/wrong", "Or(%s) = %x, want %x", c.B, api.raw, bitlist(u))
	}
	if string(braw) != string(bitlist(b)) {
		return fail("Or/changed-argument", "Or changed its argument to %x", braw)
	}
	ft.add("or")
	return nil
}

// runBitVector: GetBit / SetBit / OnesCount of the fixed-size bit vectors (length = len(A), whatever the preset says:
// the helpers take no spec and index the bytes they are given).
func runBitVector(c *BitsCase, a []bool, ft *feat) *report.Failure {
	n := len(a)
	raw := bitvector(a)
	fail := func(what, format string, args ...any) *report.Failure {
		return report.Failf("bits/"+what, "%s %s: "+format, append([]any{c.Kind, c.A}, args...)...)
	}
	var get func(uint64) bool
	var set func(uint64, bool)
	var ones func() uint64
	switch c.Kind {
	case "syncbits":
		b := altair.SyncCommitteeBits(raw)
		get, set = b.GetBit, b.SetBit
	case "subnetbits":
		b := altair.SyncCommitteeSubnetBits(raw)
		get, set, ones = b.GetBit, b.SetBit, b.OnesCount
	default:
		b := electra.CommitteeBits(raw)
		get, set = b.GetBit, b.SetBit
	}
	var f *report.Failure
	call := func(name string, fn func()) bool {
		if g := guard(name, fn); g != nil {
			f = fail(name+"/panic", "%s", g.Msg)
			return false
		}
		return true
	}
	cnt := 0
	for i := 0; i < n; i++ {
		var g bool
		if !call("GetBit", func() { g = get(uint64(i)) }) {
			return f
		}
		if g != a[i] {
			return fail("GetBit/wrong", "GetBit(%d) = %v", i, g)
		}
		if a[i] {
			cnt++
		}
	}
	if ones != nil {
		var o uint64
		if !call("OnesCount", func() { o = ones() }) {
			return f
		}
		if o != uint64(cnt) {
			return fail("OnesCount/wrong", "OnesCount = %d, want %d", o, cnt)
		}
	}
	if n > 0 {
		at := uint64(c.SetAt % n)
		if !call("SetBit", func() { set(at, c.SetVal) }) {
			return f
		}
		want := append([]bool(nil), a...)
		want[at] = c.SetVal
		if string(raw) != string(bitvector(want)) {
			return fail("SetBit/wrong", "after SetBit(%d,%v): %x, want %x", at, c.SetVal, raw, bitvector(want))
		}
		ft.add("setbit")
	}
	ft.add("bitvector")
	return nil
}

var bitLens = []int{0, 1, 2, 3, 7, 8, 9, 15, 16, 17, 31, 32, 33, 63, 64, 65, 127, 128, 129}

func genBitString(t *rapid.T, n int, label string) string {
	mode := rapid.IntRange(0, 5).Draw(t, label+"_mode")
	out := make([]byte, n)
	for i := range out {
		out[i] = '0'
	}
	switch mode {
	case 0: // empty
	case 1: // exactly one, biased to the ends
		if n > 0 {
			out[rapid.SampledFrom([]int{0, n - 1, n / 2, (n - 1) / 8 * 8, n * 7 / 8}).Draw(t, label+"_one")%n] = '1'
		}
	case 2: // two
		if n > 0 {
			out[rapid.IntRange(0, n-1).Draw(t, label+"_i")] = '1'
			out[rapid.IntRange(0, n-1).Draw(t, label+"_j")] = '1'
		}
	case 3: // all
		for i := range out {
			out[i] = '1'
		}
	default:
		for i := range out {
			if rapid.Bool().Draw(t, label+"_bit") {
				out[i] = '1'
			}
		}
	}
	return string(out)
}

func genBits(t *rapid.T) *Case {
	c := &BitsCase{}
	c.Kind = rapid.SampledFrom([]string{"phase0", "phase0", "electra", "syncbits", "subnetbits", "committeebits"}).Draw(t, "kind")
	n := rapid.SampledFrom(bitLens).Draw(t, "n")
	if rapid.IntRange(0, 3).Draw(t, "free_n") == 0 {
		n = rapid.IntRange(0, 140).Draw(t, "n_free")
	}
	c.A = genBitString(t, n, "a")
	nb := n
	switch rapid.IntRange(0, 9).Draw(t, "b_len") {
	case 0:
		nb = n + 1
	case 1:
		if n > 0 {
			nb = n - 1
		}
	case 2:
		nb = n + 8
	}
	c.B = genBitString(t, nb, "b")
	if rapid.IntRange(0, 2).Draw(t, "b_sub") == 0 && nb == n {
		// a subset / superset of A, so that Covers is true for more than the trivial cases
		bb := []byte(c.A)
		for i := range bb {
			if rapid.IntRange(0, 3).Draw(t, "flip") == 0 {
				bb[i] = '0'
			}
		}
		c.B = string(bb)
	}
	c.CommLen = n
	switch rapid.IntRange(0, 7).Draw(t, "comm") {
	case 0:
		c.CommLen = n + 1
	case 1:
		if n > 0 {
			c.CommLen = n - 1
		}
	}
	c.CommOff = rapid.Uint64Range(0, 1000).Draw(t, "off")
	c.SetAt = rapid.IntRange(0, 200).Draw(t, "set_at")
	c.SetVal = rapid.Bool().Draw(t, "set_val")
	return &Case{Pool: "bits", Bits: c}
}

func bitsNote(c *BitsCase) string {
	return fmt.Sprintf("%s n=%d", c.Kind, len(c.A))
}
