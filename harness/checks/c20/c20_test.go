// C20 — operation pools keep what they are given and never panic.
//
// One rapid-generated history per case against one pool instance, judged by the set-based model in
// ./poolmodel (which imports nothing from the code under test and quotes, next to every rule, the
// doc comment / property sentence it comes from):
//
//   - att:       AttestationPool — AddAttestation (singles, aggregates, exact duplicates, subsets,
//     supersets, overlaps, competing data, conflicting second votes, bitlists whose length
//     does not match the committee, empty bitlists), Search with every filter combination,
//     Prune(epoch); after *every* action an unfiltered Search is judged as an invariant.
//   - exit / propslash / attslash: add / duplicate / conflicting second operation / All.
//   - sync:      SyncCommitteePool — Reset forwards, backwards, same slot, jumps (incl. both ends of
//     uint64); messages and contributions for previous / current / next / other slots,
//     before and after the first Reset; the Pack* stubs. The pool has no query, so after
//     every action the six unexported buffers are read (read-only, reflect+unsafe, by
//     field name) and judged: nothing held that was not added, nothing in another slot's
//     buffer, everything accepted still held while its slot is inside the window.
//   - select:    SyncCommitteeMessages.Select with members that have and have not sent a message.
//
// Every call into the code under test is recover-wrapped (a panic is a failure `<Call>/panic`), every
// case runs under a watchdog. The check is single-threaded; locking is property C17's business.
//
// Signatures are deterministic tagged 96-byte strings: the pools neither verify nor aggregate
// signatures (read: attestations.go keeps `Sig` per aggregate and never touches a BLS function).
//
// Sensitivity (tools/trymut.py, quick tier, seed 1): every mutant below exits 1 with the symptom on the right.
//
//	attestations.go
//	 M1  Prune: `v.Data.Target.Epoch < min` -> `<= min`                         Search/attester-lost
//	 M2  Prune: `k.Epoch < min` (individual) -> `<= min`                         AddAttestation/double-vote-not-reported
//	 M3  Prune: `k.Epoch < min` (aggPerValidator) -> `<= min`                    AddAttestation/all-conflicting-aggregate-not-reported
//	 M4  Prune: `min := epoch.Previous()` -> `min := epoch`                      Search/attester-lost
//	 M5  Prune: `delete(ap.aggregate, k)` dropped                                Search/pruned-item-returned
//	 M6  AddAttestation: Covers receiver and argument swapped                    Search/attester-lost, Search/duplicate-item
//	 M7  AddAttestation: `existing.Participants.Or(...)` dropped (= F03 again)   Search/duplicate-item
//	 M8  AddAttestation: union `Participants: att.AggregationBits.Copy()` -> no copy   Search/returned-not-added (stored item altered)
//	 M9  AddAttestation: double-vote test `existing.DataRoot != dataRoot` disabled     AddAttestation/double-vote-not-reported
//	 M10 AddAttestation: `if _, ok := ap.aggPerValidator[key]; !ok` -> `ok`       AddAttestation/fresh-aggregate-refused
//	 M11 AddAttestation: vote key epoch from Data.Source.Epoch                    AddAttestation/double-vote-not-reported, .../fresh-single-refused
//	 M12 Search: committee filter compares Data.Slot                              Search/attester-lost
//	attestation_bits.go
//	 M13 Or: `cb[i] |= other[i]` -> `cb[i] = other[i]`                            Search/duplicate-item
//	voluntary_exits.go / proposer_slashings.go
//	 M14 exit pool duplicate check disabled                                       All/item-lost
//	 M15 proposer slashing keyed by SignedHeader1.Message.Slot                    AddProposerSlashing/fresh-refused
//	sync_committees.go
//	 M16 Reset: `sp.currentSlot = slot` dropped                                   AddSyncCommittee*/in-window-rejected
//	 M17 AddSyncCommitteeMessage: `sp.currentSlot+1 == msg.Slot` -> `+2`          .../in-window-rejected, .../out-of-window-accepted
//	 M18 AddSyncCommitteeContribution: previous-slot branch disabled              AddSyncCommitteeContribution/in-window-rejected
//	 M19 AddSyncCommitteeMessage: current-slot message filed in prevMsgs          SyncCommitteePool/misplaced-item
//	 M20 Reset forward: `sp.currentMsgs = sp.nextMsgs` -> `sp.prevMsgs = ...` (prev assigned twice)   SyncCommitteePool/misplaced-item
//	 M21 Reset: same-slot early return dropped (buffers wiped)                    SyncCommitteePool/item-lost
//	 M22 Reset backward: `sp.prevContribs = make(...)` dropped (aliasing)         SyncCommitteePool/misplaced-item
//	 M23 Reset forward: `sp.nextMsgs = make(...)` dropped (aliasing)              SyncCommitteePool/misplaced-item
//	 M24 Select: `msg.BeaconBlockRoot == root` -> `!=`                            Select/wrong
//	attester_slashings.go
//	 M25 every slashing stored under the zero root                                All/item-lost
//
// M15 was MISSED by the first version of the model (an error was always acceptable); the model now
// also says when an error is *not* acceptable (see poolmodel: "an error must be one of the refusals
// the package documents"). M20-M23 were MISSED while the sync pool was judged through its exported
// API only (it has no query); the harness now reads the six buffers after every action.
package c20

import (
	"context"
	"crypto/sha256"
	"encoding/json"
	"fmt"
	"reflect"
	"runtime/debug"
	"sort"
	"strings"
	"testing"
	"time"
	"unsafe"

	"github.com/protolambda/zrnt/eth2/beacon/altair"
	"github.com/protolambda/zrnt/eth2/beacon/common"
	"github.com/protolambda/zrnt/eth2/beacon/phase0"
	"github.com/protolambda/zrnt/eth2/configs"
	"github.com/protolambda/zrnt/eth2/pool"
	"github.com/protolambda/ztyp/view"
	"pgregory.net/rapid"

	"zrntverif/checks/c20/poolmodel"
	"zrntverif/report"
)

var spec = configs.Minimal

const maxActions = 60

// ------------------------------------------------------------------------------------------------
// Case value

type Case struct {
	Pool string    `json:"pool"` // att | exit | propslash | attslash | sync | select
	Att  *AttCase  `json:"att,omitempty"`
	Ops  *OpsCase  `json:"ops,omitempty"`
	Sync *SyncCase `json:"sync,omitempty"`
	Sel  *SelCase  `json:"select,omitempty"`
	Bits *BitsCase `json:"bits,omitempty"`
	Note string    `json:"note,omitempty"`
}

// AttCase: universe of 3 epochs (BaseEpoch+0..2) x 2 slots x 2 committees; Sizes[e*4+s*2+c] members.
// Committees of one epoch are disjoint (a validator attests once per epoch); validators recur
// across epochs. Data variant 0/1 differ in the beacon block root, variant 2 in the target root.
type AttCase struct {
	BaseEpoch uint64      `json:"base_epoch"`
	Sizes     []int       `json:"sizes"`
	Actions   []AttAction `json:"actions"`
}

type AttAction struct {
	Op    string  `json:"op"` // add | search | prune
	E     int     `json:"e,omitempty"`
	S     int     `json:"s,omitempty"`
	C     int     `json:"c,omitempty"`
	V     int     `json:"v,omitempty"`
	Bits  string  `json:"bits,omitempty"`  // add: '0'/'1' per bit of the bitlist; its length may differ from the committee size
	FSlot *uint64 `json:"fslot,omitempty"` // search: WithSlot
	FComm *uint64 `json:"fcomm,omitempty"` // search: WithCommittee
	Epoch uint64  `json:"epoch,omitempty"` // prune
	Kind  string  `json:"kind,omitempty"`  // generator's intent (informational; run ignores it)
}

type OpsCase struct {
	Actions []OpsAction `json:"actions"`
}

type OpsAction struct {
	Op      string   `json:"op"` // add | all
	Val     uint64   `json:"val,omitempty"`
	Epoch   uint64   `json:"epoch,omitempty"`
	Variant int      `json:"variant,omitempty"`
	// component-wise variants: a slashing is a PAIR (two headers / two attestations); V1 changes only the first
	// component, V2 only the second, so that two different items can share one of their halves
	V1 int `json:"v1,omitempty"`
	V2 int `json:"v2,omitempty"`
	Idx1    []uint64 `json:"idx1,omitempty"`
	Idx2    []uint64 `json:"idx2,omitempty"`
}

type SyncCase struct {
	Actions []SyncAction `json:"actions"`
}

type SyncAction struct {
	Op     string `json:"op"` // reset | msg | contrib | packc | packa
	Slot   uint64 `json:"slot"`
	Val    uint64 `json:"val,omitempty"`
	Root   int    `json:"root,omitempty"`
	Subnet uint64 `json:"subnet,omitempty"`
	Bits   uint8  `json:"bits,omitempty"`
}

type SelMsg struct {
	Val  uint64 `json:"val"`
	Root int    `json:"root"`
}

type SelCase struct {
	Msgs    []SelMsg `json:"msgs"`
	Root    int      `json:"root"`
	Members []uint64 `json:"members"`
}

// ------------------------------------------------------------------------------------------------
// features of an executed history (evidence classes, non-triviality key)

type feat struct {
	set   map[string]bool
	order []string
}

func newFeat() *feat { return &feat{set: map[string]bool{}} }
func (f *feat) add(s string) {
	if f != nil && !f.set[s] {
		f.set[s] = true
		f.order = append(f.order, s)
	}
}
func (f *feat) has(names ...string) bool {
	if f == nil {
		return false
	}
	for _, n := range names {
		if !f.set[n] {
			return false
		}
	}
	return true
}
func (f *feat) key(major ...string) string {
	all := make([]string, 0, len(f.set))
	for k := range f.set {
		all = append(all, k)
	}
	sort.Strings(all)
	isMajor := map[string]bool{}
	for _, m := range major {
		isMajor[m] = true
	}
	var ord []string
	for _, o := range f.order {
		if isMajor[o] {
			ord = append(ord, o)
		}
	}
	return strings.Join(all, ",") + "|" + strings.Join(ord, ">")
}

// ------------------------------------------------------------------------------------------------
// builders (deterministic functions of the case value)

func tag(parts ...any) (r common.Root) { return sha256.Sum256([]byte(fmt.Sprint(parts...))) }

func sig96(parts ...any) (s common.BLSSignature) {
	h := sha256.Sum256([]byte(fmt.Sprint(parts...)))
	for i := 0; i < 3; i++ {
		x := sha256.Sum256(append(h[:], byte(i)))
		copy(s[32*i:], x[:])
	}
	return
}

func (c *AttCase) size(e, s, ci int) int {
	i := e*4 + s*2 + ci
	if i < 0 || i >= len(c.Sizes) || c.Sizes[i] < 1 {
		return 3
	}
	return c.Sizes[i]
}

func (c *AttCase) committee(e, s, ci int) []uint64 {
	total, start := 0, 0
	for ss := 0; ss < 2; ss++ {
		for cc := 0; cc < 2; cc++ {
			if ss*2+cc < s*2+ci {
				start += c.size(e, ss, cc)
			}
			total += c.size(e, ss, cc)
		}
	}
	out := make([]uint64, c.size(e, s, ci))
	for k := range out {
		out[k] = uint64((start + k + 5*e) % total)
	}
	return out
}

func (c *AttCase) data(e, s, ci, v int) phase0.AttestationData {
	ep := c.BaseEpoch + uint64(e)
	src := uint64(0)
	if ep > 0 {
		src = ep - 1
	}
	bv, tv := v, 0
	if v >= 2 {
		bv, tv = 0, v
	}
	return phase0.AttestationData{
		Slot:            common.Slot(ep*uint64(spec.SLOTS_PER_EPOCH) + uint64(s)),
		Index:           common.CommitteeIndex(ci),
		BeaconBlockRoot: tag("bbr", ep, s, bv),
		Source:          common.Checkpoint{Epoch: common.Epoch(src), Root: tag("src", src)},
		Target:          common.Checkpoint{Epoch: common.Epoch(ep), Root: tag("tgt", ep, tv)},
	}
}

func parseBits(s string) []bool {
	out := make([]bool, len(s))
	for i := range s {
		out[i] = s[i] == '1'
	}
	return out
}

// bitlist bytes with delimiter bit (SSZ), written here, not taken from the code under test
func encodeBitlist(b []bool) []byte {
	out := make([]byte, len(b)/8+1)
	for i, v := range b {
		if v {
			out[i>>3] |= 1 << uint(i&7)
		}
	}
	out[len(b)>>3] |= 1 << uint(len(b)&7)
	return out
}

func decodeBitlist(raw []byte) ([]bool, bool) {
	if len(raw) == 0 || raw[len(raw)-1] == 0 {
		return nil, false
	}
	last := raw[len(raw)-1]
	hi := 7
	for last&(1<<uint(hi)) == 0 {
		hi--
	}
	n := (len(raw)-1)*8 + hi
	out := make([]bool, n)
	for i := 0; i < n; i++ {
		out[i] = raw[i>>3]&(1<<uint(i&7)) != 0
	}
	return out, true
}

func dataID(d *phase0.AttestationData) string {
	return fmt.Sprintf("%d/%d/%x/%d/%x/%d/%x", d.Slot, d.Index, d.BeaconBlockRoot[:], d.Source.Epoch, d.Source.Root[:], d.Target.Epoch, d.Target.Root[:])
}

func attID(a *phase0.Attestation) string {
	return fmt.Sprintf("%s|%x|%x", dataID(&a.Data), []byte(a.AggregationBits), a.Signature[:])
}

func (c *AttCase) build(a *AttAction) (*phase0.Attestation, common.CommitteeIndices, *poolmodel.Att) {
	d := c.data(a.E, a.S, a.C, a.V)
	bits := parseBits(a.Bits)
	raw := encodeBitlist(bits)
	att := &phase0.Attestation{AggregationBits: phase0.AttestationBits(raw), Data: d, Signature: sig96("att", dataID(&d), a.Bits)}
	comm := c.committee(a.E, a.S, a.C)
	cc := make(common.CommitteeIndices, len(comm))
	for i, v := range comm {
		cc[i] = common.ValidatorIndex(v)
	}
	m := &poolmodel.Att{ID: attID(att), Data: dataID(&d), Epoch: uint64(d.Target.Epoch), Slot: uint64(d.Slot), Comm: uint64(d.Index), Bits: bits, Committee: comm}
	return att, cc, m
}

// ------------------------------------------------------------------------------------------------
// run

func guard(call string, fn func()) (f *report.Failure) {
	defer func() {
		if p := recover(); p != nil {
			f = report.Failf(call+"/panic", "%s panicked: %v", call, p)
		}
	}()
	fn()
	return nil
}

func at(i int, what string, f *report.Failure) *report.Failure {
	if f == nil {
		return nil
	}
	return report.Failf(f.Sig, "step %d (%s): %s", i, what, f.Msg)
}

func fromProblem(p *poolmodel.Problem) *report.Failure {
	if p == nil {
		return nil
	}
	return report.Failf(p.Sig, "%s", p.Msg)
}

// run executes one case. Pure. ft may be nil.
func run(c *Case, ft *feat) (f *report.Failure) {
	defer func() {
		if p := recover(); p != nil {
			f = report.Failf("harness", "harness panicked outside a guarded call: %v", p)
		}
	}()
	var out *report.Failure
	body := func() {
		switch c.Pool {
		case "att":
			out = runAtt(c.Att, ft)
		case "exit", "propslash", "attslash":
			out = runOps(c.Pool, c.Ops, ft)
		case "sync":
			out = runSync(c.Sync, ft)
		case "select":
			out = runSelect(c.Sel, ft)
		case "bits":
			out = runBits(c.Bits, ft)
		default:
			out = report.Failf("harness", "unknown pool %q", c.Pool)
		}
	}
	done := report.WithTimeout(20*time.Second, func() {
		if g := guard("harness", body); g != nil {
			out = report.Failf("harness", "%s", g.Msg)
		}
	})
	if !done {
		return report.Failf(c.Pool+"/blocked", "history of pool %s did not finish within 20 s", c.Pool)
	}
	return out
}

func toReturned(list []*phase0.Attestation) ([]poolmodel.Returned, *report.Failure) {
	out := make([]poolmodel.Returned, 0, len(list))
	for _, a := range list {
		if a == nil {
			return nil, report.Failf("Search/nil-item", "Search returned a nil attestation")
		}
		bits, ok := decodeBitlist(a.AggregationBits)
		if !ok {
			return nil, report.Failf("Search/returned-not-added", "Search returned an attestation with a malformed bitlist %x", []byte(a.AggregationBits))
		}
		out = append(out, poolmodel.Returned{ID: attID(a), Data: dataID(&a.Data), Slot: uint64(a.Data.Slot), Comm: uint64(a.Data.Index), Bits: bits})
	}
	return out, nil
}

func runAtt(c *AttCase, ft *feat) *report.Failure {
	if c == nil {
		return report.Failf("harness", "missing att case")
	}
	var p *pool.AttestationPool
	if f := guard("NewAttestationPool", func() { p = pool.NewAttestationPool(spec) }); f != nil {
		return f
	}
	m := poolmodel.NewAttPool()
	ctx := context.Background()
	// a result list is the caller's: it must still say the same after any later call (query or add)
	var prevGot []*phase0.Attestation
	var prevRet []poolmodel.Returned
	var prevWhat string
	search := func(slot, comm *uint64) *report.Failure {
		var opts []pool.AttSearchOption
		if slot != nil {
			opts = append(opts, pool.WithSlot(common.Slot(*slot)))
		}
		if comm != nil {
			opts = append(opts, pool.WithCommittee(common.CommitteeIndex(*comm)))
		}
		var got []*phase0.Attestation
		if f := guard("Search", func() { got = p.Search(opts...) }); f != nil {
			return f
		}
		ret, f := toReturned(got)
		if f != nil {
			return f
		}
		if len(ret) > 0 {
			ft.add("search-nonempty")
		}
		if len(prevGot) > 0 {
			now, f := toReturned(prevGot)
			if f != nil || !reflect.DeepEqual(now, prevRet) {
				return report.Failf("Search/earlier-result-changed", "the %d-item list returned by the earlier %s reads differently after a later Search(slot=%s, committee=%s): it was %v, it is now %v",
					len(prevGot), prevWhat, optStr(slot), optStr(comm), ids(prevRet), ids(now))
			}
			if len(ret) > 0 {
				ft.add("search-result-held-across-a-later-nonempty-search")
			}
		}
		prevGot, prevRet, prevWhat = got, ret, fmt.Sprintf("Search(slot=%s, committee=%s)", optStr(slot), optStr(comm))
		return fromProblem(m.CheckSearch(slot, comm, ret))
	}
	conflictSeen := false
	for i := range c.Actions {
		a := &c.Actions[i]
		what := ""
		switch a.Op {
		case "add":
			att, comm, ma := c.build(a)
			what = fmt.Sprintf("add e=%d s=%d c=%d v=%d bits=%s committee=%v", a.E, a.S, a.C, a.V, a.Bits, ma.Committee)
			verdict := m.Expect(ma)
			reason := m.LastReason
			var err error
			if f := guard("AddAttestation", func() { err = p.AddAttestation(ctx, att, comm) }); f != nil {
				return at(i, what, f)
			}
			if verdict == poolmodel.MustError && err == nil {
				switch reason {
				case "conflict-single":
					return at(i, what, report.Failf("AddAttestation/double-vote-not-reported", "a second single-attester vote by the same validator for the same target epoch but other data was accepted without error while the first is still held"))
				case "conflict-aggregate":
					return at(i, what, report.Failf("AddAttestation/all-conflicting-aggregate-not-reported", "an aggregate for data the pool has no aggregate for, all of whose participants already take part in held aggregates of the same target epoch, was accepted without error"))
				default:
					return at(i, what, report.Failf("AddAttestation/"+reason+"-accepted", "add returned nil although nothing can be stored (%s)", reason))
				}
			}
			if verdict == poolmodel.MustAccept && err != nil {
				return at(i, what, report.Failf("AddAttestation/"+reason+"-refused", "a well-formed attestation that meets none of the documented refusal reasons (%s) was refused: %v", reason, err))
			}
			// byte identity of what was handed in must survive the call (the pool keeps the slices)
			if attID(att) != ma.ID {
				return at(i, what, report.Failf("AddAttestation/argument-mutated", "AddAttestation changed the attestation it was given"))
			}
			ones := strings.Count(a.Bits, "1")
			if err == nil {
				switch {
				case ones == 1:
					ft.add("single")
				case ones >= 2:
					ft.add("agg")
				}
			}
			if reason != "" && !strings.HasPrefix(reason, "fresh") && reason != "further-aggregate" {
				ft.add(reason)
				if strings.HasPrefix(reason, "conflict") {
					conflictSeen = true
					ft.add("conflict")
				}
			}
			if len(a.Bits) != len(ma.Committee) {
				ft.add("bitlen-mismatch")
			}
			m.Added(ma, err == nil)
			if m.HasSingleAndAggregate() {
				ft.add("mixed-same-data")
			}
		case "search":
			what = "search"
			switch {
			case a.FSlot == nil && a.FComm == nil:
				ft.add("search-none")
			case a.FSlot != nil && a.FComm == nil:
				ft.add("search-slot")
			case a.FSlot == nil && a.FComm != nil:
				ft.add("search-comm")
			default:
				ft.add("search-slot+comm")
			}
			if f := search(a.FSlot, a.FComm); f != nil {
				return at(i, fmt.Sprintf("search slot=%s comm=%s", optStr(a.FSlot), optStr(a.FComm)), f)
			}
		case "prune":
			what = fmt.Sprintf("prune %d", a.Epoch)
			if f := guard("Prune", func() { p.Prune(common.Epoch(a.Epoch)) }); f != nil {
				return at(i, what, f)
			}
			held := m.Held()
			removed := m.Prune(a.Epoch)
			ft.add("prune")
			if removed > 0 {
				ft.add("prune-removes")
				if removed < held {
					ft.add("prune-partial")
				}
			}
			if conflictSeen {
				ft.add("prune-after-conflict")
				if m.HasSingleAndAggregate() || ft.has("mixed-same-data") {
					ft.add("mixed+prune-after-conflict")
				}
			}
		default:
			return report.Failf("harness", "unknown att op %q", a.Op)
		}
		// invariant after every action: the unfiltered query
		if f := search(nil, nil); f != nil {
			return at(i, what+"; then Search()", f)
		}
	}
	return nil
}

func ids(rs []poolmodel.Returned) []string {
	out := make([]string, len(rs))
	for i := range rs {
		out[i] = fmt.Sprintf("%.10s…(slot %d, committee %d, %d bits)", rs[i].ID, rs[i].Slot, rs[i].Comm, len(rs[i].Bits))
	}
	return out
}

func optStr(p *uint64) string {
	if p == nil {
		return "-"
	}
	return fmt.Sprint(*p)
}

// ---- slashing and exit pools

func buildExit(a *OpsAction) *phase0.SignedVoluntaryExit {
	return &phase0.SignedVoluntaryExit{
		Message:   phase0.VoluntaryExit{Epoch: common.Epoch(a.Epoch), ValidatorIndex: common.ValidatorIndex(a.Val)},
		Signature: sig96("exit", a.Val, a.Epoch, a.Variant),
	}
}

func buildPropSlashing(a *OpsAction) *phase0.ProposerSlashing {
	h := func(k int) common.SignedBeaconBlockHeader {
		v := a.Variant + 10*[]int{0, a.V1, a.V2}[k]
		return common.SignedBeaconBlockHeader{
			Message: common.BeaconBlockHeader{Slot: common.Slot(a.Epoch), ProposerIndex: common.ValidatorIndex(a.Val),
				ParentRoot: tag("parent", a.Epoch), StateRoot: tag("state", a.Epoch, k, v), BodyRoot: tag("body", k, v)},
			Signature: sig96("hdr", a.Val, a.Epoch, k, v),
		}
	}
	return &phase0.ProposerSlashing{SignedHeader1: h(1), SignedHeader2: h(2)}
}

func buildAttSlashing(a *OpsAction) *phase0.AttesterSlashing {
	ia := func(k int, idx []uint64) phase0.IndexedAttestation {
		ci := make(common.CommitteeIndices, len(idx))
		for i, v := range idx {
			ci[i] = common.ValidatorIndex(v)
		}
		v := a.Variant + 10*[]int{0, a.V1, a.V2}[k]
		d := phase0.AttestationData{Slot: common.Slot(a.Epoch * uint64(spec.SLOTS_PER_EPOCH)), Index: 0, BeaconBlockRoot: tag("asl", a.Epoch, k, v),
			Source: common.Checkpoint{Epoch: 0, Root: tag("src", 0)}, Target: common.Checkpoint{Epoch: common.Epoch(a.Epoch), Root: tag("tgt", a.Epoch, k)}}
		return phase0.IndexedAttestation{AttestingIndices: ci, Data: d, Signature: sig96("asl", a.Epoch, k, v, idx)}
	}
	return &phase0.AttesterSlashing{Attestation1: ia(1, a.Idx1), Attestation2: ia(2, a.Idx2)}
}

func jsonID(v any) string {
	b, err := json.Marshal(v)
	if err != nil {
		panic(err)
	}
	return string(b)
}

func runOps(kind string, c *OpsCase, ft *feat) *report.Failure {
	if c == nil {
		return report.Failf("harness", "missing ops case")
	}
	ctx := context.Background()
	var add func(a *OpsAction) (string, error)
	var all func() []string
	var addName string
	// slices handed out by All() are the caller's: after a LATER add the harness overwrites every element of
	// their backing arrays up to capacity (what a caller appending to / sorting its result does). If the pool
	// handed out its own storage, the next All() shows it ("every item returned is one that was added, unaltered").
	var held []any
	scribbleHeld := func() {
		for _, h := range held {
			rv := reflect.ValueOf(h)
			if rv.Kind() != reflect.Slice || rv.Cap() == 0 {
				continue
			}
			full := rv.Slice3(0, rv.Cap(), rv.Cap())
			for i := 0; i < full.Len(); i++ {
				full.Index(i).Set(reflect.Zero(full.Type().Elem()))
			}
		}
		held = nil
	}
	var f0 *report.Failure
	switch kind {
	case "exit":
		var p *pool.VoluntaryExitPool
		f0 = guard("NewVoluntaryExitPool", func() { p = pool.NewVoluntaryExitPool(spec) })
		addName = "AddVoluntaryExit"
		add = func(a *OpsAction) (string, error) {
			x := buildExit(a)
			id := jsonID(x)
			err := p.AddVoluntaryExit(ctx, x)
			return id, err
		}
		all = func() (out []string) {
			raw := p.All()
			for _, x := range raw {
				out = append(out, jsonID(x))
			}
			held = append(held, raw)
			return
		}
	case "propslash":
		var p *pool.ProposerSlashingPool
		f0 = guard("NewProposerSlashingPool", func() { p = pool.NewProposerSlashingPool(spec) })
		addName = "AddProposerSlashing"
		add = func(a *OpsAction) (string, error) {
			x := buildPropSlashing(a)
			id := jsonID(x)
			err := p.AddProposerSlashing(ctx, x)
			return id, err
		}
		all = func() (out []string) {
			raw := p.All()
			for _, x := range raw {
				out = append(out, jsonID(x))
			}
			held = append(held, raw)
			return
		}
	case "attslash":
		var p *pool.AttesterSlashingPool
		f0 = guard("NewAttesterSlashingPool", func() { p = pool.NewAttesterSlashingPool(spec) })
		addName = "AddAttesterSlashing"
		add = func(a *OpsAction) (string, error) {
			x := buildAttSlashing(a)
			id := jsonID(x)
			err := p.AddAttesterSlashing(ctx, x)
			return id, err
		}
		all = func() (out []string) {
			raw := p.All()
			for _, x := range raw {
				out = append(out, jsonID(x))
			}
			held = append(held, raw)
			return
		}
	}
	if f0 != nil {
		return f0
	}
	m := poolmodel.NewSetPool()
	byKey := map[string]string{} // conflict key (validator / root) -> first accepted id, evidence only
	check := func() *report.Failure {
		var got []string
		if f := guard("All", func() { got = all() }); f != nil {
			return f
		}
		return fromProblem(m.CheckAll(got))
	}
	for i := range c.Actions {
		a := &c.Actions[i]
		what := a.Op
		switch a.Op {
		case "add":
			what = fmt.Sprintf("add val=%d epoch=%d variant=%d/%d/%d idx=%v/%v", a.Val, a.Epoch, a.Variant, a.V1, a.V2, a.Idx1, a.Idx2)
			var id string
			var err error
			if f := guard(addName, func() { id, err = add(a) }); f != nil {
				return at(i, what, f)
			}
			scribbleHeld()
			key := fmt.Sprint(a.Val)
			mkey := key // the key the documented refusal is about
			if kind == "attslash" {
				key = fmt.Sprint(a.Idx1, a.Idx2)
				mkey = id
			}
			if m.Expect(id, mkey) == poolmodel.MustAccept && err != nil {
				return at(i, what, report.Failf(addName+"/fresh-refused", "nothing is held for this validator / message, yet the add was refused: %v", err))
			}
			if m.Holds(id) {
				ft.add("dup")
			} else if first, ok := byKey[key]; ok && first != id {
				ft.add("conflict")
				if err == nil {
					ft.add("conflict-stored")
				} else {
					ft.add("conflict-refused")
				}
			}
			if err == nil {
				ft.add("stored")
				if _, ok := byKey[key]; !ok {
					byKey[key] = id
				}
			}
			m.Added(id, mkey, err == nil)
		case "all":
			ft.add("all")
			if m.Len() >= 2 {
				ft.add("all>=2")
			}
		default:
			return report.Failf("harness", "unknown ops op %q", a.Op)
		}
		if f := check(); f != nil {
			return at(i, what+"; then All()", f)
		}
	}
	return nil
}

// ---- sync-committee pool

func runSync(c *SyncCase, ft *feat) *report.Failure {
	if c == nil {
		return report.Failf("harness", "missing sync case")
	}
	var p *pool.SyncCommitteePool
	if f := guard("NewSyncCommitteePool", func() { p = pool.NewSyncCommitteePool(spec) }); f != nil {
		return f
	}
	m := poolmodel.NewSyncPool()
	ctx := context.Background()
	judge := func(call string, v poolmodel.Verdict, err error, slot uint64) *report.Failure {
		switch {
		case v == poolmodel.MustAccept && err != nil:
			return report.Failf(call+"/in-window-rejected", "pool is at slot %d; an item for slot %d (%s) must be buffered but the add returned: %v", m.Cur, slot, m.Relation(slot), err)
		case v == poolmodel.MustError && err == nil:
			return report.Failf(call+"/out-of-window-accepted", "pool is at slot %d; an item for slot %d is outside previous/current/next and cannot be buffered, yet the add returned nil", m.Cur, slot)
		}
		return nil
	}
	for i := range c.Actions {
		a := &c.Actions[i]
		what := fmt.Sprintf("%s slot=%d", a.Op, a.Slot)
		switch a.Op {
		case "reset":
			kind := "first"
			if m.HasReset {
				switch {
				case a.Slot == m.Cur:
					kind = "same"
				case a.Slot == m.Cur+1:
					kind = "forward"
				case a.Slot+1 == m.Cur:
					kind = "backward"
				default:
					kind = "jump"
				}
			}
			ft.add("reset-" + kind)
			if f := guard("Reset", func() { p.Reset(common.Slot(a.Slot)) }); f != nil {
				return at(i, what, f)
			}
			m.Reset(a.Slot)
		case "msg":
			msg := &altair.SyncCommitteeMessage{Slot: common.Slot(a.Slot), BeaconBlockRoot: tag("blk", a.Slot, a.Root), ValidatorIndex: common.ValidatorIndex(a.Val), Signature: sig96("scm", a.Slot, a.Root, a.Val)}
			id := syncMsgID(msg)
			v := m.Expect(a.Slot)
			ft.add("msg-" + m.Relation(a.Slot))
			var err error
			if f := guard("AddSyncCommitteeMessage", func() { err = p.AddSyncCommitteeMessage(ctx, msg) }); f != nil {
				return at(i, what, f)
			}
			if f := judge("AddSyncCommitteeMessage", v, err, a.Slot); f != nil {
				return at(i, what, f)
			}
			if err == nil {
				ft.add("stored")
			}
			m.Added(poolmodel.SyncItem{ID: id, Slot: a.Slot, Val: a.Val, Msg: true}, err == nil)
		case "contrib":
			ct := &altair.SyncCommitteeContribution{Slot: common.Slot(a.Slot), BeaconBlockRoot: tag("blk", a.Slot, a.Root), SubcommitteeIndex: view.Uint64View(a.Subnet),
				AggregationBits: altair.SyncCommitteeSubnetBits{a.Bits}, Signature: sig96("scc", a.Slot, a.Root, a.Subnet, a.Bits)}
			id := syncContribID(ct.BeaconBlockRoot, uint64(ct.SubcommitteeIndex), ct.AggregationBits, ct.Signature)
			v := m.Expect(a.Slot)
			ft.add("contrib-" + m.Relation(a.Slot))
			var err error
			if f := guard("AddSyncCommitteeContribution", func() { err = p.AddSyncCommitteeContribution(ctx, ct) }); f != nil {
				return at(i, what, f)
			}
			if f := judge("AddSyncCommitteeContribution", v, err, a.Slot); f != nil {
				return at(i, what, f)
			}
			if err == nil {
				ft.add("stored")
			}
			m.Added(poolmodel.SyncItem{ID: id, Slot: a.Slot}, err == nil)
		case "packc":
			ft.add("pack")
			if f := guard("PackContribution", func() {
				p.PackContribution(ctx, common.Slot(a.Slot), tag("blk", a.Slot, a.Root), a.Subnet, []common.ValidatorIndex{0, 1, 2, 3, 4, 5, 6, 7})
			}); f != nil {
				return at(i, what, f)
			}
		case "packa":
			ft.add("pack")
			if f := guard("PackAggregate", func() {
				p.PackAggregate(ctx, common.Slot(a.Slot), tag("blk", a.Slot, a.Root), []common.ValidatorIndex{0, 1, 2, 3, 4, 5, 6, 7})
			}); f != nil {
				return at(i, what, f)
			}
		default:
			return report.Failf("harness", "unknown sync op %q", a.Op)
		}
		// invariant after every action: what the six buffers hold
		snap, err := syncSnapshot(p)
		if err != nil {
			return report.Failf("harness/sync-snapshot", "cannot read the buffers of SyncCommitteePool: %v", err)
		}
		if f := fromProblem(m.CheckHeld(snap)); f != nil {
			return at(i, what+"; then the buffers", f)
		}
	}
	return nil
}

func syncMsgID(m *altair.SyncCommitteeMessage) string {
	return fmt.Sprintf("m|%d|%x|%d|%x", m.Slot, m.BeaconBlockRoot[:], m.ValidatorIndex, m.Signature[:])
}

func syncContribID(root common.Root, subnet uint64, bits altair.SyncCommitteeSubnetBits, sig common.BLSSignature) string {
	return fmt.Sprintf("c|%x|%d|%x|%x", root[:], subnet, []byte(bits), sig[:])
}

// syncSnapshot reads the six unexported buffers of the pool (read-only, by field name; the pool has
// no query). A renamed or retyped field is reported as a harness failure, never as a verdict.
func syncSnapshot(p *pool.SyncCommitteePool) (*poolmodel.SyncSnapshot, error) {
	v := reflect.ValueOf(p).Elem()
	snap := &poolmodel.SyncSnapshot{}
	for b, name := range []string{"prevMsgs", "currentMsgs", "nextMsgs"} {
		f := v.FieldByName(name)
		if !f.IsValid() || f.Type() != reflect.TypeOf(pool.SyncCommitteeMessages(nil)) {
			return nil, fmt.Errorf("field %s missing or not a SyncCommitteeMessages", name)
		}
		msgs := *(*pool.SyncCommitteeMessages)(unsafe.Pointer(f.UnsafeAddr()))
		for k, m := range msgs {
			switch {
			case m == nil:
				snap.Msgs[b] = append(snap.Msgs[b], "nil-message")
			case m.ValidatorIndex != k:
				snap.Msgs[b] = append(snap.Msgs[b], fmt.Sprintf("message of validator %d filed under %d", m.ValidatorIndex, k))
			default:
				snap.Msgs[b] = append(snap.Msgs[b], syncMsgID(m))
			}
		}
		sort.Strings(snap.Msgs[b])
	}
	for b, name := range []string{"prevContribs", "currentContribs", "nextContribs"} {
		f := v.FieldByName(name)
		if !f.IsValid() || f.Type() != reflect.TypeOf(pool.SyncCommitteeContributions(nil)) {
			return nil, fmt.Errorf("field %s missing or not a SyncCommitteeContributions", name)
		}
		cs := *(*pool.SyncCommitteeContributions)(unsafe.Pointer(f.UnsafeAddr()))
		for root, bySub := range cs {
			for sub, list := range bySub {
				for _, c := range list {
					if c == nil {
						snap.Contribs[b] = append(snap.Contribs[b], "nil-contribution")
						continue
					}
					snap.Contribs[b] = append(snap.Contribs[b], syncContribID(root, sub, c.AggregationBits, c.Signature))
				}
			}
		}
		sort.Strings(snap.Contribs[b])
	}
	return snap, nil
}

// ---- SyncCommitteeMessages.Select

func runSelect(c *SelCase, ft *feat) *report.Failure {
	if c == nil {
		return report.Failf("harness", "missing select case")
	}
	msgs := pool.SyncCommitteeMessages{}
	mroot := map[uint64]string{}
	ids := map[uint64]string{}
	for _, sm := range c.Msgs {
		msg := &altair.SyncCommitteeMessage{Slot: 7, BeaconBlockRoot: tag("blk", sm.Root), ValidatorIndex: common.ValidatorIndex(sm.Val), Signature: sig96("scm", 7, sm.Root, sm.Val)}
		msgs[common.ValidatorIndex(sm.Val)] = msg
		mroot[sm.Val] = fmt.Sprint(sm.Root)
		ids[sm.Val] = jsonID(msg)
	}
	members := make([]common.ValidatorIndex, len(c.Members))
	for i, v := range c.Members {
		members[i] = common.ValidatorIndex(v)
		switch r, ok := mroot[v]; {
		case !ok:
			ft.add("member-without-message")
		case r == fmt.Sprint(c.Root):
			ft.add("member-matching")
		default:
			ft.add("member-other-root")
		}
	}
	want := poolmodel.SelectExpect(mroot, fmt.Sprint(c.Root), c.Members)
	var got []*altair.SyncCommitteeMessage
	if f := guard("Select", func() { got = msgs.Select(tag("blk", c.Root), members) }); f != nil {
		return f
	}
	if len(got) > len(members) {
		return report.Failf("Select/wrong", "Select returned %d messages for %d members", len(got), len(members))
	}
	seen := map[uint64]bool{}
	for _, g := range got {
		if g == nil {
			return report.Failf("Select/nil-item", "Select returned a nil message")
		}
		v := uint64(g.ValidatorIndex)
		if !want[v] {
			return report.Failf("Select/wrong", "Select(root %d, members %v) returned the message of validator %d, which is not a listed member with a message for that root", c.Root, c.Members, v)
		}
		if jsonID(g) != ids[v] {
			return report.Failf("Select/altered", "Select returned an altered message for validator %d", v)
		}
		seen[v] = true
	}
	for v := range want {
		if !seen[v] {
			return report.Failf("Select/wrong", "Select(root %d, members %v) omitted the message of member %d", c.Root, c.Members, v)
		}
	}
	return nil
}

// ------------------------------------------------------------------------------------------------
// generators

func u64p(v uint64) *uint64 { return &v }

type attGen struct {
	c    *AttCase
	adds []int
	hot  [3]int
}

func newAttGen(t *rapid.T) *attGen {
	g := &attGen{c: &AttCase{}}
	g.c.BaseEpoch = rapid.SampledFrom([]uint64{0, 1, 2, 7, 1000}).Draw(t, "base_epoch")
	g.c.Sizes = make([]int, 12)
	// mostly tiny committees (conflicts and covers are frequent); one case in six uses committee sizes around the
	// byte / 8-byte-word boundaries of the participation bitlist (bit length = size+1 with the delimiter)
	small := []int{3, 4, 5, 3, 4, 5, 8, 9}
	big := []int{7, 8, 15, 16, 17, 31, 32, 55, 56, 60, 63, 64, 65, 120, 124, 127, 128}
	useBig := rapid.IntRange(0, 5).Draw(t, "big_committees") == 0
	for i := range g.c.Sizes {
		if useBig && rapid.IntRange(0, 2).Draw(t, "big") != 0 {
			g.c.Sizes[i] = rapid.SampledFrom(big).Draw(t, "size")
		} else {
			g.c.Sizes[i] = rapid.SampledFrom(small).Draw(t, "size")
		}
	}
	g.hot = [3]int{rapid.IntRange(0, 2).Draw(t, "hot_e"), rapid.IntRange(0, 1).Draw(t, "hot_s"), rapid.IntRange(0, 1).Draw(t, "hot_c")}
	return g
}

func (g *attGen) push(a AttAction) {
	if len(g.c.Actions) >= maxActions {
		return
	}
	if a.Op == "add" {
		g.adds = append(g.adds, len(g.c.Actions))
	}
	g.c.Actions = append(g.c.Actions, a)
}

func (g *attGen) cell(t *rapid.T) (int, int, int) {
	switch k := rapid.IntRange(0, 19).Draw(t, "usehot"); {
	case k < 11:
		return g.hot[0], g.hot[1], g.hot[2]
	case k < 16: // the same committee one epoch later: prunes then remove part of what is held
		return (g.hot[0] + 1) % 3, g.hot[1], g.hot[2]
	}
	return rapid.IntRange(0, 2).Draw(t, "e"), rapid.IntRange(0, 1).Draw(t, "s"), rapid.IntRange(0, 1).Draw(t, "c")
}

func (g *attGen) variant(t *rapid.T) int {
	return rapid.SampledFrom([]int{0, 0, 0, 1, 1, 1, 2}).Draw(t, "v")
}

func randBits(t *rapid.T, n, minOnes int) string {
	if n == 0 {
		return ""
	}
	b := make([]byte, n)
	for i := range b {
		b[i] = '0'
	}
	if minOnes > n {
		minOnes = n
	}
	k := rapid.IntRange(minOnes, n).Draw(t, "ones")
	perm := rapid.Permutation(seq(n)).Draw(t, "which")
	for _, i := range perm[:k] {
		b[i] = '1'
	}
	return string(b)
}

func seq(n int) []int {
	out := make([]int, n)
	for i := range out {
		out[i] = i
	}
	return out
}

func (g *attGen) addFresh(t *rapid.T) {
	e, s, c := g.cell(t)
	n := g.c.size(e, s, c)
	g.push(AttAction{Op: "add", E: e, S: s, C: c, V: g.variant(t), Bits: randBits(t, n, 2), Kind: "fresh-aggregate"})
}

func (g *attGen) addSingle(t *rapid.T) {
	e, s, c := g.cell(t)
	n := g.c.size(e, s, c)
	b := []byte(strings.Repeat("0", n))
	b[rapid.IntRange(0, n-1).Draw(t, "who")] = '1'
	g.push(AttAction{Op: "add", E: e, S: s, C: c, V: g.variant(t), Bits: string(b), Kind: "single"})
}

func (g *attGen) addRelated(t *rapid.T) {
	if len(g.adds) == 0 {
		g.addFresh(t)
		return
	}
	base := g.c.Actions[g.adds[rapid.IntRange(0, len(g.adds)-1).Draw(t, "ref")]]
	a := base
	b := []byte(base.Bits)
	idx := func(want byte) []int {
		var out []int
		for i, x := range b {
			if x == want {
				out = append(out, i)
			}
		}
		return out
	}
	flip := func(want byte, label string, atLeast int) {
		cand := idx(want)
		if len(cand) == 0 {
			return
		}
		if atLeast > len(cand) {
			atLeast = len(cand)
		}
		k := rapid.IntRange(atLeast, len(cand)).Draw(t, label+"_k")
		perm := rapid.Permutation(cand).Draw(t, label)
		for _, i := range perm[:k] {
			if want == '1' {
				b[i] = '0'
			} else {
				b[i] = '1'
			}
		}
	}
	other := func() int {
		o := rapid.IntRange(1, 2).Draw(t, "other")
		return (base.V + o) % 3
	}
	switch rapid.IntRange(0, 9).Draw(t, "mode") {
	case 0, 1:
		a.Kind = "dup"
	case 2:
		ones := idx('1')
		if len(ones) > 1 {
			keep := rapid.IntRange(1, len(ones)-1).Draw(t, "keep")
			perm := rapid.Permutation(ones).Draw(t, "drop")
			for _, i := range perm[keep:] {
				b[i] = '0'
			}
		}
		a.Kind = "subset"
	case 3:
		flip('0', "grow", 1)
		a.Kind = "superset"
	case 4:
		ones := idx('1')
		if len(ones) > 1 {
			b[ones[rapid.IntRange(0, len(ones)-1).Draw(t, "drop1")]] = '0'
		}
		flip('0', "grow", 1)
		a.Kind = "overlap"
	case 5:
		for i := range b {
			if b[i] == '1' {
				b[i] = '0'
			} else {
				b[i] = '1'
			}
		}
		a.Kind = "complement"
	case 6:
		a.V = other()
		a.Kind = "other-data-same-bits"
	case 7:
		a.V = other()
		flip('0', "grow", 0)
		ones := idx('1')
		if len(ones) > 2 && rapid.Bool().Draw(t, "shrink") {
			b[ones[0]] = '0'
		}
		a.Kind = "other-data-overlap"
	case 8:
		ones := idx('1')
		if len(ones) > 0 {
			keep := ones[rapid.IntRange(0, len(ones)-1).Draw(t, "member")]
			for i := range b {
				b[i] = '0'
			}
			b[keep] = '1'
		}
		a.Kind = "single-of-member"
	case 9:
		ones := idx('1')
		if len(ones) > 0 {
			keep := ones[rapid.IntRange(0, len(ones)-1).Draw(t, "member")]
			for i := range b {
				b[i] = '0'
			}
			b[keep] = '1'
		}
		a.V = other()
		a.Kind = "single-of-member-other-data"
	}
	a.Bits = string(b)
	g.push(a)
}

func (g *attGen) addOdd(t *rapid.T) {
	e, s, c := g.cell(t)
	n := g.c.size(e, s, c)
	if rapid.IntRange(0, 4).Draw(t, "empty") == 0 {
		g.push(AttAction{Op: "add", E: e, S: s, C: c, V: g.variant(t), Bits: strings.Repeat("0", n), Kind: "empty"})
		return
	}
	ln := rapid.SampledFrom([]int{0, 1, 2, n - 1, n + 1, n + 2, 7, 8, 9, 12, 17}).Draw(t, "len")
	if ln == n {
		ln = n + 1
	}
	if ln < 0 {
		ln = 0
	}
	g.push(AttAction{Op: "add", E: e, S: s, C: c, V: g.variant(t), Bits: randBits(t, ln, 1), Kind: "bitlen-mismatch"})
}

func (g *attGen) search(t *rapid.T) {
	a := AttAction{Op: "search"}
	e, s, c := g.cell(t)
	slot := (g.c.BaseEpoch+uint64(e))*uint64(spec.SLOTS_PER_EPOCH) + uint64(s)
	switch rapid.IntRange(0, 3).Draw(t, "fslot") {
	case 0, 1:
		a.FSlot = u64p(slot)
	case 2:
		a.FSlot = u64p(slot + 3) // a slot of the universe's epochs nothing attests to
	}
	switch rapid.IntRange(0, 3).Draw(t, "fcomm") {
	case 0, 1:
		a.FComm = u64p(uint64(c))
	case 2:
		a.FComm = u64p(2)
	}
	g.push(a)
}

func (g *attGen) prune(t *rapid.T) {
	d := rapid.IntRange(-1, 5).Draw(t, "prune_d")
	ep := int64(g.c.BaseEpoch) + int64(d)
	if ep < 0 {
		ep = 0
	}
	if rapid.IntRange(0, 15).Draw(t, "prune_far") == 0 {
		ep = int64(g.c.BaseEpoch) + 1000
	}
	g.push(AttAction{Op: "prune", Epoch: uint64(ep)})
}

func genAtt(t *rapid.T) *Case {
	g := newAttGen(t)
	t.Repeat(map[string]func(*rapid.T){
		"add-fresh-1":   g.addFresh,
		"add-fresh-2":   g.addFresh,
		"add-single-1":  g.addSingle,
		"add-single-2":  g.addSingle,
		"add-related-1": g.addRelated,
		"add-related-2": g.addRelated,
		"add-related-3": g.addRelated,
		"add-related-4": g.addRelated,
		"add-odd":       g.addOdd,
		"search-1":      g.search,
		"search-2":      g.search,
		"prune":         g.prune,
	})
	return &Case{Pool: "att", Att: g.c}
}

func genOps(t *rapid.T, kind string) *Case {
	c := &OpsCase{}
	var adds []int
	push := func(a OpsAction) {
		if len(c.Actions) >= maxActions {
			return
		}
		if a.Op == "add" {
			adds = append(adds, len(c.Actions))
		}
		c.Actions = append(c.Actions, a)
	}
	fresh := func(t *rapid.T) {
		a := OpsAction{Op: "add", Val: uint64(rapid.IntRange(0, 4).Draw(t, "val")), Epoch: uint64(rapid.IntRange(0, 2).Draw(t, "epoch")), Variant: rapid.IntRange(0, 1).Draw(t, "variant")}
		// validator indices are 64-bit and legal up to VALIDATOR_REGISTRY_LIMIT = 2^40: the same low bits under
		// different high parts are different validators
		hi := rapid.SampledFrom([]uint64{0, 0, 0, 0, 1, 1, 3, 127}).Draw(t, "val_hi") << 32
		a.Val |= hi
		if kind == "attslash" {
			a.Val = 0
			a.Idx1 = subsetOf(t, 6, "idx1")
			a.Idx2 = subsetOf(t, 6, "idx2")
			for _, l := range [][]uint64{a.Idx1, a.Idx2} {
				for k := range l {
					if l[k] >= 3 { // the tail of the (sorted) index list
						l[k] |= hi
					}
				}
			}
		}
		push(a)
	}
	related := func(t *rapid.T) {
		if len(adds) == 0 {
			fresh(t)
			return
		}
		a := c.Actions[adds[rapid.IntRange(0, len(adds)-1).Draw(t, "ref")]]
		switch rapid.IntRange(0, 5).Draw(t, "mode") {
		case 0, 1: // exact duplicate
		case 2: // same validator / same indices, other content
			a.Variant = 1 - a.Variant
		case 4: // same first half (header / attestation), another second half
			a.V2 = 1 - a.V2
		case 5: // same second half, another first half
			a.V1 = 1 - a.V1
		case 3:
			a.Epoch = (a.Epoch + 1) % 3
			if kind == "attslash" && len(a.Idx1) > 1 {
				a.Idx1 = append([]uint64{}, a.Idx1[1:]...) // a slashing that is a subset of an earlier one
			}
		}
		push(a)
	}
	all := func(t *rapid.T) { push(OpsAction{Op: "all"}) }
	t.Repeat(map[string]func(*rapid.T){"fresh-1": fresh, "fresh-2": fresh, "related-1": related, "related-2": related, "all": all})
	return &Case{Pool: kind, Ops: c}
}

// sameLowBitsOtherValidator: two adds for validators whose indices agree in the low 32 bits only
func sameLowBitsOtherValidator(c *OpsCase) bool {
	seen := map[uint32]uint64{}
	for _, a := range c.Actions {
		if a.Op != "add" {
			continue
		}
		for _, v := range append(append([]uint64{a.Val}, a.Idx1...), a.Idx2...) {
			if w, ok := seen[uint32(v)]; ok && w != v {
				return true
			}
			seen[uint32(v)] = v
		}
	}
	return false
}

func subsetOf(t *rapid.T, n int, label string) []uint64 {
	var out []uint64
	for i := 0; i < n; i++ {
		if rapid.Bool().Draw(t, label) {
			out = append(out, uint64(i))
		}
	}
	if len(out) == 0 {
		out = []uint64{uint64(rapid.IntRange(0, n-1).Draw(t, label+"_one"))}
	}
	return out
}

const maxSlot = ^uint64(0)

func genSync(t *rapid.T, forceEarlyAdd bool) *Case {
	c := &SyncCase{}
	cur := rapid.SampledFrom([]uint64{0, 1, 2, 5, 1000, 1 << 40, maxSlot - 1, maxSlot}).Draw(t, "start_slot")
	hasReset := false
	push := func(a SyncAction) {
		if len(c.Actions) < maxActions {
			c.Actions = append(c.Actions, a)
		}
	}
	relSlot := func(t *rapid.T) uint64 {
		base := cur
		if !hasReset {
			// before the first Reset the implementation's notion of "current" is its sentinel
			base = rapid.SampledFrom([]uint64{maxSlot, cur}).Draw(t, "pre_base")
		}
		switch rapid.IntRange(0, 9).Draw(t, "rel") {
		case 0, 1:
			return base
		case 2, 3:
			return base - 1
		case 4, 5:
			return base + 1
		case 6:
			return base - 2
		case 7:
			return base + 2
		case 8:
			return base + uint64(rapid.IntRange(3, 100).Draw(t, "far"))
		default:
			return rapid.SampledFrom([]uint64{0, 1, maxSlot, maxSlot - 1, 12345}).Draw(t, "abs")
		}
	}
	msg := func(t *rapid.T) {
		push(SyncAction{Op: "msg", Slot: relSlot(t), Val: uint64(rapid.IntRange(0, 5).Draw(t, "val")), Root: rapid.IntRange(0, 1).Draw(t, "root")})
	}
	contrib := func(t *rapid.T) {
		push(SyncAction{Op: "contrib", Slot: relSlot(t), Root: rapid.IntRange(0, 1).Draw(t, "root"), Subnet: uint64(rapid.IntRange(0, 3).Draw(t, "subnet")), Bits: rapid.Byte().Draw(t, "bits")})
	}
	reset := func(t *rapid.T) {
		var s uint64
		switch rapid.IntRange(0, 9).Draw(t, "reset_kind") {
		case 0, 1, 2, 3:
			s = cur + 1
		case 4, 5:
			s = cur - 1
		case 6:
			s = cur
		case 7:
			s = cur + uint64(rapid.IntRange(2, 50).Draw(t, "jump"))
		case 8:
			s = cur - uint64(rapid.IntRange(2, 50).Draw(t, "jumpback"))
		default:
			s = rapid.SampledFrom([]uint64{0, 1, maxSlot, maxSlot - 1, 777}).Draw(t, "abs")
		}
		if !hasReset {
			s = cur
		}
		push(SyncAction{Op: "reset", Slot: s})
		cur, hasReset = s, true
	}
	pack := func(t *rapid.T) {
		op := rapid.SampledFrom([]string{"packc", "packa"}).Draw(t, "pack")
		push(SyncAction{Op: op, Slot: relSlot(t), Root: rapid.IntRange(0, 1).Draw(t, "root"), Subnet: uint64(rapid.IntRange(0, 3).Draw(t, "subnet"))})
	}
	if forceEarlyAdd {
		if rapid.Bool().Draw(t, "early_kind") {
			msg(t)
		} else {
			contrib(t)
		}
	}
	t.Repeat(map[string]func(*rapid.T){"msg-1": msg, "msg-2": msg, "contrib-1": contrib, "contrib-2": contrib, "reset-1": reset, "reset-2": reset, "pack": pack})
	return &Case{Pool: "sync", Sync: c}
}

func genSelect(t *rapid.T) *Case {
	c := &SelCase{Root: rapid.IntRange(0, 1).Draw(t, "root")}
	n := rapid.IntRange(0, 6).Draw(t, "nmsgs")
	vals := rapid.Permutation(seq(8)).Draw(t, "vals")
	for i := 0; i < n; i++ {
		c.Msgs = append(c.Msgs, SelMsg{Val: uint64(vals[i]), Root: rapid.IntRange(0, 1).Draw(t, "mroot")})
	}
	k := rapid.IntRange(0, 8).Draw(t, "nmembers")
	for i := 0; i < k; i++ {
		c.Members = append(c.Members, uint64(rapid.IntRange(0, 8).Draw(t, "member")))
	}
	return &Case{Pool: "select", Sel: c}
}

// ---- class tour: directed templates, free details still drawn

// tourAttMixed: single + aggregate for the same data, a conflicting second vote, then a prune that
// removes them, then a re-add — the property's own non-triviality class.
func tourAttMixed(t *rapid.T) *Case {
	g := newAttGen(t)
	e, s, c := rapid.IntRange(0, 1).Draw(t, "e"), g.hot[1], g.hot[2]
	n := g.c.size(e, s, c)
	who := rapid.IntRange(0, n-1).Draw(t, "who")
	single := []byte(strings.Repeat("0", n))
	single[who] = '1'
	agg := []byte(randBits(t, n, 2))
	agg[who] = '1'
	if strings.Count(string(agg), "1") < 2 {
		agg[(who+1)%n] = '1'
	}
	v := rapid.IntRange(0, 1).Draw(t, "v")
	add := func(v int, bits string, kind string) {
		g.push(AttAction{Op: "add", E: e, S: s, C: c, V: v, Bits: bits, Kind: kind})
	}
	steps := []func(){
		func() { add(v, string(single), "single") },
		func() { add(v, string(agg), "fresh-aggregate") },
	}
	if rapid.Bool().Draw(t, "agg_first") {
		steps[0], steps[1] = steps[1], steps[0]
	}
	for _, st := range steps {
		st()
	}
	add(1-v, string(single), "single-of-member-other-data") // conflicting second single vote
	add(1-v, string(agg), "other-data-same-bits")           // all participants already voted
	// a later epoch's aggregate that must survive the prune
	later := e + 1
	g.push(AttAction{Op: "add", E: later, S: s, C: c, V: 0, Bits: randBits(t, g.c.size(later, s, c), 2), Kind: "fresh-aggregate"})
	g.search(t)
	g.push(AttAction{Op: "prune", Epoch: g.c.BaseEpoch + uint64(e) + 2}) // target epoch e < previous(e+2): goes; e+1 stays
	g.search(t)
	add(1-v, string(single), "readd-after-prune")
	for i := rapid.IntRange(0, 6).Draw(t, "extra"); i > 0; i-- {
		g.addRelated(t)
	}
	return &Case{Pool: "att", Att: g.c, Note: "tour:mixed+prune-after-conflict"}
}

// tourAttShapes: repeated superset, bit-length mismatch, all four filter combinations.
func tourAttShapes(t *rapid.T) *Case {
	g := newAttGen(t)
	e, s, c := g.hot[0], g.hot[1], g.hot[2]
	n := g.c.size(e, s, c)
	first := []byte(strings.Repeat("0", n))
	first[0], first[1] = '1', '1'
	second := append([]byte{}, first...)
	second[2] = '1'
	if rapid.Bool().Draw(t, "disjoint") {
		second[0] = '0'
	}
	for _, b := range []string{string(first), string(second), string(second)} {
		g.push(AttAction{Op: "add", E: e, S: s, C: c, V: 0, Bits: b, Kind: "repeated-superset"})
	}
	g.push(AttAction{Op: "add", E: e, S: s, C: 1 - c, V: 0, Bits: randBits(t, n+1+rapid.IntRange(0, 8).Draw(t, "longer"), 2), Kind: "bitlen-mismatch"})
	g.push(AttAction{Op: "add", E: e, S: 1 - s, C: c, V: 0, Bits: randBits(t, rapid.IntRange(1, 2).Draw(t, "shorter"), 1), Kind: "bitlen-mismatch"})
	slot := (g.c.BaseEpoch+uint64(e))*uint64(spec.SLOTS_PER_EPOCH) + uint64(s)
	g.push(AttAction{Op: "search"})
	g.push(AttAction{Op: "search", FSlot: u64p(slot)})
	g.push(AttAction{Op: "search", FComm: u64p(uint64(c))})
	g.push(AttAction{Op: "search", FSlot: u64p(slot), FComm: u64p(uint64(c))})
	g.push(AttAction{Op: "search", FSlot: u64p(slot), FComm: u64p(uint64(1 - c))})
	return &Case{Pool: "att", Att: g.c, Note: "tour:shapes"}
}

func tourSync(t *rapid.T) *Case {
	c := genSync(t, true)
	c.Note = "tour:add-before-first-reset"
	s := c.Sync
	// make sure every reset kind follows, whatever the random part did
	cur := uint64(rapid.IntRange(3, 100).Draw(t, "tour_slot"))
	tail := []SyncAction{{Op: "reset", Slot: cur}, {Op: "msg", Slot: cur}, {Op: "reset", Slot: cur + 1}, {Op: "msg", Slot: cur}, {Op: "contrib", Slot: cur + 2, Bits: 3},
		{Op: "reset", Slot: cur}, {Op: "reset", Slot: cur}, {Op: "msg", Slot: cur + 2}, {Op: "reset", Slot: cur + 40}, {Op: "contrib", Slot: cur + 39, Bits: 1}, {Op: "msg", Slot: cur}}
	if len(s.Actions) > maxActions-len(tail) {
		s.Actions = s.Actions[:maxActions-len(tail)]
	}
	s.Actions = append(s.Actions, tail...)
	return c
}

func tourOps(t *rapid.T, kind string) *Case {
	c := genOps(t, kind)
	c.Note = "tour:dup+conflict"
	a := OpsAction{Op: "add", Val: uint64(rapid.IntRange(0, 4).Draw(t, "tval")), Epoch: 1, Idx1: []uint64{1, 2, 3}, Idx2: []uint64{2, 3}}
	b := a
	b.Variant = 1
	d := a
	d.Val = (a.Val + 1) % 5
	d.Idx1 = []uint64{2, 3}
	head := []OpsAction{a, a, b, d, {Op: "all"}}
	c.Ops.Actions = append(head, c.Ops.Actions...)
	if len(c.Ops.Actions) > maxActions {
		c.Ops.Actions = c.Ops.Actions[:maxActions]
	}
	return c
}

// ------------------------------------------------------------------------------------------------

func TestCheck(t *testing.T) {
	debug.SetMaxStack(64 << 20)
	r := report.Begin("C20")
	defer r.Finish()
	r.Rule("one generated history (<= 60 actions) per case against a fresh pool; after every action of the attestation / slashing / exit pools the unfiltered query is judged against the model. non-trivial: attestation history = single-attester votes and aggregates held for the same data, a reported conflict and a later Prune; slashing/exit history = an exact duplicate, a conflicting second operation and a query with >= 2 held items; sync history = an add before the first Reset or >= 2 different Reset kinds, with adds in >= 3 window positions; Select = members with and without a message. distinct key = (pool, set of action/outcome kinds that occurred, order of first occurrence of the major kinds)")
	r.Assume("the model in checks/c20/poolmodel states, next to each rule, the doc comment it is read from and the reading adopted where the comment is ambiguous",
		"signatures are tagged byte strings: the pools neither verify nor aggregate signatures",
		"committees of one epoch are disjoint (a validator attests once per epoch); AttestationData.Target.Epoch is the epoch of Data.Slot",
		"single-threaded: locking of Search/Prune/Reset belongs to C17",
		"the sync-committee pool has no query (Pack* are stubs): besides the add answers the harness reads its six unexported buffers after every action, read-only, by field name (prevMsgs/currentMsgs/nextMsgs, prevContribs/currentContribs/nextContribs) via reflect+unsafe; a renamed field is a harness failure, not a verdict; no file is added to /repo")
	replay := func(raw json.RawMessage) *report.Failure {
		var c Case
		if err := json.Unmarshal(raw, &c); err != nil {
			return report.Failf("harness", "bad case: %v", err)
		}
		return run(&c, nil)
	}
	r.Regress(replay)
	if r.Replay != "" {
		return
	}
	r.Mandatory("ops:two-validators-equal-modulo-2^32", "att:search-result-held-across-a-later-nonempty-search", "pool:att", "pool:exit", "pool:propslash", "pool:attslash", "pool:sync", "pool:select",
		"att:mixed-singles-aggregates+prune-after-conflict", "att:bitlen-mismatch", "att:search-every-filter-combination", "att:readd-after-prune",
		"pool:bits", "bits:single:one", "bits:single:none", "bits:single:several", "bits:single:committee-mismatch", "bits:covers:length-mismatch", "bits:covers:strict-superset", "bits:covers:not-covered", "bits:or", "bits:bitvector",
		"ops:duplicate+conflict", "sync:add-before-first-reset", "sync:reset-forward+backward+same+jump", "select:member-without-message")

	exec := func(c *Case) *report.Failure {
		ft := newFeat()
		f := run(c, ft)
		r.Eval(1)
		r.Hit("pool:" + c.Pool)
		nontrivial := false
		var major []string
		switch c.Pool {
		case "att":
			major = []string{"single", "agg", "conflict", "prune", "bitlen-mismatch"}
			if ft.has("mixed+prune-after-conflict") {
				nontrivial = true
				r.Hit("att:mixed-singles-aggregates+prune-after-conflict")
				r.Sample("att/mixed+prune-after-conflict", func() any { return c })
			}
			if ft.has("bitlen-mismatch") {
				r.Hit("att:bitlen-mismatch")
			}
			if ft.has("search-none", "search-slot", "search-comm", "search-slot+comm") {
				r.Hit("att:search-every-filter-combination")
			}
			if ft.has("search-result-held-across-a-later-nonempty-search") {
				r.Hit("att:search-result-held-across-a-later-nonempty-search")
			}
			if ft.has("prune-removes") && readdAfterPrune(c.Att) {
				r.Hit("att:readd-after-prune")
			}
			for _, k := range []string{"single", "agg", "mixed-same-data", "conflict-single", "conflict-aggregate", "dup-single", "dup-aggregate", "bitlen-mismatch", "empty", "prune", "prune-removes", "prune-partial", "prune-after-conflict", "search-nonempty"} {
				if ft.has(k) {
					r.Class("att:" + k)
				}
			}
		case "exit", "propslash", "attslash":
			major = []string{"dup", "conflict", "all"}
			if ft.has("dup", "conflict", "all>=2") {
				nontrivial = true
				r.Hit("ops:duplicate+conflict")
			}
			if sameLowBitsOtherValidator(c.Ops) {
				r.Hit("ops:two-validators-equal-modulo-2^32")
			}
			for _, k := range []string{"dup", "conflict-stored", "conflict-refused", "all>=2"} {
				if ft.has(k) {
					r.Class(c.Pool + ":" + k)
				}
			}
		case "sync":
			major = []string{"reset-first", "reset-forward", "reset-backward", "reset-same", "reset-jump", "msg-before-first-reset", "contrib-before-first-reset"}
			early := ft.has("msg-before-first-reset") || ft.has("contrib-before-first-reset")
			if early {
				r.Hit("sync:add-before-first-reset")
				r.Sample("sync/add-before-first-reset", func() any { return c })
			}
			if ft.has("reset-forward", "reset-backward", "reset-same", "reset-jump") {
				r.Hit("sync:reset-forward+backward+same+jump")
			}
			kinds, rel := 0, 0
			for k := range ft.set {
				if strings.HasPrefix(k, "reset-") && k != "reset-first" {
					kinds++
				}
			}
			for _, p := range []string{"previous", "current", "next", "other", "wrap"} {
				if ft.has("msg-"+p) || ft.has("contrib-"+p) {
					rel++
				}
			}
			if (early || kinds >= 2) && rel >= 3 {
				nontrivial = true
			}
			for k := range ft.set {
				r.Class("sync:" + k)
			}
		case "bits":
			major = []string{"single:one", "single:none", "single:several", "single:committee-mismatch", "covers:length-mismatch", "covers:strict-superset", "covers:not-covered", "bitvector"}
			for k := range ft.set {
				r.Class("bits:" + k)
				r.Hit("bits:" + k)
			}
			nontrivial = len(c.Bits.A) >= 2 && (ft.has("or") || ft.has("bitvector") || ft.has("covers:length-mismatch"))
			major = append(major, c.Bits.Kind, fmt.Sprint(len(c.Bits.A)))
			ft.add(c.Bits.Kind)
			ft.add(fmt.Sprint(len(c.Bits.A)))
		case "select":
			if ft.has("member-without-message") {
				r.Hit("select:member-without-message")
				if ft.has("member-matching") {
					nontrivial = true
				}
			}
			for k := range ft.set {
				r.Class("select:" + k)
			}
		}
		if nontrivial {
			r.NonTrivial(c.Pool + "|" + ft.key(major...))
			r.Class(c.Pool + ":non-trivial")
			r.Sample(c.Pool, func() any { return c })
		} else {
			r.Class(c.Pool + ":trivial")
		}
		return f
	}

	sub := 0
	search := func(name string, q, th int, gen func(*rapid.T) *Case) {
		idx := sub
		sub++
		r.Search(t, name, idx, r.N(q, th), func(rt *rapid.T) (any, *report.Failure) {
			c := gen(rt)
			return c, exec(c)
		})
	}
	// free search first: its failures shrink to minimal histories (the tour templates have fixed parts)
	search("att", 30000, 800000, genAtt)
	for _, k := range []string{"exit", "propslash", "attslash"} {
		k := k
		search(k, 4000, 60000, func(rt *rapid.T) *Case { return genOps(rt, k) })
	}
	search("sync", 8000, 150000, func(rt *rapid.T) *Case { return genSync(rt, false) })
	search("select", 3000, 40000, genSelect)
	search("bits", 6000, 200000, genBits)
	// class tour (every mandatory class at every seed)
	search("tour-att-mixed", 80, 800, tourAttMixed)
	search("tour-att-shapes", 40, 400, tourAttShapes)
	search("tour-sync", 40, 400, tourSync)
	for _, k := range []string{"exit", "propslash", "attslash"} {
		k := k
		search("tour-"+k, 24, 240, func(rt *rapid.T) *Case { return tourOps(rt, k) })
	}
}

// readdAfterPrune: some add action repeats, after a prune, an add that preceded the prune.
func readdAfterPrune(c *AttCase) bool {
	type k struct {
		e, s, c, v int
		bits       string
	}
	before := map[k]bool{}
	cur := map[k]bool{}
	pruned := false
	for _, a := range c.Actions {
		switch a.Op {
		case "add":
			kk := k{a.E, a.S, a.C, a.V, a.Bits}
			if pruned && before[kk] {
				return true
			}
			cur[kk] = true
		case "prune":
			pruned = true
			for x := range cur {
				before[x] = true
			}
		}
	}
	return false
}
