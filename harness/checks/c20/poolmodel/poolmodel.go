// Package poolmodel is the reference model of check C20: what the operation pools of
// eth2/pool promise, written as plain sets over strings and integers. It imports nothing from
// the code under test. Every function states, next to it, the sentence of the property / the doc
// comment it is derived from and — where that sentence leaves room — the reading adopted.
//
// The model predicts *which* of "stored" / "error" an add must choose only where the property
// statement, a doc comment or the package's own refusal texts fix it; otherwise it predicts what
// must be observable afterwards.
package poolmodel

import (
	"fmt"
	"sort"
)

// Verdict is what the model demands of the return value of one add call.
type Verdict int

const (
	Either     Verdict = iota // nil or error are both within the promise ("stores it or returns an error")
	MustError                 // the promise fixes an error (a conflict must be reported, nothing can be stored)
	MustAccept                // the doc comment says the item is buffered
)

func (v Verdict) String() string { return [...]string{"either", "must-error", "must-accept"}[v] }

// Problem is a broken promise; Sig is the stable symptom class.
type Problem struct {
	Sig string
	Msg string
}

func problemf(sig, f string, a ...any) *Problem { return &Problem{Sig: sig, Msg: fmt.Sprintf(f, a...)} }

// ------------------------------------------------------------------------------------------------
// Attestation pool

// Att is one attestation as the harness handed it to AddAttestation.
type Att struct {
	ID        string   // byte identity of the whole attestation: data root | bitlist bytes | signature
	Data      string   // AttestationData hash-tree-root (hex)
	Epoch     uint64   // Data.Target.Epoch — the epoch a vote counts for and the key Prune is documented on
	Slot      uint64   // Data.Slot
	Comm      uint64   // Data.Index
	Bits      []bool   // bit i of the aggregation bitlist; len(Bits) is the bitlist length
	Committee []uint64 // committee argument of the add call
}

func (a *Att) ones() (n int) {
	for _, b := range a.Bits {
		if b {
			n++
		}
	}
	return
}

// wellFormed: the bitlist has exactly one bit per committee member.
func (a *Att) wellFormed() bool { return len(a.Bits) == len(a.Committee) }

// participants maps set bits through the committee (only meaningful when wellFormed).
func (a *Att) participants() []uint64 {
	var out []uint64
	for i, b := range a.Bits {
		if b && i < len(a.Committee) {
			out = append(out, a.Committee[i])
		}
	}
	return out
}

type voteKey struct{ val, epoch uint64 }

type AttPool struct {
	// accepted (add returned nil) and not yet pruned
	singles map[voteKey]string // (validator, target epoch) -> data voted for by a single-attester attestation
	items   map[string]*Att    // ID -> accepted attestation (singles and aggregates)
	aggs    map[string][]*Att  // data -> accepted aggregates (>= 2 participants), in arrival order
	aggVote map[voteKey]bool   // (validator, target epoch) took part in an accepted, well-formed aggregate
	pruned  map[string]bool    // IDs removed by Prune and not re-added since (for diagnostics only)
	// an aggregate whose bitlist length differs from its committee was accepted at some point: the
	// participants of such an item are undefined, so the acceptance demands below are switched off
	sawMalformed bool
	// Why the last Expect call answered what it did (evidence classes, failure signatures).
	LastReason string
}

func NewAttPool() *AttPool {
	return &AttPool{singles: map[voteKey]string{}, items: map[string]*Att{}, aggs: map[string][]*Att{}, aggVote: map[voteKey]bool{}, pruned: map[string]bool{}}
}

// Expect says what the return value of AddAttestation(a) must be, before the call.
//
// Property: "either stores it or returns an error and never panics; an exact duplicate is absorbed
// and a conflicting second vote by the same validator in the same epoch is reported."
//
// Readings adopted (each is the one under which the code is right on two-step histories):
//
//   - single-attester vote (one bit): `individual` is documented "(validator, epoch) -> individual
//     attestation" and the code comment reads "double votes are slashable bad behavior. We mark it
//     as a bad attestation". A second single vote by the same validator for the same target epoch
//     but other data, while the first is still held (not pruned), MUST be an error. Single votes
//     are compared with single votes only: the two indexes (individual / aggPerValidator) are
//     documented separately and nothing promises a cross check.
//   - single vote whose bitlist length differs from the committee: the code comment on that path
//     says the error covers "the bitfield length doesn't match the committee" — MUST be an error
//     (the participant is undefined, so nothing can be stored).
//   - aggregate: aggPerValidator is documented "if all aggregate participants already voted, it
//     can be ignored (and maybe slashed if bad double votes)" and the error text is "all
//     participants voted for other data this epoch already". Demanded exactly then: the pool holds
//     no aggregate for this data yet and every participant took part in a held aggregate of the
//     same target epoch (which is then necessarily for other data). A *partial* overlap with
//     other data cannot be rejected without losing honest votes ("every attester counts") and is
//     not demanded; neither is a late full conflict for data the pool already has an entry for.
//   - "stores it or returns an error" would be met by a pool that refuses everything; the package
//     documents, in its comments and error texts, the reasons for which it refuses: empty bitlist,
//     bitlist/committee length mismatch, double vote, bitfields of different length for the same
//     data, "all participants voted for other data this epoch already". Reading: an error must be
//     one of those. So a well-formed single vote by a validator with no held single vote for that
//     target epoch MUST be stored, and so must a well-formed aggregate that either is for data the
//     pool already holds aggregates of (equal bit length), or has at least one participant who
//     takes part in no held aggregate of that target epoch.
//   - everything else (duplicates, empty bitlists, aggregates of the wrong length, partial
//     conflicts): Either — but no panic, and the consequences of a nil return are checked by
//     CheckSearch.
func (m *AttPool) Expect(a *Att) Verdict {
	m.LastReason = ""
	n := a.ones()
	if n == 0 {
		m.LastReason = "empty"
		return Either
	}
	if n == 1 {
		if !a.wellFormed() {
			m.LastReason = "single-length-mismatch"
			return MustError
		}
		v := a.participants()[0]
		if d, ok := m.singles[voteKey{v, a.Epoch}]; ok {
			if d != a.Data {
				m.LastReason = "conflict-single"
				return MustError
			}
			m.LastReason = "dup-single"
			return Either
		}
		m.LastReason = "fresh-single"
		return MustAccept
	}
	if !a.wellFormed() {
		m.LastReason = "aggregate-length-mismatch"
		return Either
	}
	if _, held := m.items[a.ID]; held {
		m.LastReason = "dup-aggregate"
		return Either
	}
	if len(m.aggs[a.Data]) == 0 {
		all := true
		for _, v := range a.participants() {
			if !m.aggVote[voteKey{v, a.Epoch}] {
				all = false
				break
			}
		}
		if all {
			m.LastReason = "conflict-aggregate"
			return MustError
		}
		if m.sawMalformed {
			return Either
		}
		m.LastReason = "fresh-aggregate"
		return MustAccept
	}
	for _, it := range m.aggs[a.Data] {
		if len(it.Bits) != len(a.Bits) {
			return Either
		}
	}
	if m.sawMalformed {
		return Either
	}
	m.LastReason = "further-aggregate"
	return MustAccept
}

// Added records the outcome of the call. Only a nil return stores ("stores it or returns an error").
func (m *AttPool) Added(a *Att, accepted bool) {
	if !accepted {
		return
	}
	n := a.ones()
	if n == 0 {
		return // nothing to hold, nothing demanded
	}
	delete(m.pruned, a.ID)
	if _, dup := m.items[a.ID]; dup {
		return // exact duplicate: absorbed, the model state does not change
	}
	cp := *a
	m.items[a.ID] = &cp
	if n == 1 {
		if a.wellFormed() {
			k := voteKey{a.participants()[0], a.Epoch}
			if _, ok := m.singles[k]; !ok {
				m.singles[k] = a.Data
			}
		}
		return
	}
	m.aggs[a.Data] = append(m.aggs[a.Data], &cp)
	if !a.wellFormed() {
		m.sawMalformed = true
	}
	if a.wellFormed() {
		for _, v := range a.participants() {
			m.aggVote[voteKey{v, a.Epoch}] = true
		}
	}
}

// prev is Epoch.Previous of the spec: max(e-1, 0).
func prev(e uint64) uint64 {
	if e == 0 {
		return 0
	}
	return e - 1
}

// Prune — doc comment: "Prune pool based on current epoch, attestations which cannot be included
// anymore will get pruned." An attestation can be included while its target epoch is the current
// or the previous epoch (process_attestation: target.epoch in (previous_epoch, current_epoch)),
// so exactly the items with Target.Epoch < previous(epoch) go; everything else stays. previous(0)
// is 0. Returns how many held items were removed.
func (m *AttPool) Prune(epoch uint64) (removed int) {
	min := prev(epoch)
	for id, it := range m.items {
		if it.Epoch < min {
			delete(m.items, id)
			m.pruned[id] = true
			removed++
		}
	}
	for d, l := range m.aggs {
		if len(l) > 0 && l[0].Epoch < min { // all aggregates of one data share its target epoch
			delete(m.aggs, d)
		}
	}
	for k := range m.singles {
		if k.epoch < min {
			delete(m.singles, k)
		}
	}
	for k := range m.aggVote {
		if k.epoch < min {
			delete(m.aggVote, k)
		}
	}
	return
}

// Returned is one attestation a Search call handed back.
type Returned struct {
	ID   string
	Data string
	Slot uint64
	Comm uint64
	Bits []bool
}

// CheckSearch judges the result of Search(WithSlot?, WithCommittee?).
//
// Property: "Every item a pool query returns is one that was added, unaltered and matching the
// query filter, every stored aggregate ... is returned until pruned, and pruning removes exactly the
// items that can no longer be included."
//
//  1. every returned item is byte-identical (ID) to a held item — one whose add returned nil and
//     that no Prune since has made un-includable;
//  2. it matches the filter (Data.Slot, Data.Index);
//  3. no item appears twice ("an exact duplicate changes nothing observable");
//  4. no attester is lost: for every data matching the filter, the union of the bit positions of
//     the returned aggregates contains the union over all held aggregates for that data.
//     Reading: the pool documents itself as the "minimum representation of everything attesting"
//     and keeps aggregates that are "already covered by larger aggregates" aside, so an accepted
//     aggregate whose participants are all present in what Search returns has been *absorbed*
//     like a duplicate and need not come back itself; what may not happen is that a participant of
//     an accepted aggregate disappears ("every attester counts"). Single-attester votes are not
//     covered by the sentence ("every stored aggregate") and Search documents them as a TODO:
//     returning them is allowed, not demanded.
func (m *AttPool) CheckSearch(slot, comm *uint64, got []Returned) *Problem {
	seen := map[string]bool{}
	union := map[string]map[int]bool{}
	for _, g := range got {
		it, ok := m.items[g.ID]
		if !ok {
			if m.pruned[g.ID] {
				return problemf("Search/pruned-item-returned", "Search returned an attestation for data %s slot %d that Prune made un-includable", short(g.Data), g.Slot)
			}
			return problemf("Search/returned-not-added", "Search returned an attestation (data %s, bits %s) that is not byte-identical to any held one", short(g.Data), bitstr(g.Bits))
		}
		if slot != nil && g.Slot != *slot {
			return problemf("Search/filter-mismatch", "Search(slot=%d) returned an attestation of slot %d", *slot, g.Slot)
		}
		if comm != nil && g.Comm != *comm {
			return problemf("Search/filter-mismatch", "Search(committee=%d) returned an attestation of committee %d", *comm, g.Comm)
		}
		if it.Slot != g.Slot || it.Comm != g.Comm {
			return problemf("Search/returned-not-added", "returned item disagrees with the held one on slot/index")
		}
		if seen[g.ID] {
			return problemf("Search/duplicate-item", "Search returned the same attestation twice (data %s, bits %s)", short(g.Data), bitstr(g.Bits))
		}
		seen[g.ID] = true
		u := union[g.Data]
		if u == nil {
			u = map[int]bool{}
			union[g.Data] = u
		}
		for i, b := range g.Bits {
			if b {
				u[i] = true
			}
		}
	}
	datas := make([]string, 0, len(m.aggs))
	for d := range m.aggs {
		datas = append(datas, d)
	}
	sort.Strings(datas)
	for _, d := range datas {
		l := m.aggs[d]
		if len(l) == 0 {
			continue
		}
		if slot != nil && l[0].Slot != *slot {
			continue
		}
		if comm != nil && l[0].Comm != *comm {
			continue
		}
		for _, it := range l {
			for i, b := range it.Bits {
				if b && !union[d][i] {
					return problemf("Search/attester-lost", "aggregate %s for data %s (slot %d, committee %d, target epoch %d) was accepted and not pruned, but participant bit %d is in nothing Search returned for that data", bitstr(it.Bits), short(d), it.Slot, it.Comm, it.Epoch, i)
				}
			}
		}
	}
	return nil
}

// Held reports how many items the model holds (diagnostics / evidence).
func (m *AttPool) Held() int { return len(m.items) }

// HasSingleAndAggregate: some data is held both through a single vote and through an aggregate.
func (m *AttPool) HasSingleAndAggregate() bool {
	for _, it := range m.items {
		if it.ones() == 1 && len(m.aggs[it.Data]) > 0 {
			return true
		}
	}
	return false
}

func short(s string) string {
	if len(s) > 8 {
		return s[:8]
	}
	return s
}

func bitstr(b []bool) string {
	s := make([]byte, len(b))
	for i, v := range b {
		s[i] = '0'
		if v {
			s[i] = '1'
		}
	}
	return string(s)
}

// ------------------------------------------------------------------------------------------------
// Slashing and exit pools: a set.

// SetPool models AttesterSlashingPool, ProposerSlashingPool and VoluntaryExitPool. None has a
// prune; All() documents nothing beyond its name. Property: add "either stores it or returns an
// error"; "an exact duplicate is absorbed"; "every item a pool query returns is one that was added,
// unaltered"; "every stored ... slashing and exit is returned".
// Reading: stored == the add returned nil. Whether a second, different operation for the same
// validator (a second exit, a second proposer slashing) is stored or refused is not promised
// either way; whichever the pool answers, All() must agree with its answers. The only refusal the
// package documents is "already have" one for that validator / that message ("proposer %d is
// already getting slashed", "already have exit for validator %d", "already have an attester
// slashing for message %s"; AddAttesterSlashing: "does not filter slashings that are a subset of
// other slashings. The pool merely collects them"), so an operation whose key (validator index;
// for attester slashings the whole message) matches nothing held MUST be stored.
type SetPool struct {
	held map[string]bool
	keys map[string]bool
}

func NewSetPool() *SetPool { return &SetPool{held: map[string]bool{}, keys: map[string]bool{}} }

func (m *SetPool) Expect(id, key string) Verdict {
	if m.held[id] || m.keys[key] {
		return Either
	}
	return MustAccept
}

func (m *SetPool) Added(id, key string, accepted bool) {
	if accepted {
		m.held[id] = true
		m.keys[key] = true
	}
}

func (m *SetPool) Holds(id string) bool { return m.held[id] }
func (m *SetPool) Len() int             { return len(m.held) }

// CheckAll: All() is exactly the held set, each item once.
func (m *SetPool) CheckAll(got []string) *Problem {
	seen := map[string]bool{}
	for _, id := range got {
		if !m.held[id] {
			return problemf("All/returned-not-added", "All() returned an item (%s) that is not byte-identical to any item whose add returned nil", short(id))
		}
		if seen[id] {
			return problemf("All/duplicate-item", "All() returned item %s twice", short(id))
		}
		seen[id] = true
	}
	ids := make([]string, 0, len(m.held))
	for id := range m.held {
		ids = append(ids, id)
	}
	sort.Strings(ids)
	for _, id := range ids {
		if !seen[id] {
			return problemf("All/item-lost", "item %s was accepted (add returned nil) but All() does not return it", short(id))
		}
	}
	return nil
}

// ------------------------------------------------------------------------------------------------
// Sync-committee pool

// SyncPool — doc comment of SyncCommitteePool: "The sync committee messages [contributions] of the
// previous, current and next slot are buffered. As soon as a slot is done, Reset(slot) should be
// called to transition to a new slot, rotating out buffers."
// The pool has no query (PackContribution / PackAggregate are stubs returning nil). Through the
// exported API only the answer of each add and the absence of panics are observable; the harness
// additionally reads the six buffers (read-only, by field name) after every action so that
// "stores" and "rotating out buffers" can be judged at all.
//
// Readings:
//   - after Reset(s) the current slot is s; an add for slot s-1, s or s+1 MUST be buffered (nil), an
//     add for any other slot cannot be stored and MUST be an error. Before the first Reset the
//     pool has no current slot: nothing is promised except "stores or returns an error, no
//     panic". Slot arithmetic at the two ends of uint64 (s = 0 looking back, s = 2^64-1 looking
//     forward) is not promised either way for the answer of an add.
//   - a nil answer means stored: the item is in the buffer of its slot (before the first Reset: in
//     some buffer) and stays there while its slot stays inside the window, i.e. across Reset to the
//     same slot (documented no-op: "rotating" by zero) and Reset to the next / the previous slot
//     (rotation by one: two of the three slots remain). A Reset that moves the current slot by two
//     or more is a fresh start; what survives it is not promised. The first Reset likewise.
//   - per (slot, validator) the pool keeps one message; which one of several accepted messages of
//     the same validator for the same slot survives is not promised, one of them must.
//   - nothing is in a buffer that was not added with a nil answer, byte-identical, and nothing is
//     in the buffer of another slot than its own (that is what "rotating out" means). Multiplicity
//     of identical contributions is not judged.
type SyncPool struct {
	HasReset bool
	Cur      uint64

	accepted map[string]SyncItem            // ID -> item, every add answered nil
	msgs     map[uint64]map[uint64][]string // slot -> validator -> IDs of accepted messages still demanded
	contribs map[uint64]map[string]bool     // slot -> IDs of accepted contributions still demanded
	early    []SyncItem                     // accepted before the first Reset (demanded "somewhere" until it)
}

// SyncItem is a message (Msg) or contribution as handed to the pool.
type SyncItem struct {
	ID   string
	Slot uint64
	Val  uint64 // messages: validator index
	Msg  bool
}

const maxU64 = ^uint64(0)

func NewSyncPool() *SyncPool {
	return &SyncPool{accepted: map[string]SyncItem{}, msgs: map[uint64]map[uint64][]string{}, contribs: map[uint64]map[string]bool{}}
}

// Reset applies the retention rule above.
func (m *SyncPool) Reset(slot uint64) {
	drop := func(s uint64) { delete(m.msgs, s); delete(m.contribs, s) }
	switch {
	case !m.HasReset:
		m.early = nil
	case slot == m.Cur:
	case slot == m.Cur+1: // forward (wrapping, as "next slot" is read modulo 2^64 by any implementation using uint64)
		drop(m.Cur - 1)
	case slot+1 == m.Cur: // backward
		drop(m.Cur + 1)
	default:
		m.msgs = map[uint64]map[uint64][]string{}
		m.contribs = map[uint64]map[string]bool{}
	}
	m.HasReset, m.Cur = true, slot
}

// Added records the answer of an add.
func (m *SyncPool) Added(it SyncItem, accepted bool) {
	if !accepted {
		return
	}
	m.accepted[it.ID] = it
	if !m.HasReset {
		m.early = append(m.early, it)
		return
	}
	if it.Slot != m.Cur && it.Slot != m.Cur-1 && it.Slot != m.Cur+1 {
		return // accepted outside the window: Expect already judged that
	}
	if it.Msg {
		if m.msgs[it.Slot] == nil {
			m.msgs[it.Slot] = map[uint64][]string{}
		}
		m.msgs[it.Slot][it.Val] = append(m.msgs[it.Slot][it.Val], it.ID)
	} else {
		if m.contribs[it.Slot] == nil {
			m.contribs[it.Slot] = map[string]bool{}
		}
		m.contribs[it.Slot][it.ID] = true
	}
}

// SyncSnapshot is what the buffers hold: index 0 = previous, 1 = current, 2 = next; IDs of items.
type SyncSnapshot struct {
	Msgs     [3][]string
	Contribs [3][]string
}

// CheckHeld judges a snapshot of the buffers against the readings above.
func (m *SyncPool) CheckHeld(s *SyncSnapshot) *Problem {
	where := map[string][]int{}
	names := [3]string{"previous", "current", "next"}
	for b := 0; b < 3; b++ {
		for _, list := range [][]string{s.Msgs[b], s.Contribs[b]} {
			for _, id := range list {
				it, ok := m.accepted[id]
				if !ok {
					return problemf("SyncCommitteePool/held-not-added", "the %s-slot buffer holds an item that is not byte-identical to any item whose add returned nil", names[b])
				}
				if m.HasReset {
					if want := m.Cur - 1 + uint64(b); it.Slot != want {
						return problemf("SyncCommitteePool/misplaced-item", "pool is at slot %d: its %s-slot buffer (slot %d) holds an item made for slot %d", m.Cur, names[b], want, it.Slot)
					}
				}
				where[id] = append(where[id], b)
			}
		}
	}
	if !m.HasReset {
		for _, it := range m.early {
			if it.Msg {
				continue // a later message of the same validator may have replaced it
			}
			if len(where[it.ID]) == 0 {
				return problemf("SyncCommitteePool/item-lost", "a contribution for slot %d was accepted before the first Reset but is in no buffer", it.Slot)
			}
		}
		byVal := map[[2]uint64]bool{}
		for _, it := range m.early {
			if it.Msg && len(where[it.ID]) > 0 {
				byVal[[2]uint64{it.Slot, it.Val}] = true
			}
		}
		for _, it := range m.early {
			if it.Msg && !byVal[[2]uint64{it.Slot, it.Val}] {
				return problemf("SyncCommitteePool/item-lost", "a message of validator %d for slot %d was accepted before the first Reset but no message of that validator and slot is in any buffer", it.Val, it.Slot)
			}
		}
		return nil
	}
	for b := 0; b < 3; b++ {
		slot := m.Cur - 1 + uint64(b)
		in := map[string]bool{}
		for _, id := range s.Msgs[b] {
			in[id] = true
		}
		for _, id := range s.Contribs[b] {
			in[id] = true
		}
		vals := make([]uint64, 0, len(m.msgs[slot]))
		for v := range m.msgs[slot] {
			vals = append(vals, v)
		}
		sort.Slice(vals, func(i, j int) bool { return vals[i] < vals[j] })
		for _, v := range vals {
			found := false
			for _, id := range m.msgs[slot][v] {
				if in[id] {
					found = true
				}
			}
			if !found {
				return problemf("SyncCommitteePool/item-lost", "pool is at slot %d: a message of validator %d for slot %d was accepted and its slot has not left the window, but the %s-slot buffer holds no message of that validator", m.Cur, v, slot, names[b])
			}
		}
		ids := make([]string, 0, len(m.contribs[slot]))
		for id := range m.contribs[slot] {
			ids = append(ids, id)
		}
		sort.Strings(ids)
		for _, id := range ids {
			if !in[id] {
				return problemf("SyncCommitteePool/item-lost", "pool is at slot %d: a contribution for slot %d was accepted and its slot has not left the window, but the %s-slot buffer does not hold it", m.Cur, slot, names[b])
			}
		}
	}
	return nil
}

func (m *SyncPool) Expect(slot uint64) Verdict {
	if !m.HasReset {
		return Either
	}
	c := m.Cur
	if slot == c || (c > 0 && slot == c-1) || (c < maxU64 && slot == c+1) {
		return MustAccept
	}
	if (c == 0 && slot == maxU64) || (c == maxU64 && slot == 0) {
		return Either
	}
	return MustError
}

// Relation names the position of slot relative to the window (evidence classes).
func (m *SyncPool) Relation(slot uint64) string {
	if !m.HasReset {
		return "before-first-reset"
	}
	switch {
	case slot == m.Cur:
		return "current"
	case m.Cur > 0 && slot == m.Cur-1:
		return "previous"
	case m.Cur < maxU64 && slot == m.Cur+1:
		return "next"
	case (m.Cur == 0 && slot == maxU64) || (m.Cur == maxU64 && slot == 0):
		return "wrap"
	}
	return "other"
}

// ------------------------------------------------------------------------------------------------
// SyncCommitteeMessages.Select

// SelectExpect — Select(root, members) has no doc comment; its name and signature say: of the
// listed members, the messages they sent for this block root. A member without a message
// contributes nothing (a committee member that has not voted yet is the normal case, not a
// precondition violation). Because a sync committee may list a validator twice, multiplicity and
// order are not judged: the result must be, as a set, the messages of listed members whose root
// matches, and never longer than the member list.
func SelectExpect(msgRoot map[uint64]string, root string, members []uint64) map[uint64]bool {
	want := map[uint64]bool{}
	for _, v := range members {
		if r, ok := msgRoot[v]; ok && r == root {
			want[v] = true
		}
	}
	return want
}
