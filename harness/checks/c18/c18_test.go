// C18 — cancellation and execution-engine faults always surface as errors (fault enumeration).
// For every transition step of generated chains: (a) a counting context first counts the polls N
// of the step, then the step is re-run from a fresh copy once for every k in 1..N with the context
// reporting Canceled from the k-th poll on: the step must return an error. (b) a scripted engine
// answers each of its calls with every combination of {valid, invalid, error}: any verdict other
// than all-valid must give an error and leave latest_execution_payload_header untouched; all-valid
// must give the undisturbed result and the engine must have been shown exactly the payload,
// versioned hashes and parent beacon root the specification prescribes.
package c18

import (
	"bytes"
	"context"
	"encoding/json"
	"errors"
	"fmt"
	"math/bits"
	"runtime"
	"strings"
	"testing"

	"github.com/protolambda/zrnt/eth2/beacon/bellatrix"
	"github.com/protolambda/zrnt/eth2/beacon/capella"
	"github.com/protolambda/zrnt/eth2/beacon/common"
	"github.com/protolambda/zrnt/eth2/beacon/deneb"
	"github.com/protolambda/zrnt/eth2/beacon/phase0"
	"pgregory.net/rapid"

	"zrntverif/refspec"
	"zrntverif/refssz"
	"zrntverif/report"
	"zrntverif/sim"
	"zrntverif/zb"
)

// countingCtx counts Err() polls and reports Canceled from the failFrom-th poll on (0 = never).
type countingCtx struct {
	context.Context
	polls    int
	failFrom int
	sites    []string
	record   bool
	// siteOnly: report Canceled at poll failFrom and at later polls only while they come from the
	// same function (a poll that sees a cancelled context must lead to an error whatever later
	// polls say; staying cancelled within the function keeps double reads of ctx.Err() sound)
	siteOnly bool
	hitSite  string
	released bool
	// why: what Err() reports once the context has ended (nil = context.Canceled); a context ends either by
	// cancel() or by its deadline, and both mean "stop"
	why error
}

func (c *countingCtx) reason() error {
	if c.why != nil {
		return c.why
	}
	return context.Canceled
}

func pollSite() string {
	var pcs [8]uintptr
	n := runtime.Callers(3, pcs[:])
	frames := runtime.CallersFrames(pcs[:n])
	for {
		fr, more := frames.Next()
		if strings.Contains(fr.Function, "protolambda/zrnt") {
			return fr.Function[strings.LastIndex(fr.Function, "/")+1:]
		}
		if !more {
			return "?"
		}
	}
}

func (c *countingCtx) Err() error {
	c.polls++
	if c.record {
		c.sites = append(c.sites, pollSite())
	}
	if c.failFrom > 0 && c.polls >= c.failFrom {
		if !c.siteOnly {
			return c.reason()
		}
		if c.released {
			return nil
		}
		site := pollSite()
		if c.polls == c.failFrom {
			c.hitSite = site
			return c.reason()
		}
		if site == c.hitSite {
			return c.reason()
		}
		c.released = true
		return nil
	}
	return nil
}

func (c *countingCtx) Done() <-chan struct{} { return nil }

// ---------------------------------------------------------------- scripted engine

const (
	vValid = iota
	vInvalid
	vError
)

type seen struct {
	payload []byte // SSZ of the payload shown
	hashes  [][32]byte
	parent  [32]byte
	call    string
}

type engine struct {
	spec    *common.Spec
	verdict [3]int // IsValidBlockHash, IsValidVersionedHashes, NotifyNewPayload
	flavour int    // which kind of error an "error" verdict returns
	calls   []seen
	// flagWithErr: some query was answered (true, error)
	flagWithErr bool
}

// An engine client fails in different ways; all of them are engine faults while the CALLER's context is
// alive — in particular the client's own timeout or shutdown, which surface as wrapped context errors.
var engineErrors = []error{
	errors.New("scripted engine error"),
	fmt.Errorf("engine request: %w", context.DeadlineExceeded),
	fmt.Errorf("engine client closed: %w", context.Canceled),
}

func (e *engine) answer(i int) (bool, error) {
	switch e.verdict[i] {
	case vInvalid:
		return false, nil
	case vError:
		// the verdict flag beside an error carries no meaning; a client may leave it at either value
		flag := (e.flavour/len(engineErrors)+i)%2 == 1
		if flag {
			e.flagWithErr = true
		}
		return flag, engineErrors[(e.flavour+i)%len(engineErrors)]
	}
	return true, nil
}

func ser(spec *common.Spec, o common.SpecObj) []byte {
	b, _ := zb.SerializeSpecObj(spec, o)
	return b
}

func (e *engine) BellatrixIsValidBlockHash(ctx context.Context, p *bellatrix.ExecutionPayload) (bool, error) {
	e.calls = append(e.calls, seen{payload: ser(e.spec, p), call: "IsValidBlockHash"})
	return e.answer(0)
}
func (e *engine) BellatrixNotifyNewPayload(ctx context.Context, p *bellatrix.ExecutionPayload) (bool, error) {
	e.calls = append(e.calls, seen{payload: ser(e.spec, p), call: "NotifyNewPayload"})
	return e.answer(2)
}
func (e *engine) CapellaIsValidBlockHash(ctx context.Context, p *capella.ExecutionPayload) (bool, error) {
	e.calls = append(e.calls, seen{payload: ser(e.spec, p), call: "IsValidBlockHash"})
	return e.answer(0)
}
func (e *engine) CapellaNotifyNewPayload(ctx context.Context, p *capella.ExecutionPayload) (bool, error) {
	e.calls = append(e.calls, seen{payload: ser(e.spec, p), call: "NotifyNewPayload"})
	return e.answer(2)
}
func (e *engine) DenebIsValidBlockHash(ctx context.Context, p *deneb.ExecutionPayload, parent common.Root) (bool, error) {
	e.calls = append(e.calls, seen{payload: ser(e.spec, p), parent: parent, call: "IsValidBlockHash"})
	return e.answer(0)
}
func (e *engine) DenebIsValidVersionedHashes(ctx context.Context, p *deneb.ExecutionPayload, hashes []common.Hash32) (bool, error) {
	s := seen{payload: ser(e.spec, p), call: "IsValidVersionedHashes"}
	for _, h := range hashes {
		s.hashes = append(s.hashes, h)
	}
	e.calls = append(e.calls, s)
	return e.answer(1)
}
func (e *engine) DenebNotifyNewPayload(ctx context.Context, p *deneb.ExecutionPayload, parent common.Root) (bool, error) {
	e.calls = append(e.calls, seen{payload: ser(e.spec, p), parent: parent, call: "NotifyNewPayload"})
	return e.answer(2)
}

// ---------------------------------------------------------------- the step under fault injection

type step struct {
	kind  string // slots | block
	slot  uint64
	block *refspec.SignedBlock
	env   *common.BeaconBlockEnvelope
	// noValidate: state_transition(validate_result=False) — an error can then only come from the
	// processing itself, never from the final state-root comparison
	noValidate bool
}

// runStep executes the step on a fresh copy of the lock's pre-state.
func runStep(l *sim.Lock, spec *common.Spec, ctx context.Context, st *step) (post common.BeaconState, err error, panicked bool) {
	cp, cerr := l.Lib.BeaconState.CopyState()
	if cerr != nil {
		return nil, cerr, false
	}
	s := zb.Upgradeable(cp)
	epc := l.Epc.Clone()
	err, panicked = sim.Guard(func() error {
		if st.kind == "slots" {
			return common.ProcessSlots(ctx, spec, epc, s, common.Slot(st.slot))
		}
		return common.StateTransition(ctx, spec, epc, s, st.env, !st.noValidate)
	})
	return s, err, panicked
}

func inject(r *report.Run, l *sim.Lock, st *step, fork int) *report.Failure {
	forkName := refspec.ForkNames[fork]
	// pass 1: count polls, remember call sites
	cc := &countingCtx{Context: context.Background(), record: true}
	_, err, panicked := runStep(l, l.LibSpec, cc, st)
	if panicked {
		return report.Failf("undisturbed/panic", "%s step at slot %d: %v", st.kind, st.slot, err)
	}
	if err != nil {
		r.Class("discarded_other_property(C01/C02)")
		return errStop
	}
	n := cc.polls
	sites := cc.sites
	ks := make([]int, 0, n)
	if n <= 400 {
		for k := 1; k <= n; k++ {
			ks = append(ks, k)
		}
	} else {
		for k := 1; k <= 50; k++ {
			ks = append(ks, k)
		}
		for k := 51; k <= n-50; k += (n - 100) / 300 {
			ks = append(ks, k)
		}
		for k := n - 49; k <= n; k++ {
			ks = append(ks, k)
		}
	}
	distinctSites := map[string]bool{}
	for _, k := range ks {
		// the reason alternates between cancel() and an expired deadline
		var why error
		whyName := "canceled"
		if (k+int(st.slot))%2 == 1 {
			why, whyName = context.DeadlineExceeded, "deadline-exceeded"
		}
		r.Hit("cancel-reason:" + whyName)
		fc := &countingCtx{Context: context.Background(), failFrom: k, why: why}
		_, err, panicked := runStep(l, l.LibSpec, fc, st)
		r.Eval(1)
		site := "?"
		if k-1 < len(sites) {
			site = sites[k-1]
		}
		if panicked {
			return report.Failf("cancel/panic", "%s %s step at slot %d, cancellation at poll %d/%d (%s): %v", forkName, st.kind, st.slot, k, n, site, err)
		}
		if err == nil {
			return report.Failf("cancel/success-after-cancel:"+site, "%s %s step at slot %d reports success although the context had ended (%s) at poll %d of %d (polled by %s)", forkName, st.kind, st.slot, whyName, k, n, site)
		}
		distinctSites[site] = true
		r.NonTrivial(fmt.Sprintf("cancel|%s|%s|%s", forkName, st.kind, site))
		// second mode: the cancellation is visible to this polling function only; a poll that saw it
		// must still turn the whole step into an error (a swallowed cancellation cannot hide behind a later poll)
		// Block steps run this mode with validate_result=false: a swallowed cancellation that merely skipped
		// work must not be "reported" by the state-root comparison at the very end.
		oc := &countingCtx{Context: context.Background(), failFrom: k, siteOnly: true, why: why}
		so := *st
		so.noValidate = st.kind == "block"
		_, err, panicked = runStep(l, l.LibSpec, oc, &so)
		r.Eval(1)
		if panicked {
			return report.Failf("cancel/panic", "%s %s step at slot %d, cancellation seen only by poll %d/%d (%s): %v", forkName, st.kind, st.slot, k, n, site, err)
		}
		if err == nil && oc.polls >= k { // (a poll that only exists on the validating path is never reached here)
			return report.Failf("cancel/swallowed:"+site, "%s %s step at slot %d reports success although poll %d of %d (in %s) observed an ended context (%s)", forkName, st.kind, st.slot, k, n, site, whyName)
		}
	}
	if st.kind == "slots" {
		// targets that are 2^40 … 2^64-1 slots away: the call cannot complete, the context ends at its 1st..3rd
		// poll, so anything but an error is "success for work that was not done"
		ls, _ := l.Lib.Slot()
		cur := uint64(ls)
		for i, d := range []uint64{1 << 40, 1 << 62, 1<<63 - 1, 1 << 63, 1<<63 + 5, ^uint64(0) - cur} {
			far := *st
			far.slot = cur + d
			k := 1 + i%3
			fc := &countingCtx{Context: context.Background(), failFrom: k}
			post, err, panicked := runStep(l, l.LibSpec, fc, &far)
			r.Eval(1)
			if panicked {
				return report.Failf("cancel/panic", "%s: ProcessSlots from slot %d to slot %d, cancellation at poll %d: %v", forkName, cur, far.slot, k, err)
			}
			if err == nil {
				at := uint64(0)
				if post != nil {
					s, _ := post.Slot()
					at = uint64(s)
				}
				return report.Failf("cancel/success-far-target", "%s: ProcessSlots from slot %d to slot %d (2^%d.. slots ahead) with a context that ends at its poll %d reports success; the state is at slot %d, the context was polled %d times", forkName, cur, far.slot, bits.Len64(d)-1, k, at, fc.polls)
			}
		}
		r.Hit("cancel:target-up-to-2^64-slots-ahead")
	}
	r.ClassN("cancellation-injections", int64(len(ks)))
	r.Class(fmt.Sprintf("steps:%s:%s", st.kind, forkName))
	r.Hit("cancel:" + forkName)
	if len(distinctSites) >= 2 && n >= 5 {
		r.Hit("step-with>=5-polls-over>=2-sites")
	}
	if st.kind == "slots" && n >= 5 {
		r.Hit("epoch-processing-step")
	}
	r.S.Extra["max_polls_in_a_step"] = maxI(asInt(r.S.Extra["max_polls_in_a_step"]), n)
	r.Sample("cancel/"+forkName+"/"+st.kind, func() any {
		return map[string]any{"fork": forkName, "step": st.kind, "slot": st.slot, "polls": n, "injected": len(ks), "sites": keys(distinctSites)}
	})
	return nil
}

func asInt(v any) int {
	if i, ok := v.(int); ok {
		return i
	}
	return 0
}
func maxI(a, b int) int {
	if a > b {
		return a
	}
	return b
}
func keys(m map[string]bool) []string {
	out := []string{}
	for k := range m {
		out = append(out, k)
	}
	return out
}

var errStop = &report.Failure{Sig: "stop"}

func engineFaults(r *report.Run, l *sim.Lock, st *step, fork int, refPost *refspec.State) *report.Failure {
	forkName := refspec.ForkNames[fork]
	sb := st.block
	pre := l.Lib.BeaconState
	preBytes, _ := zb.StateBytes(pre)
	callsPerFork := 2
	if fork >= refspec.Deneb {
		callsPerFork = 3
	}
	total := 1
	for i := 0; i < callsPerFork; i++ {
		total *= 3
	}
	wantPayload := refssz.Serialize(l.Sp.T(refspec.PayloadTypeName(fork)), sb.Message.Body.ExecutionPayload.V(fork))
	// the all-valid combination comes first AND once more after all the refused ones: an approved run right
	// after refused runs of the same block is still the undisturbed one
	for code := 0; code <= total; code++ {
		var v [3]int
		c := code % total
		if callsPerFork == 3 {
			v[0], v[1], v[2] = c%3, (c/3)%3, c/9
		} else {
			v[0], v[2] = c%3, c/3
		}
		spec := *l.LibSpec
		eng := &engine{spec: &spec, verdict: v, flavour: int(st.slot) + code}
		spec.ExecutionEngine = eng
		post, err, panicked := runStep(l, &spec, context.Background(), st)
		r.Eval(1)
		desc := fmt.Sprintf("%s block at slot %d, engine verdicts (block-hash,versioned-hashes,new-payload)=%v", forkName, st.slot, v)
		if panicked {
			return report.Failf("engine/panic", "%s: %v", desc, err)
		}
		// whatever the engine was asked — in a fault run too, up to the query that failed — is about THIS block
		checkCalls := func(calls []seen) *report.Failure {
			for _, cl := range calls {
				if !bytes.Equal(cl.payload, wantPayload) {
					return report.Failf("engine/wrong-payload-shown", "%s: %s was shown a payload that is not the block body's", desc, cl.call)
				}
				if fork >= refspec.Deneb && cl.call != "IsValidVersionedHashes" && cl.parent != sb.Message.ParentRoot {
					return report.Failf("engine/wrong-parent-root-shown", "%s: %s was shown parent beacon root %x, the block's parent root is %x", desc, cl.call, cl.parent, sb.Message.ParentRoot)
				}
				if cl.call == "IsValidVersionedHashes" {
					if len(cl.hashes) != len(sb.Message.Body.BlobCommitments) {
						return report.Failf("engine/wrong-versioned-hashes", "%s: %d versioned hashes for %d commitments", desc, len(cl.hashes), len(sb.Message.Body.BlobCommitments))
					}
					for i, cm := range sb.Message.Body.BlobCommitments {
						if cl.hashes[i] != refspec.VersionedHash(cm) {
							return report.Failf("engine/wrong-versioned-hashes", "%s: versioned hash %d is not 0x01||sha256(commitment)[1:]", desc, i)
						}
					}
					if len(cl.hashes) > 0 {
						r.Hit("versioned-hashes-nonempty")
					}
				}
			}
			return nil
		}
		allValid := v == [3]int{}
		if !allValid {
			if err == nil {
				return report.Failf("engine/accepted-unapproved-payload", "%s: the transition reports success (an error answer came with the verdict flag set: %v)", desc, eng.flagWithErr)
			}
			if eng.flagWithErr {
				r.Hit("engine-error-with-verdict-flag-set:" + forkName)
			}
			if f := checkCalls(eng.calls); f != nil {
				f.Msg += " (in a run that the engine then refused)"
				return f
			}
			// the error must come from the payload processing, not from the state-root comparison at the end
			// (a transition that skipped the engine would leave a state whose root does not match, and "fail" for that reason only)
			nv := *st
			nv.noValidate = true
			eng2 := &engine{spec: &spec, verdict: v, flavour: int(st.slot) + code + 1}
			spec.ExecutionEngine = eng2
			_, err2, pan2 := runStep(l, &spec, context.Background(), &nv)
			r.Eval(1)
			if pan2 {
				return report.Failf("engine/panic", "%s (validate_result=false): %v", desc, err2)
			}
			if err2 == nil {
				return report.Failf("engine/accepted-unapproved-payload", "%s: with validate_result=false the transition processes the block without error", desc)
			}
			// the header must not have been updated
			if post != nil {
				pf, qf := zb.ForkOfState(pre), zb.ForkOfState(post)
				pb, _ := zb.StateBytes(post)
				if pf == qf {
					ty := l.Sp.T(refspec.StateTypeName(pf))
					a, e1 := refssz.Deserialize(ty, preBytes)
					b, e2 := refssz.Deserialize(ty, pb)
					if e1 == nil && e2 == nil {
						idx := ty.FieldIndex("latest_execution_payload_header")
						ha := refssz.Serialize(ty.Fields[idx].T, a.([]any)[idx])
						hb := refssz.Serialize(ty.Fields[idx].T, b.([]any)[idx])
						if !bytes.Equal(ha, hb) {
							return report.Failf("engine/header-updated-without-approval", "%s: latest_execution_payload_header changed although the engine did not approve", desc)
						}
					}
				}
			}
			r.NonTrivial(fmt.Sprintf("engine|%s|%v", forkName, v))
			r.Hit("engine-fault:" + forkName)
			continue
		}
		if err != nil {
			r.Class("discarded_other_property(C01)")
			return errStop
		}
		// all valid: undisturbed result, and the engine saw what the spec prescribes
		if d := sim.CompareStates(l.Sp, refPost, post); d != "" {
			return report.Failf("engine/all-valid-differs", "%s: result differs from the undisturbed run: %s", desc, d)
		}
		if len(eng.calls) != callsPerFork {
			return report.Failf("engine/calls", "%s: engine saw %d calls, expected %d", desc, len(eng.calls), callsPerFork)
		}
		if f := checkCalls(eng.calls); f != nil {
			return f
		}
		r.NonTrivial(fmt.Sprintf("engine|%s|all-valid", forkName))
		r.Hit("engine-all-valid:" + forkName)
		r.Sample("engine/"+forkName, func() any {
			return map[string]any{"fork": forkName, "slot": st.slot, "verdict_combinations": total, "blob_commitments": len(sb.Message.Body.BlobCommitments)}
		})
	}
	return nil
}

// runLarge: registries of more than a thousand validators, slot processing only (no blocks, so no reference
// model is needed: the oracle is "an ended context is an error"). Per-validator loops poll the context only every
// 2^5 / 2^10 iterations (phase0 pending attestations, phase0 deltas); those polls do not exist on the <=130-validator
// states of the chain generator. The state is built by the library itself (KickStartState) and advanced through
// the configured fork upgrades by ProcessSlots; every step is fault-injected.
func runLarge(r *report.Run, cc *sim.ChainCase) *report.Failure {
	cfg := cc.Config.Build()
	spec := zb.ToSpec(cfg)
	n := cc.Genesis.N
	vals := make([]phase0.KickstartValidatorData, n)
	for i := 0; i < n; i++ {
		bal := sim.AmountTable[0]
		if i < len(cc.Genesis.AmountClass) {
			bal = sim.AmountTable[cc.Genesis.AmountClass[i]%len(sim.AmountTable)]
		}
		var wc common.Root
		wc[0], wc[31], wc[30] = 1, byte(i), byte(i>>8)
		vals[i] = phase0.KickstartValidatorData{Pubkey: common.BLSPubkey(refspec.KeyPubkey(uint64(i))), WithdrawalCredentials: wc, Balance: common.Gwei(bal)}
	}
	var st *phase0.BeaconStateView
	var epc *common.EpochsContext
	if err, pan := sim.Guard(func() error {
		var e error
		st, epc, e = phase0.KickStartState(spec, common.Root{1}, 1000, vals)
		return e
	}); err != nil || pan {
		return report.Failf("harness", "KickStartState(%d validators): %v", n, err)
	}
	l := &sim.Lock{LibSpec: spec, Lib: zb.Upgradeable(st), Epc: epc}
	spe := uint64(spec.SLOTS_PER_EPOCH)
	slot := uint64(0)
	for i := range cc.Actions {
		a := &cc.Actions[i]
		if a.Kind != "skip" {
			continue
		}
		target := slot + uint64(a.Slots)
		fork := zb.ForkOfState(l.Lib.BeaconState)
		stp := &step{kind: "slots", slot: target}
		if f := inject(r, l, stp, fork); f != nil {
			if f == errStop {
				return nil
			}
			return f
		}
		if target/spe > slot/spe {
			r.Hit("large-registry:epoch-boundary-step")
			r.Hit("large-registry:" + refspec.ForkNames[fork])
		}
		if err, pan := sim.Guard(func() error {
			return common.ProcessSlots(context.Background(), spec, l.Epc, l.Lib, common.Slot(target))
		}); err != nil || pan {
			return nil
		}
		slot = target
	}
	return nil
}

func genLarge(rt *rapid.T) *sim.ChainCase {
	far := refspec.FarFutureEpoch
	cc := &sim.ChainCase{Profile: "large-registry"}
	forks := rapid.SampledFrom([][4]uint64{{far, far, far, far}, {1, far, far, far}, {1, 2, far, far}, {1, 1, 2, far}, {1, 1, 2, 3}, {1, 1, 1, 1}}).Draw(rt, "forks")
	cc.Config = sim.ConfigCase{Family: "minimal", ForkEpochs: forks}
	cc.Genesis = sim.GenesisCase{N: rapid.SampledFrom([]int{1025, 1056, 1100, 2049, 2100}).Draw(rt, "n"), GenesisTime: 1000}
	for i := 0; i < 8; i++ {
		cc.Genesis.AmountClass = append(cc.Genesis.AmountClass, rapid.SampledFrom([]int{0, 0, 4, 5}).Draw(rt, "amount_class"))
	}
	steps := rapid.IntRange(3, 5).Draw(rt, "steps")
	for i := 0; i < steps; i++ {
		cc.Actions = append(cc.Actions, sim.Action{Kind: "skip", Slots: rapid.SampledFrom([]int{8, 8, 9, 16}).Draw(rt, "slots")})
	}
	return cc
}

func run(r *report.Run, cc *sim.ChainCase) *report.Failure {
	if cc.Profile == "large-registry" {
		return runLarge(r, cc)
	}
	cfg := cc.Config.Build()
	chain, err := sim.NewChain(cfg, &cc.Genesis)
	if err != nil {
		return nil
	}
	l, err := sim.NewLock(chain)
	if err != nil {
		return report.Failf("genesis/load", "%v", err)
	}
	ctx := context.Background()
	for i := range cc.Actions {
		a := &cc.Actions[i]
		if a.Kind != "block" && a.Kind != "skip" {
			continue
		}
		slot := l.ResolveSlot(a)
		if len(l.Sp.ActiveIndices(l.St, l.Sp.CurrentEpoch(l.St)+1)) == 0 {
			return nil
		}
		if a.Kind == "skip" {
			st := &step{kind: "slots", slot: slot}
			if f := inject(r, l, st, l.St.Fork); f != nil {
				if f == errStop {
					return nil
				}
				return f
			}
			res := l.StepSkip(ctx, slot)
			if res.RefErr != nil || res.LibErr != nil || res.Diff != "" {
				return nil
			}
			continue
		}
		// block: built on the reference side; injected from copies of the pre-state; then applied for real
		sb, _, berr := l.BuildBlock(slot, a.Plan)
		if berr == sim.ErrProposerSlashed {
			res := l.StepSkip(ctx, slot)
			if res.RefErr != nil || res.LibErr != nil || res.Diff != "" {
				return nil
			}
			continue
		}
		if berr != nil {
			r.Class("generator_rejects")
			return nil
		}
		env, err := l.Envelope(sb)
		if err != nil {
			return report.Failf("harness", "envelope: %v", err)
		}
		refPost := l.St.Copy()
		if err := l.Sp.StateTransition(refPost, sb, true); err != nil {
			r.Class("generator_rejects")
			return nil
		}
		st := &step{kind: "block", slot: slot, block: sb, env: env}
		hasPayload := sb.Message.Fork >= refspec.Capella || (sb.Message.Fork == refspec.Bellatrix && !isDefaultPayload(sb))
		if f := inject(r, l, st, sb.Message.Fork); f != nil {
			if f == errStop {
				// The undisturbed library run fails or diverges (C01's subject). One thing can still be decided
				// without the reference: whatever else is wrong, a payload the engine refuses must not be processed.
				if hasPayload {
					if f := engineVerdictOnly(r, l, st, sb.Message.Fork); f != nil {
						return f
					}
				}
				return nil
			}
			return f
		}
		if hasPayload {
			if f := engineFaults(r, l, st, sb.Message.Fork, refPost); f != nil {
				if f == errStop {
					return nil
				}
				return f
			}
		}
		if err := l.ApplyBlockRef(sb); err != nil {
			return nil
		}
		if e, p := l.ApplyBlockLib(ctx, sb); e != nil || p {
			r.Class("discarded_other_property(C01)")
			return nil
		}
		if d := l.Compare(); d != "" {
			r.Class("discarded_other_property(C01)")
			return nil
		}
	}
	return nil
}

// engineVerdictOnly: for every verdict combination with at least one refusal, the block (processed with
// validate_result=false so that only processing errors count) must not go through.
func engineVerdictOnly(r *report.Run, l *sim.Lock, st *step, fork int) *report.Failure {
	forkName := refspec.ForkNames[fork]
	callsPerFork := 2
	if fork >= refspec.Deneb {
		callsPerFork = 3
	}
	total := 9
	if callsPerFork == 3 {
		total = 27
	}
	nv := *st
	nv.noValidate = true
	for code := 1; code < total; code++ {
		var v [3]int
		if callsPerFork == 3 {
			v[0], v[1], v[2] = code%3, (code/3)%3, code/9
		} else {
			v[0], v[2] = code%3, code/3
		}
		spec := *l.LibSpec
		spec.ExecutionEngine = &engine{spec: &spec, verdict: v, flavour: int(st.slot) + code}
		_, err, panicked := runStep(l, &spec, context.Background(), &nv)
		r.Eval(1)
		desc := fmt.Sprintf("%s block at slot %d (undisturbed run already diverges), engine verdicts (block-hash,versioned-hashes,new-payload)=%v", forkName, st.slot, v)
		if panicked {
			return report.Failf("engine/panic", "%s: %v", desc, err)
		}
		if err == nil {
			return report.Failf("engine/accepted-unapproved-payload", "%s: with validate_result=false the transition processes the block without error", desc)
		}
	}
	r.Class("engine-verdict-only-pass(after C01-domain divergence)")
	return nil
}

func isDefaultPayload(sb *refspec.SignedBlock) bool {
	p := &sb.Message.Body.ExecutionPayload
	return p.BlockHash == (refspec.Root{}) && p.Timestamp == 0 && len(p.Transactions) == 0 && p.BlockNumber == 0
}

func TestCheck(t *testing.T) {
	r := report.Begin("C18")
	defer r.Finish()
	r.Rule("for every ProcessSlots / StateTransition step of generated chains (<=130 validators) and every epoch-crossing ProcessSlots step of library-built states with 1025..2100 validators (where the periodic polls of the per-validator loops exist): poll count N measured with a counting context, then one re-run from a fresh copy per k in 1..N (all of them when N<=400, else first/last 50 and ~300 of the rest) with the context ended (alternately context.Canceled and context.DeadlineExceeded) from the k-th poll on; for every payload-carrying block the full product of engine verdicts {valid,invalid,error} per engine call (the error rotating over a plain error and errors wrapping context.DeadlineExceeded / context.Canceled while the caller's context is alive) (9 for bellatrix/capella, 27 for deneb). non-trivial = an injected cancellation or engine verdict; distinct key = (fork, step kind, polling call site) / (fork, verdict triple)")
	r.Assume("cancellation between two polls is indistinguishable from cancellation at the next poll; work after the last poll cannot be interrupted by construction", "steps on which the undisturbed library run already fails or diverges from the reference (C01/C02) end the case without a verdict")
	replay := func(raw json.RawMessage) *report.Failure {
		var cc sim.ChainCase
		if err := json.Unmarshal(raw, &cc); err != nil {
			return report.Failf("harness", "bad case: %v", err)
		}
		return run(r, &cc)
	}
	r.Regress(replay)
	if r.Replay != "" {
		return
	}
	r.Mandatory("cancel:target-up-to-2^64-slots-ahead", "cancel-reason:canceled", "cancel-reason:deadline-exceeded", "cancel:phase0", "cancel:altair", "cancel:bellatrix", "cancel:capella", "cancel:deneb", "epoch-processing-step", "step-with>=5-polls-over>=2-sites",
		"engine-fault:bellatrix", "engine-fault:capella", "engine-fault:deneb", "engine-error-with-verdict-flag-set:bellatrix", "engine-error-with-verdict-flag-set:capella", "engine-error-with-verdict-flag-set:deneb", "engine-all-valid:bellatrix", "engine-all-valid:capella", "engine-all-valid:deneb", "versioned-hashes-nonempty")
	opts := sim.GenOpts{CustomPct: 90, AllowMainnet: false, MaxSlots: 36, BlockPct: 65, MaxSkip: 2, OpsBias: 50, MaxN: 40}
	r.Mandatory("large-registry:epoch-boundary-step", "large-registry:phase0", "large-registry:altair")
	r.Search(t, "large-registry", 1, r.N(16, 96), func(rt *rapid.T) (any, *report.Failure) {
		cc := genLarge(rt)
		return cc, run(r, cc)
	})
	r.Search(t, "chains", 0, r.N(160, 2400), func(rt *rapid.T) (any, *report.Failure) {
		cc := sim.GenChainCase(rt, opts)
		return cc, run(r, cc)
	})
}
