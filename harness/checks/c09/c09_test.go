package c09

import (
	"testing"

	"zrntverif/fcsim"
)

func TestCheck(t *testing.T) {
	fcsim.RunCheck(t, fcsim.Spec{Prop: "C09", Rule: "tbd", Quick: 300, Thorough: 3000, Sweep: "09" != "09"})
}
