// C06 — list shuffling is the spec's swap-or-not permutation and is invertible.
// Oracle: compute_shuffled_index transcribed from the phase0 spec (crypto/sha256, no buffers reuse).
package c06

import (
	"crypto/sha256"
	"encoding/binary"
	"encoding/hex"
	"encoding/json"
	"fmt"
	"testing"

	"github.com/protolambda/zrnt/eth2/beacon/common"
	"pgregory.net/rapid"

	"zrntverif/report"
)

type Case struct {
	Seed   string `json:"seed"`
	Rounds int    `json:"rounds"`
	N      int    `json:"n"`
	Mod    int    `json:"mod"` // list element i is i%Mod when Mod>0 (repeated elements), else 1000+i
	Note   string `json:"note,omitempty"`
	// per-index mode (list sizes that cannot be materialised, up to the spec's 2^40): N is ignored,
	// HugeN is the index count and Idx the positions probed
	HugeN uint64   `json:"huge_n,omitempty"`
	Idx   []uint64 `json:"idx,omitempty"`
	// big-list mode (lists longer than 65536 entries, where the 4-byte hash-window counter carries into its
	// second and third byte): the whole-list routines run on all N elements, the spec is evaluated at the
	// positions in Idx only (N x rounds x 2 hashes for every position would dominate the run)
	BigList bool `json:"big_list,omitempty"`
}

// spec: compute_shuffled_index(index, index_count, seed) with SHUFFLE_ROUND_COUNT = rounds
func specShuffledIndex(index, n uint64, seed [32]byte, rounds int) uint64 {
	for r := 0; r < rounds; r++ {
		in := append(append([]byte{}, seed[:]...), byte(r))
		ph := sha256.Sum256(in)
		pivot := binary.LittleEndian.Uint64(ph[:8]) % n
		flip := (pivot + n - index) % n
		position := index
		if flip > position {
			position = flip
		}
		var p4 [4]byte
		binary.LittleEndian.PutUint32(p4[:], uint32(position/256))
		src := sha256.Sum256(append(in, p4[:]...))
		b := src[(position%256)/8]
		bit := (b >> (position % 8)) % 2
		if bit == 1 {
			index = flip
		}
	}
	return index
}

// runHuge checks the per-index functions on index ranges too large to build a list of: the spec's
// compute_shuffled_index is defined for index_count up to 2^40 (position // 256 must fit uint32).
func runHuge(c *Case, seed [32]byte) *report.Failure {
	n, rounds := c.HugeN, uint8(c.Rounds)
	for _, i := range c.Idx {
		i %= n
		want := specShuffledIndex(i, n, seed, c.Rounds)
		got := uint64(common.PermuteIndex(rounds, common.ValidatorIndex(i), n, seed))
		if got != want {
			return report.Failf("PermuteIndex/wrong", "PermuteIndex(rounds=%d,i=%d,n=%d) = %d, spec says %d", rounds, i, n, got, want)
		}
		if back := uint64(common.UnpermuteIndex(rounds, common.ValidatorIndex(got), n, seed)); back != i {
			return report.Failf("UnpermuteIndex/not-inverse", "Unpermute(Permute(%d)) = %d (n=%d rounds=%d)", i, back, n, rounds)
		}
		u := uint64(common.UnpermuteIndex(rounds, common.ValidatorIndex(i), n, seed))
		if u >= n {
			return report.Failf("UnpermuteIndex/out-of-range", "Unpermute(%d) = %d out of range n=%d", i, u, n)
		}
		if specShuffledIndex(u, n, seed, c.Rounds) != i {
			return report.Failf("UnpermuteIndex/wrong", "UnpermuteIndex(rounds=%d,i=%d,n=%d) = %d, but spec(%d) != %d", rounds, i, n, u, u, i)
		}
	}
	return nil
}

func runBigList(c *Case, seed [32]byte) *report.Failure {
	n, rounds := uint64(c.N), uint8(c.Rounds)
	orig := make([]common.ValidatorIndex, n)
	for i := range orig {
		orig[i] = common.ValidatorIndex(1000 + i)
	}
	un := append([]common.ValidatorIndex{}, orig...)
	common.UnshuffleList(rounds, un, seed)
	sh := append([]common.ValidatorIndex{}, orig...)
	common.ShuffleList(rounds, sh, seed)
	for _, i := range c.Idx {
		i %= n
		p := specShuffledIndex(i, n, seed, c.Rounds)
		if un[i] != orig[p] {
			return report.Failf("UnshuffleList/wrong", "UnshuffleList(L)[%d] = %d, want L[spec(%d)=%d] = %d (n=%d rounds=%d)", i, un[i], i, p, orig[p], n, rounds)
		}
		if sh[p] != orig[i] {
			return report.Failf("ShuffleList/wrong", "ShuffleList(L)[spec(%d)=%d] = %d, want L[%d] = %d (n=%d rounds=%d)", i, p, sh[p], i, orig[i], n, rounds)
		}
	}
	// permutations and mutual inverses, over the whole list
	for name, out := range map[string][]common.ValidatorIndex{"UnshuffleList": un, "ShuffleList": sh} {
		seen := make([]bool, n)
		for _, v := range out {
			k := uint64(v) - 1000
			if k >= n || seen[k] {
				return report.Failf(name+"/not-permutation", "element lost or duplicated (n=%d rounds=%d)", n, rounds)
			}
			seen[k] = true
		}
	}
	common.ShuffleList(rounds, un, seed)
	common.UnshuffleList(rounds, sh, seed)
	for i := range orig {
		if un[i] != orig[i] {
			return report.Failf("ShuffleList/not-inverse", "Shuffle(Unshuffle(L)) != L at %d (n=%d rounds=%d)", i, n, rounds)
		}
		if sh[i] != orig[i] {
			return report.Failf("UnshuffleList/not-inverse", "Unshuffle(Shuffle(L)) != L at %d (n=%d rounds=%d)", i, n, rounds)
		}
	}
	return nil
}

func bitsLen(x uint64) int {
	n := 0
	for ; x > 0; x >>= 1 {
		n++
	}
	return n
}

func specPivot(seed [32]byte, round int, n uint64) uint64 {
	ph := sha256.Sum256(append(append([]byte{}, seed[:]...), byte(round)))
	return binary.LittleEndian.Uint64(ph[:8]) % n
}

func run(c *Case) (f *report.Failure) {
	defer func() {
		if p := recover(); p != nil {
			f = report.Failf("panic", "n=%d rounds=%d seed=%s: %v", c.N, c.Rounds, c.Seed, p)
		}
	}()
	var seed [32]byte
	b, _ := hex.DecodeString(c.Seed)
	copy(seed[:], b)
	if c.HugeN > 0 {
		return runHuge(c, seed)
	}
	if c.BigList {
		return runBigList(c, seed)
	}
	n := uint64(c.N)
	rounds := uint8(c.Rounds)
	perm := make([]uint64, n)
	for i := uint64(0); i < n; i++ {
		perm[i] = specShuffledIndex(i, n, seed, c.Rounds)
	}
	// the reference itself must be a bijection (validates the oracle, harness-level)
	seen := make([]bool, n)
	for _, p := range perm {
		if p >= n || seen[p] {
			return report.Failf("harness", "reference permutation is not a bijection (n=%d)", n)
		}
		seen[p] = true
	}
	for i := uint64(0); i < n; i++ {
		got := uint64(common.PermuteIndex(rounds, common.ValidatorIndex(i), n, seed))
		if got != perm[i] {
			return report.Failf("PermuteIndex/wrong", "PermuteIndex(rounds=%d,i=%d,n=%d) = %d, spec says %d", rounds, i, n, got, perm[i])
		}
		back := uint64(common.UnpermuteIndex(rounds, common.ValidatorIndex(got), n, seed))
		if back != i {
			return report.Failf("UnpermuteIndex/not-inverse", "Unpermute(Permute(%d)) = %d (n=%d rounds=%d)", i, back, n, rounds)
		}
		u := uint64(common.UnpermuteIndex(rounds, common.ValidatorIndex(i), n, seed))
		if u >= n {
			return report.Failf("UnpermuteIndex/out-of-range", "Unpermute(%d) = %d out of range n=%d", i, u, n)
		}
		if fw := uint64(common.PermuteIndex(rounds, common.ValidatorIndex(u), n, seed)); fw != i {
			return report.Failf("PermuteIndex/not-inverse", "Permute(Unpermute(%d)) = %d (n=%d rounds=%d)", i, fw, n, rounds)
		}
	}
	list := make([]common.ValidatorIndex, n)
	for i := range list {
		if c.Mod > 0 {
			list[i] = common.ValidatorIndex(i % c.Mod)
		} else {
			list[i] = common.ValidatorIndex(1000 + i)
		}
	}
	orig := append([]common.ValidatorIndex{}, list...)
	un := append([]common.ValidatorIndex{}, list...)
	common.UnshuffleList(rounds, un, seed)
	if uint64(len(un)) != n {
		return report.Failf("UnshuffleList/length", "length changed")
	}
	for i := uint64(0); i < n; i++ {
		if un[i] != orig[perm[i]] {
			return report.Failf("UnshuffleList/wrong", "UnshuffleList(L)[%d] = %d, want L[spec(%d)=%d] = %d (n=%d rounds=%d)", i, un[i], i, perm[i], orig[perm[i]], n, rounds)
		}
	}
	sh := append([]common.ValidatorIndex{}, list...)
	common.ShuffleList(rounds, sh, seed)
	// ShuffleList is the forward permutation as a whole-list operation: sh[spec(i)] = L[i]
	for i := uint64(0); i < n; i++ {
		if sh[perm[i]] != orig[i] {
			return report.Failf("ShuffleList/wrong", "ShuffleList(L)[spec(%d)=%d] = %d, want L[%d] = %d (n=%d rounds=%d)", i, perm[i], sh[perm[i]], i, orig[i], n, rounds)
		}
	}
	// mutual inverses on whole lists
	a := append([]common.ValidatorIndex{}, un...)
	common.ShuffleList(rounds, a, seed)
	bb := append([]common.ValidatorIndex{}, sh...)
	common.UnshuffleList(rounds, bb, seed)
	for i := range orig {
		if a[i] != orig[i] {
			return report.Failf("ShuffleList/not-inverse", "Shuffle(Unshuffle(L)) != L at %d (n=%d rounds=%d)", i, n, rounds)
		}
		if bb[i] != orig[i] {
			return report.Failf("UnshuffleList/not-inverse", "Unshuffle(Shuffle(L)) != L at %d (n=%d rounds=%d)", i, n, rounds)
		}
	}
	// multiset preservation
	cnt := map[common.ValidatorIndex]int{}
	for _, v := range orig {
		cnt[v]++
	}
	for _, v := range un {
		cnt[v]--
	}
	for _, v := range cnt {
		if v != 0 {
			return report.Failf("UnshuffleList/not-permutation", "element lost or duplicated (n=%d)", n)
		}
	}
	for _, v := range orig {
		cnt[v]++
	}
	for _, v := range sh {
		cnt[v]--
	}
	for _, v := range cnt {
		if v != 0 {
			return report.Failf("ShuffleList/not-permutation", "element lost or duplicated (n=%d)", n)
		}
	}
	return nil
}

func fixedSeed(i int) [32]byte {
	return sha256.Sum256([]byte(fmt.Sprintf("c06-seed-%d", i)))
}

// adversarial seed: first counter-derived seed whose round-0 pivot equals want (deterministic search)
func seedWithPivot(base [32]byte, n uint64, want uint64) ([32]byte, bool) {
	for k := 0; k < 200000; k++ {
		var in [40]byte
		copy(in[:], base[:])
		binary.LittleEndian.PutUint64(in[32:], uint64(k))
		s := sha256.Sum256(in[:])
		if specPivot(s, 0, n) == want {
			return s, true
		}
	}
	return base, false
}

func TestCheck(t *testing.T) {
	r := report.Begin("C06")
	defer r.Finish()
	r.Rule("(seed, rounds, n) triples: an enumerated block (every n in a contiguous range, fixed seeds, several round counts; every rounds value 0..255 at a few sizes) plus rapid-drawn triples incl. seeds searched so that the round-0 pivot is 0, 1 or n-1, sizes straddling multiples of 256 and 8, lists with repeated elements; each case checks every index of the list; plus per-index cases on index ranges of 2^16..2^40 (the largest the spec function is defined for) probing both ends, positions around 2^32 and 24 random positions each; plus whole-list cases on lists of 65535..200000 entries (the hash-window counter carries beyond its low byte) judged at ~350 sampled positions (around every multiple of 65536 and 256, the pivots, both ends, random) and as whole-list permutations and mutual inverses. non-trivial = n>=2 and rounds>=1; distinct key = (n, rounds, seed)")
	r.Assume("the reference is compute_shuffled_index transcribed from the phase0 spec with crypto/sha256; its bijectivity is asserted on every case", "UnshuffleList(L)[i] == L[spec(i)] is the relation compute_committee relies on; ShuffleList is its whole-list inverse")
	replay := func(raw json.RawMessage) *report.Failure {
		var c Case
		if err := json.Unmarshal(raw, &c); err != nil {
			return report.Failf("harness", "bad case: %v", err)
		}
		return run(&c)
	}
	r.Regress(replay)
	if r.Replay != "" {
		return
	}
	r.Mandatory("big-list", "n=0", "n=1", "rounds=0", "pivot=0", "pivot=n-1", "n=256k", "n=256k+1", "repeated-elements", "rounds=255")
	account := func(c *Case) {
		r.Eval(1)
		if c.N == 0 {
			r.Hit("n=0")
		}
		if c.N == 1 {
			r.Hit("n=1")
		}
		if c.Rounds == 0 {
			r.Hit("rounds=0")
		}
		if c.Rounds == 255 {
			r.Hit("rounds=255")
		}
		if c.N > 0 && c.N%256 == 0 {
			r.Hit("n=256k")
		}
		if c.N > 1 && c.N%256 == 1 {
			r.Hit("n=256k+1")
		}
		if c.Mod > 0 {
			r.Hit("repeated-elements")
		}
		if c.Note == "pivot=0" || c.Note == "pivot=n-1" {
			r.Hit(c.Note)
		}
		if c.N >= 2 && c.Rounds >= 1 {
			r.NonTrivial(fmt.Sprintf("%d|%d|%s", c.N, c.Rounds, c.Seed))
			cl := "n<8"
			switch {
			case c.N >= 1024:
				cl = "n>=1024"
			case c.N >= 256:
				cl = "256<=n<1024"
			case c.N >= 8:
				cl = "8<=n<256"
			}
			r.Class(cl)
			r.Sample(cl+"/"+c.Note, func() any { return c })
		} else {
			r.Class("trivial")
		}
	}
	// ---- enumerated block (sharded by n)
	maxN, roundsSet, nSeeds := 400, []int{1, 10, 90}, 2
	if r.Thorough() {
		maxN, roundsSet, nSeeds = 1100, []int{1, 2, 10, 90}, 6
	}
	idx := 0
	fail := false
	for n := 0; n <= maxN && !fail; n++ {
		for _, rd := range roundsSet {
			for s := 0; s < nSeeds; s++ {
				idx++
				if idx%r.S.NShards != r.S.Shard {
					continue
				}
				sd := fixedSeed(s)
				c := &Case{Seed: hex.EncodeToString(sd[:]), Rounds: rd, N: n, Note: "enumerated"}
				account(c)
				if f := run(c); f != nil {
					r.Violate(c, f, false)
					fail = true
				}
			}
		}
	}
	r.ExhaustiveOver(fmt.Sprintf("every n in 0..%d x rounds %v x %d fixed seeds; every rounds value 0..255 at n in {2,7,33,257}", maxN, roundsSet, nSeeds))
	for rd := 0; rd <= 255 && !fail; rd++ {
		for _, n := range []int{2, 7, 33, 257} {
			idx++
			if idx%r.S.NShards != r.S.Shard {
				continue
			}
			sd := fixedSeed(7)
			c := &Case{Seed: hex.EncodeToString(sd[:]), Rounds: rd, N: n, Note: "all-rounds"}
			account(c)
			if f := run(c); f != nil {
				r.Violate(c, f, false)
				fail = true
			}
		}
	}
	if fail {
		return
	}
	// ---- per-index functions on huge index ranges (2^16 .. 2^40), probing both ends, 2^32 and random positions
	if !r.Search(t, "huge-index-range", 1, r.N(400, 6000), func(rt *rapid.T) (any, *report.Failure) {
		c := &Case{Note: "huge"}
		switch rapid.IntRange(0, 4).Draw(rt, "nk") {
		case 0:
			c.HugeN = 1<<32 + uint64(rapid.IntRange(-300, 300).Draw(rt, "d32"))
		case 1:
			c.HugeN = 1<<40 - uint64(rapid.IntRange(0, 1000).Draw(rt, "d40"))
		case 2:
			c.HugeN = rapid.Uint64Range(1<<32, 1<<40).Draw(rt, "n")
		case 3:
			c.HugeN = rapid.Uint64Range(1<<16, 1<<32).Draw(rt, "n")
		default:
			c.HugeN = uint64(1) << uint(rapid.IntRange(17, 40).Draw(rt, "log2n"))
		}
		c.Rounds = rapid.SampledFrom([]int{1, 2, 3, 10, 90, 255}).Draw(rt, "rounds")
		var seed [32]byte
		copy(seed[:], rapid.SliceOfN(rapid.Byte(), 32, 32).Draw(rt, "seed"))
		c.Seed = hex.EncodeToString(seed[:])
		n := c.HugeN
		c.Idx = []uint64{0, 1, n - 1, n - 2, n / 2, (1 << 32) % n, (1<<32 - 1) % n, (1<<32 + 255) % n}
		for k := 0; k < 24; k++ {
			c.Idx = append(c.Idx, rapid.Uint64Range(0, n-1).Draw(rt, "i"))
		}
		r.Eval(1)
		cl := "huge:n<2^32"
		if n > 1<<32 {
			cl = "huge:n>2^32"
		}
		r.Class(cl)
		r.NonTrivial(fmt.Sprintf("huge|%d|%d", bitsLen(n), c.Rounds))
		r.Sample(cl, func() any { return c })
		return c, run(c)
	}) {
		return
	}
	// ---- whole-list routines on lists longer than 65536 entries (window counter carries beyond its low byte)
	if !r.Search(t, "big-lists", 2, r.N(48, 700), func(rt *rapid.T) (any, *report.Failure) {
		c := &Case{Note: "big-list", BigList: true}
		switch rapid.IntRange(0, 3).Draw(rt, "nk") {
		case 0:
			c.N = 65536 + rapid.IntRange(-2, 600).Draw(rt, "d")
		case 1:
			c.N = 65536*rapid.IntRange(1, 3).Draw(rt, "k") + rapid.IntRange(-300, 300).Draw(rt, "d")
		default:
			c.N = rapid.IntRange(65537, 200000).Draw(rt, "n")
		}
		c.Rounds = rapid.SampledFrom([]int{1, 2, 3, 10, 90}).Draw(rt, "rounds")
		var seed [32]byte
		copy(seed[:], rapid.SliceOfN(rapid.Byte(), 32, 32).Draw(rt, "seed"))
		c.Seed = hex.EncodeToString(seed[:])
		n := uint64(c.N)
		c.Idx = []uint64{0, 1, 255, 256, 257, n - 1, n - 2, n / 2}
		for m := uint64(65536); m < n+65536; m += 65536 {
			for _, d := range []uint64{0, 1, 2, 255, 256, 257} {
				c.Idx = append(c.Idx, (m-d)%n, (m+d)%n)
			}
		}
		for k := 0; k < 6; k++ {
			c.Idx = append(c.Idx, specPivot(seed, k%c.Rounds, n), (specPivot(seed, k%c.Rounds, n)+1)%n)
		}
		for k := 0; k < 300; k++ {
			c.Idx = append(c.Idx, rapid.Uint64Range(0, n-1).Draw(rt, "i"))
		}
		r.Eval(1)
		r.Class("big-list:n>65536")
		r.Hit("big-list")
		r.NonTrivial(fmt.Sprintf("big|%d|%d", c.N/65536, c.Rounds))
		r.Sample("big-list", func() any { cc := *c; cc.Idx = cc.Idx[:12]; return &cc })
		return c, run(c)
	}) {
		return
	}
	// ---- random block
	r.Search(t, "random", 0, r.N(1500, 30000), func(rt *rapid.T) (any, *report.Failure) {
		c := &Case{}
		switch rapid.IntRange(0, 5).Draw(rt, "nk") {
		case 0:
			c.N = rapid.IntRange(0, 9).Draw(rt, "n")
		case 1:
			c.N = 256*rapid.IntRange(1, 8).Draw(rt, "k") + rapid.IntRange(-2, 2).Draw(rt, "d")
		case 2:
			c.N = 8*rapid.IntRange(1, 40).Draw(rt, "k") + rapid.IntRange(-1, 1).Draw(rt, "d")
		case 3:
			c.N = rapid.IntRange(0, 3000).Draw(rt, "n")
		default:
			c.N = rapid.IntRange(0, 700).Draw(rt, "n")
		}
		if rapid.IntRange(0, 40).Draw(rt, "big") == 0 && r.Thorough() {
			c.N = rapid.IntRange(3000, 20000).Draw(rt, "nbig")
			c.Rounds = rapid.SampledFrom([]int{1, 3, 10}).Draw(rt, "rb")
		} else {
			c.Rounds = rapid.SampledFrom([]int{0, 1, 2, 3, 10, 89, 90, 91, 255}).Draw(rt, "rounds")
		}
		var seed [32]byte
		copy(seed[:], rapid.SliceOfN(rapid.Byte(), 32, 32).Draw(rt, "seed"))
		if c.N >= 2 {
			switch rapid.IntRange(0, 4).Draw(rt, "adv") {
			case 0:
				if s, ok := seedWithPivot(seed, uint64(c.N), 0); ok {
					seed, c.Note = s, "pivot=0"
				}
			case 1:
				if s, ok := seedWithPivot(seed, uint64(c.N), uint64(c.N-1)); ok {
					seed, c.Note = s, "pivot=n-1"
				}
			case 2:
				if s, ok := seedWithPivot(seed, uint64(c.N), 1); ok {
					seed, c.Note = s, "pivot=1"
				}
			}
		}
		c.Seed = hex.EncodeToString(seed[:])
		if rapid.IntRange(0, 3).Draw(rt, "rep") == 0 {
			c.Mod = rapid.IntRange(1, 5).Draw(rt, "mod")
		}
		account(c)
		return c, run(c)
	})
}
