// C11 — fork-choice graph queries agree with the tree that was inserted.
//
// Oracle: zrntverif/fcmodel — direct walks of the explicit (root, slot) tree: CanonicalChain (head
// back to and including the anchor along transition parents), InSubtree (ancestor-or-equal between
// first nodes; unknown iff either root has no node), ClosestToSlot, CanonAtSlot with/without block,
// GetSlot, Search by parent/slot/heads with the canonical split, FindHead; plus the node set after
// every insertion (Indices()). Histories from zrntverif/fcsim (gap slots, forks, late blocks, double
// proposals, prunes); query arguments are drawn from known nodes, never-inserted roots, pruned
// roots, slots before the first node and beyond the head; every history ends with a sweep asking
// every query kind about a bounded selection of all roots and nodes, and the same sweep runs after
// each prune. Where a doc comment is ambiguous the adopted reading is written next to the model
// function (fcmodel/model.go, "READING").
//
// Sensitivity (tools/trymut.py, quick tier, each CAUGHT):
//
//	proto_array.go  inSubtree walk: `i >= anchorIndex` -> `i > anchorIndex`                  (never reaches the anchor)
//	proto_array.go  inSubtree: `hasRelativeHead &&` dropped from the best-descendant shortcut (NONE == NONE)
//	proto_array.go  ClosestToSlot: `for min.Slot+1 < max.Slot` -> `<=`                        (caught as ClosestToSlot/blocked)
//	proto_array.go  Search: `node.BestDescendant == headIndex` -> `node.BestChild == headIndex`
//	proto_array.go  Search heads: `hasChildBlock[node.Ref.Root]` -> `hasChildBlock[node.ParentRoot]`
//	proto_array.go  CanonicalChain: the anchor `break` dropped (walks past the anchor again)
//	proto_array.go  CanonAtSlot: `if head.Slot < slot` -> `<=`
//	proto_array.go  ProcessBlock: `TransitionParent: transitionParentIndex` -> `transitionParentIndex - 1`
//
// MISSED and judged equivalent on the repaired tree: dropping inSubtree's `anchorIndex >= lookupIndex`
// guard (DESIGN.md's planned mutant) - with the slot test before it and the hasRelativeHead guard
// after it no remaining path can answer true for a later-inserted anchor.
package c11

import (
	"testing"

	"zrntverif/fcsim"
)

func TestCheck(t *testing.T) {
	fcsim.RunCheck(t, fcsim.Spec{
		Prop: "C11",
		Rule: "C09 histories with ~45% query ops (CanonicalChain, InSubtree, ClosestToSlot, CanonAtSlot, GetSlot, Search x {heads, by parent, by slot, both}, FindHead) plus a closing sweep (every query kind over <=14 roots incl. pruned and never-inserted ones, slots first-1..head+1, <=16 anchor nodes). non-trivial = the tree has a node with >=2 fork-choice children and a gap-slot node and the answer is not the trivial one (anchor itself / empty / error); distinct key = (query kind, relation class of the arguments, before/after a prune)",
		Assume: []string{
			"fcmodel readings (each written next to the model function): InSubtree compares the roots' first nodes and reports unknown iff either root has no node; ClosestToSlot ranges over the anchor root's own nodes; CanonAtSlot follows the chain from the anchor root's first node, returns the head when the head lies before the slot and the zero NodeRef for an empty slot; Search ranges over block nodes in the transition subtree of the anchor node, heads = blocks without a child block, canonical = on CanonicalChain(anchor)",
			"canonical-chain dependent queries are asked after the pending votes were flushed by a head computation (README: votes are applied in batches)",
			"Search results are compared as sets (no order is documented)",
		},
		Mandatory: []string{"q-nontrivial:CanonicalChain", "q-nontrivial:InSubtree", "q-nontrivial:ClosestToSlot", "q-nontrivial:CanonAtSlot", "q-nontrivial:GetSlot", "q-nontrivial:Search",
			"q-when:post-prune", "q-when:pre-prune", "q:GetSlot:never-inserted", "q:GetSlot:pruned", "q:GetSlot:known-first-node-is-gap", "q:InSubtree:other-branch", "q:InSubtree:ancestor", "q:InSubtree:reversed",
			"q:ClosestToSlot:before-first-node", "q:ClosestToSlot:beyond-last-node", "q:CanonAtSlot:wb=true/mid-chain/empty-slot", "q:CanonAtSlot:wb=false/mid-chain", "q:CanonAtSlot:wb=false/beyond-head",
			"q:CanonAtSlot:wb=false/at-head-slot", "q:Search:heads/canon+noncanon", "q:Search:by-parent/canon+noncanon", "q:Search:by-slot/noncanon-only"},
		SampleTags: []string{"q-nontrivial:CanonicalChain", "q-nontrivial:Search", "q-nontrivial:CanonAtSlot", "q-when:post-prune"},
		Quick:      10000, Thorough: 200000,
		Sweep: true,
		Tour:  fcsim.TourC11(),
	})
}
