// C08 — the incrementally maintained epochs context always matches the state.
// Oracle 1: after every slot, block, boundary and upgrade the live EpochsContext equals
// NewEpochsContext(state) on every exported field and on pubkey-cache lookups.
// Oracle 2 (metamorphic): from a drawn point a second library instance continues from the state
// re-read from its bytes with a fresh context; the same remaining blocks must produce identical
// verdicts and roots at every step. Also: a forked copy (CopyState + Clone) advanced differently
// must not disturb the original's context.
package c08

import (
	"context"
	"encoding/json"
	"fmt"
	"runtime/debug"
	"sort"
	"strings"
	"testing"

	"pgregory.net/rapid"

	"zrntverif/refspec"
	"zrntverif/report"
	"zrntverif/sim"
	"zrntverif/zb"
)

func trunc(s string) string {
	if len(s) > 600 {
		return s[:600] + "…"
	}
	return s
}

func epcClass(d string) string {
	for _, k := range []string{"CurrentSyncCommittee", "NextSyncCommittee", "PreviousEpoch", "CurrentEpoch", "NextEpoch", "Proposers", "EffectiveBalances", "TotalActiveStakeSqRoot", "TotalActiveStake", "pubkey cache", "NewEpochsContext failed"} {
		if strings.HasPrefix(d, k) {
			return strings.ReplaceAll(k, " ", "-")
		}
	}
	return "other"
}

type tracker struct {
	rotations int
	events    map[string]bool
	forkPath  []string
}

func (t *tracker) key() string {
	ev := make([]string, 0, len(t.events))
	for k := range t.events {
		ev = append(ev, k)
	}
	sort.Strings(ev)
	return strings.Join(t.forkPath, ">") + "|" + strings.Join(ev, ",")
}

func run(r *report.Run, cc *sim.ChainCase) *report.Failure {
	cfg := cc.Config.Build()
	chain, err := sim.NewChain(cfg, &cc.Genesis)
	if err != nil {
		return nil
	}
	l, err := sim.NewLock(chain)
	if err != nil {
		return report.Failf("genesis/load", "%v", err)
	}
	// a quarter of the chains are driven through an application-side wrapper around the upgradeable state
	l.Wrap = cc.Genesis.Eth1Seed%4 == 0
	ctx := context.Background()
	tr := &tracker{events: map[string]bool{}, forkPath: []string{"phase0"}}
	var shadow *sim.Lock // continues from reloaded bytes with a fresh context

	check := func(where string) *report.Failure {
		r.Eval(1)
		if d := l.CheckEpc(); d != "" {
			return report.Failf("epc-stale:"+epcClass(d), "%s (slot %d, fork %s, events %s): live context != NewEpochsContext(state): %s", where, l.St.Slot, refspec.ForkNames[l.St.Fork], tr.key(), trunc(d))
		}
		if tr.rotations >= 2 && (tr.events["deposit-added-validator"] || tr.events["upgrade"] || tr.events["sync-rotation"]) {
			r.NonTrivial(tr.key())
			r.Class("nontrivial-comparison")
			r.Sample(tr.key(), func() any {
				return map[string]any{"where": where, "slot": l.St.Slot, "fork_path": tr.forkPath, "events": tr.key(), "validators": len(l.St.Validators), "config_family": cc.Config.Family}
			})
			for e := range tr.events {
				r.Hit("event:" + e)
			}
		} else {
			r.Class("early-comparison")
		}
		return nil
	}
	shadowStep := func(what string, libErr error, apply func(s *sim.Lock) (error, bool)) *report.Failure {
		if shadow == nil {
			return nil
		}
		serr, sp := apply(shadow)
		if sp {
			return report.Failf("reload/panic", "%s at slot %d: continuation from reloaded bytes panicked: %v", what, l.St.Slot, serr)
		}
		if (serr == nil) != (libErr == nil) {
			return report.Failf("reload/verdict-differs", "%s at slot %d: long-lived (state, context) says err=%v, reloaded state with a fresh context says err=%v", what, l.St.Slot, libErr, serr)
		}
		if serr == nil {
			if a, b := zb.StateRoot(l.Lib), zb.StateRoot(shadow.Lib); a != b {
				return report.Failf("reload/root-differs", "%s at slot %d: root %x (long-lived) != %x (reloaded + fresh context)", what, l.St.Slot, a, b)
			}
			r.Class("reload-continuation-step-compared")
			r.Hit("reload-continuation")
		}
		return nil
	}
	observe := func(pre *refspec.State) {
		post := l.St
		tr.rotations += int(l.Sp.CurrentEpoch(post) - l.Sp.CurrentEpoch(pre))
		if len(post.Validators) > len(pre.Validators) {
			tr.events["deposit-added-validator"] = true
			if post.Slot%l.Sp.P.SLOTS_PER_EPOCH != 0 {
				tr.events["validator-added-mid-epoch"] = true
			}
		}
		if ce := l.Sp.CurrentEpoch(post); ce > l.Sp.CurrentEpoch(pre) {
			// the set of validators active in the NEXT epoch differs from the current one although its size is the same
			a, b := l.Sp.ActiveIndices(post, ce), l.Sp.ActiveIndices(post, ce+1)
			if len(a) == len(b) && fmt.Sprint(a) != fmt.Sprint(b) {
				tr.events["active-set-changes-at-constant-size"] = true
			}
		}
		if post.Fork > pre.Fork {
			tr.events["upgrade"] = true
			for f := pre.Fork + 1; f <= post.Fork; f++ {
				tr.forkPath = append(tr.forkPath, refspec.ForkNames[f])
			}
		}
		if pre.Fork >= refspec.Altair && post.Fork >= refspec.Altair && fmt.Sprint(pre.NextSyncCommittee.Pubkeys) != fmt.Sprint(post.NextSyncCommittee.Pubkeys) {
			tr.events["sync-rotation"] = true
			if l.Wrap {
				r.Hit("sync-rotation-behind-an-application-wrapper")
			}
		}
	}

	if f := check("genesis"); f != nil {
		return f
	}
	for i := range cc.Actions {
		a := &cc.Actions[i]
		switch a.Kind {
		case "reload":
			if shadow == nil {
				s, err := l.ForkLock()
				if err != nil {
					return report.Failf("harness", "fork: %v", err)
				}
				if err := s.Reload(); err != nil {
					return report.Failf("reload/error", "state does not survive serialize/deserialize + NewEpochsContext at slot %d: %v", l.St.Slot, err)
				}
				shadow = s
				r.Class("reload-points")
			}
			continue
		case "fork":
			// a sibling copy advanced differently must not disturb this context
			s, err := l.ForkLock()
			if err != nil {
				return report.Failf("harness", "fork: %v", err)
			}
			spe := l.Sp.P.SLOTS_PER_EPOCH
			target := s.St.Slot + 1 + uint64(i)%(2*spe)
			if res := s.StepSkip(ctx, target); res.RefErr == nil && res.LibErr == nil && res.Diff == "" {
				if d := s.CheckEpc(); d != "" {
					return report.Failf("epc-stale:"+epcClass(d), "forked copy advanced to slot %d: its context != NewEpochsContext: %s", target, trunc(d))
				}
			}
			if f := check("after a forked sibling was advanced"); f != nil {
				return f
			}
			r.Hit("fork-sibling-advanced")
			continue
		}
		slot := l.ResolveSlot(a)
		if a.Kind == "skip" {
			// slot by slot (bounded), so the context is compared after every slot
			to := slot
			for s := l.St.Slot + 1; s <= to; s++ {
				if to-l.St.Slot > 12 {
					s = to // long skips in one call
				}
				pre := l.St.Copy()
				res := l.StepSkip(ctx, s)
				if res.RefErr != nil {
					return nil
				}
				if res.LibErr != nil && strings.Contains(res.LibErr.Error(), "no active validators") {
					r.Excluded("F-C02-05:no-active-validators")
					return nil
				}
				if res.LibErr != nil || res.Diff != "" {
					// the result differs from the specification's (C02's subject); the context must nevertheless
					// describe the state the library did produce — that comparison needs no reference
					if res.LibErr == nil {
						if f := check("after a slot advance whose result differs from the reference"); f != nil {
							return f
						}
					}
					r.Class("discarded_other_property(C02)")
					return nil
				}
				observe(pre)
				if f := shadowStep("skip", res.LibErr, func(sh *sim.Lock) (error, bool) { return sh.SkipLib(ctx, s) }); f != nil {
					return f
				}
				if f := check("after slot"); f != nil {
					return f
				}
			}
			continue
		}
		// block
		pre := l.St.Copy()
		res := l.StepBlock(ctx, slot, a.Plan)
		if res.BuildErr != nil || res.RefErr != nil {
			r.Class("generator_rejects")
			return nil
		}
		if res.LibErr != nil && strings.Contains(res.LibErr.Error(), "no active validators") {
			r.Excluded("F-C02-05:no-active-validators")
			return nil
		}
		if res.SlotsErr != nil || res.SlotsDiff != "" || res.LibErr != nil || res.Diff != "" {
			if res.SlotsErr == nil && res.LibErr == nil {
				if f := check("after a block whose result differs from the reference"); f != nil {
					return f
				}
			}
			r.Class("discarded_other_property(C01/C02)")
			return nil
		}
		observe(pre)
		if res.BecameSkip {
			if f := shadowStep("skip", nil, func(sh *sim.Lock) (error, bool) { return sh.SkipLib(ctx, slot) }); f != nil {
				return f
			}
		} else {
			sb := res.Block
			if f := shadowStep("block", nil, func(sh *sim.Lock) (error, bool) {
				sh.St = l.St // the envelope's digest needs the genesis validators root only
				return sh.ApplyBlockLib(ctx, sb)
			}); f != nil {
				return f
			}
		}
		if f := check("after block"); f != nil {
			return f
		}
	}
	return nil
}

func tourDepositBurst(rt *rapid.T) *sim.ChainCase {
	far := refspec.FarFutureEpoch
	fork := rapid.SampledFrom([][4]uint64{{1, far, far, far}, {1, 2, 2, 3}, {2, 2, 3, 4}}).Draw(rt, "forks")
	o := map[string]uint64{"SLOTS_PER_EPOCH": 4, "TARGET_COMMITTEE_SIZE": 2, "MAX_COMMITTEES_PER_SLOT": 2, "SHUFFLE_ROUND_COUNT": 3,
		"SLOTS_PER_HISTORICAL_ROOT": 8, "EPOCHS_PER_HISTORICAL_VECTOR": 8, "EPOCHS_PER_SLASHINGS_VECTOR": 4, "EPOCHS_PER_ETH1_VOTING_PERIOD": 1,
		"MAX_SEED_LOOKAHEAD": 1, "MIN_PER_EPOCH_CHURN_LIMIT": rapid.SampledFrom([]uint64{1, 1, 4}).Draw(rt, "churn"), "CHURN_LIMIT_QUOTIENT": 32, "MAX_PER_EPOCH_ACTIVATION_CHURN_LIMIT": 8,
		"SHARD_COMMITTEE_PERIOD": 0, "MAX_VOLUNTARY_EXITS": 16,
		"SYNC_COMMITTEE_SIZE": 4, "EPOCHS_PER_SYNC_COMMITTEE_PERIOD": 2, "MAX_DEPOSITS": rapid.SampledFrom([]uint64{1, 2, 16}).Draw(rt, "max_deposits"), "MAX_ATTESTATIONS": 128}
	cc := &sim.ChainCase{Profile: "full", Config: sim.ConfigCase{Family: "custom", ForkEpochs: fork, Override: o}}
	cc.Genesis = sim.GenesisCase{N: 16, GenesisTime: 1000, Eth1Seed: rapid.Uint64().Draw(rt, "eth1_seed")}
	for i := 0; i < 16; i++ {
		cc.Genesis.AmountClass = append(cc.Genesis.AmountClass, 0)
		cc.Genesis.Eth1Cred = append(cc.Genesis.Eth1Cred, true)
	}
	blk := func() *sim.BlockPlan {
		return &sim.BlockPlan{Seed: rapid.Uint64().Draw(rt, "seed"), AttMode: 1, Participation: 1000, SyncPm: 1000, Eth1Vote: 1}
	}
	first := blk()
	for i := 0; i < rapid.IntRange(3, 6).Draw(rt, "new"); i++ {
		first.Queue = append(first.Queue, sim.DepPlan{Kind: 0, Amount: 0, Eth1: true})
	}
	cc.Actions = append(cc.Actions, sim.Action{Kind: "block", Slots: 1, Plan: first})
	reloadAt := rapid.IntRange(3, 12).Draw(rt, "reload_at")
	forkAt := rapid.IntRange(3, 16).Draw(rt, "fork_at")
	for s := 2; s <= 30; s++ {
		if s == reloadAt {
			cc.Actions = append(cc.Actions, sim.Action{Kind: "reload"})
		}
		if s == forkAt {
			cc.Actions = append(cc.Actions, sim.Action{Kind: "fork"})
		}
		if rapid.IntRange(0, 5).Draw(rt, "gap") == 0 {
			cc.Actions = append(cc.Actions, sim.Action{Kind: "skip", Slots: 1})
			continue
		}
		b := blk()
		// steady churn: with a churn limit of 1, one queued activation and one exit take effect per epoch, so the
		// active set changes while its size stays the same
		if s >= 6 {
			b.NExits = rapid.SampledFrom([]int{0, 0, 1, 1, 2}).Draw(rt, "n_exits")
		}
		if s == 9 || s == 14 {
			b.Queue = append(b.Queue, sim.DepPlan{Kind: 0, Amount: 0, Eth1: true}, sim.DepPlan{Kind: 1, Amount: 1, Target: s})
		}
		cc.Actions = append(cc.Actions, sim.Action{Kind: "block", Slots: 1, Plan: b})
	}
	return cc
}

type ConflictCase = sim.ConflictCase

func runConflict(r *report.Run, c *ConflictCase) *report.Failure {
	res := sim.RunConflict(c)
	r.Eval(int64(res.Evals))
	if res.Sig != "" {
		return report.Failf(res.Sig, "%s", res.Msg)
	}
	if res.NonTrivial {
		switch res.Class {
		case "reordered":
			r.Hit("shared-cache-same-deposits-reordered")
		case "same-history":
			r.Hit("shared-cache-sibling-behind-same-history")
		case "sibling-bad-pop-of-keys-the-cache-knows":
			r.Hit("shared-cache-sibling-bad-pop-of-keys-the-cache-knows")
		default:
			r.Hit("shared-cache-conflicting-deposit-histories")
		}
		r.NonTrivial(fmt.Sprintf("conflict|%d|%d|%d|%v|%v", c.NewM, c.NewS, c.MaxDep, c.SameKeys, c.Swapped || c.BadPopS))
		r.Sample("conflicting-deposit-histories", func() any { return c })
	}
	return nil
}

func TestCheck(t *testing.T) {
	debug.SetMaxStack(64 << 20) // runaway recursion dies fast (fatal error: stack overflow) instead of eating memory
	r := report.Begin("C08")
	defer r.Finish()
	r.Rule("generated chains (>= ~6 epochs on custom presets) with deposits that add validators mid-epoch, upgrades, sync-period boundaries, fork and reload actions at drawn points, plus a directed deposit-burst template; after every slot and block the live EpochsContext is compared field by field (shufflings incl. committees, proposers, effective balances, total stake and its square root, sync-committee indices, pubkey-cache lookups for every index and registered key) with NewEpochsContext(state); from each reload point a second instance continues from re-read bytes with a fresh context and must give identical verdicts and roots. non-trivial = >=2 epoch rotations and >=1 of {deposit-added validator, upgrade, sync rotation} before the comparison; distinct key = (fork path, event set)")
	r.Assume("steps on which the library already diverges from the reference (C01/C02's subject) end the case without a verdict", "states with an empty active set are excluded (known finding F-C02-05)")
	replay := func(raw json.RawMessage) *report.Failure {
		var probe ConflictCase
		if json.Unmarshal(raw, &probe) == nil && probe.Conflict {
			return runConflict(r, &probe)
		}
		var ds DepSibCase
		if json.Unmarshal(raw, &ds) == nil && ds.Chain != nil && len(ds.After) > 0 {
			return runDepositSiblings(r, &ds)
		}
		var cc sim.ChainCase
		if err := json.Unmarshal(raw, &cc); err != nil {
			return report.Failf("harness", "bad case: %v", err)
		}
		return run(r, &cc)
	}
	r.Regress(replay)
	if r.Replay != "" {
		return
	}
	r.Mandatory("sync-rotation-behind-an-application-wrapper", "shared-cache-sibling-bad-pop-of-keys-the-cache-knows", "shared-cache-conflicting-deposit-histories", "shared-cache-sibling-behind-same-history", "shared-cache-same-deposits-reordered", "event:deposit-added-validator", "event:validator-added-mid-epoch", "event:upgrade", "event:sync-rotation", "event:active-set-changes-at-constant-size", "reload-continuation", "fork-sibling-advanced")
	n := 2
	if r.Thorough() {
		n = 10
	}
	if !r.Search(t, "tour-deposit-burst", 100, n, func(rt *rapid.T) (any, *report.Failure) {
		cc := tourDepositBurst(rt)
		return cc, run(r, cc)
	}) {
		return
	}
	nc := 16
	if r.Thorough() {
		nc = 60
	}
	if !r.Search(t, "tour-conflicting-deposit-histories", 101, nc, func(rt *rapid.T) (any, *report.Failure) {
		c := sim.GenConflictCase(rt)
		r.Inflight(c) // a cache that recurses or loops forever kills the process: the driver then reports this case
		f := runConflict(r, c)
		r.ClearInflight()
		return c, f
	}) {
		return
	}
	r.Mandatory("deposit-siblings:trunk-deposits-then-diverging-siblings")
	if !r.Search(t, "deposit-siblings", 102, r.N(240, 4000), func(rt *rapid.T) (any, *report.Failure) {
		c := genDepositSiblings(rt)
		return c, runDepositSiblings(r, c)
	}) {
		return
	}
	opts := sim.GenOpts{CustomPct: 85, AllowMainnet: false, MaxSlots: 56, BlockPct: 70, MaxSkip: 2, OpsBias: 55, ForkReload: true}
	r.Search(t, "chains", 0, r.N(200, 3000), func(rt *rapid.T) (any, *report.Failure) {
		cc := sim.GenChainCase(rt, opts)
		return cc, run(r, cc)
	})
}
