// C08 (part): the context after single deposits ("after each ... deposit"), at the level of the exported
// phase0.ProcessDeposit, on two siblings that share what Clone() shares. At block level two forks of a chain
// can only include the SAME next deposits (the state's eth1 data fixes them), so writes of different values
// into storage shared between cloned contexts cannot be provoked there; here each sibling gets its own deposits
// (other keys, other amounts, top-ups) after the common ancestor has already taken deposits in the current
// epoch. Oracle: after every deposit, every held (state, context) pair satisfies context == NewEpochsContext(state).
// Prompted by seeded change C08-R6B (append into a slice whose spare capacity two clones share).
//
// Sensitivity (tools/trymut.py): ProcessDeposit `append(epc.EffectiveBalances[:n:n], x)` -> `append(epc.EffectiveBalances, x)`  deposit-siblings/epc-stale:EffectiveBalances
package c08

import (
	"context"
	"fmt"

	"github.com/protolambda/zrnt/eth2/beacon/common"
	"github.com/protolambda/zrnt/eth2/beacon/phase0"
	"pgregory.net/rapid"

	"zrntverif/refspec"
	"zrntverif/report"
	"zrntverif/sim"
	"zrntverif/zb"
)

type DepStep struct {
	On     int    `json:"on"`  // 0 trunk (before the split) / sibling index after it
	Key    int    `json:"key"` // >= 0: new key number; < 0: top-up of validator (-Key-1) mod registry size
	Amount uint64 `json:"amount"`
}

type DepSibCase struct {
	Chain *sim.ChainCase `json:"chain"` // how the common ancestor is reached
	Trunk []DepStep      `json:"trunk"`
	After []DepStep      `json:"after"`
}

func mkDeposit(st common.BeaconState, d *DepStep) (*common.Deposit, error) {
	var dep common.Deposit
	if d.Key >= 0 {
		dep.Data.Pubkey = common.BLSPubkey(refspec.KeyPubkey(uint64(20000 + d.Key)))
	} else {
		vals, err := st.Validators()
		if err != nil {
			return nil, err
		}
		n, err := vals.ValidatorCount()
		if err != nil || n == 0 {
			return nil, fmt.Errorf("empty registry")
		}
		v, err := vals.Validator(common.ValidatorIndex(uint64(-d.Key-1) % n))
		if err != nil {
			return nil, err
		}
		pk, err := v.Pubkey()
		if err != nil {
			return nil, err
		}
		dep.Data.Pubkey = pk
	}
	dep.Data.WithdrawalCredentials[0] = 1
	dep.Data.Amount = common.Gwei(d.Amount)
	dep.Data.Signature[0] = 0xc0 // the point at infinity: decodable, never verified here
	return &dep, nil
}

func runDepositSiblings(r *report.Run, c *DepSibCase) *report.Failure {
	cfg := c.Chain.Config.Build()
	chain, err := sim.NewChain(cfg, &c.Chain.Genesis)
	if err != nil {
		return nil
	}
	l, err := sim.NewLock(chain)
	if err != nil {
		return report.Failf("genesis/load", "%v", err)
	}
	target := uint64(0)
	for i := range c.Chain.Actions {
		a := &c.Chain.Actions[i]
		if a.Kind != "skip" {
			continue
		}
		target += uint64(a.Slots) // the reference side is not used here: library only
		if e, p := l.SkipLib(context.Background(), target); e != nil || p {
			return nil
		}
	}
	held := []*sim.Lock{{LibSpec: l.LibSpec, Lib: l.Lib, Epc: l.Epc}}
	apply := func(k int, d *DepStep, where string) *report.Failure {
		h := held[k%len(held)]
		dep, err := mkDeposit(h.Lib.BeaconState, d)
		if err != nil {
			return nil
		}
		e, p := sim.Guard(func() error { return phase0.ProcessDeposit(h.LibSpec, h.Epc, h.Lib.BeaconState, dep, true) })
		r.Eval(1)
		if p {
			return report.Failf("deposit-siblings/panic", "%s: ProcessDeposit panicked: %v", where, e)
		}
		if e != nil {
			return nil // e.g. registry limit: not this check's subject
		}
		for j, o := range held {
			if d := o.CheckEpc(); d != "" {
				return report.Failf("deposit-siblings/epc-stale:"+sim.EpcClass(d), "%s (deposit on holder %d of %d): the context of holder %d differs from NewEpochsContext(its state): %s", where, k%len(held), len(held), j, trunc(d))
			}
		}
		return nil
	}
	for i := range c.Trunk {
		if f := apply(0, &c.Trunk[i], fmt.Sprintf("trunk deposit %d", i)); f != nil {
			return f
		}
	}
	// split: CopyState + Clone(), twice
	for k := 0; k < 2; k++ {
		cp, err := held[0].Lib.BeaconState.CopyState()
		if err != nil {
			return report.Failf("harness", "CopyState: %v", err)
		}
		held = append(held, &sim.Lock{LibSpec: l.LibSpec, Lib: zb.Upgradeable(cp), Epc: held[0].Epc.Clone()})
	}
	siblingsDiffer := false
	for i := range c.After {
		d := &c.After[i]
		if f := apply(d.On, d, fmt.Sprintf("deposit %d after the split", i)); f != nil {
			return f
		}
		if d.On%len(held) != 0 {
			siblingsDiffer = true
		}
	}
	if len(c.Trunk) > 0 && siblingsDiffer {
		r.Hit("deposit-siblings:trunk-deposits-then-diverging-siblings")
		r.NonTrivial(fmt.Sprintf("deposit-siblings|%d|%d", len(c.Trunk), len(c.After)))
	}
	return nil
}

func genDepositSiblings(rt *rapid.T) *DepSibCase {
	far := refspec.FarFutureEpoch
	c := &DepSibCase{}
	fork := rapid.SampledFrom([][4]uint64{{far, far, far, far}, {1, far, far, far}, {1, 1, 1, 1}, {1, 2, 2, 3}}).Draw(rt, "forks")
	cc := &sim.ChainCase{Profile: "full", Config: sim.ConfigCase{Family: "custom", ForkEpochs: fork, Override: sim.TourBaseOverride(nil)}}
	n := rapid.IntRange(8, 20).Draw(rt, "n")
	cc.Genesis = sim.GenesisCase{N: n, GenesisTime: 1000, Eth1Seed: rapid.Uint64().Draw(rt, "eth1_seed")}
	for i := 0; i < n; i++ {
		cc.Genesis.AmountClass = append(cc.Genesis.AmountClass, 0)
		cc.Genesis.Eth1Cred = append(cc.Genesis.Eth1Cred, true)
	}
	cc.Actions = []sim.Action{{Kind: "skip", Slots: rapid.IntRange(1, 18).Draw(rt, "slots")}}
	c.Chain = cc
	amounts := []uint64{32_000_000_000, 17_000_000_000, 31_000_000_000, 1_000_000_000, 40_000_000_000, 500_000_000}
	key := 0
	step := func(on int, label string) DepStep {
		d := DepStep{On: on, Amount: rapid.SampledFrom(amounts).Draw(rt, label+"_amount")}
		if rapid.IntRange(0, 3).Draw(rt, label+"_topup") == 0 {
			d.Key = -1 - rapid.IntRange(0, 40).Draw(rt, label+"_target")
		} else {
			d.Key = key
			key++
		}
		return d
	}
	for i := rapid.IntRange(1, 3).Draw(rt, "trunk"); i > 0; i-- {
		c.Trunk = append(c.Trunk, step(0, "trunk"))
	}
	for i := rapid.IntRange(2, 6).Draw(rt, "after"); i > 0; i-- {
		c.After = append(c.After, step(rapid.IntRange(0, 2).Draw(rt, "on"), "after"))
	}
	return c
}
