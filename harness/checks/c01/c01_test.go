// C01 — block state transition equals the spec for every valid block.
package c01

import (
	"context"
	"encoding/json"
	"fmt"
	"strings"
	"testing"

	"pgregory.net/rapid"

	"zrntverif/report"
	"zrntverif/sim"
)

// run executes a chain recipe; returns the first C01 failure. Steps whose divergence belongs to
// slot/epoch processing (C02) end the case without a verdict.
func run(r *report.Run, cc *sim.ChainCase) *report.Failure {
	cfg := cc.Config.Build()
	chain, err := sim.NewChain(cfg, &cc.Genesis)
	if err != nil {
		r.Class("genesis-rejected")
		return nil
	}
	l, err := sim.NewLock(chain)
	if err != nil {
		return report.Failf("genesis/load", "%v", err)
	}
	if d := l.Compare(); d != "" {
		return report.Failf("genesis/diverge", "%s", d)
	}
	ctx := context.Background()
	for i := range cc.Actions {
		a := &cc.Actions[i]
		slot := l.ResolveSlot(a)
		switch a.Kind {
		case "skip":
			res := l.StepSkip(ctx, slot)
			if res.RefErr != nil {
				r.Class("ref-slots-error")
				return nil
			}
			if res.LibErr != nil || res.Diff != "" {
				r.Class("discarded_other_property(C02)")
				r.Note(fmt.Sprintf("C02-domain divergence seen while running C01: %v %s", res.LibErr, trunc(res.Diff)))
				return nil
			}
		case "block":
			// a sibling of the pre-state (CopyState + epc.Clone(), i.e. sharing the pubkey cache): the same valid block
			// is applied to it AFTER the original chain processed it — two forks of a chain that both include the block
			var sib *sim.Lock
			if a.Plan != nil && len(a.Plan.Queue) > 0 || i%7 == 3 {
				if s, err := l.ForkLock(); err == nil {
					sib = s
				}
			}
			res := l.StepBlock(ctx, slot, a.Plan)
			if sib != nil && res.Block != nil && res.BuildErr == nil && res.RefErr == nil && res.LibErr == nil && res.Diff == "" && res.SlotsErr == nil && res.SlotsDiff == "" && !res.BecameSkip {
				if err := sib.ApplyBlockRef(res.Block); err == nil {
					lerr, pan := sib.ApplyBlockLib(ctx, res.Block)
					r.Eval(1)
					r.Class("sibling-replays")
					if res.Info != nil && hasKind(res.Info.Kinds, "deposit") {
						r.Hit("sibling-replay-of-a-deposit-block")
					}
					if pan {
						return report.Failf("sibling/panic", "slot %d: the block the original chain accepted panics on a sibling copy of the pre-state (cloned context): %v", slot, lerr)
					}
					if lerr != nil {
						return report.Failf("sibling/rejected-valid:"+errClass(lerr), "slot %d kinds %v: a valid block accepted on the original chain is rejected on a sibling copy of the same pre-state (CopyState + EpochsContext.Clone, processed second): %v", slot, res.Info.Kinds, lerr)
					}
					if d := sib.Compare(); d != "" {
						return report.Failf("sibling/diverge:"+diffClass(d), "slot %d kinds %v: sibling copy after the same block: %s", slot, res.Info.Kinds, trunc(d))
					}
				}
			}
			if res.BecameSkip {
				r.Class("proposer-slashed-slot-skipped")
				if res.LibErr != nil || res.Diff != "" {
					r.Class("discarded_other_property(C02)")
					return nil
				}
				continue
			}
			r.Eval(1)
			if res.BuildErr != nil {
				r.Class("generator_rejects")
				r.Note("generator slip: " + trunc(res.BuildErr.Error()))
				return nil
			}
			if res.RefErr != nil {
				r.Class("generator_rejects")
				r.Note("reference rejected a built block: " + trunc(res.RefErr.Error()))
				return nil
			}
			if res.SlotsErr != nil || res.SlotsDiff != "" {
				r.Class("discarded_other_property(C02)")
				r.Note(fmt.Sprintf("C02-domain divergence seen while running C01: %v %s", res.SlotsErr, trunc(res.SlotsDiff)))
				return nil
			}
			r.Class("blocks")
			info := res.Info
			fork := []string{"phase0", "altair", "bellatrix", "capella", "deneb"}[info.Fork]
			if res.LibPanic {
				return report.Failf("block/panic", "slot %d fork %s kinds %v: %v", slot, fork, info.Kinds, res.LibErr)
			}
			if res.LibErr != nil && res.Diff != "" {
				return report.Failf("block/diverge:"+diffClass(res.Diff), "slot %d fork %s kinds %v: library state root differs from the declared one: %s", slot, fork, info.Kinds, trunc(res.Diff))
			}
			if res.LibErr != nil {
				return report.Failf("block/rejected-valid:"+errClass(res.LibErr), "slot %d fork %s kinds %v: library rejects a block the reference accepts: %v", slot, fork, info.Kinds, res.LibErr)
			}
			if res.Diff != "" {
				return report.Failf("block/diverge:"+diffClass(res.Diff), "slot %d fork %s kinds %v: %s", slot, fork, info.Kinds, trunc(res.Diff))
			}
			// accounting
			nontrivial := false
			for _, k := range info.Kinds {
				if k != "eth1-vote-change" {
					nontrivial = true
				}
			}
			r.Hit("fork:" + fork)
			if nontrivial {
				r.NonTrivial(fmt.Sprintf("%s|%s|%s", fork, strings.Join(info.Kinds, ","), info.Position))
				r.Class("nontrivial:" + fork)
				r.Sample(fork+"/"+info.Position, func() any {
					return map[string]any{"fork": fork, "slot": slot, "kinds": info.Kinds, "position": info.Position, "config": cc.Config, "validators": cc.Genesis.N, "plan": a.Plan}
				})
			} else {
				r.Class("trivial-block")
			}
			if len(realKinds(info.Kinds)) >= 3 {
				r.Hit("block-with>=3-kinds")
			}
			if strings.Contains(info.Position, "upgrade") {
				r.Hit("post-upgrade-epoch-block")
			}
			if info.ExitQueued {
				r.Hit("exit-behind-nonempty-queue")
			}
			if info.Withdrawals > 0 {
				r.Hit("withdrawal-carrying-payload")
			}
			if info.Pre != nil && len(info.Pre.Validators) > 1024 && nontrivial {
				r.Hit("block-on-registry>1024")
			}
			if info.Slips > 0 {
				r.ClassN("builder-op-slips", int64(info.Slips))
			}
			// measured, not assumed: a sync-committee member with (almost) no balance holding several seats of
			// which some participate and some do not — where per-seat order and saturation are observable
			if info.Fork >= 1 && info.Pre != nil && res.Block != nil && len(res.Block.Message.Body.SyncAggregate.Bits) == len(info.Pre.CurrentSyncCommittee.Pubkeys) {
				byKey := map[[48]byte]int{}
				for i := range info.Pre.Validators {
					byKey[info.Pre.Validators[i].Pubkey] = i
				}
				on, off := map[int]int{}, map[int]int{}
				for i, pk := range info.Pre.CurrentSyncCommittee.Pubkeys {
					vi := byKey[pk]
					if res.Block.Message.Body.SyncAggregate.Bits[i] {
						on[vi]++
					} else {
						off[vi]++
					}
				}
				for vi, k := range off {
					if on[vi] > 0 && k > 0 && info.Pre.Balances[vi] < 1_000_000 {
						r.Hit("sync-member-near-zero-balance-with-mixed-seats")
						break
					}
				}
			}
		}
	}
	return nil
}

func hasKind(ks []string, k string) bool {
	for _, x := range ks {
		if x == k {
			return true
		}
	}
	return false
}

func realKinds(ks []string) []string {
	var out []string
	for _, k := range ks {
		if !strings.HasPrefix(k, "att_") && k != "eth1-vote-change" {
			out = append(out, k)
		}
	}
	return out
}

func trunc(s string) string {
	if len(s) > 700 {
		return s[:700] + "…"
	}
	return s
}

func errClass(err error) string {
	s := err.Error()
	for _, k := range []string{"signature", "state root", "proposer", "attestation", "deposit", "exit", "slashing", "withdrawal", "payload", "sync", "randao"} {
		if strings.Contains(strings.ToLower(s), k) {
			return k
		}
	}
	return "other"
}

// diffClass names the first differing top-level field so that distinct divergences get distinct signatures.
func diffClass(d string) string {
	i := strings.Index(d, ": .")
	if i < 0 {
		return "unknown"
	}
	rest := d[i+3:]
	end := strings.IndexAny(rest, ".[: ")
	if end < 0 {
		end = len(rest)
	}
	return rest[:end]
}

func TestCheck(t *testing.T) {
	r := report.Begin("C01")
	defer r.Finish()
	r.Rule("generated (config, genesis, action list) chain recipes; every block is built valid-by-construction on the reference side and applied on both sides; non-trivial = block carries >=1 operation beyond randao/eth1-vote at slot>=1; distinct key = (fork, sorted operation-kind set, position class)")
	r.Assume("refspec/refssz (harness transcription of consensus-specs v1.5.0-beta.2, phase0..deneb) is the spec", "BLS library (bls12-381-util/kilic) trusted on both sides", "fork epochs >= 1; Electra never activated; validator sets <= 130")
	replay := func(raw json.RawMessage) *report.Failure {
		var cc sim.ChainCase
		if err := json.Unmarshal(raw, &cc); err != nil {
			return report.Failf("harness", "bad case: %v", err)
		}
		return run(r, &cc)
	}
	r.Regress(replay)
	if r.Replay != "" {
		return
	}
	r.Mandatory("fork:phase0", "fork:altair", "fork:bellatrix", "fork:capella", "fork:deneb", "block-with>=3-kinds", "post-upgrade-epoch-block", "exit-behind-nonempty-queue", "withdrawal-carrying-payload", "sync-member-near-zero-balance-with-mixed-seats", "sibling-replay-of-a-deposit-block", "block-on-registry>1024")
	// ---- class tours: directed templates for deep situations the free generator reaches too rarely
	nt := 2
	if r.Thorough() {
		nt = 24
	}
	r.Search(t, "tour-withdrawal-edges", 101, nt, func(rt *rapid.T) (any, *report.Failure) {
		cc := sim.TourWithdrawalEdges(rt, nil)
		return cc, run(r, cc)
	})
	r.Search(t, "tour-withdrawn-sync-members", 103, nt, func(rt *rapid.T) (any, *report.Failure) {
		cc := sim.TourWithdrawnSyncMembers(rt, nil)
		return cc, run(r, cc)
	})
	r.Search(t, "tour-large-registry", 104, nt/2+1, func(rt *rapid.T) (any, *report.Failure) {
		cc := sim.TourLargeRegistry(rt)
		return cc, run(r, cc)
	})
	r.Search(t, "tour-deposits", 102, nt, func(rt *rapid.T) (any, *report.Failure) {
		cc := sim.TourDeposits(rt, nil)
		return cc, run(r, cc)
	})
	opts := sim.GenOpts{CustomPct: 75, AllowMainnet: true, MaxSlots: 40, BlockPct: 75, MaxSkip: 1, OpsBias: 60}
	r.Search(t, "chains", 0, r.N(320, 5000), func(rt *rapid.T) (any, *report.Failure) {
		cc := sim.GenChainCase(rt, opts)
		return cc, run(r, cc)
	})
}
