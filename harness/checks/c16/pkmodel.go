// pkmodel — the reference model of the pubkey cache used by check C16.
//
// A handle IS a sequence of distinct keys (key = letter of a small alphabet). Nothing else:
// no parents, no trusted prefixes, no maps. The forest structure (which handle was forked from
// which, at what index) is kept only as *bookkeeping for classification*; no verdict reads it.
//
//	add(h, i, k):
//	  i == len(h)                 -> append in place, same handle          (k must be new to h)
//	  i <  len(h) and h[i] == k   -> no-op, same handle
//	  i <  len(h) and h[i] != k   -> NEW handle h[:i]+[k], h untouched     (k new to h, or k at a later index of h)
//	  i >  len(h)                 -> error, nothing changes
//	precondition kept by every real caller (deposit processing treats it as a top-up and never
//	calls AddValidator): k is not present at an index < i of h.
//
// Handles are mutable and shared: an append through one holder is visible to every holder, which is
// exactly what "two chains, one behind the other, hold the same cache" means.
package c16

const alphabetSize = 8

type handleInfo struct {
	Parent int // handle it was forked from, -1 for a root (classification only)
	ForkAt int // index of the conflict that created it (classification only)
	Depth  int // number of fork-outs between it and its root (classification only)
	Root   int // root handle of its tree (classification only)
}

type chain struct {
	H int // handle held
	N int // validator count of the chain's state: its registry is Seqs[H][:N]
}

type model struct {
	Seqs   [][]int
	Info   []handleInfo
	Chains []chain
}

// result kinds of add
const (
	resAppend = "append"
	resNoop   = "noop"
	resFork   = "fork"
	resError  = "error"
)

func (m *model) newHandle(keys []int) int {
	m.Seqs = append(m.Seqs, append([]int{}, keys...))
	id := len(m.Seqs) - 1
	m.Info = append(m.Info, handleInfo{Parent: -1, ForkAt: -1, Depth: 0, Root: id})
	return id
}

func (m *model) indexOf(h int, key int) (int, bool) {
	for i, k := range m.Seqs[h] {
		if k == key {
			return i, true
		}
	}
	return 0, false
}

func (m *model) pubkeyAt(h int, index uint64) (int, bool) {
	if index < uint64(len(m.Seqs[h])) {
		return m.Seqs[h][index], true
	}
	return 0, false
}

// addAllowed: every (index, key) may be passed to AddValidator. Real callers never pass a key that is
// already present at an EARLIER index of the same history (deposit processing tops up instead), but the
// property quantifies over any overlap of indices and keys, and the only outcome consistent with
// "a handle is a sequence of distinct pubkeys" is then an error that changes nothing (see add).
func (m *model) addAllowed(h int, index uint64, key int) bool { return true }

// classifyAdd names the (index kind, key kind) of an add before it is applied.
func (m *model) classifyAdd(h int, index uint64, key int) (ik, kk string) {
	n := uint64(len(m.Seqs[h]))
	switch {
	case index == n:
		ik = "next"
	case index < n:
		ik = "known"
	default:
		ik = "beyond"
	}
	at, ok := m.indexOf(h, key)
	switch {
	case !ok:
		kk = "fresh"
		if m.onOtherHistory(h, key) {
			kk = "fresh-but-on-other-history"
		}
	case uint64(at) == index:
		kk = "same"
	case uint64(at) > index:
		kk = "at-later-index"
	default:
		kk = "at-earlier-index"
	}
	return
}

// onOtherHistory: key absent from h but present on another handle of the same tree.
func (m *model) onOtherHistory(h int, key int) bool {
	if _, ok := m.indexOf(h, key); ok {
		return false
	}
	for o := range m.Seqs {
		if o != h && m.Info[o].Root == m.Info[h].Root {
			if _, ok := m.indexOf(o, key); ok {
				return true
			}
		}
	}
	return false
}

// add applies the action; returns the result kind and the handle the caller holds afterwards.
func (m *model) add(h int, index uint64, key int) (kind string, out int) {
	n := uint64(len(m.Seqs[h]))
	if at, ok := m.indexOf(h, key); ok && uint64(at) < index {
		// the key would appear twice on one history (or, after forking out at its old place, the
		// requested index lies beyond the next one): an error, nothing changes
		return resError, h
	}
	switch {
	case index > n:
		return resError, h
	case index == n:
		m.Seqs[h] = append(m.Seqs[h], key)
		return resAppend, h
	case m.Seqs[h][index] == key:
		return resNoop, h
	}
	ns := append(append([]int{}, m.Seqs[h][:index]...), key)
	m.Seqs = append(m.Seqs, ns)
	m.Info = append(m.Info, handleInfo{Parent: h, ForkAt: int(index), Depth: m.Info[h].Depth + 1, Root: m.Info[h].Root})
	return resFork, len(m.Seqs) - 1
}

// siblingOnlyKeys: keys that live on another handle of the same tree but not on h.
// For a forked handle these are the lookups the property singles out.
func (m *model) siblingOnlyKeys(h int) int {
	c := 0
	for k := 0; k < alphabetSize; k++ {
		if m.onOtherHistory(h, k) {
			c++
		}
	}
	return c
}
